import SecsModel.Drv.Util
import SecsModel.Drv.SecsI
/-! Model driver: one request per stdin line, one canonical answer per stdout line (DESIGN Appendix C). -/
open SecsModel.Drv

def dispatch (line : String) : String :=
  match words line with
  | "secsi" :: rest => SecsI.handle rest
  | _ => "bad-op"

partial def loop (h : IO.FS.Stream) (out : IO.FS.Stream) : IO Unit := do
  let line ← h.getLine
  if line.isEmpty then return ()
  out.putStrLn (dispatch (line.dropRightWhile (fun c => c == '\n' || c == '\r')))
  loop h out

def main : IO Unit := do
  let out ← IO.getStdout
  loop (← IO.getStdin) out
  out.flush
