import SecsModel.Basic.Bytes
import SecsModel.Basic.Py
import SecsModel.Gen.SecsIHeader
import SecsModel.Gen.HsmsHeader
import SecsModel.Gen.BlockFmt
import SecsModel.Gen.ItemHeaderVar
import SecsModel.Gen.ItemHeaderItem
import SecsModel.Gen.Misc
