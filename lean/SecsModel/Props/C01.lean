import SecsModel.Proofs.CodecRound
/-!
# C01 — SECS-II values round-trip and are encoded exactly as SEMI E5 prescribes (variables API)

Only property theorems, non-vacuity examples and witness theorems live here.
`Gen.*` is regenerated from `/repo` on every check run; `Model.Var` is the hand model tied by `tools/harness/c01.py`.
-/
namespace SecsModel.Props.C01
open SecsModel SecsModel.Spec.E5 SecsModel.Model.Var
open SecsModel.Proofs.CodecHeader SecsModel.Proofs.CodecVar SecsModel.Proofs.CodecVarDec SecsModel.Proofs.CodecRound SecsModel.Proofs.CodecSpec

/-- **Item header, all lengths.**  The translated `Base.encode_item_header` is `format code << 2 | n` followed by the fewest
big-endian length bytes for every length `0 … 0xFFFFFF` (so also at 255/256, 65535/65536, 16777215) and a `ValueError` for
every other length (16777216, …, negative). -/
theorem header_exact (code : Nat) (hc : code < 64) :
    (∀ len : Nat, Gen.ItemHeaderVar.encode (code : Int) (len : Int) = Spec.E5.header code len)
    ∧ (∀ len : Int, len < 0 → Gen.ItemHeaderVar.encode (code : Int) len = .error .valueError) :=
  ⟨fun len => var_header_exact code len hc, fun len h => var_header_neg _ len h⟩

/-- the boundaries spelled out (what `Spec.E5.header` is there) -/
example : Spec.E5.header 8 255 = .ok [0x21, 0xFF] ∧ Spec.E5.header 8 256 = .ok [0x22, 0x01, 0x00]
    ∧ Spec.E5.header 8 65535 = .ok [0x22, 0xFF, 0xFF] ∧ Spec.E5.header 8 65536 = .ok [0x23, 0x01, 0x00, 0x00]
    ∧ Spec.E5.header 8 16777215 = .ok [0x23, 0xFF, 0xFF, 0xFF] ∧ Spec.E5.header 8 16777216 = .error .valueError := by decide

/-- **Type table.**  Format code, mnemonic, element width and value range of every generated variable class are those of E5
(float ranges as bit patterns of ∓FLT_MAX / ∓DBL_MAX); `Array` and `List` are the list format. -/
theorem types_match_E5 :
    Gen.VarTypes.table.tail.map rowProj = Spec.E5.typeTable
    ∧ rowProj Gen.VarTypes.cArray = ("L", 0, 0, 0, 0) ∧ Gen.VarTypes.cArray.format_code = Gen.VarTypes.cList.format_code :=
  ⟨Proofs.CodecVar.types_match_E5, array_is_list.1, array_is_list.2⟩

/-- the struct codes and text codings of the generated classes behave as E5 needs (used by the theorems below) -/
theorem struct_codes_match_E5 (t : Ty) (e : Int) (h : t.kind = .sint ∨ t.kind = .uint ∨ t.kind = .f32 ∨ t.kind = .f64) (hok : okElem t e = true) :
    pack (rowOf t).struct_code e = elemEnc t e := pack_eq t e h hok

/-- **JIS-8 table.**  The generated `jis8_decoding_map` is the JIS X 0201 map of the Spec and is injective on the 256 bytes,
and its inverse (`jis8_encoding_map`) is the Spec's `jisByte` for every code point. -/
theorem jis8_bijective :
    Gen.Jis8.table = (List.range 256).map jisChar
    ∧ (∀ a b, a < 256 → b < 256 → jisChar a = jisChar b → a = b)
    ∧ (∀ c : Int, jisEncode c = jisByte c) :=
  ⟨jis_table_eq, jis_injective, jisEncode_eq⟩

/-- **Encode.**  For every value a variable type accepts (any nesting), `encode()` produces exactly the E5 byte string —
and fails exactly when E5 has no encoding (more than 0xFFFFFF body bytes / list elements). -/
theorem encode_exact (v : Val) (ha : Accepted v) : Model.Var.encode v = Spec.E5.encode v :=
  Proofs.CodecVar.encode_exact v ha

/-- **Round trip.**  For every accepted value without NaN, every structure it conforms to (typed leaf with its count limit,
`Dynamic`/`ANYVALUE`, `Array`, `List`, nested to any depth), any bytes before (`pre`) and after (`tail`) the item: decoding the
encoded bytes into a fresh object yields the value — an F4 element `x` as `widen (round32 x)`, nothing else changed — and returns
exactly the position after the encoded bytes. -/
theorem roundtrip (v : Val) (s : Struct) (ha : Accepted v) (hn : NoNaN v) (hs : Conforms s v) (bs : Bytes)
    (he : Model.Var.encode v = .ok bs) (pre tail : Bytes) (ht : AllBytes tail) :
    decodeAs s (pre ++ (bs ++ tail)) pre.length = .ok (norm v, pre.length + bs.length) :=
  Proofs.CodecRound.roundtrip v s ha hn hs bs he pre tail ht

/-- when every F4 element is representable in binary32 the decoded value is the value itself -/
theorem roundtrip_exact (v : Val) (s : Struct) (ha : Accepted v) (hn : NoNaN v) (hx : v.Exact32) (hs : Conforms s v) (bs : Bytes)
    (he : Model.Var.encode v = .ok bs) (pre tail : Bytes) (ht : AllBytes tail) :
    decodeAs s (pre ++ (bs ++ tail)) pre.length = .ok (v, pre.length + bs.length) := by
  have := roundtrip v s ha hn hs bs he pre tail ht
  rwa [norm_exact v hx] at this

/-- encoding the decoded value gives the same bytes again -/
theorem reencode_idempotent (v : Val) (ha : Accepted v) (hn : NoNaN v) : Spec.E5.encode (norm v) = Spec.E5.encode v :=
  encode_norm v ha hn

/-- **Every double the F4 type accepts encodes, and its encoding decodes** (the sentence of the property's `why_tests_cant`):
no accepted F4 overflows binary32 on `encode`, and none is refused by the range check on `decode`. -/
theorem f4_accepts_implies_decodes (e : Int) (count : Int) (ha : accElem .f4 e = true) (hn : nanElem .f4 e = false) (hc : ¬ (0 ≤ count ∧ count < 1)) :
    ∃ bs, Model.Var.encode (.item .f4 [e]) = .ok bs ∧ bs.length = 6
      ∧ decodeAs (.leaf .f4 count) bs 0 = .ok (.item .f4 [normElem .f4 e], 6) := by
  have hacc : Accepted (.item .f4 [e]) := by intro x hx; simp at hx; subst hx; exact ha
  have hnn : NoNaN (.item .f4 [e]) := by intro x hx; simp at hx; subst hx; exact hn
  obtain ⟨b, hb⟩ := elemEnc_ok .f4 e ha
  obtain ⟨hl, _, _⟩ := Proofs.CodecElem.elem_roundtrip .f4 e b hb
  have henc : Spec.E5.encode (.item .f4 [e]) = .ok ([0x91, 0x04] ++ b) := by
    simp only [Spec.E5.encode, encElems, hb, List.append_nil]
    have : b.length = 4 := hl
    rw [this]; rfl
  have hm : Model.Var.encode (.item .f4 [e]) = .ok ([0x91, 0x04] ++ b) := by rw [encode_exact _ hacc, henc]
  have hs : Conforms (.leaf .f4 count) (.item .f4 [e]) := ⟨rfl, by simpa [countOk, Ty.kind] using hc⟩
  have := roundtrip (.item .f4 [e]) (.leaf .f4 count) hacc hnn hs _ hm [] [] (by intro x hx; simp at hx)
  refine ⟨_, hm, by simp [hl, Ty.width], ?_⟩
  simpa [norm, hl, Ty.width] using this

/-- **`Dynamic.decode` table.**  Every E5 format except JIS-8 is dispatched to its own class, lists to `Array(ANYVALUE)`;
`ANYVALUE` allows all of them.  (JIS-8 has no entry: a `Dynamic` cannot decode a J item — modelled as the code behaves.) -/
theorem dynamic_table :
    (∀ t : Ty, t ≠ .j → dynLookup t.code = some (.leaf t) ∧ tagOk anyTags (.leaf t))
    ∧ dynLookup 0 = some .arr ∧ tagOk anyTags .arr ∧ dynLookup Ty.j.code = none :=
  ⟨fun t h => ⟨(any_leaf t h).2, (any_leaf t h).1⟩, any_arr.2, any_arr.1, by decide⟩

/-! ## non-vacuity -/

/-- a three-level nesting with a U8 maximum, an I8 minimum, F4 = 0.1 (not representable in binary32), FLT_MAX and text -/
def sample : Val :=
  .list [.item .u8 [18446744073709551615], .list [.item .i8 [-9223372036854775808], .list [.item .f4 [0x3FB999999999999A, 0x47EFFFFFE0000000]]],
         .item .a [72, 105, 255], .item .j [0xA5, 0xFF61], .item .bool [1, 0], .item .b []]

example : Accepted sample := by
  simp only [sample, Accepted, AcceptedList, List.mem_cons, List.mem_singleton, List.not_mem_nil, or_false, forall_eq_or_imp, forall_eq, and_true]
  exact ⟨by decide, ⟨by decide, by decide, by decide⟩, ⟨by decide, by decide, by decide⟩, ⟨by decide +kernel, by decide +kernel⟩,
    ⟨by decide, by decide⟩, fun _ h => h.elim⟩

example : NoNaN sample := by
  simp only [sample, NoNaN, NoNaNList, List.mem_cons, List.mem_singleton, List.not_mem_nil, or_false, forall_eq_or_imp, forall_eq, and_true]
  exact ⟨by decide, ⟨by decide, by decide, by decide⟩, ⟨by decide, by decide, by decide⟩, ⟨by decide, by decide⟩,
    ⟨by decide, by decide⟩, fun _ h => h.elim⟩

example : Conforms (.record [.leaf .u8 1, .dyn [.arr] (-1), .leaf .a 3, .leaf .j (-1), .dyn [] 2, .leaf .b (-1)]) sample := by
  simp only [sample, Conforms, ConformsZip, NoJList, NoJ, List.length_cons, List.length_nil, and_true, true_and]
  decide

example : Model.Var.encode sample = .ok [0x01, 0x06, 0xA1, 0x08, 0xFF, 0xFF, 0xFF, 0xFF, 0xFF, 0xFF, 0xFF, 0xFF, 0x01, 0x02, 0x61, 0x08, 0x80, 0, 0, 0, 0, 0, 0, 0,
    0x01, 0x01, 0x91, 0x08, 0x3D, 0xCC, 0xCC, 0xCD, 0x7F, 0x7F, 0xFF, 0xFF, 0x41, 0x03, 72, 105, 255, 0x45, 0x02, 0x5C, 0xA1, 0x25, 0x02, 1, 0, 0x21, 0x00] := by
  decide +kernel

/-- a 256-byte binary item needs two length bytes -/
example : (Model.Var.encode (.item .b (List.replicate 256 7))).map (·.take 4) = .ok [0x22, 0x01, 0x00, 7] := by decide +kernel

/-- an F4 that is not binary32-representable comes back rounded, not equal -/
example : norm (.item .f4 [0x3FB999999999999A]) = .item .f4 [0x3FB99999A0000000] := by rfl

end SecsModel.Props.C01
