import SecsModel.Proofs.HsmsTcpSend
import SecsModel.Gen.HsmsGuards
import SecsModel.Gen.BlockSend
/-!
# C10 — The TCP transport delivers every accepted byte exactly once and in order

`Model.TcpSend` is the hand model of `TcpConnection.send_data` and of `HsmsProtocol._process_send_queue`; the socket is an oracle list.
What the kernel does with the bytes `send()` accepted (in-order, exactly-once delivery of a TCP stream) is *assumed*, not modelled:
the theorems speak about the byte sequence handed to the socket.  Only property theorems, non-vacuity examples and witnesses live here.
-/
namespace SecsModel.Props.C10
open SecsModel SecsModel.Model.TcpSend SecsModel.Proofs.HsmsTcpSend SecsModel.Model.Rx SecsModel.Proofs.HsmsRx

/-- the packet size extracted from `HsmsProtocol.send_packet_size` is positive (a zero size would make the slicing `range` raise) -/
theorem packet_size_pos : 0 < packetSize := by decide

/-- **what `close()` does to accepted bytes is the kernel's default**: the only socket options the TCP connection classes set are
`SO_KEEPALIVE` on the connected/accepted socket and `SO_REUSEADDR` on the listener — in particular no `SO_LINGER`, which would let a local
close discard bytes `send()` has already accepted (the theorems below speak about the bytes handed to the socket; that those arrive is the
assumed behaviour of TCP *with default close semantics*) -/
theorem socket_options :
    Gen.HsmsGuards.sockOpts =
      [("tcp_client_connection.py", "self._socket", "socket.SOL_SOCKET", "socket.SO_KEEPALIVE"),
       ("tcp_server_connection.py", "self._server_sock", "socket.SOL_SOCKET", "socket.SO_REUSEADDR"),
       ("tcp_server_connection.py", "self._socket", "socket.SOL_SOCKET", "socket.SO_KEEPALIVE")] := by decide

/-- **One writer** (generated fact): the only method of `Protocol` / `HsmsProtocol` that calls `self._connection.send_data` is
`_process_send_queue` — every `send_*` goes through `send_message` and the send queue, so the packets of a block are written back to back by
one thread (`sendBlock`/`processQueue` are the whole story of what reaches the socket) and no frame can land between two partial writes of
another. -/
theorem single_writer : Gen.HsmsGuards.sendDataCallers = ["HsmsProtocol._process_send_queue"] := by decide

/-- **`send_message` says True only for what `_process_send_queue` resolved True** (generated facts of `Gen.BlockSend`, shared with C17:
`BlockSendInfo.wait` waits on the result event *without a time-out* and returns `_result == SENT_OK`; `resolve(bool)` maps True/False to
SENT_OK/SENT_ERROR; `Protocol.send_message` queues every block, waits for each and stops with False at the first that is not True).
`block_resolve`, `queue_blocks` and `compose_with_framing` speak about "resolved True"; this is the link from there to the value the caller
of `send_message` / `send_response` / `send_and_waitfor_response` sees.  A bounded wait, or a result test that lets the initial NOT_SENT
state count as success, re-opens it. -/
theorem send_message_truthful :
    Gen.BlockSend.waitUnbounded = true ∧ Gen.BlockSend.waitReturnsSentOk = true ∧ Gen.BlockSend.resolveMapsBool = true
      ∧ Gen.BlockSend.sendWaitsEveryBlock = true := by decide

/-- **send all or report failure — all data, all socket behaviours.**  Whatever the socket answers (short writes of any size, `EWOULDBLOCK`,
`select` time-outs, errors, in any order): the bytes handed to the socket are always a prefix of `data` (in order, nothing duplicated);
`True` is returned only when that prefix is all of `data`; `False` only after the socket raised a real error. -/
theorem send_all_or_false (d : Bytes) (o : List SockAns) :
    (sendData d o).written <+: d
    ∧ ((sendData d o).outcome = .ok → (sendData d o).written = d)
    ∧ ((sendData d o).outcome = .fail → ∃ pre, o = pre ++ .error :: (sendData d o).rest ∧ ∀ a ∈ pre, a ≠ .error) := by
  obtain ⟨t, ht, hok⟩ := sendData_written o d
  refine ⟨⟨t, ht.symm⟩, ?_, sendData_fail o d⟩
  intro h
  have := hok h
  rw [this, List.append_nil] at ht
  exact ht.symm

/-- **no false failure / no endless loop when the peer drains**: without socket errors, once the socket has been written to and has taken
`len(data)` bytes in total (however slowly), `send_data` returns `True` -/
theorem send_completes (d : Bytes) (o : List SockAns) (hne : ∀ a ∈ o, a ≠ .error) (hacc : ∃ k, SockAns.accept k ∈ o)
    (hs : d.length ≤ (o.map gain).sum) : (sendData d o).outcome = .ok ∧ (sendData d o).written = d := by
  have h := sendData_completes o d hne hacc hs
  exact ⟨h, (send_all_or_false d o).2.1 h⟩

/-- non-vacuity: ten bytes against a socket that takes three bytes per call, with an `EWOULDBLOCK` and a `select` time-out in between -/
example : sendData [0, 1, 2, 3, 4, 5, 6, 7, 8, 9] [.accept 3, .wouldBlock, .accept 3, .selTimeout, .accept 3, .accept 3, .accept 3]
    = ⟨.ok, [0, 1, 2, 3, 4, 5, 6, 7, 8, 9], [.accept 3]⟩ := by decide
/-- … and an error after six bytes: `False`, six bytes (a prefix) written -/
example : sendData [0, 1, 2, 3, 4, 5, 6, 7, 8, 9] [.accept 3, .accept 3, .error, .accept 3]
    = ⟨.fail, [0, 1, 2, 3, 4, 5], [.accept 3]⟩ := by decide

/-- **witness for the repaired defect** (F-14, `fixed:` in `known_findings.txt`): a `send_data` that ignores the return value of
`sock.send` reports `True` with three of ten bytes written — the model distinguishes the two -/
theorem short_write_witness :
    sendDataIgnoringShortWrite [0, 1, 2, 3, 4, 5, 6, 7, 8, 9] [.accept 3] = ⟨.ok, [0, 1, 2], []⟩
    ∧ (sendData [0, 1, 2, 3, 4, 5, 6, 7, 8, 9] [.accept 3]).outcome = .pending := by decide

/-- **packet split**: the slices `_process_send_queue` cuts a block into concatenate to the block, for the generated packet size -/
theorem packets_concat (d : Bytes) : (Model.SecsI.chunks packetSize d).flatten = d :=
  Proofs.HsmsTcpSend.packets_concat packetSize packet_size_pos d

/-- **a block resolved `True` was written completely and in order**; in every case what was written is a prefix of the block -/
theorem block_resolve (d : Bytes) (o : List SockAns) :
    (sendBlock packetSize d o).written <+: d ∧ ((sendBlock packetSize d o).outcome = .ok → (sendBlock packetSize d o).written = d) := by
  obtain ⟨t, ht, hok⟩ := sendBlock_written packetSize packet_size_pos d o
  refine ⟨⟨t, ht.symm⟩, ?_⟩
  intro h
  have := hok h
  rw [this, List.append_nil] at ht
  exact ht.symm

/-- non-vacuity of the split with a small size: 5 bytes in packets of 2, the socket taking one byte per call -/
example : sendBlock 2 [1, 2, 3, 4, 5] [.accept 1, .accept 1, .accept 1, .accept 1, .accept 1] = ⟨.ok, [1, 2, 3, 4, 5], []⟩ := by
  decide +kernel

/-- **every queued block gets its own, truthful result — all socket behaviours.**  One run of `_process_send_queue` (which goes on with the
next block after a failed one): for each block taken from the queue the bytes written for it are a prefix of it, and all of it if it was
resolved `True`; unless the oracle ran out inside a send, every block of the queue is resolved and the queue is empty. -/
theorem queue_blocks (q : List Bytes) (o : List SockAns) :
    (processQueue packetSize q o).resolved.length ≤ q.length
    ∧ (processQueue packetSize q o).parts.length = (processQueue packetSize q o).resolved.length + (if (processQueue packetSize q o).pending then 1 else 0)
    ∧ (∀ x ∈ List.zip (processQueue packetSize q o).parts q, x.1 <+: x.2)
    ∧ (∀ x ∈ List.zip (processQueue packetSize q o).resolved (List.zip (processQueue packetSize q o).parts q), x.1 = true → x.2.1 = x.2.2)
    ∧ ((processQueue packetSize q o).pending = false → (processQueue packetSize q o).resolved.length = q.length ∧ (processQueue packetSize q o).queue = []) :=
  processQueue_blocks packetSize packet_size_pos q o

/-- **the queue keeps order** (socket that stays failed once it failed — `ECONNRESET`, `EPIPE`): the byte stream of one run is the leading
blocks resolved `True`, complete and in queue order, followed by a prefix of the block that failed / is still being sent, and nothing of any
later block -/
theorem queue_in_order (q : List Bytes) (o : List SockAns) (hst : Sticky o) :
    let r := processQueue packetSize q o
    let n := leadTrue r.resolved
    ∃ part t, r.written = (q.take n).flatten ++ part ∧ (q.drop n).head?.getD [] = part ++ t
      ∧ (r.resolved = List.replicate q.length true → part = [] ∧ r.queue = [] ∧ r.pending = false) ∧ n ≤ q.length :=
  processQueue_written packetSize packet_size_pos q o hst

/-- non-vacuity: sticky oracles exist with and without an error; three blocks, the socket breaks inside the second -/
example : Sticky [.accept 3, .wouldBlock, .accept 5] ∧ Sticky [.accept 3, .error, .error] ∧ ¬ Sticky [.error, .accept 1] := by
  refine ⟨trivial, ?_, ?_⟩
  · intro a ha; simp at ha; exact ha
  · intro h; have := h (.accept 1) (by simp); cases this
example :
    let r := processQueue 4 [[1, 2], [3, 4, 5], [6]] [.accept 2, .accept 1, .error, .error, .error]
    r.resolved = [true, false, false] ∧ r.parts = [[1, 2], [3], []] ∧ r.queue = [] ∧ r.pending = false ∧ leadTrue r.resolved = 1 := by
  decide +kernel

/-- **regression witness for the repaired defect** (`fixed:` 8ac2aeb): the loop that *returned* after a failed block left the blocks behind
it in the queue, unresolved — the loop that exists resolves every one of them -/
theorem returning_loop_strands_queue :
    (processQueueReturning 4 [[1, 2], [3, 4, 5], [6]] [.accept 2, .error, .error]).queue = [[6]]
    ∧ (processQueueReturning 4 [[1, 2], [3, 4, 5], [6]] [.accept 2, .error, .error]).resolved = [true, false]
    ∧ (processQueue 4 [[1, 2], [3, 4, 5], [6]] [.accept 2, .error, .error]).queue = []
    ∧ (processQueue 4 [[1, 2], [3, 4, 5], [6]] [.accept 2, .error, .error]).resolved = [true, false, false] := by decide +kernel

theorem head_drop_map (bs : List Block) (n : Nat) :
    ((bs.map frameOf).drop n).head?.getD [] = match bs.drop n with | [] => [] | b :: _ => frameOf b := by
  rw [← List.map_drop]; cases bs.drop n <;> simp

/-- **composition with C04.**  Valid HSMS blocks are queued; the socket behaves in any way but stays failed once it failed; the peer reads the written stream in any
segmentation and runs the receive loop of `Model.Rx`.  Then every leading block resolved `True` is delivered to the peer — exactly once, in order —
what is delivered is always a prefix of what was queued, no run of the peer's loop meets an undecodable frame, and if all blocks were
resolved `True` the peer has exactly the queued blocks and an empty buffer. -/
theorem compose_with_framing (bs : List Block) (hv : ∀ b ∈ bs, Valid b) (o : List SockAns) (hst : Sticky o) (chunks : List Bytes)
    (hc : chunks.flatten = (processQueue packetSize (bs.map frameOf) o).written) :
    let r := processQueue packetSize (bs.map frameOf) o
    let n := leadTrue r.resolved
    let s := chunks.foldl feed Rx.init
    bs.take n <+: s.delivered ∧ s.delivered <+: bs ∧ s.aborts = 0
      ∧ (r.resolved = List.replicate bs.length true → s = ⟨[], bs, 0⟩) := by
  intro r n s
  obtain ⟨part, t, hw, hh, hall, hn⟩ := processQueue_written packetSize packet_size_pos (bs.map frameOf) o hst
  have htake : ((bs.map frameOf).take n).flatten = wire (bs.take n) := by simp [wire, List.map_take]
  have hvt : ∀ b ∈ bs.take n, Valid b := fun b hb => hv b (List.mem_of_mem_take hb)
  -- what the loop makes of the partial block at the end
  have key : (extract part).aborted = false ∧ bs.take n ++ (extract part).frames <+: bs
      ∧ (part = [] → (extract part).frames = [] ∧ (extract part).rest = []) := by
    refine ⟨?_, ?_, fun h => by rw [h, extract_nil]; exact ⟨rfl, rfl⟩⟩
    · cases hd : bs.drop n with
      | nil =>
        have : part ++ t = [] := by
          have := hh; rw [head_drop_map, hd] at this; exact this.symm
        have hp : part = [] := (List.append_eq_nil_iff.mp this).1
        rw [hp, extract_nil]
      | cons b' rest =>
        have hf : frameOf b' = part ++ t := by
          have := hh; rw [head_drop_map, hd] at this; exact this
        have hb' : Valid b' := hv b' (by
          have : b' ∈ bs.drop n := by rw [hd]; simp
          exact List.mem_of_mem_drop this)
        have he : extract (part ++ t) = ⟨[b'], [], false⟩ := by
          have := extract_frame b' hb' []
          rw [List.append_nil, extract_nil] at this
          rw [← hf]; exact this
        exact not_aborted_prefix part t (by rw [he])
    · cases hd : bs.drop n with
      | nil =>
        have : part ++ t = [] := by
          have := hh; rw [head_drop_map, hd] at this; exact this.symm
        have hp : part = [] := (List.append_eq_nil_iff.mp this).1
        rw [hp, extract_nil, List.append_nil]
        exact List.take_prefix n bs
      | cons b' rest =>
        have hf : frameOf b' = part ++ t := by
          have := hh; rw [head_drop_map, hd] at this; exact this
        have hb' : Valid b' := hv b' (by
          have : b' ∈ bs.drop n := by rw [hd]; simp
          exact List.mem_of_mem_drop this)
        have he : extract (part ++ t) = ⟨[b'], [], false⟩ := by
          have := extract_frame b' hb' []
          rw [List.append_nil, extract_nil] at this
          rw [← hf]; exact this
        have hp := frames_prefix part t
        rw [he] at hp
        have hbs : bs = bs.take n ++ b' :: rest := by rw [← hd, List.take_append_drop]
        have h1 : (extract part).frames <+: b' :: rest := List.IsPrefix.trans hp ⟨rest, rfl⟩
        have h2 : bs.take n ++ (extract part).frames <+: bs.take n ++ b' :: rest := (List.prefix_append_right_inj _).mpr h1
        rw [← hbs] at h2
        exact h2
  obtain ⟨hna, hpre, hnil⟩ := key
  have hstream : chunks.flatten = wire (bs.take n) ++ part := by rw [hc, hw, htake]
  have hex := extract_wire (bs.take n) hvt part
  have hfold := foldl_feed chunks Rx.init settled_nil (by
    simp only [Rx.init, List.nil_append, hstream, hex]; exact hna)
  simp only [Rx.init, List.nil_append, hstream, hex] at hfold
  have hs : s = ⟨(extract part).rest, bs.take n ++ (extract part).frames, 0⟩ := hfold
  refine ⟨?_, ?_, ?_, ?_⟩
  · rw [hs]; exact List.prefix_append _ _
  · rw [hs]; exact hpre
  · rw [hs]
  · intro hrep
    have hlen : (bs.map frameOf).length = bs.length := List.length_map _
    obtain ⟨hp, _, _⟩ := hall (by rw [hlen]; exact hrep)
    obtain ⟨hf, hr⟩ := hnil hp
    have hn' : n = bs.length := by
      show leadTrue r.resolved = bs.length
      rw [hrep]; exact leadTrue_replicate _
    rw [hs, hf, hr, hn', List.take_length, List.append_nil]

example : Sticky (List.replicate 7 (SockAns.accept 5)) := by simp [List.replicate, Sticky]

/-- non-vacuity of the composition: two blocks, a socket that takes 5 bytes per call, the peer reading 4-byte segments -/
example :
    let b1 : Block := ⟨⟨0x01020304, 0, 1, 13, true, 0, 0⟩, [1, 2, 3]⟩
    let b2 : Block := ⟨⟨7, 0xFFFF, 0, 0, false, 0, 5⟩, []⟩
    let r := processQueue packetSize [frameOf b1, frameOf b2] (List.replicate 7 (.accept 5))
    r.resolved = [true, true] ∧ (Model.SecsI.chunks 4 r.written).foldl feed Rx.init = ⟨[], [b1, b2], 0⟩ := by
  decide +kernel

end SecsModel.Props.C10
