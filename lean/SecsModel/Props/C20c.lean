import SecsModel.Model.GemRcmd
import SecsModel.Model.GemHost
import SecsModel.Props.C12
import SecsModel.Props.C13
/-!
# C20 (part c) — remote commands, and the host side of event reports and alarms

`Model.Gem.Rcmd` / `Model.Gem.Host` are hand models of `remote_control_capability.py` and `hosthandler.py`; the pair composes the
host with the equipment models of C12 (`Model.Gem.Ev`) and C13 (`Model.Gem.Tab`) over a FIFO link.
-/
namespace SecsModel.Props.C20c
open SecsModel SecsModel.Model.Gem SecsModel.Spec.EventReports SecsModel.Proofs.Gem SecsModel.Proofs.Gem.Ev
open SecsModel.Model.Gem.Rcmd SecsModel.Model.Gem.Host

/-! ## remote commands -/

/-- the HCACK the command table assigns to a request with a text RCMD -/
def hcackOf (cfg : Rcmd.Cfg) (n : String) (ps : List (Id × Val)) : Nat :=
  match cfg.find n with
  | none => 1
  | some c => if !hasCallback cfg n then 1 else if badParam c ps then 3 else 4

def isReply : Eff → Bool
  | .reply _ => true
  | _ => false

def isCall : Eff → Bool
  | .call _ _ => true
  | _ => false

/-- **S2F41, text RCMD.**  Exactly one S2F42 is sent and it is the first effect, with the HCACK of the table; the callback
is invoked iff HCACK = 4, then exactly once, with exactly the given parameters as keyword arguments, after the S2F42;
a callback that returns is followed by the trigger of the command's finished event and nothing else, a callback that raises
by an S2F0 (after the S2F42) and no trigger; with HCACK ≠ 4 nothing else happens. -/
theorem s2f41_behaviour (cfg : Rcmd.Cfg) (n : String) (ps : List (Id × Val)) :
    (s2f41 cfg (.text n) ps).filter isReply = [.reply (hcackOf cfg n ps)]
    ∧ (s2f41 cfg (.text n) ps).head? = some (.reply (hcackOf cfg n ps))
    ∧ (hcackOf cfg n ps ≠ 4 → s2f41 cfg (.text n) ps = [.reply (hcackOf cfg n ps)])
    ∧ (hcackOf cfg n ps = 4 → ∃ c, cfg.find n = some c ∧
        s2f41 cfg (.text n) ps = [.reply 4, .call n (kwargsOf ps)] ++
          (if raises cfg n then [.abort] else [.trigger c.ceFinished])) := by
  cases hf : cfg.find n with
  | none => simp [s2f41, hcackOf, hf, isReply]
  | some c =>
    cases h1 : hasCallback cfg n <;> cases h2 : badParam c ps <;> cases h3 : raises cfg n <;>
      simp [s2f41, hcackOf, hf, h1, h2, h3, isReply, List.filter_cons]

/-- the callback is called at most once, and once exactly when HCACK = 4 -/
theorem callback_once (cfg : Rcmd.Cfg) (n : String) (ps : List (Id × Val)) :
    ((s2f41 cfg (.text n) ps).filter isCall).length = (if hcackOf cfg n ps = 4 then 1 else 0) := by
  by_cases h : hcackOf cfg n ps = 4
  · obtain ⟨c, _, he⟩ := (s2f41_behaviour cfg n ps).2.2.2 h
    rw [he, if_pos h]
    cases hr : raises cfg n <;> simp [isCall, List.filter_cons]
  · rw [(s2f41_behaviour cfg n ps).2.2.1 h, if_neg h]
    simp [isCall]

/-- a numeric RCMD item: the handler raises before anything else, S2F0 is the only effect -/
theorem s2f41_not_text (cfg : Rcmd.Cfg) (ps : List (Id × Val)) : s2f41 cfg .notText ps = [.abort] := rfl

/-- **`send_remote_command`** returns the S2F42 with the table's HCACK, for list and for OrderedDict parameters alike -/
theorem send_remote_command_result (cfg : Rcmd.Cfg) (n : String) (ps : HostParams) :
    (sendRemoteCommand cfg n ps).2 = some (.reply (hcackOf cfg n (hostParams ps))) := by
  unfold sendRemoteCommand
  have h := (s2f41_behaviour cfg n (hostParams ps)).2.1
  simp only
  cases he : s2f41 cfg (.text n) (hostParams ps) with
  | nil => rw [he] at h; cases h
  | cons e t => rw [he] at h; simp only [List.head?_cons, Option.some.injEq] at h; subst h; rfl

example : s2f41 ⟨[⟨"GO", [.text "P1"], .nums [5001]⟩], ["GO"], []⟩ (.text "GO") [(.text "P1", .nums [1]), (.text "P1", .nums [2])]
    = [.reply 4, .call "GO" [(.text "P1", .nums [2])], .trigger (.nums [5001])] := by decide +kernel
example : s2f41 ⟨[⟨"GO", [.text "P1"], .nums [5001]⟩], ["GO"], ["GO"]⟩ (.text "GO") []
    = [.reply 4, .call "GO" [], .abort] := by decide +kernel
example : s2f41 ⟨[⟨"GO", [.text "P1"], .nums [5001]⟩], ["GO"], []⟩ (.text "GO") [(.text "P2", .nums [1])] = [.reply 3] := by decide +kernel
example : s2f41 ⟨[⟨"GO", [.text "P1"], .nums [5001]⟩], [], []⟩ (.text "GO") [] = [.reply 1] := by decide +kernel

/-! ## host events over the pair -/

/-- the host's subscriptions agree with the equipment's report definitions; report ids are the host's own counter values -/
def Sync (cfg : Ev.Cfg) (p : Pair) : Prop :=
  Inv cfg p.eq
  ∧ (∀ e ∈ p.eq.conf.reports, p.host.subs.lookup e.1 = some e.2)
  ∧ (∀ e ∈ p.eq.conf.reports, ∃ n, e.1 = .nums [n] ∧ n < p.host.counter)

theorem step_fst_s2f33 (cfg : Ev.Cfg) (s : Ev.St) (d : List RptReq) : (Ev.step cfg s (.s2f33 d)).1 = (Ev.s2f33 cfg s d).1 := by
  simp only [Ev.step]
theorem step_fst_s2f35 (cfg : Ev.Cfg) (s : Ev.St) (d : List LinkReq) : (Ev.step cfg s (.s2f35 d)).1 = (Ev.s2f35 cfg s d).1 := by
  simp only [Ev.step]
theorem step_fst_s2f37 (cfg : Ev.Cfg) (s : Ev.St) (b : Bool) (cs : List Id) : (Ev.step cfg s (.s2f37 b cs)).1 = (Ev.s2f37 s b cs).1 := by
  simp only [Ev.step]

theorem reports_s2f37 (s : Ev.St) (b : Bool) (cs : List Id) : (Ev.s2f37 s b cs).1.conf.reports = s.conf.reports := by
  unfold Ev.s2f37; split <;> rfl

theorem reports_s2f35 (cfg : Ev.Cfg) (s : Ev.St) (e : LinkReq) : (Ev.s2f35 cfg s [e]).1.conf.reports = s.conf.reports := by
  by_cases ha : (Ev.s2f35 cfg s [e]).2 = .code 0
  · rw [C12.s2f35_accepted_effect cfg s _ ha]
    simp only [s2f35Effect, List.foldl_cons, List.foldl_nil]
    exact reports_s2f35Entry _ _
  · rw [C12.s2f35_refused_unchanged cfg s _ ha]

/-- what a single-entry S2F33 can do to the report table -/
theorem reports_s2f33_single (cfg : Ev.Cfg) (s : Ev.St) (r : Id) (dvs : List Id) :
    (Ev.s2f33 cfg s [⟨r, dvs⟩]).1.conf.reports = s.conf.reports
    ∨ (Ev.s2f33 cfg s [⟨r, dvs⟩]).1.conf.reports = s.conf.reports.set r dvs
    ∨ (Ev.s2f33 cfg s [⟨r, dvs⟩]).1.conf.reports = s.conf.reports.filter (fun e => !(e.1 = r)) := by
  by_cases ha : (Ev.s2f33 cfg s [⟨r, dvs⟩]).2 = .code 0
  · rw [C12.s2f33_accepted_effect cfg s _ ha]
    simp only [s2f33Effect, reduceCtorEq, if_false, List.foldl_cons, List.foldl_nil, s2f33Entry]
    split
    · exact Or.inr (Or.inr rfl)
    · exact Or.inr (Or.inl rfl)
  · rw [C12.s2f33_refused_unchanged cfg s _ ha]; exact Or.inl rfl

/-- only automatically numbered subscriptions (`report_id=None`) -/
def AutoOnly (ops : List Host.Op) : Prop := ∀ op ∈ ops, ∀ c d r, op = Host.Op.subscribe c d r → r = none

theorem step_sync (cfg : Ev.Cfg) (p : Pair) (op : Host.Op) (ha : ∀ c d r, op = Host.Op.subscribe c d r → r = none)
    (h : Sync cfg p) : Sync cfg (Host.step cfg p op).1 := by
  obtain ⟨hinv, hsub, hfresh⟩ := h
  cases op with
  | subscribe ceid dvs rid =>
    have : rid = none := ha ceid dvs rid rfl
    subst this
    simp only [Host.step, Host.subscribe]
    -- the three equipment steps
    have i1 : Inv cfg (Ev.s2f33 cfg p.eq [⟨.nums [p.host.counter], dvs⟩]).1 := by
      rw [← step_fst_s2f33]; exact C12.step_inv cfg _ _ hinv
    have i2 : Inv cfg (Ev.s2f35 cfg (Ev.s2f33 cfg p.eq [⟨.nums [p.host.counter], dvs⟩]).1 [⟨ceid, [.nums [p.host.counter]]⟩]).1 := by
      rw [← step_fst_s2f35]; exact C12.step_inv cfg _ _ i1
    have i3 : Inv cfg (Ev.s2f37 (Ev.s2f35 cfg (Ev.s2f33 cfg p.eq [⟨.nums [p.host.counter], dvs⟩]).1
        [⟨ceid, [.nums [p.host.counter]]⟩]).1 true [ceid]).1 := by
      rw [← step_fst_s2f37 cfg]; exact C12.step_inv cfg _ _ i2
    have hrep : (Ev.s2f37 (Ev.s2f35 cfg (Ev.s2f33 cfg p.eq [⟨.nums [p.host.counter], dvs⟩]).1
        [⟨ceid, [.nums [p.host.counter]]⟩]).1 true [ceid]).1.conf.reports
        = (Ev.s2f33 cfg p.eq [⟨.nums [p.host.counter], dvs⟩]).1.conf.reports := by
      rw [reports_s2f37, reports_s2f35]
    refine ⟨i3, ?_, ?_⟩
    · intro e he
      rw [hrep] at he
      simp only
      rcases reports_s2f33_single cfg p.eq (.nums [p.host.counter]) dvs with h1 | h1 | h1
      · rw [h1] at he
        obtain ⟨n, hn, hlt⟩ := hfresh e he
        have hne : Id.nums [p.host.counter] ≠ e.1 := by
          rw [hn]; intro hc; injection hc with hc; injection hc with hc; omega
        rw [AList.lookup_set_ne hne]; exact hsub e he
      · rw [h1] at he
        rcases AList.mem_set he with he | he
        · obtain ⟨n, hn, hlt⟩ := hfresh e he
          have hne : Id.nums [p.host.counter] ≠ e.1 := by
            rw [hn]; intro hc; injection hc with hc; injection hc with hc; omega
          rw [AList.lookup_set_ne hne]; exact hsub e he
        · subst he; exact AList.lookup_set_self
      · rw [h1] at he
        have he' := (List.mem_filter.mp he).1
        obtain ⟨n, hn, hlt⟩ := hfresh e he'
        have hne : Id.nums [p.host.counter] ≠ e.1 := by
          rw [hn]; intro hc; injection hc with hc; injection hc with hc; omega
        rw [AList.lookup_set_ne hne]; exact hsub e he'
    · intro e he
      rw [hrep] at he
      simp only
      rcases reports_s2f33_single cfg p.eq (.nums [p.host.counter]) dvs with h1 | h1 | h1
      · rw [h1] at he
        obtain ⟨n, hn, hlt⟩ := hfresh e he
        exact ⟨n, hn, by omega⟩
      · rw [h1] at he
        rcases AList.mem_set he with he | he
        · obtain ⟨n, hn, hlt⟩ := hfresh e he
          exact ⟨n, hn, by omega⟩
        · subst he; exact ⟨p.host.counter, rfl, by omega⟩
      · rw [h1] at he
        obtain ⟨n, hn, hlt⟩ := hfresh e (List.mem_filter.mp he).1
        exact ⟨n, hn, by omega⟩
  | clear =>
    simp only [Host.step]
    have i1 : Inv cfg (Ev.s2f37 p.eq false []).1 := by rw [← step_fst_s2f37 cfg]; exact C12.step_inv cfg _ _ hinv
    have i2 : Inv cfg (Ev.s2f33 cfg (Ev.s2f37 p.eq false []).1 []).1 := by rw [← step_fst_s2f33]; exact C12.step_inv cfg _ _ i1
    have hempty : (Ev.s2f33 cfg (Ev.s2f37 p.eq false []).1 []).1.conf.reports = [] := by
      simp [Ev.s2f33, Ev.pre33]
    refine ⟨i2, ?_, ?_⟩ <;> (intro e he; rw [hempty] at he; cases he)
  | disableReports =>
    simp only [Host.step]
    have i1 : Inv cfg (Ev.s2f33 cfg p.eq []).1 := by rw [← step_fst_s2f33]; exact C12.step_inv cfg _ _ hinv
    have hempty : (Ev.s2f33 cfg p.eq []).1.conf.reports = [] := by simp [Ev.s2f33, Ev.pre33]
    refine ⟨i1, ?_, ?_⟩ <;> (intro e he; rw [hempty] at he; cases he)
  | disableCeids =>
    simp only [Host.step]
    have i1 : Inv cfg (Ev.s2f37 p.eq false []).1 := by rw [← step_fst_s2f37 cfg]; exact C12.step_inv cfg _ _ hinv
    refine ⟨i1, ?_, ?_⟩
    · intro e he; rw [reports_s2f37] at he; exact hsub e he
    · intro e he; rw [reports_s2f37] at he; exact hfresh e he
  | trigger cs => exact ⟨hinv, hsub, hfresh⟩
  | setSv v x => exact ⟨C12.step_inv cfg p.eq (.setSv v x) hinv, hsub, hfresh⟩
  | setDv v x => exact ⟨C12.step_inv cfg p.eq (.setDv v x) hinv, hsub, hfresh⟩

theorem run_sync (cfg : Ev.Cfg) : ∀ (ops : List Host.Op) (p : Pair), AutoOnly ops → Sync cfg p → Sync cfg (Host.run cfg p ops)
  | [], _, _, h => h
  | op :: ops, p, ha, h =>
    run_sync cfg ops _ (fun o ho => ha o (List.mem_cons_of_mem _ ho)) (step_sync cfg p op (ha op List.mem_cons_self) h)

theorem init_sync (cfg : Ev.Cfg) : Sync cfg Pair.init :=
  ⟨C12.init_inv cfg, by intro e he; simp [Pair.init, Ev.St.init] at he, by intro e he; simp [Pair.init, Ev.St.init] at he⟩

theorem pairValues_zip : ∀ (dvs : List Id) (vals : List Val), dvs.length = vals.length → pairValues dvs vals = .ok (dvs.zip vals)
  | [], _, _ => rfl
  | d :: ds, [], h => by simp at h
  | d :: ds, v :: vs, h => by
    simp only [pairValues, pairValues_zip ds vs (by simpa using h), List.zip_cons_cons]

/-- what the host does with one well-formed report list: one `collection_event_received` per report, the subscribed dv ids
paired in order with the current values, then S6F12 -/
def Delivered (cfg : Ev.Cfg) (p : Pair) (c : Id) (rpts : List (Id × List Val)) (effs : List HostEff) : Prop :=
  ∃ evs, effs = evs ++ [.reply12] ∧
    Forall2 (fun rp ev => ∃ dvs, p.host.subs.lookup rp.1 = some dvs ∧ p.eq.conf.reports.lookup rp.1 = some dvs ∧
        ev = HostEff.received c rp.1 (dvs.zip rp.2) ∧ Forall2 (fun d x => Ev.value? cfg p.eq d = some x) dvs rp.2) rpts evs

theorem host_ok (cfg : Ev.Cfg) (p : Pair) (hs : Sync cfg p) (c : Id) : ∀ (rs : List Id) (rpts : List (Id × List Val)),
    (∀ r ∈ rs, r.scalar = true) → C12.WellFormed cfg p.eq rs rpts → Delivered cfg p c rpts (onS6f11 p.host c rpts)
  | _, _, _, .nil => ⟨[], rfl, .nil⟩
  | r :: rs, rp :: rpts, hsc, .cons hr ht => by
    obtain ⟨h1, vars, hl, hv⟩ := hr
    obtain ⟨evs, he, hf⟩ := host_ok cfg p hs c rs rpts (fun x hx => hsc x (List.mem_cons_of_mem _ hx)) ht
    obtain ⟨r', vals⟩ := rp
    simp only at h1 hv
    subst h1
    have hsub : p.host.subs.lookup r' = some vars := hs.2.1 (r', vars) (AList.lookup_some_mem hl)
    have hlen : vars.length = vals.length := Forall2.length_eq hv
    refine ⟨.received c r' (vars.zip vals) :: evs, ?_, .cons ⟨vars, hsub, hl, rfl, hv⟩ hf⟩
    simp only [onS6f11, hsc r' List.mem_cons_self, if_true, hsub, pairValues_zip vars vals hlen, he, List.cons_append]

theorem wellformed_ids (cfg : Ev.Cfg) (s : Ev.St) : ∀ (rs : List Id) (rpts : List (Id × List Val)),
    C12.WellFormed cfg s rs rpts → rpts.map (·.1) = rs
  | _, _, .nil => rfl
  | _ :: rs, _ :: rpts, .cons hr ht => by simp [hr.1, wellformed_ids cfg s rs rpts ht]

/-- **Every S6F11 of a trigger reaches the host application exactly once per linked report.**  For every history of
automatically numbered subscriptions, clears, `disable_ceid_reports` / `disable_ceids` calls, triggers and value updates on the pair, and every list of CEIDs given to one trigger
call: the equipment sends one S6F11 per linked-and-enabled CEID in list order (and its sender does not die); the host turns each into
exactly one `collection_event_received` per linked report, in link order, whose values are the subscribed dv ids paired in order
with the variables' current values, and answers S6F12 — never `KeyError`/`IndexError`/S6F0, because the subscription exists and
its length matches (invariant `Sync`, proved from the subscribe sequence). -/
theorem host_events (cfg : Ev.Cfg) (ops : List Host.Op) (ha : AutoOnly ops) (cs : List Id) :
    ∃ sent, Ev.trigger cfg (Host.run cfg Pair.init ops).eq cs = (sent, false) ∧
      Forall2 (fun c m => m.1 = c ∧ ∃ rs, (Host.run cfg Pair.init ops).eq.conf.links.lookup c = some (rs, true) ∧
          m.2.map (·.1) = rs ∧ Delivered cfg (Host.run cfg Pair.init ops) c m.2 (onS6f11 (Host.run cfg Pair.init ops).host c m.2))
        (cs.filter (Ev.reportable (Host.run cfg Pair.init ops).eq)) sent := by
  have hs := run_sync cfg ops Pair.init ha (init_sync cfg)
  generalize Host.run cfg Pair.init ops = p at hs ⊢
  obtain ⟨sent, ht, hf⟩ := C12.trigger_ok cfg p.eq hs.1 cs
  refine ⟨sent, ht, Forall2.imp ?_ hf⟩
  rintro c m ⟨hc, rs, hl, hw⟩
  have hscalar : ∀ r ∈ rs, r.scalar = true := by
    intro r hr
    have hk := hs.1.1 _ (AList.lookup_some_mem hl) r hr
    obtain ⟨vars, hv⟩ := AList.exists_of_mem_keys hk
    obtain ⟨n, hn, _⟩ := hs.2.2 (r, vars) (AList.lookup_some_mem hv)
    simp only at hn; subst hn; rfl
  have hmap : m.2.map (·.1) = rs := wellformed_ids cfg p.eq rs m.2 hw
  exact ⟨hc, rs, hl, hmap, hc ▸ host_ok cfg p hs m.1 rs m.2 hscalar hw⟩

/-- non-vacuity: two subscriptions, a value update, one trigger call over both events -/
def cfgP : Ev.Cfg := { ceids := [.nums [100], .nums [101]], svs := [(.nums [10], .cell)], dvs := [.nums [30]] }

example : (Host.step cfgP (Host.run cfgP Pair.init
      [.subscribe (.nums [100]) [.nums [30], .nums [10]] none, .subscribe (.nums [101]) [.nums [10]] none, .setDv (.nums [30]) (.nums [99])])
      (.trigger [.nums [101], .nums [7], .nums [100]])).2
    = .delivered [[.received (.nums [101]) (.nums [1001]) [(.nums [10], .nums [0])], .reply12],
                  [.received (.nums [100]) (.nums [1000]) [(.nums [30], .nums [99]), (.nums [10], .nums [0])], .reply12]] false := by
  decide +kernel

/-- **Witness (why `AutoOnly`).**  Re-using a report id explicitly: the host overwrites its subscription before the equipment
refuses the re-definition (DRACK 3); the next S6F11 of the first event carries two values for three subscribed ids and the host
answers S6F0 (`IndexError`). -/
theorem witness_explicit_report_id :
    (Host.step cfgP (Host.run cfgP Pair.init
      [.subscribe (.nums [100]) [.nums [30], .nums [10]] (some (.nums [5])), .subscribe (.nums [101]) [.nums [30], .nums [10], .nums [10]] (some (.nums [5]))])
      (.trigger [.nums [100]])).2 = .delivered [[.abort]] false := by decide +kernel

/-! ## alarms reach the host -/

/-- **`set_alarm` / `clear_alarm` + `_on_s05f01`.**  For a known alarm the host's `alarm_received` fires exactly for the S5F1
reports the equipment sends — once with code `ALCD | 0x80` when an enabled alarm becomes set, once with the plain code when
it is cleared, never otherwise — each answered by S5F2 (0); whether the S5F2 arrives does not matter to the equipment. -/
theorem alarms_reach_host (s : Tab.St) (i : Id) (a : Tab.Alarm) (h : s.findAlarm i = some a) (replied : Bool) :
    (∃ rows, (Tab.setAlarm s i replied).2 = .ok rows ∧
      rows.flatMap onS5f01 = (if !a.set && a.enabled then [.alarm (a.code ||| 128) i a.text, .reply52 0] else []))
    ∧ (∃ rows, (Tab.clearAlarm s i replied).2 = .ok rows ∧
      rows.flatMap onS5f01 = (if a.set && a.enabled then [.alarm a.code i a.text, .reply52 0] else [])) := by
  have hi := C13.alarm_reply_independent s i replied true
  constructor
  · refine ⟨_, by rw [hi.1]; exact (C13.set_alarm_reports s i a h).1, ?_⟩
    unfold Spec.GemTables.setReports
    cases a.set <;> cases a.enabled <;> simp [onS5f01]
  · refine ⟨_, by rw [hi.2]; exact (C13.clear_alarm_reports s i a h).1, ?_⟩
    unfold Spec.GemTables.clearReports
    cases a.set <;> cases a.enabled <;> simp [onS5f01]

end SecsModel.Props.C20c
