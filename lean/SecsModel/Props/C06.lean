import SecsModel.Proofs.Txn
import SecsModel.Gen.RxOrder
import SecsModel.Gen.DispatchGuard
/-!
# C06 — Replies reach exactly their requester; messages delivered once, in order

All statements are invariants of `Model.Txn.sys cfg` over **arbitrary schedules** (`Sys.run`): any number of callers, any
number of steps, any interleaving of callers, receive path, dispatcher threads, timeouts and link events.
`current c0` is the code as it is (allocator atomicity as generated from the source, dispatcher threads never stopped);
`patched c0` has the per-start stop token of `proposals/C06-dispatcher-leak`.
-/
namespace SecsModel.Props.C06
open SecsModel SecsModel.Model.Txn SecsModel.Proofs.Txn

def current (c0 : Int) : Cfg := { atomic := Gen.Misc.getNextSystemCounterAtomic, patched := false, c0 := c0 }
def patched (c0 : Int) : Cfg := { atomic := Gen.Misc.getNextSystemCounterAtomic, patched := true, c0 := c0 }

/-! ## obligations over the generated allocator -/

/-- the whole of `get_next_system_counter` runs under the lock (regenerated from the source on every run) -/
theorem counter_atomic : Gen.Misc.getNextSystemCounterAtomic = true := rfl

/-- the generated `get_next_system_counter` is `+1 mod 2³²` on the counter and returns the new counter -/
theorem counter_spec (c : Int) (h0 : 0 ≤ c) (h1 : c < 4294967296) :
    Gen.Misc.getNextSystemCounter c = .ok ((c + 1) % 4294967296, (c + 1) % 4294967296) := by
  have := next_spec c h0 h1
  simp only [next] at this
  split at this
  · rename_i r hr; rw [hr]; cases this; rfl
  · cases this

example : Gen.Misc.getNextSystemCounter 4294967295 = .ok (0, 0) := rfl

/-- **No lost wake-up between the receive path and a dispatcher thread** (statement orders regenerated from the source, `Gen.RxOrder`, the
framing package's unit): `queue_block` appends *before* it sets the trigger, and the dispatcher loop clears its trigger *before* it drains
the queue — so a block queued at any moment is either seen by the running drain loop or leaves the trigger set.  This is what the model's
`pop` step assumes (it is enabled whenever the dispatch queue is non-empty and the thread is idle). -/
theorem dispatcher_loop_order :
    Gen.RxOrder.queueBlock = ["append", "trigger"] ∧ Gen.RxOrder.dispatcherLoop = ["wait", "clear", "stoptest", "drain"] := by decide

/-- **The receiver and dispatcher threads survive any exception of their callbacks** (except clauses regenerated from the source,
`Gen.DispatchGuard`): both loops catch `Exception` around the callback and do not re-raise — an undecodable frame or a failing
`message_received` handler is logged and the loop goes on.  The model relies on it: `rx`, `pop`, `handle` stay enabled for the messages
that follow whatever the earlier ones were. -/
theorem loops_survive_callback :
    Gen.DispatchGuard.receiverCatches = ["Exception"] ∧ Gen.DispatchGuard.dispatcherCatches = ["Exception"]
      ∧ Gen.DispatchGuard.receiverReraises = false ∧ Gen.DispatchGuard.dispatcherReraises = false := by decide

/-! ## distinct system bytes -/

/-- **Outstanding requests carry pairwise distinct system bytes**, for every schedule — provided fewer than 2³² ids were
allocated since either request got its own (the 32-bit wrap is part of the generated allocator). -/
theorem ids_distinct (cfg : Cfg) (hat : cfg.atomic = Gen.Misc.getNextSystemCounterAtomic)
    (h0 : 0 ≤ cfg.c0) (h1 : cfg.c0 < 4294967296) (sched : List Step) (s : State) (hr : (sys cfg).run sched = some s)
    (c1 c2 : Nat) (hne : c1 ≠ c2)
    (o1 : (s.callers c1).pc.hasId = true) (o2 : (s.callers c2).pc.hasId = true)
    (w1 : s.allocs < (s.callers c1).allocAt + 4294967296) (w2 : s.allocs < (s.callers c2).allocAt + 4294967296) :
    (s.callers c1).id ≠ (s.callers c2).id := by
  have hat' : cfg.atomic = true := by rw [hat]; exact counter_atomic
  have inv : IdInv cfg s := Sys.inv_of_step (sys cfg) (IdInv cfg) (id_init cfg h0 h1)
    (fun s i s' hi hs => by
      obtain ⟨s1, hs1, rfl⟩ := step_mark hs
      have := id_step0 cfg hat' s s1 i hi hs1
      exact ⟨this.1, this.2, this.3⟩) sched s hr
  have a1 := inv.own c1 o1
  have a2 := inv.own c2 o2
  have hu := inv.uniq c1 c2 hne o1 o2
  rw [a1.2.2, a2.2.2]
  omega

/-- non-vacuity: two callers outstanding across the wrap (`c0 = 2³² - 1`): ids 0 and 1 -/
example : ((sys (current 4294967295)).run [.linkUp, .alloc 0, .alloc 1, .register 0, .register 1, .send 0, .send 1]).map
    (fun s => ((s.callers 0).id, (s.callers 1).id, (s.callers 0).pc.hasId, (s.callers 1).pc.hasId, s.allocs, (s.callers 0).allocAt))
    = some (0, 1, true, true, 2, 1) := by decide

/-! ## routing -/

/-- **A caller only ever receives a message carrying its own system bytes** (or `None`), for every schedule and every
configuration; every message waiting in a caller's queue carries that caller's system bytes. -/
theorem routing (cfg : Cfg) (sched : List Step) (s : State) (hr : (sys cfg).run sched = some s) :
    (∀ c m, (s.callers c).result = some m → m.sys = (s.callers c).id)
    ∧ (∀ c m, m ∈ s.q c → m.sys = (s.callers c).id)
    ∧ (∀ k c, s.reg k = some c → (s.callers c).id = k) := by
  have inv : RouteInv s := Sys.inv_of_step (sys cfg) RouteInv
    (by constructor <;> simp [sys, init])
    (fun s i s' hi hs => by
      obtain ⟨s1, hs1, rfl⟩ := step_mark hs
      have := route_step0 cfg s s1 i hi hs1
      exact ⟨this.1, this.2, this.3, this.4, this.5⟩) sched s hr
  exact ⟨inv.res, inv.qSys, fun k c h => (inv.regOwner k c h).1⟩

/-- **never another caller's reply**: what caller `c` received does not carry the system bytes of any other outstanding request -/
theorem never_anothers_reply (cfg : Cfg) (hat : cfg.atomic = Gen.Misc.getNextSystemCounterAtomic)
    (h0 : 0 ≤ cfg.c0) (h1 : cfg.c0 < 4294967296) (sched : List Step) (s : State) (hr : (sys cfg).run sched = some s)
    (c c' : Nat) (hne : c ≠ c') (m : Msg) (hres : (s.callers c).result = some m)
    (o1 : (s.callers c).pc.hasId = true) (o2 : (s.callers c').pc.hasId = true)
    (w1 : s.allocs < (s.callers c).allocAt + 4294967296) (w2 : s.allocs < (s.callers c').allocAt + 4294967296) :
    m.sys ≠ (s.callers c').id := by
  rw [(routing cfg sched s hr).1 c m hres]
  exact ids_distinct cfg hat h0 h1 sched s hr c c' hne o1 o2 w1 w2

/-- non-vacuity + permutation of replies: replies arrive in the opposite order of the requests, each caller gets its own;
an unsolicited message in between goes to the application -/
example : ((sys (current 100)).run [.linkUp, .alloc 0, .alloc 1, .register 0, .register 1, .send 0, .send 1,
      .rx ⟨102, 7⟩, .rx ⟨55, 1⟩, .rx ⟨101, 9⟩, .pop 0, .handle 0, .put 0, .pop 0, .handle 0, .finish 0, .pop 0, .handle 0, .put 0,
      .recv 0, .recv 1, .unregister 0, .unregister 1]).map
    (fun s => ((s.callers 0).result, (s.callers 1).result, s.delivered, s.wire))
    = some (some ⟨101, 9⟩, some ⟨102, 7⟩, [⟨55, 1⟩], [101, 102]) := by decide

/-- late reply: the caller timed out and unregistered; the late reply is handed to the application, not to anybody's queue -/
example : ((sys (current 100)).run [.linkUp, .alloc 0, .register 0, .send 0, .timeout 0, .unregister 0,
      .rx ⟨101, 9⟩, .pop 0, .handle 0]).map (fun s => ((s.callers 0).result, s.delivered))
    = some (none, [⟨101, 9⟩]) := by decide

/-! ## no steal, exactly once -/

/-- **Accounting of inbound messages**, every schedule, every configuration (any number of dispatcher threads): what arrived is what
was taken from the dispatch queue followed by what still waits there (FIFO, nothing lost or duplicated); every routing decision has
exactly one outcome — `handled` records `(message, put-to-a-queue?)` — and the application got exactly the messages decided
"not for a queue", in decision order. -/
theorem no_steal (cfg : Cfg) (sched : List Step) (s : State) (hr : (sys cfg).run sched = some s) :
    s.arrived = s.popped ++ s.inbox
    ∧ s.delivered = (s.handled.filter (fun e => !e.2)).map (·.1) := by
  have inv : AcctInv s := Sys.inv_of_step (sys cfg) AcctInv
    (by constructor <;> simp [sys, init])
    (fun s i s' hi hs => by
      obtain ⟨s1, hs1, rfl⟩ := step_mark hs
      have := acct_step0 cfg s s1 i hi hs1
      exact ⟨this.1, this.2⟩) sched s hr
  exact ⟨inv.arr, inv.del⟩

/-! ## once, one at a time, in arrival order -/

/-- **While at most one dispatcher thread has ever been active** (`everTwo = false`): the arrivals are, in order, the handled
messages, then the at most one message taken but not yet handled, then the dispatch queue; the application received exactly the
handled messages that were not replies, *in arrival order*, each once; and at most one handler runs at any time. -/
theorem once_in_order (cfg : Cfg) (sched : List Step) (s : State) (hr : (sys cfg).run sched = some s) (h1 : s.everTwo = false) :
    s.arrived = s.handled.map (·.1) ++ held s ++ s.inbox
    ∧ s.delivered = (s.handled.filter (fun e => !e.2)).map (·.1)
    ∧ busy s ≤ 1 ∧ (held s).length + busy s ≤ 1 := by
  have inv : OrderInv s := Sys.inv_of_step (sys cfg) OrderInv (order_init cfg)
    (fun s i s' hi hs => order_step cfg s s' i hi hs) sched s hr
  obtain ⟨ha, hp⟩ := inv h1
  obtain ⟨a1, a2⟩ := no_steal cfg sched s hr
  refine ⟨by rw [a1, hp], a2, ?_, ?_⟩
  · exact Nat.le_trans (List.countP_mono_left (fun d _ hd => by
      cases d with | mk st cur rt =>
      cases cur with
      | none => simp [Disp.inHandler] at hd
      | some v => simp [Disp.active])) ha
  · -- a dispatcher either holds an unhandled message or runs a handler, and at most one is active
    have : ∀ l : List Disp, (l.filterMap Disp.unstarted).length + l.countP Disp.inHandler ≤ l.countP Disp.active := by
      intro l
      induction l with
      | nil => simp
      | cons d l ih =>
        cases d with | mk st cur rt =>
        cases cur with
        | none =>
          have e1 : Disp.unstarted ⟨st, none, rt⟩ = none := rfl
          have e2 : Disp.inHandler ⟨st, none, rt⟩ = false := rfl
          simp only [List.filterMap_cons, List.countP_cons, e1, e2]
          by_cases hx : Disp.active ⟨st, none, rt⟩ = true
          · simp only [hx, if_true]; simp; omega
          · simp only [hx]; simp; omega
        | some v =>
          obtain ⟨m, b⟩ := v
          have e3 : Disp.active ⟨st, some (m, b), rt⟩ = true := by simp [Disp.active]
          cases b
          · have e1 : Disp.unstarted ⟨st, some (m, false), rt⟩ = some m := rfl
            have e2 : Disp.inHandler ⟨st, some (m, false), rt⟩ = false := rfl
            simp only [List.filterMap_cons, List.countP_cons, e1, e2, e3]
            simp; omega
          · have e1 : Disp.unstarted ⟨st, some (m, true), rt⟩ = none := rfl
            have e2 : Disp.inHandler ⟨st, some (m, true), rt⟩ = true := rfl
            simp only [List.filterMap_cons, List.countP_cons, e1, e2, e3]
            simp; omega
    exact Nat.le_trans (this s.disp) ha

/-- **The code as it is, on one connection** (at most one `start()`): never two dispatcher threads, so `once_in_order` applies. -/
theorem single_connection (cfg : Cfg) (sched : List Step) (s : State) (hr : (sys cfg).run sched = some s) (hu : s.ups ≤ 1) :
    s.everTwo = false ∧ s.disp.length = s.ups := by
  have inv : LenInv s := Sys.inv_of_step (sys cfg) LenInv (len_init cfg)
    (fun s i s' hi hs => len_step cfg s s' i hi hs) sched s hr
  exact ⟨inv.2 hu, inv.1⟩

/-- non-vacuity: a slow handler blocks the next message (`pop` of the second message is not enabled while the first handler runs) -/
example : (sys (current 0)).run [.linkUp, .rx ⟨1, 1⟩, .rx ⟨2, 2⟩, .pop 0, .handle 0, .pop 0] = none := by decide
example : ((sys (current 0)).run [.linkUp, .rx ⟨1, 1⟩, .rx ⟨2, 2⟩, .pop 0, .handle 0, .finish 0, .pop 0, .handle 0]).map
    (fun s => (s.delivered, s.everTwo, s.ups)) = some ([⟨1, 1⟩, ⟨2, 2⟩], false, 1) := by decide

/-! ## across reconnects -/

/-- **With the per-start stop token** (`proposals/C06-dispatcher-leak`), for every schedule with any number of link losses and
reconnects in which the link is not dropped while a dispatcher thread holds a message: never two active dispatcher threads. -/
theorem reconnect_patched_partial (cfg : Cfg) (hp : cfg.patched = true) (sched : List Step) (s : State)
    (hr : ((sys cfg).pre quietDown).run sched = some s) :
    s.everTwo = false ∧ active s ≤ 1 ∧ live s ≤ 1 := by
  have inv : PatchInv s := Sys.inv_of_step ((sys cfg).pre quietDown) PatchInv (patch_init cfg)
    (fun s i s' hi hs => patch_step cfg hp s s' i hi hs) sched s hr
  refine ⟨inv.never, inv.one, Nat.le_trans (List.countP_mono_left (fun d _ hd => by
    simp only [Disp.active]; simp at hd; simp [hd])) inv.one⟩

/-- … and therefore messages are handed over once, one at a time, in arrival order, also after the link was lost and re-established -/
theorem reconnect_in_order_partial (cfg : Cfg) (hp : cfg.patched = true) (sched : List Step) (s : State)
    (hr : ((sys cfg).pre quietDown).run sched = some s) :
    s.arrived = s.handled.map (·.1) ++ held s ++ s.inbox
    ∧ s.delivered = (s.handled.filter (fun e => !e.2)).map (·.1)
    ∧ busy s ≤ 1 ∧ (held s).length + busy s ≤ 1 :=
  once_in_order cfg sched s (Sys.pre_run _ _ _ _ hr) (reconnect_patched_partial cfg hp sched s hr).1

/-- non-vacuity: two reconnects with traffic in between, patched: three dispatcher threads were created, one is live -/
example : (((sys (patched 0)).pre quietDown).run [.linkUp, .rx ⟨1, 1⟩, .pop 0, .handle 0, .finish 0, .linkDown, .linkUp, .rx ⟨2, 2⟩,
      .pop 1, .handle 1, .finish 1, .linkDown, .linkUp, .rx ⟨3, 3⟩, .pop 2, .handle 2]).map
    (fun s => (s.delivered, s.disp.length, live s, s.everTwo)) = some ([⟨1, 1⟩, ⟨2, 2⟩, ⟨3, 3⟩], 3, 1, false) := by decide

/-- **A new link starts at a frame boundary.**  Whatever part of an inbound frame had arrived when the link was lost is gone when the
link is down (`_on_disconnected` clears the receive buffer), for every schedule and every configuration — so the bytes of the
re-established link are framed on their own and `rx` (a complete frame decoded and queued) means the same before and after a reconnect. -/
theorem fresh_link_framing (cfg : Cfg) (sched : List Step) (s : State) (hr : (sys cfg).run sched = some s) (hdown : s.up = false) :
    s.stale = 0 :=
  Sys.inv_of_step (sys cfg) FrameInv (frame_init cfg) (fun s i s' hi hs => frame_step cfg s s' i hi hs) sched s hr hdown

/-- non-vacuity: 8 of 14 bytes of a frame arrive, the link drops and comes back; the next complete frame is delivered -/
example : ((sys (current 0)).run [.linkUp, .rxPart 8, .linkDown, .linkUp, .rx ⟨5, 5⟩, .pop 0, .handle 0]).map
    (fun s => (s.stale, s.delivered)) = some (0, [⟨5, 5⟩]) := by decide
example : ((sys (current 0)).run [.linkUp, .rxPart 8]).map (fun s => s.stale) = some 8 := by decide

/-! ## the window between the `in _response_queues` test and `put_nowait` -/

/-- the configuration with reply-only routing (proposal C06-primary-system-bytes) -/
def replyOnly (c0 : Int) : Cfg := { atomic := Gen.Misc.getNextSystemCounterAtomic, patched := false, c0 := c0, replyOnly := true }

/-- **What the routing window can and cannot do** (test and put are separate steps; `unregister`, `register`, … may run in between), for
every schedule and every configuration:
* it cannot misroute — `routing` above is proved for this model with the split steps;
* a message is lost (`KeyError` swallowed by `_dispatch_block`) only if it carries the system bytes of a caller that has **left**
  `send_and_waitfor_response` (`Ended`): a reply to a request that is still waiting is never lost;
* with reply-only routing no primary message is ever put to a queue or lost: every handled primary went to the application. -/
theorem routing_window (cfg : Cfg) (sched : List Step) (s : State) (hr : (sys cfg).run sched = some s) :
    (∀ m ∈ s.lost, Ended s m.sys)
    ∧ (cfg.replyOnly = true → (∀ m ∈ s.lost, m.primary = false) ∧ (∀ e ∈ s.handled, e.1.primary = true → e.2 = false)) := by
  have inv : LossInv cfg s := Sys.inv_of_step (sys cfg) (LossInv cfg) (loss_init cfg)
    (fun s i s' hi hs => by
      obtain ⟨s1, hs1, rfl⟩ := step_mark hs
      have := loss_step0 cfg s s1 i hi hs1
      exact ⟨this.1, this.2, this.3⟩) sched s hr
  exact ⟨fun m hm => (inv.lostDone m hm).1, fun hro => ⟨fun m hm => (inv.lostDone m hm).2 hro, inv.prim hro⟩⟩

/-- **The code as it is loses an inbound primary that re-uses the system bytes of a request that is just timing out**: the dispatcher
tests `101 in _response_queues` (true), the caller times out and runs `_remove_queue`, the dispatcher's `_response_queues[101]` raises
`KeyError`: the message (S6F11, odd tag = primary) reaches neither a caller nor the application. -/
theorem witness_routing_window :
    ((sys (current 100)).run [.linkUp, .alloc 0, .register 0, .send 0, .rx ⟨101, 1547⟩, .pop 0, .handle 0, .timeout 0, .unregister 0, .put 0]).map
      (fun s => (s.lost, s.delivered, (s.callers 0).result, s.q 0, s.inbox)) = some ([⟨101, 1547⟩], [], none, [], []) := by decide

/-- without any race: the same primary arriving while the request is outstanding is handed to the caller as its "reply", never to the application -/
theorem witness_primary_to_caller :
    ((sys (current 100)).run [.linkUp, .alloc 0, .register 0, .send 0, .rx ⟨101, 1547⟩, .pop 0, .handle 0, .put 0, .recv 0, .unregister 0]).map
      (fun s => ((s.callers 0).result, s.delivered)) = some (some ⟨101, 1547⟩, []) := by decide

/-- … and put to the queue of a caller that has already timed out it is discarded with the queue -/
theorem witness_primary_dropped_with_queue :
    ((sys (current 100)).run [.linkUp, .alloc 0, .register 0, .send 0, .rx ⟨101, 1547⟩, .pop 0, .timeout 0, .handle 0, .put 0, .unregister 0]).map
      (fun s => ((s.callers 0).result, s.delivered, s.q 0, s.reg 101)) = some (none, [], [⟨101, 1547⟩], none) := by decide

/-- with reply-only routing the same three schedules hand the primary to the application (the `put` step is not even enabled) -/
theorem witness_primary_reply_only :
    ((sys (replyOnly 100)).run [.linkUp, .alloc 0, .register 0, .send 0, .rx ⟨101, 1547⟩, .pop 0, .handle 0, .timeout 0, .unregister 0]).map
      (fun s => (s.lost, s.delivered)) = some ([], [⟨101, 1547⟩])
    ∧ (sys (replyOnly 100)).run [.linkUp, .alloc 0, .register 0, .send 0, .rx ⟨101, 1547⟩, .pop 0, .handle 0, .put 0] = none := by decide

/-! ## counterexamples -/

/-- **Without the lock** (allocator split into read-modify-write and read-return): the schedule `a.inc, b.inc, a.ret, b.ret`
gives two outstanding requests the same system bytes. -/
theorem witness_counter :
    ((sys { atomic := false, patched := false, c0 := 100 }).run [.allocRmw 0, .allocRmw 1, .allocRet 0, .allocRet 1]).map
      (fun s => ((s.callers 0).id, (s.callers 1).id, (s.callers 0).pc.hasId, (s.callers 1).pc.hasId)) = some (102, 102, true, true) := by
  decide

/-- … and then one caller gets no reply although one arrived, and its `_remove_queue` raises `KeyError` -/
theorem witness_counter_lost_reply :
    ((sys { atomic := false, patched := false, c0 := 100 }).run [.linkUp, .allocRmw 0, .allocRmw 1, .allocRet 0, .allocRet 1, .register 0, .register 1,
        .send 0, .send 1, .rx ⟨102, 1⟩, .pop 0, .handle 0, .put 0, .recv 1, .unregister 1, .timeout 0, .unregister 0]).map
      (fun s => ((s.callers 0).result, (s.callers 0).keyErr, (s.callers 1).result)) = some (none, true, some ⟨102, 1⟩) := by
  decide

/-- **The code as it is, after one reconnect**: two dispatcher threads are live; two unsolicited messages are handled concurrently
and reach the application in the opposite order of their arrival. -/
theorem witness_two_dispatchers :
    ((sys (current 0)).run [.linkUp, .linkDown, .linkUp, .rx ⟨1, 1⟩, .rx ⟨2, 2⟩, .pop 0, .pop 1, .handle 1, .handle 0]).map
      (fun s => (s.arrived, s.delivered, live s, busy s, s.everTwo)) = some ([⟨1, 1⟩, ⟨2, 2⟩], [⟨2, 2⟩, ⟨1, 1⟩], 2, 2, true) := by
  decide

/-- the same schedule is impossible with the stop token: the first thread is stopped and takes nothing -/
theorem witness_two_dispatchers_patched :
    (sys (patched 0)).run [.linkUp, .linkDown, .linkUp, .rx ⟨1, 1⟩, .rx ⟨2, 2⟩, .pop 0] = none := by decide

end SecsModel.Props.C06
