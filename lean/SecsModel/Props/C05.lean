import SecsModel.Proofs.HsmsFsm
/-!
# C05 — HSMS session follows the E37 connect/select state model for every history

Only property theorems, non-vacuity `example`s and counterexample (witness) theorems live here.

`step Defects.none` is the code as it is.  `step Defects.preFix` is the code before the two `fix:` commits 812b685 (Select.rsp /
Deselect.rsp act only for an open request with status 0) and bfe991b (Separate.req in SELECTED leaves SELECTED); its theorems
(`C05_prefix_…`) stay because the harness replays their witnesses on every run: a revert of either commit makes the implementation
show the `preFix` behaviour again, which these theorems prove to deviate from E37 on exactly the rows `deviates` names.
Theorems that hold for both variants quantify over `d`.
-/
namespace SecsModel.Props.C05
open SecsModel SecsModel.Model.Hsms SecsModel.Proofs.HsmsFsm
open SecsModel.Spec.E37 (Conn Trigger next)

/-! ## generated tables = E37 tables -/

/-- The shipped `ConnectionStateMachine` (states, parents, transitions with their source lists, initial state, public methods)
is the E37 engine table. -/
theorem C05_table :
    Gen.ConnSM.states = Spec.E37.engineStates ∧ Gen.ConnSM.transitions = Spec.E37.engineTransitions
    ∧ Gen.ConnSM.initial = Spec.E37.engineInitial ∧ Gen.ConnSM.methods = Spec.E37.engineMethods := by
  decide

/-- SType codes and the control-message header constructors are the E37 ones (Reject.req: byte 2 = SType of the rejected message,
byte 3 = reason). -/
theorem C05_headers :
    [("DATA_MESSAGE", Gen.HsmsSType.DATA_MESSAGE), ("SELECT_REQ", Gen.HsmsSType.SELECT_REQ), ("SELECT_RSP", Gen.HsmsSType.SELECT_RSP),
     ("DESELECT_REQ", Gen.HsmsSType.DESELECT_REQ), ("DESELECT_RSP", Gen.HsmsSType.DESELECT_RSP), ("LINKTEST_REQ", Gen.HsmsSType.LINKTEST_REQ),
     ("LINKTEST_RSP", Gen.HsmsSType.LINKTEST_RSP), ("REJECT_REQ", Gen.HsmsSType.REJECT_REQ), ("SEPARATE_REQ", Gen.HsmsSType.SEPARATE_REQ)]
      = Spec.E37.sTypeCodes
    ∧ Gen.HsmsSType.values = Spec.E37.sTypeCodes.map (·.2)
    ∧ Gen.HsmsHeader.ctors = Spec.E37.headerCtors := by
  decide

/-- What the hand model assumes about `HsmsProtocol.__init__` and the close handlers: the three state-event registrations, a
Separate.req is sent in `_on_disconnecting`, and `_on_disconnected` performs `disconnect()` and fires `disconnected`. -/
theorem C05_wiring :
    Gen.HsmsProto.wiring = [("CONNECTED", "enter", "_on_state_connect"), ("CONNECTED", "leave", "_on_state_disconnect"),
                            ("CONNECTED_SELECTED", "enter", "_on_state_select")]
    ∧ Gen.HsmsProto.onDisconnecting.map parseStmt = [.sendSeparate]
    ∧ Gen.HsmsProto.onDisconnected.map parseStmt = [.setConnected, .sm "disconnect", .threadStop, .bufferClear, .fire "disconnected"]
    ∧ Gen.HsmsProto.onStateConnect = ["start_linktest_timer", "if_active start_select_thread"]
    ∧ Gen.HsmsProto.onStateDisconnect = ["cancel_linktest_timer", "clear_linktest_timer"]
    ∧ Gen.HsmsProto.onLinktestTimer = ["send_linktest_req", "start_linktest_timer"] := by
  decide

/-- **Which E37 timers the code implements** (generated from the source on every run).  T6 is read only in `hsms/protocol.py` (the bound
of the three `send_*_req` waits); T5 only by the TCP client connection; T7 and T8 are settings nothing reads, and nothing performs
the `timeoutT7` transition of the connection state machine: a connected endpoint that is never selected stays NOT SELECTED for ever, and
an expired control transaction is not treated as a communication failure.  Timers are outside the alphabet C05 quantifies over; if one of
them gets implemented this obligation breaks and the model has to follow. -/
theorem C05_timers_in_code :
    Gen.HsmsProto.timeoutRefs = [("t5", ["common/tcp_client_connection.py"]), ("t6", ["hsms/protocol.py"]), ("t7", []), ("t8", [])]
    ∧ Gen.HsmsProto.t7Performers = [] := by
  decide

/-! ## step refinement -/

/-- the E37 trigger an input is, given the auxiliary state (open requests, closing flag) -/
def absT (s : St) : In → Trigger
  | .connect => .tcpUp
  | .peerClose => .tcpDown
  | .disableBegin => .other
  | .disableEnd => if s.disconnecting then .tcpDown else .other
  | .rxCtrl .selectReq _ _ => .selectReq
  | .rxCtrl .selectRsp sys status => .selectRsp (isOpenKind s sys .select) status
  | .rxCtrl .deselectReq _ _ => .deselectReq
  | .rxCtrl .deselectRsp sys status => .deselectRsp (isOpenKind s sys .deselect) status
  | .rxCtrl .linktestReq _ _ => .linktestReq
  | .rxCtrl .separateReq _ _ => .separateReq
  | .rxCtrl .linktestRsp _ _ => .other
  | .rxCtrl .rejectReq _ _ => .other
  | .rxData .. => .other
  | .rxDataQueued .. => .other
  | .apiSelect => .other
  | .apiDeselect => .other
  | .apiLinktest => .other
  | .timeoutT6 _ => .other
  | .linktestTimer => .other

/-- the rows of the E37 table on which the shipped code deviates:
F-4 a Select.rsp in NOT SELECTED that is unsolicited or carries a non-zero status (same for Deselect.rsp in SELECTED);
F-5 a Separate.req in SELECTED. -/
def deviates (s : St) : In → Bool
  | .rxCtrl .selectRsp sys status => s.conn == .notSelected && !(isOpenKind s sys .select && status == 0)
  | .rxCtrl .deselectRsp sys status => s.conn == .selected && !(isOpenKind s sys .deselect && status == 0)
  | .rxCtrl .separateReq _ _ => s.conn == .selected
  | _ => false

theorem putIfOpen_conn (s : St) (sys : Int) : (putIfOpen s sys).1.conn = s.conn := by
  unfold putIfOpen; split <;> simp

/-- **Step refinement.**  The connection state after a step is the E37 successor — every state, every input (timers and local requests
included: they leave the session state alone). -/
theorem C05_step_refines (s : St) (i : In) :
    (step .none s i).1.conn = next s.conn s.disconnecting (absT s i) := by
  obtain ⟨c, dc, ac, ctr, opn, lts, lto⟩ := s
  cases i with
  | connect =>
    cases c
    · simp only [step, absT, next, if_true]
      rw [connect_nc _ rfl]; cases ac <;> simp
    all_goals simp [step, absT, next]
  | peerClose =>
    cases c
    · simp [step, absT, next]
    all_goals (simp only [step, absT, next]; rw [if_neg (by decide), closeSeq_connected _ (by simp)])
  | disableBegin => cases c <;> simp [step, absT, next]
  | disableEnd =>
    cases c <;> cases dc <;> simp [step, absT, next]
    all_goals (rw [closeSeq_connected _ (by simp)])
  | rxCtrl st sys status =>
    cases c
    · cases st <;> simp [step, absT, next]
    · -- NOT SELECTED
      cases st <;> simp only [step, absT, next, handleCtrl, Defects.none, if_neg (show ¬(Conn.notSelected = Conn.notConnected) by decide)]
      · cases dc <;> simp [withTransition, smCall_select_ns, afterTransition_conn]
      · by_cases ho : isOpenKind ⟨.notSelected, dc, ac, ctr, opn, lts, lto⟩ sys .select = true
        · by_cases hs : status = 0
          · simp [ho, hs, withTransition, smCall_select_ns, afterTransition_conn, putIfOpen_conn]
          · simp [ho, hs, putIfOpen_conn]
        · simp [ho]
      · cases dc <;> simp [withTransition, smCall_deselect_ns]
      · by_cases ho : isOpenKind ⟨.notSelected, dc, ac, ctr, opn, lts, lto⟩ sys .deselect = true
        · by_cases hs : status = 0
          · simp [ho, hs, withTransition, smCall_deselect_ns]
          · simp [ho, hs, putIfOpen_conn]
        · simp [ho]
      · cases dc <;> simp
      · simp [putIfOpen_conn]
      · simp [putIfOpen_conn]
      · simp
    · -- SELECTED
      cases st <;> simp only [step, absT, next, handleCtrl, Defects.none, if_neg (show ¬(Conn.selected = Conn.notConnected) by decide)]
      · cases dc <;> simp [withTransition, smCall_select_sel]
      · by_cases ho : isOpenKind ⟨.selected, dc, ac, ctr, opn, lts, lto⟩ sys .select = true
        · by_cases hs : status = 0
          · simp [ho, hs, withTransition, smCall_select_sel]
          · simp [ho, hs, putIfOpen_conn]
        · simp [ho]
      · cases dc <;> simp [withTransition, smCall_deselect_sel, afterTransition_conn]
      · by_cases ho : isOpenKind ⟨.selected, dc, ac, ctr, opn, lts, lto⟩ sys .deselect = true
        · by_cases hs : status = 0
          · simp [ho, hs, withTransition, smCall_deselect_sel, afterTransition_conn, putIfOpen_conn]
          · simp [ho, hs, putIfOpen_conn]
        · simp [ho]
      · cases dc <;> simp
      · simp [putIfOpen_conn]
      · simp [putIfOpen_conn]
      · simp [withTransition, smCall_deselect_sel, afterTransition_conn]
  | rxData st f w sys dcd =>
    cases c <;> simp [step, absT, next, handleData]
    split <;> simp
  | rxDataQueued st f w sys dcd =>
    cases c <;> simp [step, absT, next, handleData, handleDataQueued]
    split <;> simp
  | apiSelect => cases c <;> simp [step, absT, next, sendReq]
  | apiDeselect => cases c <;> simp [step, absT, next, sendReq]
  | apiLinktest => cases c <;> simp [step, absT, next, sendReq]
  | timeoutT6 sys => simp [step, absT, next]
  | linktestTimer =>
    cases c <;> cases lts <;> simp [step, absT, next, onLinktestTimer, sendReq] <;> split <;> simp

/-- non-vacuity: a solicited, accepted Select.rsp in NOT SELECTED (active mode) is a row the theorem covers with a state change -/
example : (step .none ⟨.notSelected, false, true, 1001, [(1001, .select)], false, 0⟩ (.rxCtrl .selectRsp 1001 0)).1.conn = .selected := by decide

/-! ## the code before the fix (`Defects.preFix`): what held, and exactly where it deviated -/

/-- the two variants differ only in how Select.rsp, Deselect.rsp and Separate.req are handled -/
theorem step_preFix_eq_none (s : St) (i : In)
    (h : ∀ sys status, i ≠ .rxCtrl .selectRsp sys status ∧ i ≠ .rxCtrl .deselectRsp sys status ∧ i ≠ .rxCtrl .separateReq sys status) :
    step .preFix s i = step .none s i := by
  cases i with
  | rxCtrl st sys status =>
    cases st <;> first | rfl | exact absurd rfl (h sys status).1 | exact absurd rfl (h sys status).2.1 | exact absurd rfl (h sys status).2.2
  | _ => rfl

/-- **Step refinement of the pre-fix variant, partial.**  On every state and every input that is not one of the deviating rows
(`deviates`: unsolicited / refused Select.rsp in NOT SELECTED, the same for Deselect.rsp in SELECTED, Separate.req in SELECTED)
the connection state after the step is the E37 successor. -/
theorem C05_prefix_step_refines_partial (s : St) (i : In) (h : deviates s i = false) :
    (step .preFix s i).1.conn = next s.conn s.disconnecting (absT s i) := by
  by_cases hi : ∀ sys status, i ≠ .rxCtrl .selectRsp sys status ∧ i ≠ .rxCtrl .deselectRsp sys status ∧ i ≠ .rxCtrl .separateReq sys status
  · rw [step_preFix_eq_none s i hi]; exact C05_step_refines s i
  · obtain ⟨c, dc, ac, ctr, opn, lts, lto⟩ := s
    cases i with
    | rxCtrl st sys status =>
      cases st
      case selectRsp =>
        cases c
        · simp [step, absT, next]
        · have hh : isOpenKind ⟨.notSelected, dc, ac, ctr, opn, lts, lto⟩ sys .select = true ∧ status = 0 := by
            simpa [deviates] using h
          simp [step, absT, next, handleCtrl, Defects.preFix, hh.1, hh.2, withTransition, smCall_select_ns, afterTransition_conn, putIfOpen_conn]
        · simp [step, absT, next, handleCtrl, Defects.preFix, withTransition, smCall_select_sel]
      case deselectRsp =>
        cases c
        · simp [step, absT, next]
        · simp [step, absT, next, handleCtrl, Defects.preFix, withTransition, smCall_deselect_ns]
        · have hh : isOpenKind ⟨.selected, dc, ac, ctr, opn, lts, lto⟩ sys .deselect = true ∧ status = 0 := by
            simpa [deviates] using h
          simp [step, absT, next, handleCtrl, Defects.preFix, hh.1, hh.2, withTransition, smCall_deselect_sel, afterTransition_conn, putIfOpen_conn]
      case separateReq =>
        cases c
        · simp [step, absT, next]
        · simp [step, absT, next, handleCtrl, Defects.preFix, putIfOpen_conn]
        · simp [deviates] at h
      all_goals exact absurd (fun sys status => by simp) hi
    | _ => exact absurd (fun sys status => by simp) hi

/-- **The deviation is exact**: the pre-fix variant leaves the E37 successor state on exactly the rows `deviates` names. -/
theorem C05_prefix_deviation_exact (s : St) (i : In) :
    (step .preFix s i).1.conn ≠ next s.conn s.disconnecting (absT s i) ↔ deviates s i = true := by
  constructor
  · intro hne
    cases hd : deviates s i
    · exact absurd (C05_prefix_step_refines_partial s i hd) hne
    · rfl
  · intro hd
    obtain ⟨c, dc, ac, ctr, opn, lts, lto⟩ := s
    cases i with
    | rxCtrl st sys status =>
      cases st <;> try (simp [deviates] at hd)
      case selectRsp =>
        obtain ⟨hc, hh⟩ := hd
        subst hc
        by_cases ho : isOpenKind ⟨.notSelected, dc, ac, ctr, opn, lts, lto⟩ sys .select = true
        · have hs : status ≠ 0 := by
            rcases hh with h1 | h1
            · simp [ho] at h1
            · exact h1
          simp [step, absT, next, handleCtrl, Defects.preFix, ho, hs, withTransition, smCall_select_ns, afterTransition_conn, putIfOpen_conn]
        · simp [step, absT, next, handleCtrl, Defects.preFix, ho, withTransition, smCall_select_ns, afterTransition_conn, putIfOpen_conn]
      case deselectRsp =>
        obtain ⟨hc, hh⟩ := hd
        subst hc
        by_cases ho : isOpenKind ⟨.selected, dc, ac, ctr, opn, lts, lto⟩ sys .deselect = true
        · have hs : status ≠ 0 := by
            rcases hh with h1 | h1
            · simp [ho] at h1
            · exact h1
          simp [step, absT, next, handleCtrl, Defects.preFix, ho, hs, withTransition, smCall_deselect_sel, afterTransition_conn, putIfOpen_conn]
        · simp [step, absT, next, handleCtrl, Defects.preFix, ho, withTransition, smCall_deselect_sel, afterTransition_conn, putIfOpen_conn]
      case separateReq =>
        subst hd
        simp [step, absT, next, handleCtrl, Defects.preFix, putIfOpen_conn]
    | _ => simp [deviates] at hd

/-- non-vacuity of the partial theorem: a Select.req in NOT SELECTED is not a deviating row and changes the state -/
example : deviates ⟨.notSelected, false, false, 7, [], false, 0⟩ (.rxCtrl .selectReq 5 0) = false
    ∧ (step .preFix ⟨.notSelected, false, false, 7, [], false, 0⟩ (.rxCtrl .selectReq 5 0)).1.conn = .selected := by decide

/-! ## every history -/

/-- the E37 machine run beside the model: it reads from the model state only what classifies the next trigger
(open requests, closing flag), never the model's connection state -/
def specAlong (d : Defects) : Conn → St → List In → Conn
  | c, _, [] => c
  | c, s, i :: is => specAlong d (next c s.disconnecting (absT s i)) (step d s i).1 is

/-- no step of the history is a deviating row (evaluated along the run of the pre-fix variant) -/
def devFree : St → List In → Bool
  | _, [] => true
  | s, i :: is => !deviates s i && devFree (step .preFix s i).1 is

theorem final_cons (d : Defects) (s : St) (i : In) (is : List In) : final d s (i :: is) = final d (step d s i).1 is := by
  simp [final, run]

/-- **Every history.**  After any finite sequence of inputs, from any state, the connection
state is the one the E37 table reaches. -/
theorem C05_history (s : St) (is : List In) : (final .none s is).conn = specAlong .none s.conn s is := by
  induction is generalizing s with
  | nil => rfl
  | cons i is ih =>
    rw [final_cons, ih, specAlong, C05_step_refines]

/-- **Every history (pre-fix variant), partial.**  For any finite sequence of inputs none of whose steps is a deviating row, the
connection state is the one the E37 table reaches. -/
theorem C05_prefix_history_partial (s : St) (is : List In) (h : devFree s is = true) :
    (final .preFix s is).conn = specAlong .preFix s.conn s is := by
  induction is generalizing s with
  | nil => rfl
  | cons i is ih =>
    simp only [devFree, Bool.and_eq_true, Bool.not_eq_eq_eq_not, Bool.not_true] at h
    rw [final_cons, ih _ h.2, specAlong, C05_prefix_step_refines_partial s i h.1]

/-- non-vacuity: connect, Select.req, Deselect.req, Select.req, data, peer close, connect — seven non-deviating steps through all three states -/
example : devFree (St.init false 100)
    [.connect, .rxCtrl .selectReq 1 0, .rxCtrl .deselectReq 2 0, .rxCtrl .selectReq 3 0, .rxData 1 1 true 4 true, .peerClose, .connect] = true
    ∧ (final .preFix (St.init false 100)
    [.connect, .rxCtrl .selectReq 1 0, .rxCtrl .deselectReq 2 0, .rxCtrl .selectReq 3 0, .rxData 1 1 true 4 true, .peerClose, .connect]).conn = .notSelected := by
  decide +kernel

/-! ## witnesses: the pre-fix variant deviates (F-4, F-5) — what a revert of 812b685 / bfe991b brings back -/

/-- F-4: passive endpoint, connect, unsolicited Select.rsp (system 4242): the code is SELECTED, E37 says NOT SELECTED -/
theorem C05_prefix_witness_select_rsp_unsolicited :
    (final .preFix (St.init false 1000) [.connect, .rxCtrl .selectRsp 4242 0]).conn = .selected
    ∧ specAlong .preFix .notConnected (St.init false 1000) [.connect, .rxCtrl .selectRsp 4242 0] = .notSelected := by
  decide +kernel

/-- F-4: active endpoint, connect (Select.req 1001 goes out), Select.rsp 1001 with status 1 (refused): the code is SELECTED -/
theorem C05_prefix_witness_select_rsp_refused :
    (final .preFix (St.init true 1000) [.connect, .rxCtrl .selectRsp 1001 1]).conn = .selected
    ∧ specAlong .preFix .notConnected (St.init true 1000) [.connect, .rxCtrl .selectRsp 1001 1] = .notSelected := by
  decide +kernel

/-- F-4, same shape: SELECTED, unsolicited Deselect.rsp: the code is NOT SELECTED, E37 says SELECTED -/
theorem C05_prefix_witness_deselect_rsp_unsolicited :
    (final .preFix (St.init false 1000) [.connect, .rxCtrl .selectReq 1 0, .rxCtrl .deselectRsp 77 0]).conn = .notSelected
    ∧ specAlong .preFix .notConnected (St.init false 1000) [.connect, .rxCtrl .selectReq 1 0, .rxCtrl .deselectRsp 77 0] = .selected := by
  decide +kernel

/-- F-5: SELECTED, Separate.req: the code stays SELECTED, E37 leaves SELECTED -/
theorem C05_prefix_witness_separate_ignored :
    (final .preFix (St.init false 1000) [.connect, .rxCtrl .selectReq 1 0, .rxCtrl .separateReq 7 0]).conn = .selected
    ∧ specAlong .preFix .notConnected (St.init false 1000) [.connect, .rxCtrl .selectReq 1 0, .rxCtrl .separateReq 7 0] = .notSelected := by
  decide +kernel

/-! ## requests are answered exactly once -/

def isRequest : SType → Bool
  | .selectReq | .deselectReq | .linktestReq => true
  | _ => false

def rspOf : SType → SType
  | .selectReq => .selectRsp | .deselectReq => .deselectRsp | .linktestReq => .linktestRsp | st => st

/-- **Exactly one response.**  A Select, Deselect or Linktest request received on an established connection causes exactly one
frame to be written: the response of the matching type with the request's system bytes — or, while the endpoint is closing the
connection, a Reject.req with the request's system bytes (byte 2 = the request's SType, byte 3 = 4).  This includes a Select.req
when already SELECTED and a Deselect.req when NOT SELECTED, where the transition raises after the response was sent. -/
theorem C05_one_response (d : Defects) (s : St) (st : SType) (sys status : Int) (hreq : isRequest st = true) (hc : s.conn ≠ .notConnected) :
    txs (step d s (.rxCtrl st sys status)).2 =
      [if s.disconnecting then Out.tx SType.rejectReq.code sys st.code 4 else Out.tx (rspOf st).code sys 0 0] := by
  obtain ⟨c, dc, ac, ctr, opn, lts, lto⟩ := s
  cases c
  · exact absurd rfl hc
  all_goals
    cases st <;> simp [isRequest] at hreq <;> cases dc <;>
      simp [step, handleCtrl, reject, rspOf, txs, withTransition, smCall_select_ns, smCall_select_sel, smCall_deselect_ns, smCall_deselect_sel,
        afterTransition, entersConnected_eq, entersSelected_eq]

/-- non-vacuity / the case the task singles out: Select.req while SELECTED gives exactly Select.rsp, then the swallowed exception -/
example : (step .none ⟨.selected, false, false, 7, [], false, 0⟩ (.rxCtrl .selectReq 5 0)).2
    = [.tx SType.selectRsp.code 5 0 0, .swallowed .wrongSource] := by decide

/-! ## the selected-state gate -/

/-- a data message handled now: received on the live connection (`queued = false`), or dispatched from the queue where it waited behind
a busy handler (`queued = true`) -/
def dataIn (queued : Bool) (st f : Int) (w : Bool) (sys : Int) (dcd : Bool) : In :=
  if queued then .rxDataQueued st f w sys dcd else .rxData st f w sys dcd

/-- **Gate.**  A data message handled while not SELECTED — NOT SELECTED **or NOT CONNECTED**, freshly received or dispatched from the
queue after the connection it came on was closed — is never delivered (neither to the application nor to a waiting requester) and
changes nothing.  In NOT SELECTED exactly one frame is written: Reject.req with the message's system bytes, byte 2 = 0 (the SType of a
data message), byte 3 = 4 (entity not selected).  In NOT CONNECTED no frame is written: a block dispatched from the queue puts that
Reject.req into the send queue of the dead connection (`txBlocked`), a frame cannot arrive at all.  Holds whether or not the message is
catalogued or decodable. -/
theorem C05_gate (d : Defects) (s : St) (q : Bool) (st f : Int) (w : Bool) (sys : Int) (dcd : Bool) (hc : s.conn ≠ .selected) :
    delivers (step d s (dataIn q st f w sys dcd)).2 = []
    ∧ (step d s (dataIn q st f w sys dcd)).1 = s
    ∧ (s.conn = .notSelected → (step d s (dataIn q st f w sys dcd)).2 = [.tx SType.rejectReq.code sys Gen.HsmsSType.DATA_MESSAGE 4])
    ∧ (s.conn = .notConnected → txs (step d s (dataIn q st f w sys dcd)).2 = []
        ∧ (q = true → (step d s (dataIn q st f w sys dcd)).2 = [.txBlocked SType.rejectReq.code sys Gen.HsmsSType.DATA_MESSAGE 4])) := by
  obtain ⟨c, dc, ac, ctr, opn, lts, lto⟩ := s
  cases c
  · cases q <;> simp [dataIn, step, handleDataQueued, delivers, txs]
  · cases q <;> simp [dataIn, step, handleData, handleDataQueued, delivers, reject]
  · exact absurd rfl hc

/-- non-vacuity: an uncatalogued, undecodable S99F1 with the W-bit while NOT SELECTED is rejected with its system bytes, reason 4; the
same block dispatched from the queue after the connection was closed is not delivered either -/
example : (step .none ⟨.notSelected, false, false, 7, [], false, 0⟩ (.rxData 99 1 true 12 false)).2 = [.tx 7 12 0 4]
    ∧ (step .none ⟨.notConnected, false, false, 7, [], false, 0⟩ (.rxDataQueued 1 1 true 102 true)).2 = [.txBlocked 7 102 0 4] := by decide

/-- **SELECTED delivers exactly once.**  A data message handled while SELECTED (received, or dispatched from the queue) produces exactly
one output: it is put on the queue of the requester waiting on its system bytes if it is a reply (even function code) and there is such a
requester, otherwise handed to the application (`message_received`) — in particular a primary (odd function) whose system bytes collide
with an open local transaction goes to the application; no frame is written and the connection state stays SELECTED.  Holds for every
stream/function, W-bit and body. -/
theorem C05_selected_delivers (d : Defects) (s : St) (q : Bool) (st f : Int) (w : Bool) (sys : Int) (dcd : Bool) (hc : s.conn = .selected) :
    (step d s (dataIn q st f w sys dcd)).2 = [if f % 2 = 0 ∧ isOpen s sys = true then Out.deliverWaiter sys else Out.deliverApp sys]
    ∧ (step d s (dataIn q st f w sys dcd)).1.conn = .selected := by
  obtain ⟨c, dc, ac, ctr, opn, lts, lto⟩ := s
  simp only at hc; subst hc
  cases q <;> simp only [dataIn, step, handleData, handleDataQueued] <;>
    by_cases ho : f % 2 = 0 ∧ isOpen ⟨.selected, dc, ac, ctr, opn, lts, lto⟩ sys = true <;> simp [ho]

/-- non-vacuity: SELECTED with a requester waiting on 1001: a reply (S1F2) with these system bytes goes to the requester, a primary (S1F1)
with the same system bytes and any message with other system bytes go to the application -/
example : (step .none ⟨.selected, false, true, 1001, [(1001, .select)], false, 0⟩ (.rxData 1 2 false 1001 true)).2 = [.deliverWaiter 1001]
    ∧ (step .none ⟨.selected, false, true, 1001, [(1001, .select)], false, 0⟩ (.rxData 1 1 true 1001 true)).2 = [.deliverApp 1001]
    ∧ (step .none ⟨.selected, false, true, 1001, [(1001, .select)], false, 0⟩ (.rxData 1 2 false 5 true)).2 = [.deliverApp 5]
    -- the W-bit plays no part: a primary WITHOUT W on the open system bytes still goes to the application (the requester keeps waiting),
    -- an even function WITH W on them goes to the requester
    ∧ step .none ⟨.selected, false, true, 1001, [(1001, .select)], false, 0⟩ (.rxData 5 1 false 1001 true)
        = (⟨.selected, false, true, 1001, [(1001, .select)], false, 0⟩, [.deliverApp 1001])
    ∧ (step .none ⟨.selected, false, true, 1001, [(1001, .select)], false, 0⟩ (.rxData 1 2 true 1001 true)).2 = [.deliverWaiter 1001] := by decide

/-- **The three statements at every point of every history** (from any start state, for both variants). -/
theorem C05_history_responses (d : Defects) (s0 : St) (is : List In) :
    let s := final d s0 is
    (∀ st sys status, isRequest st = true → s.conn ≠ .notConnected →
      txs (step d s (.rxCtrl st sys status)).2 =
        [if s.disconnecting then Out.tx SType.rejectReq.code sys st.code 4 else Out.tx (rspOf st).code sys 0 0])
    ∧ (∀ q st f w sys dcd, s.conn ≠ .selected → delivers (step d s (dataIn q st f w sys dcd)).2 = []
        ∧ (s.conn = .notSelected → (step d s (dataIn q st f w sys dcd)).2 = [.tx SType.rejectReq.code sys Gen.HsmsSType.DATA_MESSAGE 4]))
    ∧ (∀ q st f w sys dcd, s.conn = .selected →
        (step d s (dataIn q st f w sys dcd)).2 = [if f % 2 = 0 ∧ isOpen s sys = true then Out.deliverWaiter sys else Out.deliverApp sys]) := by
  intro s
  refine ⟨fun st sys status h1 h2 => C05_one_response d s st sys status h1 h2, ?_, ?_⟩
  · intro q st f w sys dcd h
    exact ⟨(C05_gate d s q st f w sys dcd h).1, (C05_gate d s q st f w sys dcd h).2.2.1⟩
  · intro q st f w sys dcd h
    exact (C05_selected_delivers d s q st f w sys dcd h).1

/-- non-vacuity: all three states are reachable by histories -/
example : (final .none (St.init true 5) [.connect]).conn = .notSelected
    ∧ (final .none (St.init true 5) [.connect, .rxCtrl .selectReq 9 0]).conn = .selected
    ∧ (final .none (St.init true 5) [.connect, .rxCtrl .selectReq 9 0, .disableBegin, .disableEnd]).conn = .notConnected := by
  decide +kernel

/-! ## responses nobody asked for, and the timers -/

/-- **An unsolicited Select.rsp / Deselect.rsp is dropped silently.**  A Select.rsp (Deselect.rsp) whose system bytes are not those of a
Select.req (Deselect.req) this endpoint has open changes nothing and writes nothing — in particular no Reject.req (E37 asks for reason
"transaction not open"; C05's statement is about the session state and about answers to *requests*, so this is recorded, not demanded). -/
theorem C05_unsolicited_rsp_silent (s : St) (sys status : Int) :
    (isOpenKind s sys .select = false → step .none s (.rxCtrl .selectRsp sys status) = (s, []))
    ∧ (isOpenKind s sys .deselect = false → step .none s (.rxCtrl .deselectRsp sys status) = (s, [])) := by
  constructor <;> intro h <;> simp [step, handleCtrl, Defects.none, h]

/-- non-vacuity: the open Select.req of an active endpoint is 1001; a Select.rsp for 4242 is dropped, the one for 1001 selects -/
example : step .none ⟨.notSelected, false, true, 1001, [(1001, .select)], true, 0⟩ (.rxCtrl .selectRsp 4242 0)
      = (⟨.notSelected, false, true, 1001, [(1001, .select)], true, 0⟩, [])
    ∧ (step .none ⟨.notSelected, false, true, 1001, [(1001, .select)], true, 0⟩ (.rxCtrl .selectRsp 1001 0)).1.conn = .selected := by
  decide

/-- **Timers leave the session alone.**  T6 expiry only ends the requester's wait (no frame, no delivery, state unchanged — E37's
"communication failure" is not acted upon); a firing linktest timer writes at most one frame, a Linktest.req with a fresh system id
(none without a connection: it is put into the send queue), delivers nothing and leaves the session state unchanged. -/
theorem C05_timers_keep_state (d : Defects) (s : St) (sys : Int) :
    ((step d s (.timeoutT6 sys)).1.conn = s.conn ∧ (step d s (.timeoutT6 sys)).2 = [])
    ∧ ((step d s .linktestTimer).1.conn = s.conn ∧ delivers (step d s .linktestTimer).2 = []
        ∧ (txs (step d s .linktestTimer).2 = []
            ∨ txs (step d s .linktestTimer).2 = [.tx SType.linktestReq.code (nextCtr s.ctr) 0 0])) := by
  obtain ⟨c, dc, ac, ctr, opn, lts, lto⟩ := s
  refine ⟨⟨by simp [step], by simp [step]⟩, ?_⟩
  cases c <;> cases lts <;> simp [step, onLinktestTimer, sendReq, delivers, txs, Req.stype] <;> split <;> simp [txs]

/-- **The linktest timer outlives the connection (recorded behaviour, not a C05 matter).**  Connect; the linktest timer fires
(Linktest.req 1001 goes out); the peer closes before answering; T6 expires: `_on_linktest_timer` re-arms the timer although the session is
NOT CONNECTED.  After the next connect there are two pending timers — the one `_on_state_connect` starts does not cancel the stray one. -/
theorem C05_linktest_timer_survives_close :
    let s1 := final .none (St.init false 1000) [.connect, .linktestTimer, .peerClose, .timeoutT6 1001]
    let s2 := final .none (St.init false 1000) [.connect, .linktestTimer, .peerClose, .timeoutT6 1001, .connect]
    s1.conn = .notConnected ∧ s1.ltStored = true ∧ s2.ltStored = true ∧ s2.ltOrphans = 1 := by
  decide +kernel

/-! ## the accept race -/
open Race in
/-- **Accept race.**  The accepting thread runs the statements of `_on_connected` in their source order (generated) while a
Select.req is already buffered; the dispatcher (`send_select_rsp`, then `select()`) runs as soon as `_thread.start()` has happened.
For every schedule: in every final state, if Select.rsp was sent the connection state is SELECTED. -/
theorem C05_accept_race (sched : List Bool) :
    let s := runSched (init Gen.HsmsProto.onConnected) sched
    isFinal s = true → s.rspSent = true → s.conn = .selected := by
  intro s hf hr
  exact Proofs.HsmsFsm.race_safe sched hf hr

open Race in
/-- non-vacuity: the schedule "accept thread to the end, then the dispatcher" is final, has sent Select.rsp and is SELECTED -/
example : let s := runSched (init Gen.HsmsProto.onConnected) [true, true, true, true, false, false]
    isFinal s = true ∧ s.rspSent = true ∧ s.conn = .selected ∧ s.raised = false := by decide +kernel

open Race in
/-- **Reverting the fix is a regression.**  With the old order (`_thread.start()` before `connect()`) the schedule
"start the threads, dispatcher handles the Select.req, then connect" ends NOT SELECTED although Select.rsp was sent. -/
theorem C05_witness_accept_race_old_order :
    let s := runSched (init oldOrder) [true, true, false, false, true, true]
    isFinal s = true ∧ s.rspSent = true ∧ s.raised = true ∧ s.conn = .notSelected := by
  decide +kernel

end SecsModel.Props.C05
