import SecsModel.Proofs.SecsILineFacts
import SecsModel.Proofs.SecsILineMsg
import SecsModel.Proofs.SecsILineBound
import SecsModel.Gen.BlockSend
/-!
# C17 — SECS-I line protocol delivers accepted messages intact, once; NAKs bad blocks

`Model.SecsILine.sys aIsHost encs fault`: endpoint `a` sends the encoded blocks `encs` with one `send_message` call, endpoint `b` only
receives ("one side transmits at a time"); `aIsHost` picks the direction.  A **schedule** interleaves the two protocol threads, the
application thread and the deliveries of arbitrary non-empty chunks of the two byte channels — so "for all schedules" is "for all
chunkings and all thread interleavings".  All statements below are for **every** schedule, **every** number of blocks and **every**
well-framed block (`Framed enc blk`: length byte `l`, `l + 2` further bytes, `Block.decode enc = blk` — what C16's block round-trip
gives for `Block.encode`).

Proof: a stage invariant (`Proofs.SecsILine.Stage`: per block the line is in one of
`queued → ENQ sent → EOT sent → block sent → ACK/NAK sent → resolved`, with `rxbuf ++ channel` fixed per stage, whatever its split)
is inductive over all steps (`inv_step`).

Termination: `Proofs.SecsILine.measure` (blocks still to send × their bytes, bytes in flight — dearer on the line than in a
buffer —, phase of the two protocol threads) drops with **every** enabled step (`measure_step`), so no schedule is longer than
`stepBound encs = 1 + Σ (40·|encᵢ| + 95)` and, since a state in which `send_message` has not returned always has an enabled step,
every scheduler that keeps firing enabled steps (no fairness assumption needed) makes the call return within that many steps.

Not claimed: T1–T4 timeouts and retries (not in the code), contention (both sides sending).
-/
namespace SecsModel.Props.C17
open SecsModel SecsModel.Model.SecsI SecsModel.Model.SecsILine SecsModel.Proofs.SecsILine SecsModel.Proofs.SecsIHdr

deriving instance DecidableEq for Except

/-- a real 13-byte block encoding (S1F1 W, no data) -/
def enc1bytes : Bytes := [10, 0, 1, 129, 1, 128, 1, 0, 0, 0, 7, 1, 11]

/-- generated handshake bytes are the SEMI E4 values (ENQ 0x05, EOT 0x04, ACK 0x06, NAK 0x15) -/
theorem handshake_bytes : (ENQ : Nat) = 5 ∧ (EOT : Nat) = 4 ∧ (ACK : Nat) = 6 ∧ (NAK : Nat) = 21 := by decide

/-- **The application thread of the model is the code's `send_message`** (facts regenerated from the source on every run): per block it
queues a `BlockSendInfo`, waits on it *without a timeout*, gets `True` exactly for `SENT_OK` (`resolve(True)`), stops with `False`
otherwise and returns `True` after the last block — `Model.SecsILine.appStep`.  A bounded wait, or a result test that lets the initial
`NOT_SENT` state count as success, re-opens this obligation (and with it `delivery` / `nak`, which are about `appStep`). -/
theorem send_message_waits :
    Gen.BlockSend.waitUnbounded = true ∧ Gen.BlockSend.waitReturnsSentOk = true ∧ Gen.BlockSend.resolveMapsBool = true
      ∧ Gen.BlockSend.sendWaitsEveryBlock = true := ⟨rfl, rfl, rfl, rfl⟩

/-- the invariant holds in every reachable state -/
theorem reach (ctx : Ctx) (hfr : ∀ p ∈ ctx.pairs, Framed p.1 p.2) (hbad : BadOK ctx) (aIsHost : Bool)
    (sched : List Label) (s : State) (hr : (sys aIsHost (ctx.pairs.map (·.1)) ctx.fault).run sched = some s) : Inv ctx s := by
  have h0 : Inv ctx (sys aIsHost (ctx.pairs.map (·.1)) ctx.fault).init := inv_init ctx aIsHost (fun _ _ _ _ => Nat.zero_le _)
  exact Sys.inv_of_step (sys aIsHost (ctx.pairs.map (·.1)) ctx.fault) (Inv ctx) h0
    (fun s l s' hi hs => inv_step ctx hfr hbad s s' l hi hs) sched s hr

/-- number of scheduler steps (thread steps, application steps, chunk deliveries) a transfer of `encs` can take at most -/
def stepBound (encs : List Bytes) : Nat := 1 + wTodo encs

example : stepBound [enc1bytes, enc1bytes] = 1 + 2 * (40 * 13 + 95) := by decide

/-- **Bounded runs**: every schedule is at most `stepBound` long (each enabled step lowers the ranking function) -/
theorem bounded (ctx : Ctx) (hfr : ∀ p ∈ ctx.pairs, Framed p.1 p.2) (hbad : BadOK ctx) (aIsHost : Bool)
    (sched : List Label) (s : State) (hr : (sys aIsHost (ctx.pairs.map (·.1)) ctx.fault).run sched = some s) :
    sched.length + measure s ≤ stepBound (ctx.pairs.map (·.1)) := by
  have h0 : Inv ctx (sys aIsHost (ctx.pairs.map (·.1)) ctx.fault).init := inv_init ctx aIsHost (fun _ _ _ _ => Nat.zero_le _)
  have := Sys.bound_of_measure (sys aIsHost (ctx.pairs.map (·.1)) ctx.fault) (Inv ctx) measure h0
    (fun s l s' hi hs => ⟨inv_step ctx hfr hbad s s' l hi hs, measure_step ctx s s' l hi hs⟩) sched s hr
  have e : measure (sys aIsHost (ctx.pairs.map (·.1)) ctx.fault).init = stepBound (ctx.pairs.map (·.1)) := measure_init _ _ _
  omega

/-! ## fault-free line -/

/-- **Delivery.**  Perfect line, any direction, any message (`pairs` = its blocks with their encodings), any schedule:
* the peer has received an initial part of the sender's blocks, in order, nothing else (never a duplicate, never out of order);
* when `send_message` has returned it returned `True`, the peer has received exactly the sender's blocks, the line transcript is
  exactly `(ENQ, EOT, block, ACK)*` — each block announced by ENQ, sent only after EOT, acknowledged by ACK — and no byte is left over;
* as long as `send_message` has not returned, something can move (no wedged state) — and every step that can be taken lowers the
  ranking function, so the schedule is at most `stepBound` long: **the call returns within `stepBound` steps** of any scheduler that
  keeps firing enabled steps. -/
theorem delivery (pairs : List (Bytes × Block)) (hfr : ∀ p ∈ pairs, Framed p.1 p.2) (aIsHost : Bool)
    (sched : List Label) (s : State) (hr : (sys aIsHost (pairs.map (·.1))).run sched = some s) :
    (∃ m, s.b.delivered = (pairs.map (·.2)).take m)
    ∧ (∀ ok, s.a.app = .fin ok →
        ok = true ∧ s.b.delivered = pairs.map (·.2) ∧ s.log = transcript (pairs.map (·.1))
          ∧ s.ab = [] ∧ s.ba = [] ∧ s.a.rxbuf = [] ∧ s.b.rxbuf = [])
    ∧ ((∀ ok, s.a.app ≠ .fin ok) → ∃ l s', step s l = some s')
    ∧ sched.length ≤ stepBound (pairs.map (·.1)) := by
  let ctx : Ctx := ⟨pairs, none⟩
  have hbad : BadOK ctx := by intro j t v h; cases h
  have hinv : Inv ctx s := reach ctx hfr hbad aIsHost sched s hr
  have hb := bounded ctx hfr hbad aIsHost sched s hr
  refine ⟨?_, ?_, inv_progress ctx hfr hbad s hinv, by simp only [ctx] at hb; omega⟩
  · obtain ⟨m, hm, _⟩ := inv_delivered_prefix ctx s hinv; exact ⟨m, hm⟩
  · intro ok hfin
    have := inv_complete ctx hbad s ok hinv hfin
    simpa [Ctx.expectOutcome, Ctx.expectDelivered, Ctx.expectLog, ctx] using this

/-- **The call returns.**  Every run that cannot be continued (no thread can move, no byte is left to deliver) has `send_message`
returned `True` with exact delivery — and is at most `stepBound` steps long.  Together with `delivery` (every enabled step is allowed
at any time): whatever the scheduler does, after at most `stepBound` steps the call has returned. -/
theorem delivery_returns (pairs : List (Bytes × Block)) (hfr : ∀ p ∈ pairs, Framed p.1 p.2) (aIsHost : Bool)
    (sched : List Label) (s : State) (hr : (sys aIsHost (pairs.map (·.1))).run sched = some s) (hmax : ∀ l, step s l = none) :
    s.a.app = .fin true ∧ s.b.delivered = pairs.map (·.2) ∧ s.log = transcript (pairs.map (·.1))
      ∧ sched.length ≤ stepBound (pairs.map (·.1)) := by
  obtain ⟨_, d2, d3, d4⟩ := delivery pairs hfr aIsHost sched s hr
  have hfin : ∃ ok, s.a.app = .fin ok := by
    apply Classical.byContradiction
    intro hn
    obtain ⟨l, s', hl⟩ := d3 (fun ok h => hn ⟨ok, h⟩)
    rw [hmax l] at hl; cases hl
  obtain ⟨ok, hok⟩ := hfin
  obtain ⟨a1, a2, a3, _⟩ := d2 ok hok
  exact ⟨by rw [hok, a1], a2, a3, d4⟩

/-- **Chunking is irrelevant.**  Two runs of the same transfer under *any two* schedules (chunkings, interleavings) that both let
`send_message` return agree on its result, on what the peer received and on the complete line transcript. -/
theorem chunking_irrelevant (pairs : List (Bytes × Block)) (hfr : ∀ p ∈ pairs, Framed p.1 p.2) (aIsHost : Bool)
    (sched₁ sched₂ : List Label) (s₁ s₂ : State) (ok₁ ok₂ : Bool)
    (h₁ : (sys aIsHost (pairs.map (·.1))).run sched₁ = some s₁) (h₂ : (sys aIsHost (pairs.map (·.1))).run sched₂ = some s₂)
    (f₁ : s₁.a.app = .fin ok₁) (f₂ : s₂.a.app = .fin ok₂) :
    ok₁ = ok₂ ∧ s₁.b.delivered = s₂.b.delivered ∧ s₁.log = s₂.log := by
  obtain ⟨a1, a2, a3, _⟩ := (delivery pairs hfr aIsHost sched₁ s₁ h₁).2.1 ok₁ f₁
  obtain ⟨b1, b2, b3, _⟩ := (delivery pairs hfr aIsHost sched₂ s₂ h₂).2.1 ok₂ f₂
  exact ⟨by rw [a1, b1], by rw [a2, b2], by rw [a3, b3]⟩

/-! ## one corrupted byte -/

/-- the C16 obligation `C16.corruption_rejected` this theorem composes with: the block `enc` with byte `t` replaced by `v` is not
accepted by `Block.decode` (`None`: checksum mismatch).  For `1 ≤ t`, `v ≠ enc[t]`, `v < 256` this is C16's corruption statement. -/
def C16.corruption_rejected (enc : Bytes) (t v : Nat) : Prop := Block.decode (enc.set t v) = .ok none

/-- **NAK.**  Block `j` arrives with byte `t ≥ 1` (header, data or checksum — not the length byte) replaced by `v`, and C16 rejects that
block.  Then for every schedule:
* the peer has received an initial part of the blocks *before* `j` — block `j` is never delivered, nor anything after it;
* when `send_message` has returned it returned `False`, the peer has received exactly the blocks before `j`, and the transcript is
  `(ENQ, EOT, block, ACK)^j, ENQ, EOT, block_j, NAK`;
* no wedged state before that, and the schedule is at most `stepBound` long: NAK is sent and the call returns `False` within
  `stepBound` steps of any scheduler that keeps firing enabled steps. -/
theorem nak (pairs : List (Bytes × Block)) (hfr : ∀ p ∈ pairs, Framed p.1 p.2) (aIsHost : Bool)
    (j t v : Nat) (enc : Bytes) (blk : Block) (hj : pairs[j]? = some (enc, blk)) (ht1 : 1 ≤ t) (ht2 : t < enc.length)
    (hrej : C16.corruption_rejected enc t v)
    (sched : List Label) (s : State) (hr : (sys aIsHost (pairs.map (·.1)) (some (2 * j + 1, t, v))).run sched = some s) :
    (∃ m, m ≤ j ∧ s.b.delivered = (pairs.map (·.2)).take m)
    ∧ (∀ ok, s.a.app = .fin ok →
        ok = false ∧ s.b.delivered = (pairs.take j).map (·.2)
          ∧ s.log = transcript ((pairs.take j).map (·.1)) ++ [(true, [ENQ]), (false, [EOT]), (true, enc), (false, [NAK])]
          ∧ s.ab = [] ∧ s.ba = [] ∧ s.a.rxbuf = [] ∧ s.b.rxbuf = [])
    ∧ ((∀ ok, s.a.app ≠ .fin ok) → ∃ l s', step s l = some s')
    ∧ sched.length ≤ stepBound (pairs.map (·.1)) := by
  let ctx : Ctx := ⟨pairs, some (j, t, v)⟩
  have hbad : BadOK ctx := by
    intro j' t' v' h
    simp only [ctx, Option.some.injEq, Prod.mk.injEq] at h
    obtain ⟨rfl, rfl, rfl⟩ := h
    exact ⟨enc, blk, hj, ht1, ht2, hrej⟩
  have hinv : Inv ctx s := reach ctx hfr hbad aIsHost sched s hr
  have hb := bounded ctx hfr hbad aIsHost sched s hr
  refine ⟨?_, ?_, inv_progress ctx hfr hbad s hinv, by simp only [ctx] at hb; omega⟩
  · obtain ⟨m, hm, hle⟩ := inv_delivered_prefix ctx s hinv; exact ⟨m, hle j t v rfl, hm⟩
  · intro ok hfin
    have := inv_complete ctx hbad s ok hinv hfin
    simpa [Ctx.expectOutcome, Ctx.expectDelivered, Ctx.expectLog, ctx, hj, cycle, answer] using this


/-- **NAK happens and the call returns `False`**: every run that cannot be continued has sent NAK for block `j`, delivered only the
blocks before it and returned `False`, within `stepBound` steps. -/
theorem nak_returns (pairs : List (Bytes × Block)) (hfr : ∀ p ∈ pairs, Framed p.1 p.2) (aIsHost : Bool)
    (j t v : Nat) (enc : Bytes) (blk : Block) (hj : pairs[j]? = some (enc, blk)) (ht1 : 1 ≤ t) (ht2 : t < enc.length)
    (hrej : C16.corruption_rejected enc t v)
    (sched : List Label) (s : State) (hr : (sys aIsHost (pairs.map (·.1)) (some (2 * j + 1, t, v))).run sched = some s)
    (hmax : ∀ l, step s l = none) :
    s.a.app = .fin false ∧ s.b.delivered = (pairs.take j).map (·.2)
      ∧ s.log = transcript ((pairs.take j).map (·.1)) ++ [(true, [ENQ]), (false, [EOT]), (true, enc), (false, [NAK])]
      ∧ sched.length ≤ stepBound (pairs.map (·.1)) := by
  obtain ⟨_, d2, d3, d4⟩ := nak pairs hfr aIsHost j t v enc blk hj ht1 ht2 hrej sched s hr
  have hfin : ∃ ok, s.a.app = .fin ok := by
    apply Classical.byContradiction
    intro hn
    obtain ⟨l, s', hl⟩ := d3 (fun ok h => hn ⟨ok, h⟩)
    rw [hmax l] at hl; cases hl
  obtain ⟨ok, hok⟩ := hfin
  obtain ⟨a1, a2, a3, _⟩ := d2 ok hok
  exact ⟨by rw [hok, a1], a2, a3, d4⟩

/-! ## composed with C16: whole messages -/

/-- **Delivery of a message.**  Any header in range, any body (of at most 32767 blocks), either direction: there are encodings `encs`
of the blocks of `split h body` (C16: `Block.encode` succeeds on each) such that for every schedule of the transfer
* the peer holds an initial part of `split h body`;
* when `send_message` has returned: it returned `True`, the peer holds exactly `split h body` — whose data concatenates to `body` and
  whose headers are `h`'s (C16.split_correct) — and the transcript is `(ENQ, EOT, encᵢ, ACK)*`;
* no wedged state before that. -/
theorem delivery_message (h : Header) (body : Bytes) (hr : InRange h) (abody : AllBytes body)
    (hcount : (split h body).length ≤ 32767) (aIsHost : Bool) :
    ∃ pairs : List (Bytes × Block), pairs.map (·.2) = split h body ∧ (∀ p ∈ pairs, Block.encode p.2 = .ok p.1) ∧
      ∀ (sched : List Label) (s : State), (sys aIsHost (pairs.map (·.1))).run sched = some s →
        (∃ m, s.b.delivered = (split h body).take m)
        ∧ (∀ ok, s.a.app = .fin ok →
            ok = true ∧ s.b.delivered = split h body ∧ Message.data s.b.delivered = body ∧ s.log = transcript (pairs.map (·.1)))
        ∧ ((∀ ok, s.a.app ≠ .fin ok) → ∃ l s', step s l = some s')
        ∧ sched.length ≤ stepBound (pairs.map (·.1)) := by
  obtain ⟨pairs, hp, hall⟩ := message_pairs h body hr abody hcount
  refine ⟨pairs, hp, fun p hpm => (hall p hpm).1, ?_⟩
  intro sched s hrun
  obtain ⟨d1, d2, d3, d4⟩ := delivery pairs (fun p hpm => (hall p hpm).2.1) aIsHost sched s hrun
  rw [hp] at d1 d2
  refine ⟨d1, ?_, d3, d4⟩
  intro ok hfin
  obtain ⟨a1, a2, a3, _⟩ := d2 ok hfin
  refine ⟨a1, a2, ?_, a3⟩
  rw [a2]; exact (Props.C16.split_correct h body).1

/-- **NAK for a message.**  As `delivery_message`, but byte `t ≥ 1` of block `j` arrives as a different byte value `v`: block `j` is never
delivered; when `send_message` has returned it returned `False` and the transcript ends `ENQ, EOT, enc_j, NAK`.  No hypothesis about
`Block.decode` is left: C16's corruption theorem supplies it. -/
theorem nak_message (h : Header) (body : Bytes) (hr : InRange h) (abody : AllBytes body)
    (hcount : (split h body).length ≤ 32767) (aIsHost : Bool) :
    ∃ pairs : List (Bytes × Block), pairs.map (·.2) = split h body ∧ (∀ p ∈ pairs, Block.encode p.2 = .ok p.1) ∧
      ∀ (j t v : Nat) (enc : Bytes) (blk : Block), pairs[j]? = some (enc, blk) → 1 ≤ t → t < enc.length → v < 256 → enc[t]? ≠ some v →
      ∀ (sched : List Label) (s : State), (sys aIsHost (pairs.map (·.1)) (some (2 * j + 1, t, v))).run sched = some s →
        (∃ m, m ≤ j ∧ s.b.delivered = (split h body).take m)
        ∧ (∀ ok, s.a.app = .fin ok →
            ok = false ∧ s.b.delivered = (split h body).take j
              ∧ s.log = transcript ((pairs.take j).map (·.1)) ++ [(true, [ENQ]), (false, [EOT]), (true, enc), (false, [NAK])])
        ∧ ((∀ ok, s.a.app ≠ .fin ok) → ∃ l s', step s l = some s')
        ∧ sched.length ≤ stepBound (pairs.map (·.1)) := by
  obtain ⟨pairs, hp, hall⟩ := message_pairs h body hr abody hcount
  refine ⟨pairs, hp, fun p hpm => (hall p hpm).1, ?_⟩
  intro j t v enc blk hj ht1 ht2 hv hne sched s hrun
  have hmem : (enc, blk) ∈ pairs := List.mem_of_getElem? hj
  obtain ⟨he, _, hrb, hab, hnb⟩ := hall (enc, blk) hmem
  have hrej : C16.corruption_rejected enc t v :=
    corrupted_is_none blk.header blk.data hrb hab hnb enc he t v ht1 ht2 hv hne
  obtain ⟨d1, d2, d3, d4⟩ := nak pairs (fun p hpm => (hall p hpm).2.1) aIsHost j t v enc blk hj ht1 ht2 hrej sched s hrun
  rw [hp] at d1
  refine ⟨d1, ?_, d3, d4⟩
  intro ok hfin
  obtain ⟨a1, a2, a3, _⟩ := d2 ok hfin
  refine ⟨a1, ?_, a3⟩
  rw [a2, ← hp, List.map_take]

/-! ## non-vacuity -/

/-- two real encodings (as produced by `Block.encode`): S1F1 W, block 1 of 1, no data; and a block with two data bytes -/
def enc1 : Bytes := enc1bytes
def blk1 : Block := ⟨⟨7, 1, 1, 1, 1, false, true, true⟩, []⟩
def enc2 : Bytes := [12, 0, 1, 129, 1, 128, 2, 0, 0, 0, 7, 65, 66, 1, 143]
def blk2 : Block := ⟨⟨7, 1, 1, 1, 2, false, true, true⟩, [65, 66]⟩

example : Block.encode blk1 = .ok enc1 ∧ Block.encode blk2 = .ok enc2 := by decide +kernel
theorem framed1 : Framed enc1 blk1 := ⟨10, _, rfl, rfl, by decide +kernel⟩
theorem framed2 : Framed enc2 blk2 := ⟨12, _, rfl, rfl, by decide +kernel⟩
/-- the hypothesis of `nak` is satisfiable: a data byte of `enc2` altered -/
example : C16.corruption_rejected enc2 11 66 := by unfold C16.corruption_rejected; decide +kernel

/-- the hypotheses of `delivery_message` / `nak_message` are satisfiable: a 300-byte body is two blocks -/
example : InRange ⟨7, 1, 1, 1, 0, false, true, false⟩ ∧ (split ⟨7, 1, 1, 1, 0, false, true, false⟩ (List.replicate 300 65)).length = 2 := by
  decide +kernel

/-- a complete concrete run, host sends one block, the line delivers it in chunks of 5, 5 and 3 bytes -/
example : ((sys true [enc1]).run [.app true, .thr true, .thr true, .dlv false 1, .thr false, .thr false, .thr false, .dlv true 1,
      .thr true, .dlv false 5, .dlv false 5, .dlv false 3, .thr false, .dlv true 1, .thr true, .app true, .app true]).map
    (fun s => (s.a.app, s.b.delivered, s.log)) = some (.fin true, [blk1], transcript [enc1]) := by decide +kernel

/-- the same with a corrupted data byte: NAK, nothing delivered, `send_message` returns `False` -/
example : ((sys false [enc2] (some (1, 11, 66))).run [.app true, .thr true, .thr true, .dlv false 1, .thr false, .thr false, .thr false,
      .dlv true 1, .thr true, .dlv false 15, .thr false, .dlv true 1, .thr true, .app true]).map
    (fun s => (s.a.app, s.b.delivered, s.log.getLast?)) = some (.fin false, [], some (false, [NAK])) := by decide +kernel

end SecsModel.Props.C17
