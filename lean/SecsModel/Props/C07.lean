import SecsModel.Proofs.GemCommStep
import SecsModel.Gen.HsmsProto
/-!
# C07 — GEM communication state follows the E30 establish-communications model

Only property theorems, non-vacuity examples and counterexample theorems live here.  The model is `Model.GemComm.step`
(hand model of `GemHandler`, consulting the generated `Gen.CommSM` and `Gen.Callbacks`); the property's clauses are the
trace predicates of `Spec.E30Comm`.  "For all histories" is the universally quantified `h : List Input`; both roles and every
set of user callbacks are covered by the universally quantified `cfg`.

Two behaviours are ruled out by the property text (proposals/C07-*.md): an S1F14 is accepted whatever its system bytes
(`cfg.sysChecked = false` — the shipped code, recorded finding c07-s1f14-system-unchecked), and an inbound S1F13 establishes
communication even when `on_commack_requested()` refused it (`cfg.commackGate = false`; reachable only through a subclass —
repaired in /repo by a `fix:` commit, so the shipped code is `commackGate = true`).  The full theorem is stated for every
variant; for the shipped variant it specialises to the `_partial` statement, and the two `witness_*` theorems exhibit the
histories on which the full statement fails for the defective variants.  The harness detects on every run which variant the
implementation shows; a variant whose finding is not listed in known_findings.txt is reported as a violation.
-/
namespace SecsModel.Props.C07
open SecsModel SecsModel.Spec.E30Comm SecsModel.Model.GemComm SecsModel.Proofs.GemComm

/-! ## the generated table refines the E30 table -/

def rowOk (r : String × List String × String) : Bool :=
  Trans.all.any fun t => t.name == r.1 &&
    r.2.1.all fun src => match Comm.ofName src, Comm.ofName r.2.2 with
      | some c, some d => allowed t c == some d
      | _, _ => false

/-- every row of the generated `CommunicationStateMachine` table — each (source, destination) pair of each named
transition — is a transition of the E30 table `Spec.E30Comm.allowed`; transition names are unique -/
theorem table_refines :
    Gen.CommSM.transitions.all rowOk = true ∧ (Gen.CommSM.transitions.map (·.1)).Nodup ∧ Gen.CommSM.initial = Comm.disabled.name := by
  refine ⟨by decide +kernel, by decide +kernel, by decide +kernel⟩

/-- … and conversely the lookup the engine performs (`transition(name)`, source check) *is* the E30 table -/
theorem table_step (c : Comm) (t : Trans) :
    smStep c t = match allowed t c with | some d => .ok d | none => .error .wrongSource := smStep_eq c t

/-! ## clause 1: established only after a completed exchange with COMMACK 0 on the current link -/

/-- **All histories, both roles, every variant.**  Whenever the handler is COMMUNICATING, the observed trace splits as
`tr₁ ++ e :: tr₂` where the link was selected after `tr₁`, `e` completes an S1F13/S1F14 exchange with COMMACK 0 (an inbound
S1F13 answered with S1F14/COMMACK 0, or an S1F14/COMMACK 0 — carrying, when the variant checks them, the system bytes of an
S1F13 written on the current link), and neither a link loss nor a disable occurs in `tr₂`. -/
theorem established_only_after_exchange_all (cfg : Cfg) (hck : cfg.commackGate = true ∨ cfg.commackReq = 0) (h : List Input)
    (hc : (run cfg h).1.comm = .communicating) : Justified cfg.sysChecked (run cfg h).2 :=
  (tinv_run cfg hck h).just hc

/-- the statement at the strength of the property text (system bytes matched): holds for the variant that checks them -/
theorem established_only_after_exchange (cfg : Cfg) (hs : cfg.sysChecked = true)
    (hck : cfg.commackGate = true ∨ cfg.commackReq = 0) (h : List Input)
    (hc : (run cfg h).1.comm = .communicating) : Justified true (run cfg h).2 :=
  hs ▸ established_only_after_exchange_all cfg hck h hc

/-- what holds for the code as shipped (no system-bytes check; COMMACK gate or `on_commack_requested()` = 0): the S1F14 that establishes
communication carries COMMACK 0 and arrives on a selected link, but its system bytes are not constrained -/
theorem established_only_after_exchange_partial (cfg : Cfg) (hs : cfg.sysChecked = false)
    (hck : cfg.commackGate = true ∨ cfg.commackReq = 0)
    (h : List Input) (hc : (run cfg h).1.comm = .communicating) : Justified false (run cfg h).2 :=
  hs ▸ established_only_after_exchange_all cfg hck h hc

def okHistory : List Input := [.enable, .linkSelected, .rx 1 14 false 0 (some 0), .rx 1 1 true 5 none]
/-- non-vacuity: a history that ends COMMUNICATING, for the checking variant and for the shipped one -/
example : (run { sysChecked := true, commackGate := true } okHistory).1.comm = .communicating := by decide +kernel
example : (run { commackGate := true } okHistory).1.comm = .communicating := by decide +kernel
example : (run { role := .host } [.enable, .linkSelected, .t3Expired, .delayExpired, .rx 1 13 true 77 none]).1.comm = .communicating := by
  decide +kernel

/-- **Counterexample (shipped variant).**  enable, link selected (S1F13 number 0 is the only one written), then an S1F14 with
COMMACK 0 and system bytes 999: COMMUNICATING, although no S1F13 with those system bytes was ever sent. -/
theorem witness_s1f14_system_unchecked :
    let h : List Input := [.enable, .linkSelected, .rx 1 14 false 999 (some 0)]
    (run {} h).1.comm = .communicating ∧ onLink ((run {} h).2.take 2) = [0] ∧
    (run { sysChecked := true } h).1.comm = .waitCra := by
  decide +kernel

/-- **Counterexample (variant without the COMMACK gate — the code before its `fix:` commit; subclass with `on_commack_requested() = 1`).**  The inbound S1F13 is answered with
S1F14/COMMACK 1 and the handler is COMMUNICATING all the same; with the gate it stays in WAIT_CRA. -/
theorem witness_commack_denied :
    let h : List Input := [.enable, .linkSelected, .rx 1 13 true 77 none]
    (run { commackReq := 1 } h).1.comm = .communicating ∧
    ((run { commackReq := 1 } h).2.map (·.outputs)).flatten = [.txS1F13 0, .txS1F14 77 1, .evtCommunicating] ∧
    (run { commackReq := 1, commackGate := true } h).1.comm = .waitCra := by
  decide +kernel

/-- the `handler_communicating` event (the report) is fired exactly by a step that enters COMMUNICATING -/
theorem event_only_on_entering (cfg : Cfg) (s : State) (i : Input) (h : Output.evtCommunicating ∈ (step cfg s i).2) :
    (step cfg s i).1.comm = .communicating ∧ s.comm ≠ .communicating := step_event cfg s i h

/-- non-vacuity: the S1F14 that establishes communication is such a step -/
example : Output.evtCommunicating ∈ (step {} (run {} [.enable, .linkSelected]).1 (.rx 1 14 false 0 (some 0))).2 := by decide +kernel

/-! ## clause 2: an unanswered or refused attempt is retried after the delay -/

/-- in every reachable state the reply timer is pending exactly in WAIT_CRA and the delay timer exactly in WAIT_DELAY (so
neither wait can last for ever), and COMMUNICATING implies a selected link -/
theorem timers_pending (cfg : Cfg) (h : List Input) :
    let s := (run cfg h).1
    (s.t3Armed = true ↔ s.comm = .waitCra) ∧ (s.delayArmed = true ↔ s.comm = .waitDelay) ∧
    (s.comm = .communicating → s.selected = true) ∧ (s.selected = true → s.connected = true) :=
  ⟨(cinv_run cfg h).t3, (cinv_run cfg h).dly, (cinv_run cfg h).up, (cinv_run cfg h).sc⟩

/-- unanswered: the reply timeout in WAIT_CRA starts the establish-communications delay -/
theorem retry_on_timeout (cfg : Cfg) (h : List Input) (hc : (run cfg h).1.comm = .waitCra) :
    let r := step cfg (run cfg h).1 .t3Expired
    r.1.comm = .waitDelay ∧ r.1.delayArmed = true ∧ r.1.t3Armed = false := by
  have ha := (cinv_run cfg h).t3.mpr hc
  generalize (run cfg h).1 = s at *
  obtain ⟨c, cn, l, a, b, n, m, q⟩ := s
  simp only at hc ha; subst hc; subst ha
  simp [step, perform_eq, allowed, leaveEffects_eq, enterEffects_eq]

/-- refused: an S1F14 with COMMACK ≠ 0 (answering the outstanding S1F13, where the variant looks) in WAIT_CRA starts the delay -/
theorem retry_on_refusal (cfg : Cfg) (h : List Input) (hc : (run cfg h).1.comm = .waitCra) (hl : (run cfg h).1.selected = true)
    (w : Bool) (sys c : Nat) (hne : c ≠ 0) (hsys : cfg.sysChecked = true → (run cfg h).1.mySys = some sys) :
    let r := step cfg (run cfg h).1 (.rx 1 14 w sys (some c))
    r.1.comm = .waitDelay ∧ r.1.delayArmed = true ∧ r.1.t3Armed = false := by
  generalize (run cfg h).1 = s at *
  obtain ⟨cm, cn, l, a, b, n, m, q⟩ := s
  simp only at hc hl hsys; subst hc; subst hl
  cases c with
  | zero => exact absurd rfl hne
  | succ c =>
    by_cases hs : cfg.sysChecked = true
    · simp [step, onMessage, dispatchRow_eq, hs, hsys hs, perform_eq, allowed, leaveEffects_eq, enterEffects_eq]
    · simp [step, onMessage, dispatchRow_eq, hs, perform_eq, allowed, leaveEffects_eq, enterEffects_eq]

/-- after the delay: back to WAIT_CRA, reply timer pending, a fresh S1F13 handed to the protocol — written at once if a
connection exists (selected or not), queued (and written first thing on the next connection) if there is none -/
theorem retry_after_delay (cfg : Cfg) (h : List Input) (hc : (run cfg h).1.comm = .waitDelay) :
    let s := (run cfg h).1
    let r := step cfg s .delayExpired
    r.1.comm = .waitCra ∧ r.1.t3Armed = true ∧ r.1.delayArmed = false ∧ r.1.mySys = some s.nextSys ∧
    (s.connected = true → r.2 = [.txS1F13 s.nextSys]) ∧ (s.connected = false → r.1.queued = s.queued ++ [s.nextSys]) := by
  have ha := (cinv_run cfg h).dly.mpr hc
  generalize (run cfg h).1 = s at *
  obtain ⟨c, cn, l, a, b, n, m, q⟩ := s
  simp only at hc ha; subst hc; subst ha
  cases cn <;> simp [step, perform_eq, allowed, leaveEffects_eq, enterEffects_eq, sendS1F13]

/-- "after the *configured* establish-communications delay": durations are not part of the model; what is generated from the
source is that the configured values reach the timers unaltered — the settings take them with a plain `kwargs.get(name, default)`
(0 is a value, the default is 10 s), the property's setter stores what it is given (0.8 s stays 0.8 s) and the getter returns it,
and the timer handlers read the setting when the state is entered -/
theorem configured_durations_taken :
    Gen.Callbacks.establishDelayPlainGet = true ∧ Gen.Callbacks.establishDelayDefault = 10 ∧
    Gen.Callbacks.timeoutsPlainGet = true ∧ Gen.Callbacks.timersReadSettings = true ∧
    Gen.Callbacks.establishDelayGetterPlain = true ∧ Gen.Callbacks.establishDelaySetterPlain = true ∧
    Gen.Callbacks.timeoutsAccessPlain = true := by decide

/-- the input `enable` of the model is `_communication_state.enable()` *followed by* `protocol.enable()`: a transport that brings
the link up from inside `protocol.enable()` delivers `linkSelected` to an enabled machine (the harness letter `en+sel`); `disable`
is the protocol first, then the machine.  Generated from the statement order of `GemHandler.enable` / `disable`. -/
theorem enable_order : Gen.Callbacks.enableStateMachineFirst = true ∧ Gen.Callbacks.disableProtocolFirst = true := by decide

/-- … so that such an `enable()` starts the attempt: from DISABLED, `enable` then `linkSelected` ends in WAIT_CRA with the S1F13
written and the reply timer pending (any variant, any role) -/
theorem attempt_starts_on_enable (cfg : Cfg) (s : State) (hd : s.comm = .disabled) (hs : s.selected = false) :
    let r1 := step cfg s .enable
    let r2 := step cfg r1.1 .linkSelected
    r2.1.comm = .waitCra ∧ r2.1.t3Armed = true ∧ Output.txS1F13 s.nextSys ∈ r2.2 := by
  obtain ⟨c, cn, l, a, b, n, m, q⟩ := s
  simp only at hd hs; subst hd; subst hs
  simp [step, perform_eq, allowed, leaveEffects_eq, enterEffects_eq, sendS1F13, hooked_comm, selects]

/-- non-vacuity: WAIT_CRA and WAIT_DELAY are reachable with the link up -/
example : (run {} [.enable, .linkSelected]).1.comm = .waitCra ∧ (run {} [.enable, .linkSelected]).1.selected = true := by decide +kernel
/-- … and a connected but not selected endpoint in WAIT_DELAY writes its S1F13 at once; with no connection it is the first frame of the next one -/
example :
    (step {} (run {} [.enable, .linkSelected, .t3Expired, .linkLost, .linkConnected]).1 .delayExpired).2 = [.txS1F13 1] ∧
    (run {} [.enable, .linkSelected, .t3Expired, .linkLost, .delayExpired, .linkConnected]).2.getLast?.map (·.outputs) = some [.txS1F13 1] := by
  decide +kernel
example : (run {} [.enable, .linkSelected, .rx 1 14 false 0 (some 1)]).1.comm = .waitDelay := by decide +kernel

/-! ## clause 3: loss of the link or disabling leaves the established state -/

theorem run_snoc (cfg : Cfg) (h : List Input) (i : Input) : (run cfg (h ++ [i])).1 = (step cfg (run cfg h).1 i).1 := by
  unfold run
  generalize init = s
  generalize ([] : List Obs) = tr
  induction h generalizing s tr with
  | nil => rfl
  | cons x xs ih => exact ih _ _

theorem leave_on_loss (cfg : Cfg) (h : List Input) :
    (run cfg (h ++ [.linkLost])).1.comm ≠ .communicating ∧ (run cfg (h ++ [.disable])).1.comm ≠ .communicating := by
  have hu := (cinv_run cfg h).up
  have hsc := (cinv_run cfg h).sc
  rw [run_snoc, run_snoc]
  generalize (run cfg h).1 = s at *
  obtain ⟨c, cn, l, a, b, n, m, q⟩ := s
  constructor
  · cases cn
    · intro hcm; simp [step] at hcm; simp_all
    · simp only [step, hooked_disc, forwards, lossStates, Bool.true_and]
      cases c <;> simp [perform_eq, allowed, leaveEffects_eq, enterEffects_eq]
  · cases c <;> simp [step, perform_eq, allowed, leaveEffects_eq, enterEffects_eq]

/-- `leave_on_loss` speaks about the input `linkLost`, which is the protocol's `disconnected` event.  That
`HsmsProtocol._on_disconnected` fires it whenever the connection reports the loss — no statement in front of the state change,
the event last — is generated from its statement list (`Gen.HsmsProto`), and `GemHandler` is hooked to it (`Gen.Callbacks`) -/
theorem link_loss_reaches_handler :
    Gen.HsmsProto.onDisconnected = ["set_connected 0", "sm.disconnect", "thread.stop", "receive_buffer.clear", "fire disconnected"] ∧
    hooked "disconnected" "_on_disconnected" = true ∧ Gen.Callbacks.disconnectedForwards = true := by
  refine ⟨by decide, hooked_disc, forwards⟩

/-- non-vacuity: the history before the loss does end COMMUNICATING -/
example : (run {} okHistory).1.comm = .communicating ∧ (run {} (okHistory ++ [.linkLost])).1.comm = .notCommunicating := by
  decide +kernel

/-- what `waitfor_communicating` tells the application is the established state, so it is covered by the statement above:
reported ⇒ a completed exchange on the current link with no loss or disable since -/
theorem reported_only_after_exchange (cfg : Cfg) (hck : cfg.commackGate = true ∨ cfg.commackReq = 0) (h : List Input)
    (hr : reportsEstablished (run cfg h).1 = true) : Justified cfg.sysChecked (run cfg h).2 :=
  established_only_after_exchange_all cfg hck h (by simpa [reportsEstablished] using hr)

/-- … and after a link loss or a disable nothing is reported -/
theorem not_reported_after_loss (cfg : Cfg) (h : List Input) :
    reportsEstablished (run cfg (h ++ [.linkLost])).1 = false ∧ reportsEstablished (run cfg (h ++ [.disable])).1 = false := by
  have := leave_on_loss cfg h
  simpa [reportsEstablished] using this

/-! ## clause 4: nothing is handed to the callbacks unless established -/

theorem no_callback_unless_established (cfg : Cfg) (s : State) (i : Input) (sf f : Nat)
    (h : Output.callback sf f ∈ (step cfg s i).2) : s.comm = .communicating := (step_callback cfg s i sf f h).1

/-- non-vacuity: in COMMUNICATING the callback of an S1F1 is invoked; the same message in WAIT_DELAY is dropped -/
example : (step {} (run {} okHistory).1 (.rx 1 1 true 9 none)).2 = [.callback 1 1] := by decide +kernel
example : (step {} (run {} [.enable, .linkSelected, .t3Expired]).1 (.rx 1 1 true 9 none)).2 = [] := by decide +kernel

end SecsModel.Props.C07
