import SecsModel.Proofs.SM
import SecsModel.Proofs.SMFlat
import SecsModel.Proofs.SMGen
import SecsModel.Proofs.SMSched
/-!
# C18 — State-machine engine keeps one consistent current state under any transitions

Only property theorems, non-vacuity `example`s and counterexample (witness) theorems live here.
Model: `Model.SM` (engine), `Model.SMSched` (concurrent callers, line granularity); spec: `Spec.SM`.
-/
namespace SecsModel.Props.C18
open SecsModel.Model.SM SecsModel.Model.SMSched SecsModel.Spec.SM SecsModel.Gen
open SecsModel.Proofs.SM SecsModel.Proofs.SMFlat SecsModel.Proofs.SMGen SecsModel.Proofs.SMSched

/-! ## a request that is not allowed raises and changes nothing; an allowed one moves to its destination -/

/-- **Rejected request = no-op**, any machine, any handlers, at any nesting depth: an unknown name raises
`UnknownTransitionError`, a name whose sources do not contain the current state raises `WrongSourceStateError`; the
state returned is the state given (current, every flag, event log). -/
theorem rejected_noop (m : MDef) (h : Handlers) (f : Nat) (st : St) (name : String) :
    (lookup m name = none → perform m h (f+1) st name = .fail .unknown st) ∧
    (∀ srcs dst, lookup m name = some (srcs, dst) → srcs.contains st.cur = false →
      perform m h (f+1) st name = .fail .wrongSource st) := by
  constructor
  · intro hl; simp [perform, hl]
  · intro srcs dst hl hc; simp only [perform, hl, hc]; simp

/-- non-vacuity: `select` in NOT_CONNECTED is rejected, `nonsense` is unknown -/
example : perform (ofTable ConnSM) noHandlers 8 (initOf ConnSM) "select" = .fail .wrongSource (initOf ConnSM) ∧
    perform (ofTable ConnSM) noHandlers 8 (initOf ConnSM) "nonsense" = .fail .unknown (initOf ConnSM) := by
  constructor
  · exact ((rejected_noop _ _ 7 _ "select").2 [2] 3 (by decide +kernel) (by decide +kernel))
  · exact ((rejected_noop _ _ 7 _ "nonsense").1 (by decide +kernel))

/-- **Allowed request moves to exactly its destination** (any forest; any handlers that request nothing — `Quiet`: timers,
sends, event forwarding): the request completed iff it was allowed (fuel aside), and then `current` is the transition's destination. -/
theorem moves_to_destination (m : MDef) (hh : Handlers) (hq : Quiet hh) (f : Nat) (st st' : St) (name : String)
    (h : perform m hh f st name = .ok st') :
    ∃ srcs dst, lookup m name = some (srcs, dst) ∧ srcs.contains st.cur = true ∧ st'.cur = dst := by
  obtain ⟨srcs, dst, _, _, hl, hc, _, _, hcur, _⟩ := perform_noH hq h
  exact ⟨srcs, dst, hl, hc, hcur⟩

example : (perform (ofTable ConnSM) noHandlers 8 (initOf ConnSM) "connect").st.cur = 2 := by decide +kernel

/-! ## afterwards the active states are exactly the current state and its ancestors -/

/-- **(a) every forest, handlers that request nothing (`Quiet`; `noHandlers` is one: `quiet_noHandlers`).**  `WF`: a parent is created before its children (the `State` constructor
takes the parent object).  Whether the request is performed or rejected, `active = ancestors-or-self of current` is kept. -/
theorem active_is_ancestors_forest (m : MDef) (wf : WF m) (hh : Handlers) (hq : Quiet hh) (f : Nat) (st : St) (name : String)
    (hinv : Inv m st) (hnf : (perform m hh f st name).err ≠ some .fuel) : Inv m (perform m hh f st name).st := by
  cases h : perform m hh f st name with
  | ok st' => exact inv_noH wf hq hinv h
  | fail e st' =>
    rcases perform_noH_fail hq h with he | ⟨_, hs⟩
    · rw [h] at hnf; exact absurd (by simp [Out.err, he]) hnf
    · simp only [Out.st]; rw [hs]; exact hinv

/-- non-vacuity: a three-level forest (0 ⊃ 1 ⊃ 2, 0 ⊃ 3, root 4) satisfies `WF`; the deep state goes to the shallow sibling subtree -/
def forest5 : MDef where
  n := 5
  parent := fun s => match s with | 1 => some 0 | 2 => some 1 | 3 => some 0 | _ => none
  trans := [("t", [2], 3), ("u", [3], 4), ("v", [4], 2)]

theorem forest5_wf : WF forest5 := by
  intro s p h
  match s with
  | 0 => simp [forest5] at h
  | 1 => simp [forest5] at h; omega
  | 2 => simp [forest5] at h; omega
  | 3 => simp [forest5] at h; omega
  | n+4 => simp [forest5] at h

example : let o := perform forest5 noHandlers 16 (canon forest5 2) "t"
    o.err = none ∧ o.st.cur = 3 ∧ flags forest5 o.st = [true, false, false, true, false] ∧ invB forest5 o.st = true := by
  decide +kernel

/-- **(b) every flat machine, arbitrary nested requests from `enter` and `called` handlers** (the handlers may depend on the
whole state at the moment they run, and nested requests may fail): the invariant is kept by completed and by failed requests
alike, and a completed request has recorded `leave current`, `enter destination`, whatever the destination's enter handlers
performed, `called name`, whatever the called handlers performed — each nested transition again with exactly one leave, one
enter and one called (`Traces`). -/
theorem active_is_ancestors_flat_nested (m : MDef) (h : Handlers) (H : FlatH m h) (f : Nat) (st : St) (name : String)
    (hinv : Inv m st) (hnf : (perform m h f st name).err ≠ some .fuel) :
    Inv m (perform m h f st name).st ∧
    ∀ st', perform m h f st name = .ok st' → ∃ srcs dst es1 c1 es2,
      lookup m name = some (srcs, dst) ∧ srcs.contains st.cur = true ∧ Traces m dst es1 c1 ∧ Traces m c1 es2 st'.cur ∧
      st'.log = st.log ++ (.leave st.cur :: .enter dst :: (es1 ++ .called name :: es2)) :=
  (flat_all H f).1 st name hinv hnf

/-- non-vacuity of (b): the control machine with its real handlers is such a machine, for every configuration and probe outcome;
`start` runs four nested transitions -/
example (c : Model.Gem.Ctrl.CState) (p : Option Model.Gem.Ctrl.Probe) : FlatH Model.Gem.Ctrl.ctrl (Model.Gem.Ctrl.handlers c p) :=
  ctrl_flatH c p

example : (Model.Gem.Ctrl.init "ONLINE" true).1.cur = 8 := by decide +kernel

/-- **(c) the three shipped machines with their handlers.**  Connection and communication machine (handlers request nothing):
from every state, every transition is either rejected with nothing changed, or performed to its destination with exact flags
and exactly the prescribed event sequence (`checkNoH`).  Control machine with the generated forwarders and the probe handler,
every initial configuration × remembered sub-state × probe outcome: every allowed transition terminates in the leaf its
destination forwards to with exact flags and as many `leave`/`enter` as `called` events (`checkCtrl`); by (b) the invariant also
holds for every other request. -/
theorem active_is_ancestors_shipped :
    (∀ c ∈ List.range (ofTable ConnSM).n, ∀ t ∈ (ofTable ConnSM).trans.map (·.1), checkNoH (ofTable ConnSM) c t = true) ∧
    (∀ c ∈ List.range (ofTable CommSM).n, ∀ t ∈ (ofTable CommSM).trans.map (·.1), checkNoH (ofTable CommSM) c t = true) ∧
    (∀ i ∈ inits, ∀ r ∈ [true, false], ∀ p ∈ probes, ∀ t ∈ Model.Gem.Ctrl.ctrl.trans, ∀ c ∈ t.2.1, checkCtrl i r p c t.1 = true) ∧
    (∀ (c : Model.Gem.Ctrl.CState) (p : Option Model.Gem.Ctrl.Probe) (f : Nat) (st : St) (name : String),
      Inv Model.Gem.Ctrl.ctrl st → (perform Model.Gem.Ctrl.ctrl (Model.Gem.Ctrl.handlers c p) f st name).err ≠ some .fuel →
      Inv Model.Gem.Ctrl.ctrl (perform Model.Gem.Ctrl.ctrl (Model.Gem.Ctrl.handlers c p) f st name).st) :=
  ⟨conn_all, comm_all, ctrl_allowed,
   fun c p f st name hinv hnf => (active_is_ancestors_flat_nested _ _ (ctrl_flatH c p) f st name hinv hnf).1⟩

/-- the tables these statements are about are well-formed: every name resolves, parents precede children, and the
constructor's `initial=` flag is exactly on `_current_state` -/
theorem shipped_wellformed :
    (resolves ConnSM = true ∧ wfB (ofTable ConnSM) = true ∧ invB (ofTable ConnSM) (initOf ConnSM) = true) ∧
    (resolves CommSM = true ∧ wfB (ofTable CommSM) = true ∧ invB (ofTable CommSM) (initOf CommSM) = true) ∧
    (resolves CtrlSM = true ∧ wfB (ofTable CtrlSM) = true ∧ invB (ofTable CtrlSM) (initOf CtrlSM) = true) :=
  ⟨conn_resolves, comm_resolves, ctrl_resolves⟩

/-! ## events -/

/-- **Events of a performed transition, any forest, no handler requests.**  The log grows by `leave` of the states `xs`,
`enter` of the states `ys`, `called name`, where
* no state occurs twice in `xs` or in `ys` (no event fires more than once),
* every state the property calls exited (`Spec.SM.exited`: the source and its ancestors that are not ancestors-or-self of the
  destination) is in `xs`, every entered state in `ys`,
* if source and destination have the same depth, `xs` and `ys` are exactly the exited and the entered states,
* in general (the engine compares parents in lock step, it does not compute a least common ancestor) anything in `xs` beyond
  the exited states is a common ancestor of source and destination and is in `ys` as well: it is left and entered again. -/
theorem events_exactly_once (m : MDef) (wf : WF m) (hh : Handlers) (hq : Quiet hh) (f : Nat) (st st' : St) (name : String)
    (h : perform m hh f st name = .ok st') :
    ∃ (srcs : List Nat) (dst : Nat) (xs ys : List Nat), lookup m name = some (srcs, dst) ∧
      st'.log = st.log ++ xs.map .leave ++ ys.map .enter ++ [.called name] ∧
      xs.Nodup ∧ ys.Nodup ∧
      (∀ x, x ∈ exited m st.cur dst → x ∈ xs) ∧ (∀ x, x ∈ entered m st.cur dst → x ∈ ys) ∧
      (depth m st.cur = depth m dst → (∀ x, x ∈ xs ↔ x ∈ exited m st.cur dst) ∧ (∀ x, x ∈ ys ↔ x ∈ entered m st.cur dst)) ∧
      (∀ x, x ∈ xs → x ∉ exited m st.cur dst → x ∈ chain m st.cur ∧ x ∈ chain m dst ∧ x ∈ ys) := by
  obtain ⟨srcs, dst, xs, ys, hl, _, hw1, hw2, _, _, hlog⟩ := perform_noH hq h
  refine ⟨srcs, dst, xs, ys, hl, hlog, walk_nodup wf _ _ _ hw1, walk_nodup wf _ _ _ hw2,
    (walk_covers wf hw1 hw2).1, (walk_covers wf hw1 hw2).2, fun hd => walk_exact wf hd hw1 hw2, walk_extra wf hw1 hw2⟩

/-- what the lock-step comparison does for unequal depths: 2 (depth 3) → 3 (depth 2) under the common root 0 leaves and
re-enters the root, although only 2 and 1 are exited and only 3 is entered -/
theorem events_unequal_depth :
    (perform forest5 noHandlers 16 (canon forest5 2) "t").st.log
      = [.leave 2, .leave 1, .leave 0, .enter 3, .enter 0, .called "t"] ∧
    expectedLog forest5 2 3 "t" = [.leave 2, .leave 1, .enter 3, .called "t"] := by decide +kernel

/-! ## what is still violated -/

/-- child `1` of parent `0`, root `2`; the child's enter handler sends the machine back to the root state -/
def hier3 : MDef where
  n := 3
  parent := fun s => match s with | 1 => some 0 | _ => none
  trans := [("go", [2], 1), ("back", [1], 2)]

def hier3H : Handlers := fun ev => match ev with | .enter 1 => [fun _ => ["back"]] | _ => []

/-- **F-22 (still present): nested request in a hierarchical machine.**  `go` enters the child, whose enter handler performs
`back`; when the handler returns, `State.enter` continues with the parent: the machine is in the root state `2` but the
parent `0` reports itself active.  No exception is raised. -/
theorem witness_nested_hier :
    let o := perform hier3 hier3H 32 (canon hier3 2) "go"
    o.err = none ∧ o.st.cur = 2 ∧ flags hier3 o.st = [true, false, true] ∧ invB hier3 o.st = false := by decide +kernel

/-- the same from a *parent's* enter handler when the parent has a parent itself (0 ⊃ 1 ⊃ 2, root 3; handler on `enter 1`) -/
def hier4 : MDef where
  n := 4
  parent := fun s => match s with | 1 => some 0 | 2 => some 1 | _ => none
  trans := [("go", [3], 2), ("back", [2], 3)]

def hier4H : Handlers := fun ev => match ev with | .enter 1 => [fun _ => ["back"]] | _ => []

theorem witness_nested_hier_parent :
    let o := perform hier4 hier4H 32 (canon hier4 3) "go"
    o.err = none ∧ o.st.cur = 3 ∧ flags hier4 o.st = [true, false, false, true] ∧ invB hier4 o.st = false := by decide +kernel

/-- the child's enter handler raises (a plain exception, or a request that is refused: for the engine, which has no `except`, a
handler requesting a transition that does not exist) -/
def hier3R : Handlers := fun ev => match ev with | .enter 1 => [fun _ => ["!"]] | _ => []

/-- **A handler that raises half-way through a transition of a hierarchical machine (finding c18-handler-raises).**
`go` enters the child `1` from outside its parent `0`; the child's enter handler raises; `State.enter` never reaches
`self.parent.enter(...)`: the exception propagates, the machine is in the child, the child reports active, the parent does not.
(In a flat machine the flags stay exact whatever an enter or called handler raises: `active_is_ancestors_flat_nested`.) -/
theorem witness_handler_raises :
    let o := perform hier3 hier3R 32 (canon hier3 2) "go"
    o.err = some .unknown ∧ o.st.cur = 1 ∧ flags hier3 o.st = [false, true, false] ∧ invB hier3 o.st = false := by decide +kernel

/-- the same on the way out: the child's leave succeeds, the parent's leave handler raises — the machine is still "in" the child,
which no longer reports active, while the parent does -/
def hier3L : Handlers := fun ev => match ev with | .leave 0 => [fun _ => ["!"]] | _ => []

theorem witness_handler_raises_leave :
    let o := perform hier3 hier3L 32 (canon hier3 1) "back"
    o.err = some .unknown ∧ o.st.cur = 1 ∧ flags hier3 o.st = [true, false, false] ∧ invB hier3 o.st = false := by decide +kernel

/-- why (b) excludes requests from *leave* handlers: `old_state` is read after `leave` returned, so the transition performed by
a leave handler (here: 0 → 2, once) is overwritten — two states stay active in a flat machine -/
def flat3 : MDef where
  n := 3
  parent := fun _ => none
  trans := [("t", [0], 1), ("u", [0], 2)]

def flat3H : Handlers := fun ev => match ev with
  | .leave 0 => [fun st => if st.log.length ≤ 1 then ["u"] else []]
  | _ => []

theorem witness_leave_handler :
    let o := perform flat3 flat3H 32 (canon flat3 0) "t"
    o.err = none ∧ o.st.cur = 1 ∧ flags flat3 o.st = [false, true, true] ∧ invB flat3 o.st = false := by decide +kernel

/-- **F-23 (still present): no mutual exclusion.**  Connection machine in CONNECTED_NOT_SELECTED, thread 0 calls `select()`,
thread 1 calls `disconnect()`.  With the line schedule below both source checks pass, both calls return normally, the machine
ends in NOT_CONNECTED with CONNECTED_SELECTED still reporting active, `leave CONNECTED_NOT_SELECTED` has fired twice — a
result no sequential order of the two calls produces (in both orders the flags are exact; in one `select` is rejected). -/
def raceSchedule : List Nat := [0, 0, 1, 1, 0, 0, 1, 1, 0, 0, 1, 1, 0, 1, 0, 1]

theorem witness_race :
    let m := ofTable ConnSM
    let s := runFree (prog m noHandlers 8) (two (canon m 2) "select" "disconnect") raceSchedule
    result (s.loc 0) = some none ∧ result (s.loc 1) = some none ∧
    s.sh.cur = 0 ∧ flags m s.sh = [true, false, false, true] ∧ invB m s.sh = false ∧
    (s.sh.log.filter (· == .leave 2)).length = 2 ∧
    invB m (perform m noHandlers 9 (perform m noHandlers 9 (canon m 2) "select").st "disconnect").st = true ∧
    invB m (perform m noHandlers 9 (perform m noHandlers 9 (canon m 2) "disconnect").st "select").st = true := by
  decide +kernel

/-- **Serialisability with a critical section**, generic: any deterministic thread program, any number of threads, any
schedule; one lock held from a thread's first atomic step to its last.  Once all threads have finished the shared state is
that of running them one after the other in some order listing each thread exactly once. -/
theorem serialised_generic {σ τ : Type} (P : Prog σ τ) (sh0 : σ) (init : Nat → τ) (sched : List Nat)
    (hfin : ∀ i, P.done ((runLocked P ⟨sh0, init, none⟩ sched).loc i) = true) :
    ∃ order, order.Nodup ∧ (∀ i, i ∈ order ↔ P.done (init i) = false) ∧
      Serial P init sh0 order (runLocked P ⟨sh0, init, none⟩ sched).sh :=
  locked_serial P sh0 init sched hfin

/-- **Two concurrent `_perform_transition` calls under a lock**, any machine, any handlers, any line-level schedule: once both
have returned, the machine is in the state of `a; b` or of `b; a` performed sequentially (`Model.SM.perform`, which the
theorems above are about).  The same schedule without the lock is `witness_race`. -/
theorem serialised (m : MDef) (h : Handlers) (f : Nat) (st : St) (a b : String) (sched : List Nat)
    (hfin : ∀ i, isDone ((runLocked (prog m h f) (two st a b) sched).loc i) = true) :
    (runLocked (prog m h f) (two st a b) sched).sh = (perform m h (f+1) (perform m h (f+1) st a).st b).st ∨
    (runLocked (prog m h f) (two st a b) sched).sh = (perform m h (f+1) (perform m h (f+1) st b).st a).st :=
  two_locked_serial m h f st a b sched hfin

/-- non-vacuity: under the lock the race schedule finishes both calls, and gives the outcome of `select; disconnect` -/
example :
    let m := ofTable ConnSM
    let s := runLocked (prog m noHandlers 8) (two (canon m 2) "select" "disconnect") (raceSchedule ++ raceSchedule)
    isDone (s.loc 0) = true ∧ isDone (s.loc 1) = true ∧ s.sh.cur = 0 ∧ invB m s.sh = true := by decide +kernel

end SecsModel.Props.C18
