import SecsModel.Proofs.SecsIHeader
import SecsModel.Model.SecsI
import SecsModel.Proofs.SecsI
import SecsModel.Proofs.SecsIReasm
import SecsModel.Gen.Reasm
/-!
# C16 — SECS-I blocks split, checksum and reassemble any message body without loss

Only property theorems, non-vacuity examples and (where they exist) counterexample theorems live here.
-/
namespace SecsModel.Props.C16
open SecsModel SecsModel.Gen SecsModel.Proofs.SecsIHdr SecsModel.Model.SecsI SecsModel.Proofs.SecsI SecsModel.Proofs.SecsIReasm

/-- The generated `SecsIHeader.encode` produces exactly the E4 header bytes, and the generated `decode`
recovers every field — for **all** in-range field values. -/
theorem header_roundtrip (h : SecsIHeader) (hr : InRange h) :
    ∃ bs, h.encode = .ok bs ∧ bs.length = 10 ∧ SecsIHeader.decode bs = .ok h := by
  obtain ⟨sy, dv, st, fn, bl, r, w, e⟩ := h
  obtain ⟨⟨s0, s1⟩, ⟨d0, d1⟩, ⟨t0, t1⟩, ⟨f0, f1⟩, ⟨b0, b1⟩⟩ := hr
  simp only at s0 s1 d0 d1 t0 t1 f0 f1 b0 b1
  obtain ⟨sy, rfl⟩ := Int.eq_ofNat_of_zero_le s0
  obtain ⟨dv, rfl⟩ := Int.eq_ofNat_of_zero_le d0
  obtain ⟨st, rfl⟩ := Int.eq_ofNat_of_zero_le t0
  obtain ⟨fn, rfl⟩ := Int.eq_ofNat_of_zero_le f0
  obtain ⟨bl, rfl⟩ := Int.eq_ofNat_of_zero_le b0
  have hsy : sy < 2^32 := by omega
  have hdv : dv < 2^15 := by omega
  have hst : st < 2^7 := by omega
  have hfn : fn < 2^8 := by omega
  have hbl : bl < 2^15 := by omega
  refine ⟨specBytes sy dv st fn bl r w e, encode_nat sy dv st fn bl r w e hsy hdv hst hfn hbl, ?_,
    decode_spec sy dv st fn bl r w e hsy hdv hst hfn hbl⟩
  simp [specBytes]

/-- non-vacuity: a concrete in-range header -/
example : InRange ⟨0xFFFFFFFF, 0x7FFF, 127, 255, 0x7FFF, true, true, true⟩ := by decide

/-- what `_split_blocks` is: the numbering of the 244-byte chunks (generated block size) -/
theorem split_eq (h : Header) (body : Bytes) :
    split h body = number h true (dataBlocks body).length 0 (dataBlocks body) := Proofs.SecsI.split_eq h body

/-- **Split, all body lengths.**  The blocks' data concatenate to the body; there are `max 1 ⌈len/244⌉` of them; none
carries more than 244 bytes; block `j` (0-based) is numbered `j+1`, carries the end bit iff it is the last, and has every
other header field of the message header. -/
theorem split_correct (h : Header) (body : Bytes) :
    ((split h body).map (·.data)).flatten = body
    ∧ (split h body).length = max 1 ((body.length + 243) / 244)
    ∧ (∀ b ∈ split h body, b.data.length ≤ 244)
    ∧ (∀ j, j < (split h body).length → ((split h body)[j]?).map (·.header) =
        some { h with block := ((j + 1 : Nat) : Int), last_block := decide (j + 1 = (split h body).length) }) :=
  split_facts h body

/-- **Block round-trip.**  Every block whose header fields are in range and whose data fits a block encodes, and decoding
the encoding gives the block back (header and data identical, checksum accepted). -/
theorem block_roundtrip (h : Header) (data : Bytes) (hr : InRange h) (adata : AllBytes data) (hn : data.length ≤ 244) :
    ∃ raw, Block.encode ⟨h, data⟩ = .ok raw ∧ raw.length = data.length + 13 ∧ AllBytes raw ∧
      Block.decode raw = .ok (some ⟨h, data⟩) := by
  obtain ⟨hb, henc, hhb, hdec⟩ := header_roundtrip h hr
  have ahb : AllBytes hb := Py.packBE_allBytes _ _ henc
  have hsum : (hb ++ data).sum < 256 ^ 2 := by
    have := sum_le_of_allBytes (hb ++ data) (allBytes_append.mpr ⟨ahb, adata⟩)
    simp only [List.length_append, hhb] at this
    omega
  refine ⟨_, encode_struct h data hb henc hhb ahb adata (by omega), ?_, ?_, ?_⟩
  · simp [hhb]; omega
  · intro x hx
    simp only [List.mem_cons, List.mem_append] at hx
    rcases hx with hx | hx | hx | hx
    · omega
    · exact ahb x hx
    · exact adata x hx
    · exact be_allBytes _ _ x hx
  · obtain ⟨h', hdec', _, hds⟩ := decode_struct (10 + data.length) hb data (be 2 ((hb ++ data).sum)) hhb (by simp) (by omega) ahb
    rw [hds, if_pos rfl, ofBe_be_of_lt _ _ hsum, if_pos rfl]
    rw [hdec] at hdec'
    cases hdec'
    rfl

/-- **Corruption is never accepted.**  Take the encoding of any valid block and replace the byte at any one offset `i`
(length byte, header, data or checksum) by any different byte value `v`: decoding the result never yields a block —
it is either a `struct.error` or the `None` of a checksum mismatch. -/
theorem corruption_rejected (h : Header) (data : Bytes) (hr : InRange h) (adata : AllBytes data) (hn : data.length ≤ 244)
    (raw : Bytes) (henc : Block.encode ⟨h, data⟩ = .ok raw) (i v : Nat) (hi : i < raw.length) (hv : v < 256)
    (hne : raw[i]? ≠ some v) :
    ∀ b, Block.decode (raw.set i v) ≠ .ok (some b) := by
  obtain ⟨hb, henc', hhb, _⟩ := header_roundtrip h hr
  have ahb : AllBytes hb := Py.packBE_allBytes _ _ henc'
  have hsum : (hb ++ data).sum < 256 ^ 2 := by
    have := sum_le_of_allBytes (hb ++ data) (allBytes_append.mpr ⟨ahb, adata⟩)
    simp only [List.length_append, hhb] at this
    omega
  rw [encode_struct h data hb henc' hhb ahb adata (by omega)] at henc
  cases henc
  intro b
  -- where does the altered offset fall?
  rcases i with _ | j
  · -- the length byte
    simp only [List.set_cons_zero]
    obtain ⟨h', _, _, hds⟩ := decode_struct v hb data (be 2 ((hb ++ data).sum)) hhb (by simp) hv ahb
    have : v ≠ 10 + data.length := by
      intro e; apply hne; simp [e]
    rw [hds, if_neg this]; intro c; cases c
  · simp only [List.set_cons_succ]
    simp only [List.length_cons, List.length_append, be_length, hhb] at hi
    simp only [List.getElem?_cons_succ] at hne
    by_cases hj : j < 10
    · -- a header byte
      have hset : (hb ++ (data ++ be 2 ((hb ++ data).sum))).set j v = hb.set j v ++ (data ++ be 2 ((hb ++ data).sum)) := by
        rw [List.set_append]; simp [hhb, hj]
      rw [hset]
      have hjl : j < hb.length := by omega
      have ahb' : AllBytes (hb.set j v) := by
        intro x hx
        rcases List.mem_or_eq_of_mem_set hx with hx | hx
        · exact ahb x hx
        · omega
      obtain ⟨h', _, _, hds⟩ := decode_struct (10 + data.length) (hb.set j v) data (be 2 ((hb ++ data).sum)) (by simp [hhb]) (by simp) (by omega) ahb'
      rw [hds, if_pos rfl, ofBe_be_of_lt _ _ hsum]
      have hs := sum_set hb j v hjl
      have hne' : hb[j] ≠ v := by
        intro e; apply hne
        rw [List.getElem?_append_left hjl, List.getElem?_eq_getElem hjl, e]
      have : (hb.set j v ++ data).sum ≠ (hb ++ data).sum := by
        simp only [List.sum_append]; omega
      rw [if_neg this]; intro c; cases c
    · by_cases hj2 : j < 10 + data.length
      · -- a data byte
        have hset : (hb ++ (data ++ be 2 ((hb ++ data).sum))).set j v = hb ++ (data.set (j - 10) v ++ be 2 ((hb ++ data).sum)) := by
          have h1 : ¬ j < hb.length := by omega
          have h2 : j - 10 < data.length := by omega
          rw [List.set_append, if_neg h1, hhb, List.set_append, if_pos h2]
        rw [hset]
        have hjl : j - 10 < data.length := by omega
        obtain ⟨h', _, _, hds⟩ := decode_struct (10 + data.length) hb (data.set (j - 10) v) (be 2 ((hb ++ data).sum)) hhb (by simp) (by omega) ahb
        rw [hds]
        have : 10 + data.length = 10 + (data.set (j - 10) v).length := by simp
        rw [if_pos this, ofBe_be_of_lt _ _ hsum]
        have hs := sum_set data (j - 10) v hjl
        have hne' : data[j - 10] ≠ v := by
          intro e; apply hne
          rw [List.getElem?_append_right (by omega), hhb, List.getElem?_append_left hjl, List.getElem?_eq_getElem hjl, e]
        have : (hb ++ data.set (j - 10) v).sum ≠ (hb ++ data).sum := by
          simp only [List.sum_append]; omega
        rw [if_neg this]; intro c; cases c
      · -- a checksum byte
        have hset : (hb ++ (data ++ be 2 ((hb ++ data).sum))).set j v = hb ++ (data ++ (be 2 ((hb ++ data).sum)).set (j - 10 - data.length) v) := by
          have h1 : ¬ j < hb.length := by omega
          have h2 : ¬ j - 10 < data.length := by omega
          rw [List.set_append, if_neg h1, hhb, List.set_append, if_neg h2]
        rw [hset]
        obtain ⟨h', _, _, hds⟩ := decode_struct (10 + data.length) hb data ((be 2 ((hb ++ data).sum)).set (j - 10 - data.length) v) hhb (by simp) (by omega) ahb
        rw [hds, if_pos rfl]
        have hk : j - 10 - data.length < 2 := by omega
        have hne' : (be 2 ((hb ++ data).sum))[j - 10 - data.length]? ≠ some v := by
          intro e; apply hne
          rw [List.getElem?_append_right (by omega), hhb, List.getElem?_append_right (by omega)]
          exact e
        have : (hb ++ data).sum ≠ ofBe ((be 2 ((hb ++ data).sum)).set (j - 10 - data.length) v) := by
          generalize hS : (hb ++ data).sum = S at *
          have hbe : be 2 S = [S / 256 % 256, S % 256] := by simp [be]
          rw [hbe] at hne' ⊢
          have hS2 : S < 65536 := by omega
          rcases Nat.lt_or_ge (j - 10 - data.length) 1 with hk0 | hk1
          · have : j - 10 - data.length = 0 := by omega
            rw [this] at hne' ⊢
            simp only [List.set_cons_zero, ofBe, List.length_cons, List.length_nil]
            simp at hne'
            omega
          · have : j - 10 - data.length = 1 := by omega
            rw [this] at hne' ⊢
            simp only [List.set_cons_succ, List.set_cons_zero, ofBe, List.length_cons, List.length_nil]
            simp at hne'
            omega
        rw [if_neg this]; intro c; cases c

/-- non-vacuity: the hypotheses of `block_roundtrip`/`corruption_rejected` hold for a full 244-byte block -/
example : InRange ⟨7, 1, 1, 2, 1, true, true, false⟩ ∧ AllBytes (List.replicate 244 255) ∧ (List.replicate 244 255).length ≤ 244 := by
  refine ⟨by decide, ?_, by rw [List.length_replicate]; exact Nat.le_refl _⟩
  intro x hx; rw [List.mem_replicate] at hx; omega

/-- **Reassembly under interleaving.**  Split any number of messages whose system bytes are pairwise distinct, interleave
their blocks in ANY way (each message's own blocks in order) and feed them to the reassembly of `_add_message_block`:
for every message `i`, exactly one message is completed under its system bytes, it consists of exactly the blocks of
`split hᵢ bodyᵢ` (hence, by `split_correct`, its data is `bodyᵢ` and its header is `hᵢ` with the last block's number and
the end bit), nothing is left pending for it, and nothing is completed under any other key. -/
theorem reassembly (ms : List (Header × Bytes)) (hnd : (ms.map (·.1.system)).Nodup) (bs : List Block)
    (hI : Interleaving (ms.map (fun m => split m.1 m.2)) bs) :
    (∀ i (hi : i < ms.length),
        ((reassembleK [] bs).2.filter (·.1 == ms[i].1.system)).map (·.2) = [split ms[i].1 ms[i].2]
        ∧ (reassemble [] bs).1.lookup ms[i].1.system = none
        ∧ Message.data (split ms[i].1 ms[i].2) = ms[i].2)
    ∧ (∀ e ∈ (reassembleK [] bs).2, ∃ i, ∃ (hi : i < ms.length), e.1 = ms[i].1.system)
    ∧ (reassembleK [] bs).2.map (·.2) = (reassemble [] bs).2 := by
  have hkeys : ∀ i (hi : i < (ms.map (fun m => split m.1 m.2)).length) (hk : i < (ms.map (·.1.system)).length),
      ∀ b ∈ (ms.map (fun m => split m.1 m.2))[i], keyOf b = (ms.map (·.1.system))[i] := by
    intro i hi hk b hb
    simp only [List.getElem_map] at hb ⊢
    exact split_system _ _ b hb
  refine ⟨?_, ?_, reassembleK_snd bs []⟩
  · intro i hi
    have hf := filter_interleaving (ms.map (·.1.system)) hnd _ bs hI (by simp) hkeys i (by simpa using hi) (by simpa using hi)
    simp only [List.getElem_map] at hf
    have hl := reassemble_local bs [] ms[i].1.system
    rw [hf, lookup_nil, runK_split] at hl
    have h1 := congrArg Prod.fst hl
    have h2 := congrArg Prod.snd hl
    simp only at h1 h2
    refine ⟨h2, ?_, ?_⟩
    · rw [← reassembleK_fst]; exact h1
    · exact (split_correct ms[i].1 ms[i].2).1
  · intro e he
    obtain ⟨b, hb, hk⟩ := reassembleK_keys bs [] e he
    obtain ⟨l, hl, hbl⟩ := mem_of_interleaving _ bs hI b hb
    obtain ⟨i, hi, hli⟩ := List.getElem_of_mem hl
    have hi' : i < ms.length := by simpa using hi
    refine ⟨i, hi', ?_⟩
    rw [hk]
    simp only [List.getElem_map] at hli
    rw [← hli] at hbl
    exact split_system _ _ b hbl

/-- non-vacuity: two transactions (3 blocks and 1 block) interleaved `a1 b1 a2 a3` satisfy the hypotheses, and the
executable model returns both messages with the pending table empty -/
example :
    let a := split ⟨1, 5, 1, 3, 0, false, true, true⟩ (List.replicate 500 1)
    let b := split ⟨2, 5, 6, 11, 0, true, false, true⟩ [9]
    let r := reassemble [] (a.take 1 ++ b ++ a.drop 1)
    (r.2.map Message.data = [[9], List.replicate 500 1]) ∧ r.1 = [] := by decide +kernel

/-- non-vacuity / sanity: a 245-byte body gives two blocks of 244 and 1 bytes -/
example : ((split ⟨1, 2, 3, 4, 0, false, true, true⟩ (List.replicate 245 7)).map (fun b => (b.header.block, b.header.last_block, b.data.length)))
    = [(1, false, 244), (2, true, 1)] := by decide +kernel


/-! ## generated: `Protocol._add_message_block` as the source has it now -/

/-- **The table of incomplete messages is keyed by the full system bytes.**  `Gen.Reasm.key` is the translated expression that indexes
`self._incomplete_messages` (the translator refuses a method that uses two different ones); it is the key of the model's `addBlock`.
Any coarser key (a mask, the transaction half of the system bytes) merges open messages that `reassembly` keeps apart. -/
theorem reassembly_key_is_system_bytes (b : Block) :
    Gen.Reasm.key b.header.system b.header.device_id b.header.stream b.header.function b.header.block = keyOf b := rfl

/-- the statements of `_add_message_block` and the three `SecsIMessage` properties are the ones `addBlock`, `extend`, `Message.data`,
`Message.header?` and `Message.complete` model: create-from-block or append, look at the last block's end bit, remove and hand over -/
theorem reassembly_statements :
    Gen.Reasm.skeleton = [
      "if K not in T: ; T[K] = self.message_type.from_block(block) ; else: ; T[K].blocks.append(block)",
      "message = T[K]",
      "if not message.complete: ; return None",
      "del T[K]",
      "return message"]
    ∧ Gen.Reasm.msgHeader = "self._blocks[-1].header"
    ∧ Gen.Reasm.msgData = "b''.join((block.data for block in self._blocks))"
    ∧ Gen.Reasm.msgComplete = "self.blocks[-1].header.last_block"
    ∧ Gen.Reasm.fromBlock = "cls(block.header, block.data, complete=False)" := by decide

/-- every non-empty-enough byte string is its length byte, ten header bytes, data and a tail -/
theorem raw_cut (raw : Bytes) (n : Nat) (hlen : raw.length = 1 + 10 + n + 2) :
    ∃ l hb data ck, raw = l :: (hb ++ (data ++ ck)) ∧ hb.length = 10 ∧ data.length = n ∧ ck.length = 2 := by
  match raw, hlen with
  | l :: rest, hlen =>
    refine ⟨l, rest.take 10, (rest.drop 10).take n, (rest.drop 10).drop n, ?_, ?_, ?_, ?_⟩
    · rw [List.take_append_drop, List.take_append_drop]
    · simp at hlen ⊢; omega
    · simp at hlen ⊢; omega
    · simp at hlen ⊢; omega

/-- **The decoder accepts only canonical encodings.**  Whenever `Block.decode` returns a block for a byte string, that byte
string is exactly `Block.encode` of the returned block: no second wire form of any block is accepted, the returned header is
in range and the data field is at most 245 bytes (the length byte bounds it). -/
theorem decode_canonical (raw : Bytes) (araw : AllBytes raw) (b : Block) (hd : Block.decode raw = .ok (some b)) :
    Block.encode b = .ok raw ∧ b.data.length ≤ 245 := by
  have hd0 := hd
  rw [decode_eq] at hd
  by_cases c1 : raw.length < 1
  · rw [if_pos c1] at hd; cases hd
  rw [if_neg c1] at hd
  by_cases c2 : ofBe (raw.take 1) < 10
  · rw [if_pos c2] at hd; cases hd
  rw [if_neg c2] at hd
  by_cases c3 : raw.length ≠ 1 + 10 + (ofBe (raw.take 1) - 10) + 2
  · rw [if_pos c3] at hd; cases hd
  clear hd
  have c3' : raw.length = 1 + 10 + (ofBe (raw.take 1) - 10) + 2 := by omega
  obtain ⟨l, hb, data, ck, hraw, hhb, hdl, hck⟩ := raw_cut raw _ c3'
  subst hraw
  have e1 : ofBe ((l :: (hb ++ (data ++ ck))).take 1) = l := by simp [ofBe]
  rw [e1] at c2 hdl
  have all := araw
  have hl : l < 256 := araw l (by simp)
  have arest : AllBytes (hb ++ (data ++ ck)) := fun x hx => araw x (by simp at hx ⊢; right; exact hx)
  have ahb : AllBytes hb := (allBytes_append.mp arest).1
  have adata : AllBytes data := (allBytes_append.mp (allBytes_append.mp arest).2).1
  have ack : AllBytes ck := (allBytes_append.mp (allBytes_append.mp arest).2).2
  obtain ⟨h, _, henc, hds⟩ := decode_struct l hb data ck hhb hck hl ahb
  rw [hd0, if_pos (by omega)] at hds
  by_cases hs : (hb ++ data).sum = ofBe ck
  · rw [if_pos hs] at hds
    have hb' : b = ⟨h, data⟩ := by injection hds with h1; injection h1
    subst hb'
    refine ⟨?_, by simp; omega⟩
    rw [encode_struct h data hb henc hhb ahb adata (by omega), hs]
    have := be_ofBe ck ack
    rw [hck] at this
    rw [this]
    have : 10 + data.length = l := by omega
    rw [this]
  · rw [if_neg hs] at hds
    injection hds with h1; cases h1

/-- **Decoding is injective on what it accepts**: two byte strings that both decode to the same block are the same byte string. -/
theorem decode_injective (r1 r2 : Bytes) (a1 : AllBytes r1) (a2 : AllBytes r2) (b : Block)
    (h1 : Block.decode r1 = .ok (some b)) (h2 : Block.decode r2 = .ok (some b)) : r1 = r2 := by
  have e1 := (decode_canonical r1 a1 b h1).1
  have e2 := (decode_canonical r2 a2 b h2).1
  rw [e1] at e2
  injection e2

end SecsModel.Props.C16
