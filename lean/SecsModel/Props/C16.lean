import SecsModel.Proofs.SecsIHeader
import SecsModel.Model.SecsI
/-!
# C16 — SECS-I blocks split, checksum and reassemble any message body without loss

Only property theorems, non-vacuity examples and (where they exist) counterexample theorems live here.
-/
namespace SecsModel.Props.C16
open SecsModel SecsModel.Gen SecsModel.Proofs.SecsIHdr

/-- The generated `SecsIHeader.encode` produces exactly the E4 header bytes, and the generated `decode`
recovers every field — for **all** in-range field values. -/
theorem header_roundtrip (h : SecsIHeader) (hr : InRange h) :
    ∃ bs, h.encode = .ok bs ∧ bs.length = 10 ∧ SecsIHeader.decode bs = .ok h := by
  obtain ⟨sy, dv, st, fn, bl, r, w, e⟩ := h
  obtain ⟨⟨s0, s1⟩, ⟨d0, d1⟩, ⟨t0, t1⟩, ⟨f0, f1⟩, ⟨b0, b1⟩⟩ := hr
  simp only at s0 s1 d0 d1 t0 t1 f0 f1 b0 b1
  obtain ⟨sy, rfl⟩ := Int.eq_ofNat_of_zero_le s0
  obtain ⟨dv, rfl⟩ := Int.eq_ofNat_of_zero_le d0
  obtain ⟨st, rfl⟩ := Int.eq_ofNat_of_zero_le t0
  obtain ⟨fn, rfl⟩ := Int.eq_ofNat_of_zero_le f0
  obtain ⟨bl, rfl⟩ := Int.eq_ofNat_of_zero_le b0
  have hsy : sy < 2^32 := by omega
  have hdv : dv < 2^15 := by omega
  have hst : st < 2^7 := by omega
  have hfn : fn < 2^8 := by omega
  have hbl : bl < 2^15 := by omega
  refine ⟨specBytes sy dv st fn bl r w e, encode_nat sy dv st fn bl r w e hsy hdv hst hfn hbl, ?_,
    decode_spec sy dv st fn bl r w e hsy hdv hst hfn hbl⟩
  simp [specBytes]

/-- non-vacuity: a concrete in-range header -/
example : InRange ⟨0xFFFFFFFF, 0x7FFF, 127, 255, 0x7FFF, true, true, true⟩ := by decide

end SecsModel.Props.C16
