import SecsModel.Proofs.SecsIHeader
import SecsModel.Model.SecsI
import SecsModel.Proofs.SecsI
/-!
# C16 — SECS-I blocks split, checksum and reassemble any message body without loss

Only property theorems, non-vacuity examples and (where they exist) counterexample theorems live here.
-/
namespace SecsModel.Props.C16
open SecsModel SecsModel.Gen SecsModel.Proofs.SecsIHdr SecsModel.Model.SecsI SecsModel.Proofs.SecsI

/-- The generated `SecsIHeader.encode` produces exactly the E4 header bytes, and the generated `decode`
recovers every field — for **all** in-range field values. -/
theorem header_roundtrip (h : SecsIHeader) (hr : InRange h) :
    ∃ bs, h.encode = .ok bs ∧ bs.length = 10 ∧ SecsIHeader.decode bs = .ok h := by
  obtain ⟨sy, dv, st, fn, bl, r, w, e⟩ := h
  obtain ⟨⟨s0, s1⟩, ⟨d0, d1⟩, ⟨t0, t1⟩, ⟨f0, f1⟩, ⟨b0, b1⟩⟩ := hr
  simp only at s0 s1 d0 d1 t0 t1 f0 f1 b0 b1
  obtain ⟨sy, rfl⟩ := Int.eq_ofNat_of_zero_le s0
  obtain ⟨dv, rfl⟩ := Int.eq_ofNat_of_zero_le d0
  obtain ⟨st, rfl⟩ := Int.eq_ofNat_of_zero_le t0
  obtain ⟨fn, rfl⟩ := Int.eq_ofNat_of_zero_le f0
  obtain ⟨bl, rfl⟩ := Int.eq_ofNat_of_zero_le b0
  have hsy : sy < 2^32 := by omega
  have hdv : dv < 2^15 := by omega
  have hst : st < 2^7 := by omega
  have hfn : fn < 2^8 := by omega
  have hbl : bl < 2^15 := by omega
  refine ⟨specBytes sy dv st fn bl r w e, encode_nat sy dv st fn bl r w e hsy hdv hst hfn hbl, ?_,
    decode_spec sy dv st fn bl r w e hsy hdv hst hfn hbl⟩
  simp [specBytes]

/-- non-vacuity: a concrete in-range header -/
example : InRange ⟨0xFFFFFFFF, 0x7FFF, 127, 255, 0x7FFF, true, true, true⟩ := by decide

/-- what `_split_blocks` is: the list of data chunks the message is cut into -/
def dataBlocks (body : Bytes) : List Bytes := if body.length = 0 then [body] else chunks 244 body

theorem split_eq (h : Header) (body : Bytes) :
    split h body = number h true (dataBlocks body).length 0 (dataBlocks body) := by
  simp only [split, BlockFmt.secsiBlockSize, dataBlocks]
  have : ¬ ((244 : Int) = -1) := by decide
  simp [this]

/-- **Split, all body lengths.**  The blocks' data concatenate to the body; there are `max 1 ⌈len/244⌉` of them; none
carries more than 244 bytes; block `j` (0-based) is numbered `j+1`, carries the end bit iff it is the last, and has every
other header field of the message header. -/
theorem split_correct (h : Header) (body : Bytes) :
    ((split h body).map (·.data)).flatten = body
    ∧ (split h body).length = max 1 ((body.length + 243) / 244)
    ∧ (∀ b ∈ split h body, b.data.length ≤ 244)
    ∧ (∀ j, j < (split h body).length → ((split h body)[j]?).map (·.header) =
        some { h with block := ((j + 1 : Nat) : Int), last_block := decide (j + 1 = (split h body).length) }) := by
  rw [split_eq]
  have hlen : (number h true (dataBlocks body).length 0 (dataBlocks body)).length = (dataBlocks body).length := number_length ..
  refine ⟨?_, ?_, ?_, ?_⟩
  · rw [number_data]
    unfold dataBlocks
    split
    · rename_i h0; have : body = [] := List.length_eq_zero_iff.mp h0; subst this; rfl
    · exact chunks_flatten 244 (by decide) _ _ (Nat.le_refl _)
  · rw [hlen]
    unfold dataBlocks
    split
    · rename_i h0; rw [h0]; rfl
    · rename_i h0
      rw [chunks_length 244 (by decide) _ _ (Nat.le_refl _)]
      have : 1 ≤ (body.length + 244 - 1) / 244 := by
        apply (Nat.le_div_iff_mul_le (by decide)).mpr; omega
      have e : body.length + 244 - 1 = body.length + 243 := by omega
      rw [e] at this ⊢
      omega
  · intro b hb
    have hd : b.data ∈ (number h true (dataBlocks body).length 0 (dataBlocks body)).map (·.data) := List.mem_map_of_mem hb
    rw [number_data] at hd
    unfold dataBlocks at hd
    split at hd
    · rename_i h0; simp at hd; rw [hd]; omega
    · exact (chunks_bound 244 (by decide) _ _ (Nat.le_refl _) _ hd).2
  · intro j hj
    rw [hlen] at hj ⊢
    rw [number_get h true _ 0 _ j hj]
    simp

/-- non-vacuity / sanity: a 245-byte body gives two blocks of 244 and 1 bytes -/
example : ((split ⟨1, 2, 3, 4, 0, false, true, true⟩ (List.replicate 245 7)).map (fun b => (b.header.block, b.header.last_block, b.data.length)))
    = [(1, false, 244), (2, true, 1)] := by decide +kernel

end SecsModel.Props.C16
