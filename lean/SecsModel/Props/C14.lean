import SecsModel.Proofs.CodecItem
/-!
# C14 — The Item API agrees with SEMI E5 and with the variables API on every value

`Gen.ItemTypes`, `Gen.ItemHeaderItem` are regenerated from `/repo` on every run; `Model.Item` is the hand model tied by
`tools/harness/c14.py`.
-/
namespace SecsModel.Props.C14
open SecsModel SecsModel.Spec.E5 SecsModel.Model.Var SecsModel.Model.Item
open SecsModel.Proofs.CodecHeader SecsModel.Proofs.CodecVar SecsModel.Proofs.CodecVarDec SecsModel.Proofs.CodecRound SecsModel.Proofs.CodecCanon
  SecsModel.Proofs.CodecItem

/-- **Item header, all lengths**: the translated `Item.encode_item_header` is the E5 header for every length `0 … 0xFFFFFF`
(255/256, 65535/65536, 16777215 included) and a `ValueError` otherwise. -/
theorem header_exact (code : Nat) (hc : code < 64) :
    (∀ len : Nat, Gen.ItemHeaderItem.encode (code : Int) (len : Int) = Spec.E5.header code len)
    ∧ (∀ len : Int, len < 0 → Gen.ItemHeaderItem.encode (code : Int) len = .error .valueError) :=
  ⟨fun len => item_header_exact code len hc, fun len h => item_header_neg _ len h⟩

/-- **Item classes = E5 formats**: the registered classes carry exactly the E5 mnemonics, format codes, widths and ranges;
struct codes and text encodings are those of the variables API. -/
theorem types_match_E5 :
    ((Gen.ItemTypes.table.map itemProj).length = Spec.E5.typeTable.length
      ∧ (∀ x ∈ Gen.ItemTypes.table.map itemProj, x ∈ Spec.E5.typeTable) ∧ (∀ x ∈ Spec.E5.typeTable, x ∈ Gen.ItemTypes.table.map itemProj))
    ∧ (∀ t : Ty, (Model.Item.rowOf t).struct_code = (Model.Var.rowOf t).struct_code
        ∧ codingOf (Model.Item.rowOf t).encoding = codingOf (Model.Var.rowOf t).coding ∧ Model.Item.byHsms t.code = some (.leaf t))
    ∧ Model.Item.byHsms 0 = some .l :=
  ⟨item_types_match_E5, fun t => ⟨item_struct t, item_coding t, byHsms_leaf t⟩, byHsms_list⟩

/-- **Both APIs produce identical bytes** — for every value tree, accepted or not (same bytes or the same error). -/
theorem apis_agree (v : Val) : Model.Item.encode v = Model.Var.encode v := Proofs.CodecItem.apis_agree v

/-- **Encode**: every value encodes to the E5 byte string of its type. -/
theorem encode_exact (v : Val) (ha : Accepted v) : Model.Item.encode v = Spec.E5.encode v := item_encode_exact v ha

/-- **Decode, then re-encode**: for every byte string the reference decoder accepts (1–3 length bytes regardless of magnitude, any
nesting, finite floats) `Item.decode` returns the item of exactly that value, leaves exactly the bytes after it, and the item
re-encodes to the canonical bytes, which denote the same value. -/
theorem decode_reencode (bs : Bytes) (v : Val) (rest : Bytes) (h : decodeAny bs = some (v, rest)) (hab : AllBytes bs) (hfin : v.Finite) :
    Model.Item.decodeBytes bs = .ok (v, rest)
    ∧ ∃ cs, Model.Item.encode v = .ok cs ∧ Spec.E5.encode v = .ok cs ∧ Valid cs v := by
  refine ⟨item_decode_complete bs v rest h hab hfin, ?_⟩
  obtain ⟨ha, hn, cs, hc⟩ := decoded_canonical bs v rest h hab hfin
  refine ⟨cs, by rw [item_encode_exact v ha, hc], hc, ?_⟩
  have := Proofs.CodecSpec.spec_sound v cs [] hc
  rw [hn, List.append_nil] at this
  exact this

/-- **An item holds the value it was built from**: whatever a leaf constructor accepts (scalar, list, bytes, str, bool), the held
elements are exactly those the input stands for. -/
theorem holds_value (t : Ty) (p : PyVal) (es : List Int) (hab : ∀ bs, p = .bytes bs → AllBytes bs)
    (h : Model.Item.validateLeaf t p = .ok es) : denote t p = some es :=
  Proofs.CodecItem.holds_value t p es hab h

/-- **from_value, integers**: the narrowest unsigned format for `0 ≤ n < 2^64`, the narrowest signed one for `-2^63 ≤ n < 0`,
the value unchanged. -/
theorem from_value_narrowest (n : Int) :
    (0 ≤ n → n < 18446744073709551616 → Model.Item.fromValue (.int n) = .ok (.item (uintFor n) [n]))
    ∧ (n < 0 → -9223372036854775808 ≤ n → Model.Item.fromValue (.int n) = .ok (.item (sintFor n) [n])) :=
  ⟨from_value_uint n, from_value_sint n⟩

/-- what "narrowest" means: the chosen width holds `n` and no narrower one of the same signedness does -/
theorem narrowest_is_narrowest (n : Int) :
    (0 ≤ n → n < 18446744073709551616 → (uintFor n).lo ≤ n ∧ n ≤ (uintFor n).hi ∧ ∀ t : Ty, t.kind = .uint → t.width < (uintFor n).width → t.hi < n)
    ∧ (n < 0 → -9223372036854775808 ≤ n → (sintFor n).lo ≤ n ∧ n ≤ (sintFor n).hi ∧ ∀ t : Ty, t.kind = .sint → t.width < (sintFor n).width → n < t.lo) := by
  constructor
  · intro h0 h1
    simp only [uintFor]
    split
    · refine ⟨by simp [Ty.lo]; omega, by simp [Ty.hi]; omega, ?_⟩
      intro t hk hw; cases t <;> simp [Ty.kind, Ty.width] at hk hw
    · split
      · refine ⟨by simp [Ty.lo]; omega, by simp [Ty.hi]; omega, ?_⟩
        intro t hk hw; cases t <;> simp [Ty.kind, Ty.width, Ty.hi] at hk hw ⊢ <;> omega
      · split
        · refine ⟨by simp [Ty.lo]; omega, by simp [Ty.hi]; omega, ?_⟩
          intro t hk hw; cases t <;> simp [Ty.kind, Ty.width, Ty.hi] at hk hw ⊢ <;> omega
        · refine ⟨by simp [Ty.lo]; omega, by simp [Ty.hi]; omega, ?_⟩
          intro t hk hw; cases t <;> simp [Ty.kind, Ty.width, Ty.hi] at hk hw ⊢ <;> omega
  · intro h0 h1
    simp only [sintFor]
    split
    · refine ⟨by simp [Ty.lo]; omega, by simp [Ty.hi]; omega, ?_⟩
      intro t hk hw; cases t <;> simp [Ty.kind, Ty.width] at hk hw
    · split
      · refine ⟨by simp [Ty.lo]; omega, by simp [Ty.hi]; omega, ?_⟩
        intro t hk hw; cases t <;> simp [Ty.kind, Ty.width, Ty.lo] at hk hw ⊢ <;> omega
      · split
        · refine ⟨by simp [Ty.lo]; omega, by simp [Ty.hi]; omega, ?_⟩
          intro t hk hw; cases t <;> simp [Ty.kind, Ty.width, Ty.lo] at hk hw ⊢ <;> omega
        · refine ⟨by simp [Ty.lo]; omega, by simp [Ty.hi]; omega, ?_⟩
          intro t hk hw; cases t <;> simp [Ty.kind, Ty.width, Ty.lo] at hk hw ⊢ <;> omega

/-- **from_value, the other plain values**: `bool → BOOLEAN`, `str → A`, `bytes → B`, `list → L` element by element, an Item stays
itself; the value is unchanged. -/
theorem from_value_other :
    (∀ b : Bool, Model.Item.fromValue (.bool b) = .ok (.item .bool [if b then 1 else 0]))
    ∧ (∀ cps : List Nat, Model.Item.fromValue (.str cps) = .ok (.item .a (cps.map (fun (c : Nat) => (c : Int)))))
    ∧ (∀ bs : Bytes, Model.Item.fromValue (.bytes bs) = .ok (.item .b (bs.map (fun (b : Nat) => (b : Int)))))
    ∧ (∀ ps : List PyVal, Model.Item.fromValue (.list ps) = match Model.Item.fromValues ps with | .error e => .error e | .ok vs => .ok (.list vs))
    ∧ (∀ v : Val, Model.Item.fromValue (.obj v) = .ok v) :=
  Proofs.CodecItem.from_value_other

/-! ## non-vacuity -/

example : Model.Item.fromValue (.list [.int 255, .int 256, .int (-129), .bool true, .str [72, 105], .bytes [0, 255], .list [.int 4294967296]])
    = .ok (.list [.item .u1 [255], .item .u2 [256], .item .i2 [-129], .item .bool [1], .item .a [72, 105], .item .b [0, 255], .list [.item .u8 [4294967296]]]) := by
  decide +kernel

example : Model.Item.decodeBytes [0x03, 0, 0, 1, 0xAA, 0x00, 0x02, 0x12, 0x34] = .ok (.list [.item .u2 [0x1234]], [])
    ∧ Model.Item.encode (.list [.item .u2 [0x1234]]) = .ok [0x01, 0x01, 0xA9, 0x02, 0x12, 0x34] := by decide +kernel

example : Model.Item.construct (.leaf .b) (.list [.int 1, .bytes [2, 3], .str [0xE9]]) = .ok (.item .b [1, 2, 3, 0xC3, 0xA9]) := by decide +kernel

/-- the Item API refuses NaN and infinity where the variables API accepts NaN — modelled as the code behaves -/
theorem witness_nan_refused : Model.Item.construct (.leaf .f8) (.float 0x7FF8000000000000) = .error .valueError
    ∧ Model.Var.setLeaf .f8 (-1) (.float 0x7FF8000000000000) = .ok [0x7FF8000000000000] := by decide +kernel

end SecsModel.Props.C14
