import SecsModel.Proofs.FnCodec
import SecsModel.Proofs.FnCodecMatch
/-!
# C03 (part b) — the value round trip of every catalogued stream/function, and plain scalar values given to `Dynamic` items

`Model.Fn` (`Model/FnCodec.lean`) is `SecsStreamFunction.encode/decode` + `StreamsFunctions.decode` over the generated catalogue,
with the codec of `Model/Var.lean`; `structOf` derives the codec structure of a function from its generated SFDL text (through the
SFDL model and its shape) and the generated data item table.  Tied to the code by `tools/harness/c03_fn.py` (driver domain `fn`).
-/
namespace SecsModel.Props.C03b
open SecsModel SecsModel.Spec.E5 SecsModel.Model.Var SecsModel.Gen.Catalogue SecsModel.Model.Fn
open SecsModel.Proofs.CodecVarDec SecsModel.Proofs.CodecRound SecsModel.Proofs.FnCodecMatch

/-- **Every function with a structure text has a codec structure** (kernel-evaluated over the generated table on every run):
the text parses, its shape has no broken array, every data item is in the data item table with a known type / type list. -/
theorem struct_defined (f : Fn) (hf : f ∈ py) (hd : f.dataFormat.isSome = true) : ∃ s, structOf f = some s :=
  Proofs.FnCodec.structOf_defined f hf hd

/-- **C03_function_roundtrip.**  For every catalogued function and **every** value that conforms to its structure (open lists of
any length, every allowed alternative type of each Dynamic item, count limits) and that the item types accept (no NaN): the body
`cls(value).encode()` produces decodes — looked up only by the stream and function numbers — to the same function carrying the
value (F4 elements rounded to binary32, nothing else changed). -/
theorem function_roundtrip (f : Fn) (hf : f ∈ py) (s : Struct) (hs : structOf f = some s) (v : Val) (ha : Accepted v) (hn : NoNaN v)
    (hc : Conforms s v) (bs : Bytes) (he : Model.Fn.encode f (some v) = .ok bs) :
    Model.Fn.decode py f.stream f.function bs = .ok (f, some (norm v)) :=
  Proofs.FnCodec.function_roundtrip f hf s hs v ha hn hc bs he

/-- when all F4 elements are binary32 values the decoded value is the value itself -/
theorem function_roundtrip_exact (f : Fn) (hf : f ∈ py) (s : Struct) (hs : structOf f = some s) (v : Val) (ha : Accepted v) (hn : NoNaN v)
    (hx : v.Exact32) (hc : Conforms s v) (bs : Bytes) (he : Model.Fn.encode f (some v) = .ok bs) :
    Model.Fn.decode py f.stream f.function bs = .ok (f, some v) := by
  have := function_roundtrip f hf s hs v ha hn hc bs he
  rwa [norm_exact v hx] at this

/-- **Header-only functions**: the body is empty, any body is accepted, the class is found by its numbers. -/
theorem header_only (f : Fn) (hf : f ∈ py) (hd : f.dataFormat = none) (v : Option Val) (body : Bytes) :
    Model.Fn.encode f v = .ok [] ∧ Model.Fn.decode py f.stream f.function body = .ok (f, none) :=
  Proofs.FnCodec.header_only f hf hd v body

/-- a message whose numbers are not catalogued is refused -/
theorem unknown_function (s fn : Nat) (body : Bytes) (h : Model.Catalogue.function py s fn = .ok none) :
    Model.Fn.decode py s fn body = .error .valueError := by
  simp only [Model.Fn.decode, h]

/-- **`_match_type` returns a candidate that supports the value**, and is first-fit in its two passes: pass 1 takes the first
allowed type (declared order) of the value's own Python kind that supports it; pass 2 the first that supports it at all. -/
theorem matchType_first_fit (c : Int) (p : PyVal) :
    (∀ ts g, matchType ts c p = .found g →
      ∃ t, g = .leaf t ∧ .leaf t ∈ (if ts.isEmpty then defaultOrder else ts) ∧ supportsScalar t c p = some true)
    ∧ (∀ t pre post, prefersPy (.leaf t) p = true → supportsScalar t c p = some true → (∀ g ∈ pre, skipped1 c p g) →
        pass1 c p (pre ++ .leaf t :: post) = .found (.leaf t))
    ∧ (∀ t pre post, supportsScalar t c p = some true → (∀ g ∈ pre, ∃ t', g = .leaf t' ∧ supportsScalar t' c p = some false) →
        pass2 c p (pre ++ .leaf t :: post) = .found (.leaf t)) :=
  ⟨fun ts g h => matchType_found ts c p g h, fun t pre post hp hs h => pass1_first_fit c p t post hp hs pre h,
   fun t pre post hs h => pass2_first_fit c p t post hs pre h⟩

/-- **C03_plain_value_readback (scalars).**  A plain int, bool, float or str given to a `Dynamic` item (any type list, any count)
whose type search ends in a class of the value's own kind (int → U*/I*, bool → BOOLEAN, float → F4/F8, str → A/J) is stored and read
back by `get()` unchanged. -/
theorem plain_value_readback (ts : List Tag) (c : Int) (p : PyVal) (t : Ty) (hm : matchType ts c p = .found (.leaf t)) (hn : native t p) :
    setGet ts c p = .ok (t, p) :=
  Proofs.FnCodecMatch.plain_value_readback ts c p t hm hn

/-! ## non-vacuity and the modelled deviations -/

/-- S1F3 (an open array of SVID: U1…I8 or A), a two-element value with two alternative types -/
example : ∃ f ∈ py, f.stream = 1 ∧ f.function = 3 ∧ (structOf f).isSome = true
    ∧ Model.Fn.decode py 1 3 [0x01, 0x02, 0xA5, 0x01, 0x01, 0x41, 0x01, 0x7A] = .ok (f, some (.list [.item .u1 [1], .item .a [0x7A]]))
    ∧ Model.Fn.decode py 1 3 [0x01, 0x01, 0x91, 0x04, 0, 0, 0, 0] = .error .valueError := by
  refine ⟨⟨['S', 'e', 'c', 's', 'S', '0', '1', 'F', '0', '3'], 1, 3, false, true, true, true, false, some fmt_SecsS01F03⟩, ?_, rfl, rfl, ?_, ?_, ?_⟩ <;> decide +kernel

example : (py.filter (fun f => f.dataFormat.isSome)).length = 115 ∧ (py.filter (fun f => f.dataFormat.isNone)).length = 19 := by decide +kernel

/-- an int too large for every allowed integer type falls to a later type of another kind: it is NOT read back unchanged
(the value 300 given to a `[U1, A]` item comes back as the text "300") — why the read-back theorem asks for a class of the value's own kind -/
theorem witness_int_becomes_text : setGet [.leaf .u1, .leaf .a] (-1) (.int 300) = .ok (.a, .str [51, 48, 48]) := by rfl

/-- a scalar that no allowed type takes in pass 1 makes pass 2 construct `Array(count=…)`, which raises `TypeError` -/
theorem witness_array_in_pass2 : matchType [.arr, .leaf .u1] (-1) (.int 300) = .typeError := by decide +kernel

end SecsModel.Props.C03b
