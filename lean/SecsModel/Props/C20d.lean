import SecsModel.Props.C01
import SecsModel.Props.C04
import SecsModel.Props.C16
/-!
# C20d — wire-level agreement: what one endpoint's application hands over is what the other endpoint's application decodes

The C20 statement ends in "agree on data".  The message-level part of that is `Props/C20.lean` (`service_agreement`,
`events_exactly_once`) and `Props/C20c.lean`; this file is the *stack composition underneath*: the codec theorem of C01
(`Model.Var.encode` / `decodeAs`), the framing theorem of C04 (`HsmsBlock.encode`, the receive loop under any TCP segmentation) and,
for the SECS-I transport, the block theorems of C16 (split, checksum, reassembly under any interleaving) are composed into one
statement per transport that starts at the sender's value and ends at the receiver's value.  Nothing is assumed between the
layers: the bytes the codec model produces are the bytes the framing model carries.

Every model used here is tied to the code by its own property's check (C01, C04, C16); this file adds no model of its own.
-/
namespace SecsModel.Props.C20d
open SecsModel SecsModel.Spec.E5 SecsModel.Model.Var
open SecsModel.Proofs.CodecVarDec SecsModel.Proofs.CodecRound SecsModel.Proofs.CodecElem

/-- a message as the sending application hands it to `send_stream_function` / `send_response`: the transport header, the value of
the function's body and the structure the receiving side decodes it into (its catalogue entry for the same stream/function) -/
structure Msg (H : Type) where
  header : H
  value : Val
  struct : Struct

/-! ## HSMS -/
section hsms
open SecsModel.Gen SecsModel.Model.Rx SecsModel.Proofs.HsmsHdr SecsModel.Proofs.HsmsRx

/-- what the sender may be asked to send: a value the variable types accept (no NaN), that conforms to the receiver's structure, under
an in-range header, whose encoding fits the 32-bit HSMS length field -/
structure HsmsOk (m : Msg HsmsHeader) (body : Bytes) : Prop where
  header : InRange m.header
  accepted : Accepted m.value
  nonan : NoNaN m.value
  conforms : Conforms m.struct m.value
  encoded : Model.Var.encode m.value = .ok body
  fits : 10 + body.length < 2 ^ 32

/-- **HSMS, sender value → receiver value, any segmentation.**  A sequence of messages, each encoded by the variables API and framed by
`HsmsBlock.encode`, the concatenated frames cut into TCP segments in *any* way: the receive loop delivers exactly one block per message,
in order, nothing is left in the buffer, no run of the loop aborts, the frames on the wire are the E37 frames — and decoding the body of
the `i`-th delivered block into the receiver's structure yields the `i`-th value (F4 elements rounded to binary32, nothing else changed),
consuming exactly the body. -/
theorem hsms_end_to_end (ms : List (Msg HsmsHeader)) (bodies : List Bytes) (hlen : bodies.length = ms.length)
    (hok : ∀ i (hi : i < ms.length), HsmsOk ms[i] (bodies[i]'(hlen ▸ hi)))
    (chunks : List Bytes) :
    let blocks : List Block := (ms.zip bodies).map (fun p => ⟨p.1.header, p.2⟩)
    (∀ b ∈ blocks, b.encode = .ok (frameOf b)) ∧
    (chunks.flatten = wire blocks →
      chunks.foldl feed Rx.init = ⟨[], blocks, 0⟩ ∧
      ∀ i (hi : i < ms.length), ∃ b, blocks[i]? = some b ∧ b.header = ms[i].header ∧
        decodeAs ms[i].struct b.data 0 = .ok (norm ms[i].value, b.data.length)) := by
  intro blocks
  have hbl : blocks.length = ms.length := by simp [blocks, hlen]
  have hget : ∀ i (hi : i < ms.length), blocks[i]? = some ⟨ms[i].header, bodies[i]'(hlen ▸ hi)⟩ := by
    intro i hi
    have hz : (ms.zip bodies)[i]? = some (ms[i], bodies[i]'(hlen ▸ hi)) :=
      List.getElem?_zip_eq_some.mpr ⟨List.getElem?_eq_getElem hi, List.getElem?_eq_getElem (hlen ▸ hi)⟩
    simp only [blocks, List.getElem?_map, hz, Option.map_some]
  have hvalid : ∀ b ∈ blocks, Valid b := by
    intro b hb
    obtain ⟨i, hi, rfl⟩ := List.getElem_of_mem hb
    have hi' : i < ms.length := hbl ▸ hi
    have := hget i hi'
    rw [List.getElem?_eq_getElem hi] at this
    have e := Option.some.inj this
    rw [e]
    exact ⟨(hok i hi').header, (hok i hi').fits⟩
  refine ⟨fun b hb => encode_exact b (hvalid b hb), fun hc => ⟨C04.segmentation blocks hvalid chunks hc, ?_⟩⟩
  intro i hi
  refine ⟨_, hget i hi, rfl, ?_⟩
  have o := hok i hi
  have := C01.roundtrip ms[i].value ms[i].struct o.accepted o.nonan o.conforms _ o.encoded [] [] allBytes_nil
  simpa using this

/-- non-vacuity: the hypotheses are met by the C01 sample value (three-level nesting, U8 maximum, F4 = 0.1, text) under a maximal header -/
def m1 : Msg HsmsHeader :=
  ⟨⟨0xFFFFFFFF, 0xFFFF, 127, 255, true, 0, 0⟩, C01.sample,
   .record [.leaf .u8 1, .dyn [.arr] (-1), .leaf .a 3, .leaf .j (-1), .dyn [] 2, .leaf .b (-1)]⟩
def body1 : Bytes := [0x01, 0x06, 0xA1, 0x08, 0xFF, 0xFF, 0xFF, 0xFF, 0xFF, 0xFF, 0xFF, 0xFF, 0x01, 0x02, 0x61, 0x08, 0x80, 0, 0, 0, 0, 0, 0, 0,
    0x01, 0x01, 0x91, 0x08, 0x3D, 0xCC, 0xCC, 0xCD, 0x7F, 0x7F, 0xFF, 0xFF, 0x41, 0x03, 72, 105, 255, 0x45, 0x02, 0x5C, 0xA1, 0x25, 0x02, 1, 0, 0x21, 0x00]

example : HsmsOk m1 body1 where
  header := by decide
  accepted := by
    simp only [m1, C01.sample, Accepted, AcceptedList, List.mem_cons, List.not_mem_nil, or_false, forall_eq_or_imp, forall_eq, and_true]
    exact ⟨by decide, ⟨by decide, by decide, by decide⟩, ⟨by decide, by decide, by decide⟩, ⟨by decide +kernel, by decide +kernel⟩,
      ⟨by decide, by decide⟩, fun _ h => h.elim⟩
  nonan := by
    simp only [m1, C01.sample, NoNaN, NoNaNList, List.mem_cons, List.not_mem_nil, or_false, forall_eq_or_imp, forall_eq, and_true]
    exact ⟨by decide, ⟨by decide, by decide, by decide⟩, ⟨by decide, by decide, by decide⟩, ⟨by decide, by decide⟩,
      ⟨by decide, by decide⟩, fun _ h => h.elim⟩
  conforms := by
    simp only [m1, C01.sample, Conforms, ConformsZip, NoJList, NoJ, List.length_cons, List.length_nil, and_true, true_and]
    decide
  encoded := by decide +kernel
  fits := by decide

end hsms

/-! ## SECS-I -/
section secsi
open SecsModel.Gen SecsModel.Model.SecsI SecsModel.Proofs.SecsIHdr SecsModel.Proofs.SecsI SecsModel.Proofs.SecsIReasm

/-- as `HsmsOk`, for the SECS-I transport: the body must fit E4's 32767 blocks of 244 bytes -/
structure SecsIOk (m : Msg SecsIHeader) (body : Bytes) : Prop where
  header : InRange m.header
  accepted : Accepted m.value
  nonan : NoNaN m.value
  conforms : Conforms m.struct m.value
  encoded : Model.Var.encode m.value = .ok body
  fits : body.length ≤ 244 * 32767

/-- every block `_split_blocks` produces for an in-range header and a body of at most 32767 blocks can go on the line -/
theorem split_block_ok (h : Header) (body : Bytes) (hr : InRange h) (hab : AllBytes body) (hsz : body.length ≤ 244 * 32767) :
    ∀ b ∈ split h body, InRange b.header ∧ AllBytes b.data ∧ b.data.length ≤ 244 := by
  intro b hb
  obtain ⟨hflat, hlen, hle, hidx⟩ := C16.split_correct h body
  refine ⟨?_, ?_, hle b hb⟩
  · obtain ⟨j, hj, rfl⟩ := List.getElem_of_mem hb
    have := hidx j hj
    rw [List.getElem?_eq_getElem hj, Option.map_some] at this
    have e := Option.some.inj this
    rw [e]
    have hj' : j + 1 ≤ 32767 := by omega
    exact ⟨hr.system, hr.device, hr.stream, hr.function, ⟨by simp only; omega, by simp only; omega⟩⟩
  · intro x hx
    apply hab
    rw [← hflat]
    exact List.mem_flatten.mpr ⟨b.data, List.mem_map.mpr ⟨b, hb, rfl⟩, hx⟩

/-- **SECS-I, sender value → receiver value, any interleaving.**  Any number of messages with pairwise distinct system bytes, each
encoded by the variables API and cut by `_split_blocks`; their blocks put on the line in *any* interleaving that keeps each message's
own order.  Then every block on the line encodes to a frame (length byte, header, data, checksum) that decodes back to the block, and
the receiver's `_add_message_block` completes, under the system bytes of message `i`, exactly one message; nothing stays pending for
it; and decoding the completed message's data into the receiver's structure yields the `i`-th value (F4 elements rounded to binary32),
consuming exactly the data.  Nothing is completed under any other system bytes. -/
theorem secsi_end_to_end (ms : List (Msg SecsIHeader × Bytes)) (hok : ∀ p ∈ ms, SecsIOk p.1 p.2)
    (hnd : (ms.map (·.1.header.system)).Nodup) (bs : List Block)
    (hI : Interleaving (ms.map (fun p => split p.1.header p.2)) bs) :
    (∀ b ∈ bs, ∃ raw, Block.encode b = .ok raw ∧ raw.length = b.data.length + 13 ∧ AllBytes raw ∧ Block.decode raw = .ok (some b))
    ∧ (∀ i (hi : i < ms.length), ∃ m : Message,
        ((reassembleK [] bs).2.filter (·.1 == ms[i].1.header.system)).map (·.2) = [m]
        ∧ (reassemble [] bs).1.lookup ms[i].1.header.system = none
        ∧ decodeAs ms[i].1.struct (Message.data m) 0 = .ok (norm ms[i].1.value, (Message.data m).length))
    ∧ (∀ e ∈ (reassembleK [] bs).2, ∃ i, ∃ (hi : i < ms.length), e.1 = ms[i].1.header.system)
    ∧ (reassembleK [] bs).2.map (·.2) = (reassemble [] bs).2 := by
  let ms' : List (Header × Bytes) := ms.map (fun p => (p.1.header, p.2))
  have hI' : Interleaving (ms'.map (fun m => split m.1 m.2)) bs := by
    simpa only [ms', List.map_map, Function.comp_def] using hI
  have hnd' : (ms'.map (·.1.system)).Nodup := by
    simpa only [ms', List.map_map, Function.comp_def] using hnd
  have hl' : ms'.length = ms.length := by simp [ms']
  obtain ⟨h1, h2, h3⟩ := C16.reassembly ms' hnd' bs hI'
  refine ⟨?_, ?_, ?_, h3⟩
  · intro b hb
    obtain ⟨l, hl, hbl⟩ := mem_of_interleaving _ bs hI' b hb
    simp only [ms', List.map_map, List.mem_map, Function.comp_def] at hl
    obtain ⟨p, hp, rfl⟩ := hl
    have o := hok p hp
    have hab : AllBytes p.2 := encode_allBytes p.1.value p.2 (by rw [← C01.encode_exact _ o.accepted]; exact o.encoded)
    obtain ⟨hr, had, hn⟩ := split_block_ok p.1.header p.2 o.header hab o.fits b hbl
    exact C16.block_roundtrip b.header b.data hr had hn
  · intro i hi
    have hi' : i < ms'.length := hl' ▸ hi
    obtain ⟨hf, hp, hd⟩ := h1 i hi'
    have hgi : ms'[i] = (ms[i].1.header, ms[i].2) := by simp [ms']
    rw [hgi] at hf hp hd
    simp only at hf hp hd
    refine ⟨_, hf, hp, ?_⟩
    rw [hd]
    have o := hok ms[i] (List.getElem_mem hi)
    have := C01.roundtrip ms[i].1.value ms[i].1.struct o.accepted o.nonan o.conforms _ o.encoded [] [] allBytes_nil
    simpa using this
  · intro e he
    obtain ⟨i, hi, hk⟩ := h2 e he
    have hi' : i < ms.length := hl' ▸ hi
    refine ⟨i, hi', ?_⟩
    rw [hk]; simp [ms']

/-- non-vacuity: the C01 sample value under a maximal SECS-I header meets the hypotheses -/
def s1 : Msg SecsIHeader :=
  ⟨⟨0xFFFFFFFF, 0x7FFF, 127, 255, 0, true, true, true⟩, C01.sample,
   .record [.leaf .u8 1, .dyn [.arr] (-1), .leaf .a 3, .leaf .j (-1), .dyn [] 2, .leaf .b (-1)]⟩

example : SecsIOk s1 body1 where
  header := by decide
  accepted := by
    simp only [s1, C01.sample, Accepted, AcceptedList, List.mem_cons, List.not_mem_nil, or_false, forall_eq_or_imp, forall_eq, and_true]
    exact ⟨by decide, ⟨by decide, by decide, by decide⟩, ⟨by decide, by decide, by decide⟩, ⟨by decide +kernel, by decide +kernel⟩,
      ⟨by decide, by decide⟩, fun _ h => h.elim⟩
  nonan := by
    simp only [s1, C01.sample, NoNaN, NoNaNList, List.mem_cons, List.not_mem_nil, or_false, forall_eq_or_imp, forall_eq, and_true]
    exact ⟨by decide, ⟨by decide, by decide, by decide⟩, ⟨by decide, by decide, by decide⟩, ⟨by decide, by decide⟩,
      ⟨by decide, by decide⟩, fun _ h => h.elim⟩
  conforms := by
    simp only [s1, C01.sample, Conforms, ConformsZip, NoJList, NoJ, List.length_cons, List.length_nil, and_true, true_and]
    decide
  encoded := by decide +kernel
  fits := by decide

end secsi

end SecsModel.Props.C20d
