import SecsModel.Proofs.Pair
import SecsModel.Proofs.PairData
import SecsModel.Gen.Machines
/-!
# C20 — a host and an equipment reach communication and agree on data (abstract pair model)

**Partial by nature** (DESIGN §5 C20): the theorems are about `Model.Pair`, the product of the HSMS session and GEM
communication machines of two endpoints joined by FIFO channels.  Wall-clock convergence of OS threads is exercised by
`tools/harness/c20.py` on the real pair; what is proved here is (i) safety for all histories, (ii) that the handshake
completes under every delivery order once the link is up, and (iii) exactly which timing assumption convergence from
stale states needs (T3 > establish-communications delay), with the fair non-converging cycle as a witness when it fails.
-/
namespace SecsModel.Props.C20
open SecsModel.Model.Pair SecsModel.Proofs.Pair

def connName : Conn → String
  | .nc => "NOT_CONNECTED" | .ns => "CONNECTED_NOT_SELECTED" | .sel => "CONNECTED_SELECTED"
def commName : Comm → String
  | .dis => "DISABLED" | .notc => "NOT_COMMUNICATING" | .wcra => "WAIT_CRA" | .wdelay => "WAIT_DELAY" | .comm => "COMMUNICATING"

/-- `a → b` is a transition of the generated machine table -/
def inTable (t : Gen.MachineTable) (a b : String) : Bool :=
  t.transitions.any (fun tr => tr.2.1.contains a && tr.2.2 == b)

/-- **Tie to the source (regenerated on every run).**  The session steps of the pair model are exactly the transitions of the
shipped `ConnectionStateMachine`, and every communication step of the pair model is a transition of the shipped
`CommunicationStateMachine` (the table additionally allows `s1f13received` from WAIT_DELAY, which no handler requests). -/
theorem tables_match_source :
    (∀ a b : Conn, connOk a b = inTable Gen.ConnSM (connName a) (connName b))
    ∧ (∀ a b : Comm, commOk .sel a b = true → inTable Gen.CommSM (commName a) (commName b) = true) := by
  constructor
  · intro a b; cases a <;> cases b <;> decide
  · intro a b; cases a <;> cases b <;> decide

/-- **Start-up, all delivery orders, both role assignments, both enable orders.**  After `enable`,`enable`,`linkUp` every
interleaving of message deliveries ends — after at most 8 deliveries — with both ends COMMUNICATING and nothing in flight. -/
theorem startup_converges :
    ∀ aActive : Bool, ∀ order : Bool,
      (match run (init aActive) (if order then [.enable .A, .enable .B, .linkUp] else [.enable .B, .enable .A, .linkUp]) with
       | some p => allDeliveriesConverge 8 p
       | none => false) = true := by decide

/-- the state "both SELECTED and COMMUNICATING, nothing in flight" -/
def established (aActive : Bool) : Pair :=
  { a := ⟨true, aActive, .sel, .comm⟩, b := ⟨true, !aActive, .sel, .comm⟩, ab := [], ba := [] }

/-- `established` is what start-up reaches (one concrete delivery order; `startup_converges` covers all orders) -/
theorem established_reachable : ∀ aActive : Bool,
    run (init aActive) ([.enable .A, .enable .B, .linkUp] ++
      (if aActive then [.deliver .B, .deliver .A, .deliver .A, .deliver .B, .deliver .B, .deliver .A]
       else [.deliver .A, .deliver .B, .deliver .B, .deliver .A, .deliver .A, .deliver .B])) = some (established aActive) := by decide

/-- **Disable / re-enable.**  From `established`, disabling either side drops the link for both and takes BOTH ends out of
COMMUNICATING; re-enabling it and bringing the link up again converges under every delivery order. -/
theorem reenable_converges : ∀ aActive : Bool, ∀ who : Side,
    ((match run (established aActive) [.disable who] with
      | some q => q.a.comm ≠ .comm && q.b.comm ≠ .comm && q.a.conn = .nc && q.b.conn = .nc
      | none => false)
     && (match run (established aActive) [.disable who, .enable who, .linkUp] with
      | some p => allDeliveriesConverge 8 p
      | none => false)) = true := by
  intro aActive who; cases aActive <;> cases who <;> decide

/-- **Link loss without disable** (peer process restarted, cable pulled): both ends leave COMMUNICATING, and when the link
returns the handshake converges again under every delivery order. -/
theorem linkloss_converges : ∀ aActive : Bool,
    ((match run (established aActive) [.linkDown] with
      | some q => q.a.comm = .notc && q.b.comm = .notc
      | none => false)
     && (match run (established aActive) [.linkDown, .linkUp] with
      | some p => allDeliveriesConverge 8 p
      | none => false)) = true := by decide

/-- **Why a timing assumption is needed.**  In the untimed model a weakly fair schedule exists that never converges: with both
ends SELECTED, A in WAIT_CRA and B in WAIT_DELAY, the timers can alternate so that each S1F13 arrives while its receiver
is in WAIT_DELAY (where the code ignores it); after twelve steps the pair is back in the same state. -/
theorem lockstep_cycle :
    let p : Pair := { a := ⟨true, true, .sel, .wcra⟩, b := ⟨true, false, .sel, .wdelay⟩, ab := [], ba := [] }
    run p [.t3 .A, .delay .B, .deliver .A, .t3 .B, .delay .A, .deliver .B,
           .t3 .A, .delay .B, .deliver .A, .t3 .B, .delay .A, .deliver .B] = some p
    ∧ bothComm p = false := by decide

/-- **The timing assumption.**  Let each end alternate WAIT_CRA for `t3` time units and WAIT_DELAY for `d` units (period
`t3 + d`), sending S1F13 on entering WAIT_CRA, and let `o` be the offset of B's cycle against A's.  If `d < t3` then within one
period an S1F13 of one end arrives while the other is in WAIT_CRA (and by `handleData` that completes the exchange);
if `t3 ≤ d` there is an offset for which both always miss. -/
theorem timing_windows_overlap (t3 d o : Nat) (h : d < t3) (ho : o < t3 + d) :
    o < t3 ∨ (t3 + d - o) % (t3 + d) < t3 := by
  by_cases h1 : o < t3
  · exact Or.inl h1
  · right
    have : t3 + d - o < t3 + d := by omega
    rw [Nat.mod_eq_of_lt this]; omega

theorem timing_windows_can_miss (t3 d : Nat) (h : t3 ≤ d) (hpos : 0 < t3) :
    ∃ o, o < t3 + d ∧ ¬ (o < t3) ∧ ¬ ((t3 + d - o) % (t3 + d) < t3) := by
  refine ⟨t3, by omega, by omega, ?_⟩
  have : t3 + d - t3 = d := by omega
  rw [this, Nat.mod_eq_of_lt (by omega)]; omega

/-- an S1F13 that reaches a SELECTED end in WAIT_CRA (or COMMUNICATING) is answered with S1F14/COMMACK 0, and that answer
moves a SELECTED requester in WAIT_CRA to COMMUNICATING: one overlap of the windows completes the exchange -/
theorem overlap_completes (e f : End) (he : e.conn = .sel) (hf : f.conn = .sel) (hec : e.comm = .wcra ∨ e.comm = .comm)
    (hfc : f.comm = .wcra) :
    (handleData e .s1f13).1.comm = .comm ∧ (handleData e .s1f13).2 = [.s1f14 true]
    ∧ (handleData f (.s1f14 true)).1.comm = .comm := by
  obtain ⟨en, act, c, m⟩ := e
  obtain ⟨en', act', c', m'⟩ := f
  simp only at he hf hec hfc
  subst he hf hfc
  rcases hec with h | h <;> subst h <;> simp [handleData]

/-- **Safety, every history, both role assignments.**  Whatever sequence of enables, disables, link ups and downs, message
deliveries (in any order) and timer expiries happens: an end reports COMMUNICATING only while its session is SELECTED, both
sessions are NOT CONNECTED together, nothing is in flight without a link, and DISABLED ⇔ not enabled. -/
theorem safety_all_histories (aActive : Bool) (ss : List Step) (p : Pair) (h : run (init aActive) ss = some p) : Inv p :=
  inv_run ss (init aActive) p (inv_init aActive) h

/-- communication is established ONLY by completing an S1F13/S1F14(COMMACK 0) exchange while SELECTED and in WAIT_CRA -/
theorem established_only_by_exchange (p p' : Pair) (s : Step) (x : Side) (hs : step p s = some p')
    (h0 : (p.get x).comm ≠ .comm) (h1 : (p'.get x).comm = .comm) :
    s = .deliver x ∧ (p.get x).conn = .sel ∧ (p.get x).comm = .wcra
      ∧ ∃ m rest, p.inbox x = m :: rest ∧ (m = .s1f13 ∨ m = .s1f14 true) :=
  comm_only_by_exchange p p' s x hs h0 h1

open SecsModel.Proofs.PairData in
/-- **Service agreement** (message level).  For any equipment tables `σ` with any answer function, any interleaving of host
calls, equipment-side updates, triggers and deliveries: every completed host call `(sys, request, reply)` is the reply the
equipment computed for THAT request from what it held at the moment it handled it — never another caller's reply. -/
theorem service_agreement {σ Req Rsp Ev : Type} (ans : σ → Req → σ × Rsp) (upd : σ → σ) (e : σ) (c0 : Nat)
    (ops : List (Model.PairData.Op Req Ev)) (sys : Nat) (r : Req) (rsp : Rsp)
    (h : (sys, r, rsp) ∈ (Model.PairData.run ans upd (Model.PairData.init e c0 : Model.PairData.St σ Req Rsp Ev) ops).results) :
    ∃ σ0, (sys, σ0, r, rsp) ∈ (Model.PairData.run ans upd (Model.PairData.init e c0 : Model.PairData.St σ Req Rsp Ev) ops).handled ∧ (ans σ0 r).2 = rsp :=
  (ainv_run ans upd ops _ (ainv_init ans e c0)).res sys r rsp h

open SecsModel.Proofs.PairData in
/-- **Events exactly once, in order** (message level).  The events handed to the host application followed by those still in
flight are exactly the triggered events; so once the channel has drained every triggered event has reached the host
exactly once. -/
theorem events_exactly_once {σ Req Rsp Ev : Type} (ans : σ → Req → σ × Rsp) (upd : σ → σ) (e : σ) (c0 : Nat)
    (ops : List (Model.PairData.Op Req Ev)) :
    let s := Model.PairData.run ans upd (Model.PairData.init e c0 : Model.PairData.St σ Req Rsp Ev) ops
    s.received ++ Model.PairData.eventsInFlight s.eh = s.triggered
    ∧ (Model.PairData.eventsInFlight s.eh = [] → s.received = s.triggered) := by
  have h := events_invariant ans upd ops (Model.PairData.init e c0 : Model.PairData.St σ Req Rsp Ev) (by simp [Model.PairData.init, Model.PairData.eventsInFlight])
  refine ⟨h, ?_⟩
  intro h0
  rw [h0, List.append_nil] at h
  exact h

/-- non-vacuity of the message-level theorems: two calls and a trigger, replies delivered out of phase -/
example :
    let ans : Nat → Nat → Nat × Nat := fun st q => (st + 1, st * 10 + q)
    let s := Model.PairData.run ans id (Model.PairData.init 5 100 : Model.PairData.St Nat Nat Nat String)
      [.call 1, .call 2, .trigger "ev", .equipRx, .update (), .equipRx, .hostRx, .hostRx, .hostRx]
    s.results = [(101, 1, 51), (102, 2, 62)] ∧ s.received = ["ev"] ∧ s.outstanding = [] := by decide

end SecsModel.Props.C20
