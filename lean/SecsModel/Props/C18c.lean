import SecsModel.Spec.Machines
import SecsModel.Model.SM
/-!
# C18c — the three shipped machine definitions are the reference definitions

C18 quantifies over "randomly generated and the three shipped machine definitions".  The engine theorems (`Props.C18`) hold for
whatever `Gen.Machines` extracts; these obligations pin *what* is extracted: states, the parent of every state (the hierarchy),
the initial state, every transition's set of sources and its destination equal the reference definitions of `Spec.Machines`
(E37 connection diagram, E30 communication and control diagrams).  Any edit of a `State(...)`/`Transition(...)` line in the three
constructors re-generates `Gen.Machines` and re-opens them.
-/
namespace SecsModel.Props.C18c
open SecsModel SecsModel.Gen SecsModel.Spec.Machines

/-- `ConnectionStateMachine` = E37: NOT_CONNECTED; CONNECTED ⊃ {CONNECTED_NOT_SELECTED, CONNECTED_SELECTED}; transitions 2–6 -/
theorem conn_definition : defines ConnSM conn = true := by decide +kernel

/-- `CommunicationStateMachine` = E30 communication model: DISABLED; ENABLED ⊃ the seven communication sub-states; transitions
2–10, 14, 15 -/
theorem comm_definition : defines CommSM comm = true := by decide +kernel

/-- `ControlStateMachine` = E30 control model, flat with pass-through pseudo states; transitions 1–12 -/
theorem ctrl_definition : defines CtrlSM ctrl = true := by decide +kernel

/-- the hierarchy, spelled out: which states are sub-states of which -/
theorem hierarchy :
    (ConnSM.states.filter (fun s => s.2.2.1 == some "CONNECTED")).map (·.1) = ["CONNECTED_NOT_SELECTED", "CONNECTED_SELECTED"] ∧
    (ConnSM.states.filter (fun s => s.2.2.1 == none)).map (·.1) = ["NOT_CONNECTED", "CONNECTED"] ∧
    (CommSM.states.filter (fun s => s.2.2.1 == some "ENABLED")).map (·.1) =
      ["NOT_COMMUNICATING", "HOST_INITIATED_CONNECT", "WAIT_CR_FROM_HOST", "EQUIPMENT_INITIATED_CONNECT", "WAIT_DELAY", "WAIT_CRA", "COMMUNICATING"] ∧
    (CommSM.states.filter (fun s => s.2.2.1 == none)).map (·.1) = ["DISABLED", "ENABLED"] ∧
    (CtrlSM.states.all fun s => s.2.2.1 == none) = true := by decide +kernel

open SecsModel.Spec.E30Comm in
/-- the reference communication table is the transition relation `Spec.E30Comm.allowed` that the C07 theorems are stated over -/
theorem comm_reference_is_E30Comm :
    (Trans.all.all fun t => Comm.all.all fun c =>
      (match comm.transitions.find? (fun r => r.1 == t.name) with
        | some r => if r.2.1.contains c.name then Comm.ofName r.2.2 else none
        | none => none) == allowed t c) = true := by decide +kernel

/-- the reference tables are well-formed machines for the engine model (names resolve, parents precede children) -/
theorem reference_wellformed :
    Model.SM.wfB (Model.SM.ofTable conn.toTable) = true ∧ Model.SM.wfB (Model.SM.ofTable comm.toTable) = true ∧
    Model.SM.wfB (Model.SM.ofTable ctrl.toTable) = true := by decide +kernel

end SecsModel.Props.C18c
