import SecsModel.Proofs.CodecCanon
/-!
# C02 — Every valid SEMI E5 item encoding is decoded to the value it denotes (variables API)

The quantifier of the property is "every byte string accepted by an independent reference decoder": `Spec.E5.decodeAny`
(1, 2 or 3 length bytes regardless of the magnitude, every E5 format code, arbitrary nesting).
-/
namespace SecsModel.Props.C02
open SecsModel SecsModel.Spec.E5 SecsModel.Model.Var
open SecsModel.Proofs.CodecSpec SecsModel.Proofs.CodecVar SecsModel.Proofs.CodecVarDec SecsModel.Proofs.CodecRound SecsModel.Proofs.CodecCanon

/-- **The reference is sound**: it accepts every canonical encoding, with the (normalised) value, consuming exactly the item. -/
theorem spec_sound (v : Val) (bs rest : Bytes) (he : Spec.E5.encode v = .ok bs) : decodeAny (bs ++ rest) = some (norm v, rest) :=
  Proofs.CodecSpec.spec_sound v bs rest he

/-- **The reference is sane**: whatever it accepts (finite floats) has a canonical encoding, which it reads back to the same value —
re-encoding erases the sender's choice of length bytes. -/
theorem spec_canonical (bs : Bytes) (v : Val) (h : Valid bs v) (hab : AllBytes bs) (hfin : v.Finite) :
    ∃ cs, Spec.E5.encode v = .ok cs ∧ Valid cs v := by
  obtain ⟨_, hn, cs, hc⟩ := decoded_canonical bs v [] h hab hfin
  refine ⟨cs, hc, ?_⟩
  have := Proofs.CodecSpec.spec_sound v cs [] hc
  rw [hn, List.append_nil] at this
  exact this

/-- **Decode completeness.**  For every byte string the reference decoder accepts (finite floats), decoding it at any offset into a
fresh object of any structure the value conforms to — a typed leaf with its count limit, a `Dynamic` whose type list contains the
item's type, `ANYVALUE`, `Array`, `List`, nested arbitrarily; nested lists under a `Dynamic` go to `Array(ANYVALUE)` — yields
exactly that value and the position after the item. -/
theorem decode_complete (bs : Bytes) (v : Val) (rest : Bytes) (h : decodeAny bs = some (v, rest)) (hab : AllBytes bs) (hfin : v.Finite)
    (s : Struct) (hs : Conforms s v) (pre : Bytes) :
    decodeAs s (pre ++ bs) pre.length = .ok (v, pre.length + (bs.length - rest.length)) :=
  decodeAs_complete bs v rest h hab hfin s hs pre

/-- the `ANYVALUE` instance: every valid item without a JIS-8 sub-item -/
theorem decode_complete_any (bs : Bytes) (v : Val) (rest : Bytes) (h : decodeAny bs = some (v, rest)) (hab : AllBytes bs) (hfin : v.Finite)
    (hj : NoJ v) (pre : Bytes) :
    decodeDyn (pre ++ bs) pre.length = .ok (v, pre.length + (bs.length - rest.length)) :=
  decodeAs_complete bs v rest h hab hfin anyStruct (noJ_any v hj) pre

/-- **Re-encoding is canonical.**  The decoded object's `encode()` is the canonical E5 encoding of the value, which the
reference reads back to the same value. -/
theorem reencode_canonical (bs : Bytes) (v : Val) (rest : Bytes) (h : decodeAny bs = some (v, rest)) (hab : AllBytes bs) (hfin : v.Finite) :
    ∃ cs, Model.Var.encode v = .ok cs ∧ Spec.E5.encode v = .ok cs ∧ Valid cs v := by
  obtain ⟨ha, hn, cs, hc⟩ := decoded_canonical bs v rest h hab hfin
  refine ⟨cs, by rw [Proofs.CodecVar.encode_exact v ha, hc], hc, ?_⟩
  have := Proofs.CodecSpec.spec_sound v cs [] hc
  rw [hn, List.append_nil] at this
  exact this

/-- **No data item allows JIS-8 in a `Dynamic`** (generated from `data_items/*.py`): the missing JIS8 entry of the
`Dynamic.decode` table is outside "every format code the receiving item definition allows". -/
theorem no_item_allows_jis8 : Gen.VarTypes.dataItemsAllowingJIS8 = [] ∧ Tag.leaf .j ∉ anyTags := by decide

/-! ## non-vacuity and the modelled deviations outside the quantifier -/

/-- a non-canonical encoding: list with a 3-byte count, U2 with a 2-byte length, nested list with a 2-byte count, F4 FLT_MAX -/
def wire : Bytes := [0x03, 0, 0, 3, 0xAA, 0x00, 0x04, 0x12, 0x34, 0xFF, 0xFF, 0x02, 0x00, 0x01, 0x41, 0x01, 0x7A, 0x91, 0x04, 0x7F, 0x7F, 0xFF, 0xFF]
def wireVal : Val := .list [.item .u2 [0x1234, 0xFFFF], .list [.item .a [0x7A]], .item .f4 [0x47EFFFFFE0000000]]

example : decodeAny wire = some (wireVal, []) := by decide +kernel
example : AllBytes wire := by decide
example : decodeDyn wire 0 = .ok (wireVal, 23) := by decide +kernel
example : Model.Var.encode wireVal = .ok [0x01, 3, 0xA9, 0x04, 0x12, 0x34, 0xFF, 0xFF, 0x01, 0x01, 0x41, 0x01, 0x7A, 0x91, 0x04, 0x7F, 0x7F, 0xFF, 0xFF] := by
  decide +kernel

/-- zero length bytes: not a valid E5 item (the reference refuses it); the implementation reads it as an empty item -/
theorem witness_zero_length_bytes : decodeAny [0xA4] = none ∧ decodeAs (.leaf .u1 (-1)) [0xA4] 0 = .ok (.item .u1 [], 1) := by decide +kernel

/-- a JIS-8 item is valid E5 and a `JIS8` object decodes it, but `Dynamic.decode` has no entry for it -/
theorem witness_dynamic_no_jis8 :
    decodeAny [0x45, 0x01, 0x5C] = some (.item .j [0xA5], []) ∧ decodeAs (.leaf .j (-1)) [0x45, 0x01, 0x5C] 0 = .ok (.item .j [0xA5], 3)
    ∧ decodeDyn [0x45, 0x01, 0x5C] 0 = .error .valueError := by decide +kernel

/-- an infinity is a valid E5 float but outside the property ("every finite IEEE-754 float"): `set()` refuses it -/
theorem witness_infinity_refused :
    decodeAny [0x91, 0x04, 0x7F, 0x80, 0, 0] = some (.item .f4 [0x7FF0000000000000], []) ∧ decodeDyn [0x91, 0x04, 0x7F, 0x80, 0, 0] 0 = .error .valueError := by
  decide +kernel

end SecsModel.Props.C02
