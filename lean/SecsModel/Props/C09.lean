import SecsModel.Proofs.HsmsWedge
import SecsModel.Props.C04
import SecsModel.Gen.HsmsGuards
/-!
# C09 — No peer behaviour wedges the endpoint: link loss ends in a clean, reusable state

`Model.Wedge` is the thread/pc-level hand model of the protocol receiver thread, the dispatcher thread and the close sequence;
`Model.TcpStop` of the two stop-flag handshakes of the TCP connection classes.  Assumed, not modelled: the scheduler is weakly fair
(an enabled thread eventually runs — it only enters through "maximal run"), `Connection.send_data` returns (`True` or `False`), and the
operating system's socket behaviour.  The models follow `/repo` HEAD, i.e. with the repairs 725a0b2 (receive loop), 8ac2aeb (send queue
loop) and 1a14b53 (stop-flag handshakes); the behaviour before each repair is kept as a model variant for regression witnesses.  Only property theorems, non-vacuity examples and witnesses live here.
-/
namespace SecsModel.Props.C09
open SecsModel SecsModel.Model.Rx SecsModel.Model.Wedge SecsModel.Proofs.HsmsWedge SecsModel.Proofs.HsmsRx

/-! ## the framing loop and the close sequence -/

/-- **Never wedged.**  `Reachable` = histories in which a connection is established only after the previous close sequence has finished
(`connect` needs `tcp = done`); the in-memory connection guarantees that by construction and the TCP transport by
`connect_follows_teardown` below.  For every such history — any byte stream, cut into any segments (`chunk c` for arbitrary `c`: every cut offset, inside the
length field, header or body), any number of connections, the close sequence started at any moment, any interleaving of the three threads,
any block contents (`disp reply` for both values: in every session state a request may or may not be answered), any result of every
`send_data` (`prx ok` for both values): the receiver thread is never inside a blocking read, and whenever the close sequence has begun and
not finished some thread of the endpoint can take a step. -/
theorem never_wedged (s : St) (h : Reachable s) : s.prx ≠ .blockedRead ∧ wedged .current s = false :=
  ⟨(inv_reachable s h).noBlocked, not_wedged_of_inv s (inv_reachable s h)⟩

/-- **Close completes within a step bound under weak fairness.**  From any reachable state in which the close sequence has begun, *every*
maximal run of the endpoint's own threads (a run that ends where no thread can take a step — which is where a weakly fair scheduler ends
up) has at most `mu s` steps and ends with the close sequence finished: connection thread done, NOT CONNECTED, empty receive buffer,
receiver thread exited. -/
theorem close_completes (s s' : St) (ls : List Lbl) (h : Reachable s) (hc : s.tcp.closing = true)
    (hl : ∀ l ∈ ls, l.internal = true) (hr : run .current s ls = some s') (hq : quiescent .current s' = true) :
    ls.length ≤ mu s ∧ s'.tcp = .done ∧ s'.conn = false ∧ s'.buf = [] ∧ s'.prx = .exited := by
  have hb := run_bound ls s s' hl hr
  have hreach : Reachable s' := reachable_run s s' ls h hr
  have hi := inv_reachable s' hreach
  have hnw := not_wedged_of_inv s' hi
  have hcl := closing_run ls s s' hl hr (Or.inl hc)
  have hdone : s'.tcp = .done := by
    rcases hcl with hc' | hd
    · simp [wedged, hc', hq] at hnw
    · exact hd
  have hcd := hi.cleared (Or.inr hdone)
  have hbuf := hi.doneBuf hdone
  -- the receiver thread was started (the close sequence began from a connected state), so "not alive" means exited
  have hex : s'.prx = .exited := by
    have hs0 : s.prx ≠ .notStarted := by
      intro hn
      have := (inv_reachable s h).started hn
      rw [this] at hc; simp [TcpPc.closing] at hc
    have hne := started_run ls s s' hr hs0
    have hal := hcd.1
    cases hp : s'.prx <;> simp_all [RxPc.alive]
  exact ⟨by omega, hdone, hcd.2, hbuf, hex⟩

/-- **The premise of `Reachable` is discharged by the transport** (repair 814c548): the statement of `TcpConnection.__receiver_thread` that
starts the next listen/connect cycle is its last one — the `_connection_closed()` hook, after the `on_disconnected` listeners and the reset
of the flags —, both TCP classes implement that hook, and neither registers a listener of its own on `on_disconnected`.  So a `connect`
follows a finished close sequence; the overlap of `overlapping_connect_kills_new_connection` needs one of these three to fail. -/
theorem connect_follows_teardown :
    Gen.HsmsGuards.receiverThreadLast = "self._connection_closed()"
    ∧ Gen.HsmsGuards.ownDisconnectedListeners = []
    ∧ Gen.HsmsGuards.closedHooks = ["TcpClientConnection", "TcpServerConnection"] := by decide

/-- … and such maximal runs exist from every state (the bound is not vacuous): the endpoint's own threads can always run to quiescence -/
theorem close_reachable (s : St) :
    ∃ ls s', (∀ l ∈ ls, l.internal = true) ∧ run .current s ls = some s' ∧ quiescent .current s' = true :=
  exists_maximal_run (mu s) s (Nat.le_refl _)

/-- a 7-byte cut of a Linktest.req: the frame the witnesses below use -/
def cut7 : Bytes := [0, 0, 0, 10, 0xFF, 0xFF, 0]
def linktest : Bytes := [0, 0, 0, 10, 0xFF, 0xFF, 0, 0, 0, 5, 0, 0, 0, 7]

/-- non-vacuity of `never_wedged`/`close_completes`: connect, 7 of 14 bytes of a Linktest.req, the receiver thread runs the loop and goes
back to waiting, the peer closes — a reachable state inside the close sequence; running the threads to quiescence finishes it in 14 steps -/
def cutThenClose : List Lbl := [.connect, .chunk cut7, .prx true, .prx true, .prx true, .prx true, .prx true, .close]
def closeSteps : List Lbl :=
  [.tcp, .prx true, .prx true, .prx true, .prx true, .prx true, .prx true, .tcp, .tcp, .prx true, .prx true, .tcp, .tcp]

example : ∃ s, run .current St.init cutThenClose = some s ∧ s.tcp = .sepEnq ∧ s.buf = cut7 ∧ s.prx = .idle := by
  refine ⟨_, rfl, ?_⟩; decide +kernel
/-- … and it is `Reachable` in the sense of the theorems, with the close sequence begun -/
example : ∃ s, Reachable s ∧ s.tcp.closing = true ∧ s.rxErr = false ∧ s.tcp ≠ .done :=
  ⟨_, ⟨cutThenClose, rfl⟩, by decide +kernel, by decide +kernel, by decide +kernel⟩
example : ∃ s s', run .current St.init cutThenClose = some s ∧ run .current s closeSteps = some s' ∧ quiescent .current s' = true
    ∧ s'.tcp = .done ∧ s'.conn = false ∧ s'.buf = [] ∧ s'.prx = .exited ∧ closeSteps.length ≤ mu s := by
  refine ⟨_, _, rfl, rfl, ?_⟩; decide +kernel

/-- **regression witness for the repaired defect** (F-12, `fixed:` 725a0b2): with the blocking read of the receive loop
(`Variant.blockingRead`), the same history — 7 of 14 bytes of a Linktest.req, then peer close — reaches a *wedged* state: the connection thread
waits for its Separate.req, the receiver thread sits in `wait_for`, nothing can move.  The model tells the two loops apart. -/
theorem blocking_read_wedges :
    ∃ s, run .blockingRead St.init [.connect, .chunk cut7, .prx true, .prx true, .prx true, .prx true, .close, .tcp] = some s
      ∧ s.prx = .blockedRead ∧ s.tcp = .sepWait ∧ wedged .blockingRead s = true := by
  refine ⟨_, rfl, ?_⟩; decide +kernel

/-! ## selects again -/

/-- the active entity's Select procedure, as far as "selects again" needs it: does a connect start it?  `guardIsActiveOnly`: the condition
in `_on_state_connect` is `self._settings.is_active` and nothing else; `earlierAlive`: a Select thread of an earlier connection is still
waiting for its T6 -/
def selectStarts (guardIsActiveOnly active earlierAlive : Bool) : Bool :=
  if guardIsActiveOnly then active else active && !earlierAlive

/-- **Every connect of an active endpoint starts the Select procedure** — also when the Select transaction of the previous connection is
still open (link lost before the Select.rsp, reconnect before T6): the condition extracted from `HsmsProtocol._on_state_connect` is
exactly `self._settings.is_active`.  (`Model.Wedge`'s `connect` step has no "select thread alive" memory for this reason.) -/
theorem select_on_every_connect :
    Gen.HsmsGuards.selectGuard = "self._settings.is_active"
    ∧ ∀ earlierAlive, selectStarts (Gen.HsmsGuards.selectGuard == "self._settings.is_active") true earlierAlive = true := by
  decide

/-- the hypothesis is not idle: with a guard that also looks at an earlier Select thread, a reconnect inside T6 starts nothing -/
example : selectStarts false true true = false := by decide

/-! ## no stale bytes -/

/-- **No stale received bytes, at thread level** (the receive direction of "carries no stale bytes into the next connection"; the send
direction is refuted by `stale_reply_into_next_connection`, the one open finding).  In every reachable state of a connection on which no frame was dropped by a decode exception:
the blocks delivered since the connect, followed by what the loop would still deliver from the buffer, are exactly what one run of the
receive loop makes of the bytes received *on this connection* — nothing left over from an earlier connection takes part, whatever the
earlier connections received, wherever they were cut, and however the threads interleaved. -/
theorem no_stale_received_bytes (s : St) (h : Reachable s) (hc : s.tcp ≠ .done) (he : s.rxErr = false) :
    s.delivered.drop s.mark ++ (extract s.buf).frames = (extract s.fed).frames
    ∧ (extract s.buf).rest = (extract s.fed).rest := by
  have := (ghost_reachable s h).2 hc he
  rw [this]; exact ⟨rfl, rfl⟩

/-- … in particular, when the bytes received on the new connection are the stream of valid blocks `bs`, then what has been delivered on it
plus what is still to be delivered is exactly `bs` (C04's `extract` of the new stream only) -/
theorem no_stale_received_bytes_valid (s : St) (h : Reachable s) (hc : s.tcp ≠ .done) (he : s.rxErr = false)
    (bs : List Block) (hv : ∀ b ∈ bs, Valid b) (hf : s.fed = wire bs) :
    s.delivered.drop s.mark ++ (extract s.buf).frames = bs := by
  have := (no_stale_received_bytes s h hc he).1
  rw [hf, extract_wire_nil bs hv] at this
  exact this

/-- after the close sequence the receive buffer is empty and the endpoint reports NOT CONNECTED, in every reachable state -/
theorem closed_is_clean (s : St) (h : Reachable s) (hd : s.tcp = .done) : s.buf = [] ∧ s.conn = false ∧ s.prx.alive = false :=
  ⟨(inv_reachable s h).doneBuf hd, ((inv_reachable s h).cleared (Or.inr hd)).2, ((inv_reachable s h).cleared (Or.inr hd)).1⟩

/-- the same at the level of `Model.Rx` (sequential composition with C04): clear the buffer, then any segmentation of a stream of valid
blocks delivers exactly those blocks after whatever had been delivered before -/
theorem reconnect_segmentation (s : Rx) (bs : List Block) (hv : ∀ b ∈ bs, Valid b) (chunks : List Bytes) (hc : chunks.flatten = wire bs) :
    chunks.foldl feed s.disconnect = ⟨[], s.delivered ++ bs, s.aborts⟩ := by
  have hw := extract_wire_nil bs hv
  have := foldl_feed chunks s.disconnect settled_nil (by simp only [Rx.disconnect, List.nil_append, hc, hw])
  simpa [Rx.disconnect, hc, hw] using this

/-- non-vacuity: cut inside a Linktest.req, close, reconnect, a complete Linktest.req: exactly one block is delivered on the second
connection and the buffer ends empty (with the stale 7 bytes it would have been a 17-byte garbage frame) -/
example : ∃ s, run .current St.init (cutThenClose ++ closeSteps ++ [.connect, .chunk linktest, .prx true, .prx true, .prx true, .prx true, .prx true, .prx true])
      = some s ∧ s.delivered.length = 1 ∧ s.mark = 0 ∧ s.buf = [] ∧ s.rxErr = false ∧ s.prx = .idle := by
  refine ⟨_, rfl, ?_⟩; decide +kernel

/-! ## what the model showed beyond the brief -/

/-- the schedule of the repaired send-queue defect: a Linktest.req is answered by the dispatcher and the peer's close is noticed before the
receiver thread wakes up (reply and Separate.req queued under ONE trigger); then the reply's `send_data` fails -/
def sendFails : List Lbl :=
  [.connect, .chunk linktest, .prx true, .prx true, .prx true, .prx true, .prx true, .prx true,
   .disp true, .disp true, .close, .tcp, .prx true, .prx true, .prx false]

/-- **regression witness for the repaired defect** (`fixed:` 8ac2aeb, found by this model): with the send loop that *returned* after a failed
block (`Variant.returningSendLoop`) the receiver thread goes back to waiting with the Separate.req still queued and the trigger clear; the
connection thread waits for it for ever — wedged.  With the loop that exists the same history runs on and the close sequence finishes. -/
theorem send_failure_strands_separate :
    (∃ s, run .returningSendLoop St.init (sendFails ++ [.prx true, .prx true, .disp true, .disp true]) = some s
      ∧ s.tcp = .sepWait ∧ s.sendQ = [.sep] ∧ s.prx = .idle ∧ s.rxTrig = false ∧ wedged .returningSendLoop s = true)
    ∧ (∃ s, run .current St.init (sendFails ++ [.prx true, .prx true, .prx true, .prx true, .tcp, .tcp, .prx true, .prx true, .tcp, .tcp,
          .disp true, .disp true]) = some s
      ∧ s.tcp = .done ∧ s.conn = false ∧ s.buf = [] ∧ s.prx = .exited ∧ s.sendQ = [] ∧ quiescent .current s = true) := by
  refine ⟨⟨_, rfl, ?_⟩, ⟨_, rfl, ?_⟩⟩ <;> decide +kernel

/-- **regression witness (`c09-relisten-overlaps-teardown`, fixed 814c548): a connection accepted while the previous one is still being torn
down is killed by that teardown.**  (Before the repair the listener was restarted by an `on_disconnected` listener that ran first.)  The peer closes; the old connection's thread has sent its Separate.req and stands before
`HsmsProtocol._on_disconnected`; the restarted listener accepts a new peer and `_on_connected` runs (`connectEarly`); then the old thread
goes on: `connection_state.disconnect()`, `ProtocolDispatcher.stop()` — which finds a live receiver thread (the NEW one), stops and joins
it — `_receive_buffer.clear()`.  The endpoint's threads come to rest NOT CONNECTED with the receiver thread stopped, although nobody closed
the new connection (nothing was received or sent on it: `fed = []`, `out = []`). -/
theorem overlapping_connect_kills_new_connection :
    ∃ s0 s1 s2, run .current St.init [.connect, .close, .tcp, .prx true, .prx true, .prx true, .prx true, .prx true, .tcp] = some s0
      ∧ s0.tcp = .discon
      ∧ connectEarly s0 = some s1 ∧ s1.conn = true ∧ s1.prx = .idle
      ∧ run .current s1 [.tcp, .prx true, .prx true, .tcp, .tcp] = some s2
      ∧ quiescent .current s2 = true ∧ s2.conn = false ∧ s2.prx = .exited ∧ s2.fed = [] ∧ s2.out = [] := by
  refine ⟨_, _, _, rfl, ?_, rfl, ?_, ?_, rfl, ?_⟩ <;> decide +kernel

/-- **witness (OPEN finding `c09-stale-reply-next-connection`): a reply queued after the receiver thread has been stopped is carried into the
next connection.**  The dispatcher thread is
never stopped (F-8); a block still in the dispatch queue when the close sequence runs is handled afterwards, its handler queues the answer
and waits — until the next connection's receiver thread sends the stale answer as the first thing on the new connection. -/
theorem stale_reply_into_next_connection :
    ∃ s, run .current St.init ([.connect, .chunk linktest, .prx true, .prx true, .prx true, .prx true, .prx true, .prx true, .close] ++ closeSteps
        ++ [.disp true, .disp true]) = some s
      ∧ s.tcp = .done ∧ s.disp = .waitReply ∧ s.sendQ = [.reply] ∧ quiescent .current s = true
      ∧ ∃ s', run .current s [.connect, .prx true, .prx true, .prx true] = some s' ∧ s'.out = [.reply] ∧ s'.fed = [] := by
  refine ⟨_, rfl, ?_, ?_, ?_, ?_, _, rfl, ?_⟩ <;> decide +kernel

/-! ## the stop-flag handshakes of the TCP connection classes

The code that exists is `fixed = true` (repair 1a14b53).  First the claimed theorems for it, then the regression witnesses for the handshake
before the repair (F-13, `fixed:` `c09-tcp-disable-hang`, `c09-tcp-server-idle-disable-hang`). -/

open SecsModel.Model.TcpStop in
/-- **regression witness, client, before the repair** (`TcpClientConnection`): `enable()`; the connect thread connects and is running the `on_connected` listeners when
`disable()` is called: `disable()` sets `stop_connection_thread` (the thread is alive) and waits for the thread to reset it; the thread
returns from `__connect` and ends without looking at the flag.  `disable()` is stuck. -/
theorem client_disable_hang :
    ∃ s, Client.run false Client.St.init [.thr true, .thr true, .thr true, .app, .app, .app, .thr true] = some s
      ∧ s.thr = .dead ∧ s.rcv = .run ∧ Client.stuck s = true := by
  refine ⟨_, rfl, ?_⟩; decide +kernel

open SecsModel.Model.TcpStop in
/-- … and stuck is for ever: no step of any thread, and no peer behaviour, leads out of a stuck state -/
theorem client_stuck_forever (s s' : Client.St) (ls : List Client.Lbl) (h : Client.stuck s = true)
    (hr : Client.run false s ls = some s') : Client.stuck s' = true ∧ s'.app = .spin := by
  have one : ∀ (a b : Client.St) (l : Client.Lbl), Client.stuck a = true → Client.step false a l = some b → Client.stuck b = true := by
    intro a b l ha hs
    obtain ⟨en, fl, fi, sr, ap, th, rc⟩ := a
    simp only [Client.stuck, Bool.and_eq_true, decide_eq_true_eq, Bool.not_eq_true'] at ha
    obtain ⟨⟨⟨h1, h2⟩, h3⟩, h4⟩ := ha
    subst h1 h2 h4
    cases th <;> (try (simp [Client.ThrPc.isAlive] at h3; done))
    cases l with
    | app => simp [Client.step] at hs
    | thr ok => simp [Client.step] at hs
    | rcv =>
      cases rc <;> simp [Client.step] at hs
      · obtain ⟨_, hb⟩ := hs; subst hb; rfl
      · subst hs; rfl
    | peerClose =>
      simp only [Client.step] at hs
      split at hs
      · cases hs; rfl
      · cases hs
  induction ls generalizing s with
  | nil =>
    simp [Client.run] at hr; subst hr
    refine ⟨h, ?_⟩
    simp only [Client.stuck, Bool.and_eq_true, decide_eq_true_eq] at h
    exact h.1.1.1
  | cons l ls ih =>
    simp only [Client.run] at hr
    cases hs : Client.step false s l with
    | none => rw [hs] at hr; cases hr
    | some s1 => rw [hs] at hr; exact ih s1 (one s s1 l h hs) hr

open SecsModel.Model.TcpStop in
/-- **regression witness, server, before the repair** (`TcpServerConnection`): a peer connects, the server thread accepts and is running the `on_connected` listeners when
`disable()` is called: `disable()` sets `_stop_server_thread`, closes the listening socket and waits; the thread goes on to
`shutdown()`/`close()` of the (already closed) socket and ends — the flag is never reset.  `disable()` is stuck. -/
theorem server_disable_hang :
    ∃ s, Server.run false Server.St.init [.thr true, .thr true, .thr true, .thr true, .thr true, .app, .app, .app, .thr true, .thr true] = some s
      ∧ s.thr = .dead ∧ s.rcv = .run ∧ Server.stuck s = true := by
  refine ⟨_, rfl, ?_⟩; decide +kernel

open SecsModel.Model.TcpStop in
/-- **regression witness, server, second window, before the repair**: `disable()` right after `enable()`, between the first test of the stop flag and the first `select`:
`select` on the closed socket raises, the exception is logged, `select_result` is unbound, the thread dies with `UnboundLocalError` -/
theorem server_disable_hang_first_select :
    ∃ s, Server.run false Server.St.init [.thr true, .thr true, .app, .app, .app, .thr false] = some s
      ∧ s.thr = .dead ∧ s.rcv = .off ∧ Server.stuck s = true := by
  refine ⟨_, rfl, ?_⟩; decide +kernel

open SecsModel.Model.TcpStop in
/-- **regression witness, server, idle, before the repair** (no peer at all): `enable()`, the server thread waits in `select`; `disable()` sets the flag and closes the
listening socket; the `select` returns the closed socket as readable, `accept()` raises `EBADF`, the thread dies — the flag is never reset -/
theorem server_disable_hang_idle :
    ∃ s, Server.run false Server.St.init [.thr true, .thr true, .app, .app, .app, .thr true, .thr true] = some s
      ∧ s.thr = .dead ∧ s.rcv = .off ∧ Server.stuck s = true := by
  refine ⟨_, rfl, ?_⟩; decide +kernel

open SecsModel.Model.TcpStop in
theorem server_stuck_forever (s s' : Server.St) (ls : List Server.Lbl) (h : Server.stuck s = true)
    (hr : Server.run false s ls = some s') : Server.stuck s' = true ∧ s'.app = .spin := by
  have one : ∀ (a b : Server.St) (l : Server.Lbl), Server.stuck a = true → Server.step false a l = some b → Server.stuck b = true := by
    intro a b l ha hs
    obtain ⟨en, fl, so, se, sr, ap, th, rc⟩ := a
    simp only [Server.stuck, Bool.and_eq_true, decide_eq_true_eq, Bool.not_eq_true'] at ha
    obtain ⟨⟨⟨h1, h2⟩, h3⟩, h4⟩ := ha
    subst h1 h2 h4
    cases th <;> (try (simp [Server.ThrPc.isAlive] at h3; done))
    cases l with
    | app => simp [Server.step] at hs
    | thr ok => simp [Server.step] at hs
    | rcv =>
      cases rc <;> simp [Server.step] at hs
      · obtain ⟨_, hb⟩ := hs; subst hb; rfl
      · subst hs; rfl
    | peerClose =>
      simp only [Server.step] at hs
      split at hs
      · cases hs; rfl
      · cases hs
  induction ls generalizing s with
  | nil =>
    simp [Server.run] at hr; subst hr
    refine ⟨h, ?_⟩
    simp only [Server.stuck, Bool.and_eq_true, decide_eq_true_eq] at h
    exact h.1.1.1
  | cons l ls ih =>
    simp only [Server.run] at hr
    cases hs : Server.step false s l with
    | none => rw [hs] at hr; cases hr
    | some s1 => rw [hs] at hr; exact ih s1 (one s s1 l h hs) hr

/-! ### the handshakes that exist -/

namespace Handshake
open SecsModel.Model.TcpStop

def cSucc (s : Client.St) : List Client.St := Client.labels.filterMap (Client.step true s)
def cReach : List Client.St := closure cSucc 64 [Client.St.init] [Client.St.init]
/-- the application thread is inside `disable()` and no thread can take a step -/
def cHung (s : Client.St) : Bool :=
  s.app != .returned && [Client.Lbl.app, .thr true, .thr false, .rcv].all (fun l => (Client.step true s l).isNone)

def sSucc (s : Server.St) : List Server.St := Server.labels.filterMap (Server.step true s)
def sReach : List Server.St := closure sSucc 64 [Server.St.init] [Server.St.init]
def sHung (s : Server.St) : Bool :=
  s.app != .returned && [Server.Lbl.app, .thr true, .thr false, .rcv].all (fun l => (Server.step true s l).isNone)

/-- ranks of the awaited threads: every step of the connect/server thread while `disable()` waits for it, and every step of the receiver
thread while `disconnect()` waits for it, decreases them -/
def cRank (s : Client.St) : Nat :=
  (match s.thr with | .start => 8 | .connect => 7 | .up => 6 | .listen => 3 | .idle _ => 1 | .dead => 0)
  + (match s.rcv with | .run => 2 | .closing => 1 | .off => 0)
def sRank (s : Server.St) : Nat :=
  (match s.thr with | .bind => 10 | .select => 9 | .accept => 7 | .up => 6 | .listen => 3 | .shutdown => 2 | .loop => 1 | .dead => 0)
  + (match s.rcv with | .run => 2 | .closing => 1 | .off => 0)

end Handshake

open SecsModel.Model.TcpStop Handshake in
/-- **`TcpClientConnection.disable()` returns** (under weak fairness): the listed states are closed under every step of every thread and of
the peer (so they contain every reachable state, whenever `disable()` is called — also inside the `on_connected` window), none of them is
hung (the application thread inside `disable()` with no thread able to move), and while `disable()` waits (`spin` for the connect thread,
`discWait` for the receiver thread) every step of the awaited thread decreases its rank. -/
theorem client_disable_returns :
    Client.St.init ∈ cReach
    ∧ (∀ s ∈ cReach, ∀ l ∈ Client.labels, ∀ s', Client.step true s l = some s' → s' ∈ cReach)
    ∧ (∀ s ∈ cReach, cHung s = false)
    ∧ (∀ s ∈ cReach, s.app = .spin → Client.step true s .app = none → ∀ ok s', Client.step true s (.thr ok) = some s' → cRank s' < cRank s)
    ∧ (∀ s ∈ cReach, s.app = .discWait → ∀ s', Client.step true s .rcv = some s' → cRank s' < cRank s) := by
  decide +kernel

open SecsModel.Model.TcpStop Handshake in
/-- **`TcpServerConnection.disable()` returns** (under weak fairness): same statement; the reachable states include `disable()` with no peer
(listening socket closed under `select`), inside the `on_connected` window and before the first `select` -/
theorem server_disable_returns :
    Server.St.init ∈ sReach
    ∧ (∀ s ∈ sReach, ∀ l ∈ Server.labels, ∀ s', Server.step true s l = some s' → s' ∈ sReach)
    ∧ (∀ s ∈ sReach, sHung s = false)
    ∧ (∀ s ∈ sReach, s.app = .spin → Server.step true s .app = none → ∀ ok s', Server.step true s (.thr ok) = some s' → sRank s' < sRank s)
    ∧ (∀ s ∈ sReach, s.app = .discWait → ∀ s', Server.step true s .rcv = some s' → sRank s' < sRank s) := by
  decide +kernel

end SecsModel.Props.C09
