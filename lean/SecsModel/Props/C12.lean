import SecsModel.Model.GemEv
import SecsModel.Spec.EventReports
import SecsModel.Proofs.GemEv
/-!
# C12 — Event-report configuration stays consistent and transactional under any history

Only property theorems, non-vacuity examples and witnesses live here.  `Model.Gem.Ev` is the hand model of
`collection_event_capability.py`; `Spec.EventReports` is the declarative E5 effect.
-/
namespace SecsModel.Props.C12
open SecsModel SecsModel.Model.Gem SecsModel.Model.Gem.Ev SecsModel.Spec.EventReports
open SecsModel.Proofs.Gem SecsModel.Proofs.Gem.Ev

/-! ## refused ⇒ nothing changes; accepted ⇒ exactly the E5 effect -/

/-- **S2F33 refused (DRACK ≠ 0) or aborted ⇒ the whole state is unchanged.** -/
theorem s2f33_refused_unchanged (cfg : Cfg) (s : St) (data : List RptReq) (h : (s2f33 cfg s data).2 ≠ .code 0) :
    (s2f33 cfg s data).1 = s := by
  unfold s2f33 at h ⊢
  cases hp : pre33 cfg s.conf 0 data with
  | error e => rfl
  | ok drack =>
    simp only [hp] at h ⊢
    by_cases h0 : drack = 0
    · subst h0
      exfalso
      simp only [ne_eq, not_true_eq_false, if_false] at h
      split at h <;> exact h rfl
    · simp [h0]

/-- **S2F35 refused (LRACK ≠ 0) or aborted ⇒ the whole state is unchanged.** -/
theorem s2f35_refused_unchanged (cfg : Cfg) (s : St) (data : List LinkReq) (h : (s2f35 cfg s data).2 ≠ .code 0) :
    (s2f35 cfg s data).1 = s := by
  unfold s2f35 at h ⊢
  cases hp : pre35 cfg s.conf 0 data with
  | error e => rfl
  | ok lrack =>
    simp only [hp] at h ⊢
    by_cases h0 : lrack = 0
    · subst h0
      exfalso
      simp only [ne_eq, not_true_eq_false, if_false] at h
    · simp [h0]

/-- **S2F33 accepted ⇒ exactly the declarative effect** (delete-all, delete-one with unlinking everywhere, define), and
nothing but the configuration changes. -/
theorem s2f33_accepted_effect (cfg : Cfg) (s : St) (data : List RptReq) (h : (s2f33 cfg s data).2 = .code 0) :
    (s2f33 cfg s data).1 = { s with conf := s2f33Effect s.conf data } := by
  unfold s2f33 at h ⊢
  cases hp : pre33 cfg s.conf 0 data with
  | error e => simp only [hp] at h; cases h
  | ok drack =>
    simp only [hp] at h ⊢
    by_cases h0 : drack = 0
    · subst h0
      simp only [ne_eq, not_true_eq_false, if_false]
      unfold s2f33Effect
      by_cases hd : data = []
      · subst hd; rfl
      · have : data.isEmpty = false := by
          cases hh : data with
          | nil => exact absurd hh hd
          | cons a t => rfl
        simp only [this, hd, if_false, foldl_apply33, Bool.false_eq_true]
    · simp only [ne_eq, h0, not_false_eq_true, if_true] at h
      cases h; exact absurd rfl h0

theorem s2f35_accepted_effect (cfg : Cfg) (s : St) (data : List LinkReq) (h : (s2f35 cfg s data).2 = .code 0) :
    (s2f35 cfg s data).1 = { s with conf := s2f35Effect s.conf data } := by
  unfold s2f35 at h ⊢
  cases hp : pre35 cfg s.conf 0 data with
  | error e => simp only [hp] at h; cases h
  | ok lrack =>
    simp only [hp] at h ⊢
    by_cases h0 : lrack = 0
    · subst h0
      simp only [ne_eq, not_true_eq_false, if_false, s2f35Effect, foldl_apply35]
    · simp only [ne_eq, h0, not_false_eq_true, if_true] at h
      cases h; exact absurd rfl h0

/-- **DRACK codes.**  0 only when no entry re-defines an existing report and every VID exists; 3 only when some entry
re-defines an existing report; 4 only when some VID is unknown; no other code. -/
theorem drack_codes (cfg : Cfg) (s : St) (data : List RptReq) (n : Nat) (h : (s2f33 cfg s data).2 = .code n) :
    (n = 0 ∧ ∀ r ∈ data, ¬ redefines s.conf r ∧ ¬ unknownVid cfg.known r)
    ∨ (n = 3 ∧ ∃ r ∈ data, redefines s.conf r)
    ∨ (n = 4 ∧ ∃ r ∈ data, unknownVid cfg.known r) := by
  unfold s2f33 at h
  split at h
  · cases h
  · rename_i drack hp
    have hn : drack = n := by
      split at h
      · cases h; rfl
      · rename_i h0
        have : drack = 0 := by simpa using h0
        split at h <;> (cases h; exact this)
    subst hn
    rcases pre33_code cfg s.conf data 0 drack hp with hc | hc | hc
    · refine Or.inl ⟨hc, ?_⟩
      intro r hr
      have hz := (pre33_zero cfg s.conf data 0 drack hp hc).2 r hr
      constructor
      · rintro ⟨hne, hmem⟩
        have h1 : s.conf.reports.contains r.rptid = true := AList.contains_iff.mpr hmem
        have h2 : r.vids.isEmpty = false := by
          cases hh : r.vids with
          | nil => exact absurd hh hne
          | cons a t => rfl
        simp [h1, h2] at hz
      · rintro ⟨v, hv, hk⟩
        have := hz.2 v hv
        simp [hk] at this
    · exact Or.inr (Or.inl hc)
    · exact Or.inr (Or.inr hc)

/-- **LRACK codes.** -/
theorem lrack_codes (cfg : Cfg) (s : St) (data : List LinkReq) (n : Nat) (h : (s2f35 cfg s data).2 = .code n) :
    (n = 0 ∧ ∀ e ∈ data, ¬ unknownCeid cfg.ceids e ∧ ¬ unknownRptid s.conf e)
    ∨ (n = 3 ∧ ∃ e ∈ data, alreadyLinked s.conf e)
    ∨ (n = 4 ∧ ∃ e ∈ data, unknownCeid cfg.ceids e)
    ∨ (n = 5 ∧ ∃ e ∈ data, unknownRptid s.conf e) := by
  unfold s2f35 at h
  split at h
  · cases h
  · rename_i lrack hp
    have hn : lrack = n := by
      split at h
      · cases h; rfl
      · rename_i h0
        have : lrack = 0 := by simpa using h0
        cases h; exact this
    subst hn
    rcases pre35_code cfg s.conf data 0 lrack hp with hc | hc | hc | hc
    · refine Or.inl ⟨hc, ?_⟩
      intro e he
      have hz := (pre35_zero cfg s.conf data 0 lrack hp hc).2 e he
      constructor
      · intro hu; exact hu hz.1
      · rintro ⟨r, hr, hk⟩
        exact hk (AList.contains_iff.mp (hz.2.2 r hr).1)
    · exact Or.inr (Or.inl hc)
    · exact Or.inr (Or.inr (Or.inl hc))
    · exact Or.inr (Or.inr (Or.inr hc))

/-! ## the invariant, for every history -/

theorem step_inv (cfg : Cfg) (s : St) (op : Op) (h : Inv cfg s) : Inv cfg (step cfg s op).1 := by
  cases op with
  | s2f33 data =>
    simp only [step]
    by_cases ha : (s2f33 cfg s data).2 = .code 0
    · rw [s2f33_accepted_effect cfg s data ha]
      unfold s2f33Effect
      by_cases hd : data = []
      · simp only [hd, if_true, deleteAll]
        exact ⟨by intro e he; simp at he, by intro e he; simp at he⟩
      · simp only [hd, if_false]
        have hk : ∀ r ∈ data, ∀ v ∈ r.vids, cfg.known v = true := by
          unfold s2f33 at ha
          split at ha
          · cases ha
          · rename_i drack hp
            have h0 : drack = 0 := by
              split at ha
              · rename_i hne; cases ha; exact absurd rfl hne
              · rename_i hne; simpa using hne
            intro r hr
            exact ((pre33_zero cfg s.conf data 0 drack hp h0).2 r hr).2
        exact inv_foldl33 cfg data s.conf h.1 h.2 hk
    · rw [s2f33_refused_unchanged cfg s data ha]; exact h
  | s2f35 data =>
    simp only [step]
    by_cases ha : (s2f35 cfg s data).2 = .code 0
    · rw [s2f35_accepted_effect cfg s data ha]
      have hk : ∀ e ∈ data, ∀ r ∈ e.rptids, r ∈ s.conf.reports.keys := by
        unfold s2f35 at ha
        split at ha
        · cases ha
        · rename_i lrack hp
          have h0 : lrack = 0 := by
            split at ha
            · rename_i hne; cases ha; exact absurd rfl hne
            · rename_i hne; simpa using hne
          intro e he r hr
          exact AList.contains_iff.mp (((pre35_zero cfg s.conf data 0 lrack hp h0).2 e he).2.2 r hr).1
      exact inv_foldl35 cfg data s.conf h.1 h.2 hk
    · rw [s2f35_refused_unchanged cfg s data ha]; exact h
  | s2f37 ceed cs =>
    simp only [step, s2f37]
    split
    · refine ⟨integrity_of_same_lists h.1 _ ?_, h.2⟩
      intro e' he'
      simp only [List.mem_map] at he'
      obtain ⟨e, he, hf⟩ := he'
      exact ⟨e, he, by subst hf; rfl⟩
    · exact ⟨integrity_of_same_lists h.1 _ (setCeLoop_lists ceed cs s.conf.links true), h.2⟩
  | s6f15 c => exact h
  | trigger cs => exact h
  | setSv v x => exact h
  | setDv v x => exact h

theorem run_inv (cfg : Cfg) : ∀ (ops : List Op) (s : St), Inv cfg s → Inv cfg (run cfg s ops)
  | [], _, h => h
  | op :: ops, s, h => run_inv cfg ops _ (step_inv cfg s op h)

theorem init_inv (cfg : Cfg) : Inv cfg St.init :=
  ⟨by intro e he; simp [St.init] at he, by intro e he; simp [St.init] at he⟩

/-- **Referential integrity after every history** (S2F33, S2F35, S2F37, S6F15, triggers, value updates in any order, with
any ids — duplicates, unknown, multi-valued, empty lists): every report linked to a collection event is defined, and
every variable of a defined report exists. -/
theorem integrity (cfg : Cfg) (ops : List Op) :
    Integrity (run cfg St.init ops).conf ∧ VidsKnown cfg (run cfg St.init ops).conf :=
  run_inv cfg ops St.init (init_inv cfg)

/-! ## well-formed event reports -/

/-- what the property demands of the report list of an event linked to `rs`: exactly the linked reports, in link order, each
carrying exactly the current values of its variables in definition order -/
def WellFormed (cfg : Cfg) (s : St) (rs : List Id) (rpts : List (Id × List Val)) : Prop :=
  Forall2 (fun r p => p.1 = r ∧ ∃ vars, s.conf.reports.lookup r = some vars ∧
    Forall2 (fun v x => value? cfg s v = some x) vars p.2) rs rpts

theorem value_of_known (cfg : Cfg) (s : St) (v : Id) (h : cfg.known v = true) : ∃ x, value? cfg s v = some x := by
  unfold value?
  cases hf : cfg.svs.find? (fun e => e.1 = v) with
  | some p => obtain ⟨i, src⟩ := p; cases src <;> exact ⟨_, rfl⟩
  | none =>
    have hs : cfg.isSv v = false := by
      unfold Cfg.isSv
      rw [List.any_eq_false]
      intro x hx
      have := List.find?_eq_none.mp hf x hx
      simpa using this
    have hd : cfg.isDv v = true := by simpa [Cfg.known, hs] using h
    simp [hd]

theorem filterMap_forall2 {α β : Type} (f : α → Option β) : ∀ (l : List α), (∀ a ∈ l, ∃ b, f a = some b) →
    Forall2 (fun a b => f a = some b) l (l.filterMap f)
  | [], _ => Forall2.nil
  | a :: t, h => by
    obtain ⟨b, hb⟩ := h a List.mem_cons_self
    rw [List.filterMap_cons_some hb]
    exact Forall2.cons hb (filterMap_forall2 f t (fun x hx => h x (List.mem_cons_of_mem _ hx)))

theorem build_ok (cfg : Cfg) (s : St) (hv : VidsKnown cfg s.conf) : ∀ (rs : List Id), (∀ r ∈ rs, r ∈ s.conf.reports.keys) →
    ∃ rpts, buildReports cfg s rs = .ok rpts ∧ WellFormed cfg s rs rpts
  | [], _ => ⟨[], rfl, Forall2.nil⟩
  | r :: rs, h => by
    obtain ⟨vars, hl⟩ := AList.exists_of_mem_keys (h r List.mem_cons_self)
    obtain ⟨rest, hr, hw⟩ := build_ok cfg s hv rs (fun x hx => h x (List.mem_cons_of_mem _ hx))
    refine ⟨(r, vars.filterMap (value? cfg s)) :: rest, by simp [buildReports, hl, hr], ?_⟩
    refine Forall2.cons ⟨rfl, vars, hl, ?_⟩ hw
    apply filterMap_forall2
    intro v hvm
    exact value_of_known cfg s v (hv _ (AList.lookup_some_mem hl) v hvm)

/-- **S6F15 after any history.**  For a single-valued CEID the answer is always an S6F16 (never an abort) echoing the CEID;
when the event is linked and enabled it contains exactly the linked reports in link order with the current values of their
variables; otherwise the report list is empty. -/
theorem s6f15_wellformed (cfg : Cfg) (ops : List Op) (c : Id) (hc : c.scalar = true) :
    (∀ rs, (run cfg St.init ops).conf.links.lookup c = some (rs, true) →
        ∃ rpts, s6f15 cfg (run cfg St.init ops) c = .report c rpts ∧ WellFormed cfg (run cfg St.init ops) rs rpts)
    ∧ ((∀ rs, (run cfg St.init ops).conf.links.lookup c ≠ some (rs, true)) →
        s6f15 cfg (run cfg St.init ops) c = .report c []) := by
  have hinv := integrity cfg ops
  generalize run cfg St.init ops = s at hinv ⊢
  constructor
  · intro rs hl
    obtain ⟨rpts, hb, hw⟩ := build_ok cfg s hinv.2 rs (hinv.1 _ (AList.lookup_some_mem hl))
    exact ⟨rpts, by simp [s6f15, hc, hl, hb], hw⟩
  · intro hn
    unfold s6f15
    rw [if_pos hc]
    split
    · rename_i rs hl; exact absurd hl (hn rs)
    · rfl

/-- **Trigger after any history, any list of CEIDs** (repeats, unknown, unlinked and disabled ones in any position): the
sender never dies, and it sends exactly one S6F11 per linked-and-enabled CEID of the list, in list order, each carrying
exactly the linked reports in link order with the current values; the other CEIDs send nothing and do not stop the loop. -/
theorem trigger_ok (cfg : Cfg) (s : St) (hinv : Inv cfg s) (cs : List Id) :
    ∃ sent, trigger cfg s cs = (sent, false) ∧
      Forall2 (fun c m => m.1 = c ∧ ∃ rs, s.conf.links.lookup c = some (rs, true) ∧ WellFormed cfg s rs m.2)
        (cs.filter (reportable s)) sent := by
  induction cs with
  | nil => exact ⟨[], rfl, Forall2.nil⟩
  | cons c cs ih =>
    obtain ⟨sent, hs, hf⟩ := ih
    cases hl : s.conf.links.lookup c with
    | none =>
      have hr : reportable s c = false := by simp [reportable, hl]
      exact ⟨sent, by simp [trigger, hl, hs], by simpa [List.filter_cons, hr] using hf⟩
    | some p =>
      obtain ⟨rs, en⟩ := p
      cases en with
      | false =>
        have hr : reportable s c = false := by simp [reportable, hl]
        exact ⟨sent, by simp [trigger, hl, hs], by simpa [List.filter_cons, hr] using hf⟩
      | true =>
        have hr : reportable s c = true := by simp [reportable, hl]
        obtain ⟨rpts, hb, hw⟩ := build_ok cfg s hinv.2 rs (hinv.1 _ (AList.lookup_some_mem hl))
        refine ⟨(c, rpts) :: sent, by simp [trigger, hl, hb, hs], ?_⟩
        rw [List.filter_cons, hr]
        exact Forall2.cons ⟨rfl, rs, hl, hw⟩ hf

theorem trigger_wellformed (cfg : Cfg) (ops : List Op) (cs : List Id) :
    ∃ sent, trigger cfg (run cfg St.init ops) cs = (sent, false) ∧
      Forall2 (fun c m => m.1 = c ∧ ∃ rs, (run cfg St.init ops).conf.links.lookup c = some (rs, true) ∧
          WellFormed cfg (run cfg St.init ops) rs m.2)
        (cs.filter (reportable (run cfg St.init ops))) sent :=
  trigger_ok cfg _ (integrity cfg ops) cs

/-! ## non-vacuity and the recorded witness -/

def cfg0 : Cfg := { ceids := [.nums [1], .text "ce"], svs := [(.nums [30], .cell), (.nums [1003], .eventsEnabled)], dvs := [.text "dv"] }

/-- the history of finding F-16 (define R1; link C1 ← [R1, R1]; enable; delete R1; S6F15 C1) on the repaired code:
the delete unlinks both occurrences and the CEID, S6F15 answers an empty well-formed report -/
def histF16 : List Op :=
  [.s2f33 [⟨.nums [1], [.nums [30]]⟩], .s2f35 [⟨.nums [1], [.nums [1], .nums [1]]⟩], .s2f37 true [.nums [1]],
   .s2f33 [⟨.nums [1], []⟩]]

example : (run cfg0 St.init histF16).conf = ⟨[], []⟩ := by decide +kernel
example : s6f15 cfg0 (run cfg0 St.init histF16) (.nums [1]) = .report (.nums [1]) [] := by decide +kernel

/-- a history whose S6F16 is not empty: the hypotheses of `s6f15_wellformed` (first part) are satisfiable -/
example : s6f15 cfg0 (run cfg0 St.init
    [.s2f33 [⟨.nums [1], [.nums [30], .nums [1003]]⟩, ⟨.text "r", [.text "dv"]⟩], .s2f35 [⟨.text "ce", [.text "r", .nums [1], .text "r"]⟩],
     .setSv (.nums [30]) (.nums [7]), .s2f37 true []]) (.text "ce")
    = .report (.text "ce") [(.text "r", [.nums [0]]), (.nums [1], [.nums [7], .ids [.text "ce"]]), (.text "r", [.nums [0]])] := by
  decide +kernel

/-- one trigger call with a disabled, an unknown and a repeated CEID around two enabled ones: both are sent, in order -/
example : trigger cfg0 (run cfg0 St.init
    [.s2f33 [⟨.nums [1], [.nums [30]]⟩], .s2f35 [⟨.text "ce", [.nums [1]]⟩, ⟨.nums [1], [.nums [1], .nums [1]]⟩], .s2f37 true [.text "ce"]])
    [.nums [1], .text "ce", .nums [9], .text "ce"]
    = ([(.text "ce", [(.nums [1], [.nums [0]])]), (.text "ce", [(.nums [1], [.nums [0]])])], false) := by decide +kernel

/-- refused requests exist for every code, and they are not aborts -/
example : (s2f33 cfg0 St.init [⟨.nums [1], [.nums [99]]⟩]).2 = .code 4 := by decide +kernel
example : (s2f33 cfg0 (run cfg0 St.init [.s2f33 [⟨.nums [1], [.nums [30]]⟩]]) [⟨.nums [1], [.nums [30]]⟩]).2 = .code 3 := by decide +kernel
example : (s2f35 cfg0 St.init [⟨.nums [1], [.nums [1]]⟩]).2 = .code 5 := by decide +kernel
example : (s2f35 cfg0 St.init [⟨.nums [9], []⟩]).2 = .code 4 := by decide +kernel
example : (s2f35 cfg0 (run cfg0 St.init [.s2f33 [⟨.nums [1], [.nums [30]]⟩], .s2f35 [⟨.nums [1], [.nums [1]]⟩]]) [⟨.nums [1], [.nums [1]]⟩]).2 = .code 3 := by
  decide +kernel
example : (s2f33 cfg0 St.init [⟨.nums [], [.nums [30]]⟩]).2 = .abort := by decide +kernel

/-- **Witness (why remove-all matters).**  With `list.remove` applied once — the code before the fix — the same history
leaves a dangling link: the invariant fails and S6F15 aborts.  `apply33Once` differs from `apply33` only there. -/
def unlinkOnce (r : Id) (e : Id × (List Id × Bool)) : Option (Id × (List Id × Bool)) :=
  if r ∈ e.2.1 then
    let rs' := e.2.1.erase r
    if rs'.isEmpty then none else some (e.1, (rs', e.2.2))
  else some e

def apply33Once (c : Config) (r : RptReq) : Config :=
  if r.vids.isEmpty then
    { links := c.links.filterMap (unlinkOnce r.rptid),
      reports := if c.reports.contains r.rptid then c.reports.erase r.rptid else c.reports }
  else { c with reports := c.reports.set r.rptid r.vids }

theorem witness_single_remove_dangles :
    let s := run cfg0 St.init (histF16.take 3)
    let s' : St := { s with conf := apply33Once s.conf ⟨.nums [1], []⟩ }
    ¬ Integrity s'.conf ∧ s6f15 cfg0 s' (.nums [1]) = .ack .abort := by
  refine ⟨?_, by decide +kernel⟩
  intro h
  have := h (.nums [1], ([.nums [1]], true)) (by decide +kernel) (.nums [1]) (by decide)
  revert this
  decide +kernel

end SecsModel.Props.C12
