import SecsModel.Proofs.SMBridge
/-!
# C18b — the table steps used by the HSMS / GEM-communication / pair models are the engine (DESIGN Appendix A.4, last sentence)

`Model.Hsms.smStep`/`smCall` (C05, over `Gen.ConnSM`), `Model.GemComm.smStep` (C07, over `Gen.CommSM`) and the projection
`Model.Pair.connOk/commOk` (C20) never mention the engine.  The theorems below tie them to `Model.SM.perform`, the model of
`StateMachine._perform_transition` that the C18 theorems are about: for every state of the machine with
`active = ancestors-or-self of current`, every transition name (also names the table does not have), every handler table whose
callbacks request no transition of the same machine (`Quiet`; the callbacks actually registered are instances), and any fuel
above a small bound, the engine succeeds iff the table step succeeds, ends in the state the table step names with exact flags,
and otherwise raises the same error class leaving everything untouched.
-/
namespace SecsModel.Props.C18b
open SecsModel SecsModel.Model.SM SecsModel.Proofs.SM SecsModel.Proofs.SMBridge SecsModel.Gen

/-- **Connection machine.**  `Model.Hsms.smStep Gen.ConnSM.transitions` from the name of the engine's current state vs the engine. -/
theorem conn_bridge (hh : Handlers) (K : Nat) (hq : QuietK hh K) (f : Nat) (hf : K + 5 ≤ f) (st : St)
    (hcur : st.cur < ConnSM.states.length) (hinv : Inv (ofTable ConnSM) st) (name : String) :
    match Model.Hsms.smStep ConnSM.transitions (stateName ConnSM st.cur) name with
    | .ok d => ∃ st', perform (ofTable ConnSM) hh f st name = .ok st' ∧ st'.cur = stateIdx ConnSM d ∧
        stateName ConnSM st'.cur = d ∧ Inv (ofTable ConnSM) st'
    | .error e => ∃ e', failOf e = some e' ∧ perform (ofTable ConnSM) hh f st name = .fail e' st :=
  bridge ConnSM 2 K conn_tableOk hh hq f (by omega) st hcur hinv name

/-- the callbacks `HsmsProtocol.__init__` really registers (`Gen.HsmsProto.wiring`) are quiet for the connection machine;
so is the empty table -/
theorem conn_bridge_wired (f : Nat) (hf : 8 ≤ f) (st : St) (hcur : st.cur < ConnSM.states.length)
    (hinv : Inv (ofTable ConnSM) st) (name : String) :
    match Model.Hsms.smStep ConnSM.transitions (stateName ConnSM st.cur) name with
    | .ok d => ∃ st', perform (ofTable ConnSM) connHandlers f st name = .ok st' ∧ st'.cur = stateIdx ConnSM d ∧
        stateName ConnSM st'.cur = d ∧ Inv (ofTable ConnSM) st'
    | .error e => ∃ e', failOf e = some e' ∧ perform (ofTable ConnSM) connHandlers f st name = .fail e' st :=
  conn_bridge connHandlers 3 connHandlers_quiet f hf st hcur hinv name

/-- non-vacuity: `select` in CONNECTED_NOT_SELECTED (state 2, flags of 2 and its parent 1) succeeds on both sides -/
example : (match Model.Hsms.smStep ConnSM.transitions (stateName ConnSM 2) "select" with | .ok d => d == "CONNECTED_SELECTED" | .error _ => false) = true ∧
    (perform (ofTable ConnSM) connHandlers 8 { cur := 2, active := canonFlags (ofTable ConnSM) 2, log := [] } "select").st.cur = 3 := by
  decide +kernel

theorem smStep_ok_mem {tbl : List (String × List String × String)} {cur name d : String}
    (h : Model.Hsms.smStep tbl cur name = .ok d) : ∃ tr, tr ∈ tbl ∧ tr.2.2 = d := by
  unfold Model.Hsms.smStep at h
  cases hf : tbl.find? (fun t => t.1 == name) with
  | none => rw [hf] at h; cases h
  | some tr =>
    obtain ⟨nm, srcs, dst⟩ := tr
    rw [hf] at h
    simp only at h
    cases hc : srcs.contains cur with
    | false => rw [hc] at h; cases h
    | true => rw [hc] at h; simp only [↓reduceIte, Except.ok.injEq] at h; exact ⟨_, List.mem_of_find?_eq_some hf, h⟩

open SecsModel.Spec.E37 (Conn) in
theorem conn_names :
    (∀ c : Conn, stateName ConnSM (stateIdx ConnSM (Model.Hsms.connName c)) = Model.Hsms.connName c ∧
      stateIdx ConnSM (Model.Hsms.connName c) < ConnSM.states.length) := by
  intro c; cases c <;> decide +kernel

open SecsModel.Spec.E37 (Conn) in
/-- **`Model.Hsms.smCall`** (what the C05 model calls for `self._connection_state.<method>()`): for each of the three leaf states
and each public method of the generated machine, `smCall` returns the leaf state the engine ends in, or the engine's error class. -/
theorem conn_smCall_bridge (hh : Handlers) (K : Nat) (hq : QuietK hh K) (f : Nat) (hf : K + 5 ≤ f) (c : Conn) (method t : String)
    (hm : ConnSM.methods.lookup method = some t) (st : St) (hcur : st.cur = stateIdx ConnSM (Model.Hsms.connName c))
    (hinv : Inv (ofTable ConnSM) st) :
    match Model.Hsms.smCall c method with
    | .ok c' => ∃ st', perform (ofTable ConnSM) hh f st t = .ok st' ∧ st'.cur = stateIdx ConnSM (Model.Hsms.connName c') ∧
        Inv (ofTable ConnSM) st'
    | .error e => ∃ e', failOf e = some e' ∧ perform (ofTable ConnSM) hh f st t = .fail e' st := by
  have hb := conn_bridge hh K hq f hf st (by rw [hcur]; exact (conn_names c).2) hinv t
  rw [hcur, (conn_names c).1] at hb
  unfold Model.Hsms.smCall
  rw [hm]
  simp only
  cases hs : Model.Hsms.smStep ConnSM.transitions (Model.Hsms.connName c) t with
  | error e => rw [hs] at hb; exact hb
  | ok d =>
    rw [hs] at hb
    simp only at hb ⊢
    obtain ⟨st', hp, hc', _, hi'⟩ := hb
    obtain ⟨tr, hmem, hd⟩ := smStep_ok_mem hs
    -- every destination of the table that a leaf state can reach is a leaf state, and `connOfName` inverts `connName`
    have hall : ∀ tr, tr ∈ ConnSM.transitions →
        (match Model.Hsms.connOfName tr.2.2 with | some c' => Model.Hsms.connName c' == tr.2.2 | none => false) = true := by
      decide +kernel
    have := hall tr hmem
    rw [hd] at this
    cases hcn : Model.Hsms.connOfName d with
    | none => rw [hcn] at this; cases this
    | some c' =>
      rw [hcn] at this
      simp only [beq_iff_eq] at this
      exact ⟨st', hp, by rw [hc', this], hi'⟩

open SecsModel.Spec.E30Comm in
/-- **Communication machine.**  `Model.GemComm.smStep` vs the engine on `Gen.CommSM`. -/
theorem comm_bridge (hh : Handlers) (K : Nat) (hq : QuietK hh K) (f : Nat) (hf : K + 5 ≤ f) (c : Comm) (tr : Trans) (st : St)
    (hcur : st.cur = stateIdx CommSM c.name) (hinv : Inv (ofTable CommSM) st) :
    match Model.GemComm.smStep c tr with
    | .ok d => ∃ st', perform (ofTable CommSM) hh f st tr.name = .ok st' ∧ st'.cur = stateIdx CommSM d.name ∧
        Inv (ofTable CommSM) st'
    | .error .wrongSource => perform (ofTable CommSM) hh f st tr.name = .fail .wrongSource st
    | .error .unknownTransition => perform (ofTable CommSM) hh f st tr.name = .fail .unknown st
    | .error .unknownState => False := by
  have hn := comm_names.1
  simp only [List.all_eq_true, Bool.and_eq_true, beq_iff_eq, decide_eq_true_eq] at hn
  have hc := hn c (by cases c <;> simp [Comm.all])
  have hb := bridge CommSM 2 K comm_tableOk hh hq f (by omega) st (by rw [hcur]; exact hc.1.2) hinv tr.name
  rw [hcur, hc.1.1] at hb
  rw [gemcomm_smStep_eq]
  cases hs : Model.Hsms.smStep CommSM.transitions c.name tr.name with
  | error e =>
    rw [hs] at hb
    obtain ⟨e', he, hp⟩ := hb
    cases e <;> simp only [failOf, Option.some.injEq] at he <;> first | (subst he; exact hp) | cases he
  | ok d =>
    rw [hs] at hb
    simp only at hb ⊢
    obtain ⟨st', hp, hc', _, hi'⟩ := hb
    obtain ⟨tr', hmem, hd⟩ := smStep_ok_mem hs
    have hall : ∀ tr, tr ∈ CommSM.transitions →
        (match Comm.ofName tr.2.2 with | some d' => d'.name == tr.2.2 | none => false) = true := by
      decide +kernel
    have := hall tr' hmem
    rw [hd] at this
    cases hcn : Comm.ofName d with
    | none => rw [hcn] at this; cases this
    | some d' =>
      rw [hcn] at this
      simp only [beq_iff_eq] at this
      exact ⟨st', hp, by rw [hc', this], hi'⟩

open SecsModel.Spec.E30Comm in
/-- the same with the callbacks actually registered on the communication machine: its own timer handlers
(`Gen.CommSM.wiring`: arm / cancel T3 and the establish-communications delay) and `GemHandler`'s (`Gen.Callbacks.commWiring`:
send S1F13, fire "handler_communicating") — they request no transition -/
theorem comm_bridge_wired (f : Nat) (hf : 11 ≤ f) (c : Comm) (tr : Trans) (st : St)
    (hcur : st.cur = stateIdx CommSM c.name) (hinv : Inv (ofTable CommSM) st) :
    match Model.GemComm.smStep c tr with
    | .ok d => ∃ st', perform (ofTable CommSM) commHandlers f st tr.name = .ok st' ∧ st'.cur = stateIdx CommSM d.name ∧
        Inv (ofTable CommSM) st'
    | .error .wrongSource => perform (ofTable CommSM) commHandlers f st tr.name = .fail .wrongSource st
    | .error .unknownTransition => perform (ofTable CommSM) commHandlers f st tr.name = .fail .unknown st
    | .error .unknownState => False :=
  comm_bridge commHandlers 6 commHandlers_quiet f hf c tr st hcur hinv

open SecsModel.Spec.E30Comm in
/-- non-vacuity: WAIT_CRA --s1f14received--> COMMUNICATING on both sides, with the wired callbacks firing -/
example : (match Model.GemComm.smStep .waitCra .s1f14received with | .ok d => d == .communicating | .error _ => false) = true ∧
    (let o := perform (ofTable CommSM) commHandlers 11 { cur := 7, active := canonFlags (ofTable CommSM) 7, log := [] } "s1f14received"
     o.err = none ∧ o.st.cur = 8 ∧ o.st.log = [.leave 7, .enter 8, .called "s1f14received"]) := by
  decide +kernel

/-! ## the pair model's projection (`Model.Pair.connOk`, `commOk`) -/

def pairConnName : Model.Pair.Conn → String
  | .nc => "NOT_CONNECTED" | .ns => "CONNECTED_NOT_SELECTED" | .sel => "CONNECTED_SELECTED"

def pairCommName : Model.Pair.Comm → String
  | .dis => "DISABLED" | .notc => "NOT_COMMUNICATING" | .wcra => "WAIT_CRA" | .wdelay => "WAIT_DELAY" | .comm => "COMMUNICATING"

/-- `Model.Pair.connOk a b` holds exactly when some transition of the generated connection table leads from `a` to `b` by the table
step (hence, by `conn_bridge`, by the engine) -/
theorem pair_connOk_is_table :
    ∀ a ∈ [Model.Pair.Conn.nc, .ns, .sel], ∀ b ∈ [Model.Pair.Conn.nc, .ns, .sel],
      Model.Pair.connOk a b = (ConnSM.transitions.any fun tr =>
        match Model.Hsms.smStep ConnSM.transitions (pairConnName a) tr.1 with
        | .ok d => d == pairConnName b
        | .error _ => false) := by decide +kernel

/-- every single transition `Model.Pair.commOk` admits (session SELECTED) is a table step of the generated communication table;
the table additionally has `s1f13received` from WAIT_DELAY, which no handler path of `GemHandler` uses -/
theorem pair_commOk_in_table :
    ∀ a ∈ [Model.Pair.Comm.dis, .notc, .wcra, .wdelay, .comm], ∀ b ∈ [Model.Pair.Comm.dis, .notc, .wcra, .wdelay, .comm],
      Model.Pair.commOk .sel a b = true → (CommSM.transitions.any fun tr =>
        match Model.Hsms.smStep CommSM.transitions (pairCommName a) tr.1 with
        | .ok d => d == pairCommName b
        | .error _ => false) = true := by decide +kernel

end SecsModel.Props.C18b
