import SecsModel.Proofs.Ctrl
import SecsModel.Proofs.SMGen
/-!
# C11 — GEM control state follows the E30 control model for every operator/host history

Model: `Model.Gem.Ctrl` (on the C18 engine, generated control machine + forwarders); spec: `Spec.E30` (table).
Only property theorems, non-vacuity `example`s and remarks live here.
-/
namespace SecsModel.Props.C11
open SecsModel.Model.SM SecsModel.Gen SecsModel.Model.Gem.Ctrl SecsModel.Spec.E30 SecsModel.Proofs.Ctrl SecsModel.Proofs.SMGen

/-- what the E30 table prescribes for one model input arriving in state `s` -/
def specStep (s : SState) (i : Input) : SState × List Spec.E30.Out := macroStep failTo s (expand s.st i)

def specRun (s : SState) : List Input → SState × List (List Spec.E30.Out)
  | [] => (s, [])
  | i :: rest =>
    match specStep s i with
    | (s1, outs) => match specRun s1 rest with
      | (s2, more) => (s2, outs :: more)

/-- **The generated control table refines the E30 table.**  Every shipped transition that implements an E30 trigger
(`trigOf`: `switch_online` ↦ operator ON-LINE, …, `remote_online` ↦ S1F17), from every source that is an E30 state, is a row of the
table with that source, trigger and target; every row of the table (transitions 3–6, 8–12; transition 4 with the shipped choice
HOST OFF-LINE) is implemented by a shipped transition; the remaining shipped transitions (`start`, `initial_*`: E30 transitions
1, 2, 7) start only in the pseudo states INIT/CONTROL/OFFLINE/ONLINE. -/
theorem table_refines_E30 : genInSpec = true ∧ specInGen = true ∧ pseudoOnly = true := table_refines

/-- the generated method bodies of `ControlStateMachine` (statement order included) that `Model.Gem.Ctrl.runMethod` interprets are
well-formed: see `Proofs.SMGen.ctrl_methods_resolve`.  That a *rejected* `switch_online_local/remote` must not touch the remembered
sub-state is part of `step_refines_E30` (a raised exception ⇒ the whole model state, `remote` included, is unchanged): swapping the
two statements of either method re-generates `Gen.CtrlMethods` and breaks that obligation. -/
theorem methods_wellformed :
    (["start", "switch_online", "switch_offline", "switch_online_local", "switch_online_remote", "remote_offline", "remote_online",
      "attempt_online_success", "attempt_online_fail_host_offline"].all fun m => CtrlMethods.methods.any fun r => r.1 == m) = true ∧
    (CtrlMethods.methods.all fun r => r.2.all fun st => st.1 == "assign" || (st.1 == "perform" && (lookup ctrl st.2.1).isSome)) = true ∧
    (["attempt_online_success", "attempt_online_fail_host_offline"].all fun m =>
      CtrlMethods.methods.any fun r => r.1 == m && r.2 == [("perform", m, "")]) = true ∧
    (CtrlSM.methods.all fun mt => CtrlMethods.methods.any fun r => r.1 == mt.1 && r.2.any fun st => st.1 == "perform" && st.2.1 == mt.2) = true :=
  ctrl_methods_resolve

/-- **Step refinement**: 4 initial configurations × 5 states × 2 remembered sub-states × every operator/host input (the
attempt-online probe answered, unanswered, aborted, or not sent; also split into "probe outstanding" and "probe resolves").
From the resting state of `s` the model step ends in the resting state of the E30 successor (same remembered sub-state unless
transition 8/9), with exact `active` flags; the acknowledge codes and collection events it produces are, in order, those of
the table; and if the call raised, nothing changed and nothing was acknowledged or reported. -/
theorem step_refines_E30 (init : String) (hi : init ∈ inits) (s : S) (remote : Bool) (i : Input) (hl : i ≠ .linkLost) :
    let r := step (stable init s remote) i
    let sp := specStep ⟨s, remote⟩ i
    r.1 = stable init sp.1.st sp.1.remote ∧ visible r.2 = sp.2.map conc ∧
      (r.2.any isRaised = true → r.1 = stable init s remote ∧ r.2.length = 1 ∧ sp.2 = []) := by
  have h := step_all init hi s (mem_allStates s) remote (by cases remote <;> simp) i (mem_e30Inputs i hl)
  simp only [stepOk, Bool.and_eq_true, beq_iff_eq] at h
  obtain ⟨⟨h1, h2⟩, h3⟩ := h
  refine ⟨h1, h2, fun hr => ?_⟩
  rw [hr] at h3
  simp only [↓reduceIte, Bool.and_eq_true, beq_iff_eq, List.isEmpty_iff] at h3
  exact ⟨h3.1.1, h3.1.2, h3.2⟩

/-- non-vacuity: S1F17 in HOST OFF-LINE with the switch on LOCAL → ON-LINE/LOCAL, event "control state LOCAL", ONLACK 0 -/
example : step (stable "HOST_OFFLINE" .hostOffline false) .s1f17
    = (stable "HOST_OFFLINE" .onlineLocal false, [.ceid 2, .ack 0]) := by decide +kernel

/-- **Acknowledge codes.**  In every resting state: S1F15 is answered OFLACK 0; S1F17 is answered ONLACK 0 in HOST OFF-LINE,
2 when already ON-LINE, 1 in EQUIPMENT OFF-LINE and ATTEMPT ON-LINE — the codes E30 assigns to the state the request arrived in. -/
theorem ack_codes (init : String) (hi : init ∈ inits) (s : S) (remote : Bool) :
    (step (stable init s remote) .s1f15).2.filter (fun o => match o with | .ack _ => true | _ => false) = [.ack (oflack s)] ∧
    (step (stable init s remote) .s1f17).2.filter (fun o => match o with | .ack _ => true | _ => false) = [.ack (onlack s)] := by
  have h15 := (step_refines_E30 init hi s remote .s1f15 (by decide)).2.1
  have h17 := (step_refines_E30 init hi s remote .s1f17 (by decide)).2.1
  have v : ∀ outs : List Output, outs.filter (fun o => match o with | .ack _ => true | _ => false)
      = (visible outs).filter (fun o => match o with | .ack _ => true | _ => false) := by
    intro outs
    simp only [visible, List.filter_filter]
    congr 1; funext o; cases o <;> simp [isRaised]
  rw [v (step (stable init s remote) .s1f15).2, h15, v (step (stable init s remote) .s1f17).2, h17]
  cases s <;> cases remote <;> decide

/-- **Collection events exactly on the transitions.**  The collection events a step triggers are, in order, the events of the
E30 transitions it takes (equipment OFF-LINE on 6, 10, 12; control state LOCAL/REMOTE on 7, 8, 9) — none when no transition is taken. -/
theorem events_exactly_on_transitions (init : String) (hi : init ∈ inits) (s : S) (remote : Bool) (i : Input) (hl : i ≠ .linkLost) :
    (step (stable init s remote) i).2.filter (fun o => match o with | .ceid _ => true | _ => false)
      = ((specStep ⟨s, remote⟩ i).2.filter (fun o => match o with | .event _ => true | _ => false)).map conc := by
  have h := (step_refines_E30 init hi s remote i hl).2.1
  have v : ∀ outs : List Output, outs.filter (fun o => match o with | .ceid _ => true | _ => false)
      = (visible outs).filter (fun o => match o with | .ceid _ => true | _ => false) := by
    intro outs
    simp only [visible, List.filter_filter]
    congr 1; funext o; cases o <;> simp [isRaised]
  rw [v, h, List.filter_map]
  congr 1
  apply List.filter_congr
  intro o _
  cases o <;> simp [conc]

/-- **SVID 1002** as `_get_control_state_id` computes it equals the E30 value of the current state (1…5) in every resting state —
never −1. -/
theorem sv1002_correct (init : String) (hi : init ∈ inits) (s : S) (remote : Bool) :
    sv1002 (stable init s remote) = .ok (svValue s) ∧ 1 ≤ svValue s ∧ svValue s ≤ 5 := by
  have h := sv_all init hi s (mem_allStates s) remote (by cases remote <;> simp)
  refine ⟨?_, h.2⟩
  have h1 := h.1
  cases hs : sv1002 (stable init s remote) with
  | ok v => rw [hs] at h1; simp only [beq_iff_eq] at h1; rw [h1]
  | error e => rw [hs] at h1; cases h1

/-- **The constructor reaches a resting state** (the nested forwarders terminate in a leaf): for each configured default and each
remembered sub-state the handler starts in the state E30 transitions 1, 2, 7 prescribe — for the ATTEMPT ON-LINE default in HOST
OFF-LINE, because the probe cannot be sent before communication is enabled (transition 4) — having triggered exactly the events
of those transitions. -/
theorem start_reaches_stable (init : String) (hi : init ∈ inits) (remote : Bool) :
    ∃ d, specDefault init = some d ∧
      Model.Gem.Ctrl.init init remote = (stable init (specInit d remote).1.st (specInit d remote).1.remote, (specInit d remote).2.map conc) := by
  have h := init_all init hi remote (by cases remote <;> simp)
  unfold initOk at h
  cases hd : specDefault init with
  | none => rw [hd] at h; cases h
  | some d =>
    rw [hd] at h
    simp only [Bool.and_eq_true, beq_iff_eq] at h
    exact ⟨d, rfl, Prod.ext h.1 h.2⟩

theorem run_cons (c : CState) (i : Input) (rest : List Input) :
    Model.Gem.Ctrl.run c (i :: rest)
      = ((Model.Gem.Ctrl.run (step c i).1 rest).1, (step c i).2 :: (Model.Gem.Ctrl.run (step c i).1 rest).2) := rfl

theorem specRun_cons (s : SState) (i : Input) (rest : List Input) :
    specRun s (i :: rest) = ((specRun (specStep s i).1 rest).1, (specStep s i).2 :: (specRun (specStep s i).1 rest).2) := rfl

/-- **All histories.**  For every initial configuration and every finite sequence of operator and host inputs, the model run from
a resting state stays in resting states, ends in the state the E30 table prescribes, and produces step by step exactly the
table's acknowledge codes and collection events. -/
theorem history (init : String) (hi : init ∈ inits) (is : List Input) (hl : ∀ i ∈ is, i ≠ .linkLost) :
    ∀ (s : S) (remote : Bool),
      (Model.Gem.Ctrl.run (stable init s remote) is).1
        = stable init (specRun ⟨s, remote⟩ is).1.st (specRun ⟨s, remote⟩ is).1.remote ∧
      (Model.Gem.Ctrl.run (stable init s remote) is).2.map visible = (specRun ⟨s, remote⟩ is).2.map (·.map conc) := by
  induction is with
  | nil => intro s remote; exact ⟨rfl, rfl⟩
  | cons i rest ih =>
    intro s remote
    have hstep := step_refines_E30 init hi s remote i (hl i (by simp))
    simp only at hstep
    obtain ⟨h1, h2, _⟩ := hstep
    have ih' := ih (fun j hj => hl j (by simp [hj])) (specStep ⟨s, remote⟩ i).1.st (specStep ⟨s, remote⟩ i).1.remote
    have eta : (⟨(specStep ⟨s, remote⟩ i).1.st, (specStep ⟨s, remote⟩ i).1.remote⟩ : SState) = (specStep ⟨s, remote⟩ i).1 := rfl
    rw [eta] at ih'
    rw [run_cons, specRun_cons, h1]
    simp only [List.map_cons]
    exact ⟨ih'.1, by rw [h2, ih'.2]⟩

/-- the same from the constructor: every initial configuration, every history -/
theorem history_from_start (init : String) (hi : init ∈ inits) (remote : Bool) (is : List Input) (hl : ∀ i ∈ is, i ≠ .linkLost) :
    ∃ d, specDefault init = some d ∧
      (Model.Gem.Ctrl.run (Model.Gem.Ctrl.init init remote).1 is).1
        = stable init (specRun (specInit d remote).1 is).1.st (specRun (specInit d remote).1 is).1.remote ∧
      (Model.Gem.Ctrl.run (Model.Gem.Ctrl.init init remote).1 is).2.map visible = (specRun (specInit d remote).1 is).2.map (·.map conc) := by
  obtain ⟨d, hd, he⟩ := start_reaches_stable init hi remote
  refine ⟨d, hd, ?_⟩
  rw [he]
  exact history init hi is hl _ _

/-- non-vacuity: a history through eight of the twelve transitions -/
example : (Model.Gem.Ctrl.run (Model.Gem.Ctrl.init "EQUIPMENT_OFFLINE" true).1
      [.switchOnline .hostAnswers, .switchLocal, .s1f15, .s1f17, .s1f17, .switchOffline, .switchOffline, .switchOnline .hostSilent, .switchOffline]).2
    = [[.ceid 3], [.ceid 2], [.ceid 1, .ack 0], [.ceid 2, .ack 0], [.ack 2], [.ceid 1], [.raised .wrongSource], [], [.ceid 1]] := by
  decide +kernel

/-- **Link loss** (`on_connection_closed`; not an E30 trigger, outside the property's histories — recorded as what the code does):
from ON-LINE and from EQUIPMENT OFF-LINE the handler ends in HOST OFF-LINE, silently; an outstanding probe is left to fail. -/
theorem link_loss_effect (init : String) (hi : init ∈ inits) (s : S) (remote : Bool) :
    step (stable init s remote) .linkLost = (stable init (if s == .attemptOnline then .attemptOnline else .hostOffline) remote, []) := by
  have h := linkLost_all init hi s (mem_allStates s) remote (by cases remote <;> simp)
  simp only [linkLostOk, Bool.and_eq_true, List.isEmpty_iff] at h
  exact Prod.ext (by simpa using h.2) h.1

/-- `control_switch_online()` = the operator's switch is accepted and the probe is outstanding, then the probe resolves -/
theorem switch_online_split : ∀ init ∈ inits, ∀ s ∈ allStates, ∀ r ∈ [true, false], ∀ p ∈ probeList,
    (let c := stable init s r
     let a := step c (.switchOnline p)
     let b1 := step c .onlineBegin
     let b2 := step b1.1 (.probe p)
     if b1.2.any isRaised then a.1 == b1.1 && a.2 == b1.2 else a.1 == b2.1 && a.2 == b1.2 ++ b2.2) = true := split_all

end SecsModel.Props.C11
