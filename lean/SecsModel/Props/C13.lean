import SecsModel.Model.GemTab
import SecsModel.Spec.GemTables
import SecsModel.Proofs.GemTab
/-!
# C13 — Status variables, constants and alarms answer as a reference model predicts

`Model.Gem.Tab` is the hand model of the four capability files; `Spec.GemTables` the reference.  All statements are about an
arbitrary state `s` (hence about the state after any history) unless they are invariants, which are proved over histories.
-/
namespace SecsModel.Props.C13
open SecsModel SecsModel.Model.Gem SecsModel.Model.Gem.Tab SecsModel.Spec.GemTables SecsModel.Proofs.Gem.Tab

/-! ## replies: requested items, request order, empty item for unknown ids -/

theorem s1f3Loop_eq (s : St) : ∀ ids : List Id, (∀ i ∈ ids, i.hashable = true) →
    s1f3Loop s ids = .ok (ids.map (fun i => match s.findSv i with | some sv => svCurrent s sv | none => Val.empty))
  | [], _ => rfl
  | i :: rest, h => by
    have hi := h i List.mem_cons_self
    simp only [s1f3Loop, hi, if_true, s1f3Loop_eq s rest (fun x hx => h x (List.mem_cons_of_mem _ hx)), List.map_cons]
    cases s.findSv i <;> rfl

/-- **S1F3** for ids whose hash exists (every non-empty item): exactly the requested status variables, in request order,
current value, an empty list item for an unknown id; all of them in table order for an empty request. -/
theorem s1f3_spec (s : St) (ids : List Id) (h : ∀ i ∈ ids, i.hashable = true) : Tab.s1f3 s ids = .ok (Spec.GemTables.s1f3 s ids) := by
  unfold Tab.s1f3 Spec.GemTables.s1f3
  cases ids with
  | nil => rfl
  | cons i rest => simp only [List.isEmpty_cons, Bool.false_eq_true, if_false, reduceCtorEq]; exact s1f3Loop_eq s _ h

theorem s1f11Loop_eq (s : St) : ∀ ids : List Id, (∀ i ∈ ids, i.hashable = true) →
    s1f11Loop s ids = .ok (ids.map (fun i => match s.findSv i with | some sv => (sv.id, sv.name, sv.unit) | none => (i, "", "")))
  | [], _ => rfl
  | i :: rest, h => by
    have hi := h i List.mem_cons_self
    simp only [s1f11Loop, hi, if_true, s1f11Loop_eq s rest (fun x hx => h x (List.mem_cons_of_mem _ hx)), List.map_cons]
    cases s.findSv i <;> rfl

/-- **S1F11**: names and units of the requested ids in request order, the id with empty name and unit for an unknown one. -/
theorem s1f11_spec (s : St) (ids : List Id) (h : ∀ i ∈ ids, i.hashable = true) : Tab.s1f11 s ids = .ok (Spec.GemTables.s1f11 s ids) := by
  unfold Tab.s1f11 Spec.GemTables.s1f11
  cases ids with
  | nil => rfl
  | cons i rest => simp only [List.isEmpty_cons, Bool.false_eq_true, if_false, reduceCtorEq]; exact s1f11Loop_eq s _ h

theorem s2f29Loop_eq (s : St) : ∀ ids : List Id, (∀ i ∈ ids, i.hashable = true) →
    s2f29Loop s ids = .ok (ids.map (fun i => match s.findEc i with | some ec => ecRow ec | none => ⟨i, "", .text "", .text "", .text "", ""⟩))
  | [], _ => rfl
  | i :: rest, h => by
    have hi := h i List.mem_cons_self
    simp only [s2f29Loop, hi, if_true, s2f29Loop_eq s rest (fun x hx => h x (List.mem_cons_of_mem _ hx)), List.map_cons]
    cases s.findEc i <;> rfl

/-- **S2F29**: the namelist rows of the requested constants in request order, empty fields for an unknown id. -/
theorem s2f29_spec (s : St) (ids : List Id) (h : ∀ i ∈ ids, i.hashable = true) : Tab.s2f29 s ids = .ok (Spec.GemTables.s2f29 s ids) := by
  unfold Tab.s2f29 Spec.GemTables.s2f29
  cases ids with
  | nil => rfl
  | cons i rest => simp only [List.isEmpty_cons, Bool.false_eq_true, if_false, reduceCtorEq]; exact s2f29Loop_eq s _ h

/-- every stored constant can be shown by its item class: an integer-typed constant holds an `int` -/
def TypeOk (s : St) : Prop := ∀ ec ∈ s.ecs, ec.intTyped = true → ec.value.isFloat = false

theorem ecValue_ok (s : St) (ec : Ec) (h : ec.intTyped = true → ec.value.isFloat = false) :
    ecValue s ec = .ok (ecCurrent s ec) := by
  unfold ecValue ecCurrent
  cases ecKind ec.id with
  | ect => rfl
  | timeFormat => rfl
  | plain =>
    simp only
    by_cases ht : ec.intTyped = true
    · have := h ht
      simp only [ht, if_true]
      cases hv : ec.value <;> simp_all [Num.isFloat, numVal]
    · have ht' : ec.intTyped = false := by simpa using ht
      simp only [ht', Bool.false_eq_true, if_false]
      cases ec.value <;> rfl

theorem s2f13Loop_eq (s : St) (ht : TypeOk s) : ∀ ids : List Id, (∀ i ∈ ids, i.hashable = true) →
    s2f13Loop s ids = .ok (ids.map (fun i => match s.findEc i with | some ec => ecCurrent s ec | none => Val.empty))
  | [], _ => rfl
  | i :: rest, h => by
    have hi := h i List.mem_cons_self
    have ih := s2f13Loop_eq s ht rest (fun x hx => h x (List.mem_cons_of_mem _ hx))
    simp only [s2f13Loop, hi, if_true, ih, List.map_cons]
    cases hf : s.findEc i with
    | none => rfl
    | some ec =>
      have hm : ec ∈ s.ecs := List.mem_of_find?_eq_some hf
      simp only [ecValue_ok s ec (ht ec hm)]

theorem s2f13All_eq (s : St) : ∀ l : List Ec, (∀ ec ∈ l, ec.intTyped = true → ec.value.isFloat = false) →
    s2f13All s l = .ok (l.map (ecCurrent s))
  | [], _ => rfl
  | ec :: rest, h => by
    simp only [s2f13All, ecValue_ok s ec (h ec List.mem_cons_self),
      s2f13All_eq s rest (fun x hx => h x (List.mem_cons_of_mem _ hx)), List.map_cons]

/-- **S2F13** in a state where every constant is showable (`TypeOk`, an invariant of the patched code, see
`typeok_invariant`; for the code as it is see `witness_float_on_int_constant`): exactly the requested constants in request
order with their current values, an empty list item for an unknown id. -/
theorem s2f13_spec (s : St) (ids : List Id) (ht : TypeOk s) (h : ∀ i ∈ ids, i.hashable = true) :
    Tab.s2f13 s ids = .ok (Spec.GemTables.s2f13 s ids) := by
  unfold Tab.s2f13 Spec.GemTables.s2f13
  cases ids with
  | nil => exact s2f13All_eq s s.ecs ht
  | cons i rest => simp only [List.isEmpty_cons, Bool.false_eq_true, if_false, reduceCtorEq]; exact s2f13Loop_eq s ht _ h

/-! ## S2F15: all or nothing, within limits -/

/-- the two GEM-defined constants (ECID 1, 2 — the ones `_set_ec_value` converts with `int()`) declare both limits, as the shipped
ones do; without it a NaN for such a constant would pass the pre-check and raise in the middle of the apply loop -/
def BuiltinBounded (s : St) : Prop :=
  ∀ i ec, s.findEc i = some ec → ecKind i ≠ .plain → ec.min.isSome = true ∧ ec.max.isSome = true

theorem storable_of_pre {s : St} {req : List (Id × Ecv)} {d : Nat} (hb : BuiltinBounded s) (hp : pre15 s 0 req = .ok d) (hd : d = 0) :
    ∀ p ∈ req, Storable s p := by
  intro p hpm
  obtain ⟨ec, x, hf, hv, h1, h2, _⟩ := (pre15_zero s req 0 d hp hd).2 p hpm
  exact ⟨ec, x, hf, hv, fun hk => finite_of_limits (hb p.1 ec hf hk).1 (hb p.1 ec hf hk).2 h1 h2⟩

theorem s2f15_of_error {s : St} {req : List (Id × Ecv)} {e : Err} (h : pre15 s 0 req = .error e) : s2f15 s req = (s, .abort) := by
  simp only [s2f15, h]

theorem s2f15_of_refused {s : St} {req : List (Id × Ecv)} {eac : Nat} (h : pre15 s 0 req = .ok eac) (h0 : eac ≠ 0) :
    s2f15 s req = (s, .code eac) := by
  simp only [s2f15, h, ne_eq, h0, not_false_eq_true, if_true]

theorem s2f15_of_accepted {s : St} {req : List (Id × Ecv)} (hb : BuiltinBounded s) (h : pre15 s 0 req = .ok 0) :
    s2f15 s req = (applyAll s req, .code 0) := by
  simp only [s2f15, h, ne_eq, not_true_eq_false, if_false, apply15_ok req s (storable_of_pre hb h rfl)]

/-- **S2F15 applies all its constants or none.**  With EAC 0 every pair is acceptable (constant exists, value numeric —
hence not NaN — and within `[min, max]`) and the new state is exactly all values stored in message order; with any other
answer (EAC 1/3, or the abort for an empty ECID or a non-numeric ECV, which is raised in the pre-check) the state is unchanged.
In particular the apply loop never fails half-way. -/
theorem s2f15_all_or_none (s : St) (req : List (Id × Ecv)) (hb : BuiltinBounded s) :
    ((s2f15 s req).2 = .code 0 → (s2f15 s req).1 = applyAll s req ∧ ∀ p ∈ req, acceptable s p)
    ∧ ((s2f15 s req).2 ≠ .code 0 → (s2f15 s req).1 = s) := by
  cases hp : pre15 s 0 req with
  | error e =>
    rw [s2f15_of_error hp]
    exact ⟨fun h => (by cases h), fun _ => rfl⟩
  | ok eac =>
    by_cases h0 : eac = 0
    · subst h0
      rw [s2f15_of_accepted hb hp]
      refine ⟨fun _ => ⟨rfl, ?_⟩, fun h => absurd rfl h⟩
      intro p hpm
      obtain ⟨ec, x, hf, hv, h1, h2, _⟩ := (pre15_zero s req 0 0 hp rfl).2 p hpm
      exact ⟨ec, x, hf, hv, h1, h2⟩
    · rw [s2f15_of_refused hp h0]
      exact ⟨fun h => (by cases h; exact absurd rfl h0), fun _ => rfl⟩

/-- **EAC codes.**  0, 1 or 3; 1 only if some constant does not exist, 3 only if some value is outside its limits (or, in the
patched variant, a float for an integer constant). -/
theorem eac_codes (s : St) (req : List (Id × Ecv)) (n : Nat) (hb : BuiltinBounded s) (h : (s2f15 s req).2 = .code n) :
    n = 0 ∨ (n = 1 ∧ ∃ p ∈ req, s.findEc p.1 = none)
    ∨ (n = 3 ∧ ∃ p ∈ req, ∃ ec x, s.findEc p.1 = some ec ∧ p.2 = .num x ∧
        (x.geO ec.min = false ∨ x.leO ec.max = false ∨ (s.typeCheck && ec.intTyped && x.isFloat) = true)) := by
  cases hp : pre15 s 0 req with
  | error e => (rw [s2f15_of_error hp] at h; cases h)
  | ok eac =>
    by_cases h0 : eac = 0
    · subst h0
      rw [s2f15_of_accepted hb hp] at h
      cases h; exact Or.inl rfl
    · rw [s2f15_of_refused hp h0] at h
      have hn : eac = n := by cases h; rfl
      subst hn
      rcases pre15_code s req 0 eac hp with hc | hc | hc
      · exact absurd hc h0
      · exact Or.inr (Or.inl hc)
      · exact Or.inr (Or.inr hc)

/-! ## invariants over histories -/

theorem ecs_setOne (s : St) (i : Id) (x : Num) :
    (setOne s i x).ecs = updFirst (fun ec => ec.id = i) (fun ec => { ec with value := x }) s.ecs := by
  unfold setOne; cases ecKind i <;> rfl

/-- `p` is acceptable in `s` (phrased so that it survives the updates of the apply loop) -/
def Fits (s : St) (p : Id × Ecv) : Prop :=
  ∃ ec x, s.findEc p.1 = some ec ∧ p.2 = .num x ∧ x.geO ec.min = true ∧ x.leO ec.max = true
    ∧ ((s.typeCheck && ec.intTyped && x.isFloat) = false)

theorem typeCheck_setOne (s : St) (i : Id) (x : Num) : (setOne s i x).typeCheck = s.typeCheck := by
  unfold setOne; cases ecKind i <;> rfl

theorem fits_setOne {s : St} {p : Id × Ecv} (i : Id) (x : Num) (h : Fits s p) : Fits (setOne s i x) p := by
  obtain ⟨ec, y, hf, hv, h1, h2, h3⟩ := h
  refine ⟨_, y, by rw [findEc_setOne, hf]; rfl, hv, ?_, ?_, ?_⟩
  · split <;> exact h1
  · split <;> exact h2
  · rw [typeCheck_setOne]; split <;> exact h3

/-- what a stored value must satisfy: within the limits, finite, and (patched variant) an `int` for an integer constant -/
def Good (tc : Bool) (ec : Ec) : Prop :=
  ec.value.geO ec.min = true ∧ ec.value.leO ec.max = true ∧ ((tc && ec.intTyped && ec.value.isFloat) = false)

theorem good_setOne {s : St} {i : Id} {x : Num} (hg : ∀ ec ∈ s.ecs, Good s.typeCheck ec) (hf : Fits s (i, .num x)) :
    ∀ ec ∈ (setOne s i x).ecs, Good (setOne s i x).typeCheck ec := by
  intro ec' hm
  rw [typeCheck_setOne]
  rw [ecs_setOne] at hm
  rcases mem_updFirst _ _ _ _ hm with hm | ⟨ec, hfe, he⟩
  · exact hg ec' hm
  · obtain ⟨ec0, y, hf0, hv, h1, h2, h3⟩ := hf
    simp only at hf0 hv
    cases hv
    have : ec0 = ec := by
      unfold St.findEc at hf0
      rw [hfe] at hf0; cases hf0; rfl
    subst this he
    exact ⟨h1, h2, h3⟩

theorem good_applyAll : ∀ (req : List (Id × Ecv)) (s : St), (∀ ec ∈ s.ecs, Good s.typeCheck ec) → (∀ p ∈ req, Fits s p) →
    ∀ ec ∈ (applyAll s req).ecs, Good (applyAll s req).typeCheck ec
  | [], s, hg, _ => hg
  | (i, v) :: rest, s, hg, hf => by
    obtain ⟨ec, x, hfe, hv, h1, h2, h3⟩ := hf (i, v) List.mem_cons_self
    simp only at hv
    subst hv
    simp only [applyAll, List.foldl_cons, numOf]
    exact good_applyAll rest (setOne s i x) (good_setOne hg ⟨ec, x, hfe, rfl, h1, h2, h3⟩)
      (fun p hp => fits_setOne i x (hf p (List.mem_cons_of_mem _ hp)))

theorem bb_setOne {s : St} (hb : BuiltinBounded s) (i : Id) (x : Num) : BuiltinBounded (setOne s i x) := by
  intro j ec' hf hk
  rw [findEc_setOne] at hf
  cases h0 : s.findEc j with
  | none => rw [h0] at hf; cases hf
  | some ec0 =>
    rw [h0] at hf
    simp only [Option.map_some, Option.some.injEq] at hf
    have := hb j ec0 h0 hk
    subst hf
    split <;> exact this

theorem bb_applyAll : ∀ (req : List (Id × Ecv)) (s : St), BuiltinBounded s → BuiltinBounded (applyAll s req)
  | [], _, hb => hb
  | p :: t, s, hb => by
    simp only [applyAll, List.foldl_cons]
    exact bb_applyAll t _ (bb_setOne hb _ _)

/-- every step either leaves the constants alone or is an accepted S2F15 (then the state is `applyAll` and every pair fitted) -/
theorem step_ecs (s : St) (op : Op) (hb : BuiltinBounded s) :
    ((step s op).1.ecs = s.ecs ∧ (step s op).1.typeCheck = s.typeCheck ∧ (step s op).1.ect = s.ect ∧ (step s op).1.timeFormat = s.timeFormat)
    ∨ ∃ req, (step s op).1 = applyAll s req ∧ ∀ p ∈ req, Fits s p := by
  cases op with
  | s2f15 req =>
    simp only [step]
    cases hp : pre15 s 0 req with
    | error e => rw [s2f15_of_error hp]; exact Or.inl ⟨rfl, rfl, rfl, rfl⟩
    | ok eac =>
      by_cases h0 : eac = 0
      · subst h0
        rw [s2f15_of_accepted hb hp]
        exact Or.inr ⟨req, rfl, fun p hpm => (pre15_zero s req 0 0 hp rfl).2 p hpm⟩
      · rw [s2f15_of_refused hp h0]; exact Or.inl ⟨rfl, rfl, rfl, rfl⟩
  | s5f3 aled alid =>
    refine Or.inl ?_
    simp only [step, s5f3]
    split
    · split <;> exact ⟨rfl, rfl, rfl, rfl⟩
    · exact ⟨rfl, rfl, rfl, rfl⟩
  | setAlarm i rp =>
    refine Or.inl ?_
    simp only [step, setAlarm]
    split
    · exact ⟨rfl, rfl, rfl, rfl⟩
    · split <;> exact ⟨rfl, rfl, rfl, rfl⟩
  | clearAlarm i rp =>
    refine Or.inl ?_
    simp only [step, clearAlarm]
    split
    · exact ⟨rfl, rfl, rfl, rfl⟩
    · split <;> exact ⟨rfl, rfl, rfl, rfl⟩
  | s1f3 ids => exact Or.inl ⟨rfl, rfl, rfl, rfl⟩
  | s1f11 ids => exact Or.inl ⟨rfl, rfl, rfl, rfl⟩
  | s2f13 ids => exact Or.inl ⟨rfl, rfl, rfl, rfl⟩
  | s2f29 ids => exact Or.inl ⟨rfl, rfl, rfl, rfl⟩
  | s5f5 ids => exact Or.inl ⟨rfl, rfl, rfl, rfl⟩
  | s5f7 => exact Or.inl ⟨rfl, rfl, rfl, rfl⟩
  | setSv i v => exact Or.inl ⟨rfl, rfl, rfl, rfl⟩

theorem bb_of_ecs {s s' : St} (h : s'.ecs = s.ecs) (hb : BuiltinBounded s) : BuiltinBounded s' := by
  intro i ec hf hk
  unfold St.findEc at hf
  rw [h] at hf
  exact hb i ec hf hk

theorem step_bb (s : St) (op : Op) (hb : BuiltinBounded s) : BuiltinBounded (step s op).1 := by
  rcases step_ecs s op hb with h | ⟨req, h, _⟩
  · exact bb_of_ecs h.1 hb
  · rw [h]; exact bb_applyAll req s hb

theorem typeCheck_applyAll : ∀ (req : List (Id × Ecv)) (s : St), (applyAll s req).typeCheck = s.typeCheck
  | [], _ => rfl
  | p :: t, s => by
    simp only [applyAll, List.foldl_cons]
    exact (typeCheck_applyAll t _).trans (typeCheck_setOne s _ _)

theorem step_typeCheck (s : St) (op : Op) (hb : BuiltinBounded s) : (step s op).1.typeCheck = s.typeCheck := by
  rcases step_ecs s op hb with h | ⟨req, h, _⟩
  · exact h.2.1
  · rw [h]; exact typeCheck_applyAll req s

theorem step_good (s : St) (op : Op) (hb : BuiltinBounded s) (hg : ∀ ec ∈ s.ecs, Good s.typeCheck ec) :
    ∀ ec ∈ (step s op).1.ecs, Good (step s op).1.typeCheck ec := by
  rcases step_ecs s op hb with h | ⟨req, h, hf⟩
  · rw [h.1, h.2.1]; exact hg
  · rw [h]; exact good_applyAll req s hg hf

theorem run_good : ∀ (ops : List Op) (s : St), BuiltinBounded s → (∀ ec ∈ s.ecs, Good s.typeCheck ec) →
    ∀ ec ∈ (run s ops).ecs, Good (run s ops).typeCheck ec
  | [], _, _, h => h
  | op :: ops, s, hb, h => run_good ops _ (step_bb s op hb) (step_good s op hb h)

theorem run_typeCheck : ∀ (ops : List Op) (s : St), BuiltinBounded s → (run s ops).typeCheck = s.typeCheck
  | [], _, _ => rfl
  | op :: ops, s, hb => (run_typeCheck ops _ (step_bb s op hb)).trans (step_typeCheck s op hb)

/-- **No constant ever leaves its declared limits** (a missing `min`/`max` is no limit on that side): from a state whose constants are
within their limits, after every history of requests, alarm changes and value updates every constant is within its limits. -/
theorem ec_in_range (s : St) (ops : List Op) (hb : BuiltinBounded s) (h : InRange s) (htc : s.typeCheck = false) : InRange (run s ops) := by
  have hg : ∀ ec ∈ s.ecs, Good s.typeCheck ec := fun ec hm => ⟨(h ec hm).1, (h ec hm).2, by simp [htc]⟩
  intro ec hm
  have := run_good ops s hb hg ec hm
  exact ⟨this.1, this.2.1⟩

/-- the same for the patched variant, together with `TypeOk` -/
theorem typeok_invariant (s : St) (ops : List Op) (hb : BuiltinBounded s) (h : InRange s) (ht : TypeOk s) (htc : s.typeCheck = true) :
    InRange (run s ops) ∧ TypeOk (run s ops) := by
  have hg : ∀ ec ∈ s.ecs, Good s.typeCheck ec := by
    intro ec hm
    refine ⟨(h ec hm).1, (h ec hm).2, ?_⟩
    by_cases hi : ec.intTyped = true
    · simp [ht ec hm hi]
    · simp [hi]
  have hr := run_good ops s hb hg
  have htc' : (run s ops).typeCheck = true := (run_typeCheck ops s hb).trans htc
  constructor
  · intro ec hm; exact ⟨(hr ec hm).1, (hr ec hm).2.1⟩
  · intro ec hm hi
    obtain ⟨_, _, h3⟩ := hr ec hm
    simpa [htc', hi] using h3

/-! ## the two GEM-defined constants: the integer actually in force stays within the declared limits -/

theorem tdiv_in_range (a b num m : Int) (hm : 0 < m) (h1 : a * m ≤ num) (h2 : num ≤ b * m) :
    a ≤ Int.tdiv num m ∧ Int.tdiv num m ≤ b := by
  by_cases hn : 0 ≤ num
  · rw [Int.tdiv_eq_ediv_of_nonneg hn]
    exact ⟨Int.le_ediv_of_mul_le hm h1, Int.ediv_le_of_le_mul hm h2⟩
  · have hn' : 0 ≤ -num := by omega
    have e : num = -(-num) := by omega
    rw [e, Int.neg_tdiv, Int.tdiv_eq_ediv_of_nonneg hn']
    have h3 : (-num) / m ≤ -a := Int.ediv_le_of_le_mul hm (by rw [Int.neg_mul]; omega)
    have h4 : -b ≤ (-num) / m := Int.le_ediv_of_mul_le hm (by rw [Int.neg_mul]; omega)
    omega

/-- `int(x)` of a value within integer limits is within those limits -/
theorem trunc_in_range {x : Num} {a b : Int} (h1 : x.geC ⟨a, 0⟩ = true) (h2 : x.leC ⟨b, 0⟩ = true) :
    a ≤ trunc x ∧ trunc x ≤ b := by
  cases x with
  | int n =>
    simp only [Num.geC, Num.leC, Dy.le, decide_eq_true_eq, Int.pow_zero, Int.mul_one] at h1 h2
    exact ⟨h1, h2⟩
  | flt d =>
    simp only [Num.geC, Num.leC, Dy.le, decide_eq_true_eq, Int.pow_zero, Int.mul_one] at h1 h2
    have hm : (0 : Int) < 2 ^ d.k := Int.pow_pos (by decide)
    exact tdiv_in_range a b d.num (2 ^ d.k) hm h1 h2
  | nan => simp [Num.geC] at h1
  | inf neg => cases neg <;> simp [Num.geC, Num.leC] at h1 h2

/-- for ECID 1 / 2, if the limits are declared as integers, the timeout / time format in force is within them -/
def BuiltinsOk (s : St) : Prop :=
  (∀ ec a b, s.findEc (.nums [1]) = some ec → ec.min = some ⟨a, 0⟩ → ec.max = some ⟨b, 0⟩ → a ≤ s.ect ∧ s.ect ≤ b)
  ∧ (∀ ec a b, s.findEc (.nums [2]) = some ec → ec.min = some ⟨a, 0⟩ → ec.max = some ⟨b, 0⟩ → a ≤ s.timeFormat ∧ s.timeFormat ≤ b)

theorem ect_setOne (s : St) (i : Id) (x : Num) : (setOne s i x).ect = if i = .nums [1] then trunc x else s.ect := by
  unfold setOne ecKind
  by_cases h1 : i = .nums [1]
  · simp [h1]
  · by_cases h2 : i = .nums [2] <;> simp [h1, h2]

theorem tf_setOne (s : St) (i : Id) (x : Num) : (setOne s i x).timeFormat = if i = .nums [2] then trunc x else s.timeFormat := by
  unfold setOne ecKind
  by_cases h1 : i = .nums [1]
  · have : ¬ (Id.nums [1] = Id.nums [2]) := by decide
    simp [h1, this]
  · by_cases h2 : i = .nums [2] <;> simp [h1, h2]

theorem dy_eta (d : Dy) (h : d.k = 0) : d = ⟨d.num, 0⟩ := by cases d; simp_all

theorem builtins_setOne {s : St} {i : Id} {x : Num} (hb : BuiltinsOk s) (hf : Fits s (i, .num x)) : BuiltinsOk (setOne s i x) := by
  obtain ⟨ecf, y, hfe, hv, h1, h2, _⟩ := hf
  simp only at hfe hv
  cases hv
  constructor
  · intro ec' a b hf' hk1 hk2
    rw [findEc_setOne] at hf'
    cases h0 : s.findEc (.nums [1]) with
    | none => rw [h0] at hf'; cases hf'
    | some ec0 =>
      rw [h0] at hf'
      simp only [Option.map_some, Option.some.injEq] at hf'
      rw [ect_setOne]
      by_cases hi : i = .nums [1]
      · subst hi
        simp only [if_true] at hf' ⊢
        rw [h0] at hfe; cases hfe
        subst hf'
        simp only at hk1 hk2
        rw [hk1] at h1
        rw [hk2] at h2
        exact trunc_in_range (by simpa [Num.geO] using h1) (by simpa [Num.leO] using h2)
      · simp only [hi, if_false] at hf' ⊢
        subst hf'
        exact hb.1 _ a b h0 hk1 hk2
  · intro ec' a b hf' hk1 hk2
    rw [findEc_setOne] at hf'
    cases h0 : s.findEc (.nums [2]) with
    | none => rw [h0] at hf'; cases hf'
    | some ec0 =>
      rw [h0] at hf'
      simp only [Option.map_some, Option.some.injEq] at hf'
      rw [tf_setOne]
      by_cases hi : i = .nums [2]
      · subst hi
        simp only [if_true] at hf' ⊢
        rw [h0] at hfe; cases hfe
        subst hf'
        simp only at hk1 hk2
        rw [hk1] at h1
        rw [hk2] at h2
        exact trunc_in_range (by simpa [Num.geO] using h1) (by simpa [Num.leO] using h2)
      · simp only [hi, if_false] at hf' ⊢
        subst hf'
        exact hb.2 _ a b h0 hk1 hk2

theorem builtins_applyAll : ∀ (req : List (Id × Ecv)) (s : St), BuiltinsOk s → (∀ p ∈ req, Fits s p) → BuiltinsOk (applyAll s req)
  | [], _, hb, _ => hb
  | (i, v) :: rest, s, hb, hf => by
    obtain ⟨ec, x, hfe, hv, h1, h2, h3⟩ := hf (i, v) List.mem_cons_self
    simp only at hv
    subst hv
    simp only [applyAll, List.foldl_cons, numOf]
    exact builtins_applyAll rest (setOne s i x) (builtins_setOne hb ⟨ec, x, hfe, rfl, h1, h2, h3⟩)
      (fun p hp => fits_setOne i x (hf p (List.mem_cons_of_mem _ hp)))

theorem step_builtins (s : St) (op : Op) (hbb : BuiltinBounded s) (hb : BuiltinsOk s) : BuiltinsOk (step s op).1 := by
  rcases step_ecs s op hbb with h | ⟨req, h, hf⟩
  · unfold BuiltinsOk St.findEc
    rw [h.1, h.2.2.1, h.2.2.2]
    exact hb
  · rw [h]; exact builtins_applyAll req s hb hf

/-- **The timeout / time format in force never leave the declared integer limits**, after every history. -/
theorem builtin_ints_in_range : ∀ (ops : List Op) (s : St), BuiltinBounded s → BuiltinsOk s → BuiltinsOk (run s ops)
  | [], _, _, h => h
  | op :: ops, s, hbb, h => builtin_ints_in_range ops _ (step_bb s op hbb) (step_builtins s op hbb h)

/-! ## alarms -/

/-- **S5F1 exactly on changes of enabled alarms (set).**  For a known alarm: a report `(ALCD | 0x80, ALID, ALTX)` is sent iff
the alarm was not set and is enabled at that moment; the alarm is set afterwards; nothing else changes. -/
theorem set_alarm_reports (s : St) (i : Id) (a : Alarm) (h : s.findAlarm i = some a) :
    (setAlarm s i).2 = .ok (setReports a i)
    ∧ (setAlarm s i).1 = (if a.set then s else { s with alarms := updFirst (fun b => b.id = i) (fun b => { b with set := true }) s.alarms }) := by
  unfold setAlarm setReports
  simp only [h]
  cases a.set <;> cases a.enabled <;> simp

theorem clear_alarm_reports (s : St) (i : Id) (a : Alarm) (h : s.findAlarm i = some a) :
    (clearAlarm s i).2 = .ok (clearReports a i)
    ∧ (clearAlarm s i).1 = (if a.set then { s with alarms := updFirst (fun b => b.id = i) (fun b => { b with set := false }) s.alarms } else s) := by
  unfold clearAlarm clearReports
  simp only [h]
  cases a.set <;> cases a.enabled <;> simp

/-- **Whether the host answers the S5F1 does not matter**: state and reports of `set_alarm`/`clear_alarm` are the same with an
S5F2 within T3 and with none — the alarm is latched because the equipment-side change happened; hence `set_alarm_reports` /
`clear_alarm_reports` (stated for the answered case) hold for the unanswered case too, and a repeated `set_alarm` after an
unanswered report sends no second S5F1. -/
theorem alarm_reply_independent (s : St) (i : Id) (r1 r2 : Bool) :
    setAlarm s i r1 = setAlarm s i r2 ∧ clearAlarm s i r1 = clearAlarm s i r2 := ⟨rfl, rfl⟩

/-- an unknown alarm id raises and changes nothing -/
theorem alarm_unknown (s : St) (i : Id) (h : s.findAlarm i = none) :
    setAlarm s i = (s, .error .valueError) ∧ clearAlarm s i = (s, .error .valueError) := by
  simp [setAlarm, clearAlarm, h]

/-- **S5F5**: when it answers, the rows are exactly the requested alarms in request order (all alarms for an empty request),
each with ALCD bit 8 = its current set state. -/
theorem s5f5Loop_rows (s : St) : ∀ (ids : List Id) (rows : List AlarmRow), s5f5Loop s ids = .ok rows →
    rows.map some = ids.map (fun i => (s.findAlarm i).map (alarmRow i))
  | [], rows, h => by simp [s5f5Loop] at h; subst h; rfl
  | i :: rest, rows, h => by
    simp only [s5f5Loop] at h
    split at h
    · cases hf : s.findAlarm i with
      | none => simp only [hf] at h; cases h
      | some a =>
        simp only [hf] at h
        cases hr : s5f5Loop s rest with
        | error e => simp only [hr] at h; cases h
        | ok rs =>
          simp only [hr] at h
          cases h
          simp [s5f5Loop_rows s rest rs hr, hf]
    · cases h

theorem s5f5_lists (s : St) (alids : List Id) (rows : List AlarmRow) (h : Tab.s5f5 s alids = .ok rows) :
    rows.map some = Spec.GemTables.s5f5 s alids := by
  unfold Tab.s5f5 at h
  unfold Spec.GemTables.s5f5
  cases alids with
  | nil => simpa using s5f5Loop_rows s _ rows h
  | cons i rest =>
    simp only [List.isEmpty_cons, Bool.false_eq_true, if_false] at h
    simpa using s5f5Loop_rows s _ rows h

/-- … and it does answer when every requested id is a single-valued known alarm id -/
theorem s5f5_answers (s : St) : ∀ ids : List Id, (∀ i ∈ ids, i.scalar = true ∧ s.findAlarm i ≠ none) → ∃ rows, s5f5Loop s ids = .ok rows
  | [], _ => ⟨[], rfl⟩
  | i :: rest, h => by
    obtain ⟨hs, hk⟩ := h i List.mem_cons_self
    obtain ⟨rs, hr⟩ := s5f5_answers s rest (fun x hx => h x (List.mem_cons_of_mem _ hx))
    cases hf : s.findAlarm i with
    | none => exact absurd hf hk
    | some a => exact ⟨alarmRow i a :: rs, by simp [s5f5Loop, hs, hf, hr]⟩

/-- **S5F7** lists exactly the enabled alarms, in table order, with their current set state. -/
theorem s5f7_exact (s : St) (r : AlarmRow) :
    (r ∈ s5f7 s ↔ ∃ a ∈ s.alarms, a.enabled = true ∧ r = ⟨a.code ||| (if a.set then 128 else 0), a.id, a.text⟩)
    ∧ (s5f7 s).map (·.id) = (s.alarms.filter (·.enabled)).map (·.id) := by
  unfold s5f7 alarmRow
  constructor
  · simp only [List.mem_map, List.mem_filter]
    constructor
    · rintro ⟨a, ⟨hm, he⟩, rfl⟩; exact ⟨a, hm, he, rfl⟩
    · rintro ⟨a, hm, he, rfl⟩; exact ⟨a, ⟨hm, he⟩, rfl⟩
  · simp [List.map_map]

/-- **S5F3** switches exactly the addressed alarm's enable flag (ALED bit 8), answers 1 for an unknown id. -/
theorem s5f3_effect (s : St) (aled : Nat) (i : Id) (hs : i.scalar = true) :
    (s.findAlarm i = none → s5f3 s aled i = (s, .code 1))
    ∧ (∀ a, s.findAlarm i = some a → s5f3 s aled i =
        ({ s with alarms := updFirst (fun b => b.id = i) (fun b => { b with enabled := decide (aled = 128) }) s.alarms }, .code 0)) := by
  unfold s5f3
  simp only [hs, if_true]
  constructor
  · intro h; simp [h]
  · intro a h; simp [h]

/-! ## non-vacuity, and the finding -/

/-- the harness configuration (shape): two GEM constants, an integer-typed and a float-typed one -/
def s0 (tc : Bool) : St :=
  { svs := [⟨.nums [1001], "Clock", "", .clock, .nums [0]⟩, ⟨.nums [30], "sv30", "u", .cell, .nums [7]⟩],
    ecs := [⟨.nums [1], "EstablishCommunicationsTimeout", some ⟨10, 0⟩, false, some ⟨120, 0⟩, false, .int 10, "sec", true, .int 10⟩,
            ⟨.nums [2], "TimeFormat", some ⟨0, 0⟩, false, some ⟨2, 0⟩, false, .int 1, "", true, .int 1⟩,
            ⟨.nums [30], "ec30", some ⟨0, 0⟩, false, some ⟨100, 0⟩, false, .int 50, "u", true, .int 50⟩,
            ⟨.nums [35], "ec35", some ⟨0, 0⟩, false, none, false, .int 5, "", true, .int 5⟩,
            ⟨.nums [36], "ec36", none, false, some ⟨0, 0⟩, false, .int (-5), "", true, .int (-5)⟩,
            ⟨.text "ecf", "ecf", some ⟨-3, 1⟩, true, some ⟨3, 1⟩, true, .flt ⟨0, 0⟩, "u", false, .flt ⟨0, 0⟩⟩],
    alarms := [⟨.nums [7], 3, "hot", false, false⟩],
    ect := 10, timeFormat := 1, clock0 := "c0", clock2 := "c2", clock1 := "c1", controlState := 3, eventsEnabled := [],
    typeCheck := tc }

example : InRange (s0 false) := by unfold InRange; decide +kernel
example : BuiltinsOk (s0 false) := by
  constructor <;> intro ec a b hf h1 h2 <;> simp [s0, St.findEc] at hf <;> subst hf <;>
    simp only [Option.some.injEq, Dy.mk.injEq, and_true] at h1 h2 <;> subst h1 h2 <;> decide
example : BuiltinBounded (s0 false) := by
  intro i ec hf hk
  have hm : ec ∈ (s0 false).ecs := List.mem_of_find?_eq_some hf
  have hid : ec.id = i := by simpa using List.find?_some hf
  subst hid
  simp only [s0, List.mem_cons, List.not_mem_nil, or_false] at hm
  rcases hm with rfl | rfl | rfl | rfl | rfl | rfl <;> first | exact ⟨rfl, rfl⟩ | exact absurd rfl hk
example : TypeOk (s0 true) := by unfold TypeOk; decide +kernel

/-- accepted request with two constants, NaN refused without touching the first constant (finding F-17, fixed) -/
example : (s2f15 (s0 false) [(.nums [30], .num (.int 7)), (.text "ecf", .num (.flt ⟨3, 1⟩))]).2 = .code 0 := by decide +kernel
example : s2f15 (s0 false) [(.nums [2], .num (.int 0)), (.nums [1], .num .nan)] = (s0 false, .code 3) := by decide +kernel
example : s2f15 (s0 false) [(.nums [30], .num (.int 7)), (.nums [30], .other)] = (s0 false, .abort) := by decide +kernel
example : (setAlarm (s5f3 (s0 false) 128 (.nums [7])).1 (.nums [7])).2 = .ok [⟨131, .nums [7], "hot"⟩] := by decide +kernel
/-- an unanswered S5F1 still latches the alarm: the repeated set sends nothing -/
example : (setAlarm (setAlarm (s5f3 (s0 false) 128 (.nums [7])).1 (.nums [7]) false).1 (.nums [7]) true).2 = .ok [] := by decide +kernel

/-- constants with one limit only: the declared side is checked, the other side is open -/
example : (s2f15 (s0 false) [(.nums [35], .num (.int 1000000))]).2 = .code 0 := by decide +kernel
example : s2f15 (s0 false) [(.nums [30], .num (.int 7)), (.nums [35], .num (.int (-1)))] = (s0 false, .code 3) := by decide +kernel
example : s2f15 (s0 false) [(.nums [36], .num (.int 1))] = (s0 false, .code 3) := by decide +kernel
example : (s2f15 (s0 false) [(.nums [36], .num (.int (-1000000)))]).2 = .code 0 := by decide +kernel

/-- **Witness (finding, code as it is, `typeCheck = false`).**  S2F15 accepts the float 1.5 for the integer-typed constant 30
(it lies within `[0, 100]`); afterwards S2F13 — for that constant and for the whole table — is an abort instead of the reply
the property demands: `TypeOk` is not an invariant of the unpatched handler. -/
theorem witness_float_on_int_constant :
    let r := s2f15 (s0 false) [(.nums [30], .num (.flt ⟨3, 1⟩))]
    r.2 = .code 0 ∧ Tab.s2f13 r.1 [.nums [30]] = .error .valueError ∧ Tab.s2f13 r.1 [] = .error .valueError ∧ ¬ TypeOk r.1 := by
  refine ⟨by decide +kernel, by decide +kernel, by decide +kernel, ?_⟩
  intro h
  have := h ⟨.nums [30], "ec30", some ⟨0, 0⟩, false, some ⟨100, 0⟩, false, .int 50, "u", true, .flt ⟨3, 1⟩⟩ (by decide +kernel) rfl
  revert this; decide

/-- with the proposed pre-check the same request is refused with EAC 3 and nothing changes -/
example : s2f15 (s0 true) [(.nums [30], .num (.flt ⟨3, 1⟩))] = (s0 true, .code 3) := by decide +kernel

end SecsModel.Props.C13
