import SecsModel.Gen.Sml
import SecsModel.Model.Sml
import SecsModel.Proofs.SmlParse
import SecsModel.Proofs.SmlTotal
import SecsModel.Proofs.SmlReject
/-!
# C15 — SML text of any item parses back to the same item; the parser terminates; unclosed / unknown-type input is rejected

Only property theorems, non-vacuity `example`s and counterexample (witness) theorems live here.
The model is `Model/Sml.lean`; `fmtF`/`parseF` stand for Python's `repr(float)` / `float(text)` and are constrained by the
hypotheses `FloatLaws` (print/parse) and `FloatRejectsBrackets` (rejection) only.
-/
namespace SecsModel.Props.C15
open SecsModel.Model.Sml SecsModel.Proofs.Sml

/-! ## the generated constants are the ones the hand model uses -/

/-- tokenizer character classes, bracket / terminator literals of `item.py`, the type-name table and the numeric bounds, as generated
from the source, are those of `Model.Sml` -/
theorem gen_constants :
    (∀ c, isWs c = true ↔ c ∈ SecsModel.Gen.Sml.whitespaces)
    ∧ (∀ c, isOp c = true ↔ c ∈ SecsModel.Gen.Sml.operators)
    ∧ (∀ c, isDelim c = true ↔ c ∈ SecsModel.Gen.Sml.literalDelimiter)
    ∧ SecsModel.Gen.Sml.openLit = [60] ∧ SecsModel.Gen.Sml.lenOpenLit = [91] ∧ SecsModel.Gen.Sml.lenCloseLit = [93]
    ∧ SecsModel.Gen.Sml.closersLit = [62, 46]
    ∧ (∀ n ∈ SecsModel.Gen.Sml.typeNames, (typeTable.lookup n).isSome = true)
    ∧ (∀ p ∈ typeTable, p.1 ∈ SecsModel.Gen.Sml.typeNames)
    ∧ (∀ t : IntTy, (t.name, t.min, t.max) ∈ SecsModel.Gen.Sml.intBounds) ∧ SecsModel.Gen.Sml.intBounds.length = 8
    ∧ (∀ t : FltTy, (t.name, t.maxBits + 2 ^ 63, t.maxBits) ∈ SecsModel.Gen.Sml.fltBounds) ∧ SecsModel.Gen.Sml.fltBounds.length = 2
    ∧ SecsModel.Gen.Sml.otherBounds = [(tyL, none), (tyB, some (0, 255)), (tyBOOLEAN, some (0, 1)), (tyJ, some (0, 255)), (tyA, some (0, 255))] := by
  refine ⟨?_, ?_, ?_, by decide, by decide, by decide, by decide, by decide, by decide, ?_, by decide, ?_, by decide, by decide⟩
  · intro c; simp [isWs, SecsModel.Gen.Sml.whitespaces, or_assoc]
  · intro c; simp [isOp, SecsModel.Gen.Sml.operators, or_assoc]
  · intro c; simp [isDelim, SecsModel.Gen.Sml.literalDelimiter]
  · intro t; cases t <;> decide
  · intro t; cases t <;> decide

/-- `printable_chars` of the three string classes is one set; it is the model's `isPrintable`, with the flag `quotePrintable`
being exactly "the set contains `\"`" -/
theorem gen_printable :
    SecsModel.Gen.Sml.printableJ = SecsModel.Gen.Sml.printableA ∧ SecsModel.Gen.Sml.printableStr = SecsModel.Gen.Sml.printableA
    ∧ (∀ x ∈ SecsModel.Gen.Sml.printableA, x < 128)
    ∧ (∀ c, c < 128 → isPrintable ⟨SecsModel.Gen.Sml.printableA.contains 34, false⟩ c = SecsModel.Gen.Sml.printableA.contains c) := by
  refine ⟨by decide +kernel, by decide +kernel, by decide +kernel, by decide +kernel⟩

/-- the generated `jis8_decoding_map` is `jisDecode`, and `jisEncode` inverts it on all 256 bytes -/
theorem gen_jis8 :
    SecsModel.Gen.Sml.jis8Decoding.length = 256
    ∧ (∀ b, b < 256 → SecsModel.Gen.Sml.jis8Decoding[b]? = some (jisDecode b))
    ∧ (∀ b, b < 256 → jisEncode (jisDecode b) = some b) := by
  refine ⟨by decide +kernel, by decide +kernel, by decide +kernel⟩

/-! ## print → parse -/

/-- Core statement for any defect variant `d`, on the items that are safe for `d`. -/
theorem print_parse_variant (d : Defects) (fmtF : Nat → Text) (parseF : Text → Option Nat) (hF : FloatLaws fmtF parseF)
    (v : Item) (hv : v.valid = true) (hs : safeItem d v = true) (ind : Nat) :
    parse parseF (toSml d fmtF ind v) = .ok v
    ∧ parseTokens parseF (tokenize (toSml d fmtF ind v)) = .ok (v, []) := by
  have htok : tokenize (toSml d fmtF ind v) = toksOf d fmtF v := by
    have := tok_item d fmtF parseF hF v hv hs ind []
    simpa [tokenize, tokGo] using this
  have hp : parseTokens parseF (toksOf d fmtF v) = .ok (v, []) := by
    have := parse_item d fmtF parseF hF v hv hs ((toksOf d fmtF v).length + 1) [] (by omega)
    simpa [parseTokens] using this
  constructor
  · unfold parse; rw [htok, hp]
  · rw [htok, hp]

/-- **C15, print/parse, all items** (repaired printing, `Defects.none`): for every valid item — any type, any nesting, empty
items, every byte value in A/J text, every in-range number — the SML text parses back to exactly that item, and the parser
consumes every token of it.  `fmtF`/`parseF` are any float printer/reader satisfying `FloatLaws`. -/
theorem C15_print_parse (fmtF : Nat → Text) (parseF : Text → Option Nat) (hF : FloatLaws fmtF parseF)
    (v : Item) (hv : v.valid = true) :
    parse parseF (toSml Defects.none fmtF 0 v) = .ok v
    ∧ parseTokens parseF (tokenize (toSml Defects.none fmtF 0 v)) = .ok (v, []) :=
  print_parse_variant Defects.none fmtF parseF hF v hv (safe_none v) 0

/-- indentation does not matter (the children of a list are printed with `indent + 4`) -/
theorem C15_print_parse_indent (fmtF : Nat → Text) (parseF : Text → Option Nat) (hF : FloatLaws fmtF parseF)
    (v : Item) (hv : v.valid = true) (ind : Nat) :
    parse parseF (toSml Defects.none fmtF ind v) = .ok v :=
  (print_parse_variant Defects.none fmtF parseF hF v hv (safe_none v) ind).1

/-- **C15, print/parse, the code as it is** (`Defects.current`): the same statement restricted to items whose A/J text contains no
`"` and whose J text consists of bytes that `jis_8` decodes to themselves (everything except 5c, 7e, a1..df — in particular all
J text whose decoded characters are ASCII). -/
theorem C15_print_parse_partial (fmtF : Nat → Text) (parseF : Text → Option Nat) (hF : FloatLaws fmtF parseF)
    (v : Item) (hv : v.valid = true) (hs : safeItem Defects.current v = true) :
    parse parseF (toSml Defects.current fmtF 0 v) = .ok v
    ∧ parseTokens parseF (tokenize (toSml Defects.current fmtF 0 v)) = .ok (v, []) :=
  print_parse_variant Defects.current fmtF parseF hF v hv hs 0

/-- the two single-defect variants (one repair applied without the other) -/
theorem C15_print_parse_partial_quote_only (fmtF : Nat → Text) (parseF : Text → Option Nat) (hF : FloatLaws fmtF parseF)
    (v : Item) (hv : v.valid = true) (hs : safeItem ⟨true, false⟩ v = true) :
    parse parseF (toSml ⟨true, false⟩ fmtF 0 v) = .ok v :=
  (print_parse_variant ⟨true, false⟩ fmtF parseF hF v hv hs 0).1

theorem C15_print_parse_partial_jis8_only (fmtF : Nat → Text) (parseF : Text → Option Nat) (hF : FloatLaws fmtF parseF)
    (v : Item) (hv : v.valid = true) (hs : safeItem ⟨false, true⟩ v = true) :
    parse parseF (toSml ⟨false, true⟩ fmtF 0 v) = .ok v :=
  (print_parse_variant ⟨false, true⟩ fmtF parseF hF v hv hs 0).1

/-! non-vacuity: a float printer/reader satisfying the laws exists (fixed-width hex of the bit pattern), and a valid, nested item
with quotes, control characters, bytes ≥ 0x80, boundary numbers and empty items -/

def demoFmt (b : Nat) : Text := natText 14 b
def demoParse (t : Text) : Option Nat := digitsGo 16 t 0 false 0

theorem demo_laws : FloatLaws demoFmt demoParse :=
  ⟨fun b _ _ => ⟨natText_ne_nil 14 b, fun c hc => isDigitCh_plain (natText_digits 14 b (by omega) c hc)⟩,
   fun b _ _ => digitsGo_natText 14 b (by omega)⟩

def demoItem : Item :=
  .list [.strA [97, 34, 98, 10, 255, 32, 62], .strJ [0x5C, 0xA1, 65, 34, 0x7E], .list [], .list [.list [.bin []]],
         .int .i8 [-9223372036854775808, 9223372036854775807], .int .u1 [], .bool [true, false], .bin [0, 255],
         .flt .f4 [0x47EFFFFFE0000000, 0x8000000000000000], .flt .f8 [0x7FEFFFFFFFFFFFFF, 1]]

example : demoItem.valid = true := by decide +kernel
example : parse demoParse (toSml Defects.none demoFmt 0 demoItem) = .ok demoItem :=
  (C15_print_parse demoFmt demoParse demo_laws demoItem (by decide +kernel)).1
/-- the partial theorem's hypothesis is satisfiable by an item with text in it -/
example : safeItem Defects.current (.list [.strA [97, 39, 10, 255], .strJ [65, 0x80, 0xA0, 0xE0, 0xFF, 10]]) = true := by decide +kernel
/-- … and excludes the witnesses -/
example : safeItem Defects.current (.strA [97, 34, 98]) = false ∧ safeItem Defects.current (.strJ [0x5C, 0xA1, 65]) = false := by
  decide +kernel

/-! ## witnesses: the unchanged code (`Defects.current`) does not round-trip -/

/-- F-19: `ItemA('a"b')` prints `< A "a"b">`; the tokenizer yields `<`, `A`, `"a"` and loses the rest, the parser runs out of
tokens (`IndexError`).  For every float printer/reader. -/
theorem C15_witness_quote (fmtF : Nat → Text) (parseF : Text → Option Nat) :
    toSml Defects.current fmtF 0 (.strA [97, 34, 98]) = [60, 32, 65, 32, 34, 97, 34, 98, 34, 62]
    ∧ tokenize (toSml Defects.current fmtF 0 (.strA [97, 34, 98])) = [[60], [65], [34, 97, 34]]
    ∧ parse parseF (toSml Defects.current fmtF 0 (.strA [97, 34, 98])) = .error .index :=
  ⟨rfl, rfl, rfl⟩

/-- F-19, silent variant: `ItemA('""')` prints `< A """">`, which parses — to the empty string. -/
theorem C15_witness_quote_silent (fmtF : Nat → Text) (parseF : Text → Option Nat) :
    parse parseF (toSml Defects.current fmtF 0 (.strA [34, 34])) = .ok (.strA []) := rfl

/-- F-20: `ItemJ(b"\x5c\xa1A")` prints `< J 0xa5 0xff61 "A">` (codes of the decoded characters U+00A5, U+FF61); `0xff61` is out of
bounds for J (`SMLParseError`). -/
theorem C15_witness_jis8 (fmtF : Nat → Text) (parseF : Text → Option Nat) :
    toSml Defects.current fmtF 0 (.strJ [0x5C, 0xA1, 65])
      = [60, 32, 74, 32, 48, 120, 97, 53, 32, 48, 120, 102, 102, 54, 49, 32, 34, 65, 34, 62]
    ∧ parse parseF (toSml Defects.current fmtF 0 (.strJ [0x5C, 0xA1, 65])) = .error .parse :=
  ⟨rfl, rfl⟩

/-- F-20, silent variant: `ItemJ(b"\x5c")` prints `< J 0xa5>`, which parses — to the byte a5 (HALFWIDTH KATAKANA, not YEN). -/
theorem C15_witness_jis8_silent (fmtF : Nat → Text) (parseF : Text → Option Nat) :
    parse parseF (toSml Defects.current fmtF 0 (.strJ [0x5C])) = .ok (.strJ [0xA5]) := rfl

/-- each flag alone already breaks its witness; the repaired variant reads both back -/
theorem C15_witness_flags (fmtF : Nat → Text) (parseF : Text → Option Nat) :
    parse parseF (toSml ⟨true, false⟩ fmtF 0 (.strA [97, 34, 98])) = .error .index
    ∧ parse parseF (toSml ⟨false, true⟩ fmtF 0 (.strJ [0x5C, 0xA1, 65])) = .error .parse
    ∧ parse parseF (toSml Defects.none fmtF 0 (.strA [97, 34, 98])) = .ok (.strA [97, 34, 98])
    ∧ parse parseF (toSml Defects.none fmtF 0 (.strJ [0x5C, 0xA1, 65])) = .ok (.strJ [0x5C, 0xA1, 65]) :=
  ⟨rfl, rfl, rfl, rfl⟩

/-! ## termination -/

/-- **C15, termination.**  `parseTokens` (fuel = token count + 1) never exhausts its fuel, on any token list whatsoever: the
recursion of the real parser terminates.  A returned item consumed at least three tokens (`<`, type, closer); any larger fuel gives
the same answer, so the fuel is not a cut-off. -/
theorem C15_total (parseF : Text → Option Nat) (ts : List Text) :
    parseTokens parseF ts ≠ .error .fuel
    ∧ (∀ v r, parseTokens parseF ts = .ok (v, r) → r.length + 3 ≤ ts.length)
    ∧ (∀ k, readItem parseF (ts.length + 1 + k) ts = parseTokens parseF ts) := by
  have h := (read_good parseF (ts.length + 1)).1 ts (Nat.le_refl _)
  exact ⟨h.1, h.2, readItem_fuel_irrelevant parseF ts⟩

/-- on text: `parse` returns an item or one of the three Python exceptions, never the fuel error -/
theorem C15_total_text (parseF : Text → Option Nat) (s : Text) : parse parseF s ≠ .error .fuel := by
  unfold parse
  have := (C15_total parseF (tokenize s)).1
  cases h : parseTokens parseF (tokenize s) with
  | ok p => simp
  | error e => intro he; injection he with he; subst he; exact this h

/-- the tokenizer emits at most one token per character, plus one per operator character -/
example : tokenize [60, 32, 85, 49, 32, 49, 50, 32, 62] = [[60], [85, 49], [49, 50], [62]] := by decide
/-- no flush at end of input: the pending token `12` is lost -/
example : tokenize [60, 32, 85, 49, 32, 49, 50] = [[60], [85, 49]] := by decide

/-! ## rejection -/

/-- **C15, unclosed / unknown type.**  Whatever the parser accepts is well-bracketed: the consumed tokens `pre` start with `<`
followed by a known type name, every inner `<` is followed by a known type name, and the brackets (closers: `>` and, as the code has
it, `.`) return to depth 0 for the first time exactly at the last consumed token.  So text whose tokens have no such prefix —
a missing closing bracket, an unknown type name after any consumed `<` — is never parsed to an item. -/
theorem C15_reject_unclosed (parseF : Text → Option Nat) (hP : FloatRejectsBrackets parseF) (ts : List Text) (v : Item) (r : List Text)
    (h : parseTokens parseF ts = .ok (v, r)) :
    ∃ pre, ts = pre ++ r ∧ balancedItem pre = true := by
  obtain ⟨pre, hpre, hk, hc⟩ := (read_shape parseF hP (ts.length + 1)).1 ts v r h
  exact ⟨[60] :: pre, by rw [hpre], by simp [balancedItem, hk, hc]⟩

/-- the direct form: a token list with no balanced prefix is rejected (with one of the Python exceptions, not by running out of fuel) -/
theorem C15_reject_no_balanced_prefix (parseF : Text → Option Nat) (hP : FloatRejectsBrackets parseF) (ts : List Text)
    (hno : ∀ pre r, ts = pre ++ r → balancedItem pre = false) :
    ∃ e, parseTokens parseF ts = .error e ∧ e ≠ .fuel := by
  cases h : parseTokens parseF ts with
  | error e => exact ⟨e, rfl, fun he => (C15_total parseF ts).1 (by rw [h, he])⟩
  | ok p =>
    obtain ⟨v, r⟩ := p
    obtain ⟨pre, hpre, hb⟩ := C15_reject_unclosed parseF hP ts v r h
    rw [hno pre r hpre] at hb; cases hb

/-- **C15, a missing closing bracket.**  Take any token list that parses completely to an item (nothing left over) and delete any
one of its closing tokens (`>`, or `.` where the code takes it for one): the result is rejected with a Python exception. -/
theorem C15_reject_deleted_closer (parseF : Text → Option Nat) (hP : FloatRejectsBrackets parseF) (a b : List Text) (c : Text)
    (v : Item) (hc : isCloser c = true) (h : parseTokens parseF (a ++ c :: b) = .ok (v, [])) :
    ∃ e, parseTokens parseF (a ++ b) = .error e ∧ e ≠ .fuel := by
  obtain ⟨pre, hpre, hb⟩ := C15_reject_unclosed parseF hP _ v [] h
  rw [List.append_nil] at hpre
  rw [← hpre] at hb
  exact C15_reject_no_balanced_prefix parseF hP (a ++ b) (balancedItem_delete_closer a b c hc hb)

/-- non-vacuity: `< L [1] < U1 1 > >` parses completely; without its inner `>` it is rejected -/
example : parseTokens demoParse ([[60], [76], [91], [49], [93], [60], [85, 49], [49]] ++ [62] :: [[62]]) = .ok (.list [.int .u1 [1]], []) := rfl
example : parseTokens demoParse ([[60], [76], [91], [49], [93], [60], [85, 49], [49]] ++ [[62]]) = .error .index := rfl

/-- **C15, unknown type name** at the top: `<` followed by a token that is not (case-insensitively) one of the fifteen type names is
an `SMLParseError`, whatever follows. -/
theorem C15_reject_unknown_type (parseF : Text → Option Nat) (ty : Text) (rest : List Text) (h : typeOf ty = none) :
    parseTokens parseF ([60] :: ty :: rest) = .error .parse := by
  simp [parseTokens, readItem, h]

/-- non-vacuity of the rejection statements: `< U1 1` + nothing, `< L < U1 1 >` (inner closed, outer not), `< U3 1 >` -/
example : ∀ pre r, [[60], [85, 49], [49]] = pre ++ r → balancedItem pre = false := by
  intro pre r h
  have : pre ∈ [[], [[60]], [[60], [85, 49]], [[60], [85, 49], [49]]] := by
    have hp : pre = ([[60], [85, 49], [49]] : List Text).take pre.length := by rw [h]; simp
    have hl : pre.length ≤ 3 := by have := congrArg List.length h; simp at this; omega
    rw [hp]
    rcases Nat.lt_or_ge pre.length 1 with h0 | h0
    · have : pre.length = 0 := by omega
      rw [this]; simp
    · rcases Nat.lt_or_ge pre.length 2 with h1 | h1
      · have : pre.length = 1 := by omega
        rw [this]; simp
      · rcases Nat.lt_or_ge pre.length 3 with h2 | h2
        · have : pre.length = 2 := by omega
          rw [this]; simp
        · have : pre.length = 3 := by omega
          rw [this]; simp
  simp only [List.mem_cons, List.not_mem_nil, or_false] at this
  rcases this with rfl | rfl | rfl | rfl <;> decide
example : typeOf [85, 51] = none := by decide
example : typeOf [98, 111, 111, 108, 101, 97, 110] = some .boolean := by decide   -- `boolean`: names are case-insensitive
example : FloatRejectsBrackets demoParse := by unfold FloatRejectsBrackets; decide

/-- the `.` terminator (a note, not a defect): `< L < U1 1 > .` followed by whitespace parses like `< L < U1 1 > >` -/
example (parseF : Text → Option Nat) :
    parse parseF [60, 32, 76, 32, 60, 32, 85, 49, 32, 49, 32, 62, 32, 46, 32] = .ok (.list [.int .u1 [1]]) := rfl
/-- … and without the trailing whitespace the `.` is never emitted as a token (`IndexError`) -/
example (parseF : Text → Option Nat) :
    parse parseF [60, 32, 76, 32, 60, 32, 85, 49, 32, 49, 32, 62, 32, 46] = .error .index := rfl

end SecsModel.Props.C15
