import SecsModel.Proofs.SecsHandle
/-!
# C08 — every primary expecting a reply is answered exactly once, with the same system bytes

Only property theorems, non-vacuity examples and counterexample theorems live here.  The model is
`Model.SecsHandle.handle` (protocol gate → `GemHandler._on_message_received` → `_handle_stream_function` →
`_handle_unknown_functions`); which classes inherit which `_on_sXXfYY`, the catalogue, and the literals of the S9F5 / SxF0
replies are generated (`Gen.Callbacks`).  "All stream/function numbers, catalogued or not, all bodies" is the universally
quantified `m : Msg` together with the universally quantified callback outcome; "all sequences" is `handleAll` over a list.

Two behaviours of the shipped code are ruled out by the property text and recorded as findings (proposals/C08-*.md): the
secondary returned by a callback is sent even when the primary carries no W-bit (`env.wGate = false`), and the abort cannot
be built for a stream whose function 0 is not in the catalogue (`env.abortAny = false`; reachable only with a user callback on
such a stream).  A callback that returns `None` for a W-bit primary yields no reply: outside the statement ("the secondary
returned by the callback"), kept visible as `callback_none`.
-/
namespace SecsModel.Props.C08
open SecsModel SecsModel.Spec.E30Comm SecsModel.Model.SecsHandle SecsModel.Proofs.SecsHandle

/-- "while communication is established": selected link, COMMUNICATING; and — only for an even function, which is a reply and
not a primary — nobody is waiting for these system bytes (an even-function message whose system bytes match an open
transaction is the reply to *our* primary).  An odd-function primary needs no such hypothesis: it is dispatched whatever
system bytes it carries. -/
structure Established (env : Env) (m : Msg) : Prop where
  sel : env.selected = true
  comm : env.comm = .communicating
  fresh : m.f % 2 = 0 → env.waiting.contains m.sys = false

theorem not_toWaiter {env : Env} {m : Msg} (he : Established env m) : toWaiter env m = false := by
  rw [toWaiter_eq]
  by_cases h : m.f % 2 = 0
  · have hw : m.sys ∉ env.waiting := by simpa using he.fresh h
    simp [hw]
  · simp [h]

/-- the one reply the property names -/
def expected (env : Env) (m : Msg) : Frame :=
  if hasCallback env m.s m.f then
    match env.outcome m with
    | .reply s f => .data s f false m.sys .fn                    -- the secondary returned by the callback
    | _ => .data m.s 0 false m.sys .empty                        -- the stream's function 0
  else .data 9 5 false m.sys (.header m.hdr)                     -- S9F5 carrying the offending header

/-- what the callback does is one of the two outcomes the statement speaks of; for a failing callback the abort can be built -/
def Covered (env : Env) (m : Msg) : Prop :=
  hasCallback env m.s m.f = true →
    (∃ s f, env.outcome m = .reply s f) ∨ (env.outcome m = .raises ∧ (env.abortAny = true ∨ catalogued env m.s 0 = true))

/-- **Exactly one reply, same system bytes, and which one** — for every stream/function number, catalogued or not. -/
theorem exactly_one (env : Env) (m : Msg) (he : Established env m) (hw : m.w = true)
    (h95 : catalogued env 9 5 = true) (hc : Covered env m) :
    handle env m = [expected env m] ∧ (expected env m).sys = m.sys ∧ (expected env m).isData = true := by
  have hf := not_toWaiter he
  obtain ⟨hs, hcm, _⟩ := he
  refine ⟨?_, ?_, ?_⟩
  · unfold handle handleStreamFunction expected
    simp only [hs, hf, hcm, dispatches_eq, Bool.not_true, Bool.false_eq_true, if_false, decide_true, if_true]
    by_cases hcb : hasCallback env m.s m.f = true
    · simp only [hcb, Bool.not_true, Bool.false_eq_true, if_false, if_true]
      rcases hc hcb with ⟨s, f, ho⟩ | ⟨ho, ha⟩
      · simp [ho, hw]
      · simp only [ho, abort, abortFunction_eq]
        rcases ha with ha | ha <;> simp [ha]
    · simp only [hcb, Bool.not_false, if_true, Bool.false_eq_true, if_false, handleUnknown, hw, unknownReply_eq, h95]
  · unfold expected; split
    · split <;> rfl
    · rfl
  · unfold expected; split
    · split <;> rfl
    · rfl

/-- an equipment handler with nothing registered (used by the examples) -/
def eq : Env := { builtin := Gen.Callbacks.builtinGemEquipmentHandler }

/-- generated facts about the callback table: `_call` runs the registered callback before the handler's own `_on_sXXfYY`,
`__contains__` accepts either, and `_handle_stream_function` has no condition in front of the callback other than the
`not in self._callback_handler` test (in particular none on the catalogue) -/
theorem callback_table :
    Gen.Callbacks.registeredFirst = true ∧ Gen.Callbacks.containsEither = true ∧ Gen.Callbacks.unknownIffNoCallback = true := by
  decide

/-- the hand-over of a reply to the protocol thread cannot lose its wake-up: `send_message` queues the block, then triggers
(generated from the statement order; that a frame in `handle`'s result is actually written rests on this) -/
theorem reply_handed_over : Gen.Callbacks.sendPutBeforeTrigger = true := by decide

/-- a registered callback is the one that runs, also where the handler class has a built-in for the same S/F; without one
the built-in runs; `hasCallback` holds exactly when one of them runs -/
theorem registered_callback_wins (env : Env) (s f : Nat) :
    (env.user.contains (s, f) = true → selects env s f = .user) ∧
    (env.user.contains (s, f) = false → env.builtin.contains (s, f) = true → selects env s f = .builtin) ∧
    (hasCallback env s f = true ↔ selects env s f ≠ .none) := by
  have h : Gen.Callbacks.registeredFirst = true := rfl
  refine ⟨?_, ?_, ?_⟩
  · intro hu
    have hu' : (s, f) ∈ env.user := by simpa using hu
    simp [selects, h, hu']
  · intro hu hb
    have hu' : (s, f) ∉ env.user := by simpa using hu
    have hb' : (s, f) ∈ env.builtin := by simpa using hb
    simp [selects, h, hu', hb']
  · unfold hasCallback selects
    simp only [h, if_true]
    cases env.user.contains (s, f) <;> cases env.builtin.contains (s, f) <;> simp

/-- non-vacuity: S1F1 on the equipment class with and without a registered callback -/
example : selects { eq with user := [(1, 1)] } 1 1 = .user ∧ selects eq 1 1 = .builtin ∧ selects eq 64 1 = .none := by decide +kernel

/-- the shipped catalogue has S9F5, and every stream with a built-in callback (either handler class) has a function 0 -/
theorem catalogue_has_replies :
    Gen.Callbacks.catalogue.contains (9, 5) = true ∧
    (Gen.Callbacks.builtinGemEquipmentHandler ++ Gen.Callbacks.builtinGemHostHandler).all
      (fun sf => Gen.Callbacks.catalogue.contains (sf.1, Gen.Callbacks.abortFunction)) = true ∧
    Gen.Callbacks.streamsWithF0.all (fun s => Gen.Callbacks.catalogue.contains (s, 0)) = true ∧
    Gen.Callbacks.unknownReply = (9, 5) ∧ Gen.Callbacks.abortFunction = 0 := by
  decide +kernel

/-- with the shipped catalogue and a built-in callback (no user callback for that S/F) the abort can always be built: the
only hypothesis left is that the callback returns its secondary or raises -/
theorem exactly_one_builtin (env : Env) (m : Msg) (he : Established env m) (hw : m.w = true)
    (hcat : env.catalogue = Gen.Callbacks.catalogue)
    (hb : env.builtin = Gen.Callbacks.builtinGemEquipmentHandler ∨ env.builtin = Gen.Callbacks.builtinGemHostHandler)
    (hm : (m.s, m.f) ∈ env.builtin)
    (ho : (∃ s f, env.outcome m = .reply s f) ∨ env.outcome m = .raises) :
    handle env m = [expected env m] := by
  have h95 : catalogued env 9 5 = true := by unfold catalogued; rw [hcat]; exact catalogue_has_replies.1
  have h0 : catalogued env m.s 0 = true := by
    unfold catalogued; rw [hcat]
    have hall := catalogue_has_replies.2.1
    rw [List.all_eq_true] at hall
    have := hall (m.s, m.f) (by
      rcases hb with hb | hb <;> rw [hb] at hm
      · exact List.mem_append_left _ hm
      · exact List.mem_append_right _ hm)
    simpa [abortFunction_eq] using this
  refine (exactly_one env m he hw h95 ?_).1
  intro _
  rcases ho with ho | ho
  · exact Or.inl ho
  · exact Or.inr ⟨ho, Or.inr h0⟩

/-- non-vacuity: S1F3 W with a callback that replies / raises, S99F1 W without callback -/
example : handle { eq with outcome := fun _ => .reply 1 4 } ⟨1, 3, true, 7, []⟩ = [.data 1 4 false 7 .fn] := by decide +kernel
example : handle { eq with outcome := fun _ => .raises } ⟨1, 3, true, 7, []⟩ = [.data 1 0 false 7 .empty] := by decide +kernel
example : handle eq ⟨99, 1, true, 7, [0, 0, 227, 1, 0, 0, 0, 0, 0, 7]⟩ = [.data 9 5 false 7 (.header [0, 0, 227, 1, 0, 0, 0, 0, 0, 7])] := by
  decide +kernel
example : Established eq ⟨1, 3, true, 7, []⟩ := ⟨rfl, rfl, by decide⟩
/-- a primary that carries the system bytes of an open transaction of ours is answered like any other -/
example : handle { eq with waiting := [7], outcome := fun _ => .reply 1 4 } ⟨1, 3, true, 7, []⟩ = [.data 1 4 false 7 .fn] ∧
    handle { eq with waiting := [7] } ⟨1, 4, false, 7, []⟩ = [] := by decide +kernel

/-- non-vacuity of `exactly_one_builtin`: the hypotheses hold for S1F3 on the equipment class -/
example : eq.catalogue = Gen.Callbacks.catalogue ∧ eq.builtin = Gen.Callbacks.builtinGemEquipmentHandler ∧ ((1, 3) : Nat × Nat) ∈ eq.builtin := by
  decide +kernel

/-! ## sequences -/

/-- **All sequences.**  In the frames caused by any sequence of messages with pairwise distinct system bytes, the frames
carrying the system bytes of a W-bit primary that met an established handler are exactly its one expected reply. -/
theorem exactly_one_in_sequence (ems : List (Env × Msg)) (hd : (ems.map (·.2.sys)).Nodup)
    (env : Env) (m : Msg) (hm : (env, m) ∈ ems) (he : Established env m) (hw : m.w = true)
    (h95 : catalogued env 9 5 = true) (hc : Covered env m) :
    (handleAll ems).filter (fun fr => fr.sys == m.sys) = [expected env m] := by
  induction ems with
  | nil => cases hm
  | cons x xs ih =>
    obtain ⟨e, mm⟩ := x
    simp only [List.map_cons, List.nodup_cons] at hd
    simp only [handleAll, List.filter_append]
    rcases List.mem_cons.mp hm with h | h
    · cases h
      rw [filter_sys_self, (exactly_one env m he hw h95 hc).1]
      have : (handleAll xs).filter (fun fr => fr.sys == m.sys) = [] := by
        clear ih hm
        induction xs with
        | nil => rfl
        | cons y ys ih2 =>
          obtain ⟨e2, m2⟩ := y
          simp only [handleAll, List.filter_append]
          have hne : m2.sys ≠ m.sys := by
            intro heq; apply hd.1; simp [heq]
          rw [filter_sys_other e2 m2 _ hne, List.nil_append]
          apply ih2
          · constructor
            · intro hmem; apply hd.1; simp only [List.map_cons, List.mem_cons]; exact Or.inr hmem
            · simp only [List.map_cons, List.nodup_cons] at hd; exact hd.2.2
      rw [this]; rfl
    · have hne : mm.sys ≠ m.sys := by
        intro heq; apply hd.1
        rw [heq]; exact List.mem_map_of_mem (f := fun p : Env × Msg => p.2.sys) h
      rw [filter_sys_other e mm _ hne, List.nil_append]
      exact ih hd.2 h

/-- non-vacuity: a sequence of three messages with distinct system bytes; the middle one is answered once -/
example :
    let ems : List (Env × Msg) := [({ eq with outcome := fun _ => .reply 1 2 }, ⟨1, 1, true, 7, []⟩),
      ({ eq with outcome := fun _ => .raises }, ⟨1, 3, true, 8, []⟩), (eq, ⟨99, 1, false, 9, []⟩)]
    (ems.map (·.2.sys)).Nodup ∧ (handleAll ems).filter (fun fr => fr.sys == 8) = [.data 1 0 false 8 .empty] := by
  decide +kernel

/-! ## no reply without W -/

/-- **No W-bit, handled without error ⇒ no reply** — for the variant that looks at the W-bit before sending the secondary -/
theorem no_reply_without_W (env : Env) (m : Msg) (hg : env.wGate = true) (hw : m.w = false)
    (hok : hasCallback env m.s m.f = true → (∃ s f, env.outcome m = .reply s f) ∨ env.outcome m = .none) :
    (handle env m).filter Frame.isData = [] := by
  unfold handle handleStreamFunction
  split
  · rfl
  · split
    · rfl
    · split
      · by_cases hcb : hasCallback env m.s m.f = true
        · simp only [hcb, Bool.not_true, Bool.false_eq_true, if_false]
          rcases hok hcb with ⟨s, f, ho⟩ | ho
          · simp [ho, hg, hw]
          · simp [ho]
        · simp [hcb, handleUnknown, hw]
      · rfl

/-- non-vacuity: with the gate an S1F1 without W-bit whose callback returns S1F2 is handled without error and nothing is written -/
example : (handle { eq with outcome := fun _ => .reply 1 2, wGate := true } ⟨1, 1, false, 7, []⟩).filter Frame.isData = [] := by
  decide +kernel

/-- what holds for the shipped code: no reply without W when there is no callback, or the callback returns `None` -/
theorem no_reply_without_W_partial (env : Env) (m : Msg) (hw : m.w = false)
    (hok : hasCallback env m.s m.f = true → env.outcome m = .none) :
    (handle env m).filter Frame.isData = [] := by
  unfold handle handleStreamFunction
  split
  · rfl
  · split
    · rfl
    · split
      · by_cases hcb : hasCallback env m.s m.f = true
        · simp [hcb, hok hcb]
        · simp [hcb, handleUnknown, hw]
      · rfl

/-- **Counterexample (shipped variant).**  S1F1 without W-bit, the built-in callback returns S1F2: the S1F2 is written. -/
theorem witness_reply_without_w :
    handle { eq with outcome := fun _ => .reply 1 2 } ⟨1, 1, false, 7, []⟩ = [.data 1 2 false 7 .fn] ∧
    handle { eq with outcome := fun _ => .reply 1 2, wGate := true } ⟨1, 1, false, 7, []⟩ = [] := by
  decide +kernel

/-- **Counterexample (shipped variant).**  A user callback on S99F1 (stream 99 has no function 0 in the catalogue) raises:
nothing at all is written for a W-bit primary; the variant that can always build SxF0 sends S99F0. -/
theorem witness_abort_uncatalogued :
    handle { eq with user := [(99, 1)], outcome := fun _ => .raises } ⟨99, 1, true, 7, []⟩ = [] ∧
    handle { eq with user := [(99, 1)], outcome := fun _ => .raises, abortAny := true } ⟨99, 1, true, 7, []⟩ = [.data 99 0 false 7 .empty] := by
  decide +kernel

/-- a callback returning `None` for a W-bit primary yields no reply (outside the statement; named here) -/
theorem callback_none (env : Env) (m : Msg) (hcb : hasCallback env m.s m.f = true) (ho : env.outcome m = .none) :
    (handle env m).filter Frame.isData = [] := by
  unfold handle handleStreamFunction
  split
  · rfl
  · split
    · rfl
    · split
      · simp [hcb, ho]
      · rfl

/-- a callback that sends its reply itself and then raises (`_on_s02f41` with a failing `rcmd_*` callback) yields the reply
*and* the abort (excluded by `Covered`; named here) -/
theorem callback_reply_then_raise (env : Env) (m : Msg) (he : Established env m) (hcb : hasCallback env m.s m.f = true)
    (s f : Nat) (ho : env.outcome m = .replyThenRaises s f) (h0 : catalogued env m.s 0 = true) (hw : m.w = true) :
    handle env m = [.data s f false m.sys .fn, .data m.s 0 false m.sys .empty] := by
  have hf' := not_toWaiter he
  obtain ⟨hs, hcm, _⟩ := he
  simp [handle, handleStreamFunction, hs, hf', hcm, dispatches_eq, hcb, ho, abort, abortFunction_eq, h0, hw]

/-- while not COMMUNICATING nothing reaches `_handle_stream_function` -/
theorem nothing_unless_established (env : Env) (m : Msg) (hs : env.selected = true) (hc : env.comm ≠ .communicating) :
    handle env m = [] := by
  simp [handle, hs, dispatches_eq, hc]

end SecsModel.Props.C08
