import SecsModel.Proofs.HsmsHeader
import SecsModel.Proofs.HsmsRx
/-!
# C04 — HSMS frames are bit-exact and reassembled independently of TCP segmentation

Only property theorems, non-vacuity examples and generated-code obligations live here.
`Gen.HsmsHeader.encode/decode`, `Gen.HsmsSType`, `Gen.BlockFmt` are regenerated from the Python source on every run;
`Model.Rx` is the hand model of `HsmsBlock.encode/decode` and of the receive loop.
-/
namespace SecsModel.Props.C04
open SecsModel SecsModel.Gen SecsModel.Model.Rx SecsModel.Proofs.HsmsHdr SecsModel.Proofs.HsmsRx

/-! ## generated tables -/

/-- the SType enum extracted from `hsms/header.py` is E37's list (8 and 10..255 are not STypes) -/
theorem stype_table : HsmsSType.values = Spec.E37.stypes.map (fun (n : Nat) => (n : Int)) := stypes_eq

/-- `HsmsBlock.length_format = "L"` (4 bytes), no checksum, one block per message, 10-byte header -/
theorem block_format : BlockFmt.hsmsLengthWidth = 4 ∧ BlockFmt.hsmsChecksumWidth = 0 ∧ BlockFmt.hsmsBlockSize = -1
    ∧ HsmsHeader.length = 10 := by decide

/-! ## header -/

/-- **Header layout and round trip, all in-range field values.**  The generated `HsmsHeader.encode` produces exactly the ten E37 header
bytes (session id, W-bit|stream, function, PType, SType, system bytes) and the generated `decode` recovers every field. -/
theorem header_roundtrip (h : HsmsHeader) (hr : InRange h) :
    ∃ bs, h.encode = .ok bs ∧ bs = Spec.E37.headerBytes (toSpec h) ∧ bs.length = 10 ∧ HsmsHeader.decode bs = .ok h :=
  ⟨_, encode_layout h hr, rfl, Spec.E37.headerBytes_length _, decode_layout h hr⟩

/-- the same, read from the specification side: every E37 header in its ranges is produced and recovered -/
theorem header_spec_roundtrip (h : Spec.E37.Hdr) (hr : h.InRange) :
    (ofSpec h).encode = .ok (Spec.E37.headerBytes h) ∧ HsmsHeader.decode (Spec.E37.headerBytes h) = .ok (ofSpec h) := by
  have hi := inRange_ofSpec h hr
  have e := encode_layout _ hi
  have d := decode_layout _ hi
  rw [toSpec_ofSpec] at e d
  exact ⟨e, d⟩

/-- non-vacuity: concrete in-range headers at the upper ends of every field -/
example : InRange ⟨0xFFFFFFFF, 0xFFFF, 127, 255, true, 255, 9⟩ := by decide
example : (⟨0x7FFF, true, 127, 255, 0, 0, 0xFFFFFFFF⟩ : Spec.E37.Hdr).InRange := by decide
example : HsmsHeader.encode ⟨0x01020304, 0x7FFF, 1, 13, true, 0, 0⟩ = .ok [0x7F, 0xFF, 0x81, 13, 0, 0, 1, 2, 3, 4] := by decide +kernel

/-- an SType outside E37's list is refused by `decode` (`HsmsSType(res[4])` raises `ValueError`), whatever the other bytes are -/
theorem header_invalid_stype (sy dv st fn pt ty : Nat) (w : Bool)
    (hsy : sy < 2^32) (hdv : dv < 2^16) (hst : st < 2^7) (hfn : fn < 2^8) (hpt : pt < 2^8) (hty : ty < 2^8)
    (hbad : ty ∉ Spec.E37.stypes) :
    HsmsHeader.decode (specBytes sy dv st fn pt ty w) = .error .valueError := by
  rw [decode_spec sy dv st fn pt ty w hsy hdv hst hfn hpt hty]
  have : HsmsSType.valid (ty : Int) = false := by
    cases hv : HsmsSType.valid (ty : Int)
    · rfl
    · exact absurd ((valid_nat ty).mp hv) hbad
  simp [this]

example : (8 : Nat) ∉ Spec.E37.stypes ∧ (10 : Nat) ∉ Spec.E37.stypes ∧ (255 : Nat) ∉ Spec.E37.stypes := by decide

/-! ## frame -/

/-- **Frame exactness, all in-range headers and all body lengths below 2³²−10.**  `HsmsBlock.encode` is the E37 frame:
4-byte big-endian length = 10 + body length, the ten header bytes, the body. -/
theorem frame_exact (b : Block) (hv : Valid b) :
    b.encode = .ok (Spec.E37.frame (toSpec b.header) b.data)
    ∧ (Spec.E37.frame (toSpec b.header) b.data).length = 14 + b.data.length
    ∧ (Spec.E37.frame (toSpec b.header) b.data).take 4 = be 4 (10 + b.data.length)
    ∧ ofBe ((Spec.E37.frame (toSpec b.header) b.data).take 4) = 10 + b.data.length := by
  have ht : (Spec.E37.frame (toSpec b.header) b.data).take 4 = be 4 (10 + b.data.length) := by
    have := frame_take4 b []; simpa [frameOf] using this
  refine ⟨encode_exact b hv, Spec.E37.frame_length _ _, ht, ?_⟩
  rw [ht]; exact ofBe_be_of_lt _ _ (by have := hv.size; omega)

/-- **Frame round trip.**  Decoding the encoded block gives back the identical header fields and body. -/
theorem frame_roundtrip (b : Block) (hv : Valid b) : ∃ fr, b.encode = .ok fr ∧ Block.decode fr = .ok b :=
  ⟨_, encode_exact b hv, decode_frame b hv⟩

/-- non-vacuity: a valid data message S1F13 W with a 3-byte body, and its frame -/
def sample : Block := ⟨⟨0x01020304, 0, 1, 13, true, 0, 0⟩, [1, 2, 3]⟩
example : Valid sample := ⟨by decide, by decide⟩
example : sample.encode = .ok [0, 0, 0, 13, 0, 0, 0x81, 13, 0, 0, 1, 2, 3, 4, 1, 2, 3] := by decide +kernel

/-! ## segmentation -/

/-- **Segmentation, all frame sequences and all partitions.**  However the concatenated byte stream of any sequence of valid blocks is cut
into segments (single bytes, several frames per segment, cuts inside the length field or header, empty segments), feeding the segments
one after the other delivers exactly those blocks, in order, none lost, duplicated or merged; the receive buffer ends empty and no run of the
loop was ended by an exception. -/
theorem segmentation (bs : List Block) (hv : ∀ b ∈ bs, Valid b) (chunks : List Bytes) (hc : chunks.flatten = wire bs) :
    chunks.foldl feed Rx.init = ⟨[], bs, 0⟩ := by
  have hw := extract_wire_nil bs hv
  have := foldl_feed chunks Rx.init settled_nil (by simp only [Rx.init, List.nil_append, hc, hw])
  simpa [Rx.init, hc, hw] using this

/-- **Prefix monotonicity.**  After any byte prefix `p` of the stream, cut in any way, what has been delivered is a prefix of the blocks
sent and is the same for every way of cutting `p` (it is what one run over `p` delivers); nothing delivered is ever taken back. -/
theorem prefix_monotone (bs : List Block) (hv : ∀ b ∈ bs, Valid b) (p q : Bytes) (hpq : p ++ q = wire bs)
    (chunks : List Bytes) (hc : chunks.flatten = p) :
    (chunks.foldl feed Rx.init).delivered = (extract p).frames
    ∧ (chunks.foldl feed Rx.init).delivered <+: bs
    ∧ (chunks.foldl feed Rx.init).aborts = 0 := by
  have hw := extract_wire_nil bs hv
  have hna : (extract p).aborted = false := not_aborted_prefix p q (by rw [hpq, hw])
  have := foldl_feed chunks Rx.init settled_nil (by simpa [Rx.init, hc] using hna)
  rw [this]
  simp only [Rx.init, List.nil_append, hc]
  refine ⟨trivial, ?_, trivial⟩
  have hp := frames_prefix p q
  rw [hpq, hw] at hp
  exact hp

/-- in particular after the first `k` segments of any segmentation of the whole stream -/
theorem prefix_monotone_chunks (bs : List Block) (hv : ∀ b ∈ bs, Valid b) (chunks : List Bytes) (hc : chunks.flatten = wire bs) (k : Nat) :
    ((chunks.take k).foldl feed Rx.init).delivered <+: bs ∧ ((chunks.take k).foldl feed Rx.init).aborts = 0 := by
  have hsplit : (chunks.take k).flatten ++ (chunks.drop k).flatten = wire bs := by
    rw [← List.flatten_append, List.take_append_drop, hc]
  have := prefix_monotone bs hv _ _ hsplit (chunks.take k) rfl
  exact ⟨this.2.1, this.2.2⟩

/-- **Independence of segmentation for arbitrary streams** (also ones carrying undefined STypes in later runs, unknown bodies, a trailing
partial frame): two segmentations of the same bytes deliver the same blocks and leave the same buffer, provided no run on that stream is
ended by a decode exception (`length < 10` or an SType outside the enum). -/
theorem segmentation_independent (c1 c2 : List Bytes) (h : c1.flatten = c2.flatten) (hna : (extract c1.flatten).aborted = false) :
    c1.foldl feed Rx.init = c2.foldl feed Rx.init := by
  have e1 := foldl_feed c1 Rx.init settled_nil (by simpa [Rx.init] using hna)
  have e2 := foldl_feed c2 Rx.init settled_nil (by rw [← h]; simpa [Rx.init] using hna)
  rw [e1, e2, h]

/-- non-vacuity: two blocks, cut inside the first length field, inside the second header, and with an empty segment; and byte by byte -/
def sample2 : Block := ⟨⟨7, 0xFFFF, 0, 0, false, 0, 5⟩, []⟩
example : wire [sample, sample2] =
    [0, 0, 0, 13, 0, 0, 0x81, 13, 0, 0, 1, 2, 3, 4, 1, 2, 3] ++ [0, 0, 0, 10, 0xFF, 0xFF, 0, 0, 0, 5, 0, 0, 0, 7] := by decide +kernel
example : [[0, 0], [0, 13, 0, 0, 0x81, 13, 0, 0, 1, 2, 3, 4, 1, 2, 3, 0, 0, 0, 10, 0xFF, 0xFF], [], [0, 0, 0, 5, 0, 0, 0, 7]].foldl feed Rx.init
    = ⟨[], [sample, sample2], 0⟩ := by decide +kernel
example : ((wire [sample, sample2]).map (fun x => [x])).foldl feed Rx.init = ⟨[], [sample, sample2], 0⟩ := by decide +kernel
/-- a cut stream leaves the partial frame in the buffer and delivers only the complete one -/
example : [[0, 0, 0, 13, 0, 0, 0x81, 13, 0, 0, 1, 2, 3, 4, 1, 2, 3, 0, 0, 0, 10, 0xFF]].foldl feed Rx.init
    = ⟨[0, 0, 0, 10, 0xFF], [sample], 0⟩ := by decide +kernel
/-- the hypothesis of `segmentation_independent` is not idle: a length field below 10 ends the run by an exception and the frame is dropped -/
example : feed Rx.init [0, 0, 0, 0, 0, 0, 0, 10, 0xFF, 0xFF, 0, 0, 0, 5, 0, 0, 0, 7] = ⟨[0, 0, 0, 10, 0xFF, 0xFF, 0, 0, 0, 5, 0, 0, 0, 7], [], 1⟩ := by
  decide +kernel

/-! ## hand-overs between the threads of the receive path (no lost wake-up), `ByteQueue` locking -/

open SecsModel.Model.Rx.OnData in
/-- **No lost wake-up, received bytes → receiver thread**, for the statement orders that exist (`Gen.RxOrder.onData` from
`_on_connection_data_received`: append, trigger; `Gen.RxOrder.receiverLoop` from `_receiver_thread_function`: wait, clear, stoptest, target):
every statement is one the model knows, the handler appends exactly once; the enumerated states are closed under every step of producer,
consumer and the arrival of further items (so they are all reachable states, for any number of segments and any interleaving); in none of
them is there an item nobody has looked at while the consumer sleeps in `wait` with the event clear and no `trigger` coming; and with an
unseen item and the handler finished the consumer is never stuck.  This is what makes `feed` a faithful reading of the threaded code. -/
theorem on_data_no_lost_wakeup : noLostWakeup Gen.RxOrder.onData Gen.RxOrder.receiverLoop = true := by decide +kernel

open SecsModel.Model.Rx.OnData in
/-- **No lost wake-up, decoded blocks → dispatcher thread** (`Gen.RxOrder.queueBlock` from `queue_block`: put, set;
`Gen.RxOrder.dispatcherLoop` from `_dispatcher_thread_function`: wait, clear, stoptest, drain): the last block of a burst is dispatched
without waiting for a later frame. -/
theorem dispatch_no_lost_wakeup : noLostWakeup Gen.RxOrder.queueBlock Gen.RxOrder.dispatcherLoop = true := by decide +kernel

open SecsModel.Model.Rx.OnData in
/-- **witnesses: either reordering loses a wake-up.**  Producer `trigger` before `append`: the consumer wakes, clears, looks at nothing and
sleeps; the item is appended afterwards.  Consumer `clear` after the drain: an item queued between the drain's last look and `clear()` has
its wake-up wiped.  In both final states nothing can move until an unrelated later item arrives. -/
theorem reordered_handover_loses_wakeup :
    noLostWakeup ["trigger", "append"] ["wait", "clear", "stoptest", "target"] = false
    ∧ noLostWakeup ["append", "trigger"] ["wait", "stoptest", "drain", "clear"] = false
    ∧ (∃ s, run ["trigger", "append"] ["wait", "clear", "stoptest", "target"] St.init [.item, .prod, .cons, .cons, .cons, .cons, .prod] = some s
        ∧ lost ["wait", "clear", "stoptest", "target"] s = true)
    ∧ (∃ s, run ["append", "trigger"] ["wait", "stoptest", "drain", "clear"] St.init
          [.item, .prod, .prod, .cons, .cons, .cons, .item, .prod, .prod, .cons] = some s
        ∧ lost ["wait", "stoptest", "drain", "clear"] s = true) := by
  refine ⟨by decide +kernel, by decide +kernel, ⟨_, rfl, by decide +kernel⟩, ⟨_, rfl, by decide +kernel⟩⟩

/-- **The dispatch queue is unbounded** (generated fact: `ProtocolDispatcher.__init__` constructs it as `queue.Queue()`), as `Model.Rx` /
`OnData` assume: `queue_block` never blocks.  With a bound its blocking `put` would stop the receiver thread on a full queue — the thread
that also writes the send queue, for which the dispatcher's answering handler waits: both stop and the rest of a burst is never delivered. -/
theorem dispatch_queue_unbounded : Gen.RxOrder.dispatchQueueCtor = "queue.Queue()" := by decide

/-- **`ByteQueue` is only changed under its lock, and `pop(size)` removes exactly `size` bytes** (generated facts): `append`, `pop`,
`pop_byte`, `clear` touch `self._buffer` only inside `with self._buffer_lock:`, and `pop` is `data = buffer[:size]; del buffer[:size];
return data` under that lock — the `buf.take n` / `buf.drop n` of `Model.Rx.extractF`, whatever the connection's thread appends meanwhile. -/
theorem byte_queue_locked :
    Gen.RxOrder.byteQueueLocked = [("append", true), ("pop", true), ("pop_byte", true), ("clear", true)]
    ∧ Gen.RxOrder.popTakesExactlySize = true := by decide

/-- **Header decode is injective onto canonical bytes.**  For EVERY ten bytes: if the generated `HsmsHeader.decode` returns a
header, the generated `encode` of that header gives exactly those ten bytes back (and the header is in range). -/
theorem header_decode_canonical (bs : Bytes) (hl : bs.length = 10) (hb : AllBytes bs) (h : HsmsHeader) (hd : HsmsHeader.decode bs = .ok h) :
    h.encode = .ok bs := by
  match bs, hl with
  | [a0, a1, a2, a3, a4, a5, a6, a7, a8, a9], _ =>
    have h0 : a0 < 256 := hb a0 (by simp)
    have h1 : a1 < 256 := hb a1 (by simp)
    have h2 : a2 < 256 := hb a2 (by simp)
    have h3 : a3 < 256 := hb a3 (by simp)
    have h4 : a4 < 256 := hb a4 (by simp)
    have h5 : a5 < 256 := hb a5 (by simp)
    have h6 : a6 < 256 := hb a6 (by simp)
    have h7 : a7 < 256 := hb a7 (by simp)
    have h8 : a8 < 256 := hb a8 (by simp)
    have h9 : a9 < 256 := hb a9 (by simp)
    have u : Py.unpackBE [2, 1, 1, 1, 1, 4] [a0, a1, a2, a3, a4, a5, a6, a7, a8, a9] =
        .ok [((ofBe [a0, a1] : Nat) : Int), ((ofBe [a2] : Nat) : Int), ((ofBe [a3] : Nat) : Int), ((ofBe [a4] : Nat) : Int),
             ((ofBe [a5] : Nat) : Int), ((ofBe [a6, a7, a8, a9] : Nat) : Int)] := by
      simp [Py.unpackBE, Py.unpackFields]
    rw [decode_fields _ _ _ _ _ _ _ u] at hd
    split at hd
    · injection hd with hd
      subst hd
      have e0 : ofBe [a0, a1] = a0 * 256 + a1 := by simp [ofBe]
      have e1 : ofBe [a2] = a2 := by simp [ofBe]
      have e2 : ofBe [a3] = a3 := by simp [ofBe]
      have e3 : ofBe [a4] = a4 := by simp [ofBe]
      have e5 : ofBe [a5] = a5 := by simp [ofBe]
      have e4 : ofBe [a6, a7, a8, a9] = a6 * 16777216 + (a7 * 65536 + (a8 * 256 + a9)) := by simp [ofBe]
      rw [encode_nat _ _ _ _ _ _ _ (by rw [e4]; omega) (by omega) (by omega) (by rw [e2]; omega) (by omega) (by omega)]
      congr 1
      simp only [specBytes]
      have r1 : (ofBe [a2] % 128 + if decide (ofBe [a2] / 128 % 2 = 1) = true then 128 else 0) = ofBe [a2] := by
        rw [e1]; split <;> rename_i hc <;> simp at hc <;> omega
      rw [r1]
      have b0 := be_ofBe [a0, a1] (by intro x hx; simp at hx; rcases hx with h | h <;> omega)
      have b1 := be_ofBe [a2] (by intro x hx; simp at hx; omega)
      have b2 := be_ofBe [a3] (by intro x hx; simp at hx; omega)
      have b3 := be_ofBe [a4] (by intro x hx; simp at hx; omega)
      have b5 := be_ofBe [a5] (by intro x hx; simp at hx; omega)
      have b4 := be_ofBe [a6, a7, a8, a9] (by intro x hx; simp at hx; rcases hx with h | h | h | h <;> omega)
      simp only [List.length_cons, List.length_nil] at b0 b1 b2 b3 b4 b5
      rw [b0, b1, b2, b3, b4, b5]
      rfl
    · cases hd

/-- `HsmsBlock.decode` with the generated widths (4-byte length, 10-byte header) substituted; closed by `rfl` -/
theorem decode_eq_lit (raw : Bytes) : Block.decode raw =
    (if raw.length < 4 then .error .structError else
     if ofBe (raw.take 4) < 10 then .error .structError else
     if raw.length ≠ 4 + 10 + (ofBe (raw.take 4) - 10) then .error .structError else
     match HsmsHeader.decode ((raw.drop 4).take 10) with
     | .error e => .error e
     | .ok h => .ok ⟨h, (raw.drop (4 + 10)).take (ofBe (raw.take 4) - 10)⟩) := rfl

/-- **The HSMS decoder accepts only canonical frames.**  For EVERY byte string: if `HsmsBlock.decode` returns a block, then
`HsmsBlock.encode` of that block is exactly that byte string — no frame with a non-canonical length field or header bytes is
ever accepted as a block (converse of `frame_roundtrip`). -/
theorem frame_decode_canonical (raw : Bytes) (araw : AllBytes raw) (b : Block) (hd : Block.decode raw = .ok b) :
    b.encode = .ok raw := by
  rw [decode_eq_lit] at hd
  split at hd
  · cases hd
  rename_i c1
  split at hd
  · cases hd
  rename_i c2
  split at hd
  · cases hd
  rename_i c3
  have a4 : AllBytes (raw.take 4) := fun x hx => araw x (List.mem_of_mem_take hx)
  have ahb : AllBytes ((raw.drop 4).take 10) := fun x hx => araw x (List.mem_of_mem_drop (List.mem_of_mem_take hx))
  have l4 : (raw.take 4).length = 4 := by simp; omega
  have lhb : ((raw.drop 4).take 10).length = 10 := by simp; omega
  have hlt := ofBe_lt (raw.take 4) a4
  rw [l4] at hlt
  split at hd
  · cases hd
  · rename_i h hh
    injection hd with hd
    subst hd
    have henc := header_decode_canonical _ lhb ahb h hh
    have ldata : ((raw.drop (4 + 10)).take (ofBe (raw.take 4) - 10)).length = ofBe (raw.take 4) - 10 := by simp; omega
    simp only [Block.encode, henc, BlockFmt.hsmsLengthWidth, HsmsHeader.length, ldata]
    have e1 : 10 + (ofBe (raw.take 4) - 10) = ofBe (raw.take 4) := by omega
    rw [e1, if_pos hlt]
    have b4 := be_ofBe (raw.take 4) a4
    rw [l4] at b4
    rw [b4, lhb]
    have t10 : ((raw.drop 4).take 10).take 10 = (raw.drop 4).take 10 := by rw [List.take_take]; simp
    rw [t10]
    have tall : (raw.drop (4 + 10)).take (ofBe (raw.take 4) - 10) = raw.drop (4 + 10) := by
      apply List.take_of_length_le; simp; omega
    rw [tall]
    have : raw.drop (4 + 10) = (raw.drop 4).drop 10 := by rw [List.drop_drop]
    rw [this]
    simp only [List.replicate, Nat.sub_self, List.append_nil, Except.ok.injEq]
    have e14 : raw.drop 14 = (raw.drop 4).drop 10 := by rw [List.drop_drop]
    simp only [List.append_assoc]
    first
      | rw [List.take_append_drop, List.take_append_drop]
      | (rw [e14, List.take_append_drop, List.take_append_drop])

/-- **Frame decoding is injective on what it accepts**: two byte strings that both decode to the same block are the same byte string. -/
theorem frame_decode_injective (r1 r2 : Bytes) (a1 : AllBytes r1) (a2 : AllBytes r2) (b : Block)
    (h1 : Block.decode r1 = .ok b) (h2 : Block.decode r2 = .ok b) : r1 = r2 := by
  have e1 := frame_decode_canonical r1 a1 b h1
  have e2 := frame_decode_canonical r2 a2 b h2
  rw [e1] at e2
  injection e2

end SecsModel.Props.C04
