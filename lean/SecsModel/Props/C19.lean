import SecsModel.Proofs.SfdlTok
import SecsModel.Proofs.SfdlParse
import SecsModel.Proofs.SfdlShape
import SecsModel.Proofs.SfdlReject
import SecsModel.Proofs.SfdlKeys
/-!
# C19 — function structure definitions (SFDL) are read exactly as documented

`Spec.Sfdl` is the documentation (`docs/firststeps/sfdl.md`): the grammar as a tree `Def`, every text of a tree (`render d ly`,
one per layout of blanks, line breaks and comments) and the documented shape `shape d`.  `Model.Sfdl` is the code
(`sfdl_tokenizer.py`, `variables/functions.py`, `List._generate`, `Array.__init__`).  Only property theorems, non-vacuity
examples and the counterexample theorem of the open finding live here.
-/
namespace SecsModel.Props.C19
open SecsModel SecsModel.Spec.Sfdl SecsModel.Model.Sfdl SecsModel.Proofs.Sfdl

/-- **Comments and arbitrary whitespace.**  Whatever stands in the gaps — blanks, tabs, CR, LF, comments (also directly after
a word, also one running to the end of the text) — the character loop of the tokenizer yields exactly the tokens of the
definition.  All trees (any depth, width, names), all layouts. -/
theorem tokenize_render (d : Def) (ly : Layout) (hw : wordsOk d = true) : split (render d ly) = tokensOf d :=
  split_render d ly hw

/-- the typed tokens: accepted by `_process_tokens` when the item names are catalogued data items -/
theorem tokenize_render_typed (d : Def) (ly : Layout) (hw : wordsOk d = true) (hk : allKnown d = true) :
    tokenize (render d ly) = .ok (toks d) := by
  rw [tokenize, split_render d ly hw, validate_tokensOf d hw hk]

/-- **Documented shape** (all the property asks, on the part of the grammar where the unchanged code delivers it).  For every
definition tree over catalogued item names with non-empty lists, pairwise different member keys and list names placed as the
documentation shows them (`namesAsDocumented`), under every layout, `functions.generate(text)` succeeds and the variable tree
has the documented shape: one member ⇒ open array, several members ⇒ record keyed by the documented keys, in order. -/
theorem shape_partial (d : Def) (ly : Layout) (hw : wordsOk d = true) (hk : allKnown d = true) (hne : nonEmptyLists d = true)
    (hn : namesAsDocumented d = true) (hd : keysDistinct d = true) :
    ∃ o, parse (render d ly) = .ok o ∧ erase o = some (shape d) := by
  obtain ⟨o, ho, he, _⟩ := gen_def d hw hk hne hn hd
  refine ⟨o, ?_, he⟩
  have hg := genFrom_toks d (2 * (toks d).length + 2) [] none hw hk hne
    (by rw [toks_length]; have := need_le d; omega)
  rw [List.append_nil] at hg
  simp only [parse, tokenize_render_typed d ly hw hk, hg, ho]


/-! ## rejection -/

theorem parse_error_of_validate {text : List Char} {e : Err} (h : validate (split text) = .error e) : parse text = .error e := by
  simp [parse, tokenize, h]

/-- **Unknown data item name.**  A definition that uses, anywhere, an item name that is not an attribute of the `data_items`
module (and is not the list tag `L`) is rejected with an error under every layout, whatever else it contains. -/
theorem reject_unknown_item (d : Def) (ly : Layout) (hw : wordsOk d = true) (hu : hasUnknown d = true) :
    ∃ e, parse (render d ly) = .error e := by
  obtain ⟨e, he⟩ := validate_unknown d hw hu
  exact ⟨e, parse_error_of_validate (by rw [split_render d ly hw]; exact he)⟩

/-- **Truncated definition.**  A text whose elements are a proper prefix of a definition's tokens is rejected. -/
theorem reject_truncated (d : Def) (hw : wordsOk d = true) (p s : List Name) (h : tokensOf d = p ++ s) (hs : s ≠ [])
    (text : List Char) (ht : split text = p) : ∃ e, parse text = .error e := by
  obtain ⟨e, he⟩ := validate_truncated d hw p s h hs
  exact ⟨e, parse_error_of_validate (by rw [ht]; exact he)⟩

/-- **Missing closing bracket.**  A text whose elements are a definition's tokens with one `>` deleted — any one — is rejected. -/
theorem reject_missing_close (d : Def) (hw : wordsOk d = true) (t : List Name) (ht : t ∈ dels d)
    (text : List Char) (hs : split text = t) : ∃ e, parse text = .error e := by
  obtain ⟨e, he⟩ := validate_missing_close d hw t ht
  exact ⟨e, parse_error_of_validate (by rw [hs]; exact he)⟩

/-- the general criterion behind both: if every non-empty prefix of the elements has more `<` than `>`, the text is rejected -/
theorem reject_open_brackets (text : List Char) (m : Nat) (h : walk 0 (split text) = some m) : ∃ e, parse text = .error e := by
  obtain ⟨e, he⟩ := validate_open (split text) m h
  exact ⟨e, parse_error_of_validate he⟩

/-! ## the open finding `c19-named-single-member-list` and non-vacuity -/

/-- one blank in every gap -/
def blanks : Layout := ⟨fun _ _ => [.ws .space], [], [], none⟩

/-- the documentation's second S2F23 example: `< L < TRID > < L SVIDS < SVID > > >` -/
def s2f23Named : Def :=
  .list none [.item ['T', 'R', 'I', 'D'], .list (some ['S', 'V', 'I', 'D', 'S']) [.item ['S', 'V', 'I', 'D']]]

/-- **Counterexample (unchanged code).**  The documented named open list satisfies every hypothesis of `shape_partial` except
the name placement, the code accepts it, and the shape it builds is a one-field record where the documentation promises an
open array: `shape_partial` cannot be extended to it. -/
theorem witness_named_single_member :
    wordsOk s2f23Named = true ∧ allKnown s2f23Named = true ∧ nonEmptyLists s2f23Named = true ∧ keysDistinct s2f23Named = true
    ∧ namesAsDocumented s2f23Named = false
    ∧ (parse (render s2f23Named blanks)).toOption.bind erase
        = some (.record [(['T', 'R', 'I', 'D'], .item ['T', 'R', 'I', 'D']),
                    (['S', 'V', 'I', 'D', 'S'], .record [(['S', 'V', 'I', 'D'], .item ['S', 'V', 'I', 'D'])])])
    ∧ shape s2f23Named = .record [(['T', 'R', 'I', 'D'], .item ['T', 'R', 'I', 'D']),
                    (['S', 'V', 'I', 'D', 'S'], .array (.item ['S', 'V', 'I', 'D']))] := by
  refine ⟨by decide +kernel, by decide +kernel, by decide +kernel, by decide +kernel, by decide +kernel, by decide +kernel, by decide +kernel⟩

/-- S2F33 as documented: `< L < DATAID > < L REPORTS < L < RPTID > < L < VID > > > > >` -/
def s2f33 : Def :=
  .list none [.item ['D', 'A', 'T', 'A', 'I', 'D'],
    .list (some ['R', 'E', 'P', 'O', 'R', 'T', 'S']) [.list none [.item ['R', 'P', 'T', 'I', 'D'], .list none [.item ['V', 'I', 'D']]]]]

/-- non-vacuity of `shape_partial`: the documented S2F33 definition (nested, named, record and arrays) meets all hypotheses -/
example : wordsOk s2f33 = true ∧ allKnown s2f33 = true ∧ nonEmptyLists s2f33 = true ∧ namesAsDocumented s2f33 = true
    ∧ keysDistinct s2f33 = true := by decide +kernel

/-- non-vacuity of the rejection theorems: an unknown name, four ways to lose one closing bracket -/
example : hasUnknown (.list none [.item ['N', 'O', 'P', 'E']]) = true ∧ (dels s2f23Named).length = 4 := by decide +kernel

end SecsModel.Props.C19
