import SecsModel.Proofs.PairBridge
/-!
# C20b — one endpoint of the abstract pair model IS the product of the C05 and C07 endpoint models

`Model.Pair` (C20) was validated against the real pair only through observed transition traces.  Here every step an endpoint of
`Model.Pair` can take is shown to be what the product of `Model.Hsms.step Defects.none` (C05, correspondence-checked against the real
`HsmsProtocol`) and `Model.GemComm.step` (C07, correspondence-checked against the real `GemHandler`) does on the corresponding inputs
(`Proofs/PairBridge.lean`: `prodStep`, `absEnd`, `Coupled`, `absFrames`, and what the abstraction forgets).

Shape of every theorem: from a coupled (session, handler) state the product lands in a coupled state whose abstraction is the `Pair`
endpoint after the step, and the frames the product writes abstract to the messages `Pair` sends.  Finite case analysis over
session state × communication state × message; counters, open-request lists, system bytes and the queue are symbolic.

Only property theorems, non-vacuity examples and witness theorems live here.
-/
set_option linter.unusedSimpArgs false
namespace SecsModel.Props.C20b
open SecsModel SecsModel.Proofs.PairBridge SecsModel.Proofs.HsmsFsm SecsModel.Proofs.GemComm
open SecsModel.Model.Hsms (St In Out Defects SType isOpen)
open SecsModel.Spec.E30Comm (Input Output Trans allowed)
open SecsModel.Model.GemComm (State Cfg)

set_option hygiene false
-- unfold the product, both endpoint models on their generated tables, and the pair model
local macro "bridge_simp" : tactic => `(tactic| simp [*, prodDeliver, prodStep, gemStep, prodDisable, inputOf, Model.Hsms.step, Model.Hsms.handleCtrl, Model.Hsms.handleData, Model.Hsms.withTransition,
      Model.Hsms.reject, Defects.none, Model.Hsms.startTimer, Model.Hsms.cancelTimer, leavesConnected_eq,
      smCall_select_ns, smCall_select_sel, smCall_disconnect_ns, smCall_disconnect_sel, Model.Hsms.afterTransition, entersConnected_eq, entersSelected_eq,
      code_selReq, code_selRsp, code_rejReq, code_sepReq, toGem_communicating, toGem_app, toGem_tx, toGem_swallowed, toGem_waiter, toGem_connected, toGem_disconnected, List.filterMap_cons, List.filterMap_nil, putIfOpen_gem, putIfOpen_frames, putIfOpen_conn, putIfOpen_disc, putIfOpen_active,
      runG, Model.GemComm.step, Model.GemComm.onMessage, perform_eq, allowed, leaveEffects_eq, enterEffects_eq, Model.GemComm.sendS1F13,
      dispatchRow_eq, hooked_comm, selects, hooked_disc, forwards, lossStates, lossStates_mem, Model.GemComm.hasCb, builtin_s1f13, h4,
      Model.Pair.handle, Model.Pair.selected, Model.Pair.handleData, absEnd, absConn, absComm, Coupled, coupledB, occurs,
      absFrames, absHsmsOut, absGemOut,
      Model.Pair.closeEnd, code_desReq, code_desRsp, code_lnkReq, code_lnkRsp, connect_nc, closeSeq_connected])

-- destructure a coupled state: afterwards the finite components are variables `c`, `gc` with the coupling facts substituted
local macro "bridge_intro" cfg:ident hcfg:ident h:ident g:ident hc:ident : tactic => `(tactic|
  (obtain ⟨role, creq, ucb, sc, cg⟩ := $cfg
   obtain ⟨h1, h2, h3, h4⟩ := $hcfg
   simp only at h1 h2 h3 h4; subst h1 h2 h3
   obtain ⟨c, dc, ac, ctr, opn, lts, lto⟩ := $h
   obtain ⟨gc, cn, sl, a, b, n, ms, q⟩ := $g
   simp only [Coupled, coupledB, Bool.and_eq_true, beq_iff_eq, Bool.not_eq_true', Bool.or_eq_true, decide_eq_true_eq] at $hc:ident
   obtain ⟨⟨⟨⟨⟨⟨⟨⟨hl, hcn⟩, ho⟩, he⟩, ht⟩, hd⟩, hs⟩, hdc⟩, hq⟩ := $hc
   subst hl hcn he hdc
   rw [ht, hd]))

set_option hygiene true

/-! ## deliver -/

/-- **A message delivered to a coupled endpoint.**  The product handles the session input the message is (`inputOf`: any system
bytes; for an S1F14 no local requester may wait on them — S1F13 is sent with `send_stream_function`, which opens no transaction) and
feeds the handler what the session layer hands up (`communicating` ⇒ `linkSelected`, `message_received` ⇒ `rx 1 13/14`).  A Select.rsp
is the answer to the Select.req this endpoint has open (`hsel`; in `Model.Pair` a `selRsp` is only ever sent in answer to a `selReq` —
an unsolicited one is dropped by the code, `C05_unsolicited_rsp_silent`).  The result is
coupled, its abstraction is `(Pair.handle e m).1`, and the frames written are exactly `(Pair.handle e m).2`. -/
theorem sim_deliver (cfg : Cfg) (hcfg : Shipped cfg) (h : St) (g : State) (en : Bool) (hc : Coupled h g en)
    (m : Model.Pair.Msg) (sys : Int) (k : Nat) (hw : (∃ ok, m = .s1f14 ok) → isOpen h sys = false)
    (hsel : m = .selRsp → Model.Hsms.isOpenKind h sys .select = true) :
    let r := prodDeliver cfg h g m sys k
    Coupled r.1.1 r.1.2 en
    ∧ absEnd r.1.1 r.1.2 en = (Model.Pair.handle (absEnd h g en) m).1
    ∧ absFrames r.2.1 r.2.2 = (Model.Pair.handle (absEnd h g en) m).2 := by
  bridge_intro cfg hcfg h g hc
  cases c <;> cases gc <;> (try (simp [occurs] at ho; done)) <;> (try (simp at hs; done)) <;> rcases m with _ | _ | _ | ⟨_ | _⟩
  all_goals (try (have hsel' := hsel rfl))
  all_goals (try simp at hw)
  all_goals (try simp at hq)
  all_goals bridge_simp
  · have hb : (1, 13) ∈ Model.GemComm.builtin role := by cases role <;> decide
    have h4' : (1, 13) ∉ ucb := by simpa using h4
    simp [hb, h4']
    rfl
  all_goals (by_cases hx : ((1, 14) ∈ ucb ∨ (1, 14) ∈ Model.GemComm.builtin role) <;> simp [hx])

/-! ## link up, link down -/

/-- **`linkUp`** (per endpoint): the session input `connect` (the active side's select thread is part of it); its `connected` event
reaches the handler as `linkConnected`.  The endpoint becomes NOT SELECTED, the communication state is untouched, the active side writes
a Select.req — and the S1F13 created while there was no connection (`queued`) are written as well (in the code: ahead of the Select.req,
they are older in the send queue).  `Model.Pair` forgets those: with `queued = []` the frames are exactly the pair model's. -/
theorem sim_linkUp (cfg : Cfg) (hcfg : Shipped cfg) (h : St) (g : State) (en : Bool) (hc : Coupled h g en) (hn : h.conn = .notConnected) :
    let r := prodStep cfg h g .connect none
    Coupled r.1.1 r.1.2 en
    ∧ absEnd r.1.1 r.1.2 en = { absEnd h g en with conn := .ns }
    ∧ absFrames r.2.1 r.2.2 = (if h.active then [.selReq] else []) ++ g.queued.map (fun _ => .s1f13) := by
  bridge_intro cfg hcfg h g hc
  simp only at hn; subst hn
  cases gc <;> (try (simp [occurs] at ho; done)) <;> (try (simp at hs; done)) <;> cases ac <;> (try simp at hq) <;> bridge_simp
  all_goals (induction q <;> simp_all [absGemOut])

/-- **`linkDown`** (per endpoint, also the other side of a `disable`): the session input `peerClose`; the `disconnected` event reaches
the handler as `linkLost`.  The abstraction of the result is `Pair.closeEnd`; what is written (Separate.req) is not in the pair's vocabulary.
Holds in every coupled state (a NOT CONNECTED endpoint is left alone by both). -/
theorem sim_linkDown (cfg : Cfg) (hcfg : Shipped cfg) (h : St) (g : State) (en : Bool) (hc : Coupled h g en) :
    let r := prodStep cfg h g .peerClose none
    Coupled r.1.1 r.1.2 en
    ∧ absEnd r.1.1 r.1.2 en = Model.Pair.closeEnd (absEnd h g en)
    ∧ absFrames r.2.1 r.2.2 = [] := by
  bridge_intro cfg hcfg h g hc
  cases c <;> cases gc <;> (try (simp [occurs] at ho; done)) <;> (try (simp at hs; done)) <;> (try simp at hq) <;> bridge_simp

/-! ## timers -/

/-- **`t3`**: the handler input `t3Expired`.  In WAIT_CRA the endpoint goes to WAIT_DELAY; in every other state the timer is not pending
and nothing happens (`Pair.step` has no `t3` step there). -/
theorem sim_t3 (cfg : Cfg) (hcfg : Shipped cfg) (h : St) (g : State) (en : Bool) (hc : Coupled h g en) :
    let r := gemStep cfg h g .t3Expired
    let e := absEnd h g en
    Coupled r.1.1 r.1.2 en
    ∧ absEnd r.1.1 r.1.2 en = (if e.comm = .wcra then { e with comm := .wdelay } else e)
    ∧ absFrames r.2.1 r.2.2 = [] := by
  bridge_intro cfg hcfg h g hc
  cases c <;> cases gc <;> (try (simp [occurs] at ho; done)) <;> (try (simp at hs; done)) <;> (try simp at hq) <;> bridge_simp

/-- **`delay`**: the handler input `delayExpired`.  In WAIT_DELAY the endpoint goes to WAIT_CRA (elsewhere nothing happens).  The S1F13
of the new attempt is written at once iff a connection exists (`conn ≠ nc`, selected or not) — exactly the rule of `Pair.step`
(`pair_delay_frames`); without a connection the handler queues it for the next `linkConnected` (`sim_linkUp`). -/
theorem sim_delay (cfg : Cfg) (hcfg : Shipped cfg) (h : St) (g : State) (en : Bool) (hc : Coupled h g en) :
    let r := gemStep cfg h g .delayExpired
    let e := absEnd h g en
    Coupled r.1.1 r.1.2 en
    ∧ absEnd r.1.1 r.1.2 en = (if e.comm = .wdelay then { e with comm := .wcra } else e)
    ∧ absFrames r.2.1 r.2.2 = (if e.comm = .wdelay ∧ e.conn ≠ .nc then [.s1f13] else [])
    ∧ r.1.2.queued = (if e.comm = .wdelay ∧ e.conn = .nc then g.queued ++ [g.nextSys] else g.queued) := by
  bridge_intro cfg hcfg h g hc
  cases c <;> cases gc <;> (try (simp [occurs] at ho; done)) <;> (try (simp at hs; done)) <;> (try simp at hq) <;> bridge_simp

/-- what `Pair.step (.delay x)` does to the acting end and its outbound channel: the same state change and the same frame rule as the
product (`sim_delay`). -/
theorem pair_delay_frames (p : Model.Pair.Pair) (x : Model.Pair.Side) (p' : Model.Pair.Pair) (hs : Model.Pair.step p (.delay x) = some p') :
    (p.get x).comm = .wdelay
    ∧ p'.get x = { p.get x with comm := .wcra }
    ∧ (match x with | .A => p'.ab | .B => p'.ba)
        = (match x with | .A => p.ab | .B => p.ba) ++ (if (p.get x).conn ≠ .nc then [.s1f13] else []) := by
  simp only [Model.Pair.step] at hs
  by_cases hw : (p.get x).comm = .wdelay
  · rw [if_pos hw] at hs
    injection hs with hs
    subst hs
    by_cases hn : (p.get x).conn = .nc <;> cases x <;>
      simp_all [Model.Pair.Pair.get, Model.Pair.Pair.set, Model.Pair.Pair.send]
  · rw [if_neg hw] at hs; cases hs

/-! ## enable, disable -/

/-- **`enable`**: `GemHandler.enable()` — the handler input `enable` (the protocol's `enable()` only arms the connection). -/
theorem sim_enable (cfg : Cfg) (hcfg : Shipped cfg) (h : St) (g : State) (en : Bool) (hc : Coupled h g en) (hen : en = false) :
    let r := gemStep cfg h g .enable
    Coupled r.1.1 r.1.2 true
    ∧ absEnd r.1.1 r.1.2 true = { absEnd h g en with en := true, comm := .notc }
    ∧ absFrames r.2.1 r.2.2 = [] := by
  bridge_intro cfg hcfg h g hc
  cases c <;> cases gc <;> (try (simp [occurs] at ho; done)) <;> (try (simp at hs; done)) <;> (try (simp at hen; done)) <;> (try simp at hq) <;> bridge_simp

/-- **`disable`** (the disabling endpoint): `GemHandler.disable()` = local close of the session (begin, end; the `disconnected` event
reaches the handler as `linkLost`), then `_communication_state.disable()`.  The peer's side of it is `sim_linkDown`. -/
theorem sim_disable (cfg : Cfg) (hcfg : Shipped cfg) (h : St) (g : State) (en : Bool) (hc : Coupled h g en) (hen : en = true) :
    let r := prodDisable cfg h g
    Coupled r.1.1 r.1.2 false
    ∧ absEnd r.1.1 r.1.2 false = { absEnd h g en with en := false, conn := .nc, comm := .dis }
    ∧ absFrames r.2.1 r.2.2 = [] := by
  bridge_intro cfg hcfg h g hc
  cases c <;> cases gc <;> (try (simp [occurs] at ho; done)) <;> (try (simp at hs; done)) <;> (try (simp at hen; done)) <;> (try simp at hq) <;> bridge_simp

/-! ## the delay timer without a selected session, concretely -/

/-- the configuration of the shipped code used by the examples (an equipment; the role plays no part) -/
def cfgShipped : Cfg := { commackGate := true }

example : Shipped cfgShipped := by decide

/-- a coupled endpoint that is connected but NOT SELECTED and waits in WAIT_DELAY (reached by: T3 in WAIT_CRA, link lost, link up) -/
def hNs : St := ⟨.notSelected, false, false, 1000, [], false, 0⟩
def gDelay (connected : Bool) : State := { comm := .waitDelay, connected := connected, delayArmed := true, nextSys := 3 }

/-- **Agreement (NOT SELECTED, WAIT_DELAY, delay expires)** — formerly the disagreement D1, gone since `Model.GemComm` separates
`connected` from `selected`: the product writes the S1F13 at once, as `Pair.step` does (and as the code does); nothing is queued, and
the selecting step afterwards writes only the Select.rsp in both. -/
theorem delay_not_selected_agrees :
    Coupled hNs (gDelay true) true
    ∧ absFrames (gemStep cfgShipped hNs (gDelay true) .delayExpired).2.1 (gemStep cfgShipped hNs (gDelay true) .delayExpired).2.2 = [.s1f13]
    ∧ (gemStep cfgShipped hNs (gDelay true) .delayExpired).1.2.queued = []
    ∧ ((Model.Pair.step ⟨absEnd hNs (gDelay true) true, ⟨true, true, .ns, .notc⟩, [], []⟩ (.delay .A)).map (·.ab)) = some [.s1f13]
    ∧ (let g1 := (gemStep cfgShipped hNs (gDelay true) .delayExpired).1.2
       let r := prodDeliver cfgShipped hNs g1 .selReq 7 0
       absFrames r.2.1 r.2.2 = [.selRsp] ∧ (Model.Pair.handle (absEnd hNs g1 true) .selReq).2 = [.selRsp]) := by
  decide +kernel

/-- **What `Model.Pair` forgets (NOT CONNECTED, WAIT_DELAY, delay expires).**  `Pair.step` sends nothing, now or later; the product
queues the S1F13 and writes it at the next link-up (`linkConnected`), as the code does — first frame of the new connection, where the
peer, still NOT SELECTED, answers Reject.req, which the sender ignores.  The states agree throughout. -/
theorem delay_not_connected_flushed_at_linkUp :
    let hNc : St := ⟨.notConnected, false, false, 1000, [], false, 0⟩
    let r1 := gemStep cfgShipped hNc (gDelay false) .delayExpired
    let r2 := prodStep cfgShipped r1.1.1 r1.1.2 .connect none
    Coupled hNc (gDelay false) true
    ∧ absFrames r1.2.1 r1.2.2 = [] ∧ r1.1.2.queued = [3]
    ∧ ((Model.Pair.step ⟨absEnd hNc (gDelay false) true, ⟨true, true, .nc, .notc⟩, [], []⟩ (.delay .A)).map (·.ab)) = some []
    ∧ absFrames r2.2.1 r2.2.2 = [.s1f13] ∧ r2.1.2.queued = []
    ∧ absEnd r2.1.1 r2.1.2 true = ⟨true, false, .ns, .wcra⟩ := by
  decide +kernel

/-! ## non-vacuity: a start-up run of one (passive) endpoint through the product, step by step coupled -/

example :
    let h0 : St := St.init false 1000
    let g0 : State := Model.GemComm.init
    Coupled h0 g0 false
    ∧ (let r1 := gemStep cfgShipped h0 g0 .enable                          -- enable
       let r2 := prodStep cfgShipped r1.1.1 r1.1.2 .connect none           -- link up
       let r3 := prodDeliver cfgShipped r2.1.1 r2.1.2 .selReq 5 0          -- Select.req → Select.rsp, S1F13
       let r4 := prodDeliver cfgShipped r3.1.1 r3.1.2 (.s1f14 true) 0 0    -- S1F14 COMMACK 0
       Coupled r4.1.1 r4.1.2 true
       ∧ absEnd r4.1.1 r4.1.2 true = ⟨true, false, .sel, .comm⟩
       ∧ absFrames r3.2.1 r3.2.2 = [.selRsp, .s1f13]) := by
  decide +kernel

end SecsModel.Props.C20b
