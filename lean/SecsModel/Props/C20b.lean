import SecsModel.Proofs.PairBridge
/-!
# C20b — one endpoint of the abstract pair model IS the product of the C05 and C07 endpoint models

`Model.Pair` (C20) was validated against the real pair only through observed transition traces.  Here every step an endpoint of
`Model.Pair` can take is shown to be what the product of `Model.Hsms.step Defects.code` (C05, correspondence-checked against the real
`HsmsProtocol`) and `Model.GemComm.step` (C07, correspondence-checked against the real `GemHandler`) does on the corresponding inputs
(`Proofs/PairBridge.lean`: `prodStep`, `absEnd`, `Coupled`, `absFrames`, and what the abstraction forgets).

Shape of every theorem: from a coupled (session, handler) state the product lands in a coupled state whose abstraction is the `Pair`
endpoint after the step, and the frames the product writes abstract to the messages `Pair` sends.  Finite case analysis over
session state × communication state × message; counters, open-request lists, system bytes and the queue are symbolic.

Only property theorems, non-vacuity examples and witness theorems live here.
-/
set_option linter.unusedSimpArgs false
namespace SecsModel.Props.C20b
open SecsModel SecsModel.Proofs.PairBridge SecsModel.Proofs.HsmsFsm SecsModel.Proofs.GemComm
open SecsModel.Model.Hsms (St In Out Defects SType isOpen)
open SecsModel.Spec.E30Comm (Input Output Trans allowed)
open SecsModel.Model.GemComm (State Cfg)

set_option hygiene false
-- unfold the product, both endpoint models on their generated tables, and the pair model
local macro "bridge_simp" : tactic => `(tactic| simp [*, prodDeliver, prodStep, gemStep, prodDisable, inputOf, Model.Hsms.step, Model.Hsms.handleCtrl, Model.Hsms.handleData, Model.Hsms.withTransition,
      Model.Hsms.reject, Defects.code,
      smCall_select_ns, smCall_select_sel, smCall_disconnect_ns, smCall_disconnect_sel, Model.Hsms.afterTransition, entersConnected_eq, entersSelected_eq,
      code_selReq, code_selRsp, code_rejReq, code_sepReq, toGem_communicating, toGem_app, toGem_tx, toGem_swallowed, toGem_waiter, toGem_connected, toGem_disconnected, List.filterMap_cons, List.filterMap_nil, putIfOpen_gem, putIfOpen_frames, putIfOpen_conn, putIfOpen_disc, putIfOpen_active,
      runG, Model.GemComm.step, Model.GemComm.onMessage, perform_eq, allowed, leaveEffects_eq, enterEffects_eq, Model.GemComm.sendS1F13,
      dispatchRow_eq, hooked_comm, selects, hooked_disc, forwards, lossStates, lossStates_mem, Model.GemComm.hasCb, builtin_s1f13, h4,
      Model.Pair.handle, Model.Pair.selected, Model.Pair.handleData, absEnd, absConn, absComm, Coupled, coupledB, occurs,
      stale, absFrames, absHsmsOut, absGemOut,
      Model.Pair.closeEnd, code_desReq, code_desRsp, code_lnkReq, code_lnkRsp, connect_nc, closeSeq_connected])

-- destructure a coupled state: afterwards the finite components are variables `c`, `gc` with the coupling facts substituted
local macro "bridge_intro" cfg:ident hcfg:ident h:ident g:ident hc:ident : tactic => `(tactic|
  (obtain ⟨role, creq, ucb, sc, cg⟩ := $cfg
   obtain ⟨h1, h2, h3, h4⟩ := $hcfg
   simp only at h1 h2 h3 h4; subst h1 h2 h3
   obtain ⟨c, dc, ac, ctr, opn⟩ := $h
   obtain ⟨gc, l, a, b, n, ms, q⟩ := $g
   simp only [Coupled, coupledB, Bool.and_eq_true, beq_iff_eq, Bool.not_eq_true', Bool.or_eq_true, decide_eq_true_eq] at $hc:ident
   obtain ⟨⟨⟨⟨⟨⟨hl, ho⟩, he⟩, ht⟩, hd⟩, hs⟩, hdc⟩ := $hc
   subst hl he hdc
   rw [ht, hd]))

set_option hygiene true

/-! ## deliver -/

/-- **A message delivered to a coupled endpoint.**  The product handles the session input the message is (`inputOf`: any system
bytes; for an S1F14 no local requester may wait on them — S1F13 is sent with `send_stream_function`, which opens no transaction) and
feeds the handler what the session layer hands up (`communicating` ⇒ `linkSelected`, `message_received` ⇒ `rx 1 13/14`).  The result is
coupled, its abstraction is `(Pair.handle e m).1`, and the frames written are `(Pair.handle e m).2` — after the S1F13 queued while the
link was not selected (`stale`, written by the selecting step; empty when `queued = []`). -/
theorem sim_deliver (cfg : Cfg) (hcfg : Shipped cfg) (h : St) (g : State) (en : Bool) (hc : Coupled h g en)
    (m : Model.Pair.Msg) (sys : Int) (k : Nat) (hw : (∃ ok, m = .s1f14 ok) → isOpen h sys = false) :
    let r := prodDeliver cfg h g m sys k
    Coupled r.1.1 r.1.2 en
    ∧ absEnd r.1.1 r.1.2 en = (Model.Pair.handle (absEnd h g en) m).1
    ∧ r.2.2 = stale h g m ++ r.2.2.drop (stale h g m).length
    ∧ absFrames r.2.1 (r.2.2.drop (stale h g m).length) = (Model.Pair.handle (absEnd h g en) m).2 := by
  bridge_intro cfg hcfg h g hc
  cases c <;> cases gc <;> (try (simp [occurs] at ho; done)) <;> (try (simp at hs; done)) <;> rcases m with _ | _ | _ | ⟨_ | _⟩
  all_goals (try simp at hw)
  all_goals bridge_simp
  · have hb : (1, 13) ∈ Model.GemComm.builtin role := by cases role <;> decide
    have h4' : (1, 13) ∉ ucb := by simpa using h4
    simp [hb, h4']
    rfl
  all_goals (by_cases hx : ((1, 14) ∈ ucb ∨ (1, 14) ∈ Model.GemComm.builtin role) <;> simp [hx])

/-- with nothing queued the frames are exactly the pair model's -/
theorem sim_deliver_frames (cfg : Cfg) (hcfg : Shipped cfg) (h : St) (g : State) (en : Bool) (hc : Coupled h g en) (hq : g.queued = [])
    (m : Model.Pair.Msg) (sys : Int) (k : Nat) (hw : (∃ ok, m = .s1f14 ok) → isOpen h sys = false) :
    absFrames (prodDeliver cfg h g m sys k).2.1 (prodDeliver cfg h g m sys k).2.2 = (Model.Pair.handle (absEnd h g en) m).2 := by
  have hs : stale h g m = [] := by simp [stale, hq]
  have := (sim_deliver cfg hcfg h g en hc m sys k hw).2.2.2
  simpa [hs] using this

/-! ## link up, link down -/

/-- **`linkUp`** (per endpoint): the session input `connect` (the active side's select thread is part of it).  The endpoint becomes NOT
SELECTED, the communication state is untouched, and exactly the active side writes a Select.req. -/
theorem sim_linkUp (cfg : Cfg) (hcfg : Shipped cfg) (h : St) (g : State) (en : Bool) (hc : Coupled h g en) (hn : h.conn = .notConnected) :
    let r := prodStep cfg h g .connect none
    Coupled r.1.1 r.1.2 en
    ∧ absEnd r.1.1 r.1.2 en = { absEnd h g en with conn := .ns }
    ∧ absFrames r.2.1 r.2.2 = (if h.active then [.selReq] else []) := by
  bridge_intro cfg hcfg h g hc
  simp only at hn; subst hn
  cases gc <;> (try (simp [occurs] at ho; done)) <;> (try (simp at hs; done)) <;> cases ac <;> bridge_simp

/-- **`linkDown`** (per endpoint, also the other side of a `disable`): the session input `peerClose`; the `disconnected` event reaches
the handler as `linkLost`.  The abstraction of the result is `Pair.closeEnd`; what is written (Separate.req) is not in the pair's vocabulary.
Holds in every coupled state (a NOT CONNECTED endpoint is left alone by both). -/
theorem sim_linkDown (cfg : Cfg) (hcfg : Shipped cfg) (h : St) (g : State) (en : Bool) (hc : Coupled h g en) :
    let r := prodStep cfg h g .peerClose none
    Coupled r.1.1 r.1.2 en
    ∧ absEnd r.1.1 r.1.2 en = Model.Pair.closeEnd (absEnd h g en)
    ∧ absFrames r.2.1 r.2.2 = [] := by
  bridge_intro cfg hcfg h g hc
  cases c <;> cases gc <;> (try (simp [occurs] at ho; done)) <;> (try (simp at hs; done)) <;> bridge_simp

/-! ## timers -/

/-- **`t3`**: the handler input `t3Expired`.  In WAIT_CRA the endpoint goes to WAIT_DELAY; in every other state the timer is not pending
and nothing happens (`Pair.step` has no `t3` step there). -/
theorem sim_t3 (cfg : Cfg) (hcfg : Shipped cfg) (h : St) (g : State) (en : Bool) (hc : Coupled h g en) :
    let r := gemStep cfg h g .t3Expired
    let e := absEnd h g en
    Coupled r.1.1 r.1.2 en
    ∧ absEnd r.1.1 r.1.2 en = (if e.comm = .wcra then { e with comm := .wdelay } else e)
    ∧ absFrames r.2.1 r.2.2 = [] := by
  bridge_intro cfg hcfg h g hc
  cases c <;> cases gc <;> (try (simp [occurs] at ho; done)) <;> (try (simp at hs; done)) <;> bridge_simp

/-- **`delay`**: the handler input `delayExpired`.  In WAIT_DELAY the endpoint goes to WAIT_CRA (elsewhere nothing happens).  The state
always agrees with `Pair.step`.  The S1F13 of the new attempt is written at once iff the session is SELECTED; otherwise the handler model
queues it (`queued`) for the next `linkSelected`. -/
theorem sim_delay (cfg : Cfg) (hcfg : Shipped cfg) (h : St) (g : State) (en : Bool) (hc : Coupled h g en) :
    let r := gemStep cfg h g .delayExpired
    let e := absEnd h g en
    Coupled r.1.1 r.1.2 en
    ∧ absEnd r.1.1 r.1.2 en = (if e.comm = .wdelay then { e with comm := .wcra } else e)
    ∧ absFrames r.2.1 r.2.2 = (if e.comm = .wdelay ∧ e.conn = .sel then [.s1f13] else [])
    ∧ r.1.2.queued = (if e.comm = .wdelay ∧ e.conn ≠ .sel then g.queued ++ [g.nextSys] else g.queued) := by
  bridge_intro cfg hcfg h g hc
  cases c <;> cases gc <;> (try (simp [occurs] at ho; done)) <;> (try (simp at hs; done)) <;> bridge_simp

/-- what `Pair.step (.delay x)` sends, for comparison with `sim_delay`: it agrees with the product exactly when the endpoint is not
(WAIT_DELAY, NOT SELECTED) — see `delay_not_selected_differs`. -/
theorem pair_delay_frames (p : Model.Pair.Pair) (x : Model.Pair.Side) (p' : Model.Pair.Pair) (hs : Model.Pair.step p (.delay x) = some p') :
    (p.get x).comm = .wdelay
    ∧ p'.get x = { p.get x with comm := .wcra }
    ∧ (match x with | .A => p'.ab | .B => p'.ba)
        = (match x with | .A => p.ab | .B => p.ba) ++ (if (p.get x).conn ≠ .nc then [.s1f13] else []) := by
  simp only [Model.Pair.step] at hs
  by_cases hw : (p.get x).comm = .wdelay
  · rw [if_pos hw] at hs
    injection hs with hs
    subst hs
    by_cases hn : (p.get x).conn = .nc <;> cases x <;>
      simp_all [Model.Pair.Pair.get, Model.Pair.Pair.set, Model.Pair.Pair.send]
  · rw [if_neg hw] at hs; cases hs

/-! ## enable, disable -/

/-- **`enable`**: `GemHandler.enable()` — the handler input `enable` (the protocol's `enable()` only arms the connection). -/
theorem sim_enable (cfg : Cfg) (hcfg : Shipped cfg) (h : St) (g : State) (en : Bool) (hc : Coupled h g en) (hen : en = false) :
    let r := gemStep cfg h g .enable
    Coupled r.1.1 r.1.2 true
    ∧ absEnd r.1.1 r.1.2 true = { absEnd h g en with en := true, comm := .notc }
    ∧ absFrames r.2.1 r.2.2 = [] := by
  bridge_intro cfg hcfg h g hc
  cases c <;> cases gc <;> (try (simp [occurs] at ho; done)) <;> (try (simp at hs; done)) <;> (try (simp at hen; done)) <;> bridge_simp

/-- **`disable`** (the disabling endpoint): `GemHandler.disable()` = local close of the session (begin, end; the `disconnected` event
reaches the handler as `linkLost`), then `_communication_state.disable()`.  The peer's side of it is `sim_linkDown`. -/
theorem sim_disable (cfg : Cfg) (hcfg : Shipped cfg) (h : St) (g : State) (en : Bool) (hc : Coupled h g en) (hen : en = true) :
    let r := prodDisable cfg h g
    Coupled r.1.1 r.1.2 false
    ∧ absEnd r.1.1 r.1.2 false = { absEnd h g en with en := false, conn := .nc, comm := .dis }
    ∧ absFrames r.2.1 r.2.2 = [] := by
  bridge_intro cfg hcfg h g hc
  cases c <;> cases gc <;> (try (simp [occurs] at ho; done)) <;> (try (simp at hs; done)) <;> (try (simp at hen; done)) <;> bridge_simp

/-! ## the one disagreement (frames only), as concrete witnesses -/

/-- the configuration of the shipped code used by the witnesses (an equipment; the role plays no part) -/
def cfgShipped : Cfg := { commackGate := true }

example : Shipped cfgShipped := by decide

/-- a coupled endpoint that is connected but NOT SELECTED and waits in WAIT_DELAY (reached by: T3 in WAIT_CRA, link lost, link up) -/
def hNs : St := ⟨.notSelected, false, false, 1000, []⟩
def gDelay : State := { comm := .waitDelay, delayArmed := true, nextSys := 3 }

/-- **Witness D1 (NOT SELECTED, WAIT_DELAY, delay expires).**  `Model.Pair` sends the S1F13 at once (the receiver thread of a connected
session runs — this is what the code does); the product writes nothing and queues it, because `Model.GemComm`'s `link` means "connected
and selected".  The states agree (WAIT_CRA).  The queued S1F13 is then written by the step that selects, after the Select.rsp —
when `Model.Pair` sends nothing (WAIT_CRA is not NOT_COMMUNICATING). -/
theorem delay_not_selected_differs :
    Coupled hNs gDelay true
    ∧ absFrames (gemStep cfgShipped hNs gDelay .delayExpired).2.1 (gemStep cfgShipped hNs gDelay .delayExpired).2.2 = []
    ∧ (gemStep cfgShipped hNs gDelay .delayExpired).1.2.queued = [3]
    ∧ ((Model.Pair.step ⟨absEnd hNs gDelay true, ⟨true, true, .ns, .notc⟩, [], []⟩ (.delay .A)).map (·.ab)) = some [.s1f13]
    ∧ (let g1 := (gemStep cfgShipped hNs gDelay .delayExpired).1.2
       let r := prodDeliver cfgShipped hNs g1 .selReq 7 0
       absFrames r.2.1 r.2.2 = [.selRsp, .s1f13] ∧ (Model.Pair.handle (absEnd hNs g1 true) .selReq).2 = [.selRsp]) := by
  decide +kernel

/-- **Witness D2 (NOT CONNECTED, WAIT_DELAY, delay expires).**  `Model.Pair` forgets the S1F13 (nothing is sent, now or later); the
product queues it and writes it at the next select.  (The code writes it as the first frame of the next connection, where the peer —
still NOT SELECTED — answers Reject.req, which the sender ignores: forgetting it is what the peer's state sees.) -/
theorem delay_not_connected_differs :
    let hNc : St := ⟨.notConnected, false, false, 1000, []⟩
    Coupled hNc gDelay true
    ∧ (gemStep cfgShipped hNc gDelay .delayExpired).1.2.queued = [3]
    ∧ ((Model.Pair.step ⟨absEnd hNc gDelay true, ⟨true, true, .nc, .notc⟩, [], []⟩ (.delay .A)).map (·.ab)) = some [] := by
  decide +kernel

/-! ## non-vacuity: a start-up run of one (passive) endpoint through the product, step by step coupled -/

example :
    let h0 : St := St.init false 1000
    let g0 : State := Model.GemComm.init
    Coupled h0 g0 false
    ∧ (let r1 := gemStep cfgShipped h0 g0 .enable                          -- enable
       let r2 := prodStep cfgShipped r1.1.1 r1.1.2 .connect none           -- link up
       let r3 := prodDeliver cfgShipped r2.1.1 r2.1.2 .selReq 5 0          -- Select.req → Select.rsp, S1F13
       let r4 := prodDeliver cfgShipped r3.1.1 r3.1.2 (.s1f14 true) 0 0    -- S1F14 COMMACK 0
       Coupled r4.1.1 r4.1.2 true
       ∧ absEnd r4.1.1 r4.1.2 true = ⟨true, false, .sel, .comm⟩
       ∧ absFrames r3.2.1 r3.2.2 = [.selRsp, .s1f13]) := by
  decide +kernel

end SecsModel.Props.C20b
