import SecsModel.Gen.Catalogue
import SecsModel.Gen.DataItems
import SecsModel.Model.Catalogue
import SecsModel.Proofs.C03Tab0
import SecsModel.Proofs.C03Tab1
import SecsModel.Proofs.C03Tab2
import SecsModel.Proofs.C03Tab3
import SecsModel.Proofs.C03Tab4
/-!
# C03 — every catalogued stream/function is found by its S/F numbers; pairing, flags and YAML agree

Table obligations over the generated catalogue (`Gen.Catalogue.py` from `functions/_all.py` + `sXXfYY.py`, `Gen.Catalogue.yaml`
from `functions.yaml`, `Gen.DataItems` from `data_items/`).  They are re-proved against the current source on every run: the
kernel evaluates the model (`Model.Catalogue`, `Model.Sfdl`) over every generated row (`Proofs/C03Tab*.lean`, one quarter of the
table per module).  The value round-trip corollary (`function_roundtrip`) needs the codec model (`Model/Var.lean`, another
package) and is not stated here.
-/
namespace SecsModel.Props.C03
open SecsModel SecsModel.Gen.Catalogue SecsModel.Model.Catalogue SecsModel.Proofs.C03Tab

/-- all four quarters -/
theorem rows_ok : ∀ x ∈ py, rowOk py yaml x = true := by
  intro x hx
  simp only [py, List.mem_append] at hx
  rcases hx with ((h | h) | h) | h
  · exact List.all_eq_true.mp rows0 x h
  · exact List.all_eq_true.mp rows1 x h
  · exact List.all_eq_true.mp rows2 x h
  · exact List.all_eq_true.mp rows3 x h

theorem rowOk_parts {x : Fn} (h : rowOk py yaml x = true) :
    lookupOk py x = true ∧ formatOk x.dataFormat = true ∧ (isS2F49 x = true ∨ pairRule py x = true) ∧ yamlRowAgrees yaml x = true := by
  simpa [rowOk, and_assoc] using h

/-- no two catalogued classes carry the same (stream, function) -/
theorem keys_unique : (py.map key).Nodup := distinctKeys_nodup _ pyKeysDistinct

/-- **Lookup is total and exact on the catalogue**: `StreamsFunctions.function(s, f)` with the numbers of a catalogued class
returns that class (never `None`, never the duplicate error) -/
theorem lookup_total : ∀ x ∈ py, function py x.stream x.function = .ok (some x) := by
  intro x hx
  have h := (rowOk_parts (rows_ok x hx)).1
  unfold lookupOk at h
  split at h
  · rename_i y heq
    rw [heq, eq_of_beq h]
  · exact absurd h (by decide)

/-- every structure text of the catalogue tokenizes, names only catalogued data item classes, and `functions.generate`
builds a variable tree from it in which no array descriptor is broken -/
theorem all_parse : ∀ x ∈ py, ∀ t, x.dataFormat = some t →
    ∃ ts o, Model.Sfdl.tokenize t = .ok ts ∧ (∀ n ∈ Model.Sfdl.dataItems ts, Model.Sfdl.classKnown n = true)
      ∧ Model.Sfdl.parse t = .ok o ∧ objOk o = true := by
  intro x hx t ht
  have h := (rowOk_parts (rows_ok x hx)).2.1
  rw [ht] at h
  unfold formatOk at h
  simp only at h
  split at h
  · exact absurd h (by decide)
  · rename_i ts hts
    simp only [Bool.and_eq_true, List.all_eq_true] at h
    obtain ⟨hk, hg⟩ := h
    split at hg
    · exact absurd hg (by decide)
    · rename_i fmt rest hf
      split at hg
      · rename_i o ho
        refine ⟨ts, o, hts, hk, ?_, hg⟩
        simp only [Model.Sfdl.parse, hts, hf, ho]
      · exact absurd hg (by decide)

/-- **Pairing, all rows but S2F49**: a required reply is a declared reply; a primary (odd function) declares a reply exactly
when its secondary `(s, f+1)` is catalogued, and that secondary travels the opposite way; a secondary (even function) declares
neither flag -/
theorem pairing_partial : ∀ x ∈ py, isS2F49 x = false → pairRule py x = true := by
  intro x hx h49
  rcases (rowOk_parts (rows_ok x hx)).2.2.1 with h | h
  · rw [h49] at h; exact absurd h (by decide)
  · exact h

/-- the excluded row violates the rule: S2F49 declares no reply although S2F50 is catalogued (open finding `c03-s2f49-reply-flags`) -/
theorem witness_s2f49_reply_flags :
    ∃ x ∈ py, isS2F49 x = true ∧ pairRule py x = false ∧ x.hasReply = false ∧ (find py 2 50).isSome = true := by
  refine ⟨⟨['S', 'e', 'c', 's', 'S', '0', '2', 'F', '4', '9'], 2, 49, false, true, false, false, true, some fmt_SecsS02F49⟩, ?_, ?_⟩
  · decide +kernel
  · decide +kernel

/-- **YAML agrees with the classes**: the same (stream, function) keys on both sides, YAML keys unique, and for every class the
YAML row has the same five flags and a token-equal structure text -/
theorem yaml_agrees :
    (∀ x ∈ py, ∃ y ∈ yaml, key y = key x ∧ rowsAgree x y = true) ∧ (∀ y ∈ yaml, key y ∈ py.map key) ∧ (yaml.map key).Nodup := by
  refine ⟨?_, ?_, distinctKeys_nodup _ yamlKeysDistinct⟩
  · intro x hx
    have h := (rowOk_parts (rows_ok x hx)).2.2.2
    unfold yamlRowAgrees at h
    split at h
    · exact absurd h (by decide)
    · rename_i y hy
      have hm := List.mem_of_find?_eq_some hy
      have hp := List.find?_some hy
      simp only [Bool.and_eq_true, beq_iff_eq] at hp
      exact ⟨y, hm, by simp [key, hp.1, hp.2], h⟩
  · intro y hy
    simp only [yaml, List.mem_append] at hy
    have := fun (l : List Fn) (hl : l.all (fun y => (py.map key).contains (key y)) = true) (hy : y ∈ l) =>
      List.contains_iff_mem.mp (List.all_eq_true.mp hl y hy)
    rcases hy with ((h | h) | h) | h
    · exact this _ yamlKeys0 h
    · exact this _ yamlKeys1 h
    · exact this _ yamlKeys2 h
    · exact this _ yamlKeys3 h

/-- **Configurations are independent**: the constructors of the two containers (`StreamsFunctions`, `DataItems`) bind a copy of the
module-level catalogue list, never the list itself — `update()` on one container cannot reach another container, a settings
object created later, or the catalogue `lookup_total` speaks about (fact extracted from the constructors' source on every run) -/
theorem containers_isolated : containerCopiesCatalogue = true ∧ containerCopiesDataItems = true := by decide

/-- non-vacuity: the tables are the 134 shipped functions, 115 of them with a structure; the pairing rule has primaries with
and without reply and secondaries -/
example : py.length = 134 ∧ yaml.length = 134 ∧ (py.filter (·.dataFormat.isSome)).length = 115
    ∧ (py.filter (fun x => x.function % 2 == 1 && x.hasReply)).length = 57 := by decide +kernel

/-! ## the data item table -/
open SecsModel.Gen.DataItems in
/-- data item classes: class name = `name` attribute, names unique, the classes of the table are exactly the classes the
`data_items` package exports, each is an attribute of that module, every name is unchanged by `upper()` and none is `L` -/
theorem data_items_wellformed :
    (∀ i ∈ items, i.cls = i.name) ∧ (items.map (·.cls)).Nodup
    ∧ (∀ i ∈ items, i.cls ∈ moduleClasses) ∧ (∀ c ∈ moduleClasses, c ∈ items.map (·.cls))
    ∧ (∀ c ∈ moduleClasses, c ∈ moduleAttrs)
    ∧ (∀ c ∈ moduleClasses, Model.Sfdl.upper c = c ∧ c ≠ Model.Sfdl.capL) := by
  have h := dataItems_ok
  simp only [dataItemsOk, Bool.and_eq_true, List.all_eq_true, beq_iff_eq, List.contains_iff_mem, bne_iff_ne, ne_eq] at h
  obtain ⟨⟨h1, h2⟩, h3⟩ := h
  exact ⟨fun i hi => (h1 i hi).1, distinctNames_nodup _ h2, fun i hi => (h1 i hi).2, fun c hc => (h3 c hc).1.1.1,
    fun c hc => (h3 c hc).1.1.2, fun c hc => ⟨(h3 c hc).1.2, (h3 c hc).2⟩⟩

end SecsModel.Props.C03
