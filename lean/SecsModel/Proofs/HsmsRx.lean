import SecsModel.Proofs.HsmsHeader
import SecsModel.Model.Rx
/-! Lemmas about the hand model `Model.Rx` (HSMS block codec, framing loop, segmentation). -/
namespace SecsModel.Proofs.HsmsRx
open SecsModel SecsModel.Gen SecsModel.Model.Rx SecsModel.Proofs.HsmsHdr

/-- equality of results is decidable (used by the concrete `decide +kernel` examples) -/
instance exceptDecEq {ε α : Type} [DecidableEq ε] [DecidableEq α] : DecidableEq (Except ε α) := fun a b =>
  match a, b with
  | .ok x, .ok y => if h : x = y then isTrue (by rw [h]) else isFalse (by intro e; cases e; exact h rfl)
  | .error x, .error y => if h : x = y then isTrue (by rw [h]) else isFalse (by intro e; cases e; exact h rfl)
  | .ok _, .error _ => isFalse (by intro e; cases e)
  | .error _, .ok _ => isFalse (by intro e; cases e)

/-! ## fuel -/

theorem extractF_fuel : ∀ (f g : Nat) (buf : Bytes), buf.length ≤ f → buf.length ≤ g → extractF f buf = extractF g buf
  | 0, g, buf, hf, _ => by
    have hb : buf.length = 0 := by omega
    cases g with
    | zero => rfl
    | succ g => simp [extractF, hb]
  | f+1, 0, buf, _, hg => by
    have hb : buf.length = 0 := by omega
    simp [extractF, hb]
  | f+1, g+1, buf, hf, hg => by
    simp only [extractF]
    split
    · rfl
    · rename_i h4
      split
      · rfl
      · rename_i hn
        have hd : (buf.drop (ofBe (buf.take 4) + 4)).length ≤ f := by simp only [List.length_drop]; omega
        have hd' : (buf.drop (ofBe (buf.take 4) + 4)).length ≤ g := by simp only [List.length_drop]; omega
        rw [extractF_fuel f g _ hd hd']

/-- unfolding equation of the receive loop (fuel eliminated) -/
theorem extract_eq (buf : Bytes) : extract buf =
    if buf.length < 4 then ⟨[], buf, false⟩ else
    if buf.length < ofBe (buf.take 4) + 4 then ⟨[], buf, false⟩ else
    match Block.decode (buf.take (ofBe (buf.take 4) + 4)) with
    | .error _ => ⟨[], buf.drop (ofBe (buf.take 4) + 4), true⟩
    | .ok b => ⟨b :: (extract (buf.drop (ofBe (buf.take 4) + 4))).frames, (extract (buf.drop (ofBe (buf.take 4) + 4))).rest,
        (extract (buf.drop (ofBe (buf.take 4) + 4))).aborted⟩ := by
  unfold extract
  rw [extractF_fuel buf.length (buf.length + 1) buf (Nat.le_refl _) (Nat.le_succ _)]
  simp only [extractF]
  split
  · rfl
  · split
    · rfl
    · rename_i h4 hn
      have hd : (buf.drop (ofBe (buf.take 4) + 4)).length ≤ buf.length := by simp only [List.length_drop]; omega
      rw [extractF_fuel buf.length _ _ hd (Nat.le_refl _)]
      rfl

theorem extract_short (buf : Bytes) (h : buf.length < 4) : extract buf = ⟨[], buf, false⟩ := by
  rw [extract_eq]; simp [h]

theorem extract_nil : extract [] = ⟨[], [], false⟩ := extract_short [] (by simp)

/-! ## independence of segmentation -/

/-- **the content of "independent of segmentation"**: running the loop on `a ++ b` is running it on `a`, then on what was left plus `b`
(and a run that an exception ended on `a` ends the same way on `a ++ b`) -/
theorem extract_append : ∀ (k : Nat) (a b : Bytes), a.length ≤ k →
    extract (a ++ b) =
      if (extract a).aborted then ⟨(extract a).frames, (extract a).rest ++ b, true⟩
      else ⟨(extract a).frames ++ (extract ((extract a).rest ++ b)).frames, (extract ((extract a).rest ++ b)).rest,
            (extract ((extract a).rest ++ b)).aborted⟩
  | k, a, b, hk => by
    by_cases h4 : a.length < 4
    · simp [extract_short a h4]
    · have ht : (a ++ b).take 4 = a.take 4 := by rw [List.take_append_of_le_length (by omega)]
      by_cases hn : a.length < ofBe (a.take 4) + 4
      · have : extract a = ⟨[], a, false⟩ := by rw [extract_eq]; simp [h4, hn]
        simp [this]
      · -- a complete first frame is in `a`
        have htn : (a ++ b).take (ofBe (a.take 4) + 4) = a.take (ofBe (a.take 4) + 4) := by
          rw [List.take_append_of_le_length (by omega)]
        have hdn : (a ++ b).drop (ofBe (a.take 4) + 4) = a.drop (ofBe (a.take 4) + 4) ++ b := by
          rw [List.drop_append_of_le_length (by omega)]
        have hl4 : ¬ (a ++ b).length < 4 := by simp only [List.length_append]; omega
        have hln : ¬ (a ++ b).length < ofBe (a.take 4) + 4 := by simp only [List.length_append]; omega
        have ea := extract_eq a
        have eab := extract_eq (a ++ b)
        rw [ht] at eab
        simp only [h4, hn, hl4, hln, if_false, htn, hdn] at ea eab
        cases hd : Block.decode (a.take (ofBe (a.take 4) + 4)) with
        | error e =>
          rw [hd] at ea eab
          simp only at ea eab
          rw [eab, ea]; simp
        | ok blk =>
          rw [hd] at ea eab
          simp only at ea eab
          match k, hk with
          | 0, hk => omega
          | k+1, hk =>
            have hlen : (a.drop (ofBe (a.take 4) + 4)).length ≤ k := by simp only [List.length_drop]; omega
            have ih := extract_append k (a.drop (ofBe (a.take 4) + 4)) b hlen
            rw [eab, ea, ih]
            by_cases hab : (extract (a.drop (ofBe (a.take 4) + 4))).aborted = true
            · simp [hab]
            · simp [hab]

theorem extract_append' (a b : Bytes) :
    extract (a ++ b) =
      if (extract a).aborted then ⟨(extract a).frames, (extract a).rest ++ b, true⟩
      else ⟨(extract a).frames ++ (extract ((extract a).rest ++ b)).frames, (extract ((extract a).rest ++ b)).rest,
            (extract ((extract a).rest ++ b)).aborted⟩ := extract_append a.length a b (Nat.le_refl _)

/-- a run that is not ended by an exception on the whole stream is not ended by one on a prefix -/
theorem not_aborted_prefix (a b : Bytes) (h : (extract (a ++ b)).aborted = false) : (extract a).aborted = false := by
  rw [extract_append'] at h
  by_cases hab : (extract a).aborted = true
  · simp [hab] at h
  · simpa using hab

/-- frames of a prefix are a prefix of the frames of the whole (nothing is taken back, duplicated or merged later) -/
theorem frames_prefix (a b : Bytes) : (extract a).frames <+: (extract (a ++ b)).frames := by
  rw [extract_append']
  by_cases hab : (extract a).aborted = true
  · simp [hab]
  · simp [hab]

/-- what a run leaves behind holds no complete frame: a second run does nothing -/
theorem extract_rest : ∀ (k : Nat) (a : Bytes), a.length ≤ k → (extract a).aborted = false →
    extract (extract a).rest = ⟨[], (extract a).rest, false⟩
  | k, a, hk, hab => by
    by_cases h4 : a.length < 4
    · rw [extract_short a h4]; exact extract_short a h4
    · by_cases hn : a.length < ofBe (a.take 4) + 4
      · have : extract a = ⟨[], a, false⟩ := by rw [extract_eq]; simp [h4, hn]
        rw [this]; exact this
      · have ea := extract_eq a
        simp only [h4, hn, if_false] at ea
        cases hd : Block.decode (a.take (ofBe (a.take 4) + 4)) with
        | error e =>
          rw [hd] at ea; simp only at ea
          rw [ea] at hab; simp at hab
        | ok blk =>
          rw [hd] at ea; simp only at ea
          match k, hk with
          | 0, hk => omega
          | k+1, hk =>
            have hlen : (a.drop (ofBe (a.take 4) + 4)).length ≤ k := by simp only [List.length_drop]; omega
            have hab' : (extract (a.drop (ofBe (a.take 4) + 4))).aborted = false := by rw [ea] at hab; simpa using hab
            have ih := extract_rest k _ hlen hab'
            rw [ea]; exact ih

/-- a buffer on which the loop has nothing to do -/
def Settled (buf : Bytes) : Prop := extract buf = ⟨[], buf, false⟩

theorem settled_nil : Settled [] := extract_nil

/-- feeding any list of chunks = one run over the concatenation, as long as no exception ends a run -/
theorem foldl_feed : ∀ (chunks : List Bytes) (s : Rx), Settled s.buf → (extract (s.buf ++ chunks.flatten)).aborted = false →
    chunks.foldl feed s = ⟨(extract (s.buf ++ chunks.flatten)).rest, s.delivered ++ (extract (s.buf ++ chunks.flatten)).frames, s.aborts⟩
  | [], s, hs, _ => by
    simp only [List.flatten_nil, List.append_nil, List.foldl_nil]
    rw [hs]; simp
  | c :: cs, s, _, h => by
    have hassoc : s.buf ++ (c :: cs).flatten = (s.buf ++ c) ++ cs.flatten := by simp
    rw [hassoc] at h ⊢
    have h1 : (extract (s.buf ++ c)).aborted = false := not_aborted_prefix _ _ h
    have hfeed : feed s c = ⟨(extract (s.buf ++ c)).rest, s.delivered ++ (extract (s.buf ++ c)).frames, s.aborts⟩ := by
      simp [feed, h1]
    have hset : Settled (feed s c).buf := by rw [hfeed]; exact extract_rest _ _ (Nat.le_refl _) h1
    have eapp := extract_append' (s.buf ++ c) cs.flatten
    simp only [h1, Bool.false_eq_true, if_false] at eapp
    have h2 : (extract ((feed s c).buf ++ cs.flatten)).aborted = false := by
      rw [hfeed]; rw [eapp] at h; simpa using h
    rw [List.foldl_cons, foldl_feed cs (feed s c) hset h2, eapp, hfeed]
    simp

/-! ## the block codec -/

/-- a block that can go on the wire: in-range header, body length fits the 32-bit length field -/
structure Valid (b : Block) : Prop where
  header : InRange b.header
  size : 10 + b.data.length < 2^32

/-- the E37 frame a block denotes -/
def frameOf (b : Block) : Bytes := Spec.E37.frame (toSpec b.header) b.data

/-- the concatenated byte stream of a sequence of blocks -/
def wire (bs : List Block) : Bytes := (bs.map frameOf).flatten

theorem frameOf_length (b : Block) : (frameOf b).length = 14 + b.data.length := Spec.E37.frame_length _ _

/-- `HsmsBlock.encode` yields exactly the E37 frame -/
theorem encode_exact (b : Block) (hv : Valid b) : b.encode = .ok (frameOf b) := by
  have hh := encode_layout b.header hv.header
  have hlen : (Spec.E37.headerBytes (toSpec b.header)).length = 10 := Spec.E37.headerBytes_length _
  have hsz : 10 + b.data.length < 256 ^ 4 := by have := hv.size; omega
  simp only [Block.encode, hh, BlockFmt.hsmsLengthWidth, HsmsHeader.length, hsz, if_true]
  simp only [frameOf, Spec.E37.frame]
  have ht : (Spec.E37.headerBytes (toSpec b.header)).take 10 = Spec.E37.headerBytes (toSpec b.header) :=
    List.take_of_length_le (by omega)
  rw [ht, hlen]; simp

theorem frame_take4 (b : Block) (rest : Bytes) : (frameOf b ++ rest).take 4 = be 4 (10 + b.data.length) := by
  simp only [frameOf, Spec.E37.frame, List.append_assoc]
  rw [List.take_left' (be_length _ _)]

/-- `HsmsBlock.decode` recovers the block from its frame -/
theorem decode_frame (b : Block) (hv : Valid b) : Block.decode (frameOf b) = .ok b := by
  have hsz := hv.size
  have hlen : (frameOf b).length = 14 + b.data.length := frameOf_length b
  have hhl : (Spec.E37.headerBytes (toSpec b.header)).length = 10 := Spec.E37.headerBytes_length _
  have ht4 : (frameOf b).take 4 = be 4 (10 + b.data.length) := by
    have := frame_take4 b []; simpa using this
  have hof : ofBe (be 4 (10 + b.data.length)) = 10 + b.data.length := ofBe_be_of_lt _ _ (by omega)
  have hdrop4 : (frameOf b).drop 4 = Spec.E37.headerBytes (toSpec b.header) ++ b.data := by
    simp only [frameOf, Spec.E37.frame, List.append_assoc]
    rw [List.drop_left' (be_length _ _)]
  have hhdr : ((frameOf b).drop 4).take 10 = Spec.E37.headerBytes (toSpec b.header) := by
    rw [hdrop4, List.take_left' hhl]
  have hdrop14 : (frameOf b).drop 14 = b.data := by
    have : (frameOf b).drop 14 = ((frameOf b).drop 4).drop 10 := by rw [List.drop_drop]
    rw [this, hdrop4, List.drop_left' hhl]
  simp only [Block.decode, BlockFmt.hsmsLengthWidth, HsmsHeader.length, ht4, hof, hlen, hhdr, decode_layout b.header hv.header]
  have e1 : ¬ (14 + b.data.length < 4) := by omega
  have e2 : ¬ (10 + b.data.length < 10) := by omega
  have e3 : ¬ (14 + b.data.length ≠ 4 + 10 + (10 + b.data.length - 10)) := by omega
  simp only [e1, e2, e3, if_false]
  have e4 : 4 + 10 = 14 := rfl
  rw [e4, hdrop14]
  have e5 : 10 + b.data.length - 10 = b.data.length := by omega
  rw [e5, List.take_length]

/-- a frame at the head of the buffer is delivered as its block, the loop goes on behind it -/
theorem extract_frame (b : Block) (hv : Valid b) (rest : Bytes) :
    extract (frameOf b ++ rest) = ⟨b :: (extract rest).frames, (extract rest).rest, (extract rest).aborted⟩ := by
  have hsz := hv.size
  have hlen : (frameOf b).length = 14 + b.data.length := frameOf_length b
  have hof : ofBe (be 4 (10 + b.data.length)) = 10 + b.data.length := ofBe_be_of_lt _ _ (by omega)
  rw [extract_eq, frame_take4, hof]
  have e1 : ¬ ((frameOf b ++ rest).length < 4) := by simp only [List.length_append]; omega
  have e2 : ¬ ((frameOf b ++ rest).length < 10 + b.data.length + 4) := by simp only [List.length_append]; omega
  have ht : (frameOf b ++ rest).take (10 + b.data.length + 4) = frameOf b := List.take_left' (by omega)
  have hd : (frameOf b ++ rest).drop (10 + b.data.length + 4) = rest := List.drop_left' (by omega)
  simp only [e1, e2, if_false, ht, hd, decode_frame b hv]

/-- the stream of valid blocks is framed back to exactly those blocks -/
theorem extract_wire : ∀ (bs : List Block), (∀ b ∈ bs, Valid b) → ∀ (tail : Bytes),
    extract (wire bs ++ tail) = ⟨bs ++ (extract tail).frames, (extract tail).rest, (extract tail).aborted⟩
  | [], _, tail => by simp [wire]
  | b :: bs, hv, tail => by
    have hb : Valid b := hv b (by simp)
    have ih := extract_wire bs (fun x hx => hv x (by simp [hx])) tail
    have : wire (b :: bs) ++ tail = frameOf b ++ (wire bs ++ tail) := by simp [wire]
    rw [this, extract_frame b hb, ih]; simp

theorem extract_wire_nil (bs : List Block) (hv : ∀ b ∈ bs, Valid b) : extract (wire bs) = ⟨bs, [], false⟩ := by
  have := extract_wire bs hv []
  simpa [extract_nil] using this

end SecsModel.Proofs.HsmsRx
