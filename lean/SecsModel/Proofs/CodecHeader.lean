import SecsModel.Proofs.PyLemmas
import SecsModel.Spec.E5
import SecsModel.Gen.ItemHeaderVar
import SecsModel.Gen.ItemHeaderItem
/-! Proof obligations over the *generated* `encode_item_header` of both APIs: for every format code and **every** length the
translated Python produces exactly `Spec.E5.header` (format byte `code<<2 | n`, the fewest big-endian length bytes), and refuses
lengths outside `0 … 0xFFFFFF`. -/
namespace SecsModel.Proofs.CodecHeader
open SecsModel SecsModel.Spec.E5

theorem fmt_byte (code n : Nat) (hn : n < 4) : code <<< 2 ||| n = code * 4 + n := by
  have := Nat.shiftLeft_add_eq_or_of_lt (a := code) (b := n) (i := 2) (by omega)
  rw [← this, Nat.shiftLeft_eq]

theorem byte2 (x : Nat) : (x &&& 16711680) >>> 16 = x / 65536 % 256 := by
  have h : (16711680 : Nat) = 255 <<< 16 := by decide
  rw [h, Py.and_shl_shr, Nat.shiftRight_eq_div_pow]
  exact Py.and_mask _ 8

theorem byte1 (x : Nat) : (x &&& 65280) >>> 8 = x / 256 % 256 := by
  have h : (65280 : Nat) = 255 <<< 8 := by decide
  rw [h, Py.and_shl_shr, Nat.shiftRight_eq_div_pow]
  exact Py.and_mask _ 8

theorem byte0 (x : Nat) : x &&& 255 = x % 256 := Py.and_mask x 8

theorem bytesOf_nat : ∀ (xs : List Nat), (∀ x ∈ xs, x < 256) → Py.bytesOf (xs.map (fun (x : Nat) => (x : Int))) = .ok xs
  | [], _ => rfl
  | x :: xs, h => by
    have hx : x < 256 := h x (by simp)
    have ih := bytesOf_nat xs (fun y hy => h y (by simp [hy]))
    have c : (0 : Int) ≤ (x : Int) ∧ (x : Int) < 256 := ⟨Int.natCast_nonneg x, by omega⟩
    simp only [List.map_cons, Py.bytesOf, c, and_self, if_true, ih, Int.toNat_natCast]

/-- what both translated functions compute on naturals -/
theorem spec_header_eq (code len : Nat) :
    Spec.E5.header code len =
      if 0xFFFFFF < len then .error .valueError
      else if 0xFFFF < len then .ok [code * 4 + 3, len / 65536 % 256, len / 256 % 256, len % 256]
      else if 0xFF < len then .ok [code * 4 + 2, len / 256 % 256, len % 256]
      else .ok [code * 4 + 1, len % 256] := by
  simp only [Spec.E5.header, nlbOf]
  by_cases h1 : 0xFFFFFF < len
  · simp [h1]
  · by_cases h2 : 0xFFFF < len
    · have a : ¬ len ≤ 0xFF := by omega
      have b : ¬ len ≤ 0xFFFF := by omega
      simp [h1, h2, a, b, be]
    · by_cases h3 : 0xFF < len
      · have a : ¬ len ≤ 0xFF := by omega
        have b : len ≤ 0xFFFF := by omega
        simp [h1, h2, h3, a, b, be]
      · have a : len ≤ 0xFF := by omega
        simp [h1, h2, h3, a, be]

/-- the proof script shared by the two generated functions (they are separate translations of separate Python methods) -/
macro "header_exact_tac" enc:ident : tactic => `(tactic| (
  intro code len hc
  rw [spec_header_eq]
  have e3 : (3 : Int) = ((3 : Nat) : Int) := rfl
  have e2 : (2 : Int) = ((2 : Nat) : Int) := rfl
  have e1 : (1 : Int) = ((1 : Nat) : Int) := rfl
  have e16 : (16 : Int) = ((16 : Nat) : Int) := rfl
  have e8 : (8 : Int) = ((8 : Nat) : Int) := rfl
  have m2 : (16711680 : Int) = ((16711680 : Nat) : Int) := rfl
  have m1 : (65280 : Int) = ((65280 : Nat) : Int) := rfl
  have m0 : (255 : Int) = ((255 : Nat) : Int) := rfl
  have n0 : ¬ ((len : Int) < 0) := by omega
  simp only [$enc:ident, n0, decide_false, Bool.false_eq_true, if_false]
  by_cases h1 : 0xFFFFFF < len
  · have c : (len : Int) > 16777215 := by omega
    simp only [c, decide_true, if_true, h1]
  · have c : ¬ ((len : Int) > 16777215) := by omega
    simp only [c, decide_false, Bool.false_eq_true, if_false, h1]
    by_cases h2 : 0xFFFF < len
    · have c2 : (len : Int) > 65535 := by omega
      simp only [c2, decide_true, if_true, h2]
      rw [e3, e2, e16, e8, m2, m1, m0, Py.shl_nat, Py.bor_nat, Py.band_nat, Py.band_nat, Py.band_nat, Py.shr_nat, Py.shr_nat,
        fmt_byte code 3 (by omega), byte2, byte1, byte0]
      exact bytesOf_nat [code * 4 + 3, len / 65536 % 256, len / 256 % 256, len % 256] (by intro x hx; simp at hx; omega)
    · have c2 : ¬ ((len : Int) > 65535) := by omega
      simp only [c2, decide_false, Bool.false_eq_true, if_false, h2]
      by_cases h3 : 0xFF < len
      · have c3 : (len : Int) > 255 := by omega
        simp only [c3, decide_true, if_true, h3]
        rw [e2, e8, m1, m0, Py.shl_nat, Py.bor_nat, Py.band_nat, Py.band_nat, Py.shr_nat, fmt_byte code 2 (by omega), byte1, byte0]
        exact bytesOf_nat [code * 4 + 2, len / 256 % 256, len % 256] (by intro x hx; simp at hx; omega)
      · have c3 : ¬ ((len : Int) > 255) := by omega
        simp only [c3, decide_false, Bool.false_eq_true, if_false, h3]
        rw [e2, e1, m0, Py.shl_nat, Py.bor_nat, Py.band_nat, fmt_byte code 1 (by omega), byte0]
        exact bytesOf_nat [code * 4 + 1, len % 256] (by intro x hx; simp at hx; omega)))

/-- `Base.encode_item_header` (variables API), all lengths -/
theorem var_header_exact : ∀ (code len : Nat), code < 64 →
    Gen.ItemHeaderVar.encode (code : Int) (len : Int) = Spec.E5.header code len := by
  header_exact_tac Gen.ItemHeaderVar.encode

/-- `Item.encode_item_header` (Item API), all lengths -/
theorem item_header_exact : ∀ (code len : Nat), code < 64 →
    Gen.ItemHeaderItem.encode (code : Int) (len : Int) = Spec.E5.header code len := by
  header_exact_tac Gen.ItemHeaderItem.encode

theorem var_header_neg (code len : Int) (h : len < 0) : Gen.ItemHeaderVar.encode code len = .error .valueError := by
  simp [Gen.ItemHeaderVar.encode, h]

theorem item_header_neg (code len : Int) (h : len < 0) : Gen.ItemHeaderItem.encode code len = .error .valueError := by
  simp [Gen.ItemHeaderItem.encode, h]

end SecsModel.Proofs.CodecHeader
