import SecsModel.Proofs.SMDefs
import SecsModel.Proofs.SMFlat
/-!
# Proofs.SMGen — obligations over the three generated machines (`Gen.ConnSM`, `Gen.CommSM`, `Gen.CtrlSM`)

Re-opened whenever `tools/genunits/machines.py` regenerates a different table: every name resolves, parents precede
children, the `initial=` flag sits exactly on `_current_state`; and, by evaluation in the kernel, from every state every
transition either is rejected without any change or ends with `active = ancestors-or-self of current` and the event
sequence the property prescribes.
-/
namespace SecsModel.Proofs.SMGen
open SecsModel.Model.SM SecsModel.Gen SecsModel.Spec.SM SecsModel.Model.Gem.Ctrl SecsModel.Proofs.SMFlat

/-- all state names used by the table resolve to declared states -/
def resolves (t : MachineTable) : Bool :=
  let n := t.states.length
  t.states.all (fun r => match r.2.2.1 with | none => true | some p => decide (stateIdx t p < n)) &&
  t.transitions.all (fun r => r.2.1.all (fun s => decide (stateIdx t s < n)) && decide (stateIdx t r.2.2 < n)) &&
  decide (stateIdx t t.initial < n) &&
  t.wiring.all (fun w => decide (stateIdx t w.1 < n))

theorem conn_resolves : resolves ConnSM = true ∧ wfB (ofTable ConnSM) = true ∧ invB (ofTable ConnSM) (initOf ConnSM) = true := by decide +kernel
theorem comm_resolves : resolves CommSM = true ∧ wfB (ofTable CommSM) = true ∧ invB (ofTable CommSM) (initOf CommSM) = true := by decide +kernel
theorem ctrl_resolves : resolves CtrlSM = true ∧ wfB (ofTable CtrlSM) = true ∧ invB (ofTable CtrlSM) (initOf CtrlSM) = true := by decide +kernel

/-- the registered handler bodies (`Gen.CtrlMethods.handlers`) are registered on existing states and only name existing transitions -/
theorem ctrl_forwarders_resolve :
    (CtrlMethods.handlers.all fun h => decide (stateIdx CtrlSM h.1 < CtrlSM.states.length) &&
      h.2.2.2.all fun row => row.2.2 == "" || (lookup ctrl row.2.2).isSome) = true := by decide +kernel

/-- the generated method bodies (`Gen.CtrlMethods`): every method the model calls exists; every `perform` statement names an existing
transition; the two methods the probe handler calls are exactly one `perform` of the transition of the same name; and the
(method, transition) pairs agree with `Gen.CtrlSM.methods` -/
theorem ctrl_methods_resolve :
    (["start", "switch_online", "switch_offline", "switch_online_local", "switch_online_remote", "remote_offline", "remote_online",
      "attempt_online_success", "attempt_online_fail_host_offline"].all fun m => CtrlMethods.methods.any fun r => r.1 == m) = true ∧
    (CtrlMethods.methods.all fun r => r.2.all fun st => st.1 == "assign" || (st.1 == "perform" && (lookup ctrl st.2.1).isSome)) = true ∧
    (["attempt_online_success", "attempt_online_fail_host_offline"].all fun m =>
      CtrlMethods.methods.any fun r => r.1 == m && r.2 == [("perform", m, "")]) = true ∧
    (CtrlSM.methods.all fun mt => CtrlMethods.methods.any fun r => r.1 == mt.1 && r.2.any fun st => st.1 == "perform" && st.2.1 == mt.2) = true := by
  decide +kernel

/-- one (state, transition) pair of a machine whose handlers request nothing: rejected without change, or performed to the
destination with exactly the prescribed flags and events -/
def checkNoH (m : MDef) (c : Nat) (t : String) : Bool :=
  let o := perform m noHandlers 16 (canon m c) t
  match lookup m t with
  | none => false
  | some (srcs, dst) =>
    if srcs.contains c then
      o.err == none && o.st.cur == dst && invB m o.st && o.st.log == expectedLog m c dst t
    else o.err == some .wrongSource && o.st.cur == c && flags m o.st == flags m (canon m c) && o.st.log == []

theorem conn_all : ∀ c ∈ List.range (ofTable ConnSM).n, ∀ t ∈ (ofTable ConnSM).trans.map (·.1), checkNoH (ofTable ConnSM) c t = true := by
  decide +kernel

theorem comm_all : ∀ c ∈ List.range (ofTable CommSM).n, ∀ t ∈ (ofTable CommSM).trans.map (·.1), checkNoH (ofTable CommSM) c t = true := by
  decide +kernel

/-! ## the control machine with its real handlers -/

theorem ctrl_flat : isFlat ctrl := by
  intro s
  match s with
  | 0 | 1 | 2 | 3 | 4 | 5 | 6 | 7 | 8 => rfl
  | n+9 => rfl

theorem ctrl_noLeave (c : CState) (p : Option Probe) : ∀ s, handlers c p (.leave s) = [] := by
  intro s
  have : ∀ nm : String, (CtrlMethods.handlers.filter (fun h => h.1 == nm && h.2.1 == "leave")) = [] := by
    intro nm
    have e : ("enter" == "leave") = false := by decide
    simp [CtrlMethods.handlers, List.filter, e]
  simp only [handlers, registered, this, List.map_nil]

theorem ctrl_flatH (c : CState) (p : Option Probe) : FlatH ctrl (handlers c p) := ⟨ctrl_flat, ctrl_noLeave c p⟩

/-- the leaf the forwarders lead to from `dst` (what "moves to its destination" means for CONTROL/OFFLINE/ONLINE/ATTEMPT_ONLINE) -/
def settle (c : CState) (p : Option Probe) : Nat → Nat → Nat
  | 0, s => s
  | f+1, s => match (handlers c p (.enter s)).flatMap (fun cb => cb (canon ctrl s)) with
    | nm :: _ => match lookup ctrl nm with
      | some (_, d) => settle c p f d
      | none => s
    | [] => s

/-- an allowed control transition with the real handlers: terminates, ends in the leaf its destination forwards to,
flags exact, and the `leave`/`enter`/`called` events pair up: as many of each as transitions performed -/
def checkCtrl (init : String) (remote : Bool) (p : Option Probe) (c : Nat) (t : String) : Bool :=
  let cs : CState := { cur := c, flags := flags ctrl (canon ctrl c), remote := remote, initial := init }
  let o := perform ctrl (handlers cs p) SecsModel.Model.Gem.Ctrl.fuel (canon ctrl c) t
  let nL := (o.st.log.filter fun e => match e with | .leave _ => true | _ => false).length
  let nE := (o.st.log.filter fun e => match e with | .enter _ => true | _ => false).length
  let nC := (o.st.log.filter fun e => match e with | .called _ => true | _ => false).length
  match lookup ctrl t with
  | none => false
  | some (_, dst) =>
    o.err == none && invB ctrl o.st && o.st.cur == settle cs p 8 dst && nL == nC && nE == nC && 1 ≤ nC
      && o.st.log.head? == some (.leave c) && o.st.log.getLast? == some (.called t)

theorem ctrl_allowed : ∀ i ∈ inits, ∀ r ∈ [true, false], ∀ p ∈ probes, ∀ t ∈ ctrl.trans, ∀ c ∈ t.2.1,
    checkCtrl i r p c t.1 = true := by
  decide +kernel

end SecsModel.Proofs.SMGen
