import SecsModel.Model.GemBase
/-! Lemmas about the dictionary operations of `Model.GemBase`. -/
namespace SecsModel.Proofs.Gem
open SecsModel SecsModel.Model.Gem

/-- two lists related element by element (same length, same order) -/
inductive Forall2 {α β : Type} (R : α → β → Prop) : List α → List β → Prop
  | nil : Forall2 R [] []
  | cons {a : α} {b : β} {as : List α} {bs : List β} : R a b → Forall2 R as bs → Forall2 R (a :: as) (b :: bs)

theorem Forall2.imp {α β : Type} {R S : α → β → Prop} (h : ∀ a b, R a b → S a b) :
    ∀ {l₁ : List α} {l₂ : List β}, Forall2 R l₁ l₂ → Forall2 S l₁ l₂
  | _, _, .nil => .nil
  | _, _, .cons hr ht => .cons (h _ _ hr) (Forall2.imp h ht)

theorem Forall2.length_eq {α β : Type} {R : α → β → Prop} : ∀ {l₁ : List α} {l₂ : List β}, Forall2 R l₁ l₂ → l₁.length = l₂.length
  | _, _, .nil => rfl
  | _, _, .cons _ ht => by simp [Forall2.length_eq ht]

namespace AList
variable {β : Type}

theorem lookup_some_mem {l : AList β} {k : Id} {v : β} (h : AList.lookup l k = some v) : (k, v) ∈ l := by
  induction l with
  | nil => simp [AList.lookup] at h
  | cons e t ih =>
    obtain ⟨k', v'⟩ := e
    simp only [AList.lookup] at h
    split at h
    · rename_i hk; subst hk; cases h; exact List.mem_cons_self
    · exact List.mem_cons_of_mem _ (ih h)

theorem lookup_isSome_iff {l : AList β} {k : Id} : (AList.lookup l k).isSome = true ↔ k ∈ AList.keys l := by
  induction l with
  | nil => simp [AList.lookup, AList.keys]
  | cons e t ih =>
    obtain ⟨k', v'⟩ := e
    simp only [AList.lookup, AList.keys, List.map_cons, List.mem_cons]
    split
    · rename_i hk; subst hk; simp
    · rename_i hk
      have : ¬ k = k' := fun h => hk h.symm
      simp only [this, false_or]
      exact ih

theorem contains_iff {l : AList β} {k : Id} : AList.contains l k = true ↔ k ∈ AList.keys l := lookup_isSome_iff

theorem lookup_none_iff {l : AList β} {k : Id} : AList.lookup l k = none ↔ k ∉ AList.keys l := by
  rw [← lookup_isSome_iff]; cases AList.lookup l k <;> simp

theorem mem_keys_of_mem {l : AList β} {e : Id × β} (h : e ∈ l) : e.1 ∈ AList.keys l :=
  List.mem_map_of_mem h

theorem exists_of_mem_keys {l : AList β} {k : Id} (h : k ∈ AList.keys l) : ∃ v, AList.lookup l k = some v := by
  have := lookup_isSome_iff.mpr h
  exact Option.isSome_iff_exists.mp this

theorem mem_set {l : AList β} {k : Id} {v : β} {e : Id × β} (h : e ∈ AList.set l k v) : e ∈ l ∨ e = (k, v) := by
  induction l with
  | nil => simp [AList.set] at h; exact Or.inr h
  | cons e' t ih =>
    obtain ⟨k', v'⟩ := e'
    simp only [AList.set] at h
    split at h
    · rename_i hk; subst hk
      rcases List.mem_cons.mp h with h | h
      · exact Or.inr h
      · exact Or.inl (List.mem_cons_of_mem _ h)
    · rcases List.mem_cons.mp h with h | h
      · exact Or.inl (h ▸ List.mem_cons_self)
      · rcases ih h with h | h
        · exact Or.inl (List.mem_cons_of_mem _ h)
        · exact Or.inr h

theorem keys_set {l : AList β} {k : Id} {v : β} {x : Id} : x ∈ AList.keys (AList.set l k v) ↔ x ∈ AList.keys l ∨ x = k := by
  induction l with
  | nil => simp [AList.set, AList.keys]
  | cons e' t ih =>
    obtain ⟨k', v'⟩ := e'
    simp only [AList.set]
    split
    · rename_i hk; subst hk
      simp only [AList.keys, List.map_cons, List.mem_cons]
      constructor
      · intro h; rcases h with h | h
        · exact Or.inl (Or.inl h)
        · exact Or.inl (Or.inr h)
      · intro h; rcases h with (h | h) | h
        · exact Or.inl h
        · exact Or.inr h
        · exact Or.inl h
    · simp only [AList.keys, List.map_cons, List.mem_cons] at ih ⊢
      rw [ih]
      constructor
      · intro h; rcases h with h | h | h
        · exact Or.inl (Or.inl h)
        · exact Or.inl (Or.inr h)
        · exact Or.inr h
      · intro h; rcases h with (h | h) | h
        · exact Or.inl h
        · exact Or.inr (Or.inl h)
        · exact Or.inr (Or.inr h)

theorem lookup_set_self {l : AList β} {k : Id} {v : β} : AList.lookup (AList.set l k v) k = some v := by
  induction l with
  | nil => simp [AList.set, AList.lookup]
  | cons e' t ih =>
    obtain ⟨k', v'⟩ := e'
    simp only [AList.set]
    split
    · rename_i hk; simp [AList.lookup, hk]
    · rename_i hk; simp [AList.lookup, hk, ih]

theorem lookup_set_ne {l : AList β} {k k' : Id} {v : β} (h : k ≠ k') : AList.lookup (AList.set l k v) k' = AList.lookup l k' := by
  induction l with
  | nil => simp [AList.set, AList.lookup, h]
  | cons e' t ih =>
    obtain ⟨k0, v0⟩ := e'
    simp only [AList.set]
    split
    · rename_i hk
      subst hk
      simp [AList.lookup, h]
    · simp only [AList.lookup, ih]

theorem set_of_lookup_none {l : AList β} {k : Id} {v : β} (h : AList.lookup l k = none) : AList.set l k v = l ++ [(k, v)] := by
  induction l with
  | nil => rfl
  | cons e' t ih =>
    obtain ⟨k', v'⟩ := e'
    simp only [AList.lookup] at h
    split at h
    · cases h
    · rename_i hk
      simp [AList.set, hk, ih h]

theorem mem_erase {l : AList β} {k : Id} {e : Id × β} : e ∈ AList.erase l k ↔ e ∈ l ∧ e.1 ≠ k := by
  simp [AList.erase, List.mem_filter]

theorem keys_erase {l : AList β} {k x : Id} : x ∈ AList.keys (AList.erase l k) ↔ x ∈ AList.keys l ∧ x ≠ k := by
  simp only [AList.keys, List.mem_map]
  constructor
  · rintro ⟨e, he, rfl⟩
    have := mem_erase.mp he
    exact ⟨⟨e, this.1, rfl⟩, this.2⟩
  · rintro ⟨⟨e, he, rfl⟩, hne⟩
    exact ⟨e, mem_erase.mpr ⟨he, hne⟩, rfl⟩

end AList

/-- the `while x in l: l.remove(x)` loop is `filter (· ≠ x)` -/
theorem filter_erase_self (x : Id) (l : List Id) : (l.erase x).filter (fun y => !(y = x)) = l.filter (fun y => !(y = x)) := by
  induction l with
  | nil => rfl
  | cons a t ih =>
    by_cases h : a = x
    · subst h; simp
    · have hb : (a == x) = false := by simp [h]
      rw [List.erase_cons, hb]
      simp [h, ih]

theorem filter_of_not_mem (x : Id) (l : List Id) (h : x ∉ l) : l.filter (fun y => !(y = x)) = l := by
  apply List.filter_eq_self.mpr
  intro a ha
  have : a ≠ x := fun e => h (e ▸ ha)
  simp [this]

end SecsModel.Proofs.Gem
