import SecsModel.Model.GemEv
import SecsModel.Proofs.GemBase
/-! Lemmas about `Model.GemEv`: the apply loops are the declarative effects, the pre-check loops decide what they should,
both invariants are preserved by every operation. -/
namespace SecsModel.Proofs.Gem.Ev
open SecsModel SecsModel.Model.Gem SecsModel.Model.Gem.Ev SecsModel.Spec.EventReports SecsModel.Proofs.Gem

/-! ## `while x in l: l.remove(x)` -/

theorem removeAllGo_eq (x : Id) : ∀ (n : Nat) (l : List Id), l.count x ≤ n → removeAllGo x n l = l.filter (fun y => !(y = x))
  | 0, l, h => by
    have : x ∉ l := by
      intro hm
      have := List.count_pos_iff.mpr hm
      omega
    simp [removeAllGo, filter_of_not_mem x l this]
  | n + 1, l, h => by
    simp only [removeAllGo]
    split
    · rename_i hm
      have hc : (l.erase x).count x ≤ n := by
        rw [List.count_erase_self]; omega
      rw [removeAllGo_eq x n _ hc, filter_erase_self]
    · rename_i hm
      exact (filter_of_not_mem x l hm).symm

theorem removeAll_eq (x : Id) (l : List Id) : removeAll x l = l.filter (fun y => !(y = x)) :=
  removeAllGo_eq x _ l List.count_le_length

/-! ## apply loops = declarative effect -/

theorem filter_keys_of_not_mem {β : Type} (l : AList β) (k : Id) (h : k ∉ AList.keys l) : l.filter (fun e => !(e.1 = k)) = l := by
  apply List.filter_eq_self.mpr
  intro e he
  have : e.1 ≠ k := fun hk => h (hk ▸ AList.mem_keys_of_mem he)
  simp [this]

theorem unlinkReport_eq (r : Id) (e : Id × (List Id × Bool)) :
    unlinkReport r e =
      (let rs' := e.2.1.filter (fun x => !(x = r))
       if r ∈ e.2.1 ∧ rs' = [] then none else some (e.1, (rs', e.2.2))) := by
  unfold unlinkReport
  by_cases hm : r ∈ e.2.1
  · simp only [hm, if_true, removeAll_eq, true_and, List.isEmpty_iff]
  · simp only [hm, if_false, false_and, filter_of_not_mem r e.2.1 hm]

theorem apply33_eq (c : Config) (r : RptReq) : apply33 c r = s2f33Entry c r := by
  unfold apply33 s2f33Entry
  by_cases hv : r.vids = []
  · simp only [hv, List.isEmpty_nil, if_true, deleteReport]
    congr 1
    · split
      · rfl
      · rename_i hc
        have : r.rptid ∉ AList.keys c.reports := fun h => hc (AList.contains_iff.mpr h)
        exact (filter_keys_of_not_mem _ _ this).symm
    · congr 1
      funext e
      exact unlinkReport_eq r.rptid e
  · have : r.vids.isEmpty = false := by
      cases h : r.vids with
      | nil => exact absurd h hv
      | cons a t => rfl
    simp [this, hv, defineReport]

theorem foldl_append_singletons (l rs : List Id) : rs.foldl (fun l r => l ++ [r]) l = l ++ rs := by
  induction rs generalizing l with
  | nil => simp
  | cons a t ih => simp [ih]

theorem apply35_eq (c : Config) (e : LinkReq) : apply35 c e = s2f35Entry c e := by
  unfold apply35 s2f35Entry
  by_cases hv : e.rptids = []
  · simp only [hv, List.isEmpty_nil, if_true, unlinkEvent]
    split
    · rfl
    · rename_i hc
      have : e.ceid ∉ AList.keys c.links := fun h => hc (AList.contains_iff.mpr h)
      rw [filter_keys_of_not_mem _ _ this]
  · have : e.rptids.isEmpty = false := by
      cases h : e.rptids with
      | nil => exact absurd h hv
      | cons a t => rfl
    simp only [this, hv, if_false, linkEvent, Bool.false_eq_true]
    cases hl : AList.lookup c.links e.ceid with
    | none => simp [AList.set_of_lookup_none hl]
    | some p => obtain ⟨old, en⟩ := p; simp only [foldl_append_singletons]

theorem foldl_apply33 (data : List RptReq) (c : Config) : data.foldl apply33 c = data.foldl s2f33Entry c := by
  induction data generalizing c with
  | nil => rfl
  | cons r t ih => simp [List.foldl_cons, apply33_eq, ih]

theorem foldl_apply35 (data : List LinkReq) (c : Config) : data.foldl apply35 c = data.foldl s2f35Entry c := by
  induction data generalizing c with
  | nil => rfl
  | cons r t ih => simp [List.foldl_cons, apply35_eq, ih]

/-! ## what a passed pre-check guarantees, and which codes it can give -/

theorem pre33Vids_zero (cfg : Cfg) : ∀ (vs : List Id) (acc d : Nat), pre33Vids cfg acc vs = .ok d → d = 0 →
    acc = 0 ∧ ∀ v ∈ vs, cfg.known v = true
  | [], acc, d, h, hd => by simp [pre33Vids] at h; exact ⟨by omega, by simp⟩
  | v :: vs, acc, d, h, hd => by
    simp only [pre33Vids] at h
    split at h
    · have ih := pre33Vids_zero cfg vs _ d h hd
      by_cases hk : cfg.known v = true
      · simp only [hk, if_true] at ih
        exact ⟨ih.1, by intro x hx; rcases List.mem_cons.mp hx with rfl | hx; exact hk; exact ih.2 x hx⟩
      · simp [hk] at ih
    · cases h

/-- codes of the inner loop: unchanged accumulator, or 4 with an unknown VID -/
theorem pre33Vids_code (cfg : Cfg) : ∀ (vs : List Id) (acc d : Nat), pre33Vids cfg acc vs = .ok d →
    d = acc ∨ (d = 4 ∧ ∃ v ∈ vs, cfg.known v = false)
  | [], acc, d, h => by simp [pre33Vids] at h; exact Or.inl h.symm
  | v :: vs, acc, d, h => by
    simp only [pre33Vids] at h
    split at h
    · rcases pre33Vids_code cfg vs _ d h with ih | ih
      · by_cases hk : cfg.known v = true
        · simp only [hk, if_true] at ih; exact Or.inl ih
        · simp only [hk] at ih
          exact Or.inr ⟨ih, v, List.mem_cons_self, by simpa using hk⟩
      · exact Or.inr ⟨ih.1, by obtain ⟨x, hx, hk⟩ := ih.2; exact ⟨x, List.mem_cons_of_mem _ hx, hk⟩⟩
    · cases h

theorem pre33_zero (cfg : Cfg) (c : Config) : ∀ (data : List RptReq) (acc d : Nat), pre33 cfg c acc data = .ok d → d = 0 →
    acc = 0 ∧ ∀ r ∈ data, (c.reports.contains r.rptid && !r.vids.isEmpty) = false ∧ ∀ v ∈ r.vids, cfg.known v = true
  | [], acc, d, h, hd => by simp [pre33] at h; exact ⟨by omega, by simp⟩
  | r :: rs, acc, d, h, hd => by
    simp only [pre33] at h
    split at h
    · split at h
      · have := (pre33_zero cfg c rs 3 d h hd).1
        omega
      · rename_i hnr
        split at h
        · cases h
        · rename_i acc' hv
          have ih := pre33_zero cfg c rs acc' d h hd
          have iv := pre33Vids_zero cfg r.vids acc acc' hv ih.1
          refine ⟨iv.1, ?_⟩
          intro x hx
          rcases List.mem_cons.mp hx with rfl | hx
          · exact ⟨by simpa using hnr, iv.2⟩
          · exact ih.2 x hx
    · cases h

theorem pre33_code (cfg : Cfg) (c : Config) : ∀ (data : List RptReq) (acc d : Nat), pre33 cfg c acc data = .ok d →
    d = acc ∨ (d = 3 ∧ ∃ r ∈ data, redefines c r) ∨ (d = 4 ∧ ∃ r ∈ data, unknownVid cfg.known r)
  | [], acc, d, h => by simp [pre33] at h; exact Or.inl h.symm
  | r :: rs, acc, d, h => by
    simp only [pre33] at h
    split at h
    · split at h
      · rename_i hr
        have hred : redefines c r := by
          simp only [Bool.and_eq_true, Bool.not_eq_true', List.isEmpty_eq_false_iff] at hr
          exact ⟨hr.2, AList.contains_iff.mp hr.1⟩
        rcases pre33_code cfg c rs 3 d h with ih | ih | ih
        · exact Or.inr (Or.inl ⟨ih, r, List.mem_cons_self, hred⟩)
        · exact Or.inr (Or.inl ⟨ih.1, by obtain ⟨x, hx, hp⟩ := ih.2; exact ⟨x, List.mem_cons_of_mem _ hx, hp⟩⟩)
        · exact Or.inr (Or.inr ⟨ih.1, by obtain ⟨x, hx, hp⟩ := ih.2; exact ⟨x, List.mem_cons_of_mem _ hx, hp⟩⟩)
      · split at h
        · cases h
        · rename_i acc' hv
          rcases pre33_code cfg c rs acc' d h with ih | ih | ih
          · rcases pre33Vids_code cfg r.vids acc acc' hv with iv | iv
            · exact Or.inl (ih.trans iv)
            · exact Or.inr (Or.inr ⟨ih.trans iv.1, r, List.mem_cons_self, iv.2⟩)
          · exact Or.inr (Or.inl ⟨ih.1, by obtain ⟨x, hx, hp⟩ := ih.2; exact ⟨x, List.mem_cons_of_mem _ hx, hp⟩⟩)
          · exact Or.inr (Or.inr ⟨ih.1, by obtain ⟨x, hx, hp⟩ := ih.2; exact ⟨x, List.mem_cons_of_mem _ hx, hp⟩⟩)
    · cases h


/-- the value the inner S2F35 loop leaves in `lrack` after one RPTID -/
def acc35 (cf : Config) (c : Id) (acc : Nat) (r : Id) : Nat :=
  if cf.reports.contains r then
    (match cf.links.lookup c with
      | some (linked, _) => if r ∈ linked then 3 else acc
      | none => acc)
  else 5

theorem pre35Rpts_cons (cf : Config) (c : Id) (acc : Nat) (r : Id) (rs : List Id) :
    pre35Rpts cf c acc (r :: rs) = if r.scalar then pre35Rpts cf c (acc35 cf c acc r) rs else .error .typeError := by
  simp only [pre35Rpts, acc35]
  rfl

theorem acc35_zero {cf : Config} {c : Id} {acc : Nat} {r : Id} (h : acc35 cf c acc r = 0) :
    acc = 0 ∧ cf.reports.contains r = true ∧ ∀ linked en, cf.links.lookup c = some (linked, en) → r ∉ linked := by
  unfold acc35 at h
  split at h
  · rename_i hc
    cases hl : cf.links.lookup c with
    | none => simp only [hl] at h; exact ⟨h, hc, by intro _ _ hh; cases hh⟩
    | some p =>
      obtain ⟨linked, en⟩ := p
      simp only [hl] at h
      split at h
      · cases h
      · rename_i hm
        exact ⟨h, hc, by intro l e hh; cases hh; exact hm⟩
  · cases h

theorem acc35_code (cf : Config) (c : Id) (acc : Nat) (r : Id) :
    acc35 cf c acc r = acc
    ∨ (acc35 cf c acc r = 3 ∧ ∃ linked en, cf.links.lookup c = some (linked, en) ∧ r ∈ linked)
    ∨ (acc35 cf c acc r = 5 ∧ r ∉ cf.reports.keys) := by
  unfold acc35
  split
  · cases hl : cf.links.lookup c with
    | none => exact Or.inl rfl
    | some p =>
      obtain ⟨linked, en⟩ := p
      simp only
      split
      · rename_i hm; exact Or.inr (Or.inl ⟨rfl, linked, en, rfl, hm⟩)
      · exact Or.inl rfl
  · rename_i hc
    exact Or.inr (Or.inr ⟨rfl, fun h => hc (AList.contains_iff.mpr h)⟩)

theorem pre35Rpts_zero (cf : Config) (c : Id) : ∀ (rs : List Id) (acc d : Nat), pre35Rpts cf c acc rs = .ok d → d = 0 →
    acc = 0 ∧ ∀ r ∈ rs, cf.reports.contains r = true ∧ r.scalar = true ∧
      ∀ linked en, cf.links.lookup c = some (linked, en) → r ∉ linked
  | [], acc, d, h, hd => by simp [pre35Rpts] at h; exact ⟨by omega, by simp⟩
  | r :: rs, acc, d, h, hd => by
    rw [pre35Rpts_cons] at h
    split at h
    · rename_i hs
      have ih := pre35Rpts_zero cf c rs _ d h hd
      have ha := acc35_zero ih.1
      refine ⟨ha.1, ?_⟩
      intro x hx
      rcases List.mem_cons.mp hx with rfl | hx
      · exact ⟨ha.2.1, hs, ha.2.2⟩
      · exact ih.2 x hx
    · cases h

theorem pre35Rpts_code (cf : Config) (c : Id) : ∀ (rs : List Id) (acc d : Nat), pre35Rpts cf c acc rs = .ok d →
    d = acc
    ∨ (d = 3 ∧ ∃ linked en, cf.links.lookup c = some (linked, en) ∧ ∃ r ∈ rs, r ∈ linked)
    ∨ (d = 5 ∧ ∃ r ∈ rs, r ∉ cf.reports.keys)
  | [], acc, d, h => by simp [pre35Rpts] at h; exact Or.inl h.symm
  | r :: rs, acc, d, h => by
    rw [pre35Rpts_cons] at h
    split at h
    · rcases pre35Rpts_code cf c rs _ d h with ih | ih | ih
      · rcases acc35_code cf c acc r with ha | ha | ha
        · exact Or.inl (ih.trans ha)
        · obtain ⟨h3, linked, en, hl, hm⟩ := ha
          exact Or.inr (Or.inl ⟨ih.trans h3, linked, en, hl, r, List.mem_cons_self, hm⟩)
        · exact Or.inr (Or.inr ⟨ih.trans ha.1, r, List.mem_cons_self, ha.2⟩)
      · obtain ⟨h3, linked, en, hl, x, hx, hm⟩ := ih
        exact Or.inr (Or.inl ⟨h3, linked, en, hl, x, List.mem_cons_of_mem _ hx, hm⟩)
      · obtain ⟨h5, x, hx, hm⟩ := ih
        exact Or.inr (Or.inr ⟨h5, x, List.mem_cons_of_mem _ hx, hm⟩)
    · cases h

theorem pre35_zero (cfg : Cfg) (cf : Config) : ∀ (data : List LinkReq) (acc d : Nat), pre35 cfg cf acc data = .ok d → d = 0 →
    acc = 0 ∧ ∀ e ∈ data, e.ceid ∈ cfg.ceids ∧ e.ceid.scalar = true ∧ ∀ r ∈ e.rptids, cf.reports.contains r = true ∧ r.scalar = true
  | [], acc, d, h, hd => by simp [pre35] at h; exact ⟨by omega, by simp⟩
  | e :: es, acc, d, h, hd => by
    simp only [pre35] at h
    split at h
    · rename_i hs
      split at h
      · cases h
      · rename_i acc' hv
        have ih := pre35_zero cfg cf es acc' d h hd
        have iv := pre35Rpts_zero cf e.ceid e.rptids _ acc' hv ih.1
        have hc : e.ceid ∈ cfg.ceids ∧ acc = 0 := by
          by_cases hm : e.ceid ∈ cfg.ceids
          · simp only [hm, if_true] at iv; exact ⟨hm, iv.1⟩
          · have := iv.1; simp [hm] at this
        refine ⟨hc.2, ?_⟩
        intro x hx
        rcases List.mem_cons.mp hx with rfl | hx
        · exact ⟨hc.1, hs, fun r hr => ⟨(iv.2 r hr).1, (iv.2 r hr).2.1⟩⟩
        · exact ih.2 x hx
    · cases h

theorem pre35_code (cfg : Cfg) (cf : Config) : ∀ (data : List LinkReq) (acc d : Nat), pre35 cfg cf acc data = .ok d →
    d = acc ∨ (d = 3 ∧ ∃ e ∈ data, alreadyLinked cf e) ∨ (d = 4 ∧ ∃ e ∈ data, unknownCeid cfg.ceids e)
      ∨ (d = 5 ∧ ∃ e ∈ data, unknownRptid cf e)
  | [], acc, d, h => by simp [pre35] at h; exact Or.inl h.symm
  | e :: es, acc, d, h => by
    simp only [pre35] at h
    split at h
    · split at h
      · cases h
      · rename_i acc' hv
        have lift : ∀ {P : LinkReq → Prop}, (∃ x ∈ es, P x) → ∃ x ∈ e :: es, P x :=
          fun ⟨x, hx, hp⟩ => ⟨x, List.mem_cons_of_mem _ hx, hp⟩
        rcases pre35_code cfg cf es acc' d h with ih | ih | ih | ih
        · rcases pre35Rpts_code cf e.ceid e.rptids _ acc' hv with iv | iv | iv
          · by_cases hm : e.ceid ∈ cfg.ceids
            · simp only [hm, if_true] at iv; exact Or.inl (ih.trans iv)
            · simp only [hm, if_false] at iv
              exact Or.inr (Or.inr (Or.inl ⟨ih.trans iv, e, List.mem_cons_self, hm⟩))
          · obtain ⟨h3, linked, en, hl, r, hr, hm⟩ := iv
            exact Or.inr (Or.inl ⟨ih.trans h3, e, List.mem_cons_self, linked, en, hl, r, hr, hm⟩)
          · exact Or.inr (Or.inr (Or.inr ⟨ih.trans iv.1, e, List.mem_cons_self, iv.2⟩))
        · exact Or.inr (Or.inl ⟨ih.1, lift ih.2⟩)
        · exact Or.inr (Or.inr (Or.inl ⟨ih.1, lift ih.2⟩))
        · exact Or.inr (Or.inr (Or.inr ⟨ih.1, lift ih.2⟩))
    · cases h


/-! ## invariants -/

/-- every variable of every defined report is a known status variable or data value -/
def VidsKnown (cfg : Cfg) (c : Config) : Prop := ∀ e ∈ c.reports, ∀ v ∈ e.2, cfg.known v = true

def Inv (cfg : Cfg) (s : St) : Prop := Integrity s.conf ∧ VidsKnown cfg s.conf

theorem integrity_define {c : Config} (h : Integrity c) (r : Id) (vids : List Id) : Integrity (defineReport c r vids) := by
  intro e he x hx
  exact AList.keys_set.mpr (Or.inl (h e he x hx))

theorem integrity_delete {c : Config} (h : Integrity c) (r : Id) : Integrity (deleteReport c r) := by
  intro e' he' x hx
  simp only [deleteReport, List.mem_filterMap] at he'
  obtain ⟨e, he, hf⟩ := he'
  split at hf
  · cases hf
  · cases hf
    simp only [List.mem_filter] at hx
    have hne : x ≠ r := by simpa using hx.2
    have : x ∈ AList.keys (AList.erase c.reports r) := AList.keys_erase.mpr ⟨h e he x hx.1, hne⟩
    exact this

theorem integrity_unlink {c : Config} (h : Integrity c) (ce : Id) : Integrity (unlinkEvent c ce) := by
  intro e he x hx
  simp only [unlinkEvent, List.mem_filter] at he
  exact h e he.1 x hx

theorem reports_linkEvent (c : Config) (ce : Id) (rs : List Id) : (linkEvent c ce rs).reports = c.reports := by
  unfold linkEvent; split <;> rfl

theorem integrity_link {c : Config} (h : Integrity c) (ce : Id) (rs : List Id) (hrs : ∀ r ∈ rs, r ∈ c.reports.keys) :
    Integrity (linkEvent c ce rs) := by
  intro e he x hx
  rw [reports_linkEvent]
  unfold linkEvent at he
  cases hl : AList.lookup c.links ce with
  | none =>
    simp only [hl, List.mem_append, List.mem_singleton] at he
    rcases he with he | he
    · exact h e he x hx
    · subst he; exact hrs x hx
  | some p =>
    obtain ⟨old, en⟩ := p
    simp only [hl] at he
    rcases AList.mem_set he with he | he
    · exact h e he x hx
    · subst he
      rcases List.mem_append.mp hx with hx | hx
      · exact h _ (AList.lookup_some_mem hl) x hx
      · exact hrs x hx

theorem vids_define {cfg : Cfg} {c : Config} (h : VidsKnown cfg c) (r : Id) (vids : List Id) (hv : ∀ v ∈ vids, cfg.known v = true) :
    VidsKnown cfg (defineReport c r vids) := by
  intro e he v hv'
  rcases AList.mem_set he with he | he
  · exact h e he v hv'
  · subst he; exact hv v hv'

theorem vids_delete {cfg : Cfg} {c : Config} (h : VidsKnown cfg c) (r : Id) : VidsKnown cfg (deleteReport c r) := by
  intro e he v hv
  simp only [deleteReport, List.mem_filter] at he
  exact h e he.1 v hv

theorem inv_foldl33 (cfg : Cfg) : ∀ (data : List RptReq) (c : Config), Integrity c → VidsKnown cfg c →
    (∀ r ∈ data, ∀ v ∈ r.vids, cfg.known v = true) →
    Integrity (data.foldl s2f33Entry c) ∧ VidsKnown cfg (data.foldl s2f33Entry c)
  | [], c, hi, hv, _ => ⟨hi, hv⟩
  | r :: rs, c, hi, hv, hk => by
    simp only [List.foldl_cons]
    apply inv_foldl33 cfg rs
    · unfold s2f33Entry; split
      · exact integrity_delete hi _
      · exact integrity_define hi _ _
    · unfold s2f33Entry; split
      · exact vids_delete hv _
      · exact vids_define hv _ _ (hk r List.mem_cons_self)
    · intro x hx; exact hk x (List.mem_cons_of_mem _ hx)

theorem reports_s2f35Entry (c : Config) (e : LinkReq) : (s2f35Entry c e).reports = c.reports := by
  unfold s2f35Entry unlinkEvent linkEvent
  split
  · rfl
  · split <;> rfl

theorem inv_foldl35 (cfg : Cfg) : ∀ (data : List LinkReq) (c : Config), Integrity c → VidsKnown cfg c →
    (∀ e ∈ data, ∀ r ∈ e.rptids, r ∈ c.reports.keys) →
    Integrity (data.foldl s2f35Entry c) ∧ VidsKnown cfg (data.foldl s2f35Entry c)
  | [], c, hi, hv, _ => ⟨hi, hv⟩
  | e :: es, c, hi, hv, hk => by
    simp only [List.foldl_cons]
    apply inv_foldl35 cfg es
    · unfold s2f35Entry; split
      · exact integrity_unlink hi _
      · exact integrity_link hi _ _ (hk e List.mem_cons_self)
    · intro x hx; rw [reports_s2f35Entry] at hx; exact hv x hx
    · intro x hx; rw [reports_s2f35Entry]; exact hk x (List.mem_cons_of_mem _ hx)

/-- switching enable flags keeps the report lists -/
theorem integrity_of_same_lists {c : Config} (h : Integrity c) (links' : AList (List Id × Bool))
    (hl : ∀ e' ∈ links', ∃ e ∈ c.links, e'.2.1 = e.2.1) : Integrity { c with links := links' } := by
  intro e' he' x hx
  obtain ⟨e, he, heq⟩ := hl e' he'
  exact h e he x (heq ▸ hx)

theorem setEnabled_lists (links : AList (List Id × Bool)) (c : Id) (ceed : Bool) :
    ∀ e' ∈ setEnabled links c ceed, ∃ e ∈ links, e'.2.1 = e.2.1 := by
  intro e' he'
  simp only [setEnabled, List.mem_map] at he'
  obtain ⟨e, he, hf⟩ := he'
  refine ⟨e, he, ?_⟩
  split at hf <;> (subst hf; rfl)

theorem setCeLoop_lists (ceed : Bool) : ∀ (cs : List Id) (links : AList (List Id × Bool)) (res : Bool),
    ∀ e' ∈ (setCeLoop ceed links res cs).1, ∃ e ∈ links, e'.2.1 = e.2.1
  | [], links, res => by intro e' he'; exact ⟨e', he', rfl⟩
  | c :: cs, links, res => by
    intro e' he'
    simp only [setCeLoop] at he'
    split at he'
    · split at he'
      · obtain ⟨e1, he1, h1⟩ := setCeLoop_lists ceed cs _ _ e' he'
        obtain ⟨e, he, h2⟩ := setEnabled_lists links c ceed e1 he1
        exact ⟨e, he, h1.trans h2⟩
      · exact setCeLoop_lists ceed cs _ _ e' he'
    · exact ⟨e', he', rfl⟩

end SecsModel.Proofs.Gem.Ev
