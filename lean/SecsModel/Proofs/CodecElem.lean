import SecsModel.Spec.E5
/-! Element-level lemmas of the E5 codec: one element's body bytes decode to the (normalised) element. -/
namespace SecsModel.Proofs.CodecElem
open SecsModel SecsModel.Spec.E5

/-- decidable equality of results, so that concrete instances can be closed by `decide` -/
instance exceptDecEq {α : Type} [DecidableEq α] : DecidableEq (Except Err α)
  | .ok a, .ok b => if h : a = b then isTrue (by rw [h]) else isFalse (fun e => by injection e; contradiction)
  | .error a, .error b => if h : a = b then isTrue (by rw [h]) else isFalse (fun e => by injection e; contradiction)
  | .ok _, .error _ => isFalse (fun e => by cases e)
  | .error _, .ok _ => isFalse (fun e => by cases e)

theorem allBytes_nil : AllBytes [] := by intro b hb; simp at hb

theorem allBytes_append {a b : Bytes} (ha : AllBytes a) (hb : AllBytes b) : AllBytes (a ++ b) := by
  intro x hx
  rcases List.mem_append.mp hx with h | h
  · exact ha x h
  · exact hb x h

theorem allBytes_of_append_left {a b : Bytes} (h : AllBytes (a ++ b)) : AllBytes a :=
  fun x hx => h x (List.mem_append.mpr (Or.inl hx))

theorem allBytes_of_append_right {a b : Bytes} (h : AllBytes (a ++ b)) : AllBytes b :=
  fun x hx => h x (List.mem_append.mpr (Or.inr hx))

theorem allBytes_cons {x : Nat} {xs : Bytes} (hx : x < 256) (h : AllBytes xs) : AllBytes (x :: xs) := by
  intro y hy
  rcases List.mem_cons.mp hy with h1 | h1
  · subst h1; exact hx
  · exact h y h1

theorem allBytes_take {n : Nat} {bs : Bytes} (h : AllBytes bs) : AllBytes (bs.take n) :=
  fun x hx => h x (List.mem_of_mem_take hx)

theorem allBytes_drop {n : Nat} {bs : Bytes} (h : AllBytes bs) : AllBytes (bs.drop n) :=
  fun x hx => h x (List.mem_of_mem_drop hx)

/-! ### JIS X 0201 -/

theorem jisByte_spec (c : Int) (b : Nat) (h : jisByte c = some b) : b < 256 ∧ (jisChar b : Int) = c := by
  simp only [jisByte] at h
  split at h
  · injection h with h; subst h; rename_i hc; subst hc; decide
  · split at h
    · injection h with h; subst h; rename_i hc; subst hc; decide
    · split at h
      · injection h with h; subst h
        rename_i hc
        have hb : (c - 65216).toNat < 256 := by omega
        refine ⟨hb, ?_⟩
        have h1 : ¬ ((c - 65216).toNat = 92) := by omega
        have h2 : ¬ ((c - 65216).toNat = 126) := by omega
        have h3 : 161 ≤ (c - 65216).toNat ∧ (c - 65216).toNat ≤ 223 := by omega
        simp only [jisChar, h1, h2, h3, and_self, if_true, if_false]
        omega
      · split at h
        · injection h with h; subst h
          rename_i hc
          refine ⟨by omega, ?_⟩
          have h1 : ¬ (c.toNat = 92) := by omega
          have h2 : ¬ (c.toNat = 126) := by omega
          have h3 : ¬ (161 ≤ c.toNat ∧ c.toNat ≤ 223) := by omega
          simp only [jisChar, h1, h2, h3, if_false]
          omega
        · simp at h

theorem jisByte_jisChar (b : Nat) (hb : b < 256) : jisByte (jisChar b : Nat) = some b := by
  simp only [jisChar]
  by_cases h1 : b = 92
  · subst h1; decide
  · by_cases h2 : b = 126
    · subst h2; decide
    · by_cases h3 : 161 ≤ b ∧ b ≤ 223
      · rw [if_neg h1, if_neg h2, if_pos h3]
        have a1 : ¬ (((b + 65216 : Nat) : Int) = 165) := by omega
        have a2 : ¬ (((b + 65216 : Nat) : Int) = 8254) := by omega
        have a3 : (65377 : Int) ≤ ((b + 65216 : Nat) : Int) ∧ ((b + 65216 : Nat) : Int) ≤ 65439 := by omega
        simp only [jisByte]
        rw [if_neg a1, if_neg a2, if_pos a3]
        have e : (((b + 65216 : Nat) : Int) - 65216).toNat = b := by omega
        rw [e]
      · rw [if_neg h1, if_neg h2, if_neg h3]
        have a1 : ¬ ((b : Int) = 165) := by omega
        have a2 : ¬ ((b : Int) = 8254) := by omega
        have a3 : ¬ ((65377 : Int) ≤ (b : Int) ∧ (b : Int) ≤ 65439) := by omega
        have a4 : (0 : Int) ≤ (b : Int) ∧ (b : Int) < 256 ∧ (b : Int) ≠ 92 ∧ (b : Int) ≠ 126 ∧ ¬ ((161 : Int) ≤ (b : Int) ∧ (b : Int) ≤ 223) := by omega
        simp only [jisByte]
        rw [if_neg a1, if_neg a2, if_neg a3, if_pos a4, Int.toNat_natCast]

/-! ### two's complement -/

theorem twos_aux (M H : Nat) (e : Int) (hM : M = 2 * H) (h1 : -(H : Int) ≤ e) (h2 : e < (H : Int)) :
    (if 2 * (e % (M : Int)).toNat < M then (((e % (M : Int)).toNat : Nat) : Int) else (((e % (M : Int)).toNat : Nat) : Int) - (M : Int)) = e := by
  subst hM
  by_cases hneg : e < 0
  · have hm : e % ((2 * H : Nat) : Int) = e + ((2 * H : Nat) : Int) := by
      rw [← Int.add_emod_right]
      exact Int.emod_eq_of_lt (by omega) (by omega)
    rw [hm]
    have hnn : 0 ≤ e + ((2 * H : Nat) : Int) := by omega
    have hc : (((e + ((2 * H : Nat) : Int)).toNat : Nat) : Int) = e + ((2 * H : Nat) : Int) := Int.toNat_of_nonneg hnn
    split <;> omega
  · have hm : e % ((2 * H : Nat) : Int) = e := Int.emod_eq_of_lt (by omega) (by omega)
    rw [hm]
    have hc : ((e.toNat : Nat) : Int) = e := Int.toNat_of_nonneg (by omega)
    split <;> omega

theorem ofTwos_toTwos (w : Nat) (e : Int) (hw : 0 < w) (h1 : -(((256 ^ w / 2 : Nat)) : Int) ≤ e) (h2 : e < ((256 ^ w / 2 : Nat) : Int)) :
    ofTwos w (toTwos w e) = e := by
  have heven : 256 ^ w = 2 * (256 ^ w / 2) := by
    obtain ⟨k, rfl⟩ : ∃ k, w = k + 1 := ⟨w - 1, by omega⟩
    rw [Nat.pow_succ]; omega
  simp only [toTwos, ofTwos]
  exact twos_aux (256 ^ w) (256 ^ w / 2) e heven h1 h2

theorem toTwos_lt (w : Nat) (e : Int) : toTwos w e < 256 ^ w := by
  have hp : 0 < 256 ^ w := Nat.pow_pos (by decide)
  simp only [toTwos]
  have h1 : e % ((256 ^ w : Nat) : Int) < ((256 ^ w : Nat) : Int) := Int.emod_lt_of_pos _ (by omega)
  have h0 : 0 ≤ e % ((256 ^ w : Nat) : Int) := Int.emod_nonneg _ (by omega)
  omega

/-! ### IEEE -/

theorem round32_lt (b f : Nat) (h : IEEE.round32 b = .ok f) : f < 2^32 := by
  have hs : IEEE.sign64 b < 2 := by simp only [IEEE.sign64]; omega
  simp only [IEEE.round32, IEEE.round32F] at h
  split at h
  · split at h
    · injection h with h; omega
    · injection h with h; omega
  · split at h
    · simp at h
    · injection h with h; omega

/-! ### per-type facts -/

theorem width_pos (t : Ty) : 0 < t.width := by cases t <;> decide

theorem uint_facts (t : Ty) (h : t.kind = .uint ∨ t.kind = .byte ∨ t.kind = .char ∨ t.kind = .bool) :
    t.lo = 0 ∧ t.hi < ((256 ^ t.width : Nat) : Int) := by
  cases t <;> simp [Ty.kind] at h <;> decide

theorem sint_facts (t : Ty) (h : t.kind = .sint) :
    t.lo = -((256 ^ t.width / 2 : Nat) : Int) ∧ t.hi + 1 = ((256 ^ t.width / 2 : Nat) : Int) := by
  cases t <;> simp [Ty.kind] at h <;> decide

theorem f64_width (t : Ty) (h : t.kind = .f64) : t.width = 8 := by cases t <;> simp [Ty.kind] at h <;> rfl
theorem f32_is_f4 (t : Ty) (h : t.kind = .f32) : t = .f4 := by cases t <;> simp [Ty.kind] at h <;> rfl
theorem jis_width (t : Ty) (h : t.kind = .jis) : t.width = 1 := by cases t <;> simp [Ty.kind] at h <;> rfl
theorem bool_width (t : Ty) (h : t.kind = .bool) : t.width = 1 ∧ t.hi = 1 := by cases t <;> simp [Ty.kind] at h <;> decide

theorem normElem_of_ne_f4 (t : Ty) (e : Int) (h : t ≠ .f4) : normElem t e = e := by
  cases t <;> simp [normElem] at h ⊢

theorem ofBe_singleton (b : Nat) : ofBe [b] = b := by simp [ofBe]

/-- **one element**: the body bytes have the element width, are bytes, and denote the normalised element -/
theorem elem_roundtrip (t : Ty) (e : Int) (bs : Bytes) (h : elemEnc t e = .ok bs) :
    bs.length = t.width ∧ AllBytes bs ∧ elemDec t bs = normElem t e := by
  simp only [elemEnc] at h
  split at h
  · simp at h
  · rename_i hok
    have hok : okElem t e = true := by simpa using hok
    generalize hk : t.kind = k at h hok
    cases k with
    | jis =>
      simp only at h
      split at h
      · rename_i b hb
        injection h with h; subst h
        obtain ⟨hb1, hb2⟩ := jisByte_spec e b hb
        refine ⟨by rw [jis_width t hk]; rfl, allBytes_cons hb1 allBytes_nil, ?_⟩
        have : t ≠ .f4 := by intro c; subst c; simp [Ty.kind] at hk
        simp only [elemDec, hk, ofBe_singleton, normElem_of_ne_f4 t e this]
        exact hb2
      · simp at h
    | sint =>
      simp only at h
      injection h with h; subst h
      obtain ⟨hlo, hhi⟩ := sint_facts t hk
      simp only [okElem, hk, decide_eq_true_eq] at hok
      have : t ≠ .f4 := by intro c; subst c; simp [Ty.kind] at hk
      refine ⟨be_length _ _, be_allBytes _ _, ?_⟩
      simp only [elemDec, hk, normElem_of_ne_f4 t e this]
      rw [ofBe_be_of_lt _ _ (toTwos_lt _ _)]
      exact ofTwos_toTwos _ _ (width_pos t) (by omega) (by omega)
    | f32 =>
      have ht := f32_is_f4 t hk
      subst ht
      simp only at h
      split at h
      · rename_i f hf
        injection h with h; subst h
        have hlt := round32_lt _ _ hf
        refine ⟨be_length _ _, be_allBytes _ _, ?_⟩
        simp only [elemDec, Ty.kind, normElem, hf]
        rw [ofBe_be_of_lt _ _ (by omega)]
      · simp at h
    | f64 =>
      simp only at h
      injection h with h; subst h
      simp only [okElem, hk, decide_eq_true_eq] at hok
      have hw := f64_width t hk
      have : t ≠ .f4 := by intro c; subst c; simp [Ty.kind] at hk
      refine ⟨be_length _ _, be_allBytes _ _, ?_⟩
      simp only [elemDec, hk, normElem_of_ne_f4 t e this]
      rw [hw, ofBe_be_of_lt _ _ (by omega)]
      omega
    | bool =>
      simp only at h
      injection h with h; subst h
      obtain ⟨hw, hhi⟩ := bool_width t hk
      obtain ⟨hlo, _⟩ := uint_facts t (by simp [hk])
      simp only [okElem, hk, decide_eq_true_eq, hlo, hhi] at hok
      have : t ≠ .f4 := by intro c; subst c; simp [Ty.kind] at hk
      refine ⟨be_length _ _, be_allBytes _ _, ?_⟩
      simp only [elemDec, hk, normElem_of_ne_f4 t e this]
      rw [hw, ofBe_be_of_lt _ _ (by omega)]
      split <;> omega
    | byte =>
      simp only at h
      injection h with h; subst h
      obtain ⟨hlo, hhi⟩ := uint_facts t (by simp [hk])
      simp only [okElem, hk, decide_eq_true_eq, hlo] at hok
      have : t ≠ .f4 := by intro c; subst c; simp [Ty.kind] at hk
      refine ⟨be_length _ _, be_allBytes _ _, ?_⟩
      simp only [elemDec, hk, normElem_of_ne_f4 t e this]
      rw [ofBe_be_of_lt _ _ (by omega)]
      omega
    | char =>
      simp only at h
      injection h with h; subst h
      obtain ⟨hlo, hhi⟩ := uint_facts t (by simp [hk])
      simp only [okElem, hk, decide_eq_true_eq, hlo] at hok
      have : t ≠ .f4 := by intro c; subst c; simp [Ty.kind] at hk
      refine ⟨be_length _ _, be_allBytes _ _, ?_⟩
      simp only [elemDec, hk, normElem_of_ne_f4 t e this]
      rw [ofBe_be_of_lt _ _ (by omega)]
      omega
    | uint =>
      simp only at h
      injection h with h; subst h
      obtain ⟨hlo, hhi⟩ := uint_facts t (by simp [hk])
      simp only [okElem, hk, decide_eq_true_eq, hlo] at hok
      have : t ≠ .f4 := by intro c; subst c; simp [Ty.kind] at hk
      refine ⟨be_length _ _, be_allBytes _ _, ?_⟩
      simp only [elemDec, hk, normElem_of_ne_f4 t e this]
      rw [ofBe_be_of_lt _ _ (by omega)]
      omega

end SecsModel.Proofs.CodecElem
