import SecsModel.Proofs.SfdlParse
/-!
# Proofs.SfdlShape — `generate` builds the documented shape

For a definition with non-empty lists, pairwise different member keys and list names placed as the documentation shows them,
`generate (fmtOf d none)` is a variable tree whose observable shape (`erase`) is `Spec.Sfdl.shape d`, and `List._generate`
files each member under `Spec.Sfdl.key`.  Mutual induction over the tree and its member lists; `dictSet` on a fresh key appends.
-/
namespace SecsModel.Proofs.Sfdl
open SecsModel SecsModel.Spec.Sfdl SecsModel.Model.Sfdl

theorem dictSet_new (acc : List (Name × Obj)) (k : Name) (v : Obj) (h : ∀ p ∈ acc, p.1 ≠ k) :
    dictSet acc k v = acc ++ [(k, v)] := by
  induction acc with
  | nil => rfl
  | cons p t ih =>
    obtain ⟨k', v'⟩ := p
    have hk : (k' == k) = false := by
      have := h (k', v') (by simp)
      simpa using this
    simp only [dictSet, hk, Bool.false_eq_true, if_false, List.cons_append]
    rw [ih (fun q hq => h q (by simp [hq]))]

theorem fmtOf_item (n : Name) (inh : Option Name) : fmtOf (.item n) inh = .cls n := by rw [fmtOf]

theorem fmtOf_underName (m : Def) (x : Name) (h : okUnderName m = true) : fmtOf m (some x) = fmtOf m none := by
  match m, h with
  | .item n, _ => simp [fmtOf]
  | .list (some y) ms, _ => simp [fmtOf]
  | .list none (.list nm' ms' :: rest), _ => simp [fmtOf, firstIsItem, isItem]
  | .list none [], h => simp [okUnderName] at h
  | .list none (.item _ :: _), h => simp [okUnderName] at h

theorem fmtOfL_underName (ms : List Def) (x : Name) (h : allOkUnderName ms = true) : fmtOfL ms (some x) = fmtOfL ms none := by
  induction ms with
  | nil => simp [fmtOfL]
  | cons m ms ih =>
    simp only [allOkUnderName, Bool.and_eq_true] at h
    simp only [fmtOfL, fmtOf_underName m x h.1, ih h.2]


/-- what `namesAsDocumented` allows for the members of a named list -/
theorem named_forms {ms : List Def} (h : namedForm ms = true) :
    (∃ n m2 rest, ms = .item n :: m2 :: rest ∧ allOkUnderName (m2 :: rest) = true)
    ∨ (∃ n1 m2 rest, ms = [.list none (.item n1 :: m2 :: rest)]) := by
  unfold namedForm at h
  split at h
  · rename_i n m2 rest; exact Or.inl ⟨n, m2, rest, rfl, h⟩
  · rename_i n1 m2 rest; exact Or.inr ⟨n1, m2, rest, rfl⟩
  · exact absurd h (by decide)

theorem distinct_cons {k : Name} {ks : List Name} (h : distinct (k :: ks) = true) : k ∉ ks ∧ distinct ks = true := by
  simp only [distinct, Bool.and_eq_true, Bool.not_eq_true', List.contains_eq_mem, decide_eq_false_iff_not] at h
  exact h

theorem isWord_ne {x : Name} (h : isWord x = true) : x.isEmpty = false := by
  simp only [isWord, Bool.and_eq_true, Bool.not_eq_true'] at h
  exact h.1

theorem fmtOf_not_str (m : Def) (inh : Option Name) : ∀ s, fmtOf m inh ≠ .str s := by
  intro s
  cases m with
  | item n => simp [fmtOf]
  | list nm ms => simp [fmtOf]

/-- `get_name_from_format` of the format of an unnamed, non-empty list without inherited name is `DATA` -/
theorem nameFromFormat_members (m : Def) (ms : List Def) (key : Option Name) :
    nameFromFormat (fmtOfL (m :: ms) key) = .ok dataName := by
  rw [fmtOfL]
  cases m with
  | item n => simp [fmtOf, nameFromFormat]
  | list nm ms' => simp [fmtOf, nameFromFormat]

theorem genFields_step (x : Fmt) (rest : List Fmt) (nm : Name) (acc : List (Name × Obj)) (hx : ∀ s, x ≠ .str s)
    (v : Obj) (k : Name) (hv : generate x = .ok v) (hk : memberKey v x = .ok k) :
    genFields (x :: rest) nm acc = genFields rest nm (dictSet acc k v) := by
  cases x with
  | str s => exact absurd rfl (hx s)
  | cls n => simp only [genFields, hv, hk]
  | other n => simp only [genFields, hv, hk]
  | list xs => simp only [genFields, hv, hk]

mutual
/-- **`generate` builds the documented shape** from the format of a definition that stands on its own (no inherited name) -/
theorem gen_def : ∀ (d : Def), wordsOk d = true → allKnown d = true → nonEmptyLists d = true → namesAsDocumented d = true →
    keysDistinct d = true →
    ∃ o, generate (fmtOf d none) = .ok o ∧ erase o = some (shape d) ∧ memberKey o (fmtOf d none) = .ok (key d)
  | .item n, _, _, _, _, _ => by
    refine ⟨.item n, ?_, ?_, ?_⟩ <;> simp [fmtOf, generate, erase, shape, memberKey, key]
  | .list none [], _, _, hne, _, _ => by simp [nonEmptyLists] at hne
  | .list none [m], hw, hk, hne, hn, hd => by
    rw [wordsOk] at hw; rw [nonEmptyLists] at hne; rw [namesAsDocumented] at hn; rw [keysDistinct] at hd
    simp only [Bool.true_and, wordsOkL, Bool.and_true, List.isEmpty_cons, Bool.not_false, nonEmptyListsL, Bool.and_eq_true,
      namesAsDocumentedL, keysDistinctL] at hw hne hn hd
    obtain ⟨hk1, _⟩ := allKnownL_cons (allKnown_list hk)
    obtain ⟨o, ho, he, hkey⟩ := gen_def m hw hk1 hne hn.2 hd.2
    have hfmt : fmtOf (.list none [m]) none = .list [fmtOf m none] := by simp [fmtOf, fmtOfL]
    -- the array's name: the member's class name, or DATA for a list member (which is unnamed here)
    have hname : arrayName (fmtOf m none) = .ok (key (.list none [m])) := by
      match m, hn.1, hne with
      | .item n, _, _ => simp [fmtOf, arrayName, key]
      | .list (some y) ms', h1, _ => simp [soleNamed] at h1
      | .list none [], _, h2 => simp [nonEmptyLists] at h2
      | .list none (m1 :: ms'), _, _ =>
        have : fmtOf (.list none (m1 :: ms')) none = .list (fmtOfL (m1 :: ms') none) := by simp [fmtOf]
        rw [this, arrayName, nameFromFormat_members]
        simp [key, dataName, dataKey]
    refine ⟨.array (key (.list none [m])) o, ?_, ?_, ?_⟩
    · rw [hfmt, generate, hname]; simp only [ho]
    · simp [erase, he, shape]
    · simp [memberKey]
  | .list none (m1 :: m2 :: rest), hw, hk, hne, hn, hd => by
    rw [wordsOk] at hw; rw [nonEmptyLists] at hne; rw [namesAsDocumented] at hn; rw [keysDistinct] at hd
    simp only [Bool.true_and, List.isEmpty_cons, Bool.not_false, Bool.and_eq_true] at hw hne hn hd
    obtain ⟨fs, hfs, _, hes⟩ := gen_fields (m1 :: m2 :: rest) hw (allKnown_list hk) hne hn.2 hd.2 hd.1 dataName [] (by simp)
    have hfmt : fmtOf (.list none (m1 :: m2 :: rest)) none = .list (fmtOfL (m1 :: m2 :: rest) none) := by simp [fmtOf]
    refine ⟨.record dataName fs, ?_, ?_, ?_⟩
    · rw [hfmt]
      simp only [fmtOfL] at hfs ⊢
      rw [generate]
      · simp only [hfs, List.nil_append]
      · intro x hx; simp at hx
    · simp [erase, hes, shape]
    · rw [hfmt, memberKey, nameFromFormat_members]; simp [key, dataName, dataKey]
  | .list (some x) ms, hw, hk, hne, hn, hd => by
    rw [wordsOk] at hw; rw [nonEmptyLists] at hne; rw [namesAsDocumented] at hn; rw [keysDistinct] at hd
    simp only [Bool.and_eq_true] at hw hne hn hd
    have hx := isWord_ne hw.1
    rcases named_forms hn.1 with ⟨n, m2, rest, rfl, hokn⟩ | ⟨n1, m2, rest, rfl⟩
    · -- form A: a named fixed length list starting with a data item
      obtain ⟨fs, hfs, _, hes⟩ := gen_fields (.item n :: m2 :: rest) hw.2 (allKnown_list hk) hne.2 hn.2 hd.2 hd.1 x [] (by simp)
      have hfmt : fmtOf (.list (some x) (.item n :: m2 :: rest)) none = .list (.str x :: fmtOfL (.item n :: m2 :: rest) none) := by
        have h2 := fmtOfL_underName (m2 :: rest) x hokn
        simp only [fmtOfL] at h2
        simp only [fmtOf, firstIsItem, isItem, hx, Bool.not_false, Bool.and_self, if_true, List.singleton_append, fmtOfL]
        rw [h2]
      refine ⟨.record x fs, ?_, ?_, ?_⟩
      · rw [hfmt]
        simp only [fmtOfL] at hfs ⊢
        rw [generate]
        · simp only [genFields, hfs, List.nil_append]
        · intro y hy; simp at hy
      · simp [erase, hes, shape]
      · rw [hfmt]; simp [memberKey, nameFromFormat, key]
    · -- form B: a named open list of an unnamed fixed length list starting with a data item
      simp only [wordsOkL, Bool.and_true, nonEmptyListsL, namesAsDocumentedL, keysDistinctL] at hw hne hn hd
      have hwi := hw.2; have hnei := hne.2; have hni := hn.2; have hdi := hd.2
      rw [wordsOk] at hwi; rw [nonEmptyLists] at hnei; rw [namesAsDocumented] at hni; rw [keysDistinct] at hdi
      simp only [Bool.true_and, List.isEmpty_cons, Bool.not_false, Bool.and_eq_true] at hwi hnei hni hdi
      obtain ⟨hki, _⟩ := allKnownL_cons (allKnown_list hk)
      obtain ⟨fs, hfs, _, hes⟩ := gen_fields (.item n1 :: m2 :: rest) hwi (allKnown_list hki) hnei hni.2 hdi.2 hdi.1 x [] (by simp)
      have hfmt : fmtOf (.list (some x) [.list none (.item n1 :: m2 :: rest)]) none
          = .list [.list (.str x :: fmtOfL (.item n1 :: m2 :: rest) none)] := by
        simp [fmtOf, firstIsItem, isItem, hx, fmtOfL]
      refine ⟨.array x (.record x fs), ?_, ?_, ?_⟩
      · rw [hfmt]
        simp only [fmtOfL] at hfs ⊢
        rw [generate]
        simp only [arrayName, nameFromFormat]
        rw [generate]
        · simp only [genFields, hfs, List.nil_append]
        · intro y hy; simp at hy
      · simp [erase, hes, shape]
      · simp [memberKey, key]
/-- `List._generate` over the members of a fixed length list files every member under its documented key, in order -/
theorem gen_fields : ∀ (ms : List Def), wordsOkL ms = true → (itemNamesL ms).all classKnown = true → nonEmptyListsL ms = true →
    namesAsDocumentedL ms = true → keysDistinctL ms = true → distinct (keysOf ms) = true →
    ∀ (nm : Name) (acc : List (Name × Obj)), (∀ p ∈ acc, p.1 ∉ keysOf ms) →
    ∃ fs, genFields (fmtOfL ms none) nm acc = .ok (nm, acc ++ fs) ∧ fs.map (·.1) = keysOf ms ∧ eraseL fs = some (shapeFields ms)
  | [], _, _, _, _, _, _, nm, acc, _ => ⟨[], by simp [fmtOfL, genFields], by simp [keysOf], by simp [eraseL, shapeFields]⟩
  | m :: ms, hw, hk, hne, hn, hd, hdist, nm, acc, hacc => by
    rw [wordsOkL] at hw; rw [nonEmptyListsL] at hne; rw [namesAsDocumentedL] at hn; rw [keysDistinctL] at hd
    simp only [Bool.and_eq_true] at hw hne hn hd
    obtain ⟨hk1, hk2⟩ := allKnownL_cons hk
    rw [keysOf] at hdist
    obtain ⟨hnotin, hdist'⟩ := distinct_cons hdist
    obtain ⟨o, ho, he, hkey⟩ := gen_def m hw.1 hk1 hne.1 hn.1 hd.1
    have hnew : dictSet acc (key m) o = acc ++ [(key m, o)] :=
      dictSet_new acc (key m) o (fun p hp heq => hacc p hp (by rw [keysOf, heq]; simp))
    have hacc' : ∀ p ∈ acc ++ [(key m, o)], p.1 ∉ keysOf ms := by
      intro p hp
      rcases List.mem_append.mp hp with h | h
      · intro hin; exact hacc p h (by rw [keysOf]; simp [hin])
      · simp only [List.mem_singleton] at h; subst h; exact hnotin
    obtain ⟨fs, hfs, hkeys, hes⟩ := gen_fields ms hw.2 hk2 hne.2 hn.2 hd.2 hdist' nm (acc ++ [(key m, o)]) hacc'
    refine ⟨(key m, o) :: fs, ?_, ?_, ?_⟩
    · rw [fmtOfL, genFields_step _ _ _ _ (fmtOf_not_str m none) o (key m) ho hkey, hnew, hfs]
      simp
    · simp [keysOf, hkeys]
    · simp [eraseL, he, hes, shapeFields]
end

end SecsModel.Proofs.Sfdl
