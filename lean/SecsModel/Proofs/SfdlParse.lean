import SecsModel.Spec.Sfdl
import SecsModel.Model.Sfdl
import SecsModel.Model.SfdlShape
/-!
# Proofs.SfdlParse — validation and `_generate_from_sfdl` on the tokens of a well-formed definition

For a tree whose names are words, whose items are catalogued data item classes and whose lists are non-empty:
`validate (tokensOf d) = toks d` (the typed tokens), and `genFrom` turns them into the nested Python list `fmtOf d inh`
(look-ahead `peek(ahead=2)`, list name placed in front of a list whose first member is a data item, name handed down to the
members).  Fuel: `need d` suffices and is below the token count.
-/
namespace SecsModel.Proofs.Sfdl
open SecsModel SecsModel.Spec.Sfdl SecsModel.Model.Sfdl

/-- every data item class is an attribute of the `data_items` module, is unchanged by `upper()` and is not `L` -/
theorem class_facts : ∀ c ∈ Gen.DataItems.moduleClasses,
    Gen.DataItems.moduleAttrs.contains c = true ∧ upper c = c ∧ c ≠ capL := by decide +kernel

theorem classKnown_facts {n : Name} (h : classKnown n = true) : attrKnown n = true ∧ upper n = n ∧ (n != capL) = true := by
  have hm : n ∈ Gen.DataItems.moduleClasses := List.contains_iff_mem.mp h
  obtain ⟨h1, h2, h3⟩ := class_facts n hm
  exact ⟨h1, h2, by simpa using h3⟩

/-- all item names of the tree are data item classes of the catalogue -/
def allKnown (d : Def) : Bool := (itemNames d).all classKnown

mutual
def toks : Def → List Tok
  | .item n => [⟨.openTag, lt⟩, ⟨.dataItem, n⟩, ⟨.closeTag, gt⟩]
  | .list nm ms => ⟨.openTag, lt⟩ :: ⟨.list, capL⟩ ::
      ((match nm with | none => [] | some x => [⟨.listName, x⟩]) ++ (toksL ms ++ [⟨.closeTag, gt⟩]))
def toksL : List Def → List Tok
  | [] => []
  | m :: ms => toks m ++ toksL ms
end

mutual
def need : Def → Nat
  | .item _ => 1
  | .list _ ms => 1 + needL ms
def needL : List Def → Nat
  | [] => 1
  | m :: ms => 1 + need m + needL ms
end

theorem allKnown_item {n : Name} (h : allKnown (.item n) = true) : classKnown n = true := by
  simpa [allKnown, itemNames] using h

theorem allKnown_list {nm : Option Name} {ms : List Def} (h : allKnown (.list nm ms) = true) :
    (itemNamesL ms).all classKnown = true := by
  simpa [allKnown, itemNames] using h

theorem allKnownL_cons {m : Def} {ms : List Def} (h : (itemNamesL (m :: ms)).all classKnown = true) :
    allKnown m = true ∧ (itemNamesL ms).all classKnown = true := by
  simpa [allKnown, itemNamesL, List.all_append] using h

theorem tokensOf_head (d : Def) : ∃ tl, tokensOf d = lt :: tl := by
  cases d with
  | item n => exact ⟨_, by simp [tokensOf]; rfl⟩
  | list nm ms => exact ⟨_, by simp [tokensOf]; rfl⟩

theorem word_not_ltgt {x : Name} (h : isWord x = true) : inLtGt x = false := by
  simp only [isWord, Bool.and_eq_true, Bool.not_eq_true', List.isEmpty_eq_false_iff] at h
  obtain ⟨hne, hall⟩ := h
  cases x with
  | nil => exact absurd rfl hne
  | cons c t =>
    simp only [List.all_cons, Bool.and_eq_true] at hall
    have hc := hall.1
    have h1 : c ≠ '<' := by intro e; subst e; exact absurd hc (by decide)
    have h2 : c ≠ '>' := by intro e; subst e; exact absurd hc (by decide)
    simp [inLtGt, lt, gt, h1, h2]

theorem procClose_gt (rest : List Name) : procClose (gt :: rest) = .ok (⟨.closeTag, gt⟩, rest) := by
  simp [procClose]

mutual
theorem procElem_toks : ∀ (d : Def) (f : Nat) (rest : List Name), wordsOk d = true → allKnown d = true → need d ≤ f →
    procElem f (tokensOf d ++ rest) = .ok (toks d, rest)
  | .item n, f, rest, _, hk, hf => by
    obtain ⟨h1, _, h3⟩ := classKnown_facts (allKnown_item hk)
    rw [need] at hf
    obtain ⟨f', rfl⟩ : ∃ f', f = f' + 1 := ⟨f - 1, by omega⟩
    rw [tokensOf, toks]
    simp [procElem, h1, h3, procClose]
  | .list none ms, f, rest, hw, hk, hf => by
    rw [need] at hf
    obtain ⟨f', rfl⟩ : ∃ f', f = f' + 1 := ⟨f - 1, by omega⟩
    have hf' : needL ms ≤ f' := by omega
    rw [wordsOk] at hw
    simp only [Bool.true_and] at hw
    have hl := procLoop_toks ms f' rest hw (allKnown_list hk) hf'
    rw [tokensOf, toks]
    simp only [List.nil_append, List.cons_append, List.append_assoc] at hl ⊢
    obtain ⟨k, tl, hk'⟩ : ∃ k tl, tokensOfList ms ++ gt :: rest = k :: tl ∧ inLtGt k = true := by
      cases ms with
      | nil => exact ⟨gt, rest, by simp [tokensOfList], by decide⟩
      | cons m ms =>
        obtain ⟨tl, h⟩ := tokensOf_head m
        exact ⟨lt, _, by rw [tokensOfList, h]; rfl, by decide⟩
    rw [hk'.1] at hl ⊢
    simp [procElem, hk'.2, hl, procClose]
  | .list (some x) ms, f, rest, hw, hk, hf => by
    rw [need] at hf
    obtain ⟨f', rfl⟩ : ∃ f', f = f' + 1 := ⟨f - 1, by omega⟩
    have hf' : needL ms ≤ f' := by omega
    rw [wordsOk] at hw
    simp only [Bool.and_eq_true] at hw
    have hl := procLoop_toks ms f' rest hw.2 (allKnown_list hk) hf'
    have hx := word_not_ltgt hw.1
    rw [tokensOf, toks]
    simp only [List.cons_append, List.append_assoc, List.nil_append] at hl ⊢
    simp [procElem, hx, hl, procClose]
theorem procLoop_toks : ∀ (ms : List Def) (f : Nat) (rest : List Name), wordsOkL ms = true →
    (itemNamesL ms).all classKnown = true → needL ms ≤ f →
    procLoop f (tokensOfList ms ++ gt :: rest) = .ok (toksL ms, gt :: rest)
  | [], f, rest, _, _, hf => by
    rw [needL] at hf
    obtain ⟨f', rfl⟩ : ∃ f', f = f' + 1 := ⟨f - 1, by omega⟩
    simp [tokensOfList, toksL, procLoop, inLtGt]
  | m :: ms, f, rest, hw, hk, hf => by
    rw [needL] at hf
    obtain ⟨f', rfl⟩ : ∃ f', f = f' + 1 := ⟨f - 1, by omega⟩
    rw [wordsOkL] at hw
    simp only [Bool.and_eq_true] at hw
    obtain ⟨hk1, hk2⟩ := allKnownL_cons hk
    have h1 := procElem_toks m f' (tokensOfList ms ++ gt :: rest) hw.1 hk1 (by omega)
    have h2 := procLoop_toks ms f' rest hw.2 hk2 (by omega)
    obtain ⟨tl, htl⟩ := tokensOf_head m
    rw [tokensOfList, toksL, List.append_assoc]
    rw [htl] at h1 ⊢
    simp only [List.cons_append] at h1 ⊢
    have h3 : inLtGt lt = true := by decide
    have hne : (lt == gt) = false := by decide
    simp only [procLoop, h3, Bool.not_true, Bool.false_eq_true, if_false, hne, h1, h2]
end


mutual
theorem need_le : ∀ d : Def, need d + 1 ≤ (tokensOf d).length
  | .item n => by simp [need, tokensOf]
  | .list nm ms => by
    have := needL_le ms
    cases nm <;> simp [need, tokensOf] <;> omega
theorem needL_le : ∀ ms : List Def, needL ms ≤ 1 + (tokensOfList ms).length
  | [] => by simp [needL, tokensOfList]
  | m :: ms => by
    have h1 := need_le m
    have h2 := needL_le ms
    simp only [needL, tokensOfList, List.length_append]
    omega
end

/-- the token list of a well-formed definition over known items is accepted and typed as expected -/
theorem validate_tokensOf (d : Def) (hw : wordsOk d = true) (hk : allKnown d = true) :
    validate (tokensOf d) = .ok (toks d) := by
  have h := procElem_toks d (2 * (tokensOf d).length + 2) [] hw hk (by have := need_le d; omega)
  rw [List.append_nil] at h
  simp [validate, h]

/-! ## `_generate_from_sfdl` on the typed tokens -/

def isItem : Def → Bool
  | .item _ => true
  | .list _ _ => false

def firstIsItem : List Def → Bool
  | m :: _ => isItem m
  | [] => false

mutual
/-- the nested Python list `_generate_from_sfdl(tokenizer, token_name)` returns for a definition -/
def fmtOf : Def → Option Name → Fmt
  | .item n, _ => .cls n
  | .list nm ms, inh =>
    .list ((match (match nm with | some x => some x | none => inh) with
            | some t => if firstIsItem ms && !t.isEmpty then [Fmt.str t] else []
            | none => []) ++ fmtOfL ms nm)
def fmtOfL : List Def → Option Name → List Fmt
  | [], _ => []
  | m :: ms, key => fmtOf m key :: fmtOfL ms key
end

theorem upper_capL : upper capL = capL := by decide

/-- the first two tokens of a definition: `<` and then `L` exactly for a list -/
theorem toks_two (m : Def) (hk : allKnown m = true) :
    ∃ t2 tl, toks m = ⟨.openTag, lt⟩ :: t2 :: tl ∧ (t2.value != capL) = isItem m := by
  cases m with
  | item n =>
    obtain ⟨_, _, h3⟩ := classKnown_facts (allKnown_item hk)
    exact ⟨⟨.dataItem, n⟩, _, by rw [toks], h3⟩
  | list nm ms => cases nm with
    | none => exact ⟨⟨.list, capL⟩, _, by rw [toks], by simp [isItem]⟩
    | some x => exact ⟨⟨.list, capL⟩, _, by rw [toks], by simp [isItem]⟩

mutual
theorem genFrom_toks : ∀ (d : Def) (f : Nat) (rest : List Tok) (inh : Option Name), wordsOk d = true → allKnown d = true →
    nonEmptyLists d = true → need d ≤ f → genFrom f (toks d ++ rest) inh = .ok (fmtOf d inh, rest)
  | .item n, f, rest, inh, _, hk, _, hf => by
    obtain ⟨h1, h2, h3⟩ := classKnown_facts (allKnown_item hk)
    rw [need] at hf
    obtain ⟨f', rfl⟩ : ∃ f', f = f' + 1 := ⟨f - 1, by omega⟩
    rw [toks, fmtOf]
    simp [genFrom, genItem, h1, h2, h3, allKnown_item hk]
  | .list nm [], f, rest, inh, _, _, hne, _ => by
    rw [nonEmptyLists] at hne
    simp at hne
  | .list none (m :: ms), f, rest, inh, hw, hk, hne, hf => by
    rw [need] at hf
    obtain ⟨f', rfl⟩ : ∃ f', f = f' + 1 := ⟨f - 1, by omega⟩
    rw [wordsOk] at hw
    rw [nonEmptyLists] at hne
    simp only [Bool.true_and, List.isEmpty_cons, Bool.not_false] at hw hne
    have hl := genLoop_toks (m :: ms) f' rest none hw (allKnown_list hk) hne (by omega)
    obtain ⟨hk1, _⟩ := allKnownL_cons (allKnown_list hk)
    obtain ⟨t2, tl, ht, hv⟩ := toks_two m hk1
    simp only [toks, fmtOf, List.nil_append, List.cons_append, List.append_assoc] at hl ⊢
    rw [toksL, ht] at hl ⊢
    simp only [List.cons_append] at hl ⊢
    have h3 : inLtGt lt = true := by decide
    simp only [genFrom, upper_capL, bne_self_eq_false, Bool.false_eq_true, if_false, h3, Bool.not_true, hl, hv,
      firstIsItem]
    cases inh <;> rfl
  | .list (some x) (m :: ms), f, rest, inh, hw, hk, hne, hf => by
    rw [need] at hf
    obtain ⟨f', rfl⟩ : ∃ f', f = f' + 1 := ⟨f - 1, by omega⟩
    rw [wordsOk] at hw
    rw [nonEmptyLists] at hne
    simp only [Bool.and_eq_true, List.isEmpty_cons, Bool.not_false, Bool.true_and] at hw hne
    have hx := word_not_ltgt hw.1
    have hl := genLoop_toks (m :: ms) f' rest (some x) hw.2 (allKnown_list hk) hne (by omega)
    obtain ⟨hk1, _⟩ := allKnownL_cons (allKnown_list hk)
    obtain ⟨t2, tl, ht, hv⟩ := toks_two m hk1
    simp only [toks, fmtOf, List.nil_append, List.cons_append, List.append_assoc] at hl ⊢
    rw [toksL, ht] at hl ⊢
    simp only [List.cons_append] at hl ⊢
    simp only [genFrom, upper_capL, bne_self_eq_false, Bool.false_eq_true, if_false, hx, Bool.not_false, if_true, hl, hv,
      firstIsItem]
    rfl
theorem genLoop_toks : ∀ (ms : List Def) (f : Nat) (rest : List Tok) (key : Option Name), wordsOkL ms = true →
    (itemNamesL ms).all classKnown = true → nonEmptyListsL ms = true → needL ms ≤ f →
    genLoop f (toksL ms ++ ⟨.closeTag, gt⟩ :: rest) key = .ok (fmtOfL ms key, rest)
  | [], f, rest, key, _, _, _, hf => by
    rw [needL] at hf
    obtain ⟨f', rfl⟩ : ∃ f', f = f' + 1 := ⟨f - 1, by omega⟩
    simp [toksL, fmtOfL, genLoop, inLtGt]
  | m :: ms, f, rest, key, hw, hk, hne, hf => by
    rw [needL] at hf
    obtain ⟨f', rfl⟩ : ∃ f', f = f' + 1 := ⟨f - 1, by omega⟩
    rw [wordsOkL] at hw
    rw [nonEmptyListsL] at hne
    simp only [Bool.and_eq_true] at hw hne
    obtain ⟨hk1, hk2⟩ := allKnownL_cons hk
    have h1 := genFrom_toks m f' (toksL ms ++ ⟨.closeTag, gt⟩ :: rest) key hw.1 hk1 hne.1 (by omega)
    have h2 := genLoop_toks ms f' rest key hw.2 hk2 hne.2 (by omega)
    obtain ⟨t2, tl, ht, _⟩ := toks_two m hk1
    rw [toksL, fmtOfL, List.append_assoc]
    rw [ht] at h1 ⊢
    simp only [List.cons_append] at h1 ⊢
    have h3 : inLtGt lt = true := by decide
    have hne' : (lt == gt) = false := by decide
    simp only [genLoop, h3, Bool.not_true, Bool.false_eq_true, if_false, hne', h1, h2]
end

mutual
/-- the values of the typed tokens are the elements -/
theorem toks_values : ∀ d : Def, (toks d).map (·.value) = tokensOf d
  | .item n => by simp [toks, tokensOf]
  | .list none ms => by simp [toks, tokensOf, toksL_values ms]
  | .list (some x) ms => by simp [toks, tokensOf, toksL_values ms]
theorem toksL_values : ∀ ms : List Def, (toksL ms).map (·.value) = tokensOfList ms
  | [] => by simp [toksL, tokensOfList]
  | m :: ms => by simp [toksL, tokensOfList, toks_values m, toksL_values ms]
end

theorem toks_length (d : Def) : (toks d).length = (tokensOf d).length := by
  rw [← toks_values d, List.length_map]

end SecsModel.Proofs.Sfdl
