import SecsModel.Proofs.CodecVar
/-! Decode completeness of the variables API: whatever the reference decoder `decodeAny` accepts (any number of length bytes,
any nesting), a fresh variable object of a conforming structure decodes to the same value and returns the position after it. -/
namespace SecsModel.Proofs.CodecVarDec
open SecsModel SecsModel.Spec.E5 SecsModel.Model.Var SecsModel.Proofs.CodecElem SecsModel.Proofs.CodecSpec SecsModel.Proofs.CodecHeader
  SecsModel.Proofs.CodecVar

/-! ### suffixes -/

theorem suffix_drop {bs pre r : Bytes} (h : bs = pre ++ r) : bs.length - r.length = pre.length ∧ bs.drop pre.length = r := by
  subst h
  refine ⟨by rw [List.length_append]; omega, List.drop_left' rfl⟩

theorem specHeader_suffix {bs r0 : Bytes} {code len : Nat} (h : Spec.E5.decHeader bs = some (code, len, r0)) :
    ∃ fb lb, bs = fb :: (lb ++ r0) ∧ fb < 256 ∧ fb % 4 ≠ 0 ∧ lb.length = fb % 4 ∧ code = fb / 4 ∧ len = ofBe lb := by
  match bs with
  | [] => simp [Spec.E5.decHeader] at h
  | fb :: r =>
    simp only [Spec.E5.decHeader] at h
    split at h
    · simp at h
    · rename_i hc
      split at h
      · simp at h
      · rename_i lb r' ht
        injection h with h
        injection h with h1 h2
        injection h2 with h2 h3
        obtain ⟨e1, e2⟩ := takeN_some ht
        subst h3
        exact ⟨fb, lb, by rw [e1], by omega, by omega, e2, h1.symm, h2.symm⟩

/-- the Python header parser agrees with the reference one whenever the latter accepts -/
theorem decHeader_agree {bs r0 : Bytes} {code len : Nat} (h : Spec.E5.decHeader bs = some (code, len, r0)) (fmt : Int)
    (hf : ¬ (0 ≤ fmt ∧ fmt ≠ (code : Int))) :
    ∃ hc, Model.Var.decHeader fmt false bs = .ok (hc, code, len) ∧ bs.drop hc = r0 ∧ hc + r0.length = bs.length ∧ 2 ≤ hc := by
  obtain ⟨fb, lb, hbs, _, h4, hl, hcode, hlen⟩ := specHeader_suffix h
  subst hbs
  refine ⟨1 + fb % 4, ?_, ?_, ?_, by omega⟩
  · have c1 : ¬ ((lb ++ r0).length < fb % 4) := by rw [List.length_append]; omega
    have c2 : ¬ (0 ≤ fmt ∧ fmt ≠ ((fb / 4 : Nat) : Int)) := by rw [← hcode]; exact hf
    have e : (lb ++ r0).take (fb % 4) = lb := by rw [← hl]; exact List.take_left' rfl
    simp only [Model.Var.decHeader, Bool.false_eq_true, if_false]
    rw [if_neg c1, if_neg c2, e, ← hcode, ← hlen]
  · rw [Nat.add_comm, ← hl]
    show ((fb :: (lb ++ r0)).drop (lb.length + 1)) = r0
    rw [List.drop_succ_cons]; exact List.drop_left' rfl
  · simp only [List.length_cons, List.length_append]; omega

mutual
theorem decItem_suffix (f : Nat) (bs : Bytes) (v : Val) (r : Bytes) (h : decItem f bs = some (v, r)) : ∃ pre, bs = pre ++ r ∧ 2 ≤ pre.length := by
  match f with
  | 0 => simp [decItem] at h
  | f+1 =>
    simp only [decItem] at h
    split at h
    · simp at h
    · rename_i code len r0 hh
      obtain ⟨fb, lb, hbs, _, h4, hl, _, _⟩ := specHeader_suffix hh
      split at h
      · split at h
        · simp at h
        · rename_i xs r' hd
          injection h with h; injection h with h1 h2; subst h2
          obtain ⟨pre, hp⟩ := decList_suffix f len r0 xs r' hd
          refine ⟨fb :: (lb ++ pre), by rw [hbs, hp]; simp, by simp; omega⟩
      · split at h
        · simp at h
        · split at h
          · simp at h
          · split at h
            · simp at h
            · rename_i p r' ht
              injection h with h; injection h with h1 h2; subst h2
              obtain ⟨e1, _⟩ := takeN_some ht
              refine ⟨fb :: (lb ++ p), by rw [hbs, e1]; simp, by simp; omega⟩
theorem decList_suffix (f n : Nat) (bs : Bytes) (xs : List Val) (r : Bytes) (h : decList f n bs = some (xs, r)) : ∃ pre, bs = pre ++ r := by
  match f, n with
  | _, 0 => simp only [decList] at h; injection h with h; injection h with h1 h2; exact ⟨[], by simp [h2]⟩
  | 0, _+1 => simp [decList] at h
  | f+1, n+1 =>
    simp only [decList] at h
    split at h
    · simp at h
    · rename_i x r1 h1
      split at h
      · simp at h
      · rename_i ys r2 h2
        injection h with h; injection h with h3 h4; subst h4
        obtain ⟨p1, e1, _⟩ := decItem_suffix f bs x r1 h1
        obtain ⟨p2, e2⟩ := decList_suffix f n r1 ys r2 h2
        exact ⟨p1 ++ p2, by rw [e1, e2]; simp⟩
end

/-! ### chunks -/

theorem chunksN_mem (w : Nat) : ∀ (n : Nat) (body : Bytes), n * w ≤ body.length → AllBytes body →
    ∀ c ∈ chunksN w n body, c.length = w ∧ AllBytes c
  | 0, _, _, _, c, hc => by simp [chunksN] at hc
  | n+1, body, hl, hab, c, hc => by
    have hw : w ≤ body.length := by rw [Nat.succ_mul] at hl; omega
    simp only [chunksN, List.mem_cons] at hc
    rcases hc with h | h
    · subst h
      exact ⟨by rw [List.length_take]; omega, allBytes_take hab⟩
    · exact chunksN_mem w n (body.drop w) (by rw [List.length_drop, Nat.succ_mul] at *; omega) (allBytes_drop hab) c h

theorem chunksN_length (w : Nat) : ∀ (n : Nat) (body : Bytes), (chunksN w n body).length = n
  | 0, _ => rfl
  | n+1, body => by simp [chunksN, chunksN_length w n]

theorem chunksN_one : ∀ (p : Bytes), chunksN 1 p.length p = p.map (fun b => [b])
  | [] => rfl
  | b :: bs => by simp [chunksN, chunksN_one bs]

theorem chunksN_take (w : Nat) (n : Nat) (body : Bytes) (h : n * w ≤ body.length) : chunksN w n (body.take (n * w)) = chunksN w n body := by
  have := chunksN_append w n (body.take (n * w)) (body.drop (n * w)) (by rw [List.length_take]; omega)
  rw [List.take_append_drop] at this
  exact this.symm

/-! ### numbers -/

theorem unpack_eq (t : Ty) (h : t.kind = .sint ∨ t.kind = .uint ∨ t.kind = .f32 ∨ t.kind = .f64) (c : Bytes) (hl : c.length = t.width) :
    unpack (rowOf t).struct_code c = .ok (elemDec t c) := by
  cases t <;> simp [Ty.kind] at h <;>
    simp [unpack, structWidth, rowOf, Gen.VarTypes.cI8, Gen.VarTypes.cI1, Gen.VarTypes.cI2, Gen.VarTypes.cI4, Gen.VarTypes.cF8, Gen.VarTypes.cF4,
      Gen.VarTypes.cU8, Gen.VarTypes.cU1, Gen.VarTypes.cU2, Gen.VarTypes.cU4, elemDec, Ty.kind, Ty.width] at hl ⊢ <;>
    simp [hl]

theorem readNums_ok (t : Ty) (h : t.kind = .sint ∨ t.kind = .uint ∨ t.kind = .f32 ∨ t.kind = .f64) :
    ∀ (n : Nat) (body : Bytes), n * t.width ≤ body.length →
      readNums (rowOf t).struct_code t.width n body = .ok ((chunksN t.width n body).map (elemDec t))
  | 0, _, _ => rfl
  | n+1, body, hl => by
    have hw : t.width ≤ body.length := by rw [Nat.succ_mul] at hl; omega
    have hlen : (body.take t.width).length = t.width := by rw [List.length_take]; omega
    have ih := readNums_ok t h n (body.drop t.width) (by rw [List.length_drop, Nat.succ_mul] at *; omega)
    simp only [readNums, hlen, ne_eq, not_true_eq_false, if_false, unpack_eq t h _ hlen, ih, chunksN, List.map_cons]

theorem checkRange_ok (r : Row) : ∀ (es : List Int), (∀ e ∈ es, outOfRange r e = false) → checkRange r es = .ok es
  | [], _ => rfl
  | e :: es, h => by
    have h1 := h e (by simp)
    have ih := checkRange_ok r es (fun x hx => h x (by simp [hx]))
    simp only [checkRange, h1, Bool.false_eq_true, if_false, ih]

theorem ofTwos_range (w n : Nat) (hw : 0 < w) (hn : n < 256 ^ w) :
    -((256 ^ w / 2 : Nat) : Int) ≤ ofTwos w n ∧ ofTwos w n < ((256 ^ w / 2 : Nat) : Int) := by
  have heven : 256 ^ w = 2 * (256 ^ w / 2) := by
    obtain ⟨k, rfl⟩ : ∃ k, w = k + 1 := ⟨w - 1, by omega⟩
    rw [Nat.pow_succ]; omega
  simp only [ofTwos]
  generalize 256 ^ w = M at *
  generalize M / 2 = H at *
  subst heven
  split <;> omega

theorem widen_finite (f : Nat) (h : IEEE.isFinite64 (IEEE.widen f) = true) : IEEE.expo32 f ≠ 255 := by
  intro he
  have hs := IEEE.sign32_lt f
  simp only [IEEE.isFinite64, decide_eq_true_eq, IEEE.widen, IEEE.widenF, he, if_true] at h
  generalize IEEE.sign32 f = s at *
  have hm := IEEE.frac32_lt f
  generalize IEEE.frac32 f = m at *
  split at h <;> omega

/-- a decoded element of a numeric item passes the `_min/_max` test of `set()` (floats: when finite) -/
theorem dec_inrange (t : Ty) (h : t.kind = .sint ∨ t.kind = .uint ∨ t.kind = .f32 ∨ t.kind = .f64) (c : Bytes) (hl : c.length = t.width)
    (hab : AllBytes c) (hfin : finElem t (elemDec t c) = true) : outOfRange (rowOf t) (elemDec t c) = false := by
  have hlt := ofBe_lt c hab
  rw [hl] at hlt
  generalize hk : t.kind = k at h
  cases k with
  | sint =>
    obtain ⟨hf, hmin, hmax⟩ := num_range t (by simp [hk])
    obtain ⟨hlo, hhi⟩ := sint_facts t hk
    obtain ⟨r1, r2⟩ := ofTwos_range t.width (ofBe c) (width_pos t) hlt
    simp only [outOfRange, hf, hmin, hmax, Bool.false_eq_true, if_false, elemDec, hk, Bool.or_eq_false_iff, decide_eq_false_iff_not]
    omega
  | uint =>
    obtain ⟨hf, hmin, hmax⟩ := num_range t (by simp [hk])
    obtain ⟨hlo, _⟩ := uint_facts t (by simp [hk])
    have hhi : t.hi + 1 = ((256 ^ t.width : Nat) : Int) := by cases t <;> simp [Ty.kind] at hk <;> decide
    simp only [outOfRange, hf, hmin, hmax, Bool.false_eq_true, if_false, elemDec, hk, Bool.or_eq_false_iff, decide_eq_false_iff_not]
    omega
  | f64 =>
    have ht : t = .f8 := by cases t <;> simp [Ty.kind] at hk <;> rfl
    subst ht
    simp only [finElem, Ty.kind, elemDec, Int.toNat_natCast, IEEE.isFinite64] at hfin
    replace hfin := of_decide_eq_true hfin
    have hf : (rowOf .f8).is_float = true := rfl
    simp only [outOfRange, hf, if_true, f8_bounds.1, f8_bounds.2, elemDec, Ty.kind, Int.toNat_natCast]
    have hn : IEEE.isNaN64 (ofBe c) = false := by rw [IEEE.isNaN64_false_iff]; omega
    rw [IEEE.range_check _ IEEE.dblMax64 (by decide) hn]
    simp only [IEEE.dblMax64]; omega
  | f32 =>
    have ht : t = .f4 := f32_is_f4 t hk
    subst ht
    simp only [finElem, Ty.kind, elemDec, Int.toNat_natCast] at hfin
    have hf : (rowOf .f4).is_float = true := rfl
    have hfin32 := widen_finite _ hfin
    obtain ⟨_, hmx⟩ := IEEE.widen_le_max (ofBe c) hfin32
    simp only [outOfRange, hf, if_true, f4_bounds.1, f4_bounds.2, elemDec, Ty.kind, Int.toNat_natCast]
    have hn : IEEE.isNaN64 (IEEE.widen (ofBe c)) = false := by
      rw [IEEE.isNaN64_false_iff]; simp only [IEEE.fltMax64] at hmx; omega
    rw [IEEE.range_check _ IEEE.fltMax64 (by decide) hn]
    exact hmx
  | _ => simp at h

/-! ### text, binary, boolean -/

theorem decodeText_latin : ∀ (bs : Bytes), decodeText .latin1 bs = .ok (bs.map (fun (b : Nat) => (b : Int)))
  | [] => rfl
  | b :: bs => by simp only [decodeText, decodeChar, decodeText_latin bs, List.map_cons]

theorem decodeText_jis : ∀ (bs : Bytes), AllBytes bs → decodeText .jis8 bs = .ok (bs.map (fun (b : Nat) => ((jisChar b : Nat) : Int)))
  | [], _ => rfl
  | b :: bs, h => by
    have hb : b < 256 := h b (by simp)
    have ih := decodeText_jis bs (fun x hx => h x (by simp [hx]))
    simp only [decodeText, decodeChar, jis_table_get b hb, ih, List.map_cons]

theorem encodeText_latin_ok : ∀ (bs : Bytes), AllBytes bs → ∃ p, encodeText .latin1 (bs.map (fun (b : Nat) => (b : Int))) = .ok p
  | [], _ => ⟨[], rfl⟩
  | b :: bs, h => by
    have hb : b < 256 := h b (by simp)
    obtain ⟨p, hp⟩ := encodeText_latin_ok bs (fun x hx => h x (by simp [hx]))
    have c : (0 : Int) ≤ (b : Int) ∧ (b : Int) < 256 := by omega
    exact ⟨(b : Int).toNat :: p, by simp only [List.map_cons, encodeText, encodeChar, c, and_self, if_true, hp]⟩

theorem encodeText_jis_ok : ∀ (bs : Bytes), AllBytes bs → ∃ p, encodeText .jis8 (bs.map (fun (b : Nat) => ((jisChar b : Nat) : Int))) = .ok p
  | [], _ => ⟨[], rfl⟩
  | b :: bs, h => by
    have hb : b < 256 := h b (by simp)
    obtain ⟨p, hp⟩ := encodeText_jis_ok bs (fun x hx => h x (by simp [hx]))
    exact ⟨b :: p, by simp only [List.map_cons, encodeText, encodeChar, jisEncode_eq, jisByte_jisChar b hb, hp]⟩

theorem readBools_ok : ∀ (n : Nat) (body : Bytes), n ≤ body.length →
    readBools n body = .ok ((body.take n).map (fun (b : Nat) => if b = 0 then (0 : Int) else 1))
  | 0, _, _ => by simp [readBools]
  | n+1, [], h => by simp at h
  | n+1, b :: bs, h => by
    have ih := readBools_ok n bs (by simpa using h)
    simp only [readBools, ih, List.take_succ_cons, List.map_cons]

theorem chunks_width_one (t : Ty) (hw : t.width = 1) (p : Bytes) :
    (chunksN t.width (p.length / t.width) p).map (elemDec t) = p.map (fun b => elemDec t [b]) := by
  rw [hw, Nat.div_one, chunksN_one, List.map_map]; rfl

/-- how `set()` limits the element count of a leaf class -/
def countOk (t : Ty) (c : Int) (n : Nat) : Prop :=
  match t.kind with
  | .char | .jis | .byte => ¬ (0 < c ∧ c < (n : Int))
  | _ => ¬ (0 ≤ c ∧ c < (n : Int))

instance (t : Ty) (c : Int) (n : Nat) : Decidable (countOk t c n) := by unfold countOk; split <;> infer_instance

/-- **one leaf item**: what the reference decoder reads, a fresh leaf object of that type decodes to -/
theorem decLeaf_complete (t : Ty) (c : Int) (bs r0 p r : Bytes) (len : Nat)
    (hh : Spec.E5.decHeader bs = some (t.code, len, r0)) (hm : len % t.width = 0) (ht : takeN len r0 = some (p, r)) (hab : AllBytes bs)
    (hfin : ∀ e ∈ (chunksN t.width (len / t.width) p).map (elemDec t), finElem t e = true)
    (hc : countOk t c (len / t.width)) :
    decLeaf t c false bs = .ok (.item t ((chunksN t.width (len / t.width) p).map (elemDec t)), bs.length - r.length) := by
  have hfmt : ¬ (0 ≤ (rowOf t).format_code ∧ (rowOf t).format_code ≠ ((t.code : Nat) : Int)) := by rw [row_code]; omega
  obtain ⟨hc0, hdec, hdrop, hlen0, _⟩ := decHeader_agree hh (rowOf t).format_code hfmt
  obtain ⟨e1, e2⟩ := takeN_some ht
  have habr0 : AllBytes r0 := by rw [← hdrop]; exact allBytes_drop hab
  have habp : AllBytes p := by rw [e1] at habr0; exact allBytes_of_append_left habr0
  have hpos : bs.length - r.length = hc0 + len := by
    rw [e1, List.length_append] at hlen0; omega
  have hw := width_pos t
  have hnw : len / t.width * t.width = len := Nat.div_mul_cancel (Nat.dvd_of_mod_eq_zero hm)
  have hptake : r0.take len = p := by rw [e1, ← e2]; exact List.take_left' rfl
  simp only [decLeaf, hdec, hdrop]
  generalize hk : t.kind = k at hc
  cases k with
  | sint | uint | f32 | f64 =>
    have hkk : t.kind = .sint ∨ t.kind = .uint ∨ t.kind = .f32 ∨ t.kind = .f64 := by simp [hk]
    have hb := row_bytes t hkk
    have c1 : ¬ ((t.width : Int) ≤ 0) := by omega
    have hnl : len / t.width * t.width ≤ r0.length := by rw [hnw, e1, List.length_append]; omega
    have hch : chunksN t.width (len / t.width) r0 = chunksN t.width (len / t.width) p := by
      rw [← chunksN_take t.width _ r0 hnl, hnw, hptake]
    simp only [c1, if_false, hb, Int.toNat_natCast, readNums_ok t hkk _ r0 hnl, hch]
    have hcnt : ¬ (0 ≤ c ∧ c < (((chunksN t.width (len / t.width) p).map (elemDec t)).length : Int)) := by
      rw [List.length_map, chunksN_length]
      simp only [countOk, hk] at hc
      exact hc
    have hrange : ∀ e ∈ (chunksN t.width (len / t.width) p).map (elemDec t), outOfRange (rowOf t) e = false := by
      intro e he
      obtain ⟨ch, hch1, rfl⟩ := List.mem_map.mp he
      obtain ⟨l1, l2⟩ := chunksN_mem t.width _ p (by rw [hnw, e2]; exact Nat.le_refl _) habp ch hch1
      exact dec_inrange t hkk ch l1 l2 (hfin _ he)
    simp only [setNums, hcnt, if_false, checkRange_ok _ _ hrange, hnw, hpos]
  | char =>
    have ht1 : t = .a := by cases t <;> simp [Ty.kind] at hk <;> rfl
    subst ht1
    have hcw := chunks_width_one .a rfl p
    rw [e2] at hcw
    simp only [string_coding, hptake, decodeText_latin]
    have hval : (chunksN Ty.a.width (len / Ty.a.width) p).map (elemDec .a) = p.map (fun (b : Nat) => (b : Int)) := by
      rw [hcw]; apply List.map_congr_left; intro b _; simp [elemDec, Ty.kind, ofBe]
    obtain ⟨q, hq⟩ := encodeText_latin_ok p habp
    have hcnt : ¬ (0 < c ∧ c < ((p.map (fun (b : Nat) => (b : Int))).length : Int)) := by
      simp only [countOk, Ty.kind] at hc
      rw [List.length_map, e2]
      have : len / Ty.a.width = len := Nat.div_one len
      rw [this] at hc; exact hc
    by_cases h0 : 0 < len
    · simp only [h0, if_true, setStr, string_coding, hq, hcnt, if_false, hval, hpos]
    · have hl0 : len = 0 := by omega
      subst hl0
      have hp0 : p = [] := List.length_eq_zero_iff.mp e2
      subst hp0
      have cz : ¬ (0 < c ∧ c < (0 : Int)) := by omega
      simp [setStr, string_coding, encodeText, hpos, cz, chunksN]
  | jis =>
    have ht1 : t = .j := by cases t <;> simp [Ty.kind] at hk <;> rfl
    subst ht1
    have hcw := chunks_width_one .j rfl p
    rw [e2] at hcw
    simp only [jis8_coding, hptake, decodeText_jis p habp]
    have hval : (chunksN Ty.j.width (len / Ty.j.width) p).map (elemDec .j) = p.map (fun (b : Nat) => ((jisChar b : Nat) : Int)) := by
      rw [hcw]; apply List.map_congr_left; intro b _; simp [elemDec, Ty.kind, ofBe]
    obtain ⟨q, hq⟩ := encodeText_jis_ok p habp
    have hcnt : ¬ (0 < c ∧ c < ((p.map (fun (b : Nat) => ((jisChar b : Nat) : Int))).length : Int)) := by
      simp only [countOk, Ty.kind] at hc
      rw [List.length_map, e2]
      have : len / Ty.j.width = len := Nat.div_one len
      rw [this] at hc; exact hc
    by_cases h0 : 0 < len
    · simp only [h0, if_true, setStr, jis8_coding, hq, hcnt, if_false, hval, hpos]
    · have hl0 : len = 0 := by omega
      subst hl0
      have hp0 : p = [] := List.length_eq_zero_iff.mp e2
      subst hp0
      have cz : ¬ (0 < c ∧ c < (0 : Int)) := by omega
      simp [setStr, jis8_coding, encodeText, hpos, cz, chunksN]
  | byte =>
    have ht1 : t = .b := by cases t <;> simp [Ty.kind] at hk <;> rfl
    subst ht1
    have hcw := chunks_width_one .b rfl p
    rw [e2] at hcw
    have hval : (chunksN Ty.b.width (len / Ty.b.width) p).map (elemDec .b) = p.map (fun (b : Nat) => (b : Int)) := by
      rw [hcw]; apply List.map_congr_left; intro b _; simp [elemDec, Ty.kind, ofBe]
    have hcnt : ¬ (0 < c ∧ c < (p.length : Int)) := by
      simp only [countOk, Ty.kind] at hc
      rw [e2]
      have : len / Ty.b.width = len := Nat.div_one len
      rw [this] at hc; exact hc
    by_cases h0 : 0 < len
    · simp only [h0, if_true, hptake, hcnt, if_false, hval, hpos]
    · have hl0 : len = 0 := by omega
      subst hl0
      have hp0 : p = [] := List.length_eq_zero_iff.mp e2
      subst hp0
      simp [hpos, chunksN]
  | bool =>
    have ht1 : t = .bool := by cases t <;> simp [Ty.kind] at hk <;> rfl
    subst ht1
    have hcw := chunks_width_one .bool rfl p
    rw [e2] at hcw
    have hval : (chunksN Ty.bool.width (len / Ty.bool.width) p).map (elemDec .bool) = p.map (fun (b : Nat) => if b = 0 then (0 : Int) else 1) := by
      rw [hcw]; apply List.map_congr_left; intro b _; simp [elemDec, Ty.kind, ofBe]
    have hle : len ≤ r0.length := by rw [e1, List.length_append]; omega
    have hcnt : ¬ (0 ≤ c ∧ c < ((p.map (fun (b : Nat) => if b = 0 then (0 : Int) else 1)).length : Int)) := by
      simp only [countOk, Ty.kind] at hc
      rw [List.length_map, e2]
      have : len / Ty.bool.width = len := Nat.div_one len
      rw [this] at hc; exact hc
    simp only [readBools_ok len r0 hle, hptake, hcnt, if_false, hval, hpos]

/-! ### conformance of a value to a structure -/

mutual
/-- no JIS-8 item anywhere (the `Dynamic.decode` table has no JIS8 entry) -/
def NoJ : Val → Prop
  | .item t _ => t ≠ .j
  | .list xs => NoJList xs
def NoJList : List Val → Prop
  | [] => True
  | x :: xs => NoJ x ∧ NoJList xs
end

/-- `not self.types or typ in self.types` -/
def tagOk (allowed : List Tag) (g : Tag) : Prop := allowed = [] ∨ g ∈ allowed

mutual
/-- `v` is a value of structure `s`: leaf type and count limit, `Dynamic` type list, array elements, record arity -/
def Conforms : Struct → Val → Prop
  | .leaf t c, .item t' es => t' = t ∧ countOk t c es.length
  | .leaf _ _, .list _ => False
  | .dyn allowed c, .item t es => t ≠ .j ∧ tagOk allowed (.leaf t) ∧ countOk t c es.length
  | .dyn allowed _, .list xs => tagOk allowed .arr ∧ NoJList xs
  | .array el _, .list xs => ∀ x ∈ xs, Conforms el x
  | .array _ _, .item _ _ => False
  | .record fs, .list xs => ConformsZip fs xs
  | .record _, .item _ _ => False
def ConformsZip : List Struct → List Val → Prop
  | [], [] => True
  | f :: fs, x :: xs => Conforms f x ∧ ConformsZip fs xs
  | [], _ :: _ => False
  | _ :: _, [] => False
end

instance (allowed : List Tag) (g : Tag) : Decidable (tagOk allowed g) := by unfold tagOk; infer_instance

theorem tagOk_check (allowed : List Tag) (g : Tag) (h : tagOk allowed g) : (!(allowed.isEmpty || allowed.contains g)) = false := by
  rcases h with h | h
  · subst h; rfl
  · have : allowed.contains g = true := List.contains_iff_mem.mpr h
    rw [this, Bool.or_true]; rfl

theorem any_leaf (t : Ty) (h : t ≠ .j) : tagOk anyTags (.leaf t) ∧ dynLookup t.code = some (.leaf t) := by
  cases t <;> first | exact absurd rfl h | exact ⟨Or.inr (by decide), by decide⟩

theorem any_arr : tagOk anyTags .arr ∧ dynLookup 0 = some .arr := ⟨Or.inr (by decide), by decide⟩

theorem ofCode_some {code : Nat} {t : Ty} (h : Ty.ofCode code = some t) : t.code = code := by
  simp only [Ty.ofCode] at h
  have := List.find?_some h
  simpa using this

mutual
theorem noJ_any (v : Val) (h : NoJ v) : Conforms (.dyn anyTags (-1)) v := by
  match v with
  | .item t es =>
    simp only [NoJ] at h
    refine ⟨h, (any_leaf t h).1, ?_⟩
    simp only [countOk]; split <;> omega
  | .list xs =>
    simp only [NoJ] at h
    exact ⟨any_arr.1, h⟩
end

theorem noJList_any : ∀ (xs : List Val), NoJList xs → ∀ x ∈ xs, Conforms (.dyn anyTags (-1)) x
  | [], _, x, hx => by simp at hx
  | y :: ys, h, x, hx => by
    simp only [NoJList] at h
    rcases List.mem_cons.mp hx with h1 | h1
    · subst h1; exact noJ_any _ h.1
    · exact noJList_any ys h.2 x h1

/-! ### the induction -/

/-- statement for one item -/
def P1 (f : Nat) : Prop := ∀ (bs : Bytes) (v : Val) (r : Bytes), decItem f bs = some (v, r) → AllBytes bs → v.Finite →
  ∀ (s : Struct), Conforms s v → ∀ (g : Nat), 2 * f ≤ g → decS g s false bs = .ok (v, bs.length - r.length)
/-- statement for the element loop of `Array.decode` -/
def P2 (f : Nat) : Prop := ∀ (n : Nat) (bs : Bytes) (xs : List Val) (r : Bytes), decList f n bs = some (xs, r) → AllBytes bs → FiniteList xs →
  ∀ (el : Struct), (∀ x ∈ xs, Conforms el x) → ∀ (g : Nat), 2 * f ≤ g → decArr g el false n bs = .ok (xs, bs.length - r.length)
/-- statement for the field loop of `List.decode` -/
def P3 (f : Nat) : Prop := ∀ (n : Nat) (bs : Bytes) (xs : List Val) (r : Bytes), decList f n bs = some (xs, r) → AllBytes bs → FiniteList xs →
  ∀ (fs : List Struct), ConformsZip fs xs → ∀ (g : Nat), 2 * f ≤ g → decRec g fs false n bs = .ok (xs, bs.length - r.length)

theorem finite_mem : ∀ (xs : List Val), FiniteList xs → ∀ x ∈ xs, x.Finite
  | [], _, x, hx => by simp at hx
  | y :: ys, h, x, hx => by
    simp only [FiniteList] at h
    rcases List.mem_cons.mp hx with h1 | h1
    · subst h1; exact h.1
    · exact finite_mem ys h.2 x h1

theorem step2 (f : Nat) (h1 : P1 f) (h2 : P2 f) : P2 (f + 1) := by
  intro n bs xs r h hab hfin el hs g hg
  match n with
  | 0 =>
    simp only [decList] at h; injection h with h; injection h with e1 e2; subst e1; subst e2
    cases g <;> simp [decArr]
  | n+1 =>
    simp only [decList] at h
    split at h
    · simp at h
    · rename_i x r1 hx
      split at h
      · simp at h
      · rename_i ys r2 hys
        injection h with h; injection h with e1 e2; subst e1; subst e2
        obtain ⟨g', rfl⟩ : ∃ g', g = g' + 1 := ⟨g - 1, by omega⟩
        simp only [FiniteList] at hfin
        obtain ⟨p1, hp1, _⟩ := decItem_suffix f bs x r1 hx
        obtain ⟨p2, hp2⟩ := decList_suffix f n r1 ys r2 hys
        obtain ⟨l1, d1⟩ := suffix_drop hp1
        have hab1 : AllBytes r1 := by rw [hp1] at hab; exact allBytes_of_append_right hab
        have a := h1 bs x r1 hx hab hfin.1 el (hs x (by simp)) g' (by omega)
        have b := h2 n r1 ys r2 hys hab1 hfin.2 el (fun y hy => hs y (by simp [hy])) g' (by omega)
        simp only [decArr, a, l1, d1, b]
        have : bs.length = p1.length + r1.length := by rw [hp1, List.length_append]
        have : r1.length = p2.length + r2.length := by rw [hp2, List.length_append]
        congr 2; omega

theorem step3 (f : Nat) (h1 : P1 f) (h3 : P3 f) : P3 (f + 1) := by
  intro n bs xs r h hab hfin fs hs g hg
  match n with
  | 0 =>
    simp only [decList] at h; injection h with h; injection h with e1 e2; subst e1; subst e2
    cases g <;> simp [decRec]
  | n+1 =>
    simp only [decList] at h
    split at h
    · simp at h
    · rename_i x r1 hx
      split at h
      · simp at h
      · rename_i ys r2 hys
        injection h with h; injection h with e1 e2; subst e1; subst e2
        obtain ⟨g', rfl⟩ : ∃ g', g = g' + 1 := ⟨g - 1, by omega⟩
        simp only [FiniteList] at hfin
        match fs, hs with
        | [], hs => simp [ConformsZip] at hs
        | s :: ss, hs =>
          simp only [ConformsZip] at hs
          obtain ⟨p1, hp1, _⟩ := decItem_suffix f bs x r1 hx
          obtain ⟨p2, hp2⟩ := decList_suffix f n r1 ys r2 hys
          obtain ⟨l1, d1⟩ := suffix_drop hp1
          have hab1 : AllBytes r1 := by rw [hp1] at hab; exact allBytes_of_append_right hab
          have a := h1 bs x r1 hx hab hfin.1 s hs.1 g' (by omega)
          have b := h3 n r1 ys r2 hys hab1 hfin.2 ss hs.2 g' (by omega)
          simp only [decRec, a, l1, d1, b]
          have : bs.length = p1.length + r1.length := by rw [hp1, List.length_append]
          have : r1.length = p2.length + r2.length := by rw [hp2, List.length_append]
          congr 2; omega

/-- `Array.decode` / the array a `Dynamic` creates for a list: header, then the element loop -/
theorem array_case (f : Nat) (h2 : P2 f) (bs r0 r : Bytes) (len : Nat) (xs : List Val)
    (hh : Spec.E5.decHeader bs = some (0, len, r0)) (hd : decList f len r0 = some (xs, r)) (hab : AllBytes bs) (hfin : FiniteList xs)
    (el : Struct) (c : Int) (hs : ∀ x ∈ xs, Conforms el x) (g : Nat) (hg : 2 * f + 1 ≤ g) :
    decS g (.array el c) false bs = .ok (.list xs, bs.length - r.length) := by
  obtain ⟨g', rfl⟩ : ∃ g', g = g' + 1 := ⟨g - 1, by omega⟩
  have hfmt : ¬ (0 ≤ Gen.VarTypes.cArray.format_code ∧ Gen.VarTypes.cArray.format_code ≠ ((0 : Nat) : Int)) := by
    rw [row_list_code.1]; omega
  obtain ⟨hc0, hdec, hdrop, hlen0, _⟩ := decHeader_agree hh _ hfmt
  have habr0 : AllBytes r0 := by rw [← hdrop]; exact allBytes_drop hab
  obtain ⟨p2, hp2⟩ := decList_suffix f len r0 xs r hd
  have b := h2 len r0 xs r hd habr0 hfin el hs g' (by omega)
  simp only [decS, hdec, hdrop, b]
  have : r0.length = p2.length + r.length := by rw [hp2, List.length_append]
  congr 2; omega

theorem step1 (f : Nat) (h2 : P2 f) (h3 : P3 f) : P1 (f + 1) := by
  intro bs v r h hab hfin s hs g hg
  simp only [decItem] at h
  split at h
  · simp at h
  · rename_i code len r0 hh
    split at h
    · -- a list
      rename_i hcode
      subst hcode
      split at h
      · simp at h
      · rename_i xs r' hd
        injection h with h; injection h with e1 e2; subst e1; subst e2
        simp only [Val.Finite] at hfin
        match s, hs with
        | .leaf _ _, hs => simp [Conforms] at hs
        | .array el c, hs =>
          simp only [Conforms] at hs
          exact array_case f h2 bs r0 r' len xs hh hd hab hfin el c hs g (by omega)
        | .record fs, hs =>
          simp only [Conforms] at hs
          obtain ⟨g', rfl⟩ : ∃ g', g = g' + 1 := ⟨g - 1, by omega⟩
          have hfmt : ¬ (0 ≤ Gen.VarTypes.cList.format_code ∧ Gen.VarTypes.cList.format_code ≠ ((0 : Nat) : Int)) := by
            rw [row_list_code.2]; omega
          obtain ⟨hc0, hdec, hdrop, hlen0, _⟩ := decHeader_agree hh _ hfmt
          have habr0 : AllBytes r0 := by rw [← hdrop]; exact allBytes_drop hab
          obtain ⟨p2, hp2⟩ := decList_suffix f len r0 xs r' hd
          have b := h3 len r0 xs r' hd habr0 hfin fs hs g' (by omega)
          simp only [decS, hdec, hdrop, b]
          have : r0.length = p2.length + r'.length := by rw [hp2, List.length_append]
          congr 2; omega
        | .dyn allowed c, hs =>
          simp only [Conforms] at hs
          obtain ⟨g', rfl⟩ : ∃ g', g = g' + 1 := ⟨g - 1, by omega⟩
          have hfmt : ¬ (0 ≤ (-1 : Int) ∧ (-1 : Int) ≠ ((0 : Nat) : Int)) := by omega
          obtain ⟨hc0, hdec, _, _, _⟩ := decHeader_agree hh (-1) hfmt
          simp only [decS, hdec, any_arr.2, tagOk_check allowed .arr hs.1, Bool.false_eq_true, if_false]
          exact array_case f h2 bs r0 r' len xs hh hd hab hfin _ (-1) (noJList_any xs hs.2) g' (by omega)
    · -- a leaf item
      rename_i hcode
      split at h
      · simp at h
      · rename_i t hof
        have htc := ofCode_some hof
        subst htc
        split at h
        · simp at h
        · rename_i hm
          have hm : len % t.width = 0 := by simpa using hm
          split at h
          · simp at h
          · rename_i p r' ht
            injection h with h; injection h with e1 e2; subst e1; subst e2
            simp only [Val.Finite] at hfin
            obtain ⟨g', rfl⟩ : ∃ g', g = g' + 1 := ⟨g - 1, by omega⟩
            have hlen : ((chunksN t.width (len / t.width) p).map (elemDec t)).length = len / t.width := by
              rw [List.length_map, chunksN_length]
            match s, hs with
            | .array _ _, hs => simp [Conforms] at hs
            | .record _, hs => simp [Conforms] at hs
            | .leaf t' c, hs =>
              simp only [Conforms] at hs
              obtain ⟨e, hc⟩ := hs
              subst e
              rw [hlen] at hc
              simp only [decS]
              exact decLeaf_complete t c bs r0 p r' len hh hm ht hab hfin hc
            | .dyn allowed c, hs =>
              simp only [Conforms] at hs
              obtain ⟨hj, hok, hc⟩ := hs
              rw [hlen] at hc
              have hfmt : ¬ (0 ≤ (-1 : Int) ∧ (-1 : Int) ≠ ((t.code : Nat) : Int)) := by omega
              obtain ⟨hc0, hdec, _, _, _⟩ := decHeader_agree hh (-1) hfmt
              simp only [decS, hdec, (any_leaf t hj).2, tagOk_check allowed (.leaf t) hok, Bool.false_eq_true, if_false]
              exact decLeaf_complete t c bs r0 p r' len hh hm ht hab hfin hc

theorem all_P : ∀ f, P1 f ∧ P2 f ∧ P3 f
  | 0 => by
    refine ⟨?_, ?_, ?_⟩
    · intro bs v r h; simp [decItem] at h
    · intro n bs xs r h hab hfin el hs g hg
      match n with
      | 0 =>
        simp only [decList] at h; injection h with h; injection h with e1 e2; subst e1; subst e2
        cases g <;> simp [decArr]
      | n+1 => simp [decList] at h
    · intro n bs xs r h hab hfin fs hs g hg
      match n with
      | 0 =>
        simp only [decList] at h; injection h with h; injection h with e1 e2; subst e1; subst e2
        cases g <;> simp [decRec]
      | n+1 => simp [decList] at h
  | f+1 => by
    obtain ⟨h1, h2, h3⟩ := all_P f
    exact ⟨step1 f h2 h3, step2 f h1 h2, step3 f h1 h3⟩

/-- **C02_decode_complete** (fuel form) -/
theorem decS_complete (f : Nat) (bs : Bytes) (v : Val) (r : Bytes) (h : decItem f bs = some (v, r)) (hab : AllBytes bs) (hfin : v.Finite)
    (s : Struct) (hs : Conforms s v) (g : Nat) (hg : 2 * f ≤ g) : decS g s false bs = .ok (v, bs.length - r.length) :=
  (all_P f).1 bs v r h hab hfin s hs g hg

/-- **decode completeness at the API level**: `obj.decode(data, start)` on a fresh object of a conforming structure, for any
bytes before the item (`pre`) and after it (inside `bs`'s remainder `rest`) -/
theorem decodeAs_complete (bs : Bytes) (v : Val) (rest : Bytes) (h : decodeAny bs = some (v, rest)) (hab : AllBytes bs) (hfin : v.Finite)
    (s : Struct) (hs : Conforms s v) (pre : Bytes) :
    decodeAs s (pre ++ bs) pre.length = .ok (v, pre.length + (bs.length - rest.length)) := by
  obtain ⟨p1, hp1, h2⟩ := decItem_suffix _ bs v rest h
  have hne : ((pre ++ bs).length == 0) = false := by
    rw [hp1]; simp only [List.length_append]
    have : ¬ (pre.length + (p1.length + rest.length) = 0) := by omega
    simpa using this
  have hd : (pre ++ bs).drop pre.length = bs := List.drop_left' rfl
  have := decS_complete _ bs v rest h hab hfin s hs (2 * (pre ++ bs).length + 4) (by simp only [List.length_append]; omega)
  simp only [decodeAs, hne, hd, this]

end SecsModel.Proofs.CodecVarDec
