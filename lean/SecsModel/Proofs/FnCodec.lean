import SecsModel.Proofs.FnCodecTabB
import SecsModel.Proofs.CodecRound
import SecsModel.Props.C03
/-! The value round trip of a catalogued stream/function: a corollary of the codec round trip (`Proofs.CodecRound.roundtrip`)
and of the exact lookup by stream/function numbers (`Props.C03.lookup_total`). -/
namespace SecsModel.Proofs.FnCodec
open SecsModel SecsModel.Spec.E5 SecsModel.Model.Var SecsModel.Gen.Catalogue SecsModel.Model.Fn SecsModel.Proofs.FnCodecTab
  SecsModel.Proofs.CodecVarDec SecsModel.Proofs.CodecRound

theorem structOk_all : ∀ f ∈ py, structOk f = true := by
  intro f hf
  simp only [py, List.mem_append] at hf
  rcases hf with ((h | h) | h) | h
  · exact List.all_eq_true.mp struct0 f h
  · exact List.all_eq_true.mp struct1 f h
  · exact List.all_eq_true.mp struct2 f h
  · exact List.all_eq_true.mp struct3 f h

/-- every catalogued function with a structure text has a defined codec structure -/
theorem structOf_defined (f : Fn) (hf : f ∈ py) (hd : f.dataFormat.isSome = true) : ∃ s, structOf f = some s := by
  have h := structOk_all f hf
  simp only [structOk, Bool.or_eq_true] at h
  rcases h with h | h
  · cases hx : f.dataFormat <;> simp [hx] at hd h
  · exact Option.isSome_iff_exists.mp h

theorem structOf_text {f : Fn} {s : Struct} (h : structOf f = some s) : ∃ t, f.dataFormat = some t ∧ structOfText t = some s := by
  simp only [structOf] at h
  cases hx : f.dataFormat with
  | none => simp [hx] at h
  | some t => exact ⟨t, rfl, by simpa [hx] using h⟩

/-- **function round trip** -/
theorem function_roundtrip (f : Fn) (hf : f ∈ py) (s : Struct) (hs : structOf f = some s) (v : Val) (ha : Accepted v) (hn : NoNaN v)
    (hc : Conforms s v) (bs : Bytes) (he : Model.Fn.encode f (some v) = .ok bs) :
    Model.Fn.decode py f.stream f.function bs = .ok (f, some (norm v)) := by
  obtain ⟨t, ht, hst⟩ := structOf_text hs
  have henc : Model.Var.encode v = .ok bs := by simpa [Model.Fn.encode, ht] using he
  have hr := roundtrip v s ha hn hc bs henc [] [] (by intro x hx; simp at hx)
  simp only [List.nil_append, List.append_nil, List.length_nil, Nat.zero_add] at hr
  simp only [Model.Fn.decode, Props.C03.lookup_total f hf, ht, hst, hr]

/-- a header-only function: empty body out, any body in, the class is found by its numbers -/
theorem header_only (f : Fn) (hf : f ∈ py) (hd : f.dataFormat = none) (v : Option Val) (body : Bytes) :
    Model.Fn.encode f v = .ok [] ∧ Model.Fn.decode py f.stream f.function body = .ok (f, none) := by
  refine ⟨by simp [Model.Fn.encode, hd], ?_⟩
  simp only [Model.Fn.decode, Props.C03.lookup_total f hf, hd]

end SecsModel.Proofs.FnCodec
