import SecsModel.Model.Pair
/-! Lemmas about `Model.Pair`. -/
namespace SecsModel.Proofs.Pair
open SecsModel.Model.Pair

/-- every maximal run of `deliver` steps (any interleaving of the two directions) from `p` ends, within `fuel` deliveries,
in a state where both ends are COMMUNICATING and nothing is in flight -/
def allDeliveriesConverge : Nat → Pair → Bool
  | 0, p => p.ab.isEmpty && p.ba.isEmpty && bothComm p
  | fuel + 1, p =>
    if p.ab.isEmpty && p.ba.isEmpty then bothComm p
    else
      (match step p (.deliver .A) with | some p' => allDeliveriesConverge fuel p' | none => true) &&
      (match step p (.deliver .B) with | some p' => allDeliveriesConverge fuel p' | none => true)

/-- the safety invariant of the pair -/
structure Inv (p : Pair) : Prop where
  commA : p.a.comm = .comm → p.a.conn = .sel
  commB : p.b.comm = .comm → p.b.conn = .sel
  link : p.a.conn = .nc ↔ p.b.conn = .nc
  idle : p.a.conn = .nc → p.ab = [] ∧ p.ba = []
  disA : p.a.comm = .dis ↔ p.a.en = false
  disB : p.b.comm = .dis ↔ p.b.en = false
  upA : p.a.conn ≠ .nc → p.a.en = true ∧ p.b.en = true

end SecsModel.Proofs.Pair

namespace SecsModel.Proofs.Pair
open SecsModel.Model.Pair

theorem inv_init (aActive : Bool) : Inv (init aActive) := by
  constructor <;> simp [init]

/-- what `handle` can do to an endpoint: it never disables/enables it, never brings the link down, and can only make it
COMMUNICATING while SELECTED -/
theorem handle_facts (e : End) (m : Msg) :
    (handle e m).1.en = e.en ∧ ((handle e m).1.conn = .nc ↔ e.conn = .nc)
    ∧ ((handle e m).1.comm = .comm → (handle e m).1.conn = .sel)
    ∧ ((handle e m).1.comm = .dis ↔ e.comm = .dis)
    ∨ (e.comm = .comm ∧ e.conn ≠ .sel) := by
  obtain ⟨en, act, c, cm⟩ := e
  cases m with
  | selReq => cases c <;> cases cm <;> simp [handle, selected]
  | selRsp => cases c <;> cases cm <;> simp [handle, selected]
  | s1f13 => cases c <;> cases cm <;> simp [handle, handleData]
  | s1f14 ok => cases ok <;> cases c <;> cases cm <;> simp [handle, handleData]

end SecsModel.Proofs.Pair

namespace SecsModel.Proofs.Pair
open SecsModel.Model.Pair

theorem inv_step (p p' : Pair) (s : Step) (h : Inv p) (hs : step p s = some p') : Inv p' := by
  obtain ⟨⟨ena, acta, ca, ma⟩, ⟨enb, actb, cb, mb⟩, ab, ba⟩ := p
  obtain ⟨h1, h2, h3, h4, h5, h6, h7⟩ := h
  simp only at h1 h2 h3 h4 h5 h6 h7
  cases s with
  | enable x =>
    cases x
    · by_cases he : ena = true
      · simp [step, Pair.get, he] at hs
      · simp [step, Pair.get, Pair.set, he] at hs; subst hs
        constructor <;> simp_all
    · by_cases he : enb = true
      · simp [step, Pair.get, he] at hs
      · simp [step, Pair.get, Pair.set, he] at hs; subst hs
        constructor <;> simp_all
  | disable x =>
    cases x
    · by_cases he : ena = true
      · by_cases hc : ca = .nc
        · simp [step, Pair.get, Pair.set, he, hc] at hs; subst hs
          constructor <;> simp_all
        · simp [step, Pair.get, Pair.set, he, hc, linkDown, closeEnd] at hs; subst hs
          constructor <;> simp_all <;> (split <;> simp_all)
      · simp [step, Pair.get, he] at hs
    · by_cases he : enb = true
      · by_cases hc : cb = .nc
        · simp [step, Pair.get, Pair.set, he, hc] at hs; subst hs
          constructor <;> simp_all
        · simp [step, Pair.get, Pair.set, he, hc, linkDown, closeEnd] at hs; subst hs
          constructor <;> simp_all <;> (split <;> simp_all)
      · simp [step, Pair.get, he] at hs
  | linkUp =>
    by_cases hc : (ena && enb && decide (ca = .nc) && decide (cb = .nc)) = true
    · simp at hc
      obtain ⟨⟨⟨ea, eb⟩, ha⟩, hb⟩ := hc
      subst ha hb ea eb
      cases acta <;> cases actb <;> simp [step, Pair.send] at hs <;> subst hs <;> constructor <;> simp_all
    · simp only [step, hc] at hs; simp at hs
  | linkDown =>
    by_cases hc : (decide (ca ≠ .nc) || decide (cb ≠ .nc)) = true
    · simp only [step, hc, linkDown, closeEnd] at hs
      simp at hs; subst hs
      constructor <;> simp_all <;> (try (split <;> simp_all))
    · simp only [step, hc] at hs; simp at hs
  | deliver x =>
    cases x with
    | A =>
      simp only [step, Pair.inbox, Pair.get] at hs
      cases ba with
      | nil => simp at hs
      | cons m rest =>
        simp only at hs
        have hf := handle_facts ⟨ena, acta, ca, ma⟩ m
        simp at hs; subst hs
        have hca : ca ≠ .nc := by intro c; have := h4 c; simp at this
        rcases hf with ⟨f1, f2, f3, f4⟩ | ⟨f1, f2⟩
        · constructor <;> simp_all [Pair.popInbox, Pair.set, Pair.send]
        · simp at f1 f2; exact absurd (h1 f1) f2
    | B =>
      simp only [step, Pair.inbox, Pair.get] at hs
      cases ab with
      | nil => simp at hs
      | cons m rest =>
        simp only at hs
        have hf := handle_facts ⟨enb, actb, cb, mb⟩ m
        simp at hs; subst hs
        have hca : ca ≠ .nc := by intro c; have := h4 c; simp at this
        rcases hf with ⟨f1, f2, f3, f4⟩ | ⟨f1, f2⟩
        · constructor <;> simp_all [Pair.popInbox, Pair.set, Pair.send]
        · simp at f1 f2; exact absurd (h2 f1) f2
  | t3 x =>
    cases x
    · by_cases hc : ma = .wcra
      · simp [step, Pair.get, Pair.set, hc] at hs; subst hs
        constructor <;> simp_all
      · simp [step, Pair.get, hc] at hs
    · by_cases hc : mb = .wcra
      · simp [step, Pair.get, Pair.set, hc] at hs; subst hs
        constructor <;> simp_all
      · simp [step, Pair.get, hc] at hs
  | delay x =>
    cases x
    · by_cases hc : ma = .wdelay
      · by_cases hn : ca = .nc
        · simp [step, Pair.get, Pair.set, hc, hn] at hs; subst hs
          constructor <;> simp_all
        · simp [step, Pair.get, Pair.set, Pair.send, hc, hn] at hs; subst hs
          constructor <;> simp_all
      · simp [step, Pair.get, hc] at hs
    · by_cases hc : mb = .wdelay
      · by_cases hn : cb = .nc
        · simp [step, Pair.get, Pair.set, hc, hn] at hs; subst hs
          constructor <;> simp_all
        · simp [step, Pair.get, Pair.set, Pair.send, hc, hn] at hs; subst hs
          constructor <;> simp_all
      · simp [step, Pair.get, hc] at hs

/-- the invariant holds after every history, both role assignments -/
theorem inv_run : ∀ (ss : List Step) (p p' : Pair), Inv p → run p ss = some p' → Inv p'
  | [], p, p', h, hr => by simp [run] at hr; subst hr; exact h
  | s :: ss, p, p', h, hr => by
    simp only [run] at hr
    split at hr
    · rename_i q hq; exact inv_run ss q p' (inv_step p q s h hq) hr
    · simp at hr

end SecsModel.Proofs.Pair

namespace SecsModel.Proofs.Pair
open SecsModel.Model.Pair

theorem handle_comm (e : End) (m : Msg) (h1 : (handle e m).1.comm = .comm) (h0 : e.comm ≠ .comm) :
    e.conn = .sel ∧ e.comm = .wcra ∧ (m = .s1f13 ∨ m = .s1f14 true) := by
  obtain ⟨en, act, c, cm⟩ := e
  cases m with
  | selReq => cases c <;> cases cm <;> simp_all [handle, selected]
  | selRsp => cases c <;> cases cm <;> simp_all [handle, selected]
  | s1f13 => cases c <;> cases cm <;> simp_all [handle, handleData]
  | s1f14 ok => cases ok <;> cases c <;> cases cm <;> simp_all [handle, handleData]

/-- an endpoint becomes COMMUNICATING only by receiving, while SELECTED and in WAIT_CRA, an S1F13 (which it answers with
S1F14/COMMACK 0) or an S1F14 with COMMACK 0 — no timer, enable, link or other step can establish communication -/
theorem comm_only_by_exchange (p p' : Pair) (s : Step) (x : Side) (hs : step p s = some p')
    (h0 : (p.get x).comm ≠ .comm) (h1 : (p'.get x).comm = .comm) :
    s = .deliver x ∧ (p.get x).conn = .sel ∧ (p.get x).comm = .wcra
      ∧ ∃ m rest, p.inbox x = m :: rest ∧ (m = .s1f13 ∨ m = .s1f14 true) := by
  obtain ⟨⟨ena, acta, ca, ma⟩, ⟨enb, actb, cb, mb⟩, ab, ba⟩ := p
  cases s with
  | enable y =>
    cases y
    · by_cases he : ena = true
      · simp [step, Pair.get, he] at hs
      · simp [step, Pair.get, Pair.set, he] at hs; subst hs; cases x <;> simp_all [Pair.get]
    · by_cases he : enb = true
      · simp [step, Pair.get, he] at hs
      · simp [step, Pair.get, Pair.set, he] at hs; subst hs; cases x <;> simp_all [Pair.get]
  | disable y =>
    cases y
    · by_cases he : ena = true
      · by_cases hc : ca = .nc
        · simp [step, Pair.get, Pair.set, he, hc] at hs; subst hs; cases x <;> simp_all [Pair.get]
        · simp [step, Pair.get, Pair.set, he, hc, linkDown, closeEnd] at hs; subst hs
          cases x <;> simp_all [Pair.get] <;> (split at h1 <;> simp_all)
      · simp [step, Pair.get, he] at hs
    · by_cases he : enb = true
      · by_cases hc : cb = .nc
        · simp [step, Pair.get, Pair.set, he, hc] at hs; subst hs; cases x <;> simp_all [Pair.get]
        · simp [step, Pair.get, Pair.set, he, hc, linkDown, closeEnd] at hs; subst hs
          cases x <;> simp_all [Pair.get] <;> (split at h1 <;> simp_all)
      · simp [step, Pair.get, he] at hs
  | linkUp =>
    by_cases hc : (ena && enb && decide (ca = .nc) && decide (cb = .nc)) = true
    · cases acta <;> cases actb <;> simp [step, hc, Pair.send] at hs <;> subst hs <;> cases x <;> simp_all [Pair.get]
    · simp only [step, hc] at hs; simp at hs
  | linkDown =>
    by_cases hc : (decide (ca ≠ .nc) || decide (cb ≠ .nc)) = true
    · simp only [step, hc, linkDown, closeEnd] at hs
      simp at hs; subst hs
      cases x <;> simp_all [Pair.get] <;> (split at h1 <;> simp_all)
    · simp only [step, hc] at hs; simp at hs
  | deliver y =>
    cases y with
    | A =>
      simp only [step, Pair.inbox, Pair.get] at hs
      cases ba with
      | nil => simp at hs
      | cons m rest =>
        simp at hs; subst hs
        cases x with
        | A =>
          simp [Pair.get, Pair.popInbox, Pair.set, Pair.send] at h0 h1 ⊢
          have := handle_comm ⟨ena, acta, ca, ma⟩ m h1 h0
          simp at this
          exact ⟨this.1, this.2.1, by simp [Pair.inbox]; exact this.2.2⟩
        | B => simp [Pair.get, Pair.popInbox, Pair.set, Pair.send] at h0 h1; exact absurd h1 h0
    | B =>
      simp only [step, Pair.inbox, Pair.get] at hs
      cases ab with
      | nil => simp at hs
      | cons m rest =>
        simp at hs; subst hs
        cases x with
        | A => simp [Pair.get, Pair.popInbox, Pair.set, Pair.send] at h0 h1; exact absurd h1 h0
        | B =>
          simp [Pair.get, Pair.popInbox, Pair.set, Pair.send] at h0 h1 ⊢
          have := handle_comm ⟨enb, actb, cb, mb⟩ m h1 h0
          simp at this
          exact ⟨this.1, this.2.1, by simp [Pair.inbox]; exact this.2.2⟩
  | t3 y =>
    cases y
    · by_cases hc : ma = .wcra
      · simp [step, Pair.get, Pair.set, hc] at hs; subst hs; cases x <;> simp_all [Pair.get]
      · simp [step, Pair.get, hc] at hs
    · by_cases hc : mb = .wcra
      · simp [step, Pair.get, Pair.set, hc] at hs; subst hs; cases x <;> simp_all [Pair.get]
      · simp [step, Pair.get, hc] at hs
  | delay y =>
    cases y
    · by_cases hc : ma = .wdelay
      · by_cases hn : ca = .nc
        · simp [step, Pair.get, Pair.set, hc, hn] at hs; subst hs; cases x <;> simp_all [Pair.get]
        · simp [step, Pair.get, Pair.set, Pair.send, hc, hn] at hs; subst hs; cases x <;> simp_all [Pair.get]
      · simp [step, Pair.get, hc] at hs
    · by_cases hc : mb = .wdelay
      · by_cases hn : cb = .nc
        · simp [step, Pair.get, Pair.set, hc, hn] at hs; subst hs; cases x <;> simp_all [Pair.get]
        · simp [step, Pair.get, Pair.set, Pair.send, hc, hn] at hs; subst hs; cases x <;> simp_all [Pair.get]
      · simp [step, Pair.get, hc] at hs

end SecsModel.Proofs.Pair
