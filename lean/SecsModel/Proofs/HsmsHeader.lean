import SecsModel.Proofs.PyLemmas
import SecsModel.Gen.HsmsHeader
import SecsModel.Spec.E37Frame
/-! Proof obligations over the *generated* `Gen.HsmsHeader.encode/decode` (mirrors `Proofs/SecsIHeader.lean`). -/
namespace SecsModel.Proofs.HsmsHdr
open SecsModel SecsModel.Gen

/-- field ranges of SEMI E37 §8.2 on the generated (Python-`int`) header -/
structure InRange (h : HsmsHeader) : Prop where
  system : 0 ≤ h.system ∧ h.system < 2^32
  device : 0 ≤ h.device_id ∧ h.device_id < 2^16
  stream : 0 ≤ h.stream ∧ h.stream < 2^7
  function : 0 ≤ h.function ∧ h.function < 2^8
  ptype : 0 ≤ h.p_type ∧ h.p_type < 2^8
  stype : HsmsSType.valid h.s_type = true

instance (h : HsmsHeader) : Decidable (InRange h) :=
  if c : (0 ≤ h.system ∧ h.system < 2^32) ∧ (0 ≤ h.device_id ∧ h.device_id < 2^16) ∧ (0 ≤ h.stream ∧ h.stream < 2^7)
      ∧ (0 ≤ h.function ∧ h.function < 2^8) ∧ (0 ≤ h.p_type ∧ h.p_type < 2^8) ∧ HsmsSType.valid h.s_type = true
  then isTrue ⟨c.1, c.2.1, c.2.2.1, c.2.2.2.1, c.2.2.2.2.1, c.2.2.2.2.2⟩
  else isFalse (fun r => c ⟨r.system, r.device, r.stream, r.function, r.ptype, r.stype⟩)

/-- the E37 reading of a generated header -/
def toSpec (h : HsmsHeader) : Spec.E37.Hdr :=
  ⟨h.device_id.toNat, h.requires_response, h.stream.toNat, h.function.toNat, h.p_type.toNat, h.s_type.toNat, h.system.toNat⟩

/-- the generated header of an E37 header -/
def ofSpec (h : Spec.E37.Hdr) : HsmsHeader :=
  ⟨h.system, h.session, h.stream, h.function, h.w, h.ptype, h.stype⟩

/-- the SType enum extracted from the source is E37's list -/
theorem stypes_eq : HsmsSType.values = Spec.E37.stypes.map (fun (n : Nat) => (n : Int)) := by decide

theorem valid_nat (n : Nat) : HsmsSType.valid (n : Int) = true ↔ n ∈ Spec.E37.stypes := by
  simp only [HsmsSType.valid, HsmsSType.values, Spec.E37.stypes, List.contains_eq_mem, List.mem_cons, List.not_mem_nil,
    or_false, decide_eq_true_eq]
  omega

/-- a valid SType is one of nine small naturals -/
theorem valid_cases (x : Int) (h : HsmsSType.valid x = true) : ∃ n : Nat, x = (n : Int) ∧ n ∈ Spec.E37.stypes ∧ n < 256 := by
  simp only [HsmsSType.valid, HsmsSType.values, List.contains_eq_mem, List.mem_cons, List.not_mem_nil, or_false,
    decide_eq_true_eq] at h
  refine ⟨x.toNat, by omega, ?_, by omega⟩
  simp only [Spec.E37.stypes, List.mem_cons, List.not_mem_nil, or_false]
  omega

theorem inRange_toSpec (h : HsmsHeader) (hr : InRange h) : (toSpec h).InRange := by
  obtain ⟨⟨s0, s1⟩, ⟨d0, d1⟩, ⟨t0, t1⟩, ⟨f0, f1⟩, ⟨p0, p1⟩, sv⟩ := hr
  obtain ⟨n, hn, hm, _⟩ := valid_cases _ sv
  refine ⟨?_, ?_, ?_, ?_, ?_, ?_⟩ <;> simp only [toSpec]
  · omega
  · omega
  · omega
  · omega
  · rw [hn]; simpa using hm
  · omega

theorem inRange_ofSpec (h : Spec.E37.Hdr) (hr : h.InRange) : InRange (ofSpec h) := by
  obtain ⟨a, b, c, d, e, f⟩ := hr
  refine ⟨?_, ?_, ?_, ?_, ?_, ?_⟩ <;> simp only [ofSpec]
  · omega
  · omega
  · omega
  · omega
  · omega
  · exact (valid_nat _).mpr e

theorem toSpec_ofSpec (h : Spec.E37.Hdr) : toSpec (ofSpec h) = h := by
  cases h; simp [toSpec, ofSpec]

theorem bit7 (x : Nat) (h : x < 128) : x ||| 128 = x + 128 := Py.or_pow_of_lt x 7 h
theorem and_127 (x : Nat) : x &&& 127 = x % 128 := Py.and_mask x 7
theorem and_128_shr (x : Nat) : (x &&& 128) >>> 7 = x / 128 % 2 := by
  have : (128 : Nat) = 1 <<< 7 := by decide
  rw [this, Py.and_shl_shr, Nat.shiftRight_eq_div_pow]
  exact Py.and_mask _ 1

theorem bor7 (x : Nat) (h : x < 128) : Py.bor (x : Int) 128 = ((x + 128 : Nat) : Int) := by
  have : (128 : Int) = ((128 : Nat) : Int) := rfl
  rw [this, Py.bor_nat, bit7 x h]
theorem band127 (x : Nat) : Py.band (x : Int) 127 = ((x % 128 : Nat) : Int) := by
  have : (127 : Int) = ((127 : Nat) : Int) := rfl
  rw [this, Py.band_nat, and_127]
theorem bit7of (x : Nat) : Py.shr (Py.band (x : Int) 128) 7 = ((x / 128 % 2 : Nat) : Int) := by
  have h1 : (128 : Int) = ((128 : Nat) : Int) := rfl
  have h2 : (7 : Int) = ((7 : Nat) : Int) := rfl
  rw [h1, h2, Py.band_nat, Py.shr_nat, and_128_shr]

theorem dec_cast (n : Nat) : decide ((n : Int) = 1) = decide (n = 1) := decide_eq_decide.mpr (by omega)

/-- the ten bytes E37 prescribes, over naturals -/
def specBytes (sy dv st fn pt ty : Nat) (w : Bool) : Bytes :=
  be 2 dv ++ be 1 (st + (if w then 128 else 0)) ++ be 1 fn ++ be 1 pt ++ be 1 ty ++ be 4 sy

theorem specBytes_eq (h : Spec.E37.Hdr) :
    Spec.E37.headerBytes h = specBytes h.system h.session h.stream h.function h.ptype h.stype h.w := rfl

/-- `encode` on in-range naturals is the E37 byte layout (the SType only has to fit a byte here) -/
theorem encode_nat (sy dv st fn pt ty : Nat) (w : Bool)
    (hsy : sy < 2^32) (hdv : dv < 2^16) (hst : st < 2^7) (hfn : fn < 2^8) (hpt : pt < 2^8) (hty : ty < 2^8) :
    HsmsHeader.encode ⟨sy, dv, st, fn, w, pt, ty⟩ = .ok (specBytes sy dv st fn pt ty w) := by
  have e2 : (if w = true then Py.bor (st : Int) 128 else (st : Int)) = ((st + (if w then 128 else 0) : Nat) : Int) := by
    cases w
    · simp
    · simp only [if_true]; exact bor7 st hst
  simp only [HsmsHeader.encode, e2, specBytes]
  have p6 := Py.packBE_cons_nat 4 sy [] [] (by omega) rfl
  have p5 := Py.packBE_cons_nat 1 ty _ _ (by omega) p6
  have p4 := Py.packBE_cons_nat 1 pt _ _ (by omega) p5
  have p3 := Py.packBE_cons_nat 1 fn _ _ (by omega) p4
  have p2 := Py.packBE_cons_nat 1 (st + if w then 128 else 0) _ _ (by cases w <;> simp <;> omega) p3
  have p1 := Py.packBE_cons_nat 2 dv _ _ (by omega) p2
  rw [p1]; simp

/-- `decode` of any six unpacked fields, as div/mod arithmetic, with the SType check -/
theorem decode_fields (bs : Bytes) (v0 v1 v2 v3 v4 v5 : Nat)
    (h : Py.unpackBE [2, 1, 1, 1, 1, 4] bs = .ok [(v0 : Int), (v1 : Int), (v2 : Int), (v3 : Int), (v4 : Int), (v5 : Int)]) :
    HsmsHeader.decode bs = if HsmsSType.valid (v4 : Int) then
        .ok ⟨v5, v0, ((v1 % 128 : Nat) : Int), v2, decide (v1 / 128 % 2 = 1), v3, v4⟩ else .error .valueError := by
  simp only [HsmsHeader.decode, h, band127, bit7of]
  rw [dec_cast]

theorem decode_spec (sy dv st fn pt ty : Nat) (w : Bool)
    (hsy : sy < 2^32) (hdv : dv < 2^16) (hst : st < 2^7) (hfn : fn < 2^8) (hpt : pt < 2^8) (hty : ty < 2^8) :
    HsmsHeader.decode (specBytes sy dv st fn pt ty w) =
      if HsmsSType.valid (ty : Int) then .ok ⟨sy, dv, st, fn, w, pt, ty⟩ else .error .valueError := by
  have p6 := Py.packBE_cons_nat 4 sy [] [] (by omega) rfl
  have p5 := Py.packBE_cons_nat 1 ty _ _ (by omega) p6
  have p4 := Py.packBE_cons_nat 1 pt _ _ (by omega) p5
  have p3 := Py.packBE_cons_nat 1 fn _ _ (by omega) p4
  have p2 := Py.packBE_cons_nat 1 (st + if w then 128 else 0) _ _ (by cases w <;> simp <;> omega) p3
  have p1 := Py.packBE_cons_nat 2 dv _ _ (by omega) p2
  have u := Py.unpackBE_packBE _ _ p1
  simp only [List.map_cons, List.map_nil] at u
  have hb : specBytes sy dv st fn pt ty w =
      be 2 dv ++ (be 1 (st + if w then 128 else 0) ++ (be 1 fn ++ (be 1 pt ++ (be 1 ty ++ (be 4 sy ++ []))))) := by
    simp only [specBytes, List.append_assoc, List.append_nil]
  rw [hb, decode_fields _ _ _ _ _ _ _ u]
  have a2 : (st + if w then 128 else 0) % 128 = st := by cases w <;> simp <;> omega
  have b2 : decide ((st + if w then 128 else 0) / 128 % 2 = 1) = w := by cases w <;> simp <;> omega
  rw [a2, b2]

/-- **layout**: for every in-range header the generated `encode` yields exactly E37's ten bytes -/
theorem encode_layout (h : HsmsHeader) (hr : InRange h) : h.encode = .ok (Spec.E37.headerBytes (toSpec h)) := by
  obtain ⟨sy, dv, st, fn, w, pt, ty⟩ := h
  obtain ⟨⟨s0, s1⟩, ⟨d0, d1⟩, ⟨t0, t1⟩, ⟨f0, f1⟩, ⟨p0, p1⟩, sv⟩ := hr
  simp only at s0 s1 d0 d1 t0 t1 f0 f1 p0 p1 sv
  obtain ⟨ty, rfl, _, hty⟩ := valid_cases _ sv
  obtain ⟨sy, rfl⟩ := Int.eq_ofNat_of_zero_le s0
  obtain ⟨dv, rfl⟩ := Int.eq_ofNat_of_zero_le d0
  obtain ⟨st, rfl⟩ := Int.eq_ofNat_of_zero_le t0
  obtain ⟨fn, rfl⟩ := Int.eq_ofNat_of_zero_le f0
  obtain ⟨pt, rfl⟩ := Int.eq_ofNat_of_zero_le p0
  rw [encode_nat sy dv st fn pt ty w (by omega) (by omega) (by omega) (by omega) (by omega) (by omega)]
  simp [specBytes_eq, toSpec]

/-- **round trip**: the generated `decode` recovers every field of every in-range header from E37's bytes -/
theorem decode_layout (h : HsmsHeader) (hr : InRange h) : HsmsHeader.decode (Spec.E37.headerBytes (toSpec h)) = .ok h := by
  obtain ⟨sy, dv, st, fn, w, pt, ty⟩ := h
  obtain ⟨⟨s0, s1⟩, ⟨d0, d1⟩, ⟨t0, t1⟩, ⟨f0, f1⟩, ⟨p0, p1⟩, sv⟩ := hr
  simp only at s0 s1 d0 d1 t0 t1 f0 f1 p0 p1 sv
  obtain ⟨ty, rfl, _, hty⟩ := valid_cases _ sv
  obtain ⟨sy, rfl⟩ := Int.eq_ofNat_of_zero_le s0
  obtain ⟨dv, rfl⟩ := Int.eq_ofNat_of_zero_le d0
  obtain ⟨st, rfl⟩ := Int.eq_ofNat_of_zero_le t0
  obtain ⟨fn, rfl⟩ := Int.eq_ofNat_of_zero_le f0
  obtain ⟨pt, rfl⟩ := Int.eq_ofNat_of_zero_le p0
  have := decode_spec sy dv st fn pt ty w (by omega) (by omega) (by omega) (by omega) (by omega) (by omega)
  rw [sv] at this
  simpa [specBytes_eq, toSpec] using this

end SecsModel.Proofs.HsmsHdr
