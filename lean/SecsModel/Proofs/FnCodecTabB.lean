import SecsModel.Proofs.FnCodecTabA
/-! C03b table obligation, second half of the class table. -/
namespace SecsModel.Proofs.FnCodecTab
open SecsModel SecsModel.Gen.Catalogue SecsModel.Model.Fn

theorem struct2 : py2.all structOk = true := by decide +kernel
theorem struct3 : py3.all structOk = true := by decide +kernel

end SecsModel.Proofs.FnCodecTab
