import SecsModel.Proofs.SecsILine
/-! Consequences of the stage invariant: completion determines everything, prefixes, progress (C17). -/
namespace SecsModel.Proofs.SecsILine
open SecsModel SecsModel.Model.SecsI SecsModel.Model.SecsILine

/-- what the peer must have received / the line must show / `send_message` must return once the call has returned -/
def Ctx.expectDelivered (ctx : Ctx) : List Block :=
  match ctx.bad with | none => ctx.pairs.map (·.2) | some (j, _, _) => (ctx.pairs.take j).map (·.2)
def Ctx.expectLog (ctx : Ctx) : List (Bool × Bytes) :=
  match ctx.bad with
  | none => transcript (ctx.pairs.map (·.1))
  | some (j, _, _) => transcript ((ctx.pairs.take j).map (·.1)) ++ (match ctx.pairs[j]? with | some (enc, _) => cycle enc false | none => [])
def Ctx.expectOutcome (ctx : Ctx) : Bool := ctx.bad.isNone

/-- once `send_message` has returned, everything is determined — whatever the schedule (chunking, thread interleaving) was -/
theorem inv_complete (ctx : Ctx) (hbad : BadOK ctx) (s : State) (ok : Bool) (hinv : Inv ctx s) (hfin : s.a.app = .fin ok) :
    ok = ctx.expectOutcome ∧ s.b.delivered = ctx.expectDelivered ∧ s.log = ctx.expectLog
      ∧ s.ab = [] ∧ s.ba = [] ∧ s.a.rxbuf = [] ∧ s.b.rxbuf = [] := by
  obtain ⟨done, todo, hc, hst⟩ := hinv
  cases hst
  case s0 happ _ _ _ _ _ _ _ _ _ _ _ => rw [happ] at hfin; cases hfin
  case s1 happ _ _ _ _ _ _ _ _ _ _ _ _ _ => rw [happ] at hfin; cases hfin
  case s2 happ _ _ _ _ _ _ _ _ _ _ _ => rw [happ] at hfin; cases hfin
  case s3 happ _ _ _ _ _ _ _ _ _ _ _ => rw [happ] at hfin; cases hfin
  case s4 happ _ _ _ _ _ _ _ _ _ _ _ => rw [happ] at hfin; cases hfin
  case s5 happ _ _ _ _ _ _ _ _ _ _ _ => rw [happ] at hfin; cases hfin
  case s6 happ _ _ _ _ _ _ _ _ _ _ _ _ => rw [happ] at hfin; cases hfin
  case finOk htodo happ hq hpa hpb harx hba hbrx hab hdel hlog hnp =>
    rw [happ] at hfin; cases hfin
    subst htodo
    have hsplit : ctx.pairs = done := by rw [hc.split]; simp
    unfold Ctx.expectOutcome Ctx.expectDelivered Ctx.expectLog
    cases hb : ctx.bad with
    | none => simp [hsplit, hdel, hlog, hab, hba, harx, hbrx]
    | some b =>
      obtain ⟨j, t, v⟩ := b
      obtain ⟨enc, blk, hg, _⟩ := hbad j t v hb
      have hj : j < ctx.pairs.length := by
        have := List.getElem?_eq_some_iff.mp hg; exact this.1
      have := hnp j t v hb
      rw [hsplit] at hj; omega
  case finBad enc blk rest htodo hb happ hq hpa hpb harx hba hbrx hab hdel hlog =>
    rw [happ] at hfin; cases hfin
    unfold Ctx.expectOutcome Ctx.expectDelivered Ctx.expectLog
    unfold Ctx.isBad at hb
    cases hbd : ctx.bad with
    | none => simp [hbd] at hb
    | some b =>
      obtain ⟨j, t, v⟩ := b
      simp only [hbd, decide_eq_true_eq] at hb
      subst hb
      have h1 : ctx.pairs.take done.length = done := by rw [hc.split]; simp
      have h2 : ctx.pairs[done.length]? = some (enc, blk) := by rw [hc.split, htodo]; simp
      simp [h1, h2, hdel, hlog, hab, hba, harx, hbrx]

/-- what the peer has received is always an initial part of what it must receive; the faulty block is never part of it -/
theorem inv_delivered_prefix (ctx : Ctx) (s : State) (hinv : Inv ctx s) :
    ∃ m, s.b.delivered = (ctx.pairs.map (·.2)).take m ∧ (∀ j t v, ctx.bad = some (j, t, v) → m ≤ j) := by
  obtain ⟨done, todo, hc, hst⟩ := hinv
  have hd : done.map (·.2) = (ctx.pairs.map (·.2)).take done.length := by rw [hc.split]; simp
  have hbadlen : ∀ j t v, ctx.bad = some (j, t, v) → ctx.isBad done.length = true → done.length = j := by
    intro j t v hb hi; simpa [Ctx.isBad, hb] using hi
  have plus : ∀ enc blk rest, todo = (enc, blk) :: rest → ctx.notPast done.length →
      s.b.delivered = done.map (·.2) ++ (if ctx.isBad done.length then [] else [blk]) →
      ∃ m, s.b.delivered = (ctx.pairs.map (·.2)).take m ∧ (∀ j t v, ctx.bad = some (j, t, v) → m ≤ j) := by
    intro enc blk rest htodo hnp hdel
    cases hib : ctx.isBad done.length with
    | true => exact ⟨done.length, by rw [hdel, hib, hd]; simp, fun j t v hb => hnp j t v hb⟩
    | false =>
      refine ⟨done.length + 1, ?_, ?_⟩
      · rw [hdel, hib, hc.split, htodo]; simp [List.take_append]; rw [List.take_of_length_le (by simp)]
      · intro j t v hb
        have := hnp j t v hb
        have hne : done.length ≠ j := by intro he; simp [Ctx.isBad, hb, he] at hib
        omega
  cases hst
  case s0 hdel _ _ hnp => exact ⟨done.length, by rw [hdel, hd], fun j t v hb => hnp j t v hb⟩
  case s1 hdel _ _ hnp => exact ⟨done.length, by rw [hdel, hd], fun j t v hb => hnp j t v hb⟩
  case s2 hdel _ _ hnp => exact ⟨done.length, by rw [hdel, hd], fun j t v hb => hnp j t v hb⟩
  case s3 hdel _ _ hnp => exact ⟨done.length, by rw [hdel, hd], fun j t v hb => hnp j t v hb⟩
  case s4 hdel _ _ hnp => exact ⟨done.length, by rw [hdel, hd], fun j t v hb => hnp j t v hb⟩
  case s5 enc blk rest htodo _ _ _ _ _ _ _ _ hdel _ _ hnp => exact plus enc blk rest htodo hnp hdel
  case s6 enc blk rest htodo _ _ _ _ _ _ _ _ _ hdel _ _ hnp => exact plus enc blk rest htodo hnp hdel
  case finOk hdel _ hnp => exact ⟨done.length, by rw [hdel, hd], fun j t v hb => hnp j t v hb⟩
  case finBad enc blk rest htodo hb _ _ _ _ _ _ _ _ hdel _ =>
    exact ⟨done.length, by rw [hdel, hd], fun j t v hbj => by have := hbadlen j t v hbj hb; omega⟩


/-- **never wedged**: as long as `send_message` has not returned, some thread can move or some bytes can be delivered -/
theorem inv_progress (ctx : Ctx) (hfr : ∀ p ∈ ctx.pairs, Framed p.1 p.2) (hbad : BadOK ctx) (s : State) (hinv : Inv ctx s)
    (hrun : ∀ ok, s.a.app ≠ .fin ok) : ∃ l s', step s l = some s' := by
  obtain ⟨done, todo, hc, hst⟩ := hinv
  have dlvB : s.ab ≠ [] → ∃ l s', step s l = some s' := by
    intro h
    have : 0 < s.ab.length := List.length_pos_iff.mpr h
    exact ⟨.dlv false s.ab.length, _, by simp only [step]; rw [if_pos ⟨this, Nat.le_refl _⟩]⟩
  have dlvA : s.ba ≠ [] → ∃ l s', step s l = some s' := by
    intro h
    have : 0 < s.ba.length := List.length_pos_iff.mpr h
    exact ⟨.dlv true s.ba.length, _, by simp only [step]; rw [if_pos ⟨this, Nat.le_refl _⟩]⟩
  have thrA : (∃ r, thrStep s.a = some r) → ∃ l s', step s l = some s' := by
    intro ⟨r, h⟩; exact ⟨.thr true, _, by simp only [step, h]; rfl⟩
  have thrB : (∃ r, thrStep s.b = some r) → ∃ l s', step s l = some s' := by
    intro ⟨r, h⟩; exact ⟨.thr false, _, by simp only [step, h]; rfl⟩
  have appA : (∃ r, appStep s.a = some r) → ∃ l s', step s l = some s' := by
    intro ⟨r, h⟩; exact ⟨.app true, _, by simp only [step, h]; rfl⟩
  cases hst
  case finOk _ happ _ _ _ _ _ _ _ _ _ _ => exact absurd happ (hrun true)
  case finBad _ _ _ _ _ happ _ _ _ _ _ _ _ _ _ => exact absurd happ (hrun false)
  case s0 happ _ _ _ _ _ _ _ _ _ _ _ =>
    cases todo with
    | nil => exact appA (by simp only [appStep, happ, List.map_nil]; exact ⟨_, rfl⟩)
    | cons p rest => exact appA (by simp only [appStep, happ, List.map_cons]; exact ⟨_, rfl⟩)
  case s6 enc blk rest htodo happ hq hslot _ _ _ _ _ _ _ _ _ _ =>
    cases hib : (!ctx.isBad done.length) with
    | true => exact appA (by simp only [appStep, happ, hslot, hib]; exact ⟨_, rfl⟩)
    | false => exact appA (by simp only [appStep, happ, hslot, hib]; exact ⟨_, rfl⟩)
  case s1 enc blk rest htodo happ hq hslot hpa hatrig _ harx _ _ _ _ _ _ _ =>
    rcases hpa with hpa | hpa | hpa
    · have ht : s.a.trig = true := by rcases hatrig with h' | h'; (rw [hpa] at h'; cases h'); exact h'
      exact thrA (by simp only [thrStep, hpa, ht, if_true]; exact ⟨_, rfl⟩)
    · exact thrA (by simp only [thrStep, hpa, hq]; exact ⟨_, rfl⟩)
    · exact thrA (by simp only [thrStep, hpa, harx]; exact ⟨_, rfl⟩)
  case s2 enc blk rest htodo happ hq hslot hpa hpb harx hba hpend _ _ _ _ =>
    by_cases hab : s.ab = []
    · rw [hab, List.append_nil] at hpend
      have hbq := hc.bq
      rcases hpb with hpb | hpb | hpb
      · have ht := hc.btrig hpb (by rw [hpend]; simp)
        exact thrB (by simp only [thrStep, hpb, ht, if_true]; exact ⟨_, rfl⟩)
      · exact thrB (by simp only [thrStep, hpb, hbq]; exact ⟨_, rfl⟩)
      · exact thrB (by simp only [thrStep, hpb, hpend]; exact ⟨_, rfl⟩)
    · exact dlvB hab
  case s3 enc blk rest htodo happ hq hslot hpa hpb hpend _ _ _ _ _ _ =>
    by_cases hba : s.ba = []
    · rw [hba, List.append_nil] at hpend
      have : ¬ ((EOT : Nat) = ENQ ∧ s.a.host = true) := fun hh => eot_ne_enq hh.1
      exact thrA (by simp only [thrStep, hpa, hpend, hq, this, if_false]; exact ⟨_, rfl⟩)
    · exact dlvA hba
  case s5 enc blk rest htodo happ hq hslot hpa hpb hpend _ _ _ _ _ _ =>
    by_cases hba : s.ba = []
    · rw [hba, List.append_nil] at hpend
      exact thrA (by simp only [thrStep, hpa, hpend]; exact ⟨_, rfl⟩)
    · exact dlvA hba
  case s4 enc blk rest htodo happ hq hslot hpa hpb harx hba hpend _ _ _ _ =>
    by_cases hab : s.ab = []
    · rw [hab, List.append_nil] at hpend
      have hfe : Framed enc blk := hfr (enc, blk) (by rw [hc.split, htodo]; simp)
      obtain ⟨l, r, hw, hlen, hdec⟩ := wire_framed ctx hbad done rest enc blk (by rw [hc.split, htodo]) hfe
      rw [hw] at hpend hdec
      have hnl : ¬ ((l :: r).length < l + 3) := by simp only [List.length_cons]; omega
      have htake : (l :: r).take (l + 3) = l :: r := List.take_of_length_le (by simp only [List.length_cons]; omega)
      cases hib : ctx.isBad done.length with
      | true => exact thrB (by simp only [thrStep, hpb, hpend, hnl, if_false, htake, hdec, hib, if_true]; exact ⟨_, rfl⟩)
      | false => exact thrB (by simp only [thrStep, hpb, hpend, hnl, if_false, htake, hdec, hib]; exact ⟨_, rfl⟩)
    · exact dlvB hab

end SecsModel.Proofs.SecsILine
