import SecsModel.Proofs.SecsI
/-!
Reassembly (`Protocol._add_message_block`) is *local in the system bytes*: what happens to the blocks of one transaction
depends only on the blocks of that transaction, however they are interleaved with others.
-/
namespace SecsModel.Proofs.SecsIReasm
open SecsModel SecsModel.Gen SecsModel.Model.SecsI SecsModel.Proofs.SecsIHdr SecsModel.Proofs.SecsI

def keyOf (b : Block) : Int := b.header.system

/-! ### the association list -/

theorem lookup_nil (k : Int) : Pending.lookup [] k = none := rfl

theorem lookup_cons (e : Int × Message) (p : Pending) (k : Int) :
    Pending.lookup (e :: p) k = if e.1 == k then some e.2 else Pending.lookup p k := by
  unfold Pending.lookup
  simp only [List.find?_cons]
  split <;> simp_all

theorem lookup_erase_self (p : Pending) (k : Int) : (Pending.erase p k).lookup k = none := by
  induction p with
  | nil => rfl
  | cons e p ih =>
    unfold Pending.erase at ih ⊢
    simp only [List.filter_cons]
    by_cases h : e.1 == k
    · simp [h, ih]
    · simp only [h, Bool.not_false, if_true]
      rw [lookup_cons]; simp [h, ih]

theorem lookup_erase_ne (p : Pending) (k k' : Int) (hne : k' ≠ k) : (Pending.erase p k).lookup k' = p.lookup k' := by
  induction p with
  | nil => rfl
  | cons e p ih =>
    unfold Pending.erase at ih ⊢
    simp only [List.filter_cons]
    by_cases h : e.1 == k
    · have : ¬ (e.1 == k') = true := by
        intro h'; apply hne
        have a := eq_of_beq h; have b := eq_of_beq h'; omega
      simp only [h, Bool.not_true, Bool.false_eq_true, if_false]
      rw [ih, lookup_cons]; simp [this]
    · simp only [h, Bool.not_false, if_true]
      rw [lookup_cons, lookup_cons, ih]

theorem any_iff_lookup (p : Pending) (k : Int) : p.any (·.1 == k) = (p.lookup k).isSome := by
  induction p with
  | nil => rfl
  | cons e p ih =>
    rw [lookup_cons]; simp only [List.any_cons]
    by_cases h : e.1 == k <;> simp [h, ih]

theorem lookup_map_set (p : Pending) (k : Int) (m : Message) (k' : Int) :
    Pending.lookup (p.map (fun e => if e.1 == k then (k, m) else e)) k' =
      if k' = k then (if (p.lookup k).isSome then some m else none) else p.lookup k' := by
  induction p with
  | nil => simp [lookup_nil]
  | cons e p ih =>
    simp only [List.map_cons, lookup_cons, ih]
    by_cases h : e.1 == k
    · have hk : e.1 = k := eq_of_beq h
      by_cases h' : k' = k
      · subst h'; simp [h]
      · have h2 : ¬ ((e.1 == k') = true) := by intro c; apply h'; have := eq_of_beq c; omega
        have h3 : ¬ ((k == k') = true) := by intro c; exact h' (eq_of_beq c).symm
        simp [h, h', h2, h3]
    · by_cases h' : k' = k
      · subst h'; simp [h]
      · simp [h, h']

theorem lookup_append_single (p : Pending) (k : Int) (m : Message) (k' : Int) :
    Pending.lookup (p ++ [(k, m)]) k' = match p.lookup k' with | some x => some x | none => if k == k' then some m else none := by
  induction p with
  | nil => simp [lookup_cons, lookup_nil]
  | cons e p ih =>
    simp only [List.cons_append]
    rw [lookup_cons, lookup_cons, ih]
    by_cases h : e.1 == k' <;> simp [h]

theorem lookup_set_self (p : Pending) (k : Int) (m : Message) : (Pending.set p k m).lookup k = some m := by
  unfold Pending.set
  rw [any_iff_lookup]
  by_cases h : (p.lookup k).isSome
  · simp only [h, if_true]
    rw [lookup_map_set]; simp [h]
  · simp only [h, Bool.false_eq_true, if_false]
    rw [lookup_append_single]
    have : p.lookup k = none := by simpa using h
    simp [this]

theorem lookup_set_ne (p : Pending) (k k' : Int) (m : Message) (hne : k' ≠ k) : (Pending.set p k m).lookup k' = p.lookup k' := by
  unfold Pending.set
  by_cases h : p.any (·.1 == k)
  · simp only [h, if_true]
    rw [lookup_map_set]; simp [hne]
  · simp only [h, Bool.false_eq_true, if_false]
    rw [lookup_append_single]
    have : ¬ ((k == k') = true) := by intro c; exact hne (eq_of_beq c).symm
    cases p.lookup k' <;> simp [this]

/-! ### one key at a time -/

/-- what `_add_message_block` does to the entry of one key -/
def stepK (st : Option Message) (b : Block) : Option Message × Option Message :=
  if (extend st b).complete then (none, some (extend st b)) else (some (extend st b), none)

def runK : Option Message → List Block → Option Message × List Message
  | st, [] => (st, [])
  | st, b :: bs => ((runK (stepK st b).1 bs).1, (stepK st b).2.toList ++ (runK (stepK st b).1 bs).2)

/-- `reassemble` with every completed message tagged by the system bytes of the block that completed it -/
def reassembleK : Pending → List Block → Pending × List (Int × Message)
  | p, [] => (p, [])
  | p, b :: bs =>
    ((reassembleK (addBlock p b).1 bs).1,
     (match (addBlock p b).2 with | some m => [(keyOf b, m)] | none => []) ++ (reassembleK (addBlock p b).1 bs).2)

theorem reassembleK_fst : ∀ (bs : List Block) (p : Pending), (reassembleK p bs).1 = (reassemble p bs).1
  | [], _ => rfl
  | b :: bs, p => by simp only [reassembleK, reassemble]; exact reassembleK_fst bs _

theorem reassembleK_snd : ∀ (bs : List Block) (p : Pending), (reassembleK p bs).2.map (·.2) = (reassemble p bs).2
  | [], _ => rfl
  | b :: bs, p => by
    simp only [reassembleK, reassemble, List.map_append, reassembleK_snd bs]
    cases (addBlock p b).2 <;> rfl

theorem addBlock_eq (p : Pending) (b : Block) :
    addBlock p b = (match (stepK (p.lookup (keyOf b)) b).1 with
                    | none => p.erase (keyOf b)
                    | some m => p.set (keyOf b) m, (stepK (p.lookup (keyOf b)) b).2) := by
  unfold addBlock stepK keyOf
  by_cases hc : (extend (p.lookup b.header.system) b).complete <;> simp [hc]

theorem addBlock_lookup_self (p : Pending) (b : Block) :
    (addBlock p b).1.lookup (keyOf b) = (stepK (p.lookup (keyOf b)) b).1 := by
  rw [addBlock_eq]
  cases h : (stepK (p.lookup (keyOf b)) b).1 with
  | none => exact lookup_erase_self _ _
  | some m => exact lookup_set_self _ _ _

theorem addBlock_lookup_ne (p : Pending) (b : Block) (k : Int) (hne : k ≠ keyOf b) :
    (addBlock p b).1.lookup k = p.lookup k := by
  rw [addBlock_eq]
  cases h : (stepK (p.lookup (keyOf b)) b).1 with
  | none => exact lookup_erase_ne _ _ _ hne
  | some m => exact lookup_set_ne _ _ _ _ hne

/-- **Locality.**  For every key `k`, the entry of `k` and the messages completed under `k` depend only on the sub-sequence
of blocks carrying `k` — for every interleaving with other transactions. -/
theorem reassemble_local : ∀ (bs : List Block) (p : Pending) (k : Int),
    ((reassembleK p bs).1.lookup k, ((reassembleK p bs).2.filter (·.1 == k)).map (·.2))
      = runK (p.lookup k) (bs.filter (keyOf · == k))
  | [], p, k => rfl
  | b :: bs, p, k => by
    have ih := reassemble_local bs (addBlock p b).1 k
    by_cases hk : keyOf b == k
    · have hk' : keyOf b = k := eq_of_beq hk
      simp only [reassembleK, List.filter_cons, hk, if_true, runK]
      rw [← hk'] at ih ⊢
      rw [addBlock_lookup_self] at ih
      have e2 : (addBlock p b).2 = (stepK (p.lookup (keyOf b)) b).2 := by rw [addBlock_eq]
      rw [e2]
      have ih1 := congrArg Prod.fst ih
      have ih2 := congrArg Prod.snd ih
      simp only at ih1 ih2
      rw [Prod.mk.injEq]
      refine ⟨ih1, ?_⟩
      rw [List.filter_append, List.map_append, ih2]
      congr 1
      cases (stepK (p.lookup (keyOf b)) b).2 <;> simp
    · have hne : k ≠ keyOf b := by intro c; apply hk; rw [c]; exact beq_self_eq_true _
      simp only [reassembleK, List.filter_cons, hk, Bool.false_eq_true, if_false]
      rw [addBlock_lookup_ne p b k hne] at ih
      rw [← ih, Prod.mk.injEq]
      refine ⟨rfl, ?_⟩
      rw [List.filter_append]
      have : (match (addBlock p b).2 with | some m => [(keyOf b, m)] | none => []).filter (fun (x : Int × Message) => x.1 == k) = [] := by
        cases (addBlock p b).2 <;> simp [hk]
      rw [this, List.nil_append]

/-! ### one transaction -/

/-- feeding the remaining blocks `suf` of a transaction whose blocks so far are `pre`: nothing completes before the block with
the end bit, and that block completes exactly `pre ++ suf` -/
theorem runK_some : ∀ (suf : List Block) (pre : Message) (hpre : pre ≠ [])
    (hflags : ∀ j (hj : j < suf.length), suf[j].header.last_block = decide (j + 1 = suf.length)),
    runK (some pre) suf = if suf = [] then (some pre, []) else (none, [pre ++ suf])
  | [], pre, _, _ => rfl
  | b :: suf, pre, hpre, hflags => by
    have hb : b.header.last_block = decide (1 = (b :: suf).length) := hflags 0 (by simp)
    have hcomp : Message.complete (pre ++ [b]) = b.header.last_block := by
      unfold Message.complete
      simp
    simp only [runK, stepK, extend, hcomp]
    by_cases hs : suf = []
    · subst hs
      have : b.header.last_block = true := by rw [hb]; simp
      simp [this, runK]
    · have hlen : 0 < suf.length := List.length_pos_iff.mpr hs
      have : b.header.last_block = false := by rw [hb]; simp; omega
      simp only [this, Bool.false_eq_true, if_false, Option.toList_none, List.nil_append]
      have ih := runK_some suf (pre ++ [b]) (by simp) (by
        intro j hj
        have := hflags (j + 1) (by simp; omega)
        simpa using this)
      rw [ih]
      simp [hs]

/-- `from_block` of a first block that already is numbered 1 and fits one block is that block -/
theorem split_first (hd : Header) (data : Bytes) (h1 : hd.block = 1) (hlen : data.length ≤ 244) :
    split hd data false = [⟨hd, data⟩] := by
  rw [split_eq_c, dataBlocks_small data hlen]
  simp only [number, List.length_cons, List.length_nil]
  congr 1
  cases hd
  simp at h1
  simp [h1]

/-- the blocks of one message, fed alone, come back as exactly that message -/
theorem runK_split (h : Header) (body : Bytes) : runK none (split h body) = (none, [split h body]) := by
  obtain ⟨_, hlen, hle, hhdr⟩ := split_facts h body
  generalize hS : split h body = S at *
  match S, hlen with
  | [], hlen => simp at hlen; omega
  | b0 :: rest, _ =>
    have h0 := hhdr 0 (by simp)
    simp only [List.getElem?_cons_zero, Option.map_some, Option.some.injEq] at h0
    have hb1 : b0.header.block = 1 := by rw [h0]; rfl
    have hl0 : b0.header.last_block = decide (0 + 1 = (b0 :: rest).length) := by rw [h0]
    have hd0 : b0.data.length ≤ 244 := hle b0 (by simp)
    have hsf : split b0.header b0.data false = [b0] := split_first b0.header b0.data hb1 hd0
    have hcomp : Message.complete [b0] = b0.header.last_block := by unfold Message.complete; simp
    simp only [runK, stepK, extend, hsf, hcomp]
    by_cases hr : rest = []
    · subst hr
      have : b0.header.last_block = true := by rw [hl0]; simp
      simp [this, runK]
    · have hpos : 0 < rest.length := List.length_pos_iff.mpr hr
      have : b0.header.last_block = false := by rw [hl0]; simp; omega
      simp only [this, Bool.false_eq_true, if_false, Option.toList_none, List.nil_append]
      have hflags : ∀ j (hj : j < rest.length), rest[j].header.last_block = decide (j + 1 = rest.length) := by
        intro j hj
        have := hhdr (j + 1) (by simp; omega)
        simp only [List.getElem?_cons_succ, List.getElem?_eq_getElem hj, Option.map_some, Option.some.injEq] at this
        rw [this]
        simp
      rw [runK_some rest [b0] (by simp) hflags]
      simp [hr]

end SecsModel.Proofs.SecsIReasm

namespace SecsModel.Proofs.SecsIReasm
open SecsModel SecsModel.Gen SecsModel.Model.SecsI SecsModel.Proofs.SecsIHdr SecsModel.Proofs.SecsI

/-- `bs` is an interleaving of the block lists `ls`: repeatedly take the next block of some list -/
inductive Interleaving : List (List Block) → List Block → Prop
  | done (ls : List (List Block)) : (∀ l ∈ ls, l = []) → Interleaving ls []
  | step (ls : List (List Block)) (i : Nat) (b : Block) (rest : List Block) (bs : List Block) :
      ls[i]? = some (b :: rest) → Interleaving (ls.set i rest) bs → Interleaving ls (b :: bs)

/-- projecting an interleaving on the key of one of its lists gives that list back, when the keys are pairwise distinct -/
theorem filter_interleaving (ks : List Int) (hnd : ks.Nodup) :
    ∀ (ls : List (List Block)) (bs : List Block), Interleaving ls bs → ls.length = ks.length →
      (∀ i (hi : i < ls.length) (hk : i < ks.length), ∀ b ∈ ls[i], keyOf b = ks[i]) →
      ∀ i (hi : i < ls.length) (hk : i < ks.length), bs.filter (keyOf · == ks[i]) = ls[i] := by
  intro ls bs hI
  induction hI with
  | done ls hall =>
    intro _ _ i hi _
    simp only [List.filter_nil]
    exact (hall _ (List.getElem_mem hi)).symm
  | step ls j b rest bs hj _ ih =>
    intro hlen hkeys i hi hk
    have hjlt : j < ls.length := by
      rcases Nat.lt_or_ge j ls.length with h | h
      · exact h
      · rw [List.getElem?_eq_none h] at hj; cases hj
    have hlj : ls[j] = b :: rest := by
      rw [List.getElem?_eq_getElem hjlt] at hj; exact Option.some.inj hj
    have hlen' : (ls.set j rest).length = ks.length := by simp [hlen]
    have hkeys' : ∀ i (hi : i < (ls.set j rest).length) (hk : i < ks.length), ∀ b ∈ (ls.set j rest)[i], keyOf b = ks[i] := by
      intro i' hi' hk' b' hb'
      have hi'' : i' < ls.length := by simpa using hi'
      by_cases hij : j = i'
      · subst hij
        rw [List.getElem_set_self] at hb'
        exact hkeys j hi'' hk' b' (by rw [hlj]; exact List.mem_cons_of_mem _ hb')
      · rw [List.getElem_set_ne hij] at hb'
        exact hkeys i' hi'' hk' b' hb'
    have ih' := ih hlen' hkeys' i (by simpa using hi) hk
    have hjk : j < ks.length := by omega
    have hbkey : keyOf b = ks[j] := hkeys j hjlt hjk b (by rw [hlj]; exact List.mem_cons_self)
    simp only [List.filter_cons]
    by_cases hij : j = i
    · subst hij
      rw [List.getElem_set_self] at ih'
      have : (keyOf b == ks[j]) = true := by rw [hbkey]; exact beq_self_eq_true _
      rw [if_pos this, ih', hlj]
    · rw [List.getElem_set_ne hij] at ih'
      have : ¬ ((keyOf b == ks[i]) = true) := by
        intro c
        have e : ks[j] = ks[i] := by rw [← hbkey]; exact eq_of_beq c
        exact hij ((List.getElem_inj (h₀ := hjk) (h₁ := hk) hnd).mp e)
      rw [if_neg this, ih']

end SecsModel.Proofs.SecsIReasm

namespace SecsModel.Proofs.SecsIReasm
open SecsModel SecsModel.Gen SecsModel.Model.SecsI SecsModel.Proofs.SecsIHdr SecsModel.Proofs.SecsI

theorem number_system (h : Header) (c : Bool) (t : Nat) : ∀ (i : Nat) (ds : List Bytes),
    ∀ b ∈ number h c t i ds, b.header.system = h.system
  | _, [], b, hb => by simp [number] at hb
  | i, d :: ds, b, hb => by
    simp only [number, List.mem_cons] at hb
    rcases hb with hb | hb
    · rw [hb]
    · exact number_system h c t (i + 1) ds b hb

theorem split_system (h : Header) (body : Bytes) : ∀ b ∈ split h body, keyOf b = h.system := by
  intro b hb
  rw [split_eq] at hb
  exact number_system h true _ 0 _ b hb

/-- every block of an interleaving comes from one of the lists -/
theorem mem_of_interleaving : ∀ (ls : List (List Block)) (bs : List Block), Interleaving ls bs →
    ∀ b ∈ bs, ∃ l ∈ ls, b ∈ l := by
  intro ls bs hI
  induction hI with
  | done ls _ => intro b hb; simp at hb
  | step ls j b rest bs hj _ ih =>
    intro b' hb'
    have hjlt : j < ls.length := by
      rcases Nat.lt_or_ge j ls.length with h | h
      · exact h
      · rw [List.getElem?_eq_none h] at hj; cases hj
    have hlj : ls[j] = b :: rest := by
      rw [List.getElem?_eq_getElem hjlt] at hj; exact Option.some.inj hj
    rcases List.mem_cons.mp hb' with hb' | hb'
    · exact ⟨ls[j], List.getElem_mem hjlt, by rw [hb', hlj]; exact List.mem_cons_self⟩
    · obtain ⟨l, hl, hbl⟩ := ih b' hb'
      rcases List.mem_or_eq_of_mem_set hl with hl | hl
      · exact ⟨l, hl, hbl⟩
      · exact ⟨ls[j], List.getElem_mem hjlt, by rw [hlj]; rw [hl] at hbl; exact List.mem_cons_of_mem _ hbl⟩

/-- every completed message is tagged with the key of one of the blocks fed -/
theorem reassembleK_keys : ∀ (bs : List Block) (p : Pending), ∀ e ∈ (reassembleK p bs).2, ∃ b ∈ bs, e.1 = keyOf b
  | [], _, e, he => by simp [reassembleK] at he
  | b :: bs, p, e, he => by
    simp only [reassembleK, List.mem_append] at he
    rcases he with he | he
    · cases h : (addBlock p b).2 with
      | none => rw [h] at he; simp at he
      | some m => rw [h] at he; simp at he; exact ⟨b, List.mem_cons_self, by rw [he]⟩
    · obtain ⟨b', hb', hk⟩ := reassembleK_keys bs _ e he
      exact ⟨b', List.mem_cons_of_mem _ hb', hk⟩

end SecsModel.Proofs.SecsIReasm
