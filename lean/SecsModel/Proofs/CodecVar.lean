import SecsModel.Proofs.CodecHeader
import SecsModel.Proofs.CodecSpec
import SecsModel.Model.Var
/-! The variables-API model against Spec.E5: generated class constants = E5 table, `encode` = `Spec.E5.encode`. -/
namespace SecsModel.Proofs.CodecVar
open SecsModel SecsModel.Spec.E5 SecsModel.Model.Var SecsModel.Proofs.CodecElem SecsModel.Proofs.CodecSpec SecsModel.Proofs.CodecHeader

/-! ### generated constants against the E5 table -/

/-- the projection of a generated row that E5 fixes -/
def rowProj (r : Gen.VarTypes.Row) : String × Nat × Nat × Int × Int := (r.text_code, r.format_code.toNat, r.bytes.toNat, r.min, r.max)

theorem types_match_E5 : Gen.VarTypes.table.tail.map rowProj = Spec.E5.typeTable := by decide +kernel

theorem array_is_list : rowProj Gen.VarTypes.cArray = ("L", 0, 0, 0, 0) ∧ Gen.VarTypes.cArray.format_code = Gen.VarTypes.cList.format_code := by decide

theorem row_code (t : Ty) : (rowOf t).format_code = (t.code : Int) := by cases t <;> rfl
theorem row_list_code : Gen.VarTypes.cArray.format_code = ((0 : Nat) : Int) ∧ Gen.VarTypes.cList.format_code = ((0 : Nat) : Int) := ⟨rfl, rfl⟩

theorem row_bytes (t : Ty) (h : t.kind = .sint ∨ t.kind = .uint ∨ t.kind = .f32 ∨ t.kind = .f64) : (rowOf t).bytes = (t.width : Int) := by
  cases t <;> simp [Ty.kind] at h <;> rfl

/-- `struct.pack` with the class's struct code is the E5 element encoding (for every integer, in range or not: both refuse the same ones) -/
theorem pack_eq (t : Ty) (e : Int) (h : t.kind = .sint ∨ t.kind = .uint ∨ t.kind = .f32 ∨ t.kind = .f64) (hok : okElem t e = true) :
    pack (rowOf t).struct_code e = elemEnc t e := by
  cases t <;> simp [Ty.kind] at h <;>
    simp only [okElem, Ty.kind, Ty.lo, Ty.hi] at hok <;>
    replace hok := of_decide_eq_true hok <;>
    simp [pack, structWidth, rowOf, Gen.VarTypes.cI8, Gen.VarTypes.cI1, Gen.VarTypes.cI2, Gen.VarTypes.cI4, Gen.VarTypes.cF8, Gen.VarTypes.cF4,
      Gen.VarTypes.cU8, Gen.VarTypes.cU1, Gen.VarTypes.cU2, Gen.VarTypes.cU4, elemEnc, okElem, Ty.kind, Ty.lo, Ty.hi, Ty.width, hok] <;>
    first | rfl | omega

/-! ### JIS-8: the generated table is the Spec's map, and its inverse is `jisByte` -/

theorem jis_table_eq : Gen.Jis8.table = (List.range 256).map jisChar := by decide +kernel

theorem jis_table_get (b : Nat) (hb : b < 256) : Gen.Jis8.table[b]? = some (jisChar b) := by
  rw [jis_table_eq]; simp [hb]

theorem jis_table_getD (b : Nat) (hb : b < 256) : Gen.Jis8.table.getD b 0 = jisChar b := by
  rw [List.getD_eq_getElem?_getD, jis_table_get b hb]; rfl

theorem jis_table_length : Gen.Jis8.table.length = 256 := by rw [jis_table_eq]; simp

theorem find?_unique {α} (p : α → Bool) (a : α) : ∀ (l : List α), a ∈ l → p a = true → (∀ x ∈ l, p x = true → x = a) → l.find? p = some a
  | [], h, _, _ => by simp at h
  | x :: xs, h, hp, hu => by
    by_cases hx : p x = true
    · have := hu x (by simp) hx
      subst this
      simp [List.find?, hx]
    · have hx' : p x = false := by simpa using hx
      simp only [List.find?, hx']
      rcases List.mem_cons.mp h with h1 | h1
      · subst h1; rw [hp] at hx'; cases hx'
      · exact find?_unique p a xs h1 hp (fun y hy => hu y (by simp [hy]))

/-- the inverse of the generated table is the Spec's `jisByte` (in particular the table is injective: `make_encoding_map` drops nothing) -/
theorem jisEncode_eq (c : Int) : jisEncode c = jisByte c := by
  have key : ∀ b, b < 256 → (((Gen.Jis8.table.getD b 0 : Nat) : Int) == c && decide (b < Gen.Jis8.table.length)) = decide ((jisChar b : Int) = c) := by
    intro b hb
    rw [jis_table_getD b hb, jis_table_length]
    by_cases hq : (jisChar b : Int) = c <;> simp [hq, hb]
  cases hj : jisByte c with
  | some b =>
    obtain ⟨hb, hc⟩ := jisByte_spec c b hj
    simp only [jisEncode]
    apply find?_unique
    · simp [hb]
    · rw [key b hb]; simp [hc]
    · intro x hx hpx
      have hx' : x < 256 := by simpa using hx
      rw [key x hx'] at hpx
      have hxc : (jisChar x : Int) = c := by simpa using hpx
      have h1 := jisByte_jisChar x hx'
      rw [hxc, hj] at h1
      injection h1 with h1; exact h1.symm
  | none =>
    simp only [jisEncode]
    rw [List.find?_eq_none]
    intro x hx
    have hx' : x < 256 := by simpa using hx
    rw [key x hx']
    intro hpx
    have hxc : (jisChar x : Int) = c := by simpa using hpx
    have h1 := jisByte_jisChar x hx'
    rw [hxc, hj] at h1
    cases h1

theorem jis_injective (a b : Nat) (ha : a < 256) (hb : b < 256) (h : jisChar a = jisChar b) : a = b := by
  have h1 := jisByte_jisChar a ha
  have h2 := jisByte_jisChar b hb
  rw [h] at h1
  rw [h1] at h2
  injection h2

/-! ### accepted elements are E5 elements, and the model's element encoders are the Spec's -/

theorem string_coding : codingOf (rowOf .a).coding = .latin1 := by decide
theorem jis8_coding : codingOf (rowOf .j).coding = .jis8 := by decide

theorem num_range (t : Ty) (h : t.kind = .sint ∨ t.kind = .uint) : (rowOf t).is_float = false ∧ (rowOf t).min = t.lo ∧ (rowOf t).max = t.hi := by
  cases t <;> simp [Ty.kind] at h <;> exact ⟨rfl, rfl, rfl⟩

theorem float_range (t : Ty) (h : t.kind = .f32 ∨ t.kind = .f64) : (rowOf t).is_float = true ∧ (rowOf t).min = t.lo ∧ (rowOf t).max = t.hi := by
  cases t <;> simp [Ty.kind] at h <;> exact ⟨rfl, rfl, rfl⟩

theorem acc_ok (t : Ty) (e : Int) (h : accElem t e = true) : okElem t e = true := by
  simp only [accElem] at h
  generalize hk : t.kind = k at h
  cases k with
  | byte =>
    obtain ⟨hlo, _⟩ := uint_facts t (by simp [hk])
    have hhi : t.hi = 255 := by cases t <;> simp [Ty.kind] at hk <;> rfl
    simp only [okElem, hk, hlo, hhi]
    have := of_decide_eq_true h
    exact decide_eq_true (by omega)
  | bool =>
    obtain ⟨hlo, _⟩ := uint_facts t (by simp [hk])
    obtain ⟨_, hhi⟩ := bool_width t hk
    simp only [okElem, hk, hlo, hhi]
    have := of_decide_eq_true h
    exact decide_eq_true (by omega)
  | char =>
    have ht : t = .a := by cases t <;> simp [Ty.kind] at hk <;> rfl
    subst ht
    simp only [string_coding, encodeChar] at h
    simp only [okElem, Ty.kind, Ty.lo, Ty.hi]
    split at h
    · rename_i hc; split at hc
      · exact decide_eq_true (by omega)
      · cases hc
    · cases h
  | jis =>
    have ht : t = .j := by cases t <;> simp [Ty.kind] at hk <;> rfl
    subst ht
    simp only [jis8_coding, encodeChar, jisEncode_eq] at h
    simp only [okElem, Ty.kind]
    cases hj : jisByte e with
    | some b => rfl
    | none => simp [hj] at h
  | sint =>
    obtain ⟨hf, hmin, hmax⟩ := num_range t (by simp [hk])
    simp only [outOfRange, hf, hmin, hmax, Bool.false_eq_true, if_false, Bool.not_eq_true', Bool.or_eq_false_iff, decide_eq_false_iff_not] at h
    simp only [okElem, hk]
    exact decide_eq_true (by omega)
  | uint =>
    obtain ⟨hf, hmin, hmax⟩ := num_range t (by simp [hk])
    simp only [outOfRange, hf, hmin, hmax, Bool.false_eq_true, if_false, Bool.not_eq_true', Bool.or_eq_false_iff, decide_eq_false_iff_not] at h
    simp only [okElem, hk]
    exact decide_eq_true (by omega)
  | f32 =>
    simp only [Bool.and_eq_true] at h
    simp only [okElem, hk]; exact h.1
  | f64 =>
    simp only [Bool.and_eq_true] at h
    simp only [okElem, hk]; exact h.1

theorem packAll_eq (t : Ty) (h : t.kind = .sint ∨ t.kind = .uint ∨ t.kind = .f32 ∨ t.kind = .f64) :
    ∀ (es : List Int), (∀ e ∈ es, accElem t e = true) → packAll (rowOf t).struct_code es = encElems t es
  | [], _ => rfl
  | e :: es, ha => by
    have he := acc_ok t e (ha e (by simp))
    have ih := packAll_eq t h es (fun x hx => ha x (by simp [hx]))
    simp only [packAll, encElems, pack_eq t e h he, ih]
    rfl

theorem be_one (n : Nat) (h : n < 256) : be 1 n = [n] := by
  simp [be, Nat.mod_eq_of_lt h]

theorem text_eq (t : Ty) (h : t.kind = .char ∨ t.kind = .jis) :
    ∀ (es : List Int), (∀ e ∈ es, accElem t e = true) → encodeText (codingOf (rowOf t).coding) es = encElems t es
  | [], _ => rfl
  | e :: es, ha => by
    have hacc := ha e (by simp)
    have he := acc_ok t e hacc
    have ih := text_eq t h es (fun x hx => ha x (by simp [hx]))
    simp only [encodeText, encElems, ih]
    rcases h with h | h
    · have ht : t = .a := by cases t <;> simp [Ty.kind] at h <;> rfl
      subst ht
      simp only [okElem, Ty.kind, Ty.lo, Ty.hi] at he
      have he := of_decide_eq_true he
      have c : 0 ≤ e ∧ e < 256 := by omega
      have ok : okElem .a e = true := by simp only [okElem, Ty.kind, Ty.lo, Ty.hi]; exact decide_eq_true he
      simp only [string_coding, encodeChar, c, and_self, if_true, elemEnc, ok, Bool.true_eq_false, if_false, Ty.kind, Ty.width]
      rw [be_one _ (by omega)]
      cases encElems Ty.a es <;> rfl
    · have ht : t = .j := by cases t <;> simp [Ty.kind] at h <;> rfl
      subst ht
      simp only [jis8_coding, encodeChar, jisEncode_eq, elemEnc, he, Bool.true_eq_false, if_false, Ty.kind]
      cases hj : jisByte e with
      | none => rfl
      | some b => simp only []; cases encElems Ty.j es <;> rfl

theorem bytes_eq : ∀ (es : List Int), (∀ e ∈ es, accElem .b e = true) → Py.bytesOf es = encElems .b es
  | [], _ => rfl
  | e :: es, ha => by
    have hacc := of_decide_eq_true (ha e (by simp))
    have ih := bytes_eq es (fun x hx => ha x (by simp [hx]))
    have ok : okElem .b e = true := by simp only [okElem, Ty.kind, Ty.lo, Ty.hi]; exact decide_eq_true (by omega)
    simp only [Py.bytesOf, hacc, and_self, if_true, encElems, elemEnc, ok, Bool.true_eq_false, if_false, Ty.kind, Ty.width, ih]
    rw [be_one _ (by omega)]
    cases encElems Ty.b es <;> rfl

theorem bools_eq : ∀ (es : List Int), (∀ e ∈ es, accElem .bool e = true) →
    (.ok (es.map (fun e => if e ≠ 0 then 1 else 0)) : Except Err Bytes) = encElems .bool es
  | [], _ => rfl
  | e :: es, ha => by
    have hacc := of_decide_eq_true (ha e (by simp))
    have ih := bools_eq es (fun x hx => ha x (by simp [hx]))
    have ok : okElem .bool e = true := by simp only [okElem, Ty.kind, Ty.lo, Ty.hi]; exact decide_eq_true (by omega)
    simp only [encElems, elemEnc, ok, Bool.true_eq_false, if_false, Ty.kind, Ty.width, ← ih, List.map_cons]
    rw [be_one _ (by omega)]
    rcases hacc with h0 | h1
    · subst h0; rfl
    · subst h1; rfl

theorem encElems_length (t : Ty) (es : List Int) (p : Bytes) (h : encElems t es = .ok p) : p.length = es.length * t.width :=
  (encElems_spec t es p h).1

theorem nan_fields (b : Nat) (h : IEEE.isNaN64 b = true) : IEEE.expo64 b = 2047 ∧ IEEE.frac64 b ≠ 0 := by
  simp only [IEEE.isNaN64, decide_eq_true_eq] at h
  simp only [IEEE.expo64, IEEE.frac64]; omega

theorem round32_nan (b : Nat) (h : IEEE.isNaN64 b = true) : ∃ f, IEEE.round32 b = .ok f := by
  obtain ⟨h1, h2⟩ := nan_fields b h
  simp only [IEEE.round32, IEEE.round32F, h1, if_true, h2, if_false]
  exact ⟨_, rfl⟩

theorem f4_bounds : (rowOf .f4).min.toNat = 2^63 + IEEE.fltMax64 ∧ (rowOf .f4).max.toNat = IEEE.fltMax64 := by decide
theorem f8_bounds : (rowOf .f8).min.toNat = 2^63 + IEEE.dblMax64 ∧ (rowOf .f8).max.toNat = IEEE.dblMax64 := by decide

/-- what `F4.set` lets through: NaN, or a magnitude of at most FLT_MAX -/
theorem acc_f4 (e : Int) (h : accElem .f4 e = true) :
    0 ≤ e ∧ e < 18446744073709551616 ∧ (IEEE.isNaN64 e.toNat = true ∨ e.toNat % 2^63 ≤ IEEE.fltMax64) := by
  simp only [accElem, Ty.kind, Bool.and_eq_true, decide_eq_true_eq, Bool.not_eq_true'] at h
  obtain ⟨⟨h0, h1⟩, h2⟩ := h
  refine ⟨h0, h1, ?_⟩
  cases hn : IEEE.isNaN64 e.toNat with
  | true => exact Or.inl rfl
  | false =>
    right
    have hf : (rowOf .f4).is_float = true := rfl
    simp only [outOfRange, hf, if_true, f4_bounds.1, f4_bounds.2] at h2
    exact (IEEE.range_check e.toNat IEEE.fltMax64 (by decide) hn).mp h2

theorem acc_f8 (e : Int) (h : accElem .f8 e = true) :
    0 ≤ e ∧ e < 18446744073709551616 ∧ (IEEE.isNaN64 e.toNat = true ∨ e.toNat % 2^63 ≤ IEEE.dblMax64) := by
  simp only [accElem, Ty.kind, Bool.and_eq_true, decide_eq_true_eq, Bool.not_eq_true'] at h
  obtain ⟨⟨h0, h1⟩, h2⟩ := h
  refine ⟨h0, h1, ?_⟩
  cases hn : IEEE.isNaN64 e.toNat with
  | true => exact Or.inl rfl
  | false =>
    right
    have hf : (rowOf .f8).is_float = true := rfl
    simp only [outOfRange, hf, if_true, f8_bounds.1, f8_bounds.2] at h2
    exact (IEEE.range_check e.toNat IEEE.dblMax64 (by decide) hn).mp h2

/-- an accepted element always has an E5 encoding (in particular an accepted F4 never overflows binary32) -/
theorem elemEnc_ok (t : Ty) (e : Int) (h : accElem t e = true) : ∃ b, elemEnc t e = .ok b := by
  have hok := acc_ok t e h
  simp only [elemEnc, hok, Bool.true_eq_false, if_false]
  generalize hk : t.kind = k
  cases k with
  | jis =>
    simp only [okElem, hk] at hok
    cases hj : jisByte e with
    | some b => exact ⟨_, rfl⟩
    | none => simp [hj] at hok
  | f32 =>
    have ht := f32_is_f4 t hk
    subst ht
    obtain ⟨_, _, h3⟩ := acc_f4 e h
    have : ∃ f, IEEE.round32 e.toNat = .ok f := by
      rcases h3 with h3 | h3
      · exact round32_nan _ h3
      · obtain ⟨f, hf, _⟩ := IEEE.round32_of_le_max _ h3
        exact ⟨f, hf⟩
    obtain ⟨f, hf⟩ := this
    simp only [hf]
    exact ⟨_, rfl⟩
  | _ => exact ⟨_, rfl⟩

theorem encElems_ok (t : Ty) : ∀ (es : List Int), (∀ e ∈ es, accElem t e = true) → ∃ p, encElems t es = .ok p
  | [], _ => ⟨[], rfl⟩
  | e :: es, ha => by
    obtain ⟨p, hp⟩ := encElems_ok t es (fun x hx => ha x (by simp [hx]))
    obtain ⟨b, hb⟩ := elemEnc_ok t e (ha e (by simp))
    exact ⟨b ++ p, by simp only [encElems, hb, hp]⟩

theorem encodeLeaf_exact (t : Ty) (es : List Int) (ha : ∀ e ∈ es, accElem t e = true) :
    encodeLeaf t es = Spec.E5.encode (.item t es) := by
  obtain ⟨c1, _⟩ := code_lt t
  obtain ⟨p, hp⟩ := encElems_ok t es ha
  have hl := encElems_length t es p hp
  have hw1 : t.width = 1 → p.length = es.length := by intro h; rw [hl, h, Nat.mul_one]
  simp only [encodeLeaf, Spec.E5.encode, row_code, hp]
  generalize hk : t.kind = k
  cases k with
  | sint | uint | f32 | f64 =>
    have hkk : t.kind = .sint ∨ t.kind = .uint ∨ t.kind = .f32 ∨ t.kind = .f64 := by simp [hk]
    have e1 : (es.length : Int) * (rowOf t).bytes = ((p.length : Nat) : Int) := by
      rw [row_bytes t hkk, hl]; exact (Int.natCast_mul _ _).symm
    simp only [e1, var_header_exact t.code p.length c1, packAll_eq t hkk es ha, hp]
    cases header t.code p.length <;> rfl
  | char | jis =>
    have hkk : t.kind = .char ∨ t.kind = .jis := by simp [hk]
    have hw : t.width = 1 := by cases t <;> simp [Ty.kind] at hk <;> rfl
    simp only [← hw1 hw, var_header_exact t.code p.length c1, text_eq t hkk es ha, hp]
    cases header t.code p.length <;> rfl
  | byte =>
    have ht : t = .b := by cases t <;> simp [Ty.kind] at hk <;> rfl
    subst ht
    simp only [← hw1 rfl, var_header_exact Ty.b.code p.length c1, bytes_eq es ha, hp]
    cases header Ty.b.code p.length <;> rfl
  | bool =>
    have ht : t = .bool := by cases t <;> simp [Ty.kind] at hk <;> rfl
    subst ht
    have := bools_eq es ha
    rw [hp] at this
    injection this with this
    simp only [← hw1 rfl, var_header_exact Ty.bool.code p.length c1, this]
    cases header Ty.bool.code p.length <;> rfl

mutual
/-- **C01_encode_exact**: for every accepted value the variables API produces exactly the E5 bytes (or refuses exactly when E5 cannot encode it) -/
theorem encode_exact (v : Val) (ha : Accepted v) : Model.Var.encode v = Spec.E5.encode v := by
  match v with
  | .item t es => simp only [Model.Var.encode]; exact encodeLeaf_exact t es ha
  | .list xs =>
    simp only [Accepted] at ha
    simp only [Model.Var.encode, Spec.E5.encode, row_list_code.1, var_header_exact 0 xs.length (by omega), encodeList_exact xs ha]
    cases header 0 xs.length <;> rfl
theorem encodeList_exact (xs : List Val) (ha : AcceptedList xs) : Model.Var.encodeList xs = Spec.E5.encodeList xs := by
  match xs with
  | [] => rfl
  | x :: xs =>
    simp only [AcceptedList] at ha
    simp only [Model.Var.encodeList, Spec.E5.encodeList, encode_exact x ha.1, encodeList_exact xs ha.2]
    rfl
end

end SecsModel.Proofs.CodecVar
