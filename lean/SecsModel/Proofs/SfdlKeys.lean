import SecsModel.Gen.SfdlKeys
import SecsModel.Model.Sfdl
/-!
# Proofs.SfdlKeys — the names the shape construction reads are the ones the model uses

`Model.Sfdl.arrayName (.cls n) = n` and `memberKey (.item n) = n` identify a data item with its **class name**: that is right as
long as `Array.__init__` names an open list of a data item after `data_format.__name__`, a data item instance carries
`self.__class__.__name__` as `name`, and `List._generate` files arrays and items under `item_value.name` and nested lists under
`List.get_name_from_format(item)` (first element if it is a string, else `'DATA'`).  The expressions are extracted from the
source on every run (`Gen.SfdlKeys`); a class-level `name` attribute (which custom data items need not have, and which may
differ from the class name) must play no part in the key rule.
-/
namespace SecsModel.Proofs.Sfdl
open SecsModel.Gen.SfdlKeys

theorem gen_keys :
    String.ofList arrayHasattr = "__name__" ∧ String.ofList arrayNameExpr = "data_format.__name__"
    ∧ String.ofList itemInstanceName = "self.__class__.__name__"
    ∧ generateKeys.map String.ofList = ["item_value.name", "List.get_name_from_format(item)", "item_value.name"]
    ∧ nameFromFormatReturns.map String.ofList = ["data_format[0]", "'DATA'"]
    ∧ listDefaultName = Model.Sfdl.dataName := by decide

end SecsModel.Proofs.Sfdl
