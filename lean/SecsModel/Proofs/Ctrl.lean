import SecsModel.Model.Ctrl
import SecsModel.Spec.E30Control
import SecsModel.Proofs.SMDefs
/-!
# Proofs.Ctrl — the abstraction from the control-state model to the E30 table, and the finite obligations behind C11
-/
namespace SecsModel.Proofs.Ctrl
open SecsModel.Model.SM SecsModel.Gen SecsModel.Model.Gem.Ctrl SecsModel.Spec.E30 SecsModel.Proofs.SMGen

/-- the shipped state that stands for an E30 state -/
def nameOf : S → String
  | .equipmentOffline => "EQUIPMENT_OFFLINE" | .attemptOnline => "ATTEMPT_ONLINE" | .hostOffline => "HOST_OFFLINE"
  | .onlineLocal => "ONLINE_LOCAL" | .onlineRemote => "ONLINE_REMOTE"

/-- E30 state of a shipped state name; CONTROL, OFFLINE, ONLINE, INIT are pseudo states (no E30 state) -/
def absName (nm : String) : Option S := allStates.find? (fun s => nameOf s == nm)

/-- the model state in which the control machine rests in `s` with exact flags -/
def stable (initial : String) (s : S) (remote : Bool) : CState :=
  { cur := stateIdx CtrlSM (nameOf s), flags := (List.range CtrlSM.states.length).map (fun x => x == stateIdx CtrlSM (nameOf s)),
    remote := remote, initial := initial }

def abs (c : CState) : Option SState := (absName (stateName CtrlSM c.cur)).map fun s => ⟨s, c.remote⟩

/-- the E30 triggers one model input stands for (`linkLost` is not an E30 trigger) -/
def expand (s : S) : Input → List Trig
  | .switchOnline p =>
    -- the probe is only sent if the operator's ON-LINE switch is accepted (transition 3)
    if s == .equipmentOffline then (match p with | .hostAnswers => [.opOnline, .probeOk] | _ => [.opOnline, .probeFail]) else [.opOnline]
  | .onlineBegin => [.opOnline]
  | .probe .hostAnswers => [.probeOk]
  | .probe _ => [.probeFail]
  | .switchOffline => [.opOffline]
  | .switchLocal => [.opLocal]
  | .switchRemote => [.opRemote]
  | .s1f15 => [.s1f15]
  | .s1f17 => [.s1f17]
  | .linkLost => []

/-- several triggers in a row, outputs concatenated -/
def macroStep (failTo : S) (s : SState) : List Trig → SState × List Spec.E30.Out
  | [] => (s, [])
  | t :: rest =>
    let r := Spec.E30.step failTo s t
    let rr := macroStep failTo r.1 rest
    (rr.1, r.2 ++ rr.2)

def macroRun (failTo : S) (s : SState) : List (List Trig) → SState × List (List Spec.E30.Out)
  | [] => (s, [])
  | ts :: rest =>
    let r := macroStep failTo s ts
    let rr := macroRun failTo r.1 rest
    (rr.1, r.2 :: rr.2)

/-- the equipment-defined collection event ids of secsgem (`CollectionEventId`) -/
def ceidOf : CE → Int
  | .equipmentOffline => ceEquipmentOffline | .controlLocal => ceControlLocal | .controlRemote => ceControlRemote

def conc : Spec.E30.Out → Output
  | .ack n => .ack n
  | .event e => .ceid (ceidOf e)

def isRaised : Output → Bool
  | .raised _ => true
  | _ => false

/-- acknowledge codes and collection events of a step (what the host can see) -/
def visible (outs : List Output) : List Output := outs.filter (fun o => !isRaised o)

/-- the configured target of transition 4 in the shipped handler: always HOST OFF-LINE -/
def failTo : S := .hostOffline

def probeList : List Probe := [.hostAnswers, .hostSilent, .hostAborts, .notCommunicating]

/-- every input that stands for E30 triggers -/
def e30Inputs : List Input :=
  probeList.map .switchOnline ++ [.onlineBegin] ++ probeList.map .probe ++ [.switchOffline, .switchLocal, .switchRemote, .s1f15, .s1f17]

theorem mem_allStates (s : S) : s ∈ allStates := by cases s <;> simp [allStates]

theorem mem_e30Inputs (i : Input) (h : i ≠ .linkLost) : i ∈ e30Inputs := by
  cases i with
  | switchOnline p => cases p <;> simp [e30Inputs, probeList]
  | probe p => cases p <;> simp [e30Inputs, probeList]
  | linkLost => exact absurd rfl h
  | _ => simp [e30Inputs, probeList]

/-- one step from a stable state: the result is the stable state the E30 table prescribes, the visible outputs are the
table's acknowledge codes and events in order, and a raised exception means nothing happened at all -/
def stepOk (initial : String) (s : S) (remote : Bool) (i : Input) : Bool :=
  let c := stable initial s remote
  let r := Model.Gem.Ctrl.step c i
  let sp := macroStep failTo ⟨s, remote⟩ (expand s i)
  r.1 == stable initial sp.1.st sp.1.remote && visible r.2 == sp.2.map conc &&
    (if r.2.any isRaised then r.1 == c && r.2.length == 1 && sp.2.isEmpty else true)

theorem step_all : ∀ init ∈ inits, ∀ s ∈ allStates, ∀ r ∈ [true, false], ∀ i ∈ e30Inputs, stepOk init s r i = true := by
  decide +kernel

/-- the constructor: transitions 1, 2 (7), and for the ATTEMPT ON-LINE default the failing probe (communication is not enabled yet) -/
def specDefault (initial : String) : Option Default :=
  if initial == "EQUIPMENT_OFFLINE" then some .equipmentOffline else if initial == "ATTEMPT_ONLINE" then some .attemptOnline
  else if initial == "HOST_OFFLINE" then some .hostOffline else if initial == "ONLINE" then some .online else none

def specInit (d : Default) (remote : Bool) : SState × List Spec.E30.Out :=
  let r := Spec.E30.initial d remote
  match d with
  | .attemptOnline => let r2 := Spec.E30.step failTo r.1 .probeFail; (r2.1, r.2 ++ r2.2)
  | _ => r

def initOk (initial : String) (remote : Bool) : Bool :=
  match specDefault initial with
  | none => false
  | some d =>
    let r := Model.Gem.Ctrl.init initial remote
    let sp := specInit d remote
    r.1 == stable initial sp.1.st sp.1.remote && r.2 == sp.2.map conc

theorem init_all : ∀ init ∈ inits, ∀ r ∈ [true, false], initOk init r = true := by decide +kernel

/-- SVID 1002 in every stable state -/
theorem sv_all : ∀ init ∈ inits, ∀ s ∈ allStates, ∀ r ∈ [true, false],
    (match sv1002 (stable init s r) with | .ok v => v == svValue s | .error _ => false) = true ∧ 1 ≤ svValue s ∧ svValue s ≤ 5 := by
  decide +kernel

/-- link loss (not an E30 trigger): the shipped handler ends in HOST OFF-LINE unless the probe is outstanding; nothing is acknowledged or reported -/
def linkLostOk (initial : String) (s : S) (remote : Bool) : Bool :=
  let r := Model.Gem.Ctrl.step (stable initial s remote) .linkLost
  r.2.isEmpty && r.1 == stable initial (if s == .attemptOnline then .attemptOnline else .hostOffline) remote

theorem linkLost_all : ∀ init ∈ inits, ∀ s ∈ allStates, ∀ r ∈ [true, false], linkLostOk init s r = true := by decide +kernel

/-- the split step agrees with the macro step: `control_switch_online()` = reach ATTEMPT ON-LINE, then the probe resolves -/
theorem split_all : ∀ init ∈ inits, ∀ s ∈ allStates, ∀ r ∈ [true, false], ∀ p ∈ probeList,
    (let c := stable init s r
     let a := Model.Gem.Ctrl.step c (.switchOnline p)
     let b1 := Model.Gem.Ctrl.step c .onlineBegin
     let b2 := Model.Gem.Ctrl.step b1.1 (.probe p)
     if b1.2.any isRaised then a.1 == b1.1 && a.2 == b1.2 else a.1 == b2.1 && a.2 == b1.2 ++ b2.2) = true := by decide +kernel

/-! ## the generated control table against the E30 table -/

/-- which E30 trigger a shipped transition implements, and the value of `failTo` it corresponds to -/
def trigOf (name : String) : Option (Trig × Option S) :=
  if name == "switch_online" then some (.opOnline, none)
  else if name == "attempt_online_fail_host_offline" then some (.probeFail, some .hostOffline)
  else if name == "attempt_online_fail_equipment_offline" then some (.probeFail, some .equipmentOffline)
  else if name == "attempt_online_success" then some (.probeOk, none)
  else if name == "switch_offline" then some (.opOffline, none)
  else if name == "switch_online_local" then some (.opLocal, none)
  else if name == "switch_online_remote" then some (.opRemote, none)
  else if name == "remote_offline" then some (.s1f15, none)
  else if name == "remote_online" then some (.s1f17, none)
  else none

def tgtMatches (t : Tgt) (dst : String) : Bool :=
  match t with
  | .to s => absName dst == some s
  | .online => dst == "ONLINE"

/-- every shipped transition that implements a trigger, from every stable source, is a row of the E30 table -/
def genInSpec : Bool :=
  CtrlSM.transitions.all fun tr =>
    match trigOf tr.1 with
    | none => true
    | some (trig, ft) =>
      tr.2.1.all fun src =>
        match absName src with
        | none => true                                    -- pseudo state (ONLINE as a source): never the resting state
        | some s => (table (ft.getD failTo)).any fun row => row.src == s && row.trig == trig && tgtMatches row.tgt tr.2.2

/-- every row of the E30 table is implemented by a shipped transition -/
def specInGen : Bool :=
  (table failTo).all fun row =>
    CtrlSM.transitions.any fun tr =>
      (match trigOf tr.1 with
        | some (trig, ft) => trig == row.trig && (ft == none || ft == some failTo)
        | none => false) &&
      tr.2.1.contains (nameOf row.src) && tgtMatches row.tgt tr.2.2

/-- the remaining shipped transitions are the entry pseudo-transitions 1, 2, 7: they start in pseudo states only -/
def pseudoOnly : Bool :=
  CtrlSM.transitions.all fun tr =>
    match trigOf tr.1 with
    | some _ => true
    | none => tr.2.1.all fun src => absName src == none

theorem table_refines : genInSpec = true ∧ specInGen = true ∧ pseudoOnly = true := by decide +kernel

end SecsModel.Proofs.Ctrl
