import SecsModel.Model.Catalogue
/-! C03 table obligations, quarter 1 of the class table (kernel evaluation of the model over the generated rows; the four
quarters are separate modules so that they are checked in parallel). -/
namespace SecsModel.Proofs.C03Tab
open SecsModel.Gen.Catalogue SecsModel.Model.Catalogue

theorem rows1 : py1.all (rowOk py yaml) = true := by decide +kernel

/-- every YAML key of this quarter is a class key -/
theorem yamlKeys1 : yaml1.all (fun y => (py.map key).contains (key y)) = true := by decide +kernel

end SecsModel.Proofs.C03Tab
