import SecsModel.Proofs.SmlTok
/-!
# Proofs.SmlItem — token list of a printed item (`toksOf`), the safety predicate of a defect variant, and
`tokenize (toSml …) = toksOf …`
-/
namespace SecsModel.Proofs.Sml
open SecsModel.Model.Sml

/-- the assumptions on the abstract float text: for every finite double the text is non-empty, free of whitespace / brackets /
quotes, and `float()` reads it back bit for bit -/
structure FloatLaws (fmtF : Nat → Text) (parseF : Text → Option Nat) : Prop where
  plain : ∀ b, b < 2 ^ 64 → b % 2 ^ 63 ≤ 0x7FEFFFFFFFFFFFFF → fmtF b ≠ [] ∧ AllPlain (fmtF b)
  back : ∀ b, b < 2 ^ 64 → b % 2 ^ 63 ≤ 0x7FEFFFFFFFFFFFFF → parseF (fmtF b) = some b

mutual
/-- items whose text the defect variant `d` prints in a way that parses back: no `"` in A/J text while `"` counts as printable;
only bytes that `jis_8` decodes to themselves in J text while the code of the decoded character is printed -/
def safeItem (d : Defects) : Item → Bool
  | .list xs => safeList d xs
  | .strA bs => !d.quotePrintable || bs.all (· != 34)
  | .strJ bs => (!d.quotePrintable || bs.all (· != 34)) && (!d.jis8Unicode || bs.all (fun b => jisDecode b == b))
  | _ => true
def safeList (d : Defects) : List Item → Bool
  | [] => true
  | x :: xs => safeItem d x && safeList d xs
end

mutual
theorem safe_none : ∀ v : Item, safeItem Defects.none v = true
  | .list xs => by simp only [safeItem]; exact safeList_none xs
  | .strA _ => by simp [safeItem, Defects.none]
  | .strJ _ => by simp [safeItem, Defects.none]
  | .bin _ => rfl
  | .bool _ => rfl
  | .int _ _ => rfl
  | .flt _ _ => rfl
theorem safeList_none : ∀ xs : List Item, safeList Defects.none xs = true
  | [] => rfl
  | x :: xs => by simp only [safeList, safe_none x, safeList_none xs]; rfl
end

def boolText (v : Bool) : Text := if v then [48, 120, 49] else [48, 120, 48]

mutual
/-- the tokens of `toSml d fmtF ind v` -/
def toksOf (d : Defects) (fmtF : Nat → Text) : Item → List Text
  | .list xs =>
    if xs.isEmpty then [[60], [76], [62]]
    else [60] :: [76] :: [91] :: decNat xs.length :: [93] :: (toksOfList d fmtF xs ++ [[62]])
  | .bin bs => [60] :: tyB :: (bs.map hexLit ++ [[62]])
  | .bool vs => [60] :: tyBOOLEAN :: (vs.map boolText ++ [[62]])
  | .strA bs => [60] :: tyA :: (strToks (isPrintable d) id hexLit bs none ++ [[62]])
  | .strJ bs => [60] :: tyJ :: (strToks (isPrintable d) jisDecode (jisCode d) bs none ++ [[62]])
  | .int t vs => [60] :: t.name :: (vs.map decInt ++ [[62]])
  | .flt t vs => [60] :: t.name :: (vs.map fmtF ++ [[62]])
def toksOfList (d : Defects) (fmtF : Nat → Text) : List Item → List Text
  | [] => []
  | x :: xs => toksOf d fmtF x ++ toksOfList d fmtF xs
end

theorem intName_plain (t : IntTy) : t.name ≠ [] ∧ AllPlain t.name := by
  cases t <;> exact ⟨by simp [IntTy.name], by intro c hc; simp [IntTy.name] at hc; rcases hc with rfl | rfl <;> decide⟩

theorem fltName_plain (t : FltTy) : t.name ≠ [] ∧ AllPlain t.name := by
  cases t <;> exact ⟨by simp [FltTy.name], by intro c hc; simp [FltTy.name] at hc; rcases hc with rfl | rfl <;> decide⟩

theorem tyB_plain : tyB ≠ [] ∧ AllPlain tyB := ⟨by simp [tyB], by intro c hc; simp [tyB] at hc; subst hc; decide⟩
theorem tyA_plain : tyA ≠ [] ∧ AllPlain tyA := ⟨by simp [tyA], by intro c hc; simp [tyA] at hc; subst hc; decide⟩
theorem tyJ_plain : tyJ ≠ [] ∧ AllPlain tyJ := ⟨by simp [tyJ], by intro c hc; simp [tyJ] at hc; subst hc; decide⟩
theorem tyBOOLEAN_plain : tyBOOLEAN ≠ [] ∧ AllPlain tyBOOLEAN :=
  ⟨by simp [tyBOOLEAN], by intro c hc; simp [tyBOOLEAN] at hc; rcases hc with rfl | rfl | rfl | rfl | rfl | rfl <;> decide⟩

theorem boolText_plain (v : Bool) : boolText v ≠ [] ∧ AllPlain (boolText v) := by
  cases v
  · exact ⟨by simp [boolText], by intro c hc; simp [boolText] at hc; rcases hc with rfl | rfl | rfl <;> decide⟩
  · exact ⟨by simp [boolText], by intro c hc; simp [boolText] at hc; rcases hc with rfl | rfl | rfl <;> decide⟩

theorem isPrintable_ne_quote {d : Defects} {c : Nat} (h : isPrintable d c = true) (hq : d.quotePrintable = false) : c ≠ 34 := by
  unfold isPrintable at h
  rw [hq] at h
  simp only [Bool.false_or, Bool.and_eq_true, bne_iff_ne, ne_eq] at h
  exact h.2

theorem jisDecode_eq_quote {b : Nat} (h : jisDecode b = 34) : b = 34 := by
  unfold jisDecode at h
  split at h
  · omega
  · split at h
    · omega
    · split at h
      · omega
      · exact h

/-- a fault-free quoted run: whichever variant, a printable character that gets printed inside quotes is not the quote -/
theorem strA_quote_ok (d : Defects) (bs : List Nat) (hs : safeItem d (Item.strA bs) = true) :
    ∀ b ∈ bs, isPrintable d (id b) = true → id b ≠ 34 := by
  intro b hb hp
  simp only [safeItem, Bool.or_eq_true, Bool.not_eq_true', List.all_eq_true, bne_iff_ne, ne_eq] at hs
  rcases hs with hq | hall
  · exact isPrintable_ne_quote hp hq
  · exact hall b hb

theorem strJ_quote_ok (d : Defects) (bs : List Nat) (hs : safeItem d (Item.strJ bs) = true) :
    ∀ b ∈ bs, isPrintable d (jisDecode b) = true → jisDecode b ≠ 34 := by
  intro b hb hp
  simp only [safeItem, Bool.and_eq_true, Bool.or_eq_true, Bool.not_eq_true', List.all_eq_true, bne_iff_ne, ne_eq] at hs
  rcases hs.1 with hq | hall
  · exact isPrintable_ne_quote hp hq
  · intro h; exact hall b hb (jisDecode_eq_quote h)

theorem jisCode_plain (d : Defects) (b : Nat) : jisCode d b ≠ [] ∧ AllPlain (jisCode d b) :=
  ⟨hexLit_ne_nil _, hexLit_plain _⟩

mutual
theorem tok_item (d : Defects) (fmtF : Nat → Text) (parseF : Text → Option Nat) (hF : FloatLaws fmtF parseF) :
    ∀ (v : Item), v.valid = true → safeItem d v = true → ∀ (ind : Nat) (rest : Text),
      tokGo (toSml d fmtF ind v ++ rest) [] none = toksOf d fmtF v ++ tokGo rest [] none
  | .list xs, hv, hs, ind, rest => by
    simp only [Item.valid] at hv
    simp only [safeItem] at hs
    cases hxs : xs with
    | nil =>
      simp only [toSml, toksOf, List.isEmpty_nil, if_true, List.append_assoc]
      rw [tokGo_spaces]
      simp only [List.cons_append, List.nil_append]
      rw [tokGo_op (by decide) (by decide), flush_nil, tokGo_ws (by decide), flush_nil, tokGo_plain1 (by decide),
        tokGo_ws (by decide), tokGo_op (by decide) (by decide)]
      rfl
    | cons y ys =>
      rw [← hxs]
      have hne : xs.isEmpty = false := by rw [hxs]; rfl
      simp only [toSml, toksOf, hne, Bool.false_eq_true, if_false, List.append_assoc]
      rw [tokGo_spaces]
      simp only [List.cons_append, List.nil_append]
      rw [tokGo_op (by decide) (by decide), flush_nil, tokGo_ws (by decide), flush_nil, tokGo_plain1 (by decide),
        tokGo_ws (by decide), tokGo_op (by decide) (by decide), flush_nil,
        tokGo_plain _ _ _ (decNat_plain xs.length), tokGo_op (by decide) (by decide)]
      simp only [List.nil_append]
      rw [flush_ne (decNat_ne_nil xs.length), tokGo_ws (by decide), flush_nil, List.nil_append,
        tok_list d fmtF parseF hF xs hv hs (ind + 4), tokGo_spaces, tokGo_op (by decide) (by decide), flush_nil]
      simp [flush]
  | .bin bs, _, _, ind, rest => by
    simp only [toSml, toksOf]
    rw [tok_seq ind tyB _ tyB_plain (by
      intro v hv; obtain ⟨b, _, rfl⟩ := List.mem_map.mp hv; exact ⟨hexLit_ne_nil b, hexLit_plain b⟩)]
    simp
  | .bool vs, _, _, ind, rest => by
    simp only [toSml, toksOf]
    rw [show (fun v => if v = true then [48, 120, 49] else [48, 120, 48]) = boolText from rfl]
    rw [tok_seq ind tyBOOLEAN _ tyBOOLEAN_plain (by
      intro v hv; obtain ⟨b, _, rfl⟩ := List.mem_map.mp hv; exact boolText_plain b)]
    simp
  | .strA bs, _, hs, ind, rest => by
    simp only [toSml, toksOf]
    rw [tok_str ind tyA _ _ _ bs tyA_plain (strA_quote_ok d bs hs) (fun b _ => ⟨hexLit_ne_nil b, hexLit_plain b⟩)]
    simp
  | .strJ bs, _, hs, ind, rest => by
    simp only [toSml, toksOf]
    rw [tok_str ind tyJ _ _ _ bs tyJ_plain (strJ_quote_ok d bs hs) (fun b _ => jisCode_plain d b)]
    simp
  | .int t vs, _, _, ind, rest => by
    simp only [toSml, toksOf]
    rw [tok_seq ind t.name _ (intName_plain t) (by
      intro v hv; obtain ⟨b, _, rfl⟩ := List.mem_map.mp hv; exact ⟨decInt_ne_nil b, decInt_plain b⟩)]
    simp
  | .flt t vs, hv, _, ind, rest => by
    simp only [toSml, toksOf]
    simp only [Item.valid, List.all_eq_true, Bool.and_eq_true, decide_eq_true_eq] at hv
    rw [tok_seq ind t.name _ (fltName_plain t) (by
      intro v hv'; obtain ⟨b, hb, rfl⟩ := List.mem_map.mp hv'
      have ⟨h1, h2⟩ := hv b hb
      refine hF.plain b h1 ?_
      unfold fltInBounds at h2
      have : t.maxBits ≤ 0x7FEFFFFFFFFFFFFF := by cases t <;> decide
      simp only [decide_eq_true_eq] at h2
      omega)]
    simp
theorem tok_list (d : Defects) (fmtF : Nat → Text) (parseF : Text → Option Nat) (hF : FloatLaws fmtF parseF) :
    ∀ (xs : List Item), validList xs = true → safeList d xs = true → ∀ (ind : Nat) (rest : Text),
      tokGo (childrenSml d fmtF ind xs ++ rest) [] none = toksOfList d fmtF xs ++ tokGo rest [] none
  | [], _, _, _, _ => by simp [childrenSml, toksOfList]
  | x :: xs, hv, hs, ind, rest => by
    simp only [validList, Bool.and_eq_true] at hv
    simp only [safeList, Bool.and_eq_true] at hs
    simp only [childrenSml, toksOfList, List.append_assoc]
    rw [tok_item d fmtF parseF hF x hv.1 hs.1 ind, List.cons_append, List.nil_append, tokGo_ws (by decide), flush_nil, List.nil_append,
      tok_list d fmtF parseF hF xs hv.2 hs.2 ind rest]
end

end SecsModel.Proofs.Sml
