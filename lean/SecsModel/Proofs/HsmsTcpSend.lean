import SecsModel.Model.TcpSend
import SecsModel.Proofs.SecsI
import SecsModel.Proofs.HsmsRx
/-! Lemmas about the hand model `Model.TcpSend` (`send_data`, packet split, send queue) and its composition with `Model.Rx`. -/
namespace SecsModel.Proofs.HsmsTcpSend
open SecsModel SecsModel.Model.TcpSend

/-- bytes written are a prefix of the data; on `True` they are all of it -/
theorem sendData_written : ∀ (o : List SockAns) (d : Bytes),
    ∃ t, d = (sendData d o).written ++ t ∧ ((sendData d o).outcome = .ok → t = [])
  | [], d => ⟨d, by simp [sendData], by simp [sendData]⟩
  | .selTimeout :: o, d => by simpa [sendData] using sendData_written o d
  | .wouldBlock :: o, d => by simpa [sendData] using sendData_written o d
  | .error :: o, d => ⟨d, by simp [sendData], by simp [sendData]⟩
  | .accept k :: o, d => by
    simp only [sendData]
    split
    · obtain ⟨t, ht, hok⟩ := sendData_written o (d.drop (min k d.length))
      refine ⟨t, ?_, hok⟩
      simp only [List.append_assoc]
      rw [← ht, List.take_append_drop]
    · rename_i h
      have hl : (d.drop (min k d.length)).length = 0 := by omega
      have hnil : d.drop (min k d.length) = [] := List.length_eq_zero_iff.mp hl
      refine ⟨[], ?_, fun _ => rfl⟩
      have := List.take_append_drop (min k d.length) d
      rw [hnil] at this
      simpa using this.symm

/-- `False` is returned only when the socket raised a non-`EWOULDBLOCK` error, and that answer is consumed -/
theorem sendData_fail : ∀ (o : List SockAns) (d : Bytes), (sendData d o).outcome = .fail →
    ∃ pre, o = pre ++ .error :: (sendData d o).rest ∧ ∀ a ∈ pre, a ≠ .error
  | [], d, h => by simp [sendData] at h
  | .selTimeout :: o, d, h => by
    simp only [sendData] at h ⊢
    obtain ⟨pre, hp, hn⟩ := sendData_fail o d h
    refine ⟨.selTimeout :: pre, by rw [List.cons_append, ← hp], ?_⟩
    intro a ha; rcases List.mem_cons.mp ha with rfl | ha
    · intro e; cases e
    · exact hn a ha
  | .wouldBlock :: o, d, h => by
    simp only [sendData] at h ⊢
    obtain ⟨pre, hp, hn⟩ := sendData_fail o d h
    refine ⟨.wouldBlock :: pre, by rw [List.cons_append, ← hp], ?_⟩
    intro a ha; rcases List.mem_cons.mp ha with rfl | ha
    · intro e; cases e
    · exact hn a ha
  | .error :: o, d, _ => ⟨[], by simp [sendData], by simp⟩
  | .accept k :: o, d, h => by
    simp only [sendData] at h ⊢
    split at h
    · rename_i hc
      simp only [hc, if_true]
      obtain ⟨pre, hp, hn⟩ := sendData_fail o _ h
      refine ⟨.accept k :: pre, by rw [List.cons_append, ← hp], ?_⟩
      intro a ha; rcases List.mem_cons.mp ha with rfl | ha
      · intro e; cases e
      · exact hn a ha
    · simp at h

/-- bytes an answer can take -/
def gain : SockAns → Nat
  | .accept k => k
  | _ => 0

theorem exists_accept_of_pos : ∀ (o : List SockAns), 0 < (o.map gain).sum → ∃ k, SockAns.accept k ∈ o
  | [], h => by simp at h
  | .accept k :: _, _ => ⟨k, by simp⟩
  | .selTimeout :: o, h => by
    obtain ⟨k, hk⟩ := exists_accept_of_pos o (by simpa [gain] using h)
    exact ⟨k, by simp [hk]⟩
  | .wouldBlock :: o, h => by
    obtain ⟨k, hk⟩ := exists_accept_of_pos o (by simpa [gain] using h)
    exact ⟨k, by simp [hk]⟩
  | .error :: o, h => by
    obtain ⟨k, hk⟩ := exists_accept_of_pos o (by simpa [gain] using h)
    exact ⟨k, by simp [hk]⟩

/-- if the socket never raises an error, is written to at least once and takes enough bytes in total, `send_data` returns `True` -/
theorem sendData_completes : ∀ (o : List SockAns) (d : Bytes), (∀ a ∈ o, a ≠ .error) → (∃ k, SockAns.accept k ∈ o) →
    d.length ≤ (o.map gain).sum → (sendData d o).outcome = .ok
  | [], d, _, ⟨k, hk⟩, _ => by simp at hk
  | .error :: o, d, hne, _, _ => absurd rfl (hne .error (by simp))
  | .selTimeout :: o, d, hne, ⟨k, hk⟩, hs => by
    simp only [sendData]
    have hk' : SockAns.accept k ∈ o := by simpa using hk
    exact sendData_completes o d (fun a ha => hne a (by simp [ha])) ⟨k, hk'⟩ (by simpa [gain] using hs)
  | .wouldBlock :: o, d, hne, ⟨k, hk⟩, hs => by
    simp only [sendData]
    have hk' : SockAns.accept k ∈ o := by simpa using hk
    exact sendData_completes o d (fun a ha => hne a (by simp [ha])) ⟨k, hk'⟩ (by simpa [gain] using hs)
  | .accept k :: o, d, hne, _, hs => by
    simp only [sendData]
    split
    · rename_i hc
      simp only [List.length_drop] at hc
      simp only [List.map_cons, List.sum_cons, gain] at hs
      have hex := exists_accept_of_pos o (by omega)
      exact sendData_completes o (d.drop (min k d.length)) (fun a ha => hne a (by simp [ha])) hex
        (by simp only [List.length_drop]; omega)
    · rfl

/-! ## packets and blocks -/

/-- the packet loop writes a prefix of the concatenated packets; on `resolve(True)` all of them -/
theorem sendPackets_written : ∀ (ps : List Bytes) (o : List SockAns),
    ∃ t, ps.flatten = (sendPackets ps o).written ++ t ∧ ((sendPackets ps o).outcome = .ok → t = [])
  | [], o => ⟨[], by simp [sendPackets], fun _ => rfl⟩
  | p :: ps, o => by
    obtain ⟨t1, h1, hok1⟩ := sendData_written o p
    simp only [sendPackets]
    cases hr : (sendData p o).outcome with
    | ok =>
      simp only
      obtain ⟨t2, h2, hok2⟩ := sendPackets_written ps (sendData p o).rest
      have ht1 : t1 = [] := hok1 hr
      have hp : (sendData p o).written = p := by rw [ht1, List.append_nil] at h1; exact h1.symm
      refine ⟨t2, ?_, hok2⟩
      rw [List.flatten_cons, h2, List.append_assoc, hp]
    | fail =>
      simp only
      refine ⟨t1 ++ ps.flatten, ?_, by intro h; cases h⟩
      rw [List.flatten_cons, ← List.append_assoc, ← h1]
    | pending =>
      simp only
      refine ⟨t1 ++ ps.flatten, ?_, by intro h; cases h⟩
      rw [List.flatten_cons, ← List.append_assoc, ← h1]

/-- the packet split loses, duplicates and reorders nothing (for the generated size and any other positive size) -/
theorem packets_concat (size : Nat) (hs : 0 < size) (d : Bytes) : (Model.SecsI.chunks size d).flatten = d :=
  Proofs.SecsI.chunks_flatten size hs d.length d (Nat.le_refl _)

theorem sendBlock_written (size : Nat) (hs : 0 < size) (d : Bytes) (o : List SockAns) :
    ∃ t, d = (sendBlock size d o).written ++ t ∧ ((sendBlock size d o).outcome = .ok → t = []) := by
  obtain ⟨t, h, hok⟩ := sendPackets_written (Model.SecsI.chunks size d) o
  rw [packets_concat size hs d] at h
  exact ⟨t, h, hok⟩

/-- one run of the queue: the blocks resolved `True` were written completely, in queue order, followed by a prefix of the next block -/
theorem processQueue_written (size : Nat) (hs : 0 < size) : ∀ (q : List Bytes) (o : List SockAns),
    let r := processQueue size q o
    let n := (r.resolved.filter (· = true)).length
    ∃ part t, r.written = (q.take n).flatten ++ part ∧ (q.drop n).head?.getD [] = part ++ t
      ∧ (r.resolved = List.replicate q.length true → part = [] ∧ r.queue = [] ∧ r.pending = false)
      ∧ n ≤ q.length
  | [], o => ⟨[], [], by simp [processQueue], by simp [processQueue], by simp [processQueue], by simp [processQueue]⟩
  | b :: q, o => by
    obtain ⟨t1, h1, hok1⟩ := sendBlock_written size hs b o
    simp only [processQueue]
    cases hr : (sendBlock size b o).outcome with
    | ok =>
      simp only
      obtain ⟨part, t, hw, hh, hall, hn⟩ := processQueue_written size hs q (sendBlock size b o).rest
      have ht1 : t1 = [] := hok1 hr
      refine ⟨part, t, ?_, ?_, ?_, ?_⟩
      · simp only [List.filter_cons_of_pos, List.length_cons, List.take_succ_cons, List.flatten_cons, decide_true]
        have hp : (sendBlock size b o).written = b := by rw [ht1, List.append_nil] at h1; exact h1.symm
        rw [hw, List.append_assoc, hp]
      · simpa using hh
      · intro hrep
        simp only [List.length_cons, List.replicate_succ, List.cons.injEq, true_and] at hrep
        exact hall hrep
      · simp only [List.filter_cons_of_pos, List.length_cons, decide_true]; omega
    | fail =>
      simp only
      refine ⟨(sendBlock size b o).written, t1, by simp, by simpa using h1, ?_, by simp⟩
      intro hrep; simp [List.replicate_succ] at hrep
    | pending =>
      simp only
      refine ⟨(sendBlock size b o).written, t1, by simp, by simpa using h1, ?_, by simp⟩
      intro hrep; simp [List.replicate_succ] at hrep

end SecsModel.Proofs.HsmsTcpSend
