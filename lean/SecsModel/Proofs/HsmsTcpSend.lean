import SecsModel.Model.TcpSend
import SecsModel.Proofs.SecsI
import SecsModel.Proofs.HsmsRx
/-! Lemmas about the hand model `Model.TcpSend` (`send_data`, packet split, send queue) and its composition with `Model.Rx`. -/
namespace SecsModel.Proofs.HsmsTcpSend
open SecsModel SecsModel.Model.TcpSend

/-- bytes written are a prefix of the data; on `True` they are all of it -/
theorem sendData_written : ∀ (o : List SockAns) (d : Bytes),
    ∃ t, d = (sendData d o).written ++ t ∧ ((sendData d o).outcome = .ok → t = [])
  | [], d => ⟨d, by simp [sendData], by simp [sendData]⟩
  | .selTimeout :: o, d => by simpa [sendData] using sendData_written o d
  | .wouldBlock :: o, d => by simpa [sendData] using sendData_written o d
  | .error :: o, d => ⟨d, by simp [sendData], by simp [sendData]⟩
  | .accept k :: o, d => by
    simp only [sendData]
    split
    · obtain ⟨t, ht, hok⟩ := sendData_written o (d.drop (min k d.length))
      refine ⟨t, ?_, hok⟩
      simp only [List.append_assoc]
      rw [← ht, List.take_append_drop]
    · rename_i h
      have hl : (d.drop (min k d.length)).length = 0 := by omega
      have hnil : d.drop (min k d.length) = [] := List.length_eq_zero_iff.mp hl
      refine ⟨[], ?_, fun _ => rfl⟩
      have := List.take_append_drop (min k d.length) d
      rw [hnil] at this
      simpa using this.symm

/-- `False` is returned only when the socket raised a non-`EWOULDBLOCK` error, and that answer is consumed -/
theorem sendData_fail : ∀ (o : List SockAns) (d : Bytes), (sendData d o).outcome = .fail →
    ∃ pre, o = pre ++ .error :: (sendData d o).rest ∧ ∀ a ∈ pre, a ≠ .error
  | [], d, h => by simp [sendData] at h
  | .selTimeout :: o, d, h => by
    simp only [sendData] at h ⊢
    obtain ⟨pre, hp, hn⟩ := sendData_fail o d h
    refine ⟨.selTimeout :: pre, by rw [List.cons_append, ← hp], ?_⟩
    intro a ha; rcases List.mem_cons.mp ha with rfl | ha
    · intro e; cases e
    · exact hn a ha
  | .wouldBlock :: o, d, h => by
    simp only [sendData] at h ⊢
    obtain ⟨pre, hp, hn⟩ := sendData_fail o d h
    refine ⟨.wouldBlock :: pre, by rw [List.cons_append, ← hp], ?_⟩
    intro a ha; rcases List.mem_cons.mp ha with rfl | ha
    · intro e; cases e
    · exact hn a ha
  | .error :: o, d, _ => ⟨[], by simp [sendData], by simp⟩
  | .accept k :: o, d, h => by
    simp only [sendData] at h ⊢
    split at h
    · rename_i hc
      simp only [hc, if_true]
      obtain ⟨pre, hp, hn⟩ := sendData_fail o _ h
      refine ⟨.accept k :: pre, by rw [List.cons_append, ← hp], ?_⟩
      intro a ha; rcases List.mem_cons.mp ha with rfl | ha
      · intro e; cases e
      · exact hn a ha
    · simp at h

/-- bytes an answer can take -/
def gain : SockAns → Nat
  | .accept k => k
  | _ => 0

theorem exists_accept_of_pos : ∀ (o : List SockAns), 0 < (o.map gain).sum → ∃ k, SockAns.accept k ∈ o
  | [], h => by simp at h
  | .accept k :: _, _ => ⟨k, by simp⟩
  | .selTimeout :: o, h => by
    obtain ⟨k, hk⟩ := exists_accept_of_pos o (by simpa [gain] using h)
    exact ⟨k, by simp [hk]⟩
  | .wouldBlock :: o, h => by
    obtain ⟨k, hk⟩ := exists_accept_of_pos o (by simpa [gain] using h)
    exact ⟨k, by simp [hk]⟩
  | .error :: o, h => by
    obtain ⟨k, hk⟩ := exists_accept_of_pos o (by simpa [gain] using h)
    exact ⟨k, by simp [hk]⟩

/-- if the socket never raises an error, is written to at least once and takes enough bytes in total, `send_data` returns `True` -/
theorem sendData_completes : ∀ (o : List SockAns) (d : Bytes), (∀ a ∈ o, a ≠ .error) → (∃ k, SockAns.accept k ∈ o) →
    d.length ≤ (o.map gain).sum → (sendData d o).outcome = .ok
  | [], d, _, ⟨k, hk⟩, _ => by simp at hk
  | .error :: o, d, hne, _, _ => absurd rfl (hne .error (by simp))
  | .selTimeout :: o, d, hne, ⟨k, hk⟩, hs => by
    simp only [sendData]
    have hk' : SockAns.accept k ∈ o := by simpa using hk
    exact sendData_completes o d (fun a ha => hne a (by simp [ha])) ⟨k, hk'⟩ (by simpa [gain] using hs)
  | .wouldBlock :: o, d, hne, ⟨k, hk⟩, hs => by
    simp only [sendData]
    have hk' : SockAns.accept k ∈ o := by simpa using hk
    exact sendData_completes o d (fun a ha => hne a (by simp [ha])) ⟨k, hk'⟩ (by simpa [gain] using hs)
  | .accept k :: o, d, hne, _, hs => by
    simp only [sendData]
    split
    · rename_i hc
      simp only [List.length_drop] at hc
      simp only [List.map_cons, List.sum_cons, gain] at hs
      have hex := exists_accept_of_pos o (by omega)
      exact sendData_completes o (d.drop (min k d.length)) (fun a ha => hne a (by simp [ha])) hex
        (by simp only [List.length_drop]; omega)
    · rfl

/-! ## packets and blocks -/

/-- the packet loop writes a prefix of the concatenated packets; on `resolve(True)` all of them -/
theorem sendPackets_written : ∀ (ps : List Bytes) (o : List SockAns),
    ∃ t, ps.flatten = (sendPackets ps o).written ++ t ∧ ((sendPackets ps o).outcome = .ok → t = [])
  | [], o => ⟨[], by simp [sendPackets], fun _ => rfl⟩
  | p :: ps, o => by
    obtain ⟨t1, h1, hok1⟩ := sendData_written o p
    simp only [sendPackets]
    cases hr : (sendData p o).outcome with
    | ok =>
      simp only
      obtain ⟨t2, h2, hok2⟩ := sendPackets_written ps (sendData p o).rest
      have ht1 : t1 = [] := hok1 hr
      have hp : (sendData p o).written = p := by rw [ht1, List.append_nil] at h1; exact h1.symm
      refine ⟨t2, ?_, hok2⟩
      rw [List.flatten_cons, h2, List.append_assoc, hp]
    | fail =>
      simp only
      refine ⟨t1 ++ ps.flatten, ?_, by intro h; cases h⟩
      rw [List.flatten_cons, ← List.append_assoc, ← h1]
    | pending =>
      simp only
      refine ⟨t1 ++ ps.flatten, ?_, by intro h; cases h⟩
      rw [List.flatten_cons, ← List.append_assoc, ← h1]

/-- the packet split loses, duplicates and reorders nothing (for the generated size and any other positive size) -/
theorem packets_concat (size : Nat) (hs : 0 < size) (d : Bytes) : (Model.SecsI.chunks size d).flatten = d :=
  Proofs.SecsI.chunks_flatten size hs d.length d (Nat.le_refl _)

theorem sendBlock_written (size : Nat) (hs : 0 < size) (d : Bytes) (o : List SockAns) :
    ∃ t, d = (sendBlock size d o).written ++ t ∧ ((sendBlock size d o).outcome = .ok → t = []) := by
  obtain ⟨t, h, hok⟩ := sendPackets_written (Model.SecsI.chunks size d) o
  rw [packets_concat size hs d] at h
  exact ⟨t, h, hok⟩

/-! ## the queue -/

theorem allErr_sticky : ∀ (o : List SockAns), AllErr o → Sticky o
  | [], _ => trivial
  | .error :: o, h => fun a ha => h a (by simp [ha])
  | .selTimeout :: o, h => absurd (h .selTimeout (by simp)) (by intro e; cases e)
  | .wouldBlock :: o, h => absurd (h .wouldBlock (by simp)) (by intro e; cases e)
  | .accept k :: o, h => absurd (h (.accept k) (by simp)) (by intro e; cases e)

/-- `send_data` on a sticky socket: after `True` the socket is still sticky, after `False` it only fails any more -/
theorem sendData_sticky : ∀ (o : List SockAns) (d : Bytes), Sticky o →
    ((sendData d o).outcome = .ok → Sticky (sendData d o).rest) ∧ ((sendData d o).outcome = .fail → AllErr (sendData d o).rest)
  | [], d, _ => by simp [sendData]
  | .selTimeout :: o, d, h => by simpa [sendData] using sendData_sticky o d h
  | .wouldBlock :: o, d, h => by simpa [sendData] using sendData_sticky o d h
  | .error :: o, d, h => by
    simp only [sendData]
    exact ⟨(fun e => nomatch e), (fun _ => h)⟩
  | .accept k :: o, d, h => by
    simp only [sendData]
    split
    · exact sendData_sticky o _ h
    · exact ⟨(fun _ => h), (fun e => nomatch e)⟩

/-- on a socket that only fails nothing is written and nothing succeeds -/
theorem sendData_allErr : ∀ (o : List SockAns) (d : Bytes), AllErr o →
    (sendData d o).written = [] ∧ AllErr (sendData d o).rest ∧ (sendData d o).outcome ≠ .ok
  | [], d, _ => by simp [sendData, AllErr]
  | .error :: o, d, h => by
    refine ⟨rfl, ?_, ?_⟩
    · intro a ha; exact h a (by simp only [sendData] at ha; simp [ha])
    · simp [sendData]
  | .selTimeout :: o, d, h => absurd (h .selTimeout (by simp)) (by intro e; cases e)
  | .wouldBlock :: o, d, h => absurd (h .wouldBlock (by simp)) (by intro e; cases e)
  | .accept k :: o, d, h => absurd (h (.accept k) (by simp)) (by intro e; cases e)

theorem sendPackets_sticky : ∀ (ps : List Bytes) (o : List SockAns), Sticky o →
    ((sendPackets ps o).outcome = .ok → Sticky (sendPackets ps o).rest) ∧ ((sendPackets ps o).outcome = .fail → AllErr (sendPackets ps o).rest)
  | [], o, h => by simp [sendPackets, h]
  | p :: ps, o, h => by
    have h1 := sendData_sticky o p h
    simp only [sendPackets]
    cases hr : (sendData p o).outcome with
    | ok => simp only; exact sendPackets_sticky ps _ (h1.1 hr)
    | fail => simp only; exact ⟨(fun e => nomatch e), (fun _ => h1.2 hr)⟩
    | pending => simp only; exact ⟨(fun e => nomatch e), (fun e => nomatch e)⟩

theorem sendPackets_allErr : ∀ (ps : List Bytes) (o : List SockAns), AllErr o →
    (sendPackets ps o).written = [] ∧ AllErr (sendPackets ps o).rest
  | [], o, h => by simp [sendPackets, h]
  | p :: ps, o, h => by
    obtain ⟨hw, hr, hne⟩ := sendData_allErr o p h
    simp only [sendPackets]
    cases ho : (sendData p o).outcome with
    | ok => exact absurd ho hne
    | fail => exact ⟨hw, hr⟩
    | pending => exact ⟨hw, hr⟩

theorem processQueue_allErr (size : Nat) : ∀ (q : List Bytes) (o : List SockAns), AllErr o → (processQueue size q o).written = []
  | [], o, _ => by simp [processQueue, QRes.written]
  | b :: q, o, h => by
    obtain ⟨hw, hr⟩ := sendPackets_allErr (Model.SecsI.chunks size b) o h
    have hw' : (sendBlock size b o).written = [] := hw
    have hr' : AllErr (sendBlock size b o).rest := hr
    have ih := processQueue_allErr size q _ hr'
    simp only [QRes.written] at ih
    cases ho : (sendBlock size b o).outcome with
    | ok => simp only [processQueue, ho, QRes.written, List.flatten_cons, hw', ih, List.append_nil]
    | fail => simp only [processQueue, ho, QRes.written, List.flatten_cons, hw', ih, List.append_nil]
    | pending => simp only [processQueue, ho, QRes.written, List.flatten_cons, hw', List.flatten_nil, List.append_nil]

/-- **every block gets its own result**: for each block taken from the queue what was written for it is a prefix of it, and all of it if it
was resolved `True` (for every oracle; the run goes on after a failed block) -/
theorem processQueue_blocks (size : Nat) (hs : 0 < size) : ∀ (q : List Bytes) (o : List SockAns),
    (processQueue size q o).resolved.length ≤ q.length
    ∧ (processQueue size q o).parts.length = (processQueue size q o).resolved.length + (if (processQueue size q o).pending then 1 else 0)
    ∧ (∀ x ∈ List.zip (processQueue size q o).parts q, x.1 <+: x.2)
    ∧ (∀ x ∈ List.zip (processQueue size q o).resolved (List.zip (processQueue size q o).parts q), x.1 = true → x.2.1 = x.2.2)
    ∧ ((processQueue size q o).pending = false → (processQueue size q o).resolved.length = q.length ∧ (processQueue size q o).queue = [])
  | [], o => by simp [processQueue]
  | b :: q, o => by
    obtain ⟨t1, h1, hok1⟩ := sendBlock_written size hs b o
    obtain ⟨a1, a2, a3, a4, a5⟩ := processQueue_blocks size hs q (sendBlock size b o).rest
    have hpre : (sendBlock size b o).written <+: b := ⟨t1, h1.symm⟩
    cases hr : (sendBlock size b o).outcome with
    | ok =>
      have hp : (sendBlock size b o).written = b := by have := hok1 hr; rw [this, List.append_nil] at h1; exact h1.symm
      simp only [processQueue, hr]
      refine ⟨by simp; omega, by simp [a2]; omega, ?_, ?_, ?_⟩
      · intro x hx
        simp only [List.zip_cons_cons, List.mem_cons] at hx
        rcases hx with rfl | hx
        · exact hpre
        · exact a3 x hx
      · intro x hx hres
        simp only [List.zip_cons_cons, List.mem_cons] at hx
        rcases hx with rfl | hx
        · exact hp
        · exact a4 x hx hres
      · intro hpend
        obtain ⟨b1, b2⟩ := a5 hpend
        exact ⟨by simp [b1], b2⟩
    | fail =>
      simp only [processQueue, hr]
      refine ⟨by simp; omega, by simp [a2]; omega, ?_, ?_, ?_⟩
      · intro x hx
        simp only [List.zip_cons_cons, List.mem_cons] at hx
        rcases hx with rfl | hx
        · exact hpre
        · exact a3 x hx
      · intro x hx hres
        simp only [List.zip_cons_cons, List.mem_cons] at hx
        rcases hx with rfl | hx
        · simp at hres
        · exact a4 x hx hres
      · intro hpend
        obtain ⟨b1, b2⟩ := a5 hpend
        exact ⟨by simp [b1], b2⟩
    | pending =>
      simp only [processQueue, hr]
      refine ⟨by simp, by simp, ?_, by simp, by simp⟩
      intro x hx
      simp only [List.zip_cons_cons, List.zip_nil_left, List.mem_cons, List.not_mem_nil, or_false] at hx
      subst hx
      exact hpre

theorem leadTrue_le : ∀ (l : List Bool), leadTrue l ≤ l.length
  | [] => by simp [leadTrue]
  | true :: l => by simp [leadTrue]; exact leadTrue_le l
  | false :: l => by simp [leadTrue]

theorem leadTrue_replicate (n : Nat) : leadTrue (List.replicate n true) = n := by
  induction n with
  | zero => rfl
  | succ n ih => simp [List.replicate_succ, leadTrue, ih]

/-- **on a socket that stays failed once it failed**: the byte stream of one run is the leading blocks resolved `True`, complete and in
queue order, followed by a prefix of the next block — and nothing of any later block -/
theorem processQueue_written (size : Nat) (hs : 0 < size) : ∀ (q : List Bytes) (o : List SockAns), Sticky o →
    let r := processQueue size q o
    let n := leadTrue r.resolved
    ∃ part t, r.written = (q.take n).flatten ++ part ∧ (q.drop n).head?.getD [] = part ++ t
      ∧ (r.resolved = List.replicate q.length true → part = [] ∧ r.queue = [] ∧ r.pending = false)
      ∧ n ≤ q.length
  | [], o, _ => ⟨[], [], by simp [processQueue, QRes.written, leadTrue], by simp [processQueue, leadTrue], by simp [processQueue],
      by simp [processQueue, leadTrue]⟩
  | b :: q, o, hst => by
    obtain ⟨t1, h1, hok1⟩ := sendBlock_written size hs b o
    have hsp := sendPackets_sticky (Model.SecsI.chunks size b) o hst
    simp only [processQueue]
    cases hr : (sendBlock size b o).outcome with
    | ok =>
      simp only
      obtain ⟨part, t, hw, hh, hall, hn⟩ := processQueue_written size hs q (sendBlock size b o).rest (hsp.1 hr)
      have ht1 : t1 = [] := hok1 hr
      have hp : (sendBlock size b o).written = b := by rw [ht1, List.append_nil] at h1; exact h1.symm
      refine ⟨part, t, ?_, ?_, ?_, ?_⟩
      · simp only [QRes.written, leadTrue, List.flatten_cons, List.take_succ_cons] at hw ⊢
        rw [hw, List.append_assoc, hp]
      · simpa [leadTrue] using hh
      · intro hrep
        simp only [List.length_cons, List.replicate_succ, List.cons.injEq, true_and] at hrep
        exact hall hrep
      · simp only [leadTrue, List.length_cons]; omega
    | fail =>
      simp only
      have hall : AllErr (sendBlock size b o).rest := hsp.2 hr
      have hw0 := processQueue_allErr size q _ hall
      refine ⟨(sendBlock size b o).written, t1, ?_, by simpa [leadTrue] using h1, ?_, by simp [leadTrue]⟩
      · simp only [QRes.written, leadTrue, List.flatten_cons] at hw0 ⊢
        simp [hw0]
      · intro hrep; simp [List.replicate_succ] at hrep
    | pending =>
      simp only
      refine ⟨(sendBlock size b o).written, t1, by simp [QRes.written, leadTrue], by simpa [leadTrue] using h1, ?_, by simp [leadTrue]⟩
      intro hrep; simp [List.replicate_succ] at hrep

end SecsModel.Proofs.HsmsTcpSend
