import SecsModel.Model.Hsms
/-!
# Proofs.HsmsFsm — evaluation lemmas for `Model.Hsms` on the generated tables

Everything here is a closed computation on `Gen.ConnSM` / `Gen.HsmsProto` (closed by `rfl`/`decide`), or a one-step
unfolding of the model.  A change of the generated tables breaks these lemmas first.
-/
namespace SecsModel.Proofs.HsmsFsm
open SecsModel SecsModel.Model.Hsms
open SecsModel.Spec.E37 (Conn)

/-! ### the generated engine table, evaluated -/

theorem smCall_connect_nc : smCall .notConnected "connect" = .ok .notSelected := by rfl
theorem smCall_connect_ns : smCall .notSelected "connect" = .error .wrongSource := by rfl
theorem smCall_connect_sel : smCall .selected "connect" = .error .wrongSource := by rfl
theorem smCall_disconnect_nc : smCall .notConnected "disconnect" = .error .wrongSource := by rfl
theorem smCall_disconnect_ns : smCall .notSelected "disconnect" = .ok .notConnected := by rfl
theorem smCall_disconnect_sel : smCall .selected "disconnect" = .ok .notConnected := by rfl
theorem smCall_select_nc : smCall .notConnected "select" = .error .wrongSource := by rfl
theorem smCall_select_ns : smCall .notSelected "select" = .ok .selected := by rfl
theorem smCall_select_sel : smCall .selected "select" = .error .wrongSource := by rfl
theorem smCall_deselect_nc : smCall .notConnected "deselect" = .error .wrongSource := by rfl
theorem smCall_deselect_ns : smCall .notSelected "deselect" = .error .wrongSource := by rfl
theorem smCall_deselect_sel : smCall .selected "deselect" = .ok .notSelected := by rfl

theorem entersConnected_eq (c c' : Conn) :
    entersConnected c c' = (decide (c = .notConnected) && decide (c' ≠ .notConnected)) := by
  cases c <;> cases c' <;> rfl

theorem leavesConnected_eq (c c' : Conn) :
    leavesConnected c c' = (decide (c ≠ .notConnected) && decide (c' = .notConnected)) := by
  cases c <;> cases c' <;> rfl

theorem entersSelected_eq (c' : Conn) : entersSelected c' = decide (c' = .selected) := by
  cases c' <;> rfl

/-! ### the generated handler bodies, parsed -/

theorem onConnected_parsed : Gen.HsmsProto.onConnected.map parseStmt = [.setConnected, .sm "connect", .threadStart, .fire "connected"] := by
  decide
theorem onDisconnecting_parsed : Gen.HsmsProto.onDisconnecting.map parseStmt = [.sendSeparate] := by decide
theorem onDisconnected_parsed :
    Gen.HsmsProto.onDisconnected.map parseStmt = [.setConnected, .sm "disconnect", .threadStop, .bufferClear, .fire "disconnected"] := by
  decide

theorem execStmts_eq (ps : List String) (s : St) (o : List Out) : execStmts ps s o = execParsed (ps.map parseStmt) s o := rfl

/-! ### the connection events, unfolded -/

@[simp] theorem closeSys_conn (s : St) (sys : Int) : (closeSys s sys).conn = s.conn := by
  unfold closeSys; simp only; split <;> rfl
@[simp] theorem closeSys_disc (s : St) (sys : Int) : (closeSys s sys).disconnecting = s.disconnecting := by
  unfold closeSys; simp only; split <;> rfl
@[simp] theorem closeSys_active (s : St) (sys : Int) : (closeSys s sys).active = s.active := by
  unfold closeSys; simp only; split <;> rfl

theorem afterTransition_conn (s : St) (c' : Conn) : (afterTransition s c').1.conn = c' := by
  obtain ⟨c, dc, ac, ctr, opn, lts, lto⟩ := s
  cases c <;> cases c' <;> cases ac <;> simp [afterTransition, entersConnected_eq, leavesConnected_eq, sendReq, startTimer, cancelTimer]

theorem afterTransition_disc (s : St) (c' : Conn) : (afterTransition s c').1.disconnecting = s.disconnecting := by
  obtain ⟨c, dc, ac, ctr, opn, lts, lto⟩ := s
  cases c <;> cases c' <;> cases ac <;> simp [afterTransition, entersConnected_eq, leavesConnected_eq, sendReq, startTimer, cancelTimer]

/-- `_on_connected` from NOT CONNECTED -/
theorem connect_nc (s : St) (h : s.conn = .notConnected) :
    execStmts Gen.HsmsProto.onConnected s [] =
      (if s.active then
        ({ startTimer s with conn := .notSelected, ctr := nextCtr s.ctr,
                             opn := s.opn.filter (fun e => e.1 != nextCtr s.ctr) ++ [(nextCtr s.ctr, .select)] },
          [.tx SType.selectReq.code (nextCtr s.ctr) 0 0, .evt "connected"])
       else ({ startTimer s with conn := .notSelected }, [.evt "connected"])) := by
  rw [execStmts_eq, onConnected_parsed]
  simp only [execParsed, h, smCall_connect_nc, afterTransition, entersConnected_eq, leavesConnected_eq, entersSelected_eq]
  cases ha : s.active <;> simp [sendReq, Req.stype, startTimer]

/-- the close sequence from a connected state -/
theorem closeSeq_connected (s : St) (h : s.conn ≠ .notConnected) :
    closeSeq s = ({ s with conn := .notConnected, disconnecting := false, ctr := nextCtr s.ctr, ltStored := false },
      [.tx SType.separateReq.code (nextCtr s.ctr) 0 0, .evt "disconnected"]) := by
  unfold closeSeq
  rw [execStmts_eq, onDisconnecting_parsed]
  simp only [execParsed]
  rw [execStmts_eq, onDisconnected_parsed]
  cases hc : s.conn with
  | notConnected => exact absurd hc h
  | notSelected =>
    simp [execParsed, smCall_disconnect_ns, afterTransition, entersConnected_eq, leavesConnected_eq, entersSelected_eq, cancelTimer]
  | selected =>
    simp [execParsed, smCall_disconnect_sel, afterTransition, entersConnected_eq, leavesConnected_eq, entersSelected_eq, cancelTimer]

/-! ### the accept race: the reachable set of the two-thread system, computed and checked closed -/
open Race

def addNew (acc : List RSt) (s : RSt) : List RSt := if acc.contains s then acc else acc ++ [s]

def expand (xs : List RSt) : List RSt := xs.foldl (fun acc s => addNew (addNew acc (stepA s)) (stepD s)) xs

def reachN : Nat → List RSt → List RSt
  | 0, xs => xs
  | n + 1, xs => reachN n (expand xs)

/-- everything reachable (any schedule) from the initial state of the generated `_on_connected` order -/
def reachable : List RSt := reachN 8 [init Gen.HsmsProto.onConnected]

theorem reachable_init : reachable.contains (init Gen.HsmsProto.onConnected) = true := by decide +kernel

theorem reachable_closed : reachable.all (fun s => reachable.contains (stepA s) && reachable.contains (stepD s)) = true := by
  decide +kernel

theorem reachable_safe : reachable.all (fun s => !(isFinal s && s.rspSent) || s.conn == .selected) = true := by
  decide +kernel

theorem run_reachable (sched : List Bool) (s : RSt) (h : reachable.contains s = true) : reachable.contains (runSched s sched) = true := by
  induction sched generalizing s with
  | nil => exact h
  | cons b bs ih =>
    have hc := List.all_eq_true.mp reachable_closed s (List.contains_iff_mem.mp h)
    simp only [Bool.and_eq_true] at hc
    cases b
    · exact ih _ hc.2
    · exact ih _ hc.1

theorem race_safe (sched : List Bool) :
    isFinal (runSched (init Gen.HsmsProto.onConnected) sched) = true →
    (runSched (init Gen.HsmsProto.onConnected) sched).rspSent = true →
    (runSched (init Gen.HsmsProto.onConnected) sched).conn = .selected := by
  intro hf hr
  have hm := List.contains_iff_mem.mp (run_reachable sched _ reachable_init)
  have hs := List.all_eq_true.mp reachable_safe _ hm
  simp only [hf, hr, Bool.and_self, Bool.not_true, Bool.false_or, beq_iff_eq] at hs
  exact hs

end SecsModel.Proofs.HsmsFsm
