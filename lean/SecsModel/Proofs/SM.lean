import SecsModel.Model.SM
import SecsModel.Spec.SM
/-!
# Proofs.SM — lemmas about the engine model

* ancestors (`chain`) under `WF`;
* `Walk`: the states a `leave`/`enter` chain visits (lock-step parent comparison), and the set identity behind
  "afterwards exactly the destination and its ancestors are active" for arbitrary forests;
* the closed form of a handler-free transition.
-/
namespace SecsModel.Proofs.SM
open SecsModel.Model.SM

/-! ## chain -/

theorem chainF_fuel {m : MDef} (wf : WF m) : ∀ f g p, p ≤ f → p ≤ g → chainF m f p = chainF m g p := by
  intro f
  induction f with
  | zero =>
    intro g p hp _
    have : p = 0 := by omega
    subst this
    cases g with
    | zero => rfl
    | succ g =>
      simp only [chainF]
      cases hq : m.parent 0 with
      | none => rfl
      | some q => exact absurd (wf 0 q hq) (by omega)
  | succ f ih =>
    intro g p hp hg
    cases g with
    | zero =>
      have : p = 0 := by omega
      subst this
      simp only [chainF]
      cases hq : m.parent 0 with
      | none => rfl
      | some q => exact absurd (wf 0 q hq) (by omega)
    | succ g =>
      simp only [chainF]
      cases hq : m.parent p with
      | none => rfl
      | some q =>
        have := wf p q hq
        simp only
        rw [ih g q (by omega) (by omega)]

theorem chain_none {m : MDef} {s : Nat} (h : m.parent s = none) : chain m s = [s] := by
  unfold chain
  cases s with
  | zero => rfl
  | succ k => simp only [chainF, h]

theorem chain_some {m : MDef} (wf : WF m) {s p : Nat} (h : m.parent s = some p) : chain m s = s :: chain m p := by
  unfold chain
  have hlt := wf s p h
  cases s with
  | zero => omega
  | succ k =>
    simp only [chainF, h]
    rw [chainF_fuel wf k p p (by omega) (Nat.le_refl _)]

theorem mem_chain_le {m : MDef} (wf : WF m) : ∀ s x, x ∈ chain m s → x ≤ s := by
  intro s
  induction s using Nat.strongRecOn with
  | ind s ih =>
    intro x hx
    cases hp : m.parent s with
    | none =>
      rw [chain_none hp] at hx
      simp at hx; omega
    | some p =>
      rw [chain_some wf hp] at hx
      have hlt := wf s p hp
      rcases List.mem_cons.mp hx with h | h
      · omega
      · have := ih p hlt x h; omega

theorem self_mem_chain {m : MDef} (s : Nat) : s ∈ chain m s := by
  unfold chain
  cases s with
  | zero => simp [chainF]
  | succ k =>
    simp only [chainF]
    cases m.parent (k+1) <;> simp

theorem not_mem_chain_parent {m : MDef} (wf : WF m) {s p : Nat} (h : m.parent s = some p) : s ∉ chain m p := by
  intro hm
  have := mem_chain_le wf p s hm
  have := wf s p h
  omega

/-! ## the states visited by a leave / enter chain -/

/-- `Walk m s other xs`: `State.leave`/`State.enter` called on `s` with argument `other` visits exactly `xs` (in this order) -/
inductive Walk (m : MDef) : Nat → Option Nat → List Nat → Prop
  | root {s other} : m.parent s = none → Walk m s other [s]
  | stop {s p other} : m.parent s = some p → goesUp m p other = false → Walk m s other [s]
  | up {s p other xs} : m.parent s = some p → goesUp m p other = true → Walk m p (other.bind m.parent) xs →
      Walk m s other (s :: xs)

/-- with no counterpart (`destination is None`) the walk goes to the root -/
theorem walk_none {m : MDef} (wf : WF m) : ∀ s xs, Walk m s none xs → xs = chain m s := by
  intro s
  induction s using Nat.strongRecOn with
  | ind s ih =>
    intro xs hw
    cases hw with
    | root hp => rw [chain_none hp]
    | stop hp hg => simp [goesUp] at hg
    | up hp hg hw' =>
      rw [chain_some wf hp]
      have := ih _ (wf _ _ hp) _ (by simpa using hw')
      rw [this]

/-- every walk is a prefix of the chain: its members are ancestors-or-self, the first is `s` -/
theorem walk_sub_chain {m : MDef} (wf : WF m) : ∀ s other xs, Walk m s other xs → ∀ x, x ∈ xs → x ∈ chain m s := by
  intro s
  induction s using Nat.strongRecOn with
  | ind s ih =>
    intro other xs hw x hx
    cases hw with
    | root hp => rw [chain_none hp]; exact hx
    | stop hp hg => rw [chain_some wf hp]; simp at hx; simp [hx]
    | up hp hg hw' =>
      rw [chain_some wf hp]
      rcases List.mem_cons.mp hx with h | h
      · simp [h]
      · exact List.mem_cons_of_mem _ (ih _ (wf _ _ hp) _ _ hw' x h)

/-- **The set identity.**  Leaving from `s` towards `d` and then entering `d` coming from `s`:
(ancestors-or-self of `s`, minus what was left) plus what was entered = ancestors-or-self of `d`.  Any forest. -/
theorem walk_sets {m : MDef} (wf : WF m) : ∀ s d xs ys, Walk m s (some d) xs → Walk m d (some s) ys →
    ∀ x, ((x ∈ chain m s ∧ x ∉ xs) ∨ x ∈ ys) ↔ x ∈ chain m d := by
  intro s
  induction s using Nat.strongRecOn with
  | ind s ih =>
    intro d xs ys hl he x
    cases hl with
    | root hp =>
      rw [chain_none hp]
      cases he with
      | root hq => rw [chain_none hq]; simp
      | stop hq hg => simp [goesUp, hp] at hg
      | up hq hg he' =>
        simp only [Option.bind_some, hp] at he'
        have := walk_none wf _ _ he'
        rw [chain_some wf hq, this]; simp
    | stop hp hg =>
      -- the destination has the same parent
      simp only [goesUp, bne_eq_false_iff_eq] at hg
      cases he with
      | root hq => rw [hq] at hg; cases hg
      | stop hq hg' =>
        rw [hq] at hg; cases hg
        rw [chain_some wf hp, chain_some wf hq]
        have := not_mem_chain_parent wf hp
        simp only [List.mem_cons, List.not_mem_nil, or_false]
        constructor
        · rintro (⟨h1 | h1, h2⟩ | h)
          · exact absurd h1 h2
          · exact Or.inr h1
          · exact Or.inl h
        · rintro (h | h)
          · exact Or.inr h
          · exact Or.inl ⟨Or.inr h, fun e => this (e ▸ h)⟩
      | up hq hg' he' =>
        rw [hq] at hg; cases hg
        simp [goesUp, hp] at hg'
    | up hp hg hl' =>
      have hsp := not_mem_chain_parent wf hp
      cases he with
      | root hq =>
        simp only [Option.bind_some, hq] at hl'
        have := walk_none wf _ _ hl'
        rw [chain_some wf hp, chain_none hq, this]
        simp only [List.mem_cons, not_or]
        constructor
        · rintro (⟨h1 | h1, h2, h3⟩ | h)
          · exact absurd h1 h2
          · exact absurd h1 h3
          · exact h
        · exact Or.inr
      | stop hq hg' =>
        simp only [goesUp, bne_eq_false_iff_eq] at hg'
        simp only [goesUp, hq, bne_iff_ne, ne_eq] at hg
        rw [hp] at hg'; cases hg'; exact absurd rfl hg
      | up hq hg' he' =>
        simp only [Option.bind_some, hq] at hl'
        simp only [Option.bind_some, hp] at he'
        have IH := ih _ (wf _ _ hp) _ _ _ hl' he' x
        rw [chain_some wf hp, chain_some wf hq]
        simp only [List.mem_cons, not_or]
        constructor
        · rintro (⟨h1 | h1, h2, h3⟩ | h | h)
          · exact absurd h1 h2
          · exact Or.inr (IH.mp (Or.inl ⟨h1, h3⟩))
          · exact Or.inl h
          · exact Or.inr (IH.mp (Or.inr h))
        · rintro (h | h)
          · exact Or.inr (Or.inl h)
          · rcases IH.mpr h with ⟨h1, h2⟩ | h1
            · exact Or.inl ⟨Or.inr h1, fun e => hsp (e ▸ h1), h2⟩
            · exact Or.inr (Or.inr h1)

/-! ## closed form of a handler-free transition -/

def clearAll (a : Nat → Bool) (xs : List Nat) : Nat → Bool := fun x => if xs.contains x then false else a x
def setAll (a : Nat → Bool) (xs : List Nat) : Nat → Bool := fun x => if xs.contains x then true else a x

/-- handlers none of whose callbacks ever requests a transition (timers, sends, event forwarding …) -/
def Quiet (h : Handlers) : Prop := ∀ ev cb, cb ∈ h ev → ∀ st, cb st = []

theorem quiet_noHandlers : Quiet noHandlers := by
  intro ev cb hcb; simp [noHandlers] at hcb

theorem runCallbacks_quiet {m : MDef} {hh : Handlers} : ∀ (cbs : List Callback), (∀ cb, cb ∈ cbs → ∀ st, cb st = []) →
    ∀ f st, (∀ s1, runCallbacks m hh f st cbs = .ok s1 → s1 = st) ∧ (∀ e s1, runCallbacks m hh f st cbs = .fail e s1 → e = .fuel) := by
  intro cbs
  induction cbs with
  | nil =>
    intro _ f st
    cases f with
    | zero => simp [runCallbacks]
    | succ f => simp [runCallbacks]
  | cons cb rest ih =>
    intro hq f st
    have hcb : cb st = [] := hq cb (by simp) st
    have ih' := ih (fun c hc => hq c (by simp [hc]))
    cases f with
    | zero => simp [runCallbacks]
    | succ f =>
      simp only [runCallbacks, hcb]
      cases f with
      | zero => simp [performAll]
      | succ f =>
        have : performAll m hh (f+1) st [] = .ok st := rfl
        rw [this]
        exact ih' (f+1) st

theorem fire_noH {m : MDef} {hh : Handlers} (hq : Quiet hh) {f : Nat} {st s1 : St} {ev : Ev} (h : fire m hh f st ev = .ok s1) :
    s1 = { st with log := st.log ++ [ev] } := by
  cases f with
  | zero => simp [fire] at h
  | succ f =>
    simp only [fire] at h
    exact (runCallbacks_quiet (hh ev) (hq ev) f _).1 s1 h

theorem fire_noH_fail {m : MDef} {hh : Handlers} (hq : Quiet hh) {f : Nat} {st s1 : St} {ev : Ev} {e : Fail}
    (h : fire m hh f st ev = .fail e s1) : e = .fuel := by
  cases f with
  | zero => simp [fire] at h; exact h.1.symm
  | succ f =>
    simp only [fire] at h
    exact (runCallbacks_quiet (hh ev) (hq ev) f _).2 e s1 h

theorem leave_noH {m : MDef} {hh : Handlers} (hq : Quiet hh) : ∀ f st s dest st', leave m hh f st s dest = .ok st' →
    ∃ xs, Walk m s dest xs ∧ st'.cur = st.cur ∧ st'.active = clearAll st.active xs ∧ st'.log = st.log ++ xs.map .leave := by
  intro f
  induction f with
  | zero => intro st s dest st' h; simp [leave] at h
  | succ f ih =>
    intro st s dest st' h
    simp only [leave] at h
    cases hf : fire m hh f st (.leave s) with
    | fail e s1 => rw [hf] at h; simp at h
    | ok s1 =>
      rw [hf] at h
      have e1 := fire_noH hq hf
      subst e1
      simp only at h
      cases hp : m.parent s with
      | none =>
        rw [hp] at h; simp only [Out.ok.injEq] at h; subst h
        refine ⟨[s], Walk.root hp, rfl, ?_, by simp⟩
        funext x; simp [clearAll, setFlag, eq_comm]
      | some p =>
        rw [hp] at h; simp only at h
        cases hg : goesUp m p dest with
        | false =>
          rw [hg] at h; simp only [Bool.false_eq_true, ↓reduceIte, Out.ok.injEq] at h; subst h
          refine ⟨[s], Walk.stop hp hg, rfl, ?_, by simp⟩
          funext x; simp [clearAll, setFlag, eq_comm]
        | true =>
          rw [hg] at h; simp only [↓reduceIte] at h
          obtain ⟨xs, hw, hc, ha, hl⟩ := ih _ _ _ _ h
          refine ⟨s :: xs, Walk.up hp hg hw, hc, ?_, ?_⟩
          · rw [ha]; funext x
            simp only [clearAll, setFlag, List.contains_cons]
            by_cases hx : x = s
            · subst hx; simp
            · have : (x == s) = false := by simpa using hx
              simp [this, hx]
          · rw [hl]; simp

theorem leave_noH_fail {m : MDef} {hh : Handlers} (hq : Quiet hh) : ∀ f st s dest e st', leave m hh f st s dest = .fail e st' → e = .fuel := by
  intro f
  induction f with
  | zero => intro st s dest e st' h; simp [leave] at h; exact h.1.symm
  | succ f ih =>
    intro st s dest e st' h
    simp only [leave] at h
    cases hf : fire m hh f st (.leave s) with
    | fail e1 s1 => rw [hf] at h; simp at h; rw [← h.1]; exact fire_noH_fail hq hf
    | ok s1 =>
      rw [hf] at h; simp only at h
      cases hp : m.parent s with
      | none => rw [hp] at h; simp at h
      | some p =>
        rw [hp] at h; simp only at h
        cases hg : goesUp m p dest with
        | false => rw [hg] at h; simp at h
        | true => rw [hg] at h; simp only [↓reduceIte] at h; exact ih _ _ _ _ _ h

theorem enter_noH {m : MDef} {hh : Handlers} (hq : Quiet hh) : ∀ f st s src st', enter m hh f st s src = .ok st' →
    ∃ xs, Walk m s src xs ∧ st'.cur = st.cur ∧ st'.active = setAll st.active xs ∧ st'.log = st.log ++ xs.map .enter := by
  intro f
  induction f with
  | zero => intro st s src st' h; simp [enter] at h
  | succ f ih =>
    intro st s src st' h
    simp only [enter] at h
    cases hf : fire m hh f { st with active := setFlag st.active s true } (.enter s) with
    | fail e s1 => rw [hf] at h; simp at h
    | ok s1 =>
      rw [hf] at h
      have e1 := fire_noH hq hf
      subst e1
      simp only at h
      cases hp : m.parent s with
      | none =>
        rw [hp] at h; simp only [Out.ok.injEq] at h; subst h
        refine ⟨[s], Walk.root hp, rfl, ?_, by simp⟩
        funext x; simp [setAll, setFlag, eq_comm]
      | some p =>
        rw [hp] at h; simp only at h
        cases hg : goesUp m p src with
        | false =>
          rw [hg] at h; simp only [Bool.false_eq_true, ↓reduceIte, Out.ok.injEq] at h; subst h
          refine ⟨[s], Walk.stop hp hg, rfl, ?_, by simp⟩
          funext x; simp [setAll, setFlag, eq_comm]
        | true =>
          rw [hg] at h; simp only [↓reduceIte] at h
          obtain ⟨xs, hw, hc, ha, hl⟩ := ih _ _ _ _ h
          refine ⟨s :: xs, Walk.up hp hg hw, hc, ?_, ?_⟩
          · rw [ha]; funext x
            simp only [setAll, setFlag, List.contains_cons]
            by_cases hx : x = s
            · subst hx; simp
            · have : (x == s) = false := by simpa using hx
              simp [this, hx]
          · rw [hl]; simp

theorem enter_noH_fail {m : MDef} {hh : Handlers} (hq : Quiet hh) : ∀ f st s src e st', enter m hh f st s src = .fail e st' → e = .fuel := by
  intro f
  induction f with
  | zero => intro st s src e st' h; simp [enter] at h; exact h.1.symm
  | succ f ih =>
    intro st s src e st' h
    simp only [enter] at h
    cases hf : fire m hh f { st with active := setFlag st.active s true } (.enter s) with
    | fail e1 s1 => rw [hf] at h; simp at h; rw [← h.1]; exact fire_noH_fail hq hf
    | ok s1 =>
      rw [hf] at h; simp only at h
      cases hp : m.parent s with
      | none => rw [hp] at h; simp at h
      | some p =>
        rw [hp] at h; simp only at h
        cases hg : goesUp m p src with
        | false => rw [hg] at h; simp at h
        | true => rw [hg] at h; simp only [↓reduceIte] at h; exact ih _ _ _ _ _ h

/-- what a completed handler-free transition is -/
theorem perform_noH {m : MDef} {hh : Handlers} (hq : Quiet hh) {f : Nat} {st st' : St} {name : String} (h : perform m hh f st name = .ok st') :
    ∃ srcs dst xs ys, lookup m name = some (srcs, dst) ∧ srcs.contains st.cur = true ∧
      Walk m st.cur (some dst) xs ∧ Walk m dst (some st.cur) ys ∧
      st'.cur = dst ∧ st'.active = setAll (clearAll st.active xs) ys ∧
      st'.log = st.log ++ xs.map .leave ++ ys.map .enter ++ [.called name] := by
  cases f with
  | zero => simp [perform] at h
  | succ f =>
    simp only [perform] at h
    cases hl : lookup m name with
    | none => rw [hl] at h; simp at h
    | some sd =>
      obtain ⟨srcs, dst⟩ := sd
      rw [hl] at h; simp only at h
      cases hc : srcs.contains st.cur with
      | false => rw [hc] at h; simp at h
      | true =>
        rw [hc] at h; simp only [↓reduceIte] at h
        cases h1 : leave m hh f st st.cur (some dst) with
        | fail e s1 => rw [h1] at h; simp at h
        | ok s1 =>
          rw [h1] at h; simp only at h
          obtain ⟨xs, hw, hc1, ha1, hl1⟩ := leave_noH hq _ _ _ _ _ h1
          cases h2 : enter m hh f { s1 with cur := dst } dst (some s1.cur) with
          | fail e s2 => rw [h2] at h; simp at h
          | ok s2 =>
            rw [h2] at h; simp only at h
            obtain ⟨ys, hw2, hc2, ha2, hl2⟩ := enter_noH hq _ _ _ _ _ h2
            have e3 := fire_noH hq h
            subst e3
            rw [hc1] at hw2
            refine ⟨srcs, dst, xs, ys, rfl, hc, hw, hw2, ?_, ?_, ?_⟩
            · simpa using hc2
            · simp only; rw [ha2]; simp only; rw [ha1]
            · simp only; rw [hl2]; simp only; rw [hl1]

/-- a handler-free request that does not complete was rejected (nothing changed) or ran out of fuel -/
theorem perform_noH_fail {m : MDef} {hh : Handlers} (hq : Quiet hh) {f : Nat} {st st' : St} {name : String} {e : Fail}
    (h : perform m hh f st name = .fail e st') : e = .fuel ∨ ((e = .unknown ∨ e = .wrongSource) ∧ st' = st) := by
  cases f with
  | zero => simp [perform] at h; exact Or.inl h.1.symm
  | succ f =>
    simp only [perform] at h
    cases hl : lookup m name with
    | none => rw [hl] at h; simp at h; exact Or.inr ⟨Or.inl h.1.symm, h.2.symm⟩
    | some sd =>
      obtain ⟨srcs, dst⟩ := sd
      rw [hl] at h; simp only at h
      cases hc : srcs.contains st.cur with
      | false => rw [hc] at h; simp at h; exact Or.inr ⟨Or.inr h.1.symm, h.2.symm⟩
      | true =>
        rw [hc] at h; simp only [↓reduceIte] at h
        left
        cases h1 : leave m hh f st st.cur (some dst) with
        | fail e1 s1 => rw [h1] at h; simp at h; rw [← h.1]; exact leave_noH_fail hq _ _ _ _ _ _ h1
        | ok s1 =>
          rw [h1] at h; simp only at h
          cases h2 : enter m hh f { s1 with cur := dst } dst (some s1.cur) with
          | fail e2 s2 => rw [h2] at h; simp at h; rw [← h.1]; exact enter_noH_fail hq _ _ _ _ _ _ h2
          | ok s2 => rw [h2] at h; simp only at h; exact fire_noH_fail hq h

/-- (a) any forest, no handler requests: a completed transition re-establishes `active = ancestors-or-self of current` -/
theorem inv_noH {m : MDef} (wf : WF m) {hh : Handlers} (hq : Quiet hh) {f : Nat} {st st' : St} {name : String} (hinv : Inv m st)
    (h : perform m hh f st name = .ok st') : Inv m st' := by
  obtain ⟨srcs, dst, xs, ys, _, _, hw1, hw2, hc, ha, _⟩ := perform_noH hq h
  intro x
  have key := walk_sets wf _ _ _ _ hw1 hw2 x
  rw [ha, hc]
  simp only [setAll, clearAll, hinv x]
  rw [Bool.eq_iff_iff]
  simp only [List.contains_iff_mem] at *
  rw [← key]
  by_cases hy : x ∈ ys
  · simp [hy]
  · by_cases hx : x ∈ xs
    · simp [hy, hx]
    · simp [hy, hx]

/-! ## which events a handler-free transition fires -/
open SecsModel.Spec.SM in
theorem depth_some {m : MDef} (wf : WF m) {s p : Nat} (h : m.parent s = some p) : depth m s = depth m p + 1 := by
  simp [depth, chain_some wf h]

open SecsModel.Spec.SM in
theorem depth_pos {m : MDef} (s : Nat) : 0 < depth m s :=
  List.length_pos_of_mem (self_mem_chain s)

open SecsModel.Spec.SM in
theorem mem_chain_depth {m : MDef} (wf : WF m) : ∀ s x, x ∈ chain m s → x = s ∨ depth m x < depth m s := by
  intro s
  induction s using Nat.strongRecOn with
  | ind s ih =>
    intro x hx
    cases hp : m.parent s with
    | none => rw [chain_none hp] at hx; left; simpa using hx
    | some p =>
      rw [chain_some wf hp] at hx
      rcases List.mem_cons.mp hx with h | h
      · exact Or.inl h
      · right
        rw [depth_some wf hp]
        rcases ih p (wf _ _ hp) x h with h' | h'
        · rw [h']; omega
        · omega

theorem walk_nodup {m : MDef} (wf : WF m) : ∀ s other xs, Walk m s other xs → xs.Nodup := by
  intro s
  induction s using Nat.strongRecOn with
  | ind s ih =>
    intro other xs hw
    cases hw with
    | root hp => simp
    | stop hp hg => simp
    | up hp hg hw' =>
      refine List.nodup_cons.mpr ⟨fun hm => ?_, ih _ (wf _ _ hp) _ _ hw'⟩
      exact not_mem_chain_parent wf hp (walk_sub_chain wf _ _ _ hw' _ hm)

theorem walk_head {m : MDef} {s : Nat} {other : Option Nat} {xs : List Nat} (hw : Walk m s other xs) : s ∈ xs := by
  cases hw <;> simp

open SecsModel.Spec.SM in
/-- between states of equal depth the walk never touches an ancestor-or-self of the other side (except `s = d` itself) -/
theorem walk_equal_depth {m : MDef} (wf : WF m) : ∀ s d xs, depth m s = depth m d → Walk m s (some d) xs →
    ∀ x, x ∈ xs → x = s ∨ x ∉ chain m d := by
  intro s
  induction s using Nat.strongRecOn with
  | ind s ih =>
    intro d xs hd hw x hx
    cases hw with
    | root hp => left; simpa using hx
    | stop hp hg => left; simpa using hx
    | up hp hg hw' =>
      rename_i p xs'
      rcases List.mem_cons.mp hx with h | h
      · exact Or.inl h
      · right
        have hds := depth_some wf hp
        cases hq : m.parent d with
        | none =>
          have : depth m d = 1 := by simp [depth, chain_none hq]
          have := depth_pos (m := m) ‹Nat›
          omega
        | some q =>
          have hdd := depth_some wf hq
          simp only [Option.bind_some, hq] at hw'
          have hpq : p ≠ q := by
            intro e; subst e; simp [goesUp, hq] at hg
          have hxp := walk_sub_chain wf _ _ _ hw' x h
          rw [chain_some wf hq]
          intro hm
          rcases List.mem_cons.mp hm with e | hm'
          · -- x = d is deeper than anything in chain p
            have hxd : depth m x = depth m d := by rw [e]
            rcases mem_chain_depth wf p x hxp with e' | e'
            · rw [e'] at hxd; omega
            · omega
          · rcases ih p (wf _ _ hp) q xs' (by omega) hw' x h with e' | e'
            · -- x = p, a state of the same depth as q and different from it
              subst e'
              rcases mem_chain_depth wf q x hm' with e'' | e''
              · exact hpq e''
              · omega
            · exact e' hm'

open SecsModel.Spec.SM in
/-- everything the property calls *exited* is left, everything *entered* is entered (any forest, any depths) -/
theorem walk_covers {m : MDef} (wf : WF m) {s d : Nat} {xs ys : List Nat} (hl : Walk m s (some d) xs) (he : Walk m d (some s) ys) :
    (∀ x, x ∈ exited m s d → x ∈ xs) ∧ (∀ x, x ∈ entered m s d → x ∈ ys) := by
  constructor
  · intro x hx
    simp only [exited, List.mem_filter, Bool.or_eq_true, beq_iff_eq, Bool.not_eq_true', List.contains_eq_mem, decide_eq_false_iff_not] at hx
    obtain ⟨h1, h2 | h2⟩ := hx
    · rw [h2]; exact walk_head hl
    · by_cases hxs : x ∈ xs
      · exact hxs
      · exact absurd ((walk_sets wf _ _ _ _ hl he x).mp (Or.inl ⟨h1, hxs⟩)) h2
  · intro x hx
    simp only [entered, List.mem_filter, Bool.or_eq_true, beq_iff_eq, Bool.not_eq_true', List.contains_eq_mem, decide_eq_false_iff_not] at hx
    obtain ⟨h1, h2 | h2⟩ := hx
    · rw [h2]; exact walk_head he
    · rcases (walk_sets wf _ _ _ _ hl he x).mpr h1 with ⟨h3, _⟩ | h3
      · exact absurd h3 h2
      · exact h3

open SecsModel.Spec.SM in
/-- whatever is left beyond the exited states is a common ancestor, and it is entered again -/
theorem walk_extra {m : MDef} (wf : WF m) {s d : Nat} {xs ys : List Nat} (hl : Walk m s (some d) xs) (he : Walk m d (some s) ys) :
    ∀ x, x ∈ xs → x ∉ exited m s d → (x ∈ chain m s ∧ x ∈ chain m d ∧ x ∈ ys) := by
  intro x hx hne
  have h1 := walk_sub_chain wf _ _ _ hl x hx
  have h2 : x ∈ chain m d := by
    apply Classical.byContradiction
    intro h2
    apply hne
    simp [exited, h1, h2]
  refine ⟨h1, h2, ?_⟩
  rcases (walk_sets wf _ _ _ _ hl he x).mpr h2 with ⟨_, h3⟩ | h3
  · exact absurd hx h3
  · exact h3

open SecsModel.Spec.SM in
/-- equal depth: exactly the exited states are left and exactly the entered states are entered -/
theorem walk_exact {m : MDef} (wf : WF m) {s d : Nat} {xs ys : List Nat} (hd : depth m s = depth m d)
    (hl : Walk m s (some d) xs) (he : Walk m d (some s) ys) :
    (∀ x, x ∈ xs ↔ x ∈ exited m s d) ∧ (∀ x, x ∈ ys ↔ x ∈ entered m s d) := by
  have hc := walk_covers wf hl he
  constructor
  · intro x
    refine ⟨fun hx => ?_, hc.1 x⟩
    have h1 := walk_sub_chain wf _ _ _ hl x hx
    rcases walk_equal_depth wf _ _ _ hd hl x hx with h | h
    · simp [exited, h, self_mem_chain]
    · simp [exited, h1, h]
  · intro x
    refine ⟨fun hx => ?_, hc.2 x⟩
    have h1 := walk_sub_chain wf _ _ _ he x hx
    rcases walk_equal_depth wf _ _ _ hd.symm he x hx with h | h
    · simp [entered, h, self_mem_chain]
    · simp [entered, h1, h]

end SecsModel.Proofs.SM
