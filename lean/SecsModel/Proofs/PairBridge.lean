import SecsModel.Model.Pair
import SecsModel.Model.Hsms
import SecsModel.Model.GemComm
import SecsModel.Proofs.HsmsFsm
import SecsModel.Proofs.GemComm
/-!
# Proofs.PairBridge — one endpoint of `Model.Pair` as the product of `Model.Hsms` (C05) and `Model.GemComm` (C07)

Definitions only consumed by `Props/C20b.lean`:

* `absEnd`   : (session state, communication-handler state, enabled flag) ↦ `Model.Pair.End`;
* `Coupled`  : the consistency invariant under which the two validated endpoint models describe ONE endpoint;
* `prodStep` : the product — an input of the session layer is handled by `Model.Hsms.step Defects.none` (the code as it is); every output of that step
  that the GEM handler is hooked to becomes an input of `Model.GemComm.step`, in order
  (`connected` event ↦ `linkConnected`, `communicating` event ↦ `linkSelected`, `disconnected` event ↦ `linkLost`, `message_received` of a data message ↦ `rx s f w sys commack`);
* `absFrames`: frames written by the product ↦ `Model.Pair.Msg`.

## What the abstraction forgets

system bytes and both system counters (`St.ctr`, `State.nextSys`, `State.mySys` — the product does not even tie the two counters to each
other), the open-request list `St.opn` (T6, Linktest, the select thread's pending Select.req) and the linktest timers (`St.ltStored`, `St.ltOrphans`), `St.disconnecting` (false in every coupled
state: the local close is one product step), the two timer flags (determined by the communication state in a coupled state), the queue
`State.queued` (empty while a connection exists), every frame that is not Select.req / Select.rsp / S1F13 / S1F14 (Reject.req, Separate.req, Linktest, S9F5), events,
callbacks, swallowed exceptions.

Communication states: `Spec.E30Comm.Comm` has nine, `Model.Pair.Comm` five.  ENABLED, HOST_INITIATED_CONNECT, WAIT_CR_FROM_HOST and
EQUIPMENT_INITIATED_CONNECT are not the destination of any transition of the shipped table (`never_entered`), so they are never current;
`absComm` sends them to `notc` and `Coupled` excludes them.

## Who runs the receiver thread

`Model.GemComm.State` distinguishes `connected` (a transport connection exists: the protocol's receiver thread runs and writes what is
put into the send queue) from `selected` (`communicating` has fired: inbound data reaches the handler).  `Coupled` ties them to the
session state: `connected = (conn ≠ NOT_CONNECTED)`, `selected = (conn = SELECTED)`, and the session's `connected` / `communicating` /
`disconnected` events become the handler inputs `linkConnected` / `linkSelected` / `linkLost`.  An S1F13 created by the delay timer is
written at once while a connection exists (selected or not — exactly `Model.Pair`'s rule `conn ≠ nc`); created while NOT CONNECTED it
is queued and written by the next `linkConnected`, as the first frames of the new connection, where `Model.Pair` forgets it (the peer,
still NOT SELECTED, rejects it).  So `queued` is empty whenever a connection exists (part of `Coupled`), and the only frames the product
writes beyond the pair model's are those flushed at link-up (`sim_linkUp`).
-/
namespace SecsModel.Proofs.PairBridge
open SecsModel
open SecsModel.Model.Hsms (St In Out Defects SType isOpen)
open SecsModel.Spec.E30Comm (Input Output Trans allowed)
open SecsModel.Model.GemComm (State Cfg)

/-! ## the abstraction -/

def absConn : Spec.E37.Conn → Model.Pair.Conn
  | .notConnected => .nc | .notSelected => .ns | .selected => .sel

/-- the five states that occur -/
def occurs : Spec.E30Comm.Comm → Bool
  | .disabled | .notCommunicating | .waitCra | .waitDelay | .communicating => true
  | _ => false

def absComm : Spec.E30Comm.Comm → Model.Pair.Comm
  | .disabled => .dis | .notCommunicating => .notc | .waitCra => .wcra | .waitDelay => .wdelay | .communicating => .comm
  | .enabled | .hostInitiatedConnect | .waitCrFromHost | .equipmentInitiatedConnect => .notc      -- never current

def absEnd (h : St) (g : State) (en : Bool) : Model.Pair.End :=
  { en := en, active := h.active, conn := absConn h.conn, comm := absComm g.comm }

/-- the shipped code, no user callback for S1F13, `on_commack_requested()` not overridden -/
def Shipped (cfg : Cfg) : Prop :=
  cfg.commackReq = 0 ∧ cfg.sysChecked = false ∧ cfg.commackGate = true ∧ cfg.userCbs.contains (1, 13) = false

instance (cfg : Cfg) : Decidable (Shipped cfg) := by unfold Shipped; infer_instance

/-- the consistency invariant, as a Boolean over the finite components -/
def coupledB (h : St) (g : State) (en : Bool) : Bool :=
  (g.selected == decide (h.conn = .selected))                   -- `selected` = the session is SELECTED
  && (g.connected == decide (h.conn ≠ .notConnected))           -- `connected` = a transport connection exists
  && occurs g.comm
  && (en == decide (g.comm ≠ .disabled))                        -- enabled iff not DISABLED
  && (g.t3Armed == decide (g.comm = .waitCra))                  -- T3 pending exactly in WAIT_CRA
  && (g.delayArmed == decide (g.comm = .waitDelay))             -- the delay pending exactly in WAIT_DELAY
  && (!decide (g.comm = .communicating) || decide (h.conn = .selected))   -- COMMUNICATING only while SELECTED
  && !h.disconnecting                                           -- not in the middle of a local close
  && (decide (h.conn = .notConnected) || g.queued.isEmpty)      -- nothing waits in the send queue while a connection exists

def Coupled (h : St) (g : State) (en : Bool) : Prop := coupledB h g en = true

instance (h : St) (g : State) (en : Bool) : Decidable (Coupled h g en) := by unfold Coupled; infer_instance

/-! ## the product -/

/-- what an output of the session layer is to the GEM handler (`GemHandler.__init__` / `SecsHandler.__init__` hooks):
`i` is the session input being handled, `commack` what the body of an S1F14 decodes to -/
def toGem (i : In) (commack : Option Nat) : Out → Option Input
  | .evt n =>
    if n == "connected" then some .linkConnected
    else if n == "communicating" then some .linkSelected
    else if n == "disconnected" then some .linkLost
    else none
  | .deliverApp sys =>
    if Gen.Callbacks.protocolHooks.contains ("SecsHandler", "message_received", "_on_message_received") then
      match i with
      | .rxData st f w _ _ => some (.rx st.toNat f.toNat w sys.toNat commack)
      | _ => none
    else none
  | _ => none                                                    -- frames, a requester's queue, swallowed exceptions

def runG (cfg : Cfg) : State → List Input → State × List Output
  | g, [] => (g, [])
  | g, i :: is =>
    let r := Model.GemComm.step cfg g i
    let r2 := runG cfg r.1 is
    (r2.1, r.2 ++ r2.2)

/-- one input of the session layer through the product: new (session, handler) state, and what each layer put out -/
def prodStep (cfg : Cfg) (h : St) (g : State) (i : In) (commack : Option Nat) : (St × State) × (List Out × List Output) :=
  let r := Model.Hsms.step Defects.none h i
  let q := runG cfg g (r.2.filterMap (toGem i commack))
  ((r.1, q.1), (r.2, q.2))

/-- a handler-only input (timers, `enable`): the session layer is not involved -/
def gemStep (cfg : Cfg) (h : St) (g : State) (i : Input) : (St × State) × (List Out × List Output) :=
  let r := Model.GemComm.step cfg g i
  ((h, r.1), ([], r.2))

/-- `GemHandler.disable()`: `protocol.disable()` (local close: begin, end) then `_communication_state.disable()` -/
def prodDisable (cfg : Cfg) (h : St) (g : State) : (St × State) × (List Out × List Output) :=
  let r1 := prodStep cfg h g .disableBegin none
  let r2 := prodStep cfg r1.1.1 r1.1.2 .disableEnd none
  let r3 := Model.GemComm.step cfg r2.1.2 .disable
  ((r2.1.1, r3.1), (r1.2.1 ++ r2.2.1, r1.2.2 ++ r2.2.2 ++ r3.2))

/-- the session input (and S1F14 body) a `Pair.Msg` is: any system bytes; `k + 1` is the COMMACK of a refusing S1F14 -/
def inputOf (m : Model.Pair.Msg) (sys : Int) (k : Nat) : In × Option Nat :=
  match m with
  | .selReq => (.rxCtrl .selectReq sys 0, none)
  | .selRsp => (.rxCtrl .selectRsp sys 0, none)
  | .s1f13 => (.rxData 1 13 true sys true, none)
  | .s1f14 true => (.rxData 1 14 false sys true, some 0)
  | .s1f14 false => (.rxData 1 14 false sys true, some (k + 1))

def prodDeliver (cfg : Cfg) (h : St) (g : State) (m : Model.Pair.Msg) (sys : Int) (k : Nat) : (St × State) × (List Out × List Output) :=
  prodStep cfg h g (inputOf m sys k).1 (inputOf m sys k).2

/-! ## frames -/

def absHsmsOut : Out → Option Model.Pair.Msg
  | .tx st _ _ _ =>
    if st = SType.selectReq.code then some .selReq
    else if st = SType.selectRsp.code then some .selRsp
    else none                                                    -- Reject.req, Separate.req, Linktest, Deselect: not in the pair's vocabulary
  | _ => none

def absGemOut : Output → Option Model.Pair.Msg
  | .txS1F13 _ => some .s1f13
  | .txS1F14 _ c => some (.s1f14 (c == 0))
  | _ => none

/-- the session layer writes before it fires the event the handler reacts to -/
def absFrames (ho : List Out) (go : List Output) : List Model.Pair.Msg := ho.filterMap absHsmsOut ++ go.filterMap absGemOut

/-! ## closed computations on the generated tables -/

theorem toGem_communicating (i : In) (ck : Option Nat) : toGem i ck (.evt "communicating") = some .linkSelected := by rfl
theorem toGem_disconnected (i : In) (ck : Option Nat) : toGem i ck (.evt "disconnected") = some .linkLost := by rfl
theorem toGem_connected (i : In) (ck : Option Nat) : toGem i ck (.evt "connected") = some .linkConnected := by rfl
theorem toGem_app (st f : Int) (w : Bool) (s0 : Int) (d : Bool) (ck : Option Nat) (sys : Int) :
    toGem (.rxData st f w s0 d) ck (.deliverApp sys) = some (.rx st.toNat f.toNat w sys.toNat ck) := by rfl

theorem toGem_tx (i : In) (ck : Option Nat) (a b c d : Int) : toGem i ck (.tx a b c d) = none := by rfl
theorem toGem_swallowed (i : In) (ck : Option Nat) (e : Err) : toGem i ck (.swallowed e) = none := by rfl
theorem toGem_waiter (i : In) (ck : Option Nat) (sys : Int) : toGem i ck (.deliverWaiter sys) = none := by rfl

theorem code_selReq : SType.selectReq.code = 1 := rfl
theorem code_selRsp : SType.selectRsp.code = 2 := rfl
theorem code_desReq : SType.deselectReq.code = 3 := rfl
theorem code_desRsp : SType.deselectRsp.code = 4 := rfl
theorem code_lnkReq : SType.linktestReq.code = 5 := rfl
theorem code_lnkRsp : SType.linktestRsp.code = 6 := rfl
theorem code_rejReq : SType.rejectReq.code = 7 := rfl
theorem code_sepReq : SType.separateReq.code = 9 := rfl

theorem lossStates_mem (c : Spec.E30Comm.Comm) : (c.name ∈ Gen.Callbacks.linkLossStates) = (c = .communicating) := by
  cases c <;> simp [Spec.E30Comm.Comm.name, Gen.Callbacks.linkLossStates]

theorem builtin_s1f13 (r : Model.GemComm.Role) : (Model.GemComm.builtin r).contains (1, 13) = true := by
  cases r <;> decide

/-- the four states `absComm` collapses are not the destination of any transition of the shipped table -/
theorem never_entered (t : Trans) (c d : Spec.E30Comm.Comm) (h : allowed t c = some d) : occurs d = true := by
  cases t <;> cases c <;> simp [allowed] at h <;> subst h <;> rfl

theorem putIfOpen_gem (s : St) (sys : Int) (i : In) (ck : Option Nat) :
    (Model.Hsms.putIfOpen s sys).2.filterMap (toGem i ck) = [] := by
  unfold Model.Hsms.putIfOpen; split <;> rfl

theorem putIfOpen_frames (s : St) (sys : Int) : (Model.Hsms.putIfOpen s sys).2.filterMap absHsmsOut = [] := by
  unfold Model.Hsms.putIfOpen; split <;> rfl

theorem putIfOpen_conn (s : St) (sys : Int) : (Model.Hsms.putIfOpen s sys).1.conn = s.conn := by
  unfold Model.Hsms.putIfOpen; split <;> simp
theorem putIfOpen_disc (s : St) (sys : Int) : (Model.Hsms.putIfOpen s sys).1.disconnecting = s.disconnecting := by
  unfold Model.Hsms.putIfOpen; split <;> simp
theorem putIfOpen_active (s : St) (sys : Int) : (Model.Hsms.putIfOpen s sys).1.active = s.active := by
  unfold Model.Hsms.putIfOpen; split <;> simp

end SecsModel.Proofs.PairBridge
