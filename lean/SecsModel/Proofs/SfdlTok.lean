import SecsModel.Spec.Sfdl
import SecsModel.Model.Sfdl
/-!
# Proofs.SfdlTok — the character loop reads every layout of a definition as the definition's tokens

`split (render d ly) = tokensOf d` for all trees whose names are words and for all layouts (blanks, CR, LF, comments to the
line break also directly after a word, a comment at the end of the text).  One lemma per gap kind, then induction over the tree.
-/
namespace SecsModel.Proofs.Sfdl
open SecsModel SecsModel.Spec.Sfdl SecsModel.Model.Sfdl

theorem gen_chars :
    Gen.SfdlChars.whitespaces = [' ', '\t', '\n', '\r'] ∧ Gen.SfdlChars.operators = ['<', '>']
    ∧ Gen.SfdlChars.commentStart = ['#'] ∧ Gen.SfdlChars.commentEnd = ['\n', '\r'] := by decide

theorem ws_contains (c : Char) : Gen.SfdlChars.whitespaces.contains c = isWs c := by
  rw [gen_chars.1]; simp [isWs, Bool.or_assoc]; rfl
theorem op_contains (c : Char) : Gen.SfdlChars.operators.contains c = isOp c := by
  rw [gen_chars.2.1]; simp [isOp]; rfl
theorem cs_contains (c : Char) : Gen.SfdlChars.commentStart.contains c = (c == '#') := by
  rw [gen_chars.2.2.1]; simp; rfl
theorem ce_contains (c : Char) : Gen.SfdlChars.commentEnd.contains c = isEol c := by
  rw [gen_chars.2.2.2]; simp [isEol]; rfl

theorem scan_nil (cur : List Char) (b : Bool) : scan [] cur b = flush cur := by simp [scan]

theorem scan_cons (c : Char) (cs cur : List Char) (inC : Bool) :
    scan (c :: cs) cur inC =
      if c = '#' then (if inC then scan cs cur true else flush cur ++ scan cs [] true)
      else if inC then scan cs cur (!isEol c)
      else if isWs c then flush cur ++ scan cs [] false
      else if isOp c then flush cur ++ ([c] :: scan cs [] false)
      else scan cs (cur ++ [c]) false := by
  rw [scan]
  simp only [ws_contains, op_contains, cs_contains, ce_contains, beq_iff_eq]
  by_cases h : c = '#'
  · subst h; simp [isEol]
  · simp [h]

theorem flush_nil : flush [] = [] := rfl
theorem flush_ne {w : List Char} (h : w ≠ []) : flush w = [w] := by
  cases w with
  | nil => exact absurd rfl h
  | cons a t => rfl

theorem eol_not_hash {e : Char} (h : isEol e = true) : e ≠ '#' := by
  intro he; subst he; exact absurd h (by decide)

/-- inside a comment nothing is appended up to and including the line break -/
theorem scan_comment (body : List Char) (hb : ∀ c ∈ body, isEol c = false) (e : Char) (he : isEol e = true)
    (rest cur : List Char) : scan (body ++ e :: rest) cur true = scan rest cur false := by
  induction body with
  | nil =>
    simp only [List.nil_append, scan_cons, if_neg (eol_not_hash he), he, if_true, Bool.not_true]
  | cons c t ih =>
    have hc : isEol c = false := hb c (by simp)
    have ht : ∀ c ∈ t, isEol c = false := fun x hx => hb x (by simp [hx])
    simp only [List.cons_append, scan_cons, if_true, hc, Bool.not_false]
    by_cases h : c = '#'
    · simp only [if_pos h]; exact ih ht
    · simp only [if_neg h]; exact ih ht

/-- a comment that runs to the end of the text -/
theorem scan_comment_eof (body : List Char) (hb : ∀ c ∈ body, isEol c = false) (cur : List Char) :
    scan body cur true = flush cur := by
  induction body with
  | nil => exact scan_nil _ _
  | cons c t ih =>
    have hc : isEol c = false := hb c (by simp)
    have ht : ∀ c ∈ t, isEol c = false := fun x hx => hb x (by simp [hx])
    simp only [scan_cons, if_true, hc, Bool.not_false]
    by_cases h : c = '#'
    · simp only [if_pos h]; exact ih ht
    · simp only [if_neg h]; exact ih ht

theorem filter_noEol (body : List Char) : ∀ c ∈ body.filter (fun c => !isEol c), isEol c = false := by
  intro c hc
  have := (List.mem_filter.mp hc).2
  simpa using this

theorem ws_isWs (c : WsChar) : isWs c.toChar = true ∧ c.toChar ≠ '#' := by cases c <;> decide
theorem eol_isEol (e : Eol) : isEol e.toChar = true := by cases e <;> decide

/-- one piece of a gap ends the pending word (if any) and leaves the scanner between tokens -/
theorem scan_piece (p : Piece) (rest cur : List Char) :
    scan (p.render ++ rest) cur false = flush cur ++ scan rest [] false := by
  cases p with
  | ws c =>
    simp only [Piece.render, List.cons_append, List.nil_append, scan_cons, if_neg (ws_isWs c).2, (ws_isWs c).1, if_true]
    simp
  | comment body e =>
    simp only [Piece.render, List.cons_append, scan_cons, if_true]
    simp only [Bool.false_eq_true, if_false]
    rw [List.append_assoc, List.singleton_append, scan_comment _ (filter_noEol body) _ (eol_isEol e)]

/-- a gap between tokens, nothing pending -/
theorem scan_gap (g : Gap) (rest : List Char) : scan (renderGap g ++ rest) [] false = scan rest [] false := by
  induction g with
  | nil => rfl
  | cons p g ih => simp only [renderGap, List.append_assoc, scan_piece, flush_nil, List.nil_append, ih]

/-- a non-empty gap after a word ends the word -/
theorem scan_gap_word (g : Gap) (hg : g ≠ []) (w : List Char) (hw : w ≠ []) (rest : List Char) :
    scan (renderGap g ++ rest) w false = w :: scan rest [] false := by
  cases g with
  | nil => exact absurd rfl hg
  | cons p g => simp only [renderGap, List.append_assoc, scan_piece, flush_ne hw, scan_gap, List.singleton_append]

/-- any gap (also the empty one) after a word, followed by a bracket -/
theorem scan_gap_word_op (g : Gap) (w : List Char) (hw : w ≠ []) (o : Char) (ho : isOp o = true) (rest : List Char) :
    scan (renderGap g ++ o :: rest) w false = w :: [o] :: scan rest [] false := by
  have ho1 : o ≠ '#' := by intro h; subst h; exact absurd ho (by decide)
  have ho2 : isWs o = false := by
    simp only [isOp, Bool.or_eq_true, beq_iff_eq] at ho
    rcases ho with h | h <;> subst h <;> decide
  cases g with
  | nil =>
    simp only [renderGap, List.nil_append, scan_cons, if_neg ho1, ho2, ho, if_true, flush_ne hw]
    simp
  | cons p g =>
    rw [scan_gap_word (p :: g) (by simp) w hw]
    simp only [scan_cons, if_neg ho1, ho2, ho, if_true, flush_nil]
    simp

/-- any gap with nothing pending, followed by a bracket -/
theorem scan_gap_op (g : Gap) (o : Char) (ho : isOp o = true) (rest : List Char) :
    scan (renderGap g ++ o :: rest) [] false = [o] :: scan rest [] false := by
  have ho1 : o ≠ '#' := by intro h; subst h; exact absurd ho (by decide)
  have ho2 : isWs o = false := by
    simp only [isOp, Bool.or_eq_true, beq_iff_eq] at ho
    rcases ho with h | h <;> subst h <;> decide
  rw [scan_gap]
  simp only [scan_cons, if_neg ho1, ho2, ho, if_true, flush_nil]
  simp

/-- the characters of a word are collected -/
theorem scan_word (w : List Char) (hw : w.all isWordChar = true) (rest cur : List Char) :
    scan (w ++ rest) cur false = scan rest (cur ++ w) false := by
  induction w generalizing cur with
  | nil => simp
  | cons c t ih =>
    simp only [List.all_cons, Bool.and_eq_true] at hw
    have hc := hw.1
    simp only [isWordChar, Bool.and_eq_true, Bool.not_eq_true', bne_iff_ne, ne_eq] at hc
    obtain ⟨⟨h1, h2⟩, h3⟩ := hc
    simp only [List.cons_append, scan_cons, if_neg h3, h1, h2]
    simp only [Bool.false_eq_true, if_false]
    rw [ih hw.2]
    simp


theorem scan_op (o : Char) (ho : isOp o = true) (rest : List Char) : scan (o :: rest) [] false = [o] :: scan rest [] false := by
  have := scan_gap_op [] o ho rest
  simpa [renderGap] using this

/-- any gap after a word, followed by a bracket: the word ends and scanning resumes at the bracket -/
theorem scan_gap_word_then_op (g : Gap) (w : List Char) (hw : w ≠ []) (o : Char) (ho : isOp o = true) (rest : List Char) :
    scan (renderGap g ++ o :: rest) w false = w :: scan (o :: rest) [] false := by
  rw [scan_gap_word_op g w hw o ho, scan_op o ho]

theorem sep_ne (g : Gap) : sep g ≠ [] := by cases g <;> simp [sep]

theorem isWord_parts {w : Name} (h : isWord w = true) : w ≠ [] ∧ w.all isWordChar = true := by
  simp only [isWord, Bool.and_eq_true, Bool.not_eq_true', List.isEmpty_eq_false_iff] at h
  exact h

theorem renderDef_head (d : Def) (g : List Nat → Nat → Gap) : ∃ tl, renderDef d g = '<' :: tl := by
  cases d with
  | item n => exact ⟨_, by rw [renderDef]⟩
  | list nm ms => cases nm with
    | none => exact ⟨_, by rw [renderDef]⟩
    | some x => exact ⟨_, by rw [renderDef]⟩

/-- what follows the header of a list starts with a bracket: the first member's `<` or the closing `>` -/
theorem members_head (ms : List Def) (g : List Nat → Nat → Gap) (i : Nat) (rest : List Char) :
    ∃ o tl, isOp o = true ∧ renderMembers ms g i ++ '>' :: rest = o :: tl := by
  cases ms with
  | nil => exact ⟨'>', rest, by decide, by simp [renderMembers]⟩
  | cons m ms =>
    obtain ⟨tl, h⟩ := renderDef_head m (sub g i)
    exact ⟨'<', _, by decide, by rw [renderMembers, h]; rfl⟩

theorem capL_word : (['L'] : List Char).all isWordChar = true := by decide

mutual
/-- the text of a definition is read as its tokens -/
theorem scan_def : ∀ (d : Def) (g : List Nat → Nat → Gap) (rest : List Char), wordsOk d = true →
    scan (renderDef d g ++ rest) [] false = tokensOf d ++ scan rest [] false
  | .item n, g, rest, h => by
    rw [wordsOk] at h
    obtain ⟨hn, hall⟩ := isWord_parts h
    rw [renderDef, tokensOf]
    simp only [List.cons_append, List.append_assoc, List.nil_append]
    rw [scan_op '<' (by decide), scan_gap, scan_word n hall, List.nil_append,
      scan_gap_word_then_op _ n hn '>' (by decide), scan_op '>' (by decide)]
  | .list none ms, g, rest, h => by
    rw [wordsOk] at h
    simp only [Bool.true_and] at h
    rw [renderDef, tokensOf]
    simp only [List.cons_append, List.append_assoc, List.nil_append]
    rw [scan_op '<' (by decide), scan_gap]
    have hL := scan_word ['L'] capL_word (renderGap (g [] 1) ++ (renderMembers ms g 0 ++ '>' :: rest)) []
    simp only [List.cons_append, List.nil_append] at hL
    rw [hL]
    obtain ⟨o, tl, ho, htl⟩ := members_head ms g 0 rest
    rw [htl, scan_gap_word_then_op _ ['L'] (by simp) o ho, ← htl, scan_members ms g 0 ('>' :: rest) h, scan_op '>' (by decide)]
  | .list (some x) ms, g, rest, h => by
    rw [wordsOk] at h
    simp only [Bool.and_eq_true] at h
    obtain ⟨hx, hms⟩ := h
    obtain ⟨hxn, hxall⟩ := isWord_parts hx
    rw [renderDef, tokensOf]
    simp only [List.cons_append, List.append_assoc, List.nil_append]
    rw [scan_op '<' (by decide), scan_gap]
    have hL := scan_word ['L'] capL_word (renderGap (sep (g [] 1)) ++ (x ++ (renderGap (g [] 2) ++ (renderMembers ms g 0 ++ '>' :: rest)))) []
    simp only [List.cons_append, List.nil_append] at hL
    rw [hL, scan_gap_word _ (sep_ne _) ['L'] (by simp), scan_word x hxall, List.nil_append]
    obtain ⟨o, tl, ho, htl⟩ := members_head ms g 0 rest
    rw [htl, scan_gap_word_then_op _ x hxn o ho, ← htl, scan_members ms g 0 ('>' :: rest) hms, scan_op '>' (by decide)]
/-- the members of a list, each followed by its gap -/
theorem scan_members : ∀ (ms : List Def) (g : List Nat → Nat → Gap) (i : Nat) (rest : List Char), wordsOkL ms = true →
    scan (renderMembers ms g i ++ rest) [] false = tokensOfList ms ++ scan rest [] false
  | [], g, i, rest, _ => by simp [renderMembers, tokensOfList]
  | m :: ms, g, i, rest, h => by
    rw [wordsOkL] at h
    simp only [Bool.and_eq_true] at h
    rw [renderMembers, tokensOfList]
    simp only [List.append_assoc]
    rw [scan_def m (sub g i) _ h.1, scan_gap, scan_members ms g (i + 1) rest h.2]
end

/-- **every layout of a definition is read as the definition's tokens** -/
theorem split_render (d : Def) (ly : Layout) (h : wordsOk d = true) : split (render d ly) = tokensOf d := by
  unfold split render
  rw [scan_gap, scan_def d ly.gap _ h, scan_gap]
  cases ly.eof with
  | none => simp [scan_nil, flush_nil]
  | some body =>
    simp only
    rw [scan_cons]
    simp only [if_true, Bool.false_eq_true, if_false]
    rw [scan_comment_eof _ (filter_noEol body)]
    simp [flush_nil]

end SecsModel.Proofs.Sfdl
