import SecsModel.Model.Txn
/-! Invariants of `Model.Txn` (C06). -/
namespace SecsModel.Proofs.Txn
open SecsModel SecsModel.Model.Txn

theorem next_spec (c : Int) (h0 : 0 ≤ c) (h1 : c < 4294967296) :
    next c = some ((c + 1) % 4294967296, (c + 1) % 4294967296) := by
  have e : ((2 : Int) ^ ((32 : Int)).toNat) = 4294967296 := by decide
  simp only [next, Gen.Misc.getNextSystemCounter, e]
  by_cases hc : c + 1 > 4294967296 - 1
  · have : c = 4294967295 := by omega
    subst this; simp
  · simp; omega

/-! list lemmas for the dispatcher list -/
theorem countP_set_le {α} (p : α → Bool) : ∀ (l : List α) (d : Nat) (x y : α), l[d]? = some x → (p y = true → p x = true) →
    (l.set d y).countP p ≤ l.countP p
  | [], _, _, _, h, _ => by simp at h
  | a :: l, 0, x, y, h, hp => by
    simp at h; subst h
    simp only [List.set_cons_zero, List.countP_cons]
    by_cases hy : p y = true
    · simp [hy, hp hy]
    · simp [hy]
  | a :: l, d+1, x, y, h, hp => by
    simp only [List.getElem?_cons_succ] at h
    simp only [List.set_cons_succ, List.countP_cons]
    have := countP_set_le p l d x y h hp
    omega

theorem countP_set_eq {α} (p : α → Bool) : ∀ (l : List α) (d : Nat) (x y : α), l[d]? = some x → (p y = p x) →
    (l.set d y).countP p = l.countP p
  | [], _, _, _, h, _ => by simp at h
  | a :: l, 0, x, y, h, hp => by
    simp at h; subst h
    simp only [List.set_cons_zero, List.countP_cons, hp]
  | a :: l, d+1, x, y, h, hp => by
    simp only [List.getElem?_cons_succ] at h
    simp only [List.set_cons_succ, List.countP_cons]
    rw [countP_set_eq p l d x y h hp]

/-- with at most one active dispatcher, and `d` being it, only `d` can hold a message -/
theorem held_single : ∀ (l : List Disp) (d : Nat) (x y : Disp), l[d]? = some x → l.countP Disp.active ≤ 1 → x.active = true →
    (l.set d y).filterMap Disp.unstarted = (Disp.unstarted y).toList
  | [], _, _, _, h, _, _ => by simp at h
  | a :: l, 0, x, y, h, hc, hx => by
    simp at h; subst h
    simp only [List.countP_cons, hx, if_true] at hc
    have h0 : l.countP Disp.active = 0 := by omega
    have hall : ∀ z ∈ l, Disp.unstarted z = none := by
      intro z hz
      have := List.countP_eq_zero.mp h0 z hz
      cases z with | mk st cur =>
      cases cur with
      | none => rfl
      | some mb => simp [Disp.active] at this
    simp only [List.set_cons_zero, List.filterMap_cons]
    have : l.filterMap Disp.unstarted = [] := List.filterMap_eq_nil_iff.mpr hall
    cases hy : Disp.unstarted y <;> simp [this]
  | a :: l, d+1, x, y, h, hc, hx => by
    simp only [List.getElem?_cons_succ] at h
    have hmem : x ∈ l := List.mem_of_getElem? h
    have hpos : 0 < l.countP Disp.active := List.countP_pos_iff.mpr ⟨x, hmem, hx⟩
    simp only [List.countP_cons] at hc
    have ha : a.active = false := by
      cases hh : a.active with
      | false => rfl
      | true => simp only [hh, if_true] at hc; omega
    have hc' : l.countP Disp.active ≤ 1 := by simp [ha] at hc; exact hc
    have hua : Disp.unstarted a = none := by
      cases a with | mk st cur =>
      cases cur with
      | none => rfl
      | some mb => simp [Disp.active] at ha
    simp only [List.set_cons_succ, List.filterMap_cons, hua]
    exact held_single l d x y h hc' hx

theorem held_single_self (l : List Disp) (d : Nat) (x : Disp) (h : l[d]? = some x) (hc : l.countP Disp.active ≤ 1) (hx : x.active = true) :
    l.filterMap Disp.unstarted = (Disp.unstarted x).toList := by
  have := held_single l d x x h hc hx
  obtain ⟨hlt, hv⟩ := List.getElem?_eq_some_iff.mp h
  have e : l.set d x = l := by rw [← hv]; exact List.set_getElem_self hlt
  rwa [e] at this


theorem step_mark {cfg : Cfg} {s s' : State} {i : Step} (h : step cfg s i = some s') :
    ∃ s1, step0 cfg s i = some s1 ∧ s' = mark s1 := by
  simp only [step] at h
  cases h0 : step0 cfg s i with
  | none => rw [h0] at h; cases h
  | some s1 => rw [h0] at h; exact ⟨s1, rfl, by simpa using h.symm⟩

/-- routing invariant -/
structure RouteInv (s : State) : Prop where
  regOwner : ∀ k c, s.reg k = some c → (s.callers c).id = k ∧ ((s.callers c).pc = .registered ∨ (s.callers c).pc = .sent ∨ (s.callers c).pc = .got)
  qSys : ∀ c m, m ∈ s.q c → m.sys = (s.callers c).id
  qEmpty : ∀ c, ((s.callers c).pc = .idle ∨ (s.callers c).pc = .mid ∨ (s.callers c).pc = .allocated) → s.q c = []
  resNone : ∀ c, ((s.callers c).pc = .idle ∨ (s.callers c).pc = .mid ∨ (s.callers c).pc = .allocated ∨ (s.callers c).pc = .registered ∨ (s.callers c).pc = .sent) → (s.callers c).result = none
  res : ∀ c m, (s.callers c).result = some m → m.sys = (s.callers c).id

theorem route_step0 (cfg : Cfg) (s s' : State) (i : Step) (h : RouteInv s) (hs : step0 cfg s i = some s') : RouteInv s' := by
  obtain ⟨h1, h2, h3, h4, h5⟩ := h
  cases i <;> simp only [step0] at hs <;> (repeat' (split at hs)) <;> cases hs <;> constructor <;> grind [upd]


/-! ### ids (atomic allocator) -/

/-- with the atomic allocator: the counter is `c0` plus the number of allocations (mod 2³²); every caller holding an id got the
value of *its* allocation; allocations are numbered apart -/
structure IdInv (cfg : Cfg) (s : State) : Prop where
  cnt : s.counter = (cfg.c0 + (s.allocs : Int)) % 4294967296
  own : ∀ c, (s.callers c).pc.hasId = true →
    1 ≤ (s.callers c).allocAt ∧ (s.callers c).allocAt ≤ s.allocs ∧ (s.callers c).id = (cfg.c0 + ((s.callers c).allocAt : Int)) % 4294967296
  uniq : ∀ c1 c2, c1 ≠ c2 → (s.callers c1).pc.hasId = true → (s.callers c2).pc.hasId = true → (s.callers c1).allocAt ≠ (s.callers c2).allocAt

theorem id_init (cfg : Cfg) (h0 : 0 ≤ cfg.c0) (h1 : cfg.c0 < 4294967296) : IdInv cfg (init cfg) := by
  constructor
  · simp only [init]; omega
  · intro c h; simp [init, Pc.hasId] at h
  · intro c1 c2 _ h; simp [init, Pc.hasId] at h

theorem id_step0 (cfg : Cfg) (hat : cfg.atomic = true) (s s' : State) (i : Step) (h : IdInv cfg s) (hs : step0 cfg s i = some s') : IdInv cfg s' := by
  obtain ⟨h1, h2, h3⟩ := h
  have hc0 : 0 ≤ s.counter ∧ s.counter < 4294967296 := by rw [h1]; omega
  cases i <;> simp only [step0, hat] at hs
  case alloc c =>
    rw [next_spec s.counter hc0.1 hc0.2] at hs
    split at hs <;> cases hs
    constructor
    · simp only [h1]; omega
    · intro c' hc'
      simp only [upd] at hc' ⊢
      split
      · simp only [h1]; refine ⟨by omega, by omega, ?_⟩; omega
      · rename_i hne; simp only [hne, if_false] at hc'; have := h2 c' hc'; omega
    · intro c1 c2 hne hc1 hc2
      simp only [upd] at hc1 hc2 ⊢
      by_cases e1 : c1 = c <;> by_cases e2 : c2 = c <;> simp only [e1, e2, if_true, if_false] at hc1 hc2 ⊢
      · omega
      · have := h2 c2 hc2; omega
      · have := h2 c1 hc1; omega
      · exact h3 c1 c2 hne hc1 hc2
  all_goals ((repeat' (split at hs)) <;> cases hs <;> constructor <;> grind [upd, Pc.hasId])

/-! ### accounting of inbound messages (every configuration) -/

structure AcctInv (s : State) : Prop where
  arr : s.arrived = s.popped ++ s.inbox
  del : s.delivered = (s.handled.filter (fun e => !e.2)).map (·.1)

theorem acct_step0 (cfg : Cfg) (s s' : State) (i : Step) (h : AcctInv s) (hs : step0 cfg s i = some s') : AcctInv s' := by
  obtain ⟨h1, h2⟩ := h
  cases i <;> simp only [step0] at hs <;> (repeat' (split at hs)) <;> cases hs <;> constructor <;> simp_all

/-! ### order of delivery -/

theorem everTwo_step0 (cfg : Cfg) (s s' : State) (i : Step) (hs : step0 cfg s i = some s') : s'.everTwo = s.everTwo := by
  cases i <;> simp only [step0] at hs <;> (repeat' (split at hs)) <;> cases hs <;> rfl

/-- while at most one dispatcher thread has ever been active: the messages taken from the dispatch queue are exactly the handled ones,
in that order, followed by the one (if any) that is held and not yet handled -/
def OrderInv (s : State) : Prop :=
  s.everTwo = false → active s ≤ 1 ∧ s.popped = s.handled.map (·.1) ++ held s

theorem order_init (cfg : Cfg) : OrderInv (init cfg) := by
  intro _; simp [init, active, held]

theorem order_step (cfg : Cfg) (s s' : State) (i : Step) (h : OrderInv s) (hs : step cfg s i = some s') : OrderInv s' := by
  obtain ⟨s1, hs1, rfl⟩ := step_mark hs
  intro hev
  simp only [mark, Bool.or_eq_false_iff, decide_eq_false_iff_not] at hev
  have hsev : s.everTwo = false := by rw [← everTwo_step0 cfg s s1 i hs1]; exact hev.1
  obtain ⟨ha, hp⟩ := h hsev
  show active s1 ≤ 1 ∧ s1.popped = s1.handled.map (·.1) ++ held s1
  refine ⟨by omega, ?_⟩
  simp only [active, held] at ha hp ⊢
  cases i <;> simp only [step0] at hs1
  case pop d =>
    split at hs1
    · rename_i dd m rest hdd hin
      split at hs1
      · rename_i hc
        cases hs1
        have hact : dd.active = true := by simp [Disp.active, hc.1]
        simp only
        rw [held_single s.disp d dd _ hdd ha hact]
        rw [held_single_self s.disp d dd hdd ha hact] at hp
        simp [Disp.unstarted, hc.2] at hp ⊢
        exact hp
      · cases hs1
    · cases hs1
  case handle d =>
    split at hs1
    · rename_i dd hdd
      split at hs1
      · rename_i m hcur
        have hact : dd.active = true := by simp [Disp.active, hcur]
        rw [held_single_self s.disp d dd hdd ha hact] at hp
        split at hs1
        · cases hs1
        · split at hs1 <;> cases hs1 <;> simp only <;> rw [held_single s.disp d dd _ hdd ha hact] <;>
            simp [Disp.unstarted, hcur] at hp ⊢ <;> exact hp
      · cases hs1
    · cases hs1
  case put d =>
    split at hs1
    · rename_i dd hdd
      split at hs1
      · rename_i m hcur
        have hact : dd.active = true := by simp [Disp.active, hcur]
        rw [held_single_self s.disp d dd hdd ha hact] at hp
        split at hs1
        · split at hs1 <;> cases hs1 <;> simp only <;> rw [held_single s.disp d dd _ hdd ha hact] <;>
            simp [Disp.unstarted, hcur] at hp ⊢ <;> exact hp
        · cases hs1
      · cases hs1
    · cases hs1
  case finish d =>
    split at hs1
    · rename_i dd hdd
      split at hs1
      · rename_i m hcur
        have hact : dd.active = true := by simp [Disp.active, hcur]
        rw [held_single_self s.disp d dd hdd ha hact] at hp
        cases hs1; simp only
        rw [held_single s.disp d dd _ hdd ha hact]
        simp [Disp.unstarted, hcur] at hp ⊢; exact hp
      · cases hs1
    · cases hs1
  case linkDown =>
    split at hs1
    · cases hs1; simp only
      split
      · rw [List.filterMap_map]
        have : (Disp.unstarted ∘ fun d : Disp => { d with stopped := true }) = Disp.unstarted := by
          funext d; simp [Disp.unstarted]
        rw [this]; exact hp
      · exact hp
    · cases hs1
  case linkUp =>
    split at hs1
    · cases hs1
    · cases hs1; simp only [List.filterMap_append]
      have e : List.filterMap Disp.unstarted [({} : Disp)] = [] := rfl
      rw [e, List.append_nil]; exact hp
  all_goals ((repeat' (split at hs1)) <;> cases hs1 <;> exact hp)


/-! ### one connection: one dispatcher thread -/

/-- every `start()` adds one dispatcher thread and nothing ever removes one from the list -/
def LenInv (s : State) : Prop := s.disp.length = s.ups ∧ (s.ups ≤ 1 → s.everTwo = false)

theorem len_init (cfg : Cfg) : LenInv (init cfg) := by simp [LenInv, init]

theorem len_step (cfg : Cfg) (s s' : State) (i : Step) (h : LenInv s) (hs : step cfg s i = some s') : LenInv s' := by
  obtain ⟨s1, hs1, rfl⟩ := step_mark hs
  obtain ⟨hl, he⟩ := h
  have key : s1.disp.length = s1.ups ∧ s.ups ≤ s1.ups ∧ s1.everTwo = s.everTwo := by
    cases i <;> simp only [step0] at hs1 <;> (repeat' (split at hs1)) <;> cases hs1 <;> simp [hl]
  refine ⟨key.1, ?_⟩
  intro hu
  show (s1.everTwo || decide (1 < active s1)) = false
  have h1 : s1.everTwo = false := by rw [key.2.2]; exact he (by have : (mark s1).ups = s1.ups := rfl; omega)
  have h2 : active s1 ≤ s1.disp.length := List.countP_le_length
  have h3 : (mark s1).ups = s1.ups := rfl
  simp [h1]; omega

/-! ### the per-start stop token (proposal C06-dispatcher-leak) -/

/-- the link is only dropped while no dispatcher thread holds a message -/
def quietDown (s : State) : Step → Bool
  | .linkDown => s.disp.all (fun d => d.cur.isNone)
  | _ => true

structure PatchInv (s : State) : Prop where
  down : s.up = false → active s = 0
  one : active s ≤ 1
  never : s.everTwo = false

theorem patch_init (cfg : Cfg) : PatchInv (init cfg) := by
  constructor <;> simp [init, active]

theorem countP_stop_all (l : List Disp) (h : l.all (fun d => d.cur.isNone) = true) :
    (l.map (fun d => { d with stopped := true })).countP Disp.active = 0 := by
  rw [List.countP_eq_zero]
  intro x hx
  obtain ⟨y, hy, rfl⟩ := List.mem_map.mp hx
  have := List.all_eq_true.mp h y hy
  simp [Disp.active]
  cases hc : y.cur with
  | none => rfl
  | some v => simp [hc] at this

theorem patch_step (cfg : Cfg) (hp : cfg.patched = true) (s s' : State) (i : Step) (h : PatchInv s)
    (hs0 : ((sys cfg).pre quietDown).step s i = some s') : PatchInv s' := by
  obtain ⟨hq, hs⟩ := Sys.pre_step hs0
  clear hs0
  obtain ⟨s1, hs1, rfl⟩ := step_mark hs
  clear hs
  obtain ⟨hd, ho, hn⟩ := h
  have key : (s1.up = false → active s1 = 0) ∧ active s1 ≤ 1 := by
    simp only [active] at hd ho ⊢
    cases i <;> simp only [step0, hp] at hs1
    case pop d =>
      split at hs1
      · rename_i dd m rest hdd hin
        split at hs1
        · rename_i hc
          cases hs1; simp only
          rw [countP_set_eq Disp.active s.disp d dd _ hdd (by simp [Disp.active, hc.1])]
          exact ⟨hd, ho⟩
        · cases hs1
      · cases hs1
    case handle d =>
      split at hs1
      · rename_i dd hdd
        split at hs1
        · rename_i m hcur
          split at hs1
          · cases hs1
          · split at hs1 <;> cases hs1 <;> simp only
            · have := countP_set_le Disp.active s.disp d dd { dd with routing := true } hdd (by simp [Disp.active, hcur])
              exact ⟨fun hu => by have := hd hu; omega, by omega⟩
            · have := countP_set_le Disp.active s.disp d dd { dd with cur := some (m, true) } hdd (by simp [Disp.active, hcur])
              exact ⟨fun hu => by have := hd hu; omega, by omega⟩
        · cases hs1
      · cases hs1
    case put d =>
      split at hs1
      · rename_i dd hdd
        split at hs1
        · rename_i m hcur
          split at hs1
          · split at hs1 <;> cases hs1 <;> simp only
            · have := countP_set_le Disp.active s.disp d dd { dd with cur := none, routing := false } hdd (by simp [Disp.active, hcur])
              exact ⟨fun hu => by have := hd hu; omega, by omega⟩
            · have := countP_set_le Disp.active s.disp d dd { dd with cur := none, routing := false } hdd (by simp [Disp.active, hcur])
              exact ⟨fun hu => by have := hd hu; omega, by omega⟩
          · cases hs1
        · cases hs1
      · cases hs1
    case finish d =>
      split at hs1
      · rename_i dd hdd
        split at hs1
        · rename_i m hcur
          cases hs1; simp only
          have := countP_set_le Disp.active s.disp d dd { dd with cur := none } hdd (by simp [Disp.active, hcur])
          exact ⟨fun hu => by have := hd hu; omega, by omega⟩
        · cases hs1
      · cases hs1
    case linkDown =>
      split at hs1
      · cases hs1; simp only [if_true]
        have := countP_stop_all s.disp (by simpa [quietDown] using hq)
        exact ⟨fun _ => this, by omega⟩
      · cases hs1
    case linkUp =>
      split at hs1
      · cases hs1
      · rename_i hu
        cases hs1; simp only [List.countP_append]
        have := hd (by simpa using hu)
        have e : List.countP Disp.active [({} : Disp)] = 1 := rfl
        rw [this, e]; simp
    all_goals ((repeat' (split at hs1)) <;> cases hs1 <;> exact ⟨hd, ho⟩)
  have hev : s1.everTwo = false := by rw [everTwo_step0 cfg s s1 i hs1]; exact hn
  refine ⟨key.1, key.2, ?_⟩
  show (s1.everTwo || decide (1 < active s1)) = false
  simp [hev]; exact key.2


/-! ### the receive buffer across a link loss -/

/-- while the link is down no bytes of an old frame are left in the receive buffer -/
def FrameInv (s : State) : Prop := s.up = false → s.stale = 0

theorem frame_init (cfg : Cfg) : FrameInv (init cfg) := fun _ => rfl

theorem frame_step (cfg : Cfg) (s s' : State) (i : Step) (h : FrameInv s) (hs : step cfg s i = some s') : FrameInv s' := by
  obtain ⟨s1, hs1, rfl⟩ := step_mark hs
  show s1.up = false → s1.stale = 0
  cases i <;> simp only [step0] at hs1 <;> (repeat' (split at hs1)) <;> cases hs1 <;> simp_all [FrameInv]

/-! ### the window between the `in _response_queues` test and `put_nowait` -/

def Ended (s : State) (k : Int) : Prop := ∃ c, (s.callers c).pc = .done ∧ (s.callers c).id = k

/-- a dispatcher between test and put holds a message whose system bytes are registered, or belonged to a caller that has left
`send_and_waitfor_response`; a message is only ever lost (KeyError) in the second case; with reply-only routing no primary gets there -/
structure LossInv (cfg : Cfg) (s : State) : Prop where
  pend : ∀ d ∈ s.disp, d.routing = true → ∃ m, d.cur = some (m, false) ∧
    ((∃ c, s.reg m.sys = some c) ∨ Ended s m.sys) ∧ (cfg.replyOnly = true → m.primary = false)
  lostDone : ∀ m ∈ s.lost, Ended s m.sys ∧ (cfg.replyOnly = true → m.primary = false)
  prim : cfg.replyOnly = true → ∀ e ∈ s.handled, e.1.primary = true → e.2 = false

theorem loss_init (cfg : Cfg) : LossInv cfg (init cfg) := by
  constructor <;> simp [init]

/-- steps that leave the dispatcher list, the lost list and the handled log alone: enough that registered/ended keys stay so -/
theorem loss_frame (cfg : Cfg) (s s' : State) (h : LossInv cfg s) (hd : s'.disp = s.disp) (hl : s'.lost = s.lost) (hh : s'.handled = s.handled)
    (hk : ∀ k, ((∃ c, s.reg k = some c) ∨ Ended s k) → ((∃ c, s'.reg k = some c) ∨ Ended s' k))
    (he : ∀ k, Ended s k → Ended s' k) : LossInv cfg s' := by
  obtain ⟨h1, h2, h3⟩ := h
  refine ⟨?_, ?_, by rw [hh]; exact h3⟩
  · intro d hdm hrt
    rw [hd] at hdm
    obtain ⟨m, hc, hr, hp⟩ := h1 d hdm hrt
    exact ⟨m, hc, hk _ hr, hp⟩
  · intro m hm
    rw [hl] at hm
    exact ⟨he _ (h2 m hm).1, (h2 m hm).2⟩

theorem ended_step0 (cfg : Cfg) (s s' : State) (i : Step) (hs : step0 cfg s i = some s') : ∀ k, Ended s k → Ended s' k := by
  cases i <;> simp only [step0] at hs <;> (repeat' (split at hs)) <;> cases hs <;>
    (intro k ⟨c', h1, h2⟩; exact ⟨c', by grind [upd], by grind [upd]⟩)

theorem reg_step0 (cfg : Cfg) (s s' : State) (i : Step) (hs : step0 cfg s i = some s') :
    ∀ k, ((∃ c, s.reg k = some c) ∨ Ended s k) → ((∃ c, s'.reg k = some c) ∨ Ended s' k) := by
  intro k hk
  rcases hk with ⟨c0, hc0⟩ | he
  · cases i <;> simp only [step0] at hs
    case unregister c =>
      (repeat' (split at hs)) <;> cases hs
      · by_cases e : k = (s.callers c).id
        · exact Or.inr ⟨c, by simp [upd], by simp [upd, e]⟩
        · exact Or.inl ⟨c0, by simp [upd, e, hc0]⟩
      · exact Or.inl ⟨c0, hc0⟩
    case register c =>
      (repeat' (split at hs)) <;> cases hs
      by_cases e : k = (s.callers c).id
      · exact Or.inl ⟨c, by simp [upd, e]⟩
      · exact Or.inl ⟨c0, by simp [upd, e, hc0]⟩
    all_goals ((repeat' (split at hs)) <;> cases hs <;> exact Or.inl ⟨c0, hc0⟩)
  · exact Or.inr (ended_step0 cfg s s' i hs k he)

theorem loss_step0 (cfg : Cfg) (s s' : State) (i : Step) (h : LossInv cfg s) (hs : step0 cfg s i = some s') : LossInv cfg s' := by
  have hE := ended_step0 cfg s s' i hs
  have hR := reg_step0 cfg s s' i hs
  obtain ⟨h1, h2, h3⟩ := h
  have keep : ∀ d ∈ s.disp, d.routing = true → ∃ m, d.cur = some (m, false) ∧
      ((∃ c, s'.reg m.sys = some c) ∨ Ended s' m.sys) ∧ (cfg.replyOnly = true → m.primary = false) := by
    intro d hd hrt
    obtain ⟨m, hc, hr, hp⟩ := h1 d hd hrt
    exact ⟨m, hc, hR _ hr, hp⟩
  have keepLost : ∀ m ∈ s.lost, Ended s' m.sys ∧ (cfg.replyOnly = true → m.primary = false) :=
    fun m hm => ⟨hE _ (h2 m hm).1, (h2 m hm).2⟩
  cases i <;> simp only [step0] at hs
  case pop d =>
    split at hs
    · rename_i dd m rest hdd hin
      split at hs
      · rename_i hc
        cases hs
        refine ⟨?_, keepLost, h3⟩
        intro d' hd' hrt
        rcases List.mem_or_eq_of_mem_set hd' with hm | hm
        · exact keep d' hm hrt
        · subst hm
          have hin' : dd ∈ s.disp := List.mem_of_getElem? hdd
          obtain ⟨m0, hc0, _⟩ := h1 dd hin' hrt
          rw [hc.2] at hc0; cases hc0
      · cases hs
    · cases hs
  case handle d =>
    split at hs
    · rename_i dd hdd
      split at hs
      · rename_i m hcur
        split at hs
        · cases hs
        · rename_i hnr
          split at hs
          · rename_i c0 hreg
            cases hs
            refine ⟨?_, keepLost, h3⟩
            intro d' hd' hrt
            rcases List.mem_or_eq_of_mem_set hd' with hm | hm
            · exact keep d' hm hrt
            · subst hm
              refine ⟨m, hcur, ?_, ?_⟩
              · by_cases hp : (cfg.replyOnly && m.primary) = true
                · simp [hp] at hreg
                · simp only [hp] at hreg; exact Or.inl ⟨c0, by simpa using hreg⟩
              · intro hro
                by_cases hp : m.primary = true
                · simp [hro, hp] at hreg
                · simpa using hp
          · rename_i hreg
            cases hs
            refine ⟨?_, keepLost, ?_⟩
            · intro d' hd' hrt
              rcases List.mem_or_eq_of_mem_set hd' with hm | hm
              · exact keep d' hm hrt
              · subst hm
                simp only at hrt
                exact absurd hrt hnr
            · intro hro e he hpe
              rcases List.mem_append.mp he with he | he
              · exact h3 hro e he hpe
              · simp only [List.mem_singleton] at he; subst he; rfl
      · cases hs
    · cases hs
  case put d =>
    split at hs
    · rename_i dd hdd
      have hin' : dd ∈ s.disp := List.mem_of_getElem? hdd
      split at hs
      · rename_i m hcur
        split at hs
        · rename_i hrt0
          obtain ⟨m0, hc0, hr0, hp0⟩ := h1 dd hin' hrt0
          rw [hcur] at hc0; cases hc0
          have hdisp : ∀ d' ∈ s.disp.set d { dd with cur := none, routing := false }, d'.routing = true → ∃ m, d'.cur = some (m, false) ∧
              ((∃ c, s'.reg m.sys = some c) ∨ Ended s' m.sys) ∧ (cfg.replyOnly = true → m.primary = false) := by
            intro d' hd' hrt
            rcases List.mem_or_eq_of_mem_set hd' with hm | hm
            · exact keep d' hm hrt
            · subst hm; simp at hrt
          have hprim : cfg.replyOnly = true → ∀ e ∈ s.handled ++ [(m, true)], e.1.primary = true → e.2 = false := by
            intro hro e he hpe
            rcases List.mem_append.mp he with he | he
            · exact h3 hro e he hpe
            · simp only [List.mem_singleton] at he; subst he
              have := hp0 hro; simp only at hpe; rw [this] at hpe; cases hpe
          split at hs
          · cases hs; exact ⟨hdisp, keepLost, hprim⟩
          · rename_i hnone
            cases hs
            refine ⟨hdisp, ?_, hprim⟩
            intro m' hm'
            rcases List.mem_append.mp hm' with hm' | hm'
            · exact keepLost m' hm'
            · simp only [List.mem_singleton] at hm'; subst hm'
              refine ⟨?_, hp0⟩
              rcases hr0 with ⟨c, hc⟩ | he
              · rw [hnone] at hc; cases hc
              · exact he
        · cases hs
      · cases hs
    · cases hs
  case finish d =>
    split at hs
    · rename_i dd hdd
      have hin' : dd ∈ s.disp := List.mem_of_getElem? hdd
      split at hs
      · rename_i m hcur
        cases hs
        refine ⟨?_, keepLost, h3⟩
        intro d' hd' hrt
        rcases List.mem_or_eq_of_mem_set hd' with hm | hm
        · exact keep d' hm hrt
        · subst hm
          obtain ⟨m0, hc0, _⟩ := h1 dd hin' hrt
          rw [hcur] at hc0; cases hc0
      · cases hs
    · cases hs
  case linkDown =>
    split at hs
    · cases hs
      refine ⟨?_, keepLost, h3⟩
      intro d' hd' hrt
      split at hd'
      · obtain ⟨d0, hd0, rfl⟩ := List.mem_map.mp hd'
        exact keep d0 hd0 hrt
      · exact keep d' hd' hrt
    · cases hs
  case linkUp =>
    split at hs
    · cases hs
    · cases hs
      refine ⟨?_, keepLost, h3⟩
      intro d' hd' hrt
      rcases List.mem_append.mp hd' with hm | hm
      · exact keep d' hm hrt
      · simp only [List.mem_singleton] at hm; subst hm; simp at hrt
  all_goals ((repeat' (split at hs)) <;> cases hs <;> exact ⟨keep, keepLost, h3⟩)


end SecsModel.Proofs.Txn
