import SecsModel.Proofs.SecsIHeader
import SecsModel.Model.SecsI
/-! Lemmas about the hand model `Model.SecsI` (split, block codec). -/
namespace SecsModel.Proofs.SecsI
open SecsModel SecsModel.Gen SecsModel.Model.SecsI SecsModel.Proofs.SecsIHdr

theorem chunks_nil (n : Nat) : chunks n [] = [] := by
  unfold chunks; simp

theorem chunks_cons (n : Nat) (hn : 0 < n) (data : Bytes) (hd : data ≠ []) :
    chunks n data = data.take n :: chunks n (data.drop n) := by
  rw [chunks]
  have : ¬ (n = 0 ∨ data = []) := by
    intro h; rcases h with h | h
    · omega
    · exact hd h
  simp [this]

theorem chunks_flatten (n : Nat) (hn : 0 < n) : ∀ (k : Nat) (data : Bytes), data.length ≤ k → (chunks n data).flatten = data
  | 0, data, h => by
    have : data = [] := List.length_eq_zero_iff.mp (by omega)
    subst this; simp [chunks_nil]
  | k+1, data, h => by
    by_cases hd : data = []
    · subst hd; simp [chunks_nil]
    · rw [chunks_cons n hn data hd]
      have hl : 0 < data.length := List.length_pos_iff.mpr hd
      have : (data.drop n).length ≤ k := by simp only [List.length_drop]; omega
      simp [chunks_flatten n hn k (data.drop n) this]

theorem chunks_bound (n : Nat) (hn : 0 < n) : ∀ (k : Nat) (data : Bytes), data.length ≤ k →
    ∀ c ∈ chunks n data, 0 < c.length ∧ c.length ≤ n
  | 0, data, h => by
    have : data = [] := List.length_eq_zero_iff.mp (by omega)
    subst this; simp [chunks_nil]
  | k+1, data, h => by
    by_cases hd : data = []
    · subst hd; simp [chunks_nil]
    · rw [chunks_cons n hn data hd]
      have hl : 0 < data.length := List.length_pos_iff.mpr hd
      have : (data.drop n).length ≤ k := by simp only [List.length_drop]; omega
      intro c hc
      rcases List.mem_cons.mp hc with hc | hc
      · subst hc; simp only [List.length_take]; omega
      · exact chunks_bound n hn k _ this c hc

theorem chunks_length (n : Nat) (hn : 0 < n) : ∀ (k : Nat) (data : Bytes), data.length ≤ k →
    (chunks n data).length = (data.length + n - 1) / n
  | 0, data, h => by
    have : data = [] := List.length_eq_zero_iff.mp (by omega)
    subst this
    simp [chunks_nil]
    exact (Nat.div_eq_of_lt (by omega)).symm
  | k+1, data, h => by
    by_cases hd : data = []
    · subst hd
      simp [chunks_nil]
      exact (Nat.div_eq_of_lt (by omega)).symm
    · rw [chunks_cons n hn data hd]
      have hl : 0 < data.length := List.length_pos_iff.mpr hd
      have hk : (data.drop n).length ≤ k := by simp only [List.length_drop]; omega
      simp only [List.length_cons, chunks_length n hn k _ hk, List.length_drop]
      by_cases hle : data.length ≤ n
      · have h1 : data.length - n = 0 := by omega
        rw [h1]
        have : (0 + n - 1) / n = 0 := Nat.div_eq_of_lt (by omega)
        rw [this]
        have h2 : (data.length + n - 1) / n = 1 := by
          apply Nat.div_eq_of_lt_le <;> omega
        omega
      · have : data.length + n - 1 = (data.length - n + n - 1) + n := by omega
        rw [this, Nat.add_div_right _ hn]

/-! numbering -/
theorem number_data (h : Header) (c : Bool) (t : Nat) : ∀ (i : Nat) (ds : List Bytes),
    (number h c t i ds).map (·.data) = ds
  | _, [] => rfl
  | i, d :: ds => by simp [number, number_data h c t (i+1) ds]

theorem number_length (h : Header) (c : Bool) (t : Nat) : ∀ (i : Nat) (ds : List Bytes),
    (number h c t i ds).length = ds.length
  | _, [] => rfl
  | i, d :: ds => by simp [number, number_length h c t (i+1) ds]

/-- the `j`-th block produced by the numbering loop -/
theorem number_get (h : Header) (c : Bool) (t : Nat) : ∀ (i : Nat) (ds : List Bytes) (j : Nat) (hj : j < ds.length),
    (number h c t i ds)[j]? =
      some ⟨{ h with block := ((i + j + 1 : Nat) : Int), last_block := if c then decide (i + j + 1 = t) else h.last_block }, ds[j]⟩
  | _, [], j, hj => by simp at hj
  | i, d :: ds, 0, _ => by simp [number]
  | i, d :: ds, j+1, hj => by
    simp only [number, List.getElem?_cons_succ]
    rw [number_get h c t (i+1) ds j (by simpa using hj)]
    simp only [List.getElem_cons_succ]
    have : i + 1 + j + 1 = i + (j + 1) + 1 := by omega
    rw [this]

end SecsModel.Proofs.SecsI
