import SecsModel.Proofs.SecsIHeader
import SecsModel.Model.SecsI
/-! Lemmas about the hand model `Model.SecsI` (split, block codec). -/
namespace SecsModel.Proofs.SecsI
open SecsModel SecsModel.Gen SecsModel.Model.SecsI SecsModel.Proofs.SecsIHdr

theorem chunks_nil (n : Nat) : chunks n [] = [] := by
  unfold chunks; simp

theorem chunks_cons (n : Nat) (hn : 0 < n) (data : Bytes) (hd : data ≠ []) :
    chunks n data = data.take n :: chunks n (data.drop n) := by
  rw [chunks]
  have : ¬ (n = 0 ∨ data = []) := by
    intro h; rcases h with h | h
    · omega
    · exact hd h
  simp [this]

theorem chunks_flatten (n : Nat) (hn : 0 < n) : ∀ (k : Nat) (data : Bytes), data.length ≤ k → (chunks n data).flatten = data
  | 0, data, h => by
    have : data = [] := List.length_eq_zero_iff.mp (by omega)
    subst this; simp [chunks_nil]
  | k+1, data, h => by
    by_cases hd : data = []
    · subst hd; simp [chunks_nil]
    · rw [chunks_cons n hn data hd]
      have hl : 0 < data.length := List.length_pos_iff.mpr hd
      have : (data.drop n).length ≤ k := by simp only [List.length_drop]; omega
      simp [chunks_flatten n hn k (data.drop n) this]

theorem chunks_bound (n : Nat) (hn : 0 < n) : ∀ (k : Nat) (data : Bytes), data.length ≤ k →
    ∀ c ∈ chunks n data, 0 < c.length ∧ c.length ≤ n
  | 0, data, h => by
    have : data = [] := List.length_eq_zero_iff.mp (by omega)
    subst this; simp [chunks_nil]
  | k+1, data, h => by
    by_cases hd : data = []
    · subst hd; simp [chunks_nil]
    · rw [chunks_cons n hn data hd]
      have hl : 0 < data.length := List.length_pos_iff.mpr hd
      have : (data.drop n).length ≤ k := by simp only [List.length_drop]; omega
      intro c hc
      rcases List.mem_cons.mp hc with hc | hc
      · subst hc; simp only [List.length_take]; omega
      · exact chunks_bound n hn k _ this c hc

theorem chunks_length (n : Nat) (hn : 0 < n) : ∀ (k : Nat) (data : Bytes), data.length ≤ k →
    (chunks n data).length = (data.length + n - 1) / n
  | 0, data, h => by
    have : data = [] := List.length_eq_zero_iff.mp (by omega)
    subst this
    simp [chunks_nil]
    exact (Nat.div_eq_of_lt (by omega)).symm
  | k+1, data, h => by
    by_cases hd : data = []
    · subst hd
      simp [chunks_nil]
      exact (Nat.div_eq_of_lt (by omega)).symm
    · rw [chunks_cons n hn data hd]
      have hl : 0 < data.length := List.length_pos_iff.mpr hd
      have hk : (data.drop n).length ≤ k := by simp only [List.length_drop]; omega
      simp only [List.length_cons, chunks_length n hn k _ hk, List.length_drop]
      by_cases hle : data.length ≤ n
      · have h1 : data.length - n = 0 := by omega
        rw [h1]
        have : (0 + n - 1) / n = 0 := Nat.div_eq_of_lt (by omega)
        rw [this]
        have h2 : (data.length + n - 1) / n = 1 := by
          apply Nat.div_eq_of_lt_le <;> omega
        omega
      · have : data.length + n - 1 = (data.length - n + n - 1) + n := by omega
        rw [this, Nat.add_div_right _ hn]

/-! numbering -/
theorem number_data (h : Header) (c : Bool) (t : Nat) : ∀ (i : Nat) (ds : List Bytes),
    (number h c t i ds).map (·.data) = ds
  | _, [] => rfl
  | i, d :: ds => by simp [number, number_data h c t (i+1) ds]

theorem number_length (h : Header) (c : Bool) (t : Nat) : ∀ (i : Nat) (ds : List Bytes),
    (number h c t i ds).length = ds.length
  | _, [] => rfl
  | i, d :: ds => by simp [number, number_length h c t (i+1) ds]

/-- the `j`-th block produced by the numbering loop -/
theorem number_get (h : Header) (c : Bool) (t : Nat) : ∀ (i : Nat) (ds : List Bytes) (j : Nat) (hj : j < ds.length),
    (number h c t i ds)[j]? =
      some ⟨{ h with block := ((i + j + 1 : Nat) : Int), last_block := if c then decide (i + j + 1 = t) else h.last_block }, ds[j]⟩
  | _, [], j, hj => by simp at hj
  | i, d :: ds, 0, _ => by simp [number]
  | i, d :: ds, j+1, hj => by
    simp only [number, List.getElem?_cons_succ]
    rw [number_get h c t (i+1) ds j (by simpa using hj)]
    simp only [List.getElem_cons_succ]
    have : i + 1 + j + 1 = i + (j + 1) + 1 := by omega
    rw [this]

end SecsModel.Proofs.SecsI

namespace SecsModel.Proofs.SecsI
open SecsModel SecsModel.Gen SecsModel.Model.SecsI SecsModel.Proofs.SecsIHdr

theorem sum_le_of_allBytes : ∀ (bs : Bytes), AllBytes bs → bs.sum ≤ 255 * bs.length
  | [], _ => by simp
  | b :: bs, h => by
    have hb : b < 256 := h b (by simp)
    have := sum_le_of_allBytes bs (fun x hx => h x (by simp [hx]))
    simp only [List.sum_cons, List.length_cons]; omega

theorem sum_set : ∀ (l : List Nat) (i : Nat) (v : Nat) (h : i < l.length), (l.set i v).sum + l[i] = l.sum + v
  | [], i, v, h => by simp at h
  | a :: l, 0, v, h => by simp; omega
  | a :: l, i+1, v, h => by
    have := sum_set l i v (by simpa using h)
    simp only [List.set_cons_succ, List.sum_cons, List.getElem_cons_succ]; omega

theorem allBytes_append {a b : Bytes} : AllBytes (a ++ b) ↔ AllBytes a ∧ AllBytes b := by
  unfold AllBytes
  constructor
  · intro h; exact ⟨fun x hx => h x (by simp [hx]), fun x hx => h x (by simp [hx])⟩
  · intro ⟨h1, h2⟩ x hx
    rcases List.mem_append.mp hx with hx | hx
    · exact h1 x hx
    · exact h2 x hx

/-- `Block.decode` with the generated widths (length byte 1, header 10, checksum 2) substituted; closed by `rfl`, so a change of
`length_format`, `checksum_format` or the header length in the source re-opens it -/
theorem decode_eq (raw : Bytes) : Block.decode raw =
    (if raw.length < 1 then .error .structError else
     if ofBe (raw.take 1) < 10 then .error .structError else
     if raw.length ≠ 1 + 10 + (ofBe (raw.take 1) - 10) + 2 then .error .structError else
     match SecsIHeader.decode ((raw.drop 1).take 10) with
     | .error e => .error e
     | .ok h =>
       match checksum ⟨h, (raw.drop (1 + 10)).take (ofBe (raw.take 1) - 10)⟩ with
       | .error e => .error e
       | .ok s =>
         if s ≠ ofBe (raw.drop (1 + 10 + (ofBe (raw.take 1) - 10))) then .ok none
         else .ok (some ⟨h, (raw.drop (1 + 10)).take (ofBe (raw.take 1) - 10)⟩)) := rfl

/-- `Block.decode` on a byte string that is already cut into length byte, ten header bytes, data, two checksum bytes -/
theorem decode_struct (l : Nat) (hb data ck : Bytes) (hhb : hb.length = 10) (hck : ck.length = 2) (hl : l < 256)
    (ahb : AllBytes hb) :
    ∃ h, SecsIHeader.decode hb = .ok h ∧ h.encode = .ok hb ∧
      Block.decode (l :: (hb ++ (data ++ ck))) =
        if l = 10 + data.length then
          .ok (if (hb ++ data).sum = ofBe ck then some ⟨h, data⟩ else none)
        else .error .structError := by
  obtain ⟨h, hdec, _, henc⟩ := encode_decode hb hhb ahb
  refine ⟨h, hdec, henc, ?_⟩
  have e1 : ofBe [l] = l := by simp [ofBe]
  by_cases hc : l = 10 + data.length
  · rw [decode_eq, if_pos hc]
    have t1 : (l :: (hb ++ (data ++ ck))).take 1 = [l] := by simp
    have c1 : ¬ ((l :: (hb ++ (data ++ ck))).length < 1) := by simp
    have c3 : ¬ ((l :: (hb ++ (data ++ ck))).length ≠ 1 + 10 + (l - 10) + 2) := by
      simp [hhb, hck]; omega
    have d1 : ((l :: (hb ++ (data ++ ck))).drop 1).take 10 = hb := by
      simp only [List.drop_succ_cons, List.drop_zero]
      rw [List.take_left' hhb]
    have d2 : ((l :: (hb ++ (data ++ ck))).drop (1 + 10)).take (l - 10) = data := by
      have : (l :: (hb ++ (data ++ ck))).drop (1 + 10) = data ++ ck := by
        show (l :: (hb ++ (data ++ ck))).drop (10 + 1) = _
        rw [List.drop_succ_cons, List.drop_left' hhb]
      rw [this]
      have : l - 10 = data.length := by omega
      rw [this, List.take_left' rfl]
    have d3 : (l :: (hb ++ (data ++ ck))).drop (1 + 10 + (l - 10)) = ck := by
      have : 1 + 10 + (l - 10) = (10 + data.length) + 1 := by omega
      rw [this, List.drop_succ_cons]
      have : hb ++ (data ++ ck) = (hb ++ data) ++ ck := by simp
      rw [this, List.drop_left' (by simp [hhb])]
    rw [if_neg c1, t1, e1]
    have c2 : ¬ (l < 10) := by omega
    rw [if_neg c2, if_neg c3, d1, d2, d3, hdec]
    simp only [checksum, henc]
    by_cases hs : (hb ++ data).sum = ofBe ck
    · rw [if_pos hs]; simp [List.sum_append] at hs ⊢; simp [hs]
    · rw [if_neg hs]; simp [List.sum_append] at hs ⊢; simp [hs]
  · rw [decode_eq, if_neg hc]
    have c1 : ¬ ((l :: (hb ++ (data ++ ck))).length < 1) := by simp
    have t1 : (l :: (hb ++ (data ++ ck))).take 1 = [l] := by simp
    rw [if_neg c1, t1, e1]
    by_cases c2 : l < 10
    · rw [if_pos c2]
    · rw [if_neg c2]
      have c3 : (l :: (hb ++ (data ++ ck))).length ≠ 1 + 10 + (l - 10) + 2 := by
        simp [hhb, hck]; omega
      rw [if_pos c3]

end SecsModel.Proofs.SecsI

namespace SecsModel.Proofs.SecsI
open SecsModel SecsModel.Gen SecsModel.Model.SecsI SecsModel.Proofs.SecsIHdr

theorem be1 (x : Nat) (h : x < 256) : be 1 x = [x] := by
  simp [be, Nat.mod_eq_of_lt h]

/-- the generated widths: one length byte, two checksum bytes, ten header bytes (closed by `rfl`) -/
theorem encode_eq (b : Block) : Block.encode b = Block.encodeW 1 2 10 b := rfl



theorem encodeW_ok (lw cw hl : Nat) (b : Block) (hb lb cb : Bytes) (h1 : b.header.encode = .ok hb)
    (h2 : Py.packBE [(lw, ((hl + b.data.length : Nat) : Int))] = .ok lb)
    (h3 : Py.packBE [(cw, (((hb ++ b.data).sum : Nat) : Int))] = .ok cb) :
    Block.encodeW lw cw hl b = .ok (lb ++ (hb.take hl ++ List.replicate (hl - hb.length) 0) ++ b.data ++ cb) := by
  unfold Block.encodeW
  split
  · rename_i e he; rw [h1] at he; cases he
  · rename_i hb' he
    rw [h1] at he; cases he
    split
    · rename_i e he2; rw [h2] at he2; cases he2
    · rename_i lb' he2
      rw [h2] at he2; cases he2
      split
      · rename_i e he3; rw [h3] at he3; cases he3
      · rename_i cb' he3
        rw [h3] at he3; cases he3
        rfl

theorem encode_struct (h : Header) (data : Bytes) (hb : Bytes) (henc : h.encode = .ok hb) (hhb : hb.length = 10)
    (ahb : AllBytes hb) (adata : AllBytes data) (hn : data.length ≤ 245) :
    Block.encode ⟨h, data⟩ = .ok ((10 + data.length) :: (hb ++ (data ++ be 2 ((hb ++ data).sum)))) := by
  have hsum : (hb ++ data).sum < 256 ^ 2 := by
    have := sum_le_of_allBytes (hb ++ data) (allBytes_append.mpr ⟨ahb, adata⟩)
    simp only [List.length_append, hhb] at this
    omega
  have p1 := Py.packBE_cons_nat 1 (10 + data.length) [] [] (by omega) rfl
  have p2 := Py.packBE_cons_nat 2 ((hb ++ data).sum) [] [] hsum rfl
  rw [encode_eq, encodeW_ok 1 2 10 ⟨h, data⟩ hb _ _ henc p1 p2]
  rw [be1 _ (by omega : 10 + data.length < 256)]
  have : hb.take 10 = hb := by rw [← hhb]; exact List.take_length
  simp [this, hhb]

/-- what `_split_blocks` is: the list of data chunks the message is cut into -/
def dataBlocks (body : Bytes) : List Bytes := if body.length = 0 then [body] else chunks 244 body

theorem split_eq_c (h : Header) (body : Bytes) (c : Bool) :
    split h body c = number h c (dataBlocks body).length 0 (dataBlocks body) := by
  simp only [split, BlockFmt.secsiBlockSize, dataBlocks]
  have : ¬ ((244 : Int) = -1) := by decide
  simp [this]

theorem split_eq (h : Header) (body : Bytes) :
    split h body = number h true (dataBlocks body).length 0 (dataBlocks body) := split_eq_c h body true

theorem dataBlocks_small (data : Bytes) (hlen : data.length ≤ 244) : dataBlocks data = [data] := by
  unfold dataBlocks
  split
  · rfl
  · rename_i h0
    have hd' : data ≠ [] := by intro c; apply h0; rw [c]; rfl
    rw [chunks_cons 244 (by decide) data hd', List.take_of_length_le hlen, List.drop_of_length_le hlen, chunks_nil]

/-- **Split, all body lengths.**  The blocks' data concatenate to the body; there are `max 1 ⌈len/244⌉` of them; none
carries more than 244 bytes; block `j` (0-based) is numbered `j+1`, carries the end bit iff it is the last, and has every
other header field of the message header. -/
theorem split_facts (h : Header) (body : Bytes) :
    ((split h body).map (·.data)).flatten = body
    ∧ (split h body).length = max 1 ((body.length + 243) / 244)
    ∧ (∀ b ∈ split h body, b.data.length ≤ 244)
    ∧ (∀ j, j < (split h body).length → ((split h body)[j]?).map (·.header) =
        some { h with block := ((j + 1 : Nat) : Int), last_block := decide (j + 1 = (split h body).length) }) := by
  rw [split_eq]
  have hlen : (number h true (dataBlocks body).length 0 (dataBlocks body)).length = (dataBlocks body).length := number_length ..
  refine ⟨?_, ?_, ?_, ?_⟩
  · rw [number_data]
    unfold dataBlocks
    split
    · rename_i h0; have : body = [] := List.length_eq_zero_iff.mp h0; subst this; rfl
    · exact chunks_flatten 244 (by decide) _ _ (Nat.le_refl _)
  · rw [hlen]
    unfold dataBlocks
    split
    · rename_i h0; rw [h0]; rfl
    · rename_i h0
      rw [chunks_length 244 (by decide) _ _ (Nat.le_refl _)]
      have : 1 ≤ (body.length + 244 - 1) / 244 := by
        apply (Nat.le_div_iff_mul_le (by decide)).mpr; omega
      have e : body.length + 244 - 1 = body.length + 243 := by omega
      rw [e] at this ⊢
      omega
  · intro b hb
    have hd : b.data ∈ (number h true (dataBlocks body).length 0 (dataBlocks body)).map (·.data) := List.mem_map_of_mem hb
    rw [number_data] at hd
    unfold dataBlocks at hd
    split at hd
    · rename_i h0; simp at hd; rw [hd]; omega
    · exact (chunks_bound 244 (by decide) _ _ (Nat.le_refl _) _ hd).2
  · intro j hj
    rw [hlen] at hj ⊢
    rw [number_get h true _ 0 _ j hj]
    simp


end SecsModel.Proofs.SecsI
