import SecsModel.Proofs.GemCommTrace
/-!
# Proofs.GemCommStep — one-step facts about `Model.GemComm.step` (outputs, retry, loss)
-/
namespace SecsModel.Proofs.GemComm
open SecsModel SecsModel.Spec.E30Comm SecsModel.Model.GemComm
set_option linter.unusedSimpArgs false

/-- the `handler_communicating` event is fired exactly by a step that enters COMMUNICATING -/
theorem step_event (cfg : Cfg) (s : State) (i : Input) (h : Output.evtCommunicating ∈ (step cfg s i).2) :
    (step cfg s i).1.comm = .communicating ∧ s.comm ≠ .communicating := by
  have key : ∀ (s0 : State) (t : Trans), s0.comm = s.comm → Output.evtCommunicating ∈ (perform s0 t).2 →
      (perform s0 t).1.comm = .communicating ∧ s.comm ≠ .communicating := by
    intro s0 t hs0 hm
    rcases perform_outputs s0 t _ hm with h1 | ⟨k, h1⟩ | h1 | ⟨_, h2, h3⟩
    · cases h1
    · cases h1
    · cases h1
    · exact ⟨h2, hs0 ▸ h3⟩
  cases i with
  | enable => exact key s _ rfl h
  | disable => exact key s _ rfl h
  | t3Expired =>
    simp only [step] at h ⊢
    split at h
    · simp at h
    · rename_i hh; simp only [hh, if_false]; exact key _ _ rfl h
  | delayExpired =>
    simp only [step] at h ⊢
    split at h
    · simp at h
    · rename_i hh; simp only [hh, if_false]; exact key _ _ rfl h
  | linkConnected =>
    simp only [step] at h
    split at h <;> simp at h
  | linkSelected =>
    simp only [step] at h ⊢
    split at h
    · simp at h
    · rename_i hh
      simp only [hh, if_false]
      simp only [hooked_comm, selects, Bool.and_self, if_true] at h ⊢
      rcases List.mem_append.mp h with h | h
      · simp at h
      · exact key _ _ rfl h
  | linkLost =>
    simp only [step] at h ⊢
    split at h
    · simp at h
    · rename_i hh
      simp only [hh, if_false]
      split at h
      · rename_i h2; simp only [h2, if_true]; exact key _ _ rfl h
      · simp at h
  | rx sf f w sys ck =>
    simp only [step] at h ⊢
    split at h
    · simp at h
    · rename_i hh
      simp only [hh, if_false]
      unfold onMessage at h ⊢
      rw [dispatchRow_eq] at h ⊢
      split at h
      · simp at h
      · rename_i d e13 e14 x heq
        simp only [heq]
        split at h
        · rename_i h13
          simp only [h13, if_true]
          split at h
          · simp at h
          · rename_i hg
            simp only [hg, if_false]
            rcases List.mem_append.mp h with h | h
            · simp at h
            · exact key _ _ rfl h
        · rename_i h13
          simp only [h13, if_false]
          split at h
          · rename_i h14
            simp only [h14, if_true]
            split at h
            · simp at h
            · rename_i hsys
              simp only [hsys, if_false]
              split at h
              · simp at h
              · exact key _ _ rfl h
              · exact key _ _ rfl h
          · rename_i h14
            split at h
            · split at h
              · rcases List.mem_append.mp h with h | h
                · simp at h
                · split at h <;> simp at h
              · simp at h
            · simp at h


/-- a stream/function callback is invoked only by an inbound message handled in COMMUNICATING -/
theorem step_callback (cfg : Cfg) (s : State) (i : Input) (sf f : Nat) (h : Output.callback sf f ∈ (step cfg s i).2) :
    s.comm = .communicating ∧ s.selected = true ∧ ∃ w sys ck, i = .rx sf f w sys ck := by
  have key : ∀ (s0 : State) (t : Trans), Output.callback sf f ∉ (perform s0 t).2 := by
    intro s0 t hm
    rcases perform_outputs s0 t _ hm with h1 | ⟨k, h1⟩ | h1 | ⟨h1, _⟩ <;> cases h1
  cases i with
  | enable => exact absurd h (key _ _)
  | disable => exact absurd h (key _ _)
  | t3Expired =>
    simp only [step] at h
    split at h
    · simp at h
    · exact absurd h (key _ _)
  | delayExpired =>
    simp only [step] at h
    split at h
    · simp at h
    · exact absurd h (key _ _)
  | linkConnected =>
    simp only [step] at h
    split at h <;> simp at h
  | linkSelected =>
    simp only [step] at h
    split at h
    · simp at h
    · simp only [hooked_comm, selects, Bool.and_self, if_true] at h
      rcases List.mem_append.mp h with h | h
      · simp at h
      · exact absurd h (key _ _)
  | linkLost =>
    simp only [step] at h
    split at h
    · simp at h
    · split at h
      · exact absurd h (key _ _)
      · simp at h
  | rx sf' f' w sys ck =>
    simp only [step] at h
    split at h
    · simp at h
    · rename_i hl
      have hl : s.selected = true := by simpa using hl
      unfold onMessage at h
      rw [dispatchRow_eq] at h
      split at h
      · simp at h
      · rename_i d e13 e14 x heq
        split at h
        · split at h
          · simp at h
          · rcases List.mem_append.mp h with h | h
            · simp at h
            · exact absurd h (key _ _)
        · split at h
          · split at h
            · simp at h
            · split at h
              · simp at h
              · exact absurd h (key _ _)
              · exact absurd h (key _ _)
          · split at h
            · rename_i hd
              have hcm : s.comm = .communicating := by
                obtain ⟨c, cn, l, a, b, n, m, q⟩ := s
                cases c <;> simp_all
              split at h
              · rcases List.mem_append.mp h with h | h
                · simp at h
                  exact ⟨hcm, hl, w, sys, ck, by rw [h.1, h.2]⟩
                · split at h <;> simp at h
              · simp at h
            · simp at h

end SecsModel.Proofs.GemComm
