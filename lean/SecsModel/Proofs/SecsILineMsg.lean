import SecsModel.Props.C16
import SecsModel.Proofs.SecsILineFacts
/-!
Composition of the line protocol facts (C17) with C16's block theorems: the blocks of `split h body` with their
`Block.encode`-ings are well framed (`C16.block_roundtrip`), and a byte altered at an offset ≥ 1 makes `Block.decode`
return `None` (`C16.corruption_rejected` + the length byte is intact).
-/
namespace SecsModel.Proofs.SecsILine
open SecsModel SecsModel.Gen SecsModel.Model.SecsI SecsModel.Model.SecsILine SecsModel.Proofs.SecsIHdr SecsModel.Proofs.SecsI

/-- what C16's round trip gives for one block -/
theorem framed_of_encode (h : Header) (data : Bytes) (hr : InRange h) (adata : AllBytes data) (hn : data.length ≤ 244) :
    ∃ raw, Block.encode ⟨h, data⟩ = .ok raw ∧ AllBytes raw ∧ raw.length = data.length + 13 ∧ Framed raw ⟨h, data⟩ := by
  obtain ⟨hb, henc, hhb, _⟩ := Props.C16.header_roundtrip h hr
  have ahb : AllBytes hb := Py.packBE_allBytes _ _ henc
  obtain ⟨raw, he, hl, ha, hd⟩ := Props.C16.block_roundtrip h data hr adata hn
  have hs := encode_struct h data hb henc hhb ahb adata (by omega)
  rw [he] at hs
  cases hs
  exact ⟨_, he, ha, hl, 10 + data.length, _, rfl, by simp [hhb]; omega, hd⟩

/-- a frame of the right length with an intact length byte never makes `Block.decode` raise -/
theorem decode_ok_of_length (n : Nat) (rest : Bytes) (hn : n ≤ 245) (hlen : rest.length = 10 + n + 2) (hall : AllBytes rest) :
    ∃ o, Block.decode ((10 + n) :: rest) = .ok o := by
  have e : rest = rest.take 10 ++ ((rest.drop 10).take n ++ (rest.drop 10).drop n) := by
    rw [List.take_append_drop, List.take_append_drop]
  have ahb : AllBytes (rest.take 10) := fun x hx => hall x (List.mem_of_mem_take hx)
  obtain ⟨h', _, _, hds⟩ := decode_struct (10 + n) (rest.take 10) ((rest.drop 10).take n) ((rest.drop 10).drop n)
    (by rw [List.length_take]; omega) (by simp only [List.length_drop]; omega) (by omega) ahb
  have hl : 10 + n = 10 + ((rest.drop 10).take n).length := by simp only [List.length_take, List.length_drop]; omega
  rw [← e, if_pos hl] at hds
  exact ⟨_, hds⟩

/-- **C16.corruption_rejected, in the form the line protocol needs**: the encoding of a valid block with one byte at an offset ≥ 1
(header, data, checksum) replaced by a different byte value is answered `None` by `Block.decode` (checksum mismatch, not an exception) -/
theorem corrupted_is_none (h : Header) (data : Bytes) (hr : InRange h) (adata : AllBytes data) (hn : data.length ≤ 244)
    (raw : Bytes) (henc : Block.encode ⟨h, data⟩ = .ok raw) (t v : Nat) (ht1 : 1 ≤ t) (ht2 : t < raw.length) (hv : v < 256)
    (hne : raw[t]? ≠ some v) : Block.decode (raw.set t v) = .ok none := by
  obtain ⟨raw', he, ha, hl, l, rest, hraw, hrl, _⟩ := framed_of_encode h data hr adata hn
  rw [henc] at he; cases he
  obtain ⟨hb, henc', hhb, _⟩ := Props.C16.header_roundtrip h hr
  have ahb : AllBytes hb := Py.packBE_allBytes _ _ henc'
  have hs := encode_struct h data hb henc' hhb ahb adata (by omega)
  rw [henc] at hs
  cases hs
  obtain ⟨t', rfl⟩ : ∃ t', t = t' + 1 := ⟨t - 1, by omega⟩
  have hrest : AllBytes ((hb ++ (data ++ be 2 ((hb ++ data).sum))).set t' v) := by
    intro x hx
    rcases List.mem_or_eq_of_mem_set hx with hx | hx
    · exact ha x (List.mem_cons_of_mem _ hx)
    · omega
  obtain ⟨o, ho⟩ := decode_ok_of_length data.length _ (by omega) (by simp [hhb]; omega) hrest
  have hrej := Props.C16.corruption_rejected h data hr adata hn _ henc (t' + 1) v ht2 hv hne
  simp only [List.set_cons_succ] at hrej ⊢
  rw [ho] at hrej ⊢
  cases o with
  | none => rfl
  | some b => exact absurd rfl (hrej b)

/-- the blocks of a message (C16's `split`) together with their encodings: all well framed -/
theorem message_pairs (h : Header) (body : Bytes) (hr : InRange h) (abody : AllBytes body) (hcount : (split h body).length ≤ 32767) :
    ∃ pairs : List (Bytes × Block), pairs.map (·.2) = split h body ∧
      (∀ p ∈ pairs, Block.encode p.2 = .ok p.1 ∧ Framed p.1 p.2 ∧ InRange p.2.header ∧ AllBytes p.2.data ∧ p.2.data.length ≤ 244) := by
  obtain ⟨hflat, _, hsz, hhdr⟩ := Props.C16.split_correct h body
  have key : ∀ b ∈ split h body, ∃ raw, Block.encode b = .ok raw ∧ Framed raw b ∧ InRange b.header ∧ AllBytes b.data ∧ b.data.length ≤ 244 := by
    intro b hb
    obtain ⟨j, hj, hbj⟩ := List.getElem_of_mem hb
    have hh := hhdr j hj
    rw [List.getElem?_eq_getElem hj, hbj] at hh
    simp only [Option.map_some, Option.some.injEq] at hh
    have hrb : InRange b.header := by
      rw [hh]
      exact ⟨hr.system, hr.device, hr.stream, hr.function, by simp only; omega⟩
    have ab : AllBytes b.data := by
      intro x hx
      apply abody x
      rw [← hflat]
      exact List.mem_flatten.mpr ⟨b.data, List.mem_map_of_mem hb, hx⟩
    obtain ⟨raw, he, _, _, hf⟩ := framed_of_encode b.header b.data hrb ab (hsz b hb)
    exact ⟨raw, he, hf, hrb, ab, hsz b hb⟩
  -- build the list
  have build : ∀ bs : List Block, (∀ b ∈ bs, b ∈ split h body) →
      ∃ pairs : List (Bytes × Block), pairs.map (·.2) = bs ∧
        (∀ p ∈ pairs, Block.encode p.2 = .ok p.1 ∧ Framed p.1 p.2 ∧ InRange p.2.header ∧ AllBytes p.2.data ∧ p.2.data.length ≤ 244) := by
    intro bs
    induction bs with
    | nil => intro _; exact ⟨[], rfl, by simp⟩
    | cons b bs ih =>
      intro hall
      obtain ⟨ps, hps, hpp⟩ := ih (fun x hx => hall x (List.mem_cons_of_mem _ hx))
      obtain ⟨raw, he, hf, h3⟩ := key b (hall b (by simp))
      refine ⟨(raw, b) :: ps, by simp [hps], ?_⟩
      intro p hp
      rcases List.mem_cons.mp hp with rfl | hp
      · exact ⟨he, hf, h3⟩
      · exact hpp p hp
  exact build (split h body) (fun _ hb => hb)

end SecsModel.Proofs.SecsILine
