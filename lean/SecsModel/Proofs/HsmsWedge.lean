import SecsModel.Model.Wedge
import SecsModel.Proofs.HsmsRx
/-! Lemmas about the hand model `Model.Wedge`: ranking function, invariant, progress of the close sequence, ghost bookkeeping. -/
namespace SecsModel.Proofs.HsmsWedge
open SecsModel SecsModel.Model.Rx SecsModel.Model.Wedge SecsModel.Proofs.HsmsRx

/-! ## every step of the endpoint's own threads decreases `mu` -/

theorem head_frame (buf raw rest : Bytes) (h : head buf = .frame raw rest) : rest.length + 4 ≤ buf.length := by
  unfold head at h
  split at h
  · cases h
  · split at h
    · cases h
    · injection h with h1 h2
      subst h2
      simp only [List.length_drop]; omega

@[simp] theorem b2n_true : b2n true = 1 := rfl
@[simp] theorem b2n_false : b2n false = 0 := rfl
theorem b2n_le (b : Bool) : b2n b ≤ 1 := by cases b <;> simp

macro "fin" : tactic =>
  `(tactic| (simp_all [mu, RxPc.rank, TcpPc.rank, DispPc.rank, resolve] <;> omega))

theorem mu_tcp (s s' : St) (h : stepTcp s = some s') : mu s' < mu s := by
  have h1 := b2n_le s.rxTrig; have h2 := b2n_le s.dispTrig; have h3 := b2n_le s.sepRes; have h4 := b2n_le s.replyRes
  unfold stepTcp at h
  split at h
  · cases h; fin
  · split at h
    · cases h; fin
    · cases h
  · split at h <;> cases h <;> fin
  · split at h
    · cases h; fin
    · cases h
  · cases h; fin
  · cases h
  · cases h

theorem mu_prx (s s' : St) (ok : Bool) (h : stepPrx .current s ok = some s') : mu s' < mu s := by
  have h1 := b2n_le s.rxTrig; have h2 := b2n_le s.dispTrig; have h3 := b2n_le s.sepRes; have h4 := b2n_le s.replyRes
  unfold stepPrx at h
  split at h
  · -- idle
    split at h
    · cases h; fin
    · cases h
  · split at h <;> cases h <;> fin
  · -- send
    split at h
    · cases h; fin
    · rename_i t q hq
      split at h
      · cases h; cases t <;> fin
      · cases h; cases t <;> fin
  · -- recv
    split at h
    · cases h; fin
    · cases h; fin
    · rename_i raw rest hh
      have := head_frame _ _ _ hh
      split at h
      · cases h; fin
      · cases h; fin
  · -- blockedRead
    split at h
    · cases h; fin
    · cases h
  · split at h <;> cases h <;> fin
  · cases h
  · cases h

theorem mu_disp (s s' : St) (r : Bool) (h : stepDisp s r = some s') : mu s' < mu s := by
  have h1 := b2n_le s.rxTrig; have h2 := b2n_le s.dispTrig; have h3 := b2n_le s.sepRes; have h4 := b2n_le s.replyRes
  unfold stepDisp at h
  split at h
  · split at h
    · cases h; fin
    · cases h
  · split at h
    · cases h; fin
    · split at h
      · cases h; fin
      · cases h; fin
  · split at h
    · cases h; fin
    · cases h
  · cases h
/-! ## invariant of the code that exists (non-blocking receive loop, send loop that goes on after a failed block) -/

structure Inv (s : St) : Prop where
  noBlocked : s.prx ≠ .blockedRead
  alive : s.tcp = .running ∨ s.tcp = .sepEnq ∨ s.tcp = .sepWait ∨ s.tcp = .discon → s.prx.alive = true ∧ s.stopRx = false ∧ s.conn = true
  sepQueued : s.tcp = .sepWait → s.sepRes = true ∨ Tag.sep ∈ s.sendQ
  sepSeen : s.tcp = .sepWait → s.sepRes = false → s.rxTrig = true ∨ s.prx = .chk ∨ s.prx = .send
  joining : s.tcp = .join → s.conn = false ∧ (s.prx = .exited ∨ (s.stopRx = true ∧ s.prx.alive = true ∧ (s.prx = .idle → s.rxTrig = true)))
  cleared : s.tcp = .clear ∨ s.tcp = .done → s.prx.alive = false ∧ s.conn = false
  doneBuf : s.tcp = .done → s.buf = []
  started : s.prx = .notStarted → s.tcp = .done

theorem inv_init : Inv St.init := by
  constructor <;> simp [St.init, RxPc.alive]

theorem inv_tcp (s s' : St) (hi : Inv s) (h : stepTcp s = some s') : Inv s' := by
  obtain ⟨a, b, c, d, e, f, g, g2⟩ := hi
  unfold stepTcp at h
  split at h
  · cases h; constructor <;> simp_all [RxPc.alive]
  · split at h
    · cases h; constructor <;> simp_all [RxPc.alive]
    · cases h
  · split at h <;> cases h <;> constructor <;> simp_all [RxPc.alive]
  · split at h
    · cases h; constructor <;> simp_all [RxPc.alive]
    · cases h
  · cases h; constructor <;> simp_all [RxPc.alive]
  · cases h
  · cases h

theorem inv_prx (s s' : St) (ok : Bool) (hi : Inv s) (h : stepPrx .current s ok = some s') : Inv s' := by
  obtain ⟨a, b, c, d, e, f, g, g2⟩ := hi
  unfold stepPrx at h
  split at h
  · split at h
    · cases h; constructor <;> simp_all [RxPc.alive]
    · cases h
  · split at h <;> cases h <;> constructor <;> simp_all [RxPc.alive]
  · split at h
    · cases h; constructor <;> simp_all [RxPc.alive]
    · rename_i t q hq
      cases ok
      · simp at h
        cases h
        cases t <;> constructor <;> simp_all [RxPc.alive, resolve]
      · simp only [if_true] at h
        cases h
        cases t <;> constructor <;> simp_all [RxPc.alive, resolve]
  · split at h
    · cases h; constructor <;> simp_all [RxPc.alive]
    · cases h; constructor <;> simp_all [RxPc.alive]
    · split at h <;> cases h <;> constructor <;> simp_all [RxPc.alive]
  · exact absurd ‹s.prx = .blockedRead› a
  · split at h <;> cases h <;> constructor <;> simp_all [RxPc.alive]
  · cases h
  · cases h

theorem inv_disp (s s' : St) (r : Bool) (hi : Inv s) (h : stepDisp s r = some s') : Inv s' := by
  obtain ⟨a, b, c, d, e, f, g, g2⟩ := hi
  unfold stepDisp at h
  split at h
  · split at h
    · cases h; constructor <;> simp_all [RxPc.alive]
    · cases h
  · split at h
    · cases h; constructor <;> simp_all [RxPc.alive]
    · split at h <;> cases h <;> constructor <;> simp_all [RxPc.alive] <;> grind
  · split at h
    · cases h; constructor <;> simp_all [RxPc.alive]
    · cases h
  · cases h

theorem inv_step (s s' : St) (l : Lbl) (hi : Inv s) (h : step .current s l = some s') : Inv s' := by
  cases l with
  | connect =>
    obtain ⟨a, b, c, d, e, f, g, g2⟩ := hi
    simp only [step] at h
    split at h
    · cases h; constructor <;> simp_all [RxPc.alive]
    · cases h
  | chunk c =>
    obtain ⟨a, b, c', d, e, f, g, g2⟩ := hi
    simp only [step] at h
    split at h
    · cases h; constructor <;> simp_all [RxPc.alive]
    · cases h
  | close =>
    obtain ⟨a, b, c', d, e, f, g, g2⟩ := hi
    simp only [step] at h
    split at h
    · cases h; constructor <;> simp_all [RxPc.alive]
    · cases h
  | tcp => exact inv_tcp s s' hi h
  | prx ok => exact inv_prx s s' ok hi h
  | disp r => exact inv_disp s s' r hi h

theorem recv_isSome (s : St) (ok : Bool) (hp : s.prx = .recv) : (stepPrx .current s ok).isSome = true := by
  unfold stepPrx
  rw [hp]
  simp only
  split
  · rfl
  · rfl
  · split <;> rfl

/-- progress -/
theorem progress (s : St) (hi : Inv s) (hc : s.tcp.closing = true) : (stepTcp s).isSome = true ∨ (stepPrx .current s true).isSome = true := by
  obtain ⟨a, b, c, d, e, f, g, g2⟩ := hi
  cases ht : s.tcp <;> simp [ht, TcpPc.closing] at hc
  · left; simp [stepTcp, ht]
  · -- sepWait
    by_cases hr : s.sepRes = true
    · left; simp [stepTcp, ht, hr]
    · right
      have hb := b (by simp [ht])
      have hq := c ht
      have hs := d ht (by simpa using hr)
      cases hp : s.prx
      case recv => exact recv_isSome s true hp
      all_goals simp_all [stepPrx, RxPc.alive]
      all_goals (first | (split <;> simp) | skip)
  · left; simp [stepTcp, ht]; split <;> simp
  · -- join
    have he := e ht
    cases hp : s.prx
    case recv => right; exact recv_isSome s true hp
    all_goals simp_all [stepTcp, stepPrx, RxPc.alive]
    all_goals (first | (split <;> simp) | skip)
  · left; simp [stepTcp, ht]
/-! ## runs -/

theorem mu_step (s s' : St) (l : Lbl) (hl : l.internal = true) (h : step .current s l = some s') : mu s' < mu s := by
  cases l with
  | connect => simp [Lbl.internal] at hl
  | chunk c => simp [Lbl.internal] at hl
  | close => simp [Lbl.internal] at hl
  | tcp => exact mu_tcp s s' h
  | prx ok => exact mu_prx s s' ok h
  | disp r => exact mu_disp s s' r h

/-- a run of `n` steps of the endpoint's own threads costs at least `n` units of `mu` -/
theorem run_bound : ∀ (ls : List Lbl) (s s' : St), (∀ l ∈ ls, l.internal = true) → run .current s ls = some s' →
    mu s' + ls.length ≤ mu s
  | [], s, s', _, h => by simp [run] at h; subst h; simp
  | l :: ls, s, s', hl, h => by
    simp only [run] at h
    cases hs : step .current s l with
    | none => rw [hs] at h; cases h
    | some s1 =>
      rw [hs] at h
      have h1 := mu_step s s1 l (hl l (by simp)) hs
      have h2 := run_bound ls s1 s' (fun x hx => hl x (by simp [hx])) h
      simp only [List.length_cons]; omega

theorem inv_run : ∀ (ls : List Lbl) (s s' : St), Inv s → run .current s ls = some s' → Inv s'
  | [], s, s', hi, h => by simp [run] at h; subst h; exact hi
  | l :: ls, s, s', hi, h => by
    simp only [run] at h
    cases hs : step .current s l with
    | none => rw [hs] at h; cases h
    | some s1 =>
      rw [hs] at h
      exact inv_run ls s1 s' (inv_step s s1 l hi hs) h

/-- reachable in the model of the code that exists, by any history (failing sends included) -/
def Reachable (s : St) : Prop := ∃ ls, run .current St.init ls = some s

theorem inv_reachable (s : St) (h : Reachable s) : Inv s := by
  obtain ⟨ls, hr⟩ := h
  exact inv_run ls _ _ inv_init hr

theorem reachable_run (s s' : St) (ls : List Lbl) (h : Reachable s) (hr : run .current s ls = some s') :
    Reachable s' := by
  obtain ⟨l0, hr0⟩ := h
  refine ⟨l0 ++ ls, ?_⟩
  have : ∀ (l0 : List Lbl) (a : St), run .current a l0 = some s → run .current a (l0 ++ ls) = some s' := by
    intro l0
    induction l0 with
    | nil => intro a ha; simp [run] at ha; subst ha; simpa using hr
    | cons x xs ih =>
      intro a ha
      simp only [run, List.cons_append] at ha ⊢
      cases hs : step .current a x with
      | none => rw [hs] at ha; cases ha
      | some a1 => rw [hs] at ha; exact ih a1 ha
  exact this l0 _ hr0

/-- whether a step of the protocol receiver thread is enabled does not depend on how a send would end -/
theorem prx_enabled_indep (b : Variant) (s : St) (ok : Bool) : (stepPrx b s ok).isSome = (stepPrx b s true).isSome := by
  unfold stepPrx
  split <;> try rfl
  split
  · rfl
  · cases ok
    · simp only [Bool.false_eq_true, if_false, if_true]
      split <;> rfl
    · rfl

/-- **not wedged**: in a state satisfying the invariant the close sequence, once begun and not finished, always has an enabled step -/
theorem not_wedged_of_inv (s : St) (hi : Inv s) : wedged .current s = false := by
  cases hc : s.tcp.closing with
  | false => simp [wedged, hc]
  | true =>
    have hp := progress s hi hc
    simp only [wedged, hc, Bool.true_and, quiescent, internals, List.all_cons, List.all_nil, Bool.and_true, step]
    rcases hp with h | h
    · cases ht : stepTcp s with
      | none => rw [ht] at h; simp at h
      | some x => simp
    · cases ht : stepPrx .current s true with
      | none => rw [ht] at h; simp at h
      | some x => simp

theorem resolve_tcp (t : Tag) (s : St) : (resolve t s).tcp = s.tcp := by cases t <;> rfl

/-- the connection thread leaves the close sequence only to `done` (never back to `running`) by the endpoint's own steps -/
theorem closing_step (s s' : St) (l : Lbl) (hl : l.internal = true) (h : step .current s l = some s')
    (hc : s.tcp.closing = true ∨ s.tcp = .done) : s'.tcp.closing = true ∨ s'.tcp = .done := by
  cases l with
  | connect => simp [Lbl.internal] at hl
  | chunk c => simp [Lbl.internal] at hl
  | close => simp [Lbl.internal] at hl
  | tcp =>
    simp only [step, stepTcp] at h
    split at h
    all_goals (try split at h)
    all_goals (first | (cases h; simp_all [TcpPc.closing]) | cases h)
  | prx ok =>
    have : s'.tcp = s.tcp := by
      simp only [step, stepPrx] at h
      split at h
      all_goals (try split at h)
      all_goals (try split at h)
      all_goals (first | (cases h; first | rfl | simp [resolve_tcp]) | cases h)
    rw [this]; exact hc
  | disp r =>
    have : s'.tcp = s.tcp := by
      simp only [step, stepDisp] at h
      split at h
      all_goals (try split at h)
      all_goals (try split at h)
      all_goals (first | (cases h; rfl) | cases h)
    rw [this]; exact hc

theorem closing_run : ∀ (ls : List Lbl) (s s' : St), (∀ l ∈ ls, l.internal = true) → run .current s ls = some s' →
    (s.tcp.closing = true ∨ s.tcp = .done) → (s'.tcp.closing = true ∨ s'.tcp = .done)
  | [], s, s', _, h, hc => by simp [run] at h; subst h; exact hc
  | l :: ls, s, s', hl, h, hc => by
    simp only [run] at h
    cases hs : step .current s l with
    | none => rw [hs] at h; cases h
    | some s1 =>
      rw [hs] at h
      exact closing_run ls s1 s' (fun x hx => hl x (by simp [hx])) h (closing_step s s1 l (hl l (by simp)) hs hc)

theorem resolve_prx (t : Tag) (s : St) : (resolve t s).prx = s.prx := by cases t <;> rfl

/-- once started, the receiver thread is never "not started" again -/
theorem started_step (s s' : St) (l : Lbl) (h : step .current s l = some s') (hne : s.prx ≠ .notStarted) : s'.prx ≠ .notStarted := by
  cases l with
  | connect => simp only [step] at h; split at h <;> cases h; simp
  | chunk c => simp only [step] at h; split at h <;> cases h; exact hne
  | close => simp only [step] at h; split at h <;> cases h; exact hne
  | tcp =>
    simp only [step, stepTcp] at h
    split at h
    all_goals (try split at h)
    all_goals (first | (cases h; exact hne) | cases h)
  | prx ok =>
    simp only [step, stepPrx] at h
    split at h
    all_goals (try split at h)
    all_goals (try split at h)
    all_goals (first | cases h | skip)
    all_goals (first | exact hne | (simp [resolve_prx]; done) | (simp [resolve_prx]; exact hne))
  | disp r =>
    simp only [step, stepDisp] at h
    split at h
    all_goals (try split at h)
    all_goals (try split at h)
    all_goals (first | (cases h; exact hne) | cases h)

theorem started_run : ∀ (ls : List Lbl) (s s' : St), run .current s ls = some s' → s.prx ≠ .notStarted → s'.prx ≠ .notStarted
  | [], s, s', h, hne => by simp [run] at h; subst h; exact hne
  | l :: ls, s, s', h, hne => by
    simp only [run] at h
    cases hs : step .current s l with
    | none => rw [hs] at h; cases h
    | some s1 =>
      rw [hs] at h
      exact started_run ls s1 s' h (started_step s s1 l hs hne)

/-- from every state some maximal run of the endpoint's own (non-failing) steps exists: it ends where nothing more can be done -/
theorem exists_maximal_run : ∀ (n : Nat) (s : St), mu s ≤ n →
    ∃ ls s', (∀ l ∈ ls, l.internal = true) ∧ run .current s ls = some s' ∧ quiescent .current s' = true
  | n, s, hn => by
    by_cases hq : quiescent .current s = true
    · exact ⟨[], s, by simp, rfl, hq⟩
    · -- some internal label is enabled; if it is a failing send, the succeeding one is enabled as well
      have : ∃ l, l.internal = true ∧ (step .current s l).isSome = true := by
        simp only [quiescent, internals, List.all_cons, List.all_nil, Bool.and_true, Bool.and_eq_true, not_and,
          Option.isNone_iff_eq_none] at hq
        by_cases h1 : step .current s .tcp = none
        · by_cases h2 : step .current s (.prx true) = none
          · by_cases h3 : step .current s (.prx false) = none
            · by_cases h4 : step .current s (.disp true) = none
              · have h5 := hq h1 h2 h3 h4
                exact ⟨.disp false, rfl, by cases h : step .current s (.disp false) with | none => exact absurd h h5 | some x => rfl⟩
              · exact ⟨.disp true, rfl, by cases h : step .current s (.disp true) with | none => exact absurd h h4 | some x => rfl⟩
            · have e := prx_enabled_indep .current s false
              simp only [step] at h2 h3
              rw [h2] at e
              cases h : stepPrx .current s false with
              | none => exact absurd h h3
              | some x => rw [h] at e; simp at e
          · exact ⟨.prx true, rfl, by cases h : step .current s (.prx true) with | none => exact absurd h h2 | some x => rfl⟩
        · exact ⟨.tcp, rfl, by cases h : step .current s .tcp with | none => exact absurd h h1 | some x => rfl⟩
      obtain ⟨l, hli, hen⟩ := this
      cases hs : step .current s l with
      | none => rw [hs] at hen; simp at hen
      | some s1 =>
        have hlt := mu_step s s1 l hli hs
        match n, hn with
        | 0, hn => omega
        | n+1, hn =>
          obtain ⟨ls, s', hls, hr, hq'⟩ := exists_maximal_run n s1 (by omega)
          refine ⟨l :: ls, s', ?_, ?_, hq'⟩
          · intro x hx; rcases List.mem_cons.mp hx with rfl | hx
            · exact hli
            · exact hls x hx
          · simp only [run, hs]; exact hr

/-! ## ghost bookkeeping: what is delivered on a connection comes from the bytes of that connection only -/

theorem extract_head_frame (buf raw rest : Bytes) (h : head buf = .frame raw rest) :
    extract buf = match Block.decode raw with
      | .error _ => ⟨[], rest, true⟩
      | .ok b => ⟨b :: (extract rest).frames, (extract rest).rest, (extract rest).aborted⟩ := by
  unfold head at h
  split at h
  · cases h
  · rename_i h4
    split at h
    · cases h
    · rename_i hn
      injection h with h1 h2
      subst h1; subst h2
      rw [extract_eq]
      simp only [h4, hn, if_false]
      cases Block.decode (List.take (ofBe (List.take 4 buf) + 4) buf) <;> rfl

/-- while connected (`tcp ≠ done`) and no frame was dropped by a decode exception: the run of the receive loop over the bytes received
on *this* connection = the blocks delivered since the connect, followed by what the loop would still make of the buffer -/
def Ghost (s : St) : Prop :=
  s.mark ≤ s.delivered.length ∧
  (s.tcp ≠ .done → s.rxErr = false →
    extract s.fed = ⟨s.delivered.drop s.mark ++ (extract s.buf).frames, (extract s.buf).rest, (extract s.buf).aborted⟩)

theorem ghost_init : Ghost St.init := by
  simp [Ghost, St.init]

theorem ghost_step (s s' : St) (l : Lbl) (hi : Inv s) (hg : Ghost s) (h : step .current s l = some s') : Ghost s' := by
  obtain ⟨hm, hj⟩ := hg
  cases l with
  | connect =>
    simp only [step] at h
    split at h
    · rename_i hd
      cases h
      have hb := hi.doneBuf hd
      simp [Ghost, hb, extract_nil]
    · cases h
  | chunk c =>
    simp only [step] at h
    split at h
    · rename_i hr
      cases h
      refine ⟨hm, ?_⟩
      intro _ he
      have hj' := hj (by rw [hr]; simp) he
      simp only
      rw [extract_append' s.fed c, extract_append' s.buf c, hj']
      simp only
      cases hab : (extract s.buf).aborted <;> simp
    · cases h
  | close =>
    simp only [step] at h
    split at h
    · rename_i hr
      cases h
      exact ⟨hm, fun _ he => hj (by rw [hr]; simp) he⟩
    · cases h
  | tcp =>
    simp only [step, stepTcp] at h
    split at h
    all_goals (try split at h)
    all_goals (first | cases h | skip)
    all_goals (first | (rename_i ht; exact ⟨hm, fun _ he => hj (by rw [ht]; simp) he⟩) | skip)
    all_goals (first | (rename_i ht _; exact ⟨hm, fun _ he => hj (by rw [ht]; simp) he⟩) | skip)
    -- `clear`: the state is `done` afterwards, nothing is claimed
    all_goals (exact ⟨hm, fun hne _ => absurd rfl hne⟩)
  | prx ok =>
    simp only [step, stepPrx] at h
    split at h
    · split at h
      · cases h; exact ⟨hm, hj⟩
      · cases h
    · split at h <;> cases h <;> exact ⟨hm, hj⟩
    · split at h
      · cases h; exact ⟨hm, hj⟩
      · rename_i t q hq
        split at h <;> cases h <;> cases t <;> exact ⟨hm, hj⟩
    · split at h
      · cases h; exact ⟨hm, hj⟩
      · cases h; exact ⟨hm, hj⟩
      · rename_i raw rest hh
        have hx := extract_head_frame _ _ _ hh
        split at h
        · rename_i b hd
          cases h
          refine ⟨by simp only [List.length_append, List.length_cons, List.length_nil]; omega, ?_⟩
          intro hne he
          have hj' := hj hne he
          rw [hd] at hx
          simp only at hx ⊢
          rw [hj', hx, List.drop_append_of_le_length hm]
          simp
        · cases h
          exact ⟨hm, fun _ he => by simp at he⟩
    · split at h
      · cases h; exact ⟨hm, hj⟩
      · cases h
    · split at h <;> cases h <;> exact ⟨hm, hj⟩
    · cases h
    · cases h
  | disp r =>
    simp only [step, stepDisp] at h
    split at h
    all_goals (try split at h)
    all_goals (try split at h)
    all_goals (first | (cases h; exact ⟨hm, hj⟩) | cases h)

theorem ghost_run : ∀ (ls : List Lbl) (s s' : St), Inv s → Ghost s → run .current s ls = some s' → Ghost s'
  | [], s, s', _, hg, h => by simp [run] at h; subst h; exact hg
  | l :: ls, s, s', hi, hg, h => by
    simp only [run] at h
    cases hs : step .current s l with
    | none => rw [hs] at h; cases h
    | some s1 =>
      rw [hs] at h
      exact ghost_run ls s1 s' (inv_step s s1 l hi hs) (ghost_step s s1 l hi hg hs) h

theorem ghost_reachable (s : St) (h : Reachable s) : Ghost s := by
  obtain ⟨ls, hr⟩ := h
  exact ghost_run ls _ _ inv_init ghost_init hr

end SecsModel.Proofs.HsmsWedge
