import SecsModel.Model.Sml
/-!
# Proofs.SmlTotal — the fuel `parseTokens` supplies is never exhausted; every successful read consumes tokens; more fuel never
changes an answer
-/
namespace SecsModel.Proofs.Sml
open SecsModel.Model.Sml

/-- `res` is not the fuel error, and a successful `res` leaves at least `k` tokens fewer than `ts` -/
def Good {α : Type} (ts : List Text) (k : Nat) (res : Except PErr (α × List Text)) : Prop :=
  res ≠ .error .fuel ∧ ∀ v r, res = .ok (v, r) → r.length + k ≤ ts.length

theorem good_error {α : Type} (ts : List Text) (k : Nat) (e : PErr) (h : e ≠ .fuel) : Good (α := α) ts k (.error e) :=
  ⟨by intro h'; injection h' with h'; exact h h', by intro v r h'; cases h'⟩

theorem readNums_good (base0 : Bool) (lo hi : Int) : ∀ ts, Good ts 1 (readNums base0 lo hi ts)
  | [] => good_error _ _ _ (by decide)
  | t :: ts => by
    unfold readNums
    split
    · exact ⟨by simp, by intro v r h; injection h with h; injection h with _ h; subst h; simp⟩
    · split
      · exact good_error _ _ _ (by decide)
      · split
        · have ih := readNums_good base0 lo hi ts
          split
          · rename_i vs r heq
            refine ⟨by simp, ?_⟩
            intro v r' h; injection h with h; injection h with _ h; subst h
            have := ih.2 vs r heq; simp; omega
          · rename_i e heq
            refine ⟨?_, by intro v r h; cases h⟩
            intro h; injection h with h; subst h; exact ih.1 heq
        · exact good_error _ _ _ (by decide)

theorem readFlts_good (parseF : Text → Option Nat) (t : FltTy) : ∀ ts, Good ts 1 (readFlts parseF t ts)
  | [] => good_error _ _ _ (by decide)
  | tok :: ts => by
    unfold readFlts
    split
    · exact ⟨by simp, by intro v r h; injection h with h; injection h with _ h; subst h; simp⟩
    · split
      · exact good_error _ _ _ (by decide)
      · split
        · have ih := readFlts_good parseF t ts
          split
          · rename_i vs r heq
            refine ⟨by simp, ?_⟩
            intro v r' h; injection h with h; injection h with _ h; subst h
            have := ih.2 vs r heq; simp; omega
          · rename_i e heq
            refine ⟨?_, by intro v r h; cases h⟩
            intro h; injection h with h; subst h; exact ih.1 heq
        · exact good_error _ _ _ (by decide)

theorem readStr_good (enc : Nat → Option Nat) : ∀ ts, Good ts 1 (readStr enc ts)
  | [] => good_error _ _ _ (by decide)
  | t :: ts => by
    have ih := readStr_good enc ts
    unfold readStr
    split
    · exact ⟨by simp, by intro v r h; injection h with h; injection h with _ h; subst h; simp⟩
    · split
      · split
        · exact good_error _ _ _ (by decide)
        · split
          · rename_i vs r heq
            refine ⟨by simp, ?_⟩
            intro v r' h; injection h with h; injection h with _ h; subst h
            have := ih.2 vs r heq; simp; omega
          · rename_i e heq
            refine ⟨?_, by intro v r h; cases h⟩
            intro h; injection h with h; subst h; exact ih.1 heq
      · split
        · exact good_error _ _ _ (by decide)
        · split
          · split
            · rename_i vs r heq
              refine ⟨by simp, ?_⟩
              intro v r' h; injection h with h; injection h with _ h; subst h
              have := ih.2 vs r heq; simp; omega
            · rename_i e heq
              refine ⟨?_, by intro v r h; cases h⟩
              intro h; injection h with h; subst h; exact ih.1 heq
          · exact good_error _ _ _ (by decide)

theorem mapOk_good {α β : Type} (g : α → β) (ts : List Text) (k : Nat) (res : Except PErr (α × List Text)) (h : Good ts k res) :
    Good ts k (mapOk g res) := by
  cases res with
  | error e => exact ⟨by intro h'; exact h.1 (by simpa [mapOk] using h'), by intro v r h'; simp [mapOk] at h'⟩
  | ok p =>
    obtain ⟨a, r⟩ := p
    refine ⟨by simp [mapOk], ?_⟩
    intro v r' h'
    simp only [mapOk] at h'
    injection h' with h'; injection h' with _ h'; subst h'
    exact h.2 a r rfl

theorem good_weaken {α : Type} {ts ts' : List Text} {k k' : Nat} {res : Except PErr (α × List Text)}
    (h : Good ts k res) (hk : ts.length + k' ≤ ts'.length + k) : Good ts' k' res :=
  ⟨h.1, fun v r hr => by have := h.2 v r hr; omega⟩

theorem readLeaf_good (parseF : Text → Option Nat) (ty : Ty) (ts : List Text) : Good ts 1 (readLeaf parseF ty ts) := by
  cases ty with
  | l => exact good_error _ _ _ (by decide)
  | b => exact mapOk_good _ _ _ _ (readNums_good _ _ _ ts)
  | boolean => exact mapOk_good _ _ _ _ (readNums_good _ _ _ ts)
  | a => exact mapOk_good _ _ _ _ (readStr_good _ ts)
  | j => exact mapOk_good _ _ _ _ (readStr_good _ ts)
  | int t => exact mapOk_good _ _ _ _ (readNums_good _ _ _ ts)
  | flt t => exact mapOk_good _ _ _ _ (readFlts_good _ _ ts)

theorem lengthCheck_ne_fuel (len : Option Text) (n : Nat) : lengthCheck len n ≠ .error .fuel := by
  unfold lengthCheck
  split
  · simp
  · split
    · simp
    · split <;> simp

theorem readItems_good (loop : List Text → Except PErr (List Item × List Text)) (ts : List Text)
    (hloop : ∀ ts', ts'.length ≤ ts.length → Good ts' 1 (loop ts')) : Good ts 1 (readItems loop ts) := by
  unfold readItems
  split
  · exact good_error _ _ _ (by decide)
  · rename_i p ts3
    split
    · split
      · exact good_error _ _ _ (by decide)
      · exact good_error _ _ _ (by decide)
      · rename_i len cl ts4
        split
        · exact good_error _ _ _ (by decide)
        · have hl := hloop ts4 (by simp; omega)
          split
          · rename_i e heq
            refine ⟨?_, by intro v r h; cases h⟩
            intro h; injection h with h; subst h; exact hl.1 heq
          · rename_i xs r heq
            split
            · rename_i e he
              refine ⟨?_, by intro v r h; cases h⟩
              intro h; injection h with h; subst h; exact lengthCheck_ne_fuel _ _ he
            · refine ⟨by simp, ?_⟩
              intro v r' h; injection h with h; injection h with _ h; subst h
              have := hl.2 xs r heq; simp; omega
    · exact mapOk_good _ _ _ _ (hloop _ (Nat.le_refl _))

/-- **fuel is sufficient**: with `f > |ts|` the item reader never runs out of fuel and consumes at least three tokens; the item
loop (entered with `f > |ts| + 1`) likewise, consuming at least its closing token -/
theorem read_good (parseF : Text → Option Nat) : ∀ f : Nat,
    (∀ ts : List Text, ts.length + 1 ≤ f → Good ts 3 (readItem parseF f ts))
    ∧ (∀ ts : List Text, ts.length + 2 ≤ f → Good ts 1 (readLoop parseF f ts)) := by
  intro f
  induction f with
  | zero => exact ⟨fun ts h => by omega, fun ts h => by omega⟩
  | succ f ih =>
    constructor
    · intro ts hlen
      unfold readItem
      split
      · exact good_error _ _ _ (by decide)
      · rename_i t0 ts1
        split
        · exact good_error _ _ _ (by decide)
        · split
          · exact good_error _ _ _ (by decide)
          · rename_i ty ts2
            simp only [List.length_cons] at hlen
            split
            · exact good_error _ _ _ (by decide)
            · refine good_weaken (readItems_good _ ts2 (fun ts' h' => ih.2 ts' (by omega))) (by simp)
            · exact good_weaken (readLeaf_good parseF _ ts2) (by simp)
    · intro ts hlen
      unfold readLoop
      split
      · exact good_error _ _ _ (by decide)
      · rename_i t r
        simp only [List.length_cons] at hlen
        split
        · exact ⟨by simp, by intro v r' h; injection h with h; injection h with _ h; subst h; simp⟩
        · have hi := ih.1 (t :: r) (by simp; omega)
          split
          · rename_i e heq
            refine ⟨?_, by intro v r h; cases h⟩
            intro h; injection h with h; subst h; exact hi.1 heq
          · rename_i x r' heq
            have hr' := hi.2 x r' heq
            simp only [List.length_cons] at hr'
            have hl := ih.2 r' (by omega)
            split
            · rename_i e heq2
              refine ⟨?_, by intro v r h; cases h⟩
              intro h; injection h with h; subst h; exact hl.1 heq2
            · rename_i xs r'' heq2
              refine ⟨by simp, ?_⟩
              intro v r3 h; injection h with h; injection h with _ h; subst h
              have := hl.2 xs r'' heq2; simp; omega

/-! ### more fuel never changes an answer -/

theorem mapOk_fuel {α β : Type} (g : α → β) (res : Except PErr (α × List Text)) (h : mapOk g res ≠ .error .fuel) :
    res ≠ .error .fuel := by
  intro e; subst e; exact h rfl

theorem readItems_mono (loop loop' : List Text → Except PErr (List Item × List Text)) (ts : List Text)
    (hl : ∀ ts', loop ts' ≠ .error .fuel → loop' ts' = loop ts') (h : readItems loop ts ≠ .error .fuel) :
    readItems loop' ts = readItems loop ts := by
  unfold readItems at h ⊢
  split
  · rfl
  · rename_i p ts3
    split
    · split
      · rfl
      · rfl
      · rename_i len cl ts4
        split
        · rfl
        · rename_i hcl
          simp only [*, if_true, if_false] at h
          have : loop ts4 ≠ .error .fuel := by
            intro e; rw [e] at h; exact h rfl
          rw [hl ts4 this]
    · rename_i hp
      simp only [hp, if_false] at h
      rw [hl _ (mapOk_fuel _ _ h)]

theorem read_mono (parseF : Text → Option Nat) : ∀ f : Nat,
    (∀ ts, readItem parseF f ts ≠ .error .fuel → readItem parseF (f + 1) ts = readItem parseF f ts)
    ∧ (∀ ts, readLoop parseF f ts ≠ .error .fuel → readLoop parseF (f + 1) ts = readLoop parseF f ts) := by
  intro f
  induction f with
  | zero => exact ⟨fun ts h => absurd rfl h, fun ts h => absurd rfl h⟩
  | succ f ih =>
    constructor
    · intro ts h
      unfold readItem at h ⊢
      split
      · rfl
      · split
        · rfl
        · split
          · rfl
          · split
            · rfl
            · simp only [*, if_false] at h
              exact readItems_mono _ _ _ ih.2 h
            · rfl
    · intro ts h
      unfold readLoop at h ⊢
      split
      · rfl
      · rename_i t r
        split
        · rfl
        · rename_i hc
          simp only [hc, Bool.false_eq_true, if_false] at h
          have h1 : readItem parseF f (t :: r) ≠ .error .fuel := by
            intro e; rw [e] at h; exact h rfl
          rw [ih.1 _ h1]
          cases hx : readItem parseF f (t :: r) with
          | error e => rfl
          | ok p =>
            obtain ⟨x, r'⟩ := p
            rw [hx] at h
            simp only at h
            have h2 : readLoop parseF f r' ≠ .error .fuel := by
              intro e; rw [e] at h; exact h rfl
            simp only [ih.2 _ h2]

/-- the answer with any fuel at or above `|ts| + 1` is the answer `parseTokens` gives -/
theorem readItem_fuel_irrelevant (parseF : Text → Option Nat) (ts : List Text) :
    ∀ k, readItem parseF (ts.length + 1 + k) ts = parseTokens parseF ts := by
  intro k
  induction k with
  | zero => rfl
  | succ k ih =>
    have hg := ((read_good parseF (ts.length + 1 + k)).1 ts (by omega)).1
    rw [show ts.length + 1 + (k + 1) = (ts.length + 1 + k) + 1 by omega, (read_mono parseF _).1 ts hg, ih]

end SecsModel.Proofs.Sml
