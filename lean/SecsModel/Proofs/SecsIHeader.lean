import SecsModel.Proofs.PyLemmas
import SecsModel.Gen.SecsIHeader
/-! Proof obligations over the *generated* `Gen.SecsIHeader.encode/decode`. -/
namespace SecsModel.Proofs.SecsIHdr
open SecsModel SecsModel.Gen

/-- field ranges of SEMI E4 §7: 15-bit device id, 7-bit stream, 8-bit function, 15-bit block number, 32-bit system bytes -/
structure InRange (h : SecsIHeader) : Prop where
  system : 0 ≤ h.system ∧ h.system < 2^32
  device : 0 ≤ h.device_id ∧ h.device_id < 2^15
  stream : 0 ≤ h.stream ∧ h.stream < 2^7
  function : 0 ≤ h.function ∧ h.function < 2^8
  block : 0 ≤ h.block ∧ h.block < 2^15

instance (h : SecsIHeader) : Decidable (InRange h) :=
  if c : (0 ≤ h.system ∧ h.system < 2^32) ∧ (0 ≤ h.device_id ∧ h.device_id < 2^15) ∧ (0 ≤ h.stream ∧ h.stream < 2^7)
      ∧ (0 ≤ h.function ∧ h.function < 2^8) ∧ (0 ≤ h.block ∧ h.block < 2^15)
  then isTrue ⟨c.1, c.2.1, c.2.2.1, c.2.2.2.1, c.2.2.2.2⟩
  else isFalse (fun r => c ⟨r.system, r.device, r.stream, r.function, r.block⟩)

/-- what E4 says the ten header bytes are -/
def specBytes (sy dv st fn bl : Nat) (r w e : Bool) : Bytes :=
  be 2 (dv + (if r then 32768 else 0)) ++ be 1 (st + (if w then 128 else 0)) ++ be 1 fn
    ++ be 2 (bl + (if e then 32768 else 0)) ++ be 4 sy

theorem bit15 (x : Nat) (h : x < 32768) : x ||| 32768 = x + 32768 := Py.or_pow_of_lt x 15 h
theorem bit7 (x : Nat) (h : x < 128) : x ||| 128 = x + 128 := Py.or_pow_of_lt x 7 h

theorem and_32767 (x : Nat) : x &&& 32767 = x % 32768 := Py.and_mask x 15
theorem and_127 (x : Nat) : x &&& 127 = x % 128 := Py.and_mask x 7
theorem and_32768_shr (x : Nat) : (x &&& 32768) >>> 15 = x / 32768 % 2 := by
  have : (32768 : Nat) = 1 <<< 15 := by decide
  rw [this, Py.and_shl_shr, Nat.shiftRight_eq_div_pow]
  exact Py.and_mask _ 1
theorem and_128_shr (x : Nat) : (x &&& 128) >>> 7 = x / 128 % 2 := by
  have : (128 : Nat) = 1 <<< 7 := by decide
  rw [this, Py.and_shl_shr, Nat.shiftRight_eq_div_pow]
  exact Py.and_mask _ 1

theorem bor15 (x : Nat) (h : x < 32768) : Py.bor (x : Int) 32768 = ((x + 32768 : Nat) : Int) := by
  have : (32768 : Int) = ((32768 : Nat) : Int) := rfl
  rw [this, Py.bor_nat, bit15 x h]
theorem bor7 (x : Nat) (h : x < 128) : Py.bor (x : Int) 128 = ((x + 128 : Nat) : Int) := by
  have : (128 : Int) = ((128 : Nat) : Int) := rfl
  rw [this, Py.bor_nat, bit7 x h]

/-- `encode` on in-range naturals is the E4 byte layout -/
theorem encode_nat (sy dv st fn bl : Nat) (r w e : Bool)
    (hsy : sy < 2^32) (hdv : dv < 2^15) (hst : st < 2^7) (hfn : fn < 2^8) (hbl : bl < 2^15) :
    SecsIHeader.encode ⟨sy, dv, st, fn, bl, r, w, e⟩ = .ok (specBytes sy dv st fn bl r w e) := by
  have e1 : (if r = true then Py.bor (dv : Int) 32768 else (dv : Int)) = ((dv + (if r then 32768 else 0) : Nat) : Int) := by
    cases r
    · simp
    · simp only [if_true]; exact bor15 dv hdv
  have e2 : (if w = true then Py.bor (st : Int) 128 else (st : Int)) = ((st + (if w then 128 else 0) : Nat) : Int) := by
    cases w
    · simp
    · simp only [if_true]; exact bor7 st hst
  have e3 : (if e = true then Py.bor (bl : Int) 32768 else (bl : Int)) = ((bl + (if e then 32768 else 0) : Nat) : Int) := by
    cases e
    · simp
    · simp only [if_true]; exact bor15 bl hbl
  simp only [SecsIHeader.encode, e1, e2, e3, specBytes]
  have p5 := Py.packBE_cons_nat 4 sy [] [] (by omega) rfl
  have p4 := Py.packBE_cons_nat 2 (bl + if e then 32768 else 0) _ _ (by cases e <;> simp <;> omega) p5
  have p3 := Py.packBE_cons_nat 1 fn _ _ (by omega) p4
  have p2 := Py.packBE_cons_nat 1 (st + if w then 128 else 0) _ _ (by cases w <;> simp <;> omega) p3
  have p1 := Py.packBE_cons_nat 2 (dv + if r then 32768 else 0) _ _ (by cases r <;> simp <;> omega) p2
  rw [p1]; simp

theorem band32767 (x : Nat) : Py.band (x : Int) 32767 = ((x % 32768 : Nat) : Int) := by
  have : (32767 : Int) = ((32767 : Nat) : Int) := rfl
  rw [this, Py.band_nat, and_32767]
theorem band127 (x : Nat) : Py.band (x : Int) 127 = ((x % 128 : Nat) : Int) := by
  have : (127 : Int) = ((127 : Nat) : Int) := rfl
  rw [this, Py.band_nat, and_127]
theorem bit15of (x : Nat) : Py.shr (Py.band (x : Int) 32768) 15 = ((x / 32768 % 2 : Nat) : Int) := by
  have h1 : (32768 : Int) = ((32768 : Nat) : Int) := rfl
  have h2 : (15 : Int) = ((15 : Nat) : Int) := rfl
  rw [h1, h2, Py.band_nat, Py.shr_nat, and_32768_shr]
theorem bit7of (x : Nat) : Py.shr (Py.band (x : Int) 128) 7 = ((x / 128 % 2 : Nat) : Int) := by
  have h1 : (128 : Int) = ((128 : Nat) : Int) := rfl
  have h2 : (7 : Int) = ((7 : Nat) : Int) := rfl
  rw [h1, h2, Py.band_nat, Py.shr_nat, and_128_shr]

theorem dec_cast (n : Nat) : decide ((n : Int) = 1) = decide (n = 1) := decide_eq_decide.mpr (by omega)

/-- `decode` of any five in-range unpacked fields, as div/mod arithmetic -/
theorem decode_fields (bs : Bytes) (v0 v1 v2 v3 v4 : Nat)
    (h : Py.unpackBE [2, 1, 1, 2, 4] bs = .ok [(v0 : Int), (v1 : Int), (v2 : Int), (v3 : Int), (v4 : Int)]) :
    SecsIHeader.decode bs = .ok ⟨v4, ((v0 % 32768 : Nat) : Int), ((v1 % 128 : Nat) : Int), v2, ((v3 % 32768 : Nat) : Int),
      decide (v0 / 32768 % 2 = 1), decide (v1 / 128 % 2 = 1), decide (v3 / 32768 % 2 = 1)⟩ := by
  simp only [SecsIHeader.decode, h, band32767, band127, bit15of, bit7of]
  rw [dec_cast, dec_cast, dec_cast]

theorem decode_spec (sy dv st fn bl : Nat) (r w e : Bool)
    (hsy : sy < 2^32) (hdv : dv < 2^15) (hst : st < 2^7) (hfn : fn < 2^8) (hbl : bl < 2^15) :
    SecsIHeader.decode (specBytes sy dv st fn bl r w e) = .ok ⟨sy, dv, st, fn, bl, r, w, e⟩ := by
  have p5 := Py.packBE_cons_nat 4 sy [] [] (by omega) rfl
  have p4 := Py.packBE_cons_nat 2 (bl + if e then 32768 else 0) _ _ (by cases e <;> simp <;> omega) p5
  have p3 := Py.packBE_cons_nat 1 fn _ _ (by omega) p4
  have p2 := Py.packBE_cons_nat 1 (st + if w then 128 else 0) _ _ (by cases w <;> simp <;> omega) p3
  have p1 := Py.packBE_cons_nat 2 (dv + if r then 32768 else 0) _ _ (by cases r <;> simp <;> omega) p2
  have u := Py.unpackBE_packBE _ _ p1
  simp only [List.map_cons, List.map_nil] at u
  have hb : specBytes sy dv st fn bl r w e =
      be 2 (dv + if r then 32768 else 0) ++ (be 1 (st + if w then 128 else 0) ++ (be 1 fn ++ (be 2 (bl + if e then 32768 else 0) ++ (be 4 sy ++ [])))) := by
    simp only [specBytes, List.append_assoc, List.append_nil]
  rw [hb, decode_fields _ _ _ _ _ _ u]
  have a1 : (dv + if r then 32768 else 0) % 32768 = dv := by cases r <;> simp <;> omega
  have a2 : (st + if w then 128 else 0) % 128 = st := by cases w <;> simp <;> omega
  have a3 : (bl + if e then 32768 else 0) % 32768 = bl := by cases e <;> simp <;> omega
  have b1 : decide ((dv + if r then 32768 else 0) / 32768 % 2 = 1) = r := by cases r <;> simp <;> omega
  have b2 : decide ((st + if w then 128 else 0) / 128 % 2 = 1) = w := by cases w <;> simp <;> omega
  have b3 : decide ((bl + if e then 32768 else 0) / 32768 % 2 = 1) = e := by cases e <;> simp <;> omega
  rw [a1, a2, a3, b1, b2, b3]

end SecsModel.Proofs.SecsIHdr

namespace SecsModel.Proofs.SecsIHdr
open SecsModel SecsModel.Gen

theorem be2_ofBe (a b : Nat) (ha : a < 256) (hb : b < 256) : be 2 (ofBe [a, b]) = [a, b] :=
  be_ofBe [a, b] (by intro x hx; simp at hx; rcases hx with h | h <;> omega)

/-- `decode` accepts every 10-byte string and `encode` gives the same ten bytes back: the header codec is a bijection
between 10-byte strings and in-range headers. -/
theorem encode_decode (bs : Bytes) (hl : bs.length = 10) (hb : AllBytes bs) :
    ∃ h, SecsIHeader.decode bs = .ok h ∧ InRange h ∧ h.encode = .ok bs := by
  match bs, hl with
  | [a0, a1, a2, a3, a4, a5, a6, a7, a8, a9], _ =>
    have h0 : a0 < 256 := hb a0 (by simp)
    have h1 : a1 < 256 := hb a1 (by simp)
    have h2 : a2 < 256 := hb a2 (by simp)
    have h3 : a3 < 256 := hb a3 (by simp)
    have h4 : a4 < 256 := hb a4 (by simp)
    have h5 : a5 < 256 := hb a5 (by simp)
    have h6 : a6 < 256 := hb a6 (by simp)
    have h7 : a7 < 256 := hb a7 (by simp)
    have h8 : a8 < 256 := hb a8 (by simp)
    have h9 : a9 < 256 := hb a9 (by simp)
    have u : Py.unpackBE [2, 1, 1, 2, 4] [a0, a1, a2, a3, a4, a5, a6, a7, a8, a9] =
        .ok [((ofBe [a0, a1] : Nat) : Int), ((ofBe [a2] : Nat) : Int), ((ofBe [a3] : Nat) : Int), ((ofBe [a4, a5] : Nat) : Int),
             ((ofBe [a6, a7, a8, a9] : Nat) : Int)] := by
      simp [Py.unpackBE, Py.unpackFields]
    have hd := decode_fields _ _ _ _ _ _ u
    refine ⟨_, hd, ?_, ?_⟩
    · have e0 : ofBe [a0, a1] = a0 * 256 + a1 := by simp [ofBe]
      have e1 : ofBe [a2] = a2 := by simp [ofBe]
      have e2 : ofBe [a3] = a3 := by simp [ofBe]
      have e3 : ofBe [a4, a5] = a4 * 256 + a5 := by simp [ofBe]
      have e4 : ofBe [a6, a7, a8, a9] = a6 * 16777216 + (a7 * 65536 + (a8 * 256 + a9)) := by simp [ofBe]
      constructor <;> simp only [e0, e1, e2, e3, e4] <;> omega
    · have e0 : ofBe [a0, a1] = a0 * 256 + a1 := by simp [ofBe]
      have e1 : ofBe [a2] = a2 := by simp [ofBe]
      have e2 : ofBe [a3] = a3 := by simp [ofBe]
      have e3 : ofBe [a4, a5] = a4 * 256 + a5 := by simp [ofBe]
      have e4 : ofBe [a6, a7, a8, a9] = a6 * 16777216 + (a7 * 65536 + (a8 * 256 + a9)) := by simp [ofBe]
      rw [encode_nat _ _ _ _ _ _ _ _ (by rw [e4]; omega) (by omega) (by omega) (by rw [e2]; omega) (by omega)]
      congr 1
      simp only [specBytes]
      have r0 : (ofBe [a0, a1] % 32768 + if decide (ofBe [a0, a1] / 32768 % 2 = 1) = true then 32768 else 0) = ofBe [a0, a1] := by
        rw [e0]; split <;> rename_i hc <;> simp at hc <;> omega
      have r1 : (ofBe [a2] % 128 + if decide (ofBe [a2] / 128 % 2 = 1) = true then 128 else 0) = ofBe [a2] := by
        rw [e1]; split <;> rename_i hc <;> simp at hc <;> omega
      have r3 : (ofBe [a4, a5] % 32768 + if decide (ofBe [a4, a5] / 32768 % 2 = 1) = true then 32768 else 0) = ofBe [a4, a5] := by
        rw [e3]; split <;> rename_i hc <;> simp at hc <;> omega
      rw [r0, r1, r3]
      have b0 := be_ofBe [a0, a1] (by intro x hx; simp at hx; rcases hx with h | h <;> omega)
      have b1 := be_ofBe [a2] (by intro x hx; simp at hx; omega)
      have b2 := be_ofBe [a3] (by intro x hx; simp at hx; omega)
      have b3 := be_ofBe [a4, a5] (by intro x hx; simp at hx; rcases hx with h | h <;> omega)
      have b4 := be_ofBe [a6, a7, a8, a9] (by intro x hx; simp at hx; rcases hx with h | h | h | h <;> omega)
      simp only [List.length_cons, List.length_nil] at b0 b1 b2 b3 b4
      rw [b0, b1, b2, b3, b4]
      rfl

end SecsModel.Proofs.SecsIHdr
