import SecsModel.Model.FnCodec
/-! C03b table obligation, first half of the class table: `structOf` is defined for every function that has a structure text
(kernel evaluation of the SFDL model, `erase` and `structOfShape` over the generated rows). -/
namespace SecsModel.Proofs.FnCodecTab
open SecsModel SecsModel.Gen.Catalogue SecsModel.Model.Fn

/-- the row has no structure text, or its structure is defined -/
def structOk (f : Fn) : Bool := f.dataFormat.isNone || (structOf f).isSome

theorem struct0 : py0.all structOk = true := by decide +kernel
theorem struct1 : py1.all structOk = true := by decide +kernel

end SecsModel.Proofs.FnCodecTab
