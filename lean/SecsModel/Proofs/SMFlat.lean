import SecsModel.Proofs.SM
/-!
# Proofs.SMFlat — flat machines with arbitrary nested requests from `enter` and `called` handlers

One induction over the fuel of the five mutually recursive engine functions.  Requests from *leave* handlers are excluded:
the engine reads `old_state` after `leave` returned, so a transition performed by a leave handler is overwritten
(see `Props.C18.witness_leave_handler`).
-/
namespace SecsModel.Proofs.SMFlat
open SecsModel.Model.SM SecsModel.Proofs.SM

/-- The event sequences a flat machine can record, starting in `c` and ending in `c'`: each performed transition —
requested from outside or by a handler — contributes exactly one `leave` of the state it was requested in, one `enter`
of its destination and one `called`, its source check having passed in the state at that moment.
`es1` = what the destination's enter handlers requested, `es2` = what the called handlers requested, `es3` = the following requests. -/
inductive Traces (m : MDef) : Nat → List Ev → Nat → Prop
  | nil {c} : Traces m c [] c
  | cons {c name srcs dst es1 c1 es2 c2 es3 c3} :
      lookup m name = some (srcs, dst) → srcs.contains c = true →
      Traces m dst es1 c1 → Traces m c1 es2 c2 → Traces m c2 es3 c3 →
      Traces m c (.leave c :: .enter dst :: (es1 ++ .called name :: (es2 ++ es3))) c3

theorem traces_append {m : MDef} {c c1 c2 : Nat} {es es' : List Ev} (h1 : Traces m c es c1) (h2 : Traces m c1 es' c2) :
    Traces m c (es ++ es') c2 := by
  induction h1 with
  | nil => exact h2
  | cons hl hc t1 t2 _ _ _ ih3 =>
    have := Traces.cons hl hc t1 t2 (ih3 h2)
    simpa [List.append_assoc] using this

structure FlatH (m : MDef) (h : Handlers) : Prop where
  flat : isFlat m
  noLeave : ∀ s, h (.leave s) = []

theorem inv_flat {m : MDef} (hf : isFlat m) (st : St) : Inv m st ↔ ∀ x, st.active x = decide (x = st.cur) := by
  unfold SecsModel.Model.SM.Inv
  rw [chain_none (hf st.cur)]
  constructor
  · intro h x; rw [h x]; simp
  · intro h x; rw [h x]; simp

/-- not a recursion-limit failure -/
def NF (o : Out) : Prop := o.err ≠ some .fuel

theorem leave_flat {m : MDef} {h : Handlers} (H : FlatH m h) (f : Nat) (st : St) (dest : Option Nat) (hinv : Inv m st) :
    (∀ e s1, leave m h f st st.cur dest = .fail e s1 → e = .fuel) ∧
    (∀ s1, leave m h f st st.cur dest = .ok s1 →
      s1.cur = st.cur ∧ (∀ x, s1.active x = false) ∧ s1.log = st.log ++ [.leave st.cur]) := by
  cases f with
  | zero => simp [leave]
  | succ f =>
    have hfire : fire m h f st (.leave st.cur) = .fail .fuel st ∨
        fire m h f st (.leave st.cur) = .fail .fuel { st with log := st.log ++ [.leave st.cur] } ∨
        fire m h f st (.leave st.cur) = .ok { st with log := st.log ++ [.leave st.cur] } := by
      cases f with
      | zero => left; rfl
      | succ f =>
        right
        simp only [fire, H.noLeave]
        cases f with
        | zero => left; rfl
        | succ f => right; rfl
    simp only [leave, H.flat st.cur]
    rcases hfire with e | e | e <;> rw [e] <;> simp
    intro x
    have := (inv_flat H.flat st).mp hinv x
    simp only [setFlag]
    by_cases hx : x = st.cur
    · simp [hx]
    · simp [hx, this]

/-- postcondition shared by `performAll`, `fire` (with the fired event in front) and `enter` -/
def Post (m : MDef) (c : Nat) (log : List Ev) (pre : List Ev) (o : Out) : Prop :=
  Inv m o.st ∧ ∀ st', o = .ok st' → ∃ es, st'.log = log ++ pre ++ es ∧ Traces m c es st'.cur

theorem flat_all {m : MDef} {h : Handlers} (H : FlatH m h) : ∀ f,
    -- perform
    (∀ st name, Inv m st → NF (perform m h f st name) →
      Inv m (perform m h f st name).st ∧
      ∀ st', perform m h f st name = .ok st' → ∃ srcs dst es1 c1 es2,
        lookup m name = some (srcs, dst) ∧ srcs.contains st.cur = true ∧ Traces m dst es1 c1 ∧ Traces m c1 es2 st'.cur ∧
        st'.log = st.log ++ (.leave st.cur :: .enter dst :: (es1 ++ .called name :: es2))) ∧
    -- performAll
    (∀ st names, Inv m st → NF (performAll m h f st names) → Post m st.cur st.log [] (performAll m h f st names)) ∧
    -- runCallbacks
    (∀ st cbs, Inv m st → NF (runCallbacks m h f st cbs) → Post m st.cur st.log [] (runCallbacks m h f st cbs)) ∧
    -- fire
    (∀ st ev, Inv m st → NF (fire m h f st ev) → Post m st.cur st.log [ev] (fire m h f st ev)) ∧
    -- enter (called on the new current state, every flag cleared by the preceding leave)
    (∀ st src, (∀ x, st.active x = false) → NF (enter m h f st st.cur src) →
      Post m st.cur st.log [.enter st.cur] (enter m h f st st.cur src)) := by
  intro f
  induction f with
  | zero =>
    refine ⟨?_, ?_, ?_, ?_, ?_⟩ <;> intros <;> rename_i hnf <;> simp [NF, perform, performAll, runCallbacks, fire, enter, Out.err] at hnf
  | succ f ih =>
    obtain ⟨ihP, ihA, ihC, ihF, ihE⟩ := ih
    refine ⟨?_, ?_, ?_, ?_, ?_⟩
    · -- perform
      intro st name hinv hnf
      simp only [perform] at hnf ⊢
      cases hl : lookup m name with
      | none => simp [Out.st, hinv]
      | some sd =>
        obtain ⟨srcs, dst⟩ := sd
        simp only [hl] at hnf ⊢
        cases hc : srcs.contains st.cur with
        | false => simp [Out.st, hinv]
        | true =>
          simp only [hc, ↓reduceIte] at hnf ⊢
          obtain ⟨lf, lo⟩ := leave_flat H f st (some dst) hinv
          cases h1 : leave m h f st st.cur (some dst) with
          | fail e s1 =>
            rw [h1] at hnf
            have := lf e s1 h1
            subst this
            exact absurd rfl hnf
          | ok s1 =>
            simp only [h1] at hnf ⊢
            obtain ⟨c1, a1, l1⟩ := lo s1 h1
            have hE := ihE { s1 with cur := dst } (some s1.cur) (by simpa using a1)
            simp only at hE
            cases h2 : enter m h f { s1 with cur := dst } dst (some s1.cur) with
            | fail e s2 =>
              rw [h2] at hnf hE
              have := hE (by simpa [NF, Out.err] using hnf)
              exact ⟨this.1, by simp⟩
            | ok s2 =>
              simp only [h2] at hnf hE ⊢
              obtain ⟨i2, t2⟩ := hE (by simp [NF, Out.err])
              obtain ⟨es1, hlog1, tr1⟩ := t2 s2 rfl
              have hF := ihF s2 (.called name) i2 hnf
              refine ⟨hF.1, fun st' hst' => ?_⟩
              obtain ⟨es2, hlog2, tr2⟩ := hF.2 st' hst'
              refine ⟨srcs, dst, es1, s2.cur, es2, rfl, hc, tr1, tr2, ?_⟩
              rw [hlog2, hlog1]
              simp [l1]
    · -- performAll
      intro st names hinv hnf
      cases names with
      | nil => exact ⟨hinv, fun st' e => ⟨[], by simp [performAll] at e; subst e; simp, by simp [performAll] at e; subst e; exact Traces.nil⟩⟩
      | cons nm rest =>
        simp only [performAll] at hnf ⊢
        cases h1 : perform m h f st nm with
        | fail e s1 =>
          simp only [h1] at hnf ⊢
          have := (ihP st nm hinv (by rw [h1]; exact hnf)).1
          rw [h1] at this
          exact ⟨this, by simp⟩
        | ok s1 =>
          simp only [h1] at hnf ⊢
          obtain ⟨i1, t1⟩ := ihP st nm hinv (by rw [h1]; simp [NF, Out.err])
          rw [h1] at i1
          obtain ⟨srcs, dst, es1, c1, es2, hl, hc, tr1, tr2, hlog⟩ := t1 s1 h1
          obtain ⟨i3, t3⟩ := ihA s1 rest i1 hnf
          refine ⟨i3, fun st' hst' => ?_⟩
          obtain ⟨es3, hlog3, tr3⟩ := t3 st' hst'
          refine ⟨_, ?_, Traces.cons hl hc tr1 tr2 tr3⟩
          rw [hlog3, hlog]; simp
    · -- runCallbacks
      intro st cbs hinv hnf
      cases cbs with
      | nil => exact ⟨hinv, fun st' e => ⟨[], by simp [runCallbacks] at e; subst e; simp, by simp [runCallbacks] at e; subst e; exact Traces.nil⟩⟩
      | cons cb rest =>
        simp only [runCallbacks] at hnf ⊢
        cases h1 : performAll m h f st (cb st) with
        | fail e s1 =>
          simp only [h1] at hnf ⊢
          have := (ihA st (cb st) hinv (by rw [h1]; exact hnf)).1
          rw [h1] at this
          exact ⟨this, by simp⟩
        | ok s1 =>
          simp only [h1] at hnf ⊢
          obtain ⟨i1, t1⟩ := ihA st (cb st) hinv (by rw [h1]; simp [NF, Out.err])
          rw [h1] at i1
          obtain ⟨es1, hlog1, tr1⟩ := t1 s1 h1
          obtain ⟨i3, t3⟩ := ihC s1 rest i1 hnf
          refine ⟨i3, fun st' hst' => ?_⟩
          obtain ⟨es3, hlog3, tr3⟩ := t3 st' hst'
          exact ⟨es1 ++ es3, by rw [hlog3, hlog1]; simp, traces_append tr1 tr3⟩
    · -- fire
      intro st ev hinv hnf
      simp only [fire] at hnf ⊢
      have hinv1 : Inv m { st with log := st.log ++ [ev] } := hinv
      obtain ⟨i, t⟩ := ihC _ _ hinv1 hnf
      exact ⟨i, fun st' hst' => by obtain ⟨es, hl, tr⟩ := t st' hst'; exact ⟨es, by simpa using hl, tr⟩⟩
    · -- enter
      intro st src hclr hnf
      simp only [enter, H.flat st.cur] at hnf ⊢
      have hinv0 : Inv m { st with active := setFlag st.active st.cur true } := by
        rw [inv_flat H.flat]
        intro x
        simp only [setFlag]
        by_cases hx : x = st.cur
        · simp [hx]
        · simp [hx, hclr x]
      cases h1 : fire m h f { st with active := setFlag st.active st.cur true } (.enter st.cur) with
      | fail e s1 =>
        simp only [h1] at hnf ⊢
        have := (ihF _ _ hinv0 (by rw [h1]; exact hnf)).1
        rw [h1] at this
        exact ⟨this, by simp⟩
      | ok s1 =>
        simp only
        have := ihF _ _ hinv0 (by rw [h1]; simp [NF, Out.err])
        rw [h1] at this
        exact this

end SecsModel.Proofs.SMFlat
