import SecsModel.Model.Sml
/-!
# Proofs.SmlNum — integer text: the printers `decNat/decInt/hexLit` against the Python-literal parser `pyInt`
-/
namespace SecsModel.Proofs.Sml
open SecsModel.Model.Sml

/-! ### digits -/

def ofDigitsLE (B : Nat) : List Nat → Nat
  | [] => 0
  | d :: ds => d + B * ofDigitsLE B ds

theorem digitsAux_spec (b : Nat) : ∀ (f n : Nat), n < f →
    ofDigitsLE (b + 2) (digitsAux b f n) = n ∧ (∀ d ∈ digitsAux b f n, d < b + 2) ∧ digitsAux b f n ≠ [] := by
  intro f
  induction f with
  | zero => intro n h; omega
  | succ f ih =>
    intro n h
    unfold digitsAux
    split
    · rename_i hlt
      refine ⟨by simp [ofDigitsLE], ?_, by simp⟩
      intro d hd; simp at hd; omega
    · rename_i hge
      have hdiv : n / (b + 2) < f := by
        have : n / (b + 2) < n := Nat.div_lt_self (by omega) (by omega)
        omega
      obtain ⟨h1, h2, _⟩ := ih (n / (b + 2)) hdiv
      refine ⟨?_, ?_, by simp⟩
      · simp only [ofDigitsLE, h1]
        have := Nat.mod_add_div n (b + 2)
        omega
      · intro d hd
        simp only [List.mem_cons] at hd
        rcases hd with rfl | hd
        · exact Nat.mod_lt _ (by omega)
        · exact h2 d hd

theorem digitsLE_spec (b n : Nat) :
    ofDigitsLE (b + 2) (digitsLE b n) = n ∧ (∀ d ∈ digitsLE b n, d < b + 2) ∧ digitsLE b n ≠ [] :=
  digitsAux_spec b (n + 1) n (by omega)

/-- value of big-endian digits, the way the scanner accumulates them -/
def accDigits (B : Nat) (acc : Nat) (ds : List Nat) : Nat := ds.foldl (fun a d => a * B + d) acc

theorem accDigits_reverse (B : Nat) (ds : List Nat) : accDigits B 0 ds.reverse = ofDigitsLE B ds := by
  induction ds with
  | nil => rfl
  | cons d ds ih =>
    simp only [accDigits, List.reverse_cons, List.foldl_append, List.foldl_cons, List.foldl_nil, ofDigitsLE] at ih ⊢
    rw [ih]; rw [Nat.mul_comm]; omega

theorem digitVal_digitCh (d : Nat) (h : d < 36) : digitVal (digitCh d) = some d := by
  unfold digitCh digitVal
  by_cases h10 : d < 10
  · simp only [h10, if_true]
    have : 48 ≤ 48 + d ∧ 48 + d ≤ 57 := by omega
    simp [this]
  · simp only [h10, if_false]
    have h1 : ¬ (48 ≤ 87 + d ∧ 87 + d ≤ 57) := by omega
    have h2 : 97 ≤ 87 + d ∧ 87 + d ≤ 122 := by omega
    simp [h1, h2]

theorem digitCh_ne_underscore (d : Nat) (h : d < 36) : digitCh d ≠ 95 := by
  unfold digitCh
  by_cases h10 : d < 10
  · simp only [h10, if_true]; omega
  · simp only [h10, if_false]; omega

/-- scanning a block of digit characters -/
theorem digitsGo_digits (B : Nat) (hB : B ≤ 36) (ds : List Nat) (hds : ∀ d ∈ ds, d < B) (rest : Text) (acc : Nat) (pu : Bool) (cnt : Nat)
    (hne : ds ≠ []) :
    digitsGo B (ds.map digitCh ++ rest) acc pu cnt = digitsGo B rest (accDigits B acc ds) false (cnt + ds.length) := by
  induction ds generalizing acc pu cnt with
  | nil => exact absurd rfl hne
  | cons d ds ih =>
    have hd : d < B := hds d (by simp)
    have hd36 : d < 36 := by omega
    simp only [List.map_cons, List.cons_append, digitsGo, digitCh_ne_underscore d hd36, if_false, digitVal_digitCh d hd36, hd, if_true]
    by_cases hnil : ds = []
    · subst hnil; simp [accDigits]
    · rw [ih (fun x hx => hds x (by simp [hx])) _ _ _ hnil]
      simp only [accDigits, List.foldl_cons, List.length_cons]
      congr 1; omega

theorem digitsGo_all (B : Nat) (hB : B ≤ 36) (ds : List Nat) (hds : ∀ d ∈ ds, d < B) (hne : ds ≠ []) :
    digitsGo B (ds.map digitCh) 0 false 0 = some (accDigits B 0 ds) := by
  have := digitsGo_digits B hB ds hds [] 0 false 0 hne
  rw [List.append_nil] at this
  rw [this]
  have : 0 + ds.length ≠ 0 := by
    cases ds with
    | nil => exact absurd rfl hne
    | cons _ _ => simp
  simp [digitsGo, hne]

/-- the digit string of `n` in base `b+2`, big-endian, as characters -/
def natText (b n : Nat) : Text := ((digitsLE b n).reverse).map digitCh

theorem decNat_eq (n : Nat) : decNat n = natText 8 n := rfl
theorem hexLit_eq (n : Nat) : hexLit n = 48 :: 120 :: natText 14 n := rfl

theorem digitsGo_natText (b n : Nat) (hb : b + 2 ≤ 36) : digitsGo (b + 2) (natText b n) 0 false 0 = some n := by
  obtain ⟨h1, h2, h3⟩ := digitsLE_spec b n
  unfold natText
  rw [digitsGo_all (b + 2) hb _ (by intro d hd; exact h2 d (List.mem_reverse.mp hd)) (by simpa using h3)]
  rw [accDigits_reverse, h1]

/-! ### character classes of number text -/

def isDigitCh (c : Nat) : Bool := (48 ≤ c && c ≤ 57) || (97 ≤ c && c ≤ 122)

theorem digitCh_isDigitCh (d : Nat) (h : d < 36) : isDigitCh (digitCh d) = true := by
  unfold digitCh isDigitCh
  split
  · have : 48 ≤ 48 + d ∧ 48 + d ≤ 57 := by omega
    simp [this]
  · have : 97 ≤ 87 + d ∧ 87 + d ≤ 122 := by omega
    simp [this]

theorem natText_digits (b n : Nat) (hb : b + 2 ≤ 36) : ∀ c ∈ natText b n, isDigitCh c = true := by
  intro c hc
  unfold natText at hc
  obtain ⟨d, hd, rfl⟩ := List.mem_map.mp hc
  exact digitCh_isDigitCh d (by have := (digitsLE_spec b n).2.1 d (List.mem_reverse.mp hd); omega)

theorem natText_ne_nil (b n : Nat) : natText b n ≠ [] := by
  unfold natText
  have := (digitsLE_spec b n).2.2
  simpa using this

theorem isDigitCh_plain {c : Nat} (h : isDigitCh c = true) : isPlain c = true := by
  unfold isDigitCh at h
  unfold isPlain isWs isOp isDelim
  simp only [Bool.or_eq_true, Bool.and_eq_true, decide_eq_true_eq] at h
  have : c ≠ 32 ∧ c ≠ 9 ∧ c ≠ 10 ∧ c ≠ 13 ∧ c ≠ 60 ∧ c ≠ 62 ∧ c ≠ 91 ∧ c ≠ 93 ∧ c ≠ 39 ∧ c ≠ 34 := by omega
  simp [this]

theorem isDigitCh_notPyWs {c : Nat} (h : isDigitCh c = true) : isPyWs c = false := by
  unfold isDigitCh at h
  unfold isPyWs
  simp only [Bool.or_eq_true, Bool.and_eq_true, decide_eq_true_eq] at h
  have : ¬ (9 ≤ c ∧ c ≤ 13) ∧ c ≠ 32 ∧ c ≠ 0x85 ∧ c ≠ 0xA0 ∧ c ≠ 0x1680 ∧ ¬ (0x2000 ≤ c ∧ c ≤ 0x200A) ∧ c ≠ 0x2028 ∧ c ≠ 0x2029
      ∧ c ≠ 0x202F ∧ c ≠ 0x205F ∧ c ≠ 0x3000 := by omega
  simp [this]
  omega

/-! ### `stripWs` leaves text alone that neither starts nor ends with Python whitespace -/

theorem dropWhile_head_false {p : Nat → Bool} {c : Nat} {s : Text} (h : p c = false) : (c :: s).dropWhile p = c :: s := by
  simp [List.dropWhile, h]

theorem stripWs_id (s : Text) (h : ∀ c ∈ s, isPyWs c = false) : stripWs s = s := by
  unfold stripWs
  cases s with
  | nil => rfl
  | cons c s =>
    rw [dropWhile_head_false (h c (by simp))]
    have hrev : ∀ x ∈ (c :: s).reverse, isPyWs x = false := fun x hx => h x (List.mem_reverse.mp hx)
    cases hr : (c :: s).reverse with
    | nil => simp at hr
    | cons r rs =>
      rw [dropWhile_head_false (hrev r (by rw [hr]; simp))]
      rw [← hr, List.reverse_reverse]

/-! ### round trips -/

theorem natText_head (b n : Nat) (hb : b + 2 ≤ 36) : ∃ c r, natText b n = c :: r ∧ isDigitCh c = true := by
  cases h : natText b n with
  | nil => exact absurd h (natText_ne_nil b n)
  | cons c r => exact ⟨c, r, rfl, natText_digits b n hb c (by rw [h]; simp)⟩

theorem pyInt_decNat (n : Nat) : pyInt false (decNat n) = some (n : Int) := by
  unfold pyInt
  rw [decNat_eq, stripWs_id _ (fun c hc => isDigitCh_notPyWs (natText_digits 8 n (by omega) c hc))]
  obtain ⟨c, r, hcr, hc⟩ := natText_head 8 n (by omega)
  have h43 : c ≠ 43 := by unfold isDigitCh at hc; simp at hc; omega
  have h45 : c ≠ 45 := by unfold isDigitCh at hc; simp at hc; omega
  have hgo := digitsGo_natText 8 n (by omega)
  rw [hcr] at hgo ⊢
  split
  · rename_i heq; injection heq with h1 _; exact absurd h1 h43
  · rename_i heq; injection heq with h1 _; exact absurd h1 h45
  · simp only [pyNat, Bool.false_eq_true, if_false]
    rw [hgo]; rfl

theorem pyInt_decInt (v : Int) : pyInt false (decInt v) = some v := by
  unfold decInt
  split
  · rename_i hneg
    unfold pyInt
    have hws : ∀ c ∈ (45 :: decNat v.natAbs), isPyWs c = false := by
      intro c hc
      simp only [List.mem_cons] at hc
      rcases hc with rfl | hc
      · decide
      · exact isDigitCh_notPyWs (natText_digits 8 _ (by omega) c hc)
    rw [stripWs_id _ hws]
    simp only [pyNat, Bool.false_eq_true, if_false]
    rw [decNat_eq, digitsGo_natText 8 _ (by omega)]
    have : -Int.ofNat v.natAbs = v := by
      rw [Int.ofNat_eq_natCast]; omega
    simp only [this]
  · rename_i hpos
    rw [pyInt_decNat]
    congr 1; omega

theorem skipUnderscore_digit (c : Nat) (r : Text) (h : isDigitCh c = true) : skipUnderscore (c :: r) = c :: r := by
  unfold skipUnderscore
  split
  · rename_i heq; injection heq with h1 _; subst h1; simp [isDigitCh] at h
  · rfl

theorem pyInt_hexLit (n : Nat) : pyInt true (hexLit n) = some (n : Int) := by
  unfold pyInt
  have hws : ∀ c ∈ hexLit n, isPyWs c = false := by
    intro c hc
    rw [hexLit_eq] at hc
    simp only [List.mem_cons] at hc
    rcases hc with rfl | rfl | hc
    · decide
    · decide
    · exact isDigitCh_notPyWs (natText_digits 14 _ (by omega) c hc)
  rw [stripWs_id _ hws, hexLit_eq]
  obtain ⟨c, r, hcr, hc⟩ := natText_head 14 n (by omega)
  have hgo := digitsGo_natText 14 n (by omega)
  simp only [pyNat, if_true]
  rw [hcr] at hgo ⊢
  simp only [skipUnderscore_digit c r hc, true_or, if_true]
  rw [hgo]; rfl

/-! ### plain-ness of number text (what the tokenizer needs) -/

theorem decNat_plain (n : Nat) : ∀ c ∈ decNat n, isPlain c = true :=
  fun c hc => isDigitCh_plain (natText_digits 8 n (by omega) c hc)

theorem decNat_ne_nil (n : Nat) : decNat n ≠ [] := natText_ne_nil 8 n

theorem decInt_plain (v : Int) : ∀ c ∈ decInt v, isPlain c = true := by
  intro c hc
  unfold decInt at hc
  split at hc
  · simp only [List.mem_cons] at hc
    rcases hc with rfl | hc
    · decide
    · exact decNat_plain _ c hc
  · exact decNat_plain _ c hc

theorem decInt_ne_nil (v : Int) : decInt v ≠ [] := by
  unfold decInt; split
  · simp
  · exact decNat_ne_nil _

theorem hexLit_plain (n : Nat) : ∀ c ∈ hexLit n, isPlain c = true := by
  intro c hc
  rw [hexLit_eq] at hc
  simp only [List.mem_cons] at hc
  rcases hc with rfl | rfl | hc
  · decide
  · decide
  · exact isDigitCh_plain (natText_digits 14 n (by omega) c hc)

theorem hexLit_ne_nil (n : Nat) : hexLit n ≠ [] := by rw [hexLit_eq]; simp

theorem hexLit_head (n : Nat) : (hexLit n).head? = some 48 := by rw [hexLit_eq]; rfl

end SecsModel.Proofs.Sml
