import SecsModel.Proofs.SecsILineFacts
/-! Ranking function of the SECS-I line automaton: every enabled step from a reachable state lowers it (C17, bounded runs). -/
namespace SecsModel.Proofs.SecsILine
open SecsModel SecsModel.Model.SecsI SecsModel.Model.SecsILine

/-! ### ranking function -/

/-- weight of a block that still has to be queued -/
def wBlock (enc : Bytes) : Nat := 40 * enc.length + 95

def wTodo : List Bytes → Nat
  | [] => 0
  | e :: rest => wBlock e + wTodo rest

/-- the application thread: blocks still to send -/
def mApp : App → Nat
  | .none => 0
  | .fin _ => 0
  | .run todo false => 1 + wTodo todo
  | .run [] true => 2
  | .run (_ :: rest) true => 2 + wTodo rest

/-- position of a protocol thread -/
def mPc : TPc → Nat
  | .idle => 0 | .recvLoop _ => 1 | .sendTop => 2 | .waitEnq => 0 | .waitAck => 0 | .waitBlk _ => 0

/-- the queued block: its bytes still have to cross the line, and ENQ before them -/
def mSendQ (e : End) : Nat :=
  match e.sendQ with
  | [] => 0
  | enc :: _ => 40 * enc.length + 40 + (if e.pc = .waitEnq then 0 else 48)

def mThr (e : End) : Nat := (if e.trig then 3 else 0) + mPc e.pc

/-- remaining blocks (× their bytes), bytes in flight (dearer on the line than in a buffer, dearer towards the receiver than back), phase -/
def measure (s : State) : Nat :=
  mApp s.a.app + mSendQ s.a + mThr s.a + mThr s.b
    + 40 * s.ab.length + 36 * s.b.rxbuf.length + 16 * s.ba.length + 12 * s.a.rxbuf.length

/-! ### what the invariant says about the shapes the steps depend on -/

structure Shape (s : State) : Prop where
  apc : s.a.pc = .idle ∨ s.a.pc = .sendTop ∨ s.a.pc = .recvLoop false ∨ s.a.pc = .waitEnq ∨ s.a.pc = .waitAck
  aquiet : Q s.a.pc → s.a.rxbuf = []
  aenq : s.a.pc = .waitEnq → (∃ enc, s.a.sendQ = [enc]) ∧ (s.a.rxbuf = [] ∨ s.a.rxbuf = [EOT])
  bpc : Q s.b.pc ∨ s.b.pc = .waitBlk false
  bq : s.b.sendQ = []
  bapp : s.b.app = .none

theorem shape_of_inv (ctx : Ctx) (s : State) (h : Inv ctx s) : Shape s := by
  obtain ⟨done, todo, hc, hst⟩ := h
  have qa : ∀ {pc : TPc}, Q pc → pc = .idle ∨ pc = .sendTop ∨ pc = .recvLoop false ∨ pc = .waitEnq ∨ pc = .waitAck := by
    intro pc h; rcases h with h | h | h <;> simp [h]
  have enqrx : ∀ {x : Nat} {l m : Bytes}, l ++ m = [x] → l = [] ∨ l = [x] := by
    intro x l m h
    cases l with
    | nil => exact Or.inl rfl
    | cons y ys =>
      simp only [List.cons_append, List.cons.injEq, List.append_eq_nil_iff] at h
      exact Or.inr (by rw [h.1, h.2.1])
  cases hst
  case s0 _ _ hpa hpb harx _ _ _ _ _ _ _ =>
    exact ⟨qa hpa, fun _ => harx, (fun h => by rw [h] at hpa; simp [Q] at hpa), Or.inl hpb, hc.bq, hc.bapp⟩
  case s1 _ _ _ _ _ _ hpa _ hpb harx _ _ _ _ _ _ _ =>
    exact ⟨qa hpa, fun _ => harx, (fun h => by rw [h] at hpa; simp [Q] at hpa), Or.inl hpb, hc.bq, hc.bapp⟩
  case s2 enc _ _ _ _ hq _ hpa hpb harx _ _ _ _ _ _ =>
    exact ⟨by simp [hpa], fun _ => harx, fun _ => ⟨⟨enc, hq⟩, Or.inl harx⟩, Or.inl hpb, hc.bq, hc.bapp⟩
  case s3 enc _ _ _ _ hq _ hpa hpb hpend _ _ _ _ _ _ =>
    exact ⟨by simp [hpa], (fun h => by rw [hpa] at h; simp [Q] at h), fun _ => ⟨⟨enc, hq⟩, enqrx hpend⟩, Or.inr hpb, hc.bq, hc.bapp⟩
  case s4 _ _ _ _ _ _ _ hpa hpb harx _ _ _ _ _ _ =>
    exact ⟨by simp [hpa], fun _ => harx, (fun h => by rw [hpa] at h; cases h), Or.inr hpb, hc.bq, hc.bapp⟩
  case s5 _ _ _ _ _ _ _ hpa hpb _ _ _ _ _ _ _ =>
    exact ⟨by simp [hpa], (fun h => by rw [hpa] at h; simp [Q] at h), (fun h => by rw [hpa] at h; cases h), Or.inl hpb, hc.bq, hc.bapp⟩
  case s6 _ _ _ _ _ _ _ hpa hpb harx _ _ _ _ _ _ _ =>
    exact ⟨qa hpa, fun _ => harx, (fun h => by rw [h] at hpa; simp [Q] at hpa), Or.inl hpb, hc.bq, hc.bapp⟩
  case finOk _ _ _ hpa hpb harx _ _ _ _ _ _ =>
    exact ⟨qa hpa, fun _ => harx, (fun h => by rw [h] at hpa; simp [Q] at hpa), Or.inl hpb, hc.bq, hc.bapp⟩
  case finBad _ _ _ _ _ _ _ hpa hpb harx _ _ _ _ _ =>
    exact ⟨qa hpa, fun _ => harx, (fun h => by rw [h] at hpa; simp [Q] at hpa), Or.inl hpb, hc.bq, hc.bapp⟩


theorem tamper_length (f : Option (Nat × Nat × Nat)) (i : Nat) (bs : Bytes) : (tamper f i bs).length = bs.length := by
  unfold tamper
  split
  · split <;> simp
  · rfl

theorem wTodo_nonneg (l : List Bytes) : 0 ≤ wTodo l := Nat.zero_le _

theorem measure_dlvB (s : State) (n : Nat) (h0 : 0 < n) (hn : n ≤ s.ab.length) :
    measure { s with b := { s.b with rxbuf := s.b.rxbuf ++ s.ab.take n, trig := true }, ab := s.ab.drop n } < measure s := by
  simp only [measure, mThr, List.length_append, List.length_take, List.length_drop, Nat.min_eq_left hn, if_true]
  cases s.b.trig <;> simp <;> omega

theorem measure_dlvA (s : State) (n : Nat) (h0 : 0 < n) (hn : n ≤ s.ba.length) :
    measure { s with a := { s.a with rxbuf := s.a.rxbuf ++ s.ba.take n, trig := true }, ba := s.ba.drop n } < measure s := by
  have e : mSendQ { s.a with rxbuf := s.a.rxbuf ++ s.ba.take n, trig := true } = mSendQ s.a := rfl
  simp only [measure, e, mThr, List.length_append, List.length_take, List.length_drop, Nat.min_eq_left hn, if_true]
  cases s.a.trig <;> simp <;> omega

theorem measure_appA (s : State) (e : End) (h : appStep s.a = some e) : measure { s with a := e } < measure s := by
  unfold appStep at h
  split at h
  · -- queue the next block
    rename_i blk rest happ
    cases h
    have hq : mSendQ { s.a with sendQ := s.a.sendQ ++ [blk], trig := true, slot := none, app := App.run (blk :: rest) true }
        ≤ mSendQ s.a + (40 * blk.length + 88) := by
      unfold mSendQ
      cases hsq : s.a.sendQ with
      | nil => simp only [List.nil_append]; split <;> omega
      | cons x xs => simp only [List.cons_append]; omega
    simp only [measure, mThr, happ, mApp, wTodo, wBlock, if_true] at hq ⊢
    cases s.a.trig <;> simp <;> omega
  · rename_i happ
    cases h
    have hq : mSendQ { s.a with app := App.fin true } = mSendQ s.a := rfl
    simp only [measure, hq, mThr, happ, mApp, wTodo]; omega
  · rename_i todo happ
    split at h
    · cases h
    · cases h
      have hq : mSendQ { s.a with slot := none, app := App.run (todo.drop 1) false } = mSendQ s.a := rfl
      simp only [measure, hq, mThr, happ]
      cases todo with
      | nil => simp [mApp, wTodo]
      | cons x xs => simp [mApp]
    · cases h
      have hq : mSendQ { s.a with slot := none, app := App.fin false } = mSendQ s.a := rfl
      simp only [measure, hq, mThr, happ]
      cases todo with
      | nil => simp [mApp]
      | cons x xs => simp [mApp]; omega
  · cases h


theorem measure_thrA (s : State) (sh : Shape s) (e : End) (tx : Bytes) (h : thrStep s.a = some (e, tx)) :
    measure (emitA s e tx) < measure s := by
  rcases sh.apc with hpc | hpc | hpc | hpc | hpc
  · -- idle
    simp only [thrStep, hpc] at h
    split at h
    · rename_i ht
      cases h
      rw [emitA_nil]
      have hq : mSendQ { s.a with trig := false, pc := TPc.sendTop } = mSendQ s.a := by
        unfold mSendQ; simp [hpc]
      simp only [measure, hq, mThr, hpc, ht, mPc]; simp
    · cases h
  · -- sendTop
    simp only [thrStep, hpc] at h
    split at h
    · rename_i hsq
      cases h
      rw [emitA_nil]
      have hq : mSendQ { s.a with pc := TPc.recvLoop false } = mSendQ s.a := by
        unfold mSendQ; simp [hsq]
      simp only [measure, hq, mThr, hpc, mPc]; omega
    · rename_i x xs hsq
      cases h
      rw [emitA_cons]
      have hq1 : mSendQ { s.a with pc := TPc.waitEnq } = 40 * x.length + 40 := by
        unfold mSendQ; simp [hsq]
      have hq2 : mSendQ s.a = 40 * x.length + 40 + 48 := by
        unfold mSendQ; simp [hsq, hpc]
      simp only [measure, hq1, hq2, mThr, hpc, mPc, List.length_append, tamper_length, List.length_cons, List.length_nil]
      omega
  · -- recvLoop false: nothing received
    have hrx := sh.aquiet (Or.inr (Or.inr hpc))
    simp only [thrStep, hpc, hrx] at h
    cases h
    rw [emitA_nil]
    simp only [measure, mSendQ, mThr, hpc, mPc, ret, hrx]
    split <;> simp
  · -- waitEnq
    obtain ⟨⟨enc, hsq⟩, hrx⟩ := sh.aenq hpc
    rcases hrx with hrx | hrx
    · simp [thrStep, hpc, hrx] at h
    · simp only [thrStep, hpc, hrx, hsq] at h
      have : ¬ ((EOT : Nat) = ENQ ∧ s.a.host = true) := fun hh => eot_ne_enq hh.1
      simp only [this, if_false] at h
      cases h
      have hq1 : mSendQ { s.a with rxbuf := [], sendQ := [], pc := TPc.waitAck } = 0 := rfl
      have hq2 : mSendQ s.a = 40 * tx.length + 40 := by unfold mSendQ; simp [hsq, hpc]
      cases tx with
      | nil =>
        rw [emitA_nil]
        simp only [measure, hq1, hq2, mThr, hpc, mPc, hrx, List.length_cons, List.length_nil]; omega
      | cons y ys =>
        rw [emitA_cons]
        simp only [measure, hq1, hq2, mThr, hpc, mPc, hrx, List.length_append, tamper_length, List.length_cons, List.length_nil]; omega
  · -- waitAck
    simp only [thrStep, hpc] at h
    split at h
    · cases h
    · rename_i r rest hrx
      cases h
      rw [emitA_nil]
      have hq : mSendQ { s.a with rxbuf := rest, slot := some (decide (r = ACK)), pc := TPc.sendTop } = mSendQ s.a := by
        unfold mSendQ; simp [hpc]
      simp only [measure, hq, mThr, hpc, mPc, hrx, List.length_cons]; omega

theorem measure_thrB (s : State) (sh : Shape s) (e : End) (tx : Bytes) (h : thrStep s.b = some (e, tx)) :
    measure (emitB s e tx) < measure s := by
  have hbq := sh.bq
  rcases sh.bpc with (hpc | hpc | hpc) | hpc
  · simp only [thrStep, hpc] at h
    split at h
    · rename_i ht
      cases h
      rw [emitB_nil]
      simp only [measure, mThr, hpc, ht, mPc]; simp
    · cases h
  · simp only [thrStep, hpc, hbq] at h
    cases h
    rw [emitB_nil]
    simp only [measure, mThr, hpc, mPc]; omega
  · simp only [thrStep, hpc] at h
    split at h
    · cases h
      rw [emitB_nil]
      simp only [measure, mThr, hpc, mPc, ret]; simp
    · rename_i r rest hrx
      cases h
      rw [emitB_cons]
      simp only [measure, mThr, hpc, mPc, hrx, List.length_append, List.length_cons, List.length_nil]; omega
  · simp only [thrStep, hpc] at h
    split at h
    · cases h
    · rename_i l rest hrx
      split at h
      · cases h
      · rename_i hlen
        have hd : (s.b.rxbuf.drop (l + 3)).length + (l + 3) = s.b.rxbuf.length := by
          simp only [List.length_drop]; omega
        split at h <;> cases h
        · rw [emitB_nil]
          simp only [measure, mThr, hpc, mPc]; omega
        · rw [emitB_cons]
          simp only [measure, mThr, hpc, mPc, ret, List.length_append, List.length_cons, List.length_nil]
          simp; omega
        · rw [emitB_cons]
          simp only [measure, mThr, hpc, mPc, List.length_append, List.length_cons, List.length_nil]; omega

/-- **every enabled step from a reachable state lowers the ranking function** -/
theorem measure_step (ctx : Ctx) (s s' : State) (l : Label) (hinv : Inv ctx s) (hs : step s l = some s') : measure s' < measure s := by
  have sh := shape_of_inv ctx s hinv
  cases l with
  | thr isA =>
    cases isA
    · simp only [step] at hs
      cases ht : thrStep s.b with
      | none => rw [ht] at hs; cases hs
      | some r => rw [ht] at hs; cases hs; exact measure_thrB s sh r.1 r.2 ht
    · simp only [step] at hs
      cases ht : thrStep s.a with
      | none => rw [ht] at hs; cases hs
      | some r => rw [ht] at hs; cases hs; exact measure_thrA s sh r.1 r.2 ht
  | app isA =>
    cases isA
    · simp [step, appStep, sh.bapp] at hs
    · simp only [step] at hs
      cases ht : appStep s.a with
      | none => rw [ht] at hs; cases hs
      | some e => rw [ht] at hs; cases hs; exact measure_appA s e ht
  | dlv toA n =>
    cases toA <;> simp only [step] at hs <;> split at hs
    · rename_i hh; cases hs; exact measure_dlvB s n hh.1 hh.2
    · cases hs
    · rename_i hh; cases hs; exact measure_dlvA s n hh.1 hh.2
    · cases hs

/-- the ranking function at the start: `1 + Σ (40·|block| + 95)` -/
theorem measure_init (h : Bool) (encs : List Bytes) (f : Option (Nat × Nat × Nat)) : measure (init h encs f) = 1 + wTodo encs := by
  simp [measure, init, mApp, mSendQ, mThr, mPc]

end SecsModel.Proofs.SecsILine
