import SecsModel.Model.GemTab
import SecsModel.Spec.GemTables
/-! Lemmas about `Model.GemTab`: dictionary update/lookup, what a passed S2F15 pre-check guarantees, the apply loop. -/
namespace SecsModel.Proofs.Gem.Tab
open SecsModel SecsModel.Model.Gem SecsModel.Model.Gem.Tab SecsModel.Spec.GemTables

/-! ## `updFirst` and `find?` -/

theorem find_updFirst_same {α : Type} (p : α → Bool) (f : α → α) (hf : ∀ a, p (f a) = p a) :
    ∀ l : List α, (updFirst p f l).find? p = (l.find? p).map f
  | [] => rfl
  | a :: t => by
    simp only [updFirst]
    by_cases h : p a = true
    · simp [h, hf]
    · have h' : p a = false := by simpa using h
      simp [h', find_updFirst_same p f hf t]

theorem find_updFirst_other {α : Type} (p q : α → Bool) (f : α → α)
    (hpq : ∀ a, q a = true → p a = false) (hf : ∀ a, p a = true → q (f a) = false) :
    ∀ l : List α, (updFirst p f l).find? q = l.find? q
  | [] => rfl
  | a :: t => by
    simp only [updFirst]
    by_cases h : p a = true
    · have hq : q a = false := by
        cases hqa : q a with
        | false => rfl
        | true => have := hpq a hqa; rw [h] at this; cases this
      simp only [h, if_true, List.find?_cons, hf a h, hq]
      -- below the updated head nothing changed
    · have h' : p a = false := by simpa using h
      simp only [h', List.find?_cons, Bool.false_eq_true, if_false]
      cases q a with
      | true => rfl
      | false => exact find_updFirst_other p q f hpq hf t

theorem mem_updFirst {α : Type} (p : α → Bool) (f : α → α) :
    ∀ (l : List α) (a' : α), a' ∈ updFirst p f l → a' ∈ l ∨ ∃ a, l.find? p = some a ∧ a' = f a
  | [], a', h => by simp [updFirst] at h
  | a :: t, a', h => by
    simp only [updFirst] at h
    by_cases hp : p a = true
    · simp only [hp, if_true] at h
      rcases List.mem_cons.mp h with h | h
      · exact Or.inr ⟨a, by simp [hp], h⟩
      · exact Or.inl (List.mem_cons_of_mem _ h)
    · have hp' : p a = false := by simpa using hp
      simp only [hp', Bool.false_eq_true, if_false] at h
      rcases List.mem_cons.mp h with h | h
      · exact Or.inl (h ▸ List.mem_cons_self)
      · rcases mem_updFirst p f t a' h with h | ⟨b, hb, he⟩
        · exact Or.inl (List.mem_cons_of_mem _ h)
        · exact Or.inr ⟨b, by simp [hp', hb], he⟩

/-! ## numbers -/

theorem finite_of_range {x : Num} {a b : Dy} (h1 : x.geC a = true) (h2 : x.leC b = true) : Num.finite x = true := by
  cases x with
  | int n => rfl
  | flt d => rfl
  | nan => simp [Num.geC] at h1
  | inf neg => cases neg <;> simp [Num.geC, Num.leC] at h1 h2

theorem finite_of_limits {x : Num} {a b : Option Dy} (ha : a.isSome = true) (hb : b.isSome = true)
    (h1 : x.geO a = true) (h2 : x.leO b = true) : Num.finite x = true := by
  cases a with
  | none => cases ha
  | some a => cases b with
    | none => cases hb
    | some b => exact finite_of_range (a := a) (b := b) h1 h2

theorem toInt_of_finite {x : Num} (h : Num.finite x = true) : x.toInt = .ok (trunc x) := by
  cases x <;> simp_all [Num.finite, Num.toInt, trunc]

/-! ## lookups after a constant was stored -/

theorem findEc_setOne (s : St) (i j : Id) (x : Num) :
    (setOne s i x).findEc j = (s.findEc j).map (fun ec => if i = j then { ec with value := x } else ec) := by
  have hecs : (setOne s i x).ecs = updFirst (fun ec => ec.id = i) (fun ec => { ec with value := x }) s.ecs := by
    unfold setOne; cases ecKind i <;> rfl
  unfold St.findEc
  rw [hecs]
  by_cases hij : i = j
  · subst hij
    rw [find_updFirst_same _ _ (by intro a; rfl)]
    simp
  · rw [find_updFirst_other]
    · cases List.find? (fun v => decide (v.id = j)) s.ecs <;> simp [hij]
    · intro a ha
      have : a.id = j := by simpa using ha
      simp only [this, decide_eq_false_iff_not]
      exact fun h => hij h.symm
    · intro a ha
      have : a.id = i := by simpa using ha
      simp [this, hij]

theorem setEc_eq_setOne (s : St) (i : Id) (x : Num) (hx : ecKind i ≠ .plain → Num.finite x = true) :
    setEc s i x = .ok (setOne s i x) := by
  unfold setEc setOne
  cases hk : ecKind i with
  | plain => rfl
  | ect => simp [toInt_of_finite (hx (by rw [hk]; intro h; cases h))]
  | timeFormat => simp [toInt_of_finite (hx (by rw [hk]; intro h; cases h))]

/-- the condition under which the apply loop cannot raise, phrased so that it survives the loop's own updates -/
def Storable (s : St) (p : Id × Ecv) : Prop :=
  ∃ ec x, s.findEc p.1 = some ec ∧ p.2 = .num x ∧ (ecKind p.1 ≠ .plain → Num.finite x = true)

theorem storable_setOne {s : St} {p : Id × Ecv} (i : Id) (x : Num) (h : Storable s p) : Storable (setOne s i x) p := by
  obtain ⟨ec, y, hf, hv, hy⟩ := h
  exact ⟨_, y, by rw [findEc_setOne, hf]; rfl, hv, hy⟩

theorem apply15_ok : ∀ (req : List (Id × Ecv)) (s : St), (∀ p ∈ req, Storable s p) → apply15 s req = .ok (applyAll s req)
  | [], s, _ => rfl
  | (i, v) :: rest, s, h => by
    obtain ⟨ec, x, hf, hv, hx⟩ := h (i, v) List.mem_cons_self
    simp only at hf hv
    subst hv
    simp only [apply15, hf, setEc_eq_setOne s i x hx, applyAll, List.foldl_cons, numOf]
    exact apply15_ok rest (setOne s i x) (fun p hp => storable_setOne i x (h p (List.mem_cons_of_mem _ hp)))

/-! ## the pre-check -/

theorem eacAfter_zero {s : St} {ec : Ec} {x : Num} {eac : Nat} (h : eacAfter s ec x eac = 0) :
    eac = 0 ∧ x.geO ec.min = true ∧ x.leO ec.max = true ∧ ((s.typeCheck && ec.intTyped && x.isFloat) = false) := by
  unfold eacAfter at h
  by_cases h3 : x.leO ec.max = true
  · by_cases h2 : x.geO ec.min = true
    · by_cases h1 : (s.typeCheck && ec.intTyped && x.isFloat) = true
      · simp [h1, h2, h3] at h
      · simp only [h1, h2, h3] at h
        exact ⟨by simpa using h, h2, h3, by simpa using h1⟩
    · simp [h2, h3] at h
  · simp [h3] at h

theorem pre15_zero (s : St) : ∀ (req : List (Id × Ecv)) (eac d : Nat), pre15 s eac req = .ok d → d = 0 →
    eac = 0 ∧ ∀ p ∈ req, ∃ ec x, s.findEc p.1 = some ec ∧ p.2 = .num x ∧ x.geO ec.min = true ∧ x.leO ec.max = true
      ∧ ((s.typeCheck && ec.intTyped && x.isFloat) = false)
  | [], eac, d, h, hd => by simp [pre15] at h; exact ⟨by omega, by simp⟩
  | (i, v) :: rest, eac, d, h, hd => by
    simp only [pre15] at h
    split at h
    · cases hf : s.findEc i with
      | none =>
        simp only [hf] at h
        have := (pre15_zero s rest 1 d h hd).1
        omega
      | some ec =>
        simp only [hf] at h
        cases v with
        | other => cases h
        | num x =>
          simp only at h
          have ih := pre15_zero s rest _ d h hd
          have hz := eacAfter_zero ih.1
          refine ⟨hz.1, ?_⟩
          intro p hp
          rcases List.mem_cons.mp hp with rfl | hp
          · exact ⟨ec, x, hf, rfl, hz.2.1, hz.2.2.1, hz.2.2.2⟩
          · exact ih.2 p hp
    · cases h

/-- the codes the pre-check can answer -/
theorem pre15_code (s : St) : ∀ (req : List (Id × Ecv)) (eac d : Nat), pre15 s eac req = .ok d →
    d = eac ∨ (d = 1 ∧ ∃ p ∈ req, s.findEc p.1 = none)
      ∨ (d = 3 ∧ ∃ p ∈ req, ∃ ec x, s.findEc p.1 = some ec ∧ p.2 = .num x ∧
            (x.geO ec.min = false ∨ x.leO ec.max = false ∨ (s.typeCheck && ec.intTyped && x.isFloat) = true))
  | [], eac, d, h => by simp [pre15] at h; exact Or.inl h.symm
  | (i, v) :: rest, eac, d, h => by
    simp only [pre15] at h
    have lift : ∀ {P : Id × Ecv → Prop}, (∃ p ∈ rest, P p) → ∃ p ∈ (i, v) :: rest, P p :=
      fun ⟨p, hp, hP⟩ => ⟨p, List.mem_cons_of_mem _ hp, hP⟩
    split at h
    · cases hf : s.findEc i with
      | none =>
        simp only [hf] at h
        rcases pre15_code s rest 1 d h with ih | ih | ih
        · exact Or.inr (Or.inl ⟨ih, (i, v), List.mem_cons_self, hf⟩)
        · exact Or.inr (Or.inl ⟨ih.1, lift ih.2⟩)
        · exact Or.inr (Or.inr ⟨ih.1, lift ih.2⟩)
      | some ec =>
        simp only [hf] at h
        cases v with
        | other => cases h
        | num x =>
          simp only at h
          rcases pre15_code s rest _ d h with ih | ih | ih
          · by_cases hz : eacAfter s ec x eac = eac
            · exact Or.inl (ih.trans hz)
            · refine Or.inr (Or.inr ?_)
              unfold eacAfter at ih hz
              by_cases h3 : x.leO ec.max = true
              · by_cases h2 : x.geO ec.min = true
                · by_cases h1 : (s.typeCheck && ec.intTyped && x.isFloat) = true
                  · simp only [h1, h2, h3] at ih
                    exact ⟨by simpa using ih, (i, x |> Ecv.num), List.mem_cons_self, ec, x, hf, rfl, Or.inr (Or.inr h1)⟩
                  · simp [h1, h2, h3] at hz
                · simp only [h2, h3] at ih
                  exact ⟨by simpa using ih, (i, .num x), List.mem_cons_self, ec, x, hf, rfl, Or.inl (by simpa using h2)⟩
              · simp only [h3] at ih
                exact ⟨by simpa using ih, (i, .num x), List.mem_cons_self, ec, x, hf, rfl, Or.inr (Or.inl (by simpa using h3))⟩
          · exact Or.inr (Or.inl ⟨ih.1, lift ih.2⟩)
          · exact Or.inr (Or.inr ⟨ih.1, lift ih.2⟩)
    · cases h

end SecsModel.Proofs.Gem.Tab
