import SecsModel.Model.GemComm
/-!
# Proofs.GemComm — the generated tables in closed form, and the control invariant of `Model.GemComm.step`

Everything that depends on the *generated* `Gen.CommSM` / `Gen.Callbacks` is confined to the first section: each lemma there
evaluates one lookup for all nine states (`cases c <;> rfl`).  A change of the source that moves a transition, a wiring row,
a protocol hook or the dispatch chain changes the generated text and one of these lemmas stops checking.
-/
namespace SecsModel.Proofs.GemComm
open SecsModel SecsModel.Spec.E30Comm SecsModel.Model.GemComm

/-! ## generated tables, evaluated -/

/-- the generated transition table behaves exactly like the E30 table `Spec.E30Comm.allowed` -/
theorem smStep_eq (c : Comm) (t : Trans) :
    smStep c t = match allowed t c with | some d => .ok d | none => .error .wrongSource := by
  cases c <;> cases t <;> rfl

theorem smWired_leave_cra (c : Comm) : smWired c "leave" "_on_state_leave_wait_cra" = decide (c = .waitCra) := by
  cases c <;> rfl
theorem smWired_leave_delay (c : Comm) : smWired c "leave" "_on_state_leave_wait_delay" = decide (c = .waitDelay) := by
  cases c <;> rfl
theorem smWired_enter_cra (c : Comm) : smWired c "enter" "_on_state_wait_cra" = decide (c = .waitCra) := by
  cases c <;> rfl
theorem smWired_enter_delay (c : Comm) : smWired c "enter" "_on_state_wait_delay" = decide (c = .waitDelay) := by
  cases c <;> rfl
theorem gemWired_enter_cra (c : Comm) : gemWired c "enter" "_on_state_wait_cra" = decide (c = .waitCra) := by
  cases c <;> rfl
theorem gemWired_enter_comm (c : Comm) : gemWired c "enter" "_on_state_communicating" = decide (c = .communicating) := by
  cases c <;> rfl
theorem hooked_comm : hooked "communicating" "_on_communicating" = true := by rfl
theorem hooked_disc : hooked "disconnected" "_on_disconnected" = true := by rfl
theorem forwards : Gen.Callbacks.disconnectedForwards = true := rfl
theorem selects : Gen.Callbacks.communicatingSelects = true := rfl
theorem lossStates (c : Comm) : Gen.Callbacks.linkLossStates.contains c.name = decide (c = .communicating) := by
  cases c <;> rfl

/-- the `if/elif` chain of `GemHandler._on_message_received`: WAIT_CRA handles S1F13/S1F14, WAIT_DELAY drops,
COMMUNICATING dispatches to the callbacks, every other state falls through -/
theorem dispatchRow_eq (c : Comm) : dispatchRow c = match c with
    | .waitCra => some (false, true, true, true)
    | .waitDelay => some (false, false, false, false)
    | .communicating => some (true, false, false, false)
    | _ => none := by
  cases c <;> rfl

/-! ## closed forms -/

theorem perform_eq (s : State) (t : Trans) : perform s t =
    match allowed t s.comm with
    | none => (s, [.wrongSource t])
    | some d => enterEffects { leaveEffects s with comm := d } := by
  unfold perform; rw [smStep_eq]; cases allowed t s.comm <;> rfl

theorem leaveEffects_eq (s : State) : leaveEffects s =
    { s with t3Armed := s.t3Armed && !decide (s.comm = .waitCra), delayArmed := s.delayArmed && !decide (s.comm = .waitDelay) } := by
  obtain ⟨c, cn, l, a, b, n, m, q⟩ := s
  cases c <;> simp [leaveEffects, smWired_leave_cra, smWired_leave_delay]

@[simp] theorem sendS1F13_comm (s : State) : (sendS1F13 s).1.comm = s.comm := by
  obtain ⟨c, cn, l, a, b, n, m, q⟩ := s; cases cn <;> rfl
@[simp] theorem sendS1F13_selected (s : State) : (sendS1F13 s).1.selected = s.selected := by
  obtain ⟨c, cn, l, a, b, n, m, q⟩ := s; cases cn <;> rfl
@[simp] theorem sendS1F13_connected (s : State) : (sendS1F13 s).1.connected = s.connected := by
  obtain ⟨c, cn, l, a, b, n, m, q⟩ := s; cases cn <;> rfl
@[simp] theorem sendS1F13_t3 (s : State) : (sendS1F13 s).1.t3Armed = s.t3Armed := by
  obtain ⟨c, cn, l, a, b, n, m, q⟩ := s; cases cn <;> rfl
@[simp] theorem sendS1F13_dly (s : State) : (sendS1F13 s).1.delayArmed = s.delayArmed := by
  obtain ⟨c, cn, l, a, b, n, m, q⟩ := s; cases cn <;> rfl

/-- entering a state: WAIT_CRA arms T3 and sends S1F13, WAIT_DELAY arms the delay, COMMUNICATING fires the event -/
theorem enterEffects_eq (s : State) : enterEffects s =
    match s.comm with
    | .waitCra => ((sendS1F13 { s with t3Armed := true }).1, (sendS1F13 { s with t3Armed := true }).2)
    | .waitDelay => ({ s with delayArmed := true }, [])
    | .communicating => (s, [.evtCommunicating])
    | _ => (s, []) := by
  obtain ⟨c, cn, l, a, b, n, m, q⟩ := s
  cases c <;> simp [enterEffects, smWired_enter_cra, smWired_enter_delay, gemWired_enter_cra, gemWired_enter_comm]

end SecsModel.Proofs.GemComm
