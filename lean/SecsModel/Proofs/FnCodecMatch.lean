import SecsModel.Model.FnCodec
import SecsModel.Proofs.CodecVar
/-! `Dynamic._match_type` on plain scalars: what is found supports the value, the search is first-fit in the two-pass order, and a
value stored in a class of its own Python kind is read back unchanged. -/
namespace SecsModel.Proofs.FnCodecMatch
open SecsModel SecsModel.Spec.E5 SecsModel.Model.Var SecsModel.Model.Fn SecsModel.Proofs.CodecVar

theorem pass1_found (c : Int) (p : PyVal) : ∀ (gs : List Tag) (g : Tag), pass1 c p gs = .found g →
    ∃ t, g = .leaf t ∧ .leaf t ∈ gs ∧ prefersPy (.leaf t) p = true ∧ supportsScalar t c p = some true
  | [], g, h => by simp [pass1] at h
  | .arr :: gs, g, h => by
    simp only [pass1] at h
    split at h
    · cases h
    · obtain ⟨t, e, m, a, b⟩ := pass1_found c p gs g h
      exact ⟨t, e, by simp [m], a, b⟩
  | .leaf t :: gs, g, h => by
    simp only [pass1] at h
    split at h
    · rename_i hp
      split at h
      · cases h
      · rename_i hs
        injection h with h; subst h
        exact ⟨t, rfl, by simp, hp, hs⟩
      · obtain ⟨t', e, m, a, b⟩ := pass1_found c p gs g h
        exact ⟨t', e, by simp [m], a, b⟩
    · obtain ⟨t', e, m, a, b⟩ := pass1_found c p gs g h
      exact ⟨t', e, by simp [m], a, b⟩

theorem pass2_found (c : Int) (p : PyVal) : ∀ (gs : List Tag) (g : Tag), pass2 c p gs = .found g →
    ∃ t, g = .leaf t ∧ .leaf t ∈ gs ∧ supportsScalar t c p = some true
  | [], g, h => by simp [pass2] at h
  | .arr :: gs, g, h => by simp [pass2] at h
  | .leaf t :: gs, g, h => by
    simp only [pass2] at h
    split at h
    · cases h
    · rename_i hs
      injection h with h; subst h
      exact ⟨t, rfl, by simp, hs⟩
    · obtain ⟨t', e, m, b⟩ := pass2_found c p gs g h
      exact ⟨t', e, by simp [m], b⟩

/-- **what `_match_type` returns is one of the candidate types and supports the value** -/
theorem matchType_found (ts : List Tag) (c : Int) (p : PyVal) (g : Tag) (h : matchType ts c p = .found g) :
    ∃ t, g = .leaf t ∧ .leaf t ∈ (if ts.isEmpty then defaultOrder else ts) ∧ supportsScalar t c p = some true := by
  simp only [matchType] at h
  split at h
  · obtain ⟨t, e, m, b⟩ := pass2_found c p _ g h
    exact ⟨t, e, m, b⟩
  · rename_i hne
    obtain ⟨t, e, m, _, b⟩ := pass1_found c p _ g h
    exact ⟨t, e, m, b⟩

/-- a candidate that pass 1 walks over: not of the value's Python kind, or of it but not supporting the value -/
def skipped1 (c : Int) (p : PyVal) (g : Tag) : Prop :=
  prefersPy g p = false ∨ ∃ t, g = .leaf t ∧ supportsScalar t c p = some false

/-- **first fit, pass 1**: the first allowed type (declared order) of the value's own Python kind that supports it is chosen -/
theorem pass1_first_fit (c : Int) (p : PyVal) (t : Ty) (post : List Tag) (hp : prefersPy (.leaf t) p = true)
    (hs : supportsScalar t c p = some true) : ∀ (pre : List Tag), (∀ g ∈ pre, skipped1 c p g) →
    pass1 c p (pre ++ .leaf t :: post) = .found (.leaf t)
  | [], _ => by simp [pass1, hp, hs]
  | .arr :: pre, h => by
    have h0 := h .arr (by simp)
    have : prefersPy .arr p = false := by
      rcases h0 with h0 | ⟨t', e, _⟩
      · exact h0
      · cases e
    simp only [List.cons_append, pass1, this, Bool.false_eq_true, if_false]
    exact pass1_first_fit c p t post hp hs pre (fun g hg => h g (by simp [hg]))
  | .leaf t' :: pre, h => by
    have ih := pass1_first_fit c p t post hp hs pre (fun g hg => h g (by simp [hg]))
    rcases h (.leaf t') (by simp) with h0 | ⟨t'', e, hs'⟩
    · simp only [List.cons_append, pass1, h0, Bool.false_eq_true, if_false, ih]
    · injection e with e; subst e
      cases hpp : prefersPy (.leaf t') p
      · simp only [List.cons_append, pass1, hpp, Bool.false_eq_true, if_false, ih]
      · simp only [List.cons_append, pass1, hpp, if_true, hs', ih]

/-- **first fit, pass 2** (reached when pass 1 finds nothing): the first allowed type that supports the value -/
theorem pass2_first_fit (c : Int) (p : PyVal) (t : Ty) (post : List Tag) (hs : supportsScalar t c p = some true) :
    ∀ (pre : List Tag), (∀ g ∈ pre, ∃ t', g = .leaf t' ∧ supportsScalar t' c p = some false) →
    pass2 c p (pre ++ .leaf t :: post) = .found (.leaf t)
  | [], _ => by simp [pass2, hs]
  | g :: pre, h => by
    obtain ⟨t', e, hs'⟩ := h g (by simp)
    subst e
    simp only [List.cons_append, pass2, hs']
    exact pass2_first_fit c p t post hs pre (fun g hg => h g (by simp [hg]))

/-- the value is of the Python kind the class natively holds -/
def native (t : Ty) (p : PyVal) : Prop :=
  match t.kind, p with
  | .sint, .int _ | .uint, .int _ => True
  | .bool, .bool _ => True
  | .f32, .float _ | .f64, .float _ => True
  | .char, .str _ | .jis, .str _ => True
  | _, _ => False

theorem map_toNat_ofNat (cps : List Nat) : (cps.map (fun (c : Nat) => (c : Int))).map Int.toNat = cps := by
  induction cps with
  | nil => rfl
  | cons c cs ih => simp [ih]

/-- a supported value of the class's own kind is stored and read back unchanged -/
theorem set_get_native (t : Ty) (c : Int) (p : PyVal) (hs : supportsScalar t c p = some true) (hn : native t p) :
    ∃ es, setLeaf t c p = .ok es ∧ getLeaf t es = p := by
  simp only [native] at hn
  generalize hk : t.kind = k at hn
  cases k <;> cases p <;> simp only [] at hn
  case sint.int n =>
    obtain ⟨hf, _, _⟩ := num_range t (Or.inl hk)
    simp only [supportsScalar, hk, supNum, hf, Bool.false_eq_true, if_false, Option.some.injEq, Bool.not_eq_true'] at hs
    exact ⟨[n], by simp [setLeaf, hk, convAll, convNum, hf, hs], by simp [getLeaf, hk]⟩
  case uint.int n =>
    obtain ⟨hf, _, _⟩ := num_range t (Or.inr hk)
    simp only [supportsScalar, hk, supNum, hf, Bool.false_eq_true, if_false, Option.some.injEq, Bool.not_eq_true'] at hs
    exact ⟨[n], by simp [setLeaf, hk, convAll, convNum, hf, hs], by simp [getLeaf, hk]⟩
  case bool.bool b =>
    refine ⟨[if b then 1 else 0], by simp [setLeaf, hk, boolOfPy], ?_⟩
    cases b <;> simp [getLeaf, hk]
  case f32.float x =>
    obtain ⟨hf, _, _⟩ := float_range t (Or.inl hk)
    simp only [supportsScalar, hk, supNum, hf, if_true, Option.some.injEq, Bool.not_eq_true'] at hs
    exact ⟨[(x : Int)], by simp [setLeaf, hk, convAll, convNum, hf, hs], by simp [getLeaf, hk]⟩
  case f64.float x =>
    obtain ⟨hf, _, _⟩ := float_range t (Or.inr hk)
    simp only [supportsScalar, hk, supNum, hf, if_true, Option.some.injEq, Bool.not_eq_true'] at hs
    exact ⟨[(x : Int)], by simp [setLeaf, hk, convAll, convNum, hf, hs], by simp [getLeaf, hk]⟩
  case char.str cps =>
    simp only [supportsScalar, hk, supText, Option.some.injEq, Bool.and_eq_true, Bool.not_eq_true', decide_eq_false_iff_not] at hs
    obtain ⟨hc, he⟩ := hs
    cases hx : encodeText (codingOf (rowOf t).coding) (cps.map (fun (c : Nat) => (c : Int))) with
    | error e => simp [hx] at he
    | ok bs =>
      have hc' : ¬ (0 < c ∧ c < ((cps.map (fun (c : Nat) => (c : Int))).length : Int)) := by simpa using hc
      exact ⟨cps.map (fun (c : Nat) => (c : Int)), by simp only [setLeaf, hk, hx, hc', if_false], by simp only [getLeaf, hk, map_toNat_ofNat]⟩
  case jis.str cps =>
    simp only [supportsScalar, hk, supText, Option.some.injEq, Bool.and_eq_true, Bool.not_eq_true', decide_eq_false_iff_not] at hs
    obtain ⟨hc, he⟩ := hs
    cases hx : encodeText (codingOf (rowOf t).coding) (cps.map (fun (c : Nat) => (c : Int))) with
    | error e => simp [hx] at he
    | ok bs =>
      have hc' : ¬ (0 < c ∧ c < ((cps.map (fun (c : Nat) => (c : Int))).length : Int)) := by simpa using hc
      exact ⟨cps.map (fun (c : Nat) => (c : Int)), by simp only [setLeaf, hk, hx, hc', if_false], by simp only [getLeaf, hk, map_toNat_ofNat]⟩

/-- **plain value read-back**: a plain int / bool / float / str given to a `Dynamic` item whose search ends in a class of the value's
own kind is read back unchanged -/
theorem plain_value_readback (ts : List Tag) (c : Int) (p : PyVal) (t : Ty) (hm : matchType ts c p = .found (.leaf t)) (hn : native t p) :
    setGet ts c p = .ok (t, p) := by
  obtain ⟨t', e, _, hs⟩ := matchType_found ts c p _ hm
  injection e with e; subst e
  obtain ⟨es, h1, h2⟩ := set_get_native t c p hs hn
  simp only [setGet, hm, h1, h2]

end SecsModel.Proofs.FnCodecMatch
