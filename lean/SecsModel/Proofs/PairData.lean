import SecsModel.Model.PairData
/-! Invariants of `Model.PairData` for all operation sequences. -/
namespace SecsModel.Proofs.PairData
open SecsModel.Model.PairData

variable {σ Req Rsp Ev : Type}

/-! ### events: exactly once, in order -/

theorem eventsInFlight_append (a b : List (Frame Req Rsp Ev)) :
    eventsInFlight (a ++ b) = eventsInFlight a ++ eventsInFlight b := by
  simp [eventsInFlight, List.filterMap_append]

theorem events_step (ans : σ → Req → σ × Rsp) (upd : σ → σ) (s : St σ Req Rsp Ev) (o : Op Req Ev)
    (h : s.received ++ eventsInFlight s.eh = s.triggered) :
    (step ans upd s o).received ++ eventsInFlight (step ans upd s o).eh = (step ans upd s o).triggered := by
  cases o with
  | call r => simpa [step] using h
  | equipRx =>
    cases hhe : s.he with
    | nil => simp only [step, hhe]; exact h
    | cons f rest =>
      cases f with
      | request sys r =>
        simp only [step, hhe, eventsInFlight_append]
        rw [← List.append_assoc, h]
        simp [eventsInFlight]
      | reply sys rsp => simp only [step, hhe]; exact h
      | event sys e => simp only [step, hhe]; exact h
  | trigger e =>
    simp only [step, eventsInFlight_append]
    rw [← List.append_assoc, h]
    simp [eventsInFlight]
  | hostRx =>
    cases heh : s.eh with
    | nil => simp only [step, heh]; rw [heh] at h; exact h
    | cons f rest =>
      rw [heh] at h
      cases f with
      | request sys r => simp only [step, heh]; simpa [eventsInFlight] using h
      | reply sys rsp =>
        simp only [step, heh]
        split <;> simpa [eventsInFlight] using h
      | event sys e =>
        simp only [step, heh]
        simp [eventsInFlight] at h ⊢
        exact h
  | update f => simpa [step] using h

/-- **Events.**  After any sequence of calls, triggers and deliveries: the events handed to the host application followed by
the events still in flight are exactly the events triggered, in trigger order — none lost, duplicated or reordered. -/
theorem events_invariant (ans : σ → Req → σ × Rsp) (upd : σ → σ) :
    ∀ (ops : List (Op Req Ev)) (s : St σ Req Rsp Ev), s.received ++ eventsInFlight s.eh = s.triggered →
      (run ans upd s ops).received ++ eventsInFlight (run ans upd s ops).eh = (run ans upd s ops).triggered
  | [], _, h => h
  | o :: ops, s, h => events_invariant ans upd ops _ (events_step ans upd s o h)

end SecsModel.Proofs.PairData

namespace SecsModel.Proofs.PairData
open SecsModel.Model.PairData

variable {σ Req Rsp Ev : Type}

def reqIds (fs : List (Frame Req Rsp Ev)) : List Nat :=
  fs.filterMap (fun f => match f with | .request sys _ => some sys | _ => none)
def rplIds (fs : List (Frame Req Rsp Ev)) : List Nat :=
  fs.filterMap (fun f => match f with | .reply sys _ => some sys | _ => none)

theorem mem_reqIds {fs : List (Frame Req Rsp Ev)} {sys : Nat} {r : Req} (h : Frame.request sys r ∈ fs) : sys ∈ reqIds fs := by
  simp only [reqIds, List.mem_filterMap]; exact ⟨_, h, rfl⟩
theorem mem_rplIds {fs : List (Frame Req Rsp Ev)} {sys : Nat} {r : Rsp} (h : Frame.reply sys r ∈ fs) : sys ∈ rplIds fs := by
  simp only [rplIds, List.mem_filterMap]; exact ⟨_, h, rfl⟩

/-- the invariant behind "a host call returns what the equipment held when it handled that very request" -/
structure AInv (ans : σ → Req → σ × Rsp) (s : St σ Req Rsp Ev) : Prop where
  ids : (s.outstanding.map (·.1)).Nodup
  le : ∀ o ∈ s.outstanding, o.1 ≤ s.counter
  wire : (reqIds s.he ++ rplIds s.eh).Nodup
  wle : ∀ i ∈ reqIds s.he ++ rplIds s.eh, i ≤ s.counter
  req : ∀ sys r, Frame.request sys r ∈ s.he → (sys, r) ∈ s.outstanding
  rpl : ∀ sys rsp, Frame.reply sys rsp ∈ s.eh →
          ∃ σ0 r, (sys, σ0, r, rsp) ∈ s.handled ∧ (ans σ0 r).2 = rsp ∧ (sys, r) ∈ s.outstanding
  res : ∀ sys r rsp, (sys, r, rsp) ∈ s.results → ∃ σ0, (sys, σ0, r, rsp) ∈ s.handled ∧ (ans σ0 r).2 = rsp

theorem ainv_init (ans : σ → Req → σ × Rsp) (e : σ) (c0 : Nat) : AInv ans (init e c0 : St σ Req Rsp Ev) := by
  constructor <;> simp [init, reqIds, rplIds]

theorem find_unique (l : List (Nat × Req)) (hnd : (l.map (·.1)).Nodup) (sys : Nat) (r : Req) (hm : (sys, r) ∈ l) :
    l.find? (·.1 == sys) = some (sys, r) := by
  induction l with
  | nil => simp at hm
  | cons x xs ih =>
    simp only [List.map_cons, List.nodup_cons] at hnd
    rcases List.mem_cons.mp hm with hx | hx
    · subst hx; simp
    · have hne : ¬ ((x.1 == sys) = true) := by
        intro c
        have : x.1 = sys := eq_of_beq c
        apply hnd.1
        rw [this]
        exact List.mem_map_of_mem (f := (·.1)) hx
      rw [List.find?_cons]
      simp only [hne]
      exact ih hnd.2 hx

theorem ainv_step (ans : σ → Req → σ × Rsp) (upd : σ → σ) (s : St σ Req Rsp Ev) (o : Op Req Ev) (h : AInv ans s) :
    AInv ans (step ans upd s o) := by
  obtain ⟨hids, hle, hwire, hwle, hreq, hrpl, hres⟩ := h
  cases o with
  | call r =>
    have fresh1 : s.counter + 1 ∉ s.outstanding.map (·.1) := by
      intro c
      obtain ⟨o, ho, he⟩ := List.mem_map.mp c
      have := hle o ho; omega
    have fresh2 : s.counter + 1 ∉ reqIds s.he ++ rplIds s.eh := by
      intro c; have := hwle _ c; omega
    constructor
    · simp only [step, List.map_append, List.map_cons, List.map_nil]
      exact List.nodup_append.mpr ⟨hids, by simp, by intro a ha b hb; simp at hb; subst hb; intro e; exact fresh1 (e ▸ ha)⟩
    · intro o ho
      simp only [step, List.mem_append, List.mem_singleton] at ho ⊢
      rcases ho with ho | ho
      · have := hle o ho; omega
      · subst ho; simp
    · simp only [step, reqIds, List.filterMap_append, List.filterMap_cons, List.filterMap_nil]
      have hperm : (List.filterMap (fun f => match f with | Frame.request sys _ => some sys | _ => none) s.he ++ [s.counter + 1]
          ++ rplIds s.eh).Perm ((s.counter + 1) :: (reqIds s.he ++ rplIds s.eh)) := by
        simp only [reqIds]
        refine List.Perm.trans ?_ (List.perm_middle)
        simp
      exact (List.Perm.nodup_iff hperm).mpr (List.nodup_cons.mpr ⟨fresh2, hwire⟩)
    · intro i hi
      simp only [step, reqIds, List.filterMap_append, List.filterMap_cons, List.filterMap_nil, List.mem_append, List.mem_singleton] at hi ⊢
      rcases hi with (hi | hi) | hi
      · have := hwle i (List.mem_append_left _ hi); omega
      · omega
      · have := hwle i (List.mem_append_right _ hi); omega
    · intro sys r' hm
      simp only [step, List.mem_append, List.mem_singleton] at hm ⊢
      rcases hm with hm | hm
      · exact Or.inl (hreq sys r' hm)
      · cases hm; exact Or.inr rfl
    · intro sys rsp hm
      obtain ⟨σ0, r', h1, h2, h3⟩ := hrpl sys rsp hm
      exact ⟨σ0, r', h1, h2, by simp only [step]; exact List.mem_append_left _ h3⟩
    · exact hres
  | equipRx =>
    cases hhe : s.he with
    | nil => simp only [step, hhe]; exact ⟨hids, hle, hwire, hwle, hreq, hrpl, hres⟩
    | cons f rest =>
      rw [hhe] at hwire hwle hreq
      cases f with
      | request sys r =>
        have hsr : (sys, r) ∈ s.outstanding := hreq sys r (by simp)
        have hperm : (reqIds rest ++ rplIds (s.eh ++ [Frame.reply sys (ans s.eq r).2])).Perm
            (reqIds (Frame.request sys r :: rest) ++ rplIds s.eh) := by
          simp only [reqIds, rplIds, List.filterMap_append, List.filterMap_cons, List.filterMap_nil, List.cons_append]
          rw [← List.append_assoc]
          exact List.perm_append_singleton _ _
        constructor
        · simpa [step, hhe] using hids
        · simpa [step, hhe] using hle
        · simp only [step, hhe]; exact (List.Perm.nodup_iff hperm).mpr hwire
        · intro i hi
          simp only [step, hhe] at hi ⊢
          exact hwle i ((List.Perm.mem_iff hperm).mp hi)
        · intro sys' r' hm
          simp only [step, hhe] at hm ⊢
          exact hreq sys' r' (List.mem_cons_of_mem _ hm)
        · intro sys' rsp hm
          simp only [step, hhe, List.mem_append, List.mem_singleton] at hm ⊢
          rcases hm with hm | hm
          · obtain ⟨σ0, r', h1, h2, h3⟩ := hrpl sys' rsp hm
            exact ⟨σ0, r', Or.inl h1, h2, h3⟩
          · cases hm
            exact ⟨s.eq, r, Or.inr rfl, rfl, hsr⟩
        · intro sys' r' rsp hm
          simp only [step, hhe] at hm ⊢
          obtain ⟨σ0, h1, h2⟩ := hres sys' r' rsp hm
          exact ⟨σ0, List.mem_append_left _ h1, h2⟩
      | reply sys rsp =>
        simp only [step, hhe]
        exact ⟨hids, hle, by simpa [reqIds] using hwire, by simpa [reqIds] using hwle,
          fun sys' r' hm => hreq sys' r' (List.mem_cons_of_mem _ hm), hrpl, hres⟩
      | event sys e =>
        simp only [step, hhe]
        exact ⟨hids, hle, by simpa [reqIds] using hwire, by simpa [reqIds] using hwle,
          fun sys' r' hm => hreq sys' r' (List.mem_cons_of_mem _ hm), hrpl, hres⟩
  | trigger e =>
    constructor
    · simpa [step] using hids
    · simpa [step] using hle
    · simpa [step, rplIds, List.filterMap_append] using hwire
    · simpa [step, rplIds, List.filterMap_append] using hwle
    · simpa [step] using hreq
    · intro sys rsp hm
      simp only [step, List.mem_append, List.mem_singleton] at hm ⊢
      rcases hm with hm | hm
      · exact hrpl sys rsp hm
      · cases hm
    · simpa [step] using hres
  | hostRx =>
    cases heh : s.eh with
    | nil => simp only [step, heh]; exact ⟨hids, hle, hwire, hwle, hreq, hrpl, hres⟩
    | cons f rest =>
      rw [heh] at hwire hwle hrpl
      cases f with
      | request sys r =>
        simp only [step, heh]
        exact ⟨hids, hle, by simpa [rplIds] using hwire, by simpa [rplIds] using hwle, hreq,
          fun sys' rsp hm => hrpl sys' rsp (List.mem_cons_of_mem _ hm), hres⟩
      | event sys e =>
        simp only [step, heh]
        exact ⟨hids, hle, by simpa [rplIds] using hwire, by simpa [rplIds] using hwle, hreq,
          fun sys' rsp hm => hrpl sys' rsp (List.mem_cons_of_mem _ hm), hres⟩
      | reply sys rsp =>
        obtain ⟨σ0, r, h1, h2, h3⟩ := hrpl sys rsp (by simp)
        have hfind := find_unique s.outstanding hids sys r h3
        -- `sys` occurs nowhere else on the wire
        have hw' : (reqIds s.he ++ (sys :: rplIds rest)).Nodup := by simpa [rplIds] using hwire
        have hnot_req : sys ∉ reqIds s.he := by
          intro c
          have := (List.nodup_append.mp hw').2.2 sys c sys (by simp)
          exact this rfl
        have hnot_rpl : sys ∉ rplIds rest := by
          have := (List.nodup_append.mp hw').2.1
          exact (List.nodup_cons.mp this).1
        have hkeep : ∀ sys' r', (sys', r') ∈ s.outstanding → sys' ≠ sys →
            (sys', r') ∈ s.outstanding.filter (fun o => !(o.1 == sys)) := by
          intro sys' r' hm hne
          refine List.mem_filter.mpr ⟨hm, ?_⟩
          simp; exact hne
        simp only [step, heh, hfind]
        constructor
        · exact List.Nodup.sublist (List.Sublist.map _ List.filter_sublist) hids
        · intro o ho; exact hle o (List.mem_filter.mp ho).1
        · have : (reqIds s.he ++ rplIds rest).Sublist (reqIds s.he ++ (sys :: rplIds rest)) :=
            List.Sublist.append (List.Sublist.refl _) (List.sublist_cons_self _ _)
          exact List.Nodup.sublist this hw'
        · intro i hi
          apply hwle i
          simp only [rplIds, List.filterMap_cons, List.mem_append, List.mem_cons] at hi ⊢
          rcases hi with hi | hi
          · exact Or.inl hi
          · exact Or.inr (Or.inr hi)
        · intro sys' r' hm
          exact hkeep sys' r' (hreq sys' r' hm) (by intro c; subst c; exact hnot_req (mem_reqIds hm))
        · intro sys' rsp' hm
          obtain ⟨σ1, r1, g1, g2, g3⟩ := hrpl sys' rsp' (List.mem_cons_of_mem _ hm)
          exact ⟨σ1, r1, g1, g2, hkeep sys' r1 g3 (by intro c; subst c; exact hnot_rpl (mem_rplIds hm))⟩
        · intro sys' r' rsp' hm
          simp only [List.mem_append, List.mem_singleton] at hm
          rcases hm with hm | hm
          · exact hres sys' r' rsp' hm
          · cases hm; exact ⟨σ0, h1, h2⟩
  | update f =>
    exact ⟨hids, hle, hwire, hwle, hreq, hrpl, hres⟩

theorem ainv_run (ans : σ → Req → σ × Rsp) (upd : σ → σ) :
    ∀ (ops : List (Op Req Ev)) (s : St σ Req Rsp Ev), AInv ans s → AInv ans (run ans upd s ops)
  | [], _, h => h
  | o :: ops, s, h => ainv_run ans upd ops _ (ainv_step ans upd s o h)

end SecsModel.Proofs.PairData
