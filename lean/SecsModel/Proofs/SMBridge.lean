import SecsModel.Proofs.SM
import SecsModel.Model.Hsms
import SecsModel.Model.GemComm
import SecsModel.Model.Pair
/-!
# Proofs.SMBridge — the one-line table steps of the protocol models are the engine

The C05 and C07 models do not carry the engine around: `Model.Hsms.smStep` (over `Gen.ConnSM.transitions`) and
`Model.GemComm.smStep` (over `Gen.CommSM.transitions`) look the transition up, check the source and make the destination current.
This file proves that this is what `Model.SM.perform` (the model of `StateMachine._perform_transition`, C18) does on those
machines whenever the registered handlers request no transition of the same machine (`Quiet`) — including that the engine does
not run out of fuel (it terminates) and that afterwards `active = ancestors-or-self of the destination`.
-/
namespace SecsModel.Proofs.SMBridge
open SecsModel SecsModel.Model.SM SecsModel.Proofs.SM SecsModel.Spec.SM SecsModel.Gen

/-! ## termination of a transition whose handlers request nothing -/

/-- quiet handlers with at most `K` callbacks per event -/
structure QuietK (h : Handlers) (K : Nat) : Prop where
  quiet : Quiet h
  bound : ∀ ev, (h ev).length ≤ K

theorem quietK_noHandlers : QuietK noHandlers 0 := ⟨quiet_noHandlers, fun _ => by simp [noHandlers]⟩

theorem runCallbacks_total {m : MDef} {hh : Handlers} : ∀ (cbs : List Callback), (∀ cb, cb ∈ cbs → ∀ st, cb st = []) →
    ∀ f st, cbs.length + 1 ≤ f → runCallbacks m hh f st cbs = .ok st := by
  intro cbs
  induction cbs with
  | nil =>
    intro _ f st hf
    cases f with
    | zero => omega
    | succ f => rfl
  | cons cb rest ih =>
    intro hq f st hf
    cases f with
    | zero => omega
    | succ f =>
      have hcb : cb st = [] := hq cb (by simp) st
      simp only [runCallbacks, hcb]
      cases f with
      | zero => simp at hf
      | succ f =>
        have : performAll m hh (f+1) st [] = .ok st := rfl
        rw [this]
        exact ih (fun c hc => hq c (by simp [hc])) (f+1) st (by simp at hf; omega)

theorem fire_total {m : MDef} {hh : Handlers} {K : Nat} (hq : QuietK hh K) (f : Nat) (st : St) (ev : Ev) (hf : K + 2 ≤ f) :
    fire m hh f st ev = .ok { st with log := st.log ++ [ev] } := by
  cases f with
  | zero => omega
  | succ f =>
    simp only [fire]
    exact runCallbacks_total (hh ev) (hq.quiet ev) f _ (by have := hq.bound ev; omega)

theorem leave_total {m : MDef} (wf : WF m) {hh : Handlers} {K : Nat} (hq : QuietK hh K) :
    ∀ s f st dest, depth m s + K + 2 ≤ f → ∃ st', leave m hh f st s dest = .ok st' := by
  intro s
  induction s using Nat.strongRecOn with
  | ind s ih =>
    intro f st dest hf
    cases f with
    | zero => omega
    | succ f =>
      have hd := depth_pos (m := m) s
      simp only [leave, fire_total hq f st (.leave s) (by omega)]
      cases hp : m.parent s with
      | none => exact ⟨_, rfl⟩
      | some p =>
        simp only
        cases hg : goesUp m p dest with
        | false => simp only [Bool.false_eq_true, ↓reduceIte]; exact ⟨_, rfl⟩
        | true =>
          simp only [↓reduceIte]
          have := depth_some wf hp
          exact ih p (wf _ _ hp) f _ _ (by omega)

theorem enter_total {m : MDef} (wf : WF m) {hh : Handlers} {K : Nat} (hq : QuietK hh K) :
    ∀ s f st src, depth m s + K + 2 ≤ f → ∃ st', enter m hh f st s src = .ok st' := by
  intro s
  induction s using Nat.strongRecOn with
  | ind s ih =>
    intro f st src hf
    cases f with
    | zero => omega
    | succ f =>
      have hd := depth_pos (m := m) s
      simp only [enter, fire_total hq f _ (.enter s) (by omega)]
      cases hp : m.parent s with
      | none => exact ⟨_, rfl⟩
      | some p =>
        simp only
        cases hg : goesUp m p src with
        | false => simp only [Bool.false_eq_true, ↓reduceIte]; exact ⟨_, rfl⟩
        | true =>
          simp only [↓reduceIte]
          have := depth_some wf hp
          exact ih p (wf _ _ hp) f _ _ (by omega)

/-- an allowed transition with quiet handlers completes once the fuel exceeds the nesting depth by `K + 3` -/
theorem perform_total {m : MDef} (wf : WF m) {hh : Handlers} {K D : Nat} (hq : QuietK hh K) (hD : ∀ s, depth m s ≤ D)
    {f : Nat} (hf : D + K + 3 ≤ f) {st : St} {name : String} {srcs : List Nat} {dst : Nat}
    (hl : lookup m name = some (srcs, dst)) (hc : srcs.contains st.cur = true) :
    ∃ st', perform m hh f st name = .ok st' := by
  cases f with
  | zero => omega
  | succ f =>
    simp only [perform, hl, hc, ↓reduceIte]
    obtain ⟨s1, h1⟩ := leave_total wf hq st.cur f st (some dst) (by have := hD st.cur; omega)
    rw [h1]
    simp only
    obtain ⟨s2, h2⟩ := enter_total wf hq dst f { s1 with cur := dst } (some s1.cur) (by have := hD dst; omega)
    rw [h2]
    simp only
    exact ⟨_, fire_total hq f s2 (.called name) (by omega)⟩

/-! ## a generated table as the engine sees it -/

theorem lookup_ofTable (t : MachineTable) (name : String) :
    lookup (ofTable t) name =
      (t.transitions.find? (fun r => r.1 == name)).map (fun r => (r.2.1.map (stateIdx t), stateIdx t r.2.2)) := by
  simp only [lookup, ofTable, List.find?_map]
  have : ((fun (x : String × List Nat × Nat) => x.1 == name) ∘ fun (r : String × List String × String) =>
      (r.1, r.2.1.map (stateIdx t), stateIdx t r.2.2)) = fun r => r.1 == name := rfl
  rw [this]
  cases t.transitions.find? (fun r => r.1 == name) <;> rfl

theorem ofTable_parent_ge (t : MachineTable) (s : Nat) (h : t.states.length ≤ s) : (ofTable t).parent s = none := by
  simp [ofTable, List.getElem?_eq_none h]

/-- what the bridge needs of a generated table; each part is decided in the kernel for `ConnSM` and `CommSM` below -/
def tableOkB (t : MachineTable) (D : Nat) : Bool :=
  wfB (ofTable t) && decide (1 ≤ D) &&
  (List.range t.states.length).all (fun s => decide (depth (ofTable t) s ≤ D)) &&
  -- the numeric source check is the source check by name
  t.transitions.all (fun tr => (List.range t.states.length).all fun c =>
    (tr.2.1.map (stateIdx t)).contains c == tr.2.1.contains (stateName t c)) &&
  -- destination names resolve, and back
  t.transitions.all (fun tr => stateName t (stateIdx t tr.2.2) == tr.2.2 && decide (stateIdx t tr.2.2 < t.states.length))

structure TableOk (t : MachineTable) (D : Nat) : Prop where
  wf : WF (ofTable t)
  depth : ∀ s, depth (ofTable t) s ≤ D
  srcs : ∀ tr, tr ∈ t.transitions → ∀ c, c < t.states.length →
    (tr.2.1.map (stateIdx t)).contains c = tr.2.1.contains (stateName t c)
  dst : ∀ tr, tr ∈ t.transitions → stateName t (stateIdx t tr.2.2) = tr.2.2

theorem tableOk_of (t : MachineTable) (D : Nat) (h : tableOkB t D = true) : TableOk t D := by
  simp only [tableOkB, Bool.and_eq_true, List.all_eq_true, List.mem_range, decide_eq_true_eq, beq_iff_eq] at h
  obtain ⟨⟨⟨⟨hw, hD1⟩, hdep⟩, hsrc⟩, hdst⟩ := h
  have hwf : WF (ofTable t) := by
    intro s p hp
    by_cases hs : s < t.states.length
    · simp only [wfB, Bool.and_eq_true, List.all_eq_true, List.mem_range] at hw
      have := hw.1 s hs
      rw [hp] at this
      simpa using this
    · rw [ofTable_parent_ge t s (by omega)] at hp; cases hp
  refine ⟨hwf, ?_, fun tr htr c hc => hsrc tr htr c hc, fun tr htr => (hdst tr htr).1⟩
  intro s
  by_cases hs : s < t.states.length
  · exact hdep s hs
  · have : SecsModel.Spec.SM.depth (ofTable t) s = 1 := by
      simp [SecsModel.Spec.SM.depth, chain_none (ofTable_parent_ge t s (by omega))]
    omega

/-- the engine's error class for the table step's -/
def failOf : Err → Option Fail
  | .unknownTransition => some .unknown
  | .wrongSource => some .wrongSource
  | _ => none

/-- **The bridge, generic in the table.**  `Model.Hsms.smStep` on the table's transition list, started from the *name* of the
engine's current state, succeeds iff `Model.SM.perform` succeeds; then the engine's new current state is the state named by the
table step's destination and `active = ancestors-or-self` of it; otherwise both report the same error class and the engine's
state is untouched. -/
theorem bridge (t : MachineTable) (D K : Nat) (ok : TableOk t D) (hh : Handlers) (hq : QuietK hh K) (f : Nat)
    (hf : D + K + 3 ≤ f) (st : St) (hcur : st.cur < t.states.length) (hinv : Inv (ofTable t) st) (name : String) :
    match Model.Hsms.smStep t.transitions (stateName t st.cur) name with
    | .ok d => ∃ st', perform (ofTable t) hh f st name = .ok st' ∧ st'.cur = stateIdx t d ∧ stateName t st'.cur = d ∧
        Inv (ofTable t) st'
    | .error e => ∃ e', failOf e = some e' ∧ perform (ofTable t) hh f st name = .fail e' st := by
  have hl := lookup_ofTable t name
  unfold Model.Hsms.smStep
  obtain ⟨f', rfl⟩ : ∃ f', f = f' + 1 := ⟨f - 1, by omega⟩
  cases hfind : t.transitions.find? (fun r => r.1 == name) with
  | none =>
    rw [hfind] at hl
    exact ⟨.unknown, rfl, by simp [perform, hl]⟩
  | some tr =>
    obtain ⟨nm, srcs, dst⟩ := tr
    rw [hfind] at hl
    simp only [Option.map_some] at hl
    have hmem : (nm, srcs, dst) ∈ t.transitions := List.mem_of_find?_eq_some hfind
    have hsrc := ok.srcs _ hmem st.cur hcur
    simp only at hsrc ⊢
    cases hc : srcs.contains (stateName t st.cur) with
    | false =>
      simp only [Bool.false_eq_true, ↓reduceIte]
      rw [hc] at hsrc
      exact ⟨.wrongSource, rfl, by simp only [perform, hl, hsrc]; simp⟩
    | true =>
      simp only [↓reduceIte]
      rw [hc] at hsrc
      obtain ⟨st', hp⟩ := perform_total ok.wf hq ok.depth hf hl hsrc
      obtain ⟨srcs', dst', _, _, hl', _, _, _, hcur', _⟩ := perform_noH hq.quiet hp
      rw [hl] at hl'
      simp only [Option.some.injEq, Prod.mk.injEq] at hl'
      have hd : st'.cur = stateIdx t dst := by rw [hcur', ← hl'.2]
      exact ⟨st', hp, hd, by rw [hd]; exact ok.dst _ hmem, inv_noH ok.wf hq.quiet hinv hp⟩

/-! ## `Gen.ConnSM` and `Model.Hsms` -/

theorem conn_tableOk : TableOk ConnSM 2 := tableOk_of _ _ (by decide +kernel)
theorem comm_tableOk : TableOk CommSM 2 := tableOk_of _ _ (by decide +kernel)

/-- the callbacks `HsmsProtocol.__init__` registers on the connection machine (`Gen.HsmsProto.wiring`: start/stop the linktest
timer, start the select thread, fire "communicating") — none of them requests a transition of the connection machine -/
def connHandlers : Handlers := fun ev =>
  match ev with
  | .enter s => (HsmsProto.wiring.filter fun w => w.1 == stateName ConnSM s && w.2.1 == "enter").map fun _ => ((fun _ => []) : Callback)
  | .leave s => (HsmsProto.wiring.filter fun w => w.1 == stateName ConnSM s && w.2.1 == "leave").map fun _ => ((fun _ => []) : Callback)
  | .called _ => []

/-- the callbacks registered on the communication machine: its own timer handlers (`Gen.CommSM.wiring`: arm/cancel T3 and the
establish-communications delay) and `GemHandler`'s (`Gen.Callbacks.commWiring`: send S1F13, fire "handler_communicating") -/
def commHandlers : Handlers := fun ev =>
  match ev with
  | .enter s => ((CommSM.wiring ++ Callbacks.commWiring).filter fun w => w.1 == stateName CommSM s && w.2.1 == "enter").map
      fun _ => ((fun _ => []) : Callback)
  | .leave s => ((CommSM.wiring ++ Callbacks.commWiring).filter fun w => w.1 == stateName CommSM s && w.2.1 == "leave").map
      fun _ => ((fun _ => []) : Callback)
  | .called _ => []

theorem connHandlers_quiet : QuietK connHandlers 3 := by
  refine ⟨?_, ?_⟩
  · intro ev cb hcb st
    cases ev <;> simp only [connHandlers, List.mem_map, List.not_mem_nil] at hcb
    · obtain ⟨_, _, rfl⟩ := hcb; rfl
    · obtain ⟨_, _, rfl⟩ := hcb; rfl
  · intro ev
    cases ev <;> simp only [connHandlers, List.length_map, List.length_nil, Nat.zero_le]
    · exact Nat.le_trans (List.length_filter_le _ _) (by decide)
    · exact Nat.le_trans (List.length_filter_le _ _) (by decide)

theorem commHandlers_quiet : QuietK commHandlers 6 := by
  refine ⟨?_, ?_⟩
  · intro ev cb hcb st
    cases ev <;> simp only [commHandlers, List.mem_map, List.not_mem_nil] at hcb
    · obtain ⟨_, _, rfl⟩ := hcb; rfl
    · obtain ⟨_, _, rfl⟩ := hcb; rfl
  · intro ev
    cases ev <;> simp only [commHandlers, List.length_map, List.length_nil, Nat.zero_le]
    · exact Nat.le_trans (List.length_filter_le _ _) (by decide)
    · exact Nat.le_trans (List.length_filter_le _ _) (by decide)

/-! ## `Gen.CommSM` and `Model.GemComm` -/

open SecsModel.Spec.E30Comm in
/-- `Model.GemComm.smStep` is `Model.Hsms.smStep` on the communication table, with names mapped to `Comm` -/
theorem gemcomm_smStep_eq (c : Comm) (tr : Trans) :
    Model.GemComm.smStep c tr =
      match Model.Hsms.smStep CommSM.transitions c.name tr.name with
      | .ok d => (match Comm.ofName d with | some d' => .ok d' | none => .error .unknownState)
      | .error .unknownTransition => .error .unknownTransition
      | .error _ => .error .wrongSource := by
  unfold Model.GemComm.smStep Model.Hsms.smStep
  cases CommSM.transitions.find? (fun r => r.1 == tr.name) with
  | none => rfl
  | some r =>
    obtain ⟨_, srcs, dst⟩ := r
    simp only
    cases srcs.contains c.name
    · simp
    · simp only [↓reduceIte]; cases Comm.ofName dst <;> rfl

open SecsModel.Spec.E30Comm in
theorem comm_names : (Comm.all.all fun c => stateName CommSM (stateIdx CommSM c.name) == c.name && decide (stateIdx CommSM c.name < CommSM.states.length)
      && (Comm.ofName c.name == some c)) = true ∧
    (CommSM.transitions.all fun tr => (Comm.ofName tr.2.2).isSome) = true := by decide +kernel

end SecsModel.Proofs.SMBridge
