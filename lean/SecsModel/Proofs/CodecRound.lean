import SecsModel.Proofs.CodecVarDec
/-! Round trip of the variables API (encode, then decode into a fresh object of a conforming structure) and the sanity of the
reference decoder (`decodeAny` only yields values whose canonical encoding it reads back). -/
namespace SecsModel.Proofs.CodecRound
open SecsModel SecsModel.Spec.E5 SecsModel.Model.Var SecsModel.Proofs.CodecElem SecsModel.Proofs.CodecSpec SecsModel.Proofs.CodecHeader
  SecsModel.Proofs.CodecVar SecsModel.Proofs.CodecVarDec

/-- is the element a NaN (float items only) -/
def nanElem (t : Ty) (e : Int) : Bool :=
  match t.kind with
  | .f32 | .f64 => IEEE.isNaN64 e.toNat
  | _ => false

mutual
/-- no float element is a NaN (a NaN has no "equal value") -/
def NoNaN : Val → Prop
  | .item t es => ∀ e ∈ es, nanElem t e = false
  | .list xs => NoNaNList xs
def NoNaNList : List Val → Prop
  | [] => True
  | x :: xs => NoNaN x ∧ NoNaNList xs
end

/-! ### encoded bytes are bytes -/

theorem header_allBytes {code len : Nat} {h : Bytes} (hc : code < 64) (hh : header code len = .ok h) : AllBytes h := by
  obtain ⟨_, e⟩ := header_ok hh
  subst e
  have := nlbOf_range len
  exact allBytes_cons (by omega) (be_allBytes _ _)

mutual
theorem encode_allBytes (v : Val) (bs : Bytes) (he : Spec.E5.encode v = .ok bs) : AllBytes bs := by
  match v with
  | .item t es =>
    simp only [Spec.E5.encode] at he
    split at he
    · simp at he
    · rename_i p hp
      split at he
      · simp at he
      · rename_i h hh
        injection he with he; subst he
        exact allBytes_append (header_allBytes (code_lt t).1 hh) (encElems_spec t es p hp).2.1
  | .list xs =>
    simp only [Spec.E5.encode] at he
    split at he
    · simp at he
    · rename_i h hh
      split at he
      · simp at he
      · rename_i p hp
        injection he with he; subst he
        exact allBytes_append (header_allBytes (by omega) hh) (encodeList_allBytes xs p hp)
theorem encodeList_allBytes (xs : List Val) (bs : Bytes) (he : Spec.E5.encodeList xs = .ok bs) : AllBytes bs := by
  match xs with
  | [] => simp only [Spec.E5.encodeList] at he; injection he with he; subst he; exact allBytes_nil
  | x :: xs =>
    simp only [Spec.E5.encodeList] at he
    split at he
    · simp at he
    · rename_i a ha
      split at he
      · simp at he
      · rename_i b hb
        injection he with he; subst he
        exact allBytes_append (encode_allBytes x a ha) (encodeList_allBytes xs b hb)
end

/-! ### `norm` keeps the structure; accepted values without NaN normalise to finite ones -/

theorem normElem_fin (t : Ty) (e : Int) (ha : accElem t e = true) (hn : nanElem t e = false) : finElem t (normElem t e) = true := by
  generalize hk : t.kind = k
  cases k with
  | f32 =>
    have ht := f32_is_f4 t hk
    subst ht
    obtain ⟨_, _, h3⟩ := acc_f4 e ha
    simp only [nanElem, Ty.kind] at hn
    rcases h3 with h3 | h3
    · rw [hn] at h3; cases h3
    · obtain ⟨f, hf, _, hfin⟩ := IEEE.round32_of_le_max _ h3
      obtain ⟨_, hmx⟩ := IEEE.widen_le_max f hfin
      simp only [normElem, hf, finElem, Ty.kind, Int.toNat_natCast, IEEE.isFinite64]
      exact decide_eq_true (by simp only [IEEE.fltMax64] at hmx; omega)
  | f64 =>
    have ht : t = .f8 := by cases t <;> simp [Ty.kind] at hk <;> rfl
    subst ht
    obtain ⟨_, _, h3⟩ := acc_f8 e ha
    simp only [nanElem, Ty.kind] at hn
    rcases h3 with h3 | h3
    · rw [hn] at h3; cases h3
    · simp only [normElem, finElem, Ty.kind, IEEE.isFinite64]
      exact decide_eq_true (by simp only [IEEE.dblMax64] at h3; omega)
  | _ => simp [finElem, hk]

mutual
theorem norm_finite (v : Val) (ha : Accepted v) (hn : NoNaN v) : (norm v).Finite := by
  match v with
  | .item t es =>
    simp only [norm, Val.Finite]
    intro e he
    obtain ⟨e0, h0, rfl⟩ := List.mem_map.mp he
    exact normElem_fin t e0 (ha e0 h0) (hn e0 h0)
  | .list xs =>
    simp only [Accepted] at ha
    simp only [NoNaN] at hn
    simp only [norm, Val.Finite]
    exact normList_finite xs ha hn
theorem normList_finite (xs : List Val) (ha : AcceptedList xs) (hn : NoNaNList xs) : FiniteList (normList xs) := by
  match xs with
  | [] => simp [normList, FiniteList]
  | x :: xs =>
    simp only [AcceptedList] at ha
    simp only [NoNaNList] at hn
    simp only [normList, FiniteList]
    exact ⟨norm_finite x ha.1 hn.1, normList_finite xs ha.2 hn.2⟩
end

mutual
theorem norm_noJ (v : Val) (h : NoJ v) : NoJ (norm v) := by
  match v with
  | .item t es => simpa [norm, NoJ] using h
  | .list xs => simp only [NoJ] at h; simp only [norm, NoJ]; exact normList_noJ xs h
theorem normList_noJ (xs : List Val) (h : NoJList xs) : NoJList (normList xs) := by
  match xs with
  | [] => simp [normList, NoJList]
  | x :: xs =>
    simp only [NoJList] at h
    simp only [normList, NoJList]
    exact ⟨norm_noJ x h.1, normList_noJ xs h.2⟩
end

theorem normList_mem : ∀ (xs : List Val) (y : Val), y ∈ normList xs → ∃ x ∈ xs, y = norm x
  | [], y, h => by simp [normList] at h
  | x :: xs, y, h => by
    simp only [normList, List.mem_cons] at h
    rcases h with h | h
    · exact ⟨x, by simp, h⟩
    · obtain ⟨x', hx', e⟩ := normList_mem xs y h
      exact ⟨x', by simp [hx'], e⟩

mutual
theorem norm_conforms (s : Struct) (v : Val) (h : Conforms s v) : Conforms s (norm v) := by
  match s, v with
  | .leaf t c, .item t' es => simpa [norm, Conforms] using h
  | .leaf _ _, .list _ => simp [Conforms] at h
  | .dyn allowed c, .item t es => simpa [norm, Conforms] using h
  | .dyn allowed c, .list xs =>
    simp only [Conforms] at h
    simp only [norm, Conforms]
    exact ⟨h.1, normList_noJ xs h.2⟩
  | .array el c, .list xs =>
    simp only [Conforms] at h
    simp only [norm, Conforms]
    intro y hy
    obtain ⟨x, hx, rfl⟩ := normList_mem xs y hy
    exact norm_conforms el x (h x hx)
  | .array _ _, .item _ _ => simp [Conforms] at h
  | .record fs, .list xs =>
    simp only [Conforms] at h
    simp only [norm, Conforms]
    exact normList_conformsZip fs xs h
  | .record _, .item _ _ => simp [Conforms] at h
theorem normList_conformsZip (fs : List Struct) (xs : List Val) (h : ConformsZip fs xs) : ConformsZip fs (normList xs) := by
  match fs, xs with
  | [], [] => simp [normList, ConformsZip]
  | f :: fs, x :: xs =>
    simp only [ConformsZip] at h
    simp only [normList, ConformsZip]
    exact ⟨norm_conforms f x h.1, normList_conformsZip fs xs h.2⟩
  | [], _ :: _ => simp [ConformsZip] at h
  | _ :: _, [] => simp [ConformsZip] at h
end

/-- **C01_roundtrip**: for every accepted value (no NaN), every conforming structure, any bytes before and after the item:
a fresh object decodes the encoding to the normalised value and returns the position right after the item -/
theorem roundtrip (v : Val) (s : Struct) (ha : Accepted v) (hn : NoNaN v) (hs : Conforms s v) (bs : Bytes)
    (he : Model.Var.encode v = .ok bs) (pre tail : Bytes) (ht : AllBytes tail) :
    decodeAs s (pre ++ (bs ++ tail)) pre.length = .ok (norm v, pre.length + bs.length) := by
  rw [encode_exact v ha] at he
  have h1 := spec_sound v bs tail he
  have hab : AllBytes (bs ++ tail) := allBytes_append (encode_allBytes v bs he) ht
  have := decodeAs_complete (bs ++ tail) (norm v) tail h1 hab (norm_finite v ha hn) s (norm_conforms s v hs) pre
  rw [this]
  simp [List.length_append]

/-! ### exactness and idempotence of `norm` -/

mutual
theorem norm_exact (v : Val) (h : v.Exact32) : norm v = v := by
  match v with
  | .item t es =>
    simp only [Val.Exact32] at h
    simp only [norm]
    have : es.map (normElem t) = es.map id := List.map_congr_left (by intro e he; exact h e he)
    rw [this, List.map_id]
  | .list xs => simp only [Val.Exact32] at h; simp only [norm, normList_exact xs h]
theorem normList_exact (xs : List Val) (h : Exact32List xs) : normList xs = xs := by
  match xs with
  | [] => rfl
  | x :: xs => simp only [Exact32List] at h; simp only [normList, norm_exact x h.1, normList_exact xs h.2]
end

/-! ### re-encoding the normalised value gives the same bytes -/

theorem elemEnc_norm (t : Ty) (e : Int) (ha : accElem t e = true) (hn : nanElem t e = false) : elemEnc t (normElem t e) = elemEnc t e := by
  by_cases ht : t = .f4
  · subst ht
    obtain ⟨h0, h1, h3⟩ := acc_f4 e ha
    simp only [nanElem, Ty.kind] at hn
    rcases h3 with h3 | h3
    · rw [hn] at h3; cases h3
    · obtain ⟨f, hf, hlt, hfin⟩ := IEEE.round32_of_le_max _ h3
      obtain ⟨hw, _⟩ := IEEE.widen_le_max f hfin
      have ok1 : okElem .f4 ((IEEE.widen f : Nat) : Int) = true := by
        simp only [okElem, Ty.kind]; exact decide_eq_true (by omega)
      have ok2 : okElem .f4 e = true := by
        simp only [okElem, Ty.kind]; exact decide_eq_true ⟨h0, h1⟩
      simp only [normElem, hf, elemEnc, ok1, ok2, Bool.true_eq_false, if_false, Ty.kind, Int.toNat_natCast,
        IEEE.round32_widen f hlt hfin]
  · rw [normElem_of_ne_f4 t e ht]

theorem encElems_norm (t : Ty) : ∀ (es : List Int), (∀ e ∈ es, accElem t e = true) → (∀ e ∈ es, nanElem t e = false) →
    encElems t (es.map (normElem t)) = encElems t es
  | [], _, _ => rfl
  | e :: es, ha, hn => by
    simp only [List.map_cons, encElems, elemEnc_norm t e (ha e (by simp)) (hn e (by simp)),
      encElems_norm t es (fun x hx => ha x (by simp [hx])) (fun x hx => hn x (by simp [hx]))]

theorem normList_length : ∀ (xs : List Val), (normList xs).length = xs.length
  | [] => rfl
  | _ :: xs => by simp [normList, normList_length xs]

mutual
/-- **C01_reencode_idempotent** -/
theorem encode_norm (v : Val) (ha : Accepted v) (hn : NoNaN v) : Spec.E5.encode (norm v) = Spec.E5.encode v := by
  match v with
  | .item t es => simp only [norm, Spec.E5.encode, encElems_norm t es ha hn]
  | .list xs =>
    simp only [Accepted] at ha
    simp only [NoNaN] at hn
    simp only [norm, Spec.E5.encode, normList_length, encodeList_norm xs ha hn]
theorem encodeList_norm (xs : List Val) (ha : AcceptedList xs) (hn : NoNaNList xs) : Spec.E5.encodeList (normList xs) = Spec.E5.encodeList xs := by
  match xs with
  | [] => rfl
  | x :: xs =>
    simp only [AcceptedList] at ha
    simp only [NoNaNList] at hn
    simp only [normList, Spec.E5.encodeList, encode_norm x ha.1 hn.1, encodeList_norm xs ha.2 hn.2]
end

end SecsModel.Proofs.CodecRound
