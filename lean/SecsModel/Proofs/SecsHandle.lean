import SecsModel.Model.SecsHandle
/-!
# Proofs.SecsHandle — generated facts in closed form and helper lemmas for C08
-/
namespace SecsModel.Proofs.SecsHandle
open SecsModel SecsModel.Spec.E30Comm SecsModel.Model.SecsHandle

/-- `GemHandler._on_message_received` reaches `_handle_stream_function` exactly in COMMUNICATING -/
theorem dispatches_eq (c : Comm) : dispatches c = decide (c = .communicating) := by
  cases c <;> rfl

/-- the generated guard: only an even function (a reply) is looked up among the open transactions -/
theorem toWaiter_eq (env : Env) (m : Msg) : toWaiter env m = (m.f % 2 == 0 && env.waiting.contains m.sys) := by
  simp [toWaiter, show Gen.Callbacks.waiterRepliesOnly = true from rfl]

theorem unknownReply_eq : Gen.Callbacks.unknownReply = (9, 5) := rfl
theorem abortFunction_eq : Gen.Callbacks.abortFunction = 0 := rfl

/-- every frame caused by a message carries that message's system bytes -/
theorem handle_sys (env : Env) (m : Msg) : ∀ fr ∈ handle env m, fr.sys = m.sys := by
  intro fr h
  unfold handle at h
  split at h
  · simp at h; subst h; rfl
  · split at h
    · simp at h
    · split at h
      · unfold handleStreamFunction at h
        split at h
        · unfold handleUnknown at h
          split at h
          · split at h
            · simp at h; subst h; rfl
            · simp at h
          · simp at h
        · split at h
          · split at h
            · simp at h
            · simp at h; subst h; rfl
          · simp at h
          · unfold abort at h; split at h
            · simp at h; subst h; rfl
            · simp at h
          · rcases List.mem_append.mp h with h | h
            · split at h
              · simp at h
              · simp at h; subst h; rfl
            · unfold abort at h; split at h
              · simp at h; subst h; rfl
              · simp at h
      · simp at h

theorem filter_sys_self (env : Env) (m : Msg) : (handle env m).filter (fun fr => fr.sys == m.sys) = handle env m := by
  apply List.filter_eq_self.mpr
  intro fr h
  simp [handle_sys env m fr h]

theorem filter_sys_other (env : Env) (m : Msg) (k : Nat) (hk : m.sys ≠ k) : (handle env m).filter (fun fr => fr.sys == k) = [] := by
  apply List.filter_eq_nil_iff.mpr
  intro fr h
  simp [handle_sys env m fr h, hk]

end SecsModel.Proofs.SecsHandle
