import SecsModel.Proofs.SmlNum
/-!
# Proofs.SmlTok — what the tokenizer makes of printed items

`tokGo (toSml d fmtF ind v ++ rest) [] none = toksOf d fmtF v ++ tokGo rest [] none` for every valid item that is *safe* for the
defect variant `d` (for `Defects.none` every item is safe).
-/
namespace SecsModel.Proofs.Sml
open SecsModel.Model.Sml

def AllPlain (w : Text) : Prop := ∀ c ∈ w, isPlain c = true

/-! ### one step of the character loop -/

theorem tokGo_ws {c : Nat} (h : isWs c = true) (cs cur : Text) :
    tokGo (c :: cs) cur none = flush cur ++ tokGo cs [] none := by
  simp [tokGo, h]

theorem tokGo_op {c : Nat} (h1 : isWs c = false) (h : isOp c = true) (cs cur : Text) :
    tokGo (c :: cs) cur none = flush cur ++ [c] :: tokGo cs [] none := by
  simp [tokGo, h, h1]

theorem tokGo_open {c : Nat} (h1 : isWs c = false) (h2 : isOp c = false) (h : isDelim c = true) (cs cur : Text) :
    tokGo (c :: cs) cur none = tokGo cs (cur ++ [c]) (some c) := by
  simp [tokGo, h, h1, h2]

theorem tokGo_plain1 {c : Nat} (h : isPlain c = true) (cs cur : Text) :
    tokGo (c :: cs) cur none = tokGo cs (cur ++ [c]) none := by
  unfold isPlain at h
  simp only [Bool.and_eq_true, Bool.not_eq_true'] at h
  simp [tokGo, h.1.1, h.1.2, h.2]

theorem tokGo_in_ne {c dl : Nat} (h : c ≠ dl) (cs cur : Text) :
    tokGo (c :: cs) cur (some dl) = tokGo cs (cur ++ [c]) (some dl) := by
  simp [tokGo, h]

theorem tokGo_in_eq (c : Nat) (cs cur : Text) :
    tokGo (c :: cs) cur (some c) = (cur ++ [c]) :: tokGo cs [] none := by
  simp [tokGo]

theorem flush_nil : flush [] = [] := rfl
theorem flush_ne {w : Text} (h : w ≠ []) : flush w = [w] := by
  cases w with
  | nil => exact absurd rfl h
  | cons _ _ => rfl

/-! ### runs -/

theorem tokGo_plain (w rest cur : Text) (h : AllPlain w) : tokGo (w ++ rest) cur none = tokGo rest (cur ++ w) none := by
  induction w generalizing cur with
  | nil => simp
  | cons c w ih =>
    rw [List.cons_append, tokGo_plain1 (h c (by simp))]
    rw [ih _ (fun x hx => h x (by simp [hx]))]
    simp

theorem tokGo_spaces (n : Nat) (rest : Text) : tokGo (spaces n ++ rest) [] none = tokGo rest [] none := by
  induction n with
  | zero => rfl
  | succ n ih =>
    have : spaces (n + 1) = 32 :: spaces n := by simp [spaces, List.replicate_succ]
    rw [this, List.cons_append, tokGo_ws (by decide), flush_nil, List.nil_append, ih]

/-! ### number / boolean / binary lists -/

/-- the value part of `< T v1 v2 … >`, each value preceded by one space -/
def valsText : List Text → Text
  | [] => []
  | v :: vs => 32 :: v ++ valsText vs

theorem joinWith_valsText (vals : List Text) (h : vals ≠ []) : [32] ++ joinWith [32] vals = valsText vals := by
  induction vals with
  | nil => exact absurd rfl h
  | cons v vs ih =>
    cases vs with
    | nil => simp [joinWith, valsText]
    | cons w ws =>
      have := ih (by simp)
      simp only [joinWith, valsText] at this ⊢
      rw [← this]; simp

theorem seqSml_eq (ind : Nat) (ty : Text) (vals : List Text) :
    seqSml ind ty vals = spaces ind ++ ([60, 32] ++ (ty ++ (valsText vals ++ [32, 62]))) := by
  unfold seqSml
  cases vals with
  | nil => simp [valsText]
  | cons v vs =>
    have := joinWith_valsText (v :: vs) (by simp)
    simp only [List.isEmpty_cons, Bool.false_eq_true, if_false]
    rw [← this]; simp

theorem tokGo_vals (vals : List Text) (hv : ∀ v ∈ vals, v ≠ [] ∧ AllPlain v) (p rest : Text) (hp : p ≠ []) :
    tokGo (valsText vals ++ 32 :: 62 :: rest) p none = p :: (vals ++ [62] :: tokGo rest [] none) := by
  induction vals generalizing p with
  | nil =>
    simp only [valsText, List.nil_append]
    rw [tokGo_ws (by decide), flush_ne hp, tokGo_op (by decide) (by decide), flush_nil]; rfl
  | cons v vs ih =>
    have ⟨hv1, hv2⟩ := hv v (by simp)
    simp only [valsText, List.cons_append, List.append_assoc]
    rw [tokGo_ws (by decide), flush_ne hp, tokGo_plain _ _ _ hv2, List.nil_append]
    rw [ih (fun x hx => hv x (by simp [hx])) v hv1]
    rfl

theorem tok_seq (ind : Nat) (ty : Text) (vals : List Text) (hty : ty ≠ [] ∧ AllPlain ty)
    (hv : ∀ v ∈ vals, v ≠ [] ∧ AllPlain v) (rest : Text) :
    tokGo (seqSml ind ty vals ++ rest) [] none = [60] :: ty :: (vals ++ [62] :: tokGo rest [] none) := by
  rw [seqSml_eq, List.append_assoc, tokGo_spaces]
  simp only [List.cons_append, List.nil_append, List.append_assoc]
  rw [tokGo_op (by decide) (by decide), flush_nil, tokGo_ws (by decide), flush_nil, tokGo_plain _ _ _ hty.2]
  simp only [List.nil_append]
  rw [tokGo_vals vals hv ty rest hty.1]

/-! ### strings -/

/-- tokens of the data part of a string item; the state is the quoted run being collected (`none`: the last character was
unprintable, or nothing was printed yet) -/
def strToks (pr : Nat → Bool) (dec : Nat → Nat) (code : Nat → Text) : List Nat → Option Text → List Text
  | [], none => []
  | [], some r => [34 :: r ++ [34]]
  | b :: bs, st =>
    if pr (dec b) then strToks pr dec code bs (some (st.getD [] ++ [dec b]))
    else (match st with | none => [] | some r => [34 :: r ++ [34]]) ++ code b :: strToks pr dec code bs none

theorem tok_strLoop (pr : Nat → Bool) (dec : Nat → Nat) (code : Nat → Text) (bs : List Nat)
    (hq : ∀ b ∈ bs, pr (dec b) = true → dec b ≠ 34)
    (hc : ∀ b ∈ bs, code b ≠ [] ∧ AllPlain (code b)) (rest : Text) :
    (∀ p : Text, tokGo (strLoop pr dec code bs false ++ 62 :: rest) p none
        = flush p ++ (strToks pr dec code bs none ++ [62] :: tokGo rest [] none))
    ∧ (∀ r : Text, tokGo (strLoop pr dec code bs true ++ 62 :: rest) (34 :: r) (some 34)
        = strToks pr dec code bs (some r) ++ [62] :: tokGo rest [] none) := by
  induction bs with
  | nil =>
    constructor
    · intro p
      simp only [strLoop, Bool.false_eq_true, if_false, List.nil_append, strToks]
      rw [tokGo_op (by decide) (by decide)]
    · intro r
      simp only [strLoop, if_true, List.cons_append, List.nil_append, strToks]
      rw [tokGo_in_eq, tokGo_op (by decide) (by decide), flush_nil]; rfl
  | cons b bs ih =>
    have ⟨ihU, ihP⟩ := ih (fun x hx => hq x (by simp [hx])) (fun x hx => hc x (by simp [hx]))
    by_cases hpr : pr (dec b) = true
    · have hne : dec b ≠ 34 := hq b (by simp) hpr
      constructor
      · intro p
        simp only [strLoop, hpr, if_true, Bool.false_eq_true, if_false, List.cons_append, List.nil_append, strToks, Option.getD_none]
        rw [tokGo_ws (by decide), tokGo_open (by decide) (by decide) (by decide), tokGo_in_ne hne]
        rw [show ([] ++ [34] ++ [dec b] : Text) = 34 :: [dec b] from rfl, ihP]
      · intro r
        simp only [strLoop, hpr, if_true, List.cons_append, List.nil_append, strToks, Option.getD_some]
        rw [tokGo_in_ne hne, show (34 :: r ++ [dec b] : Text) = 34 :: (r ++ [dec b]) from rfl, ihP]
    · have hpr' : pr (dec b) = false := by simpa using hpr
      have ⟨hc1, hc2⟩ := hc b (by simp)
      constructor
      · intro p
        simp only [strLoop, hpr', Bool.false_eq_true, if_false, List.cons_append, List.nil_append, List.append_assoc, strToks]
        rw [tokGo_ws (by decide), tokGo_plain _ _ _ hc2, List.nil_append, ihU, flush_ne hc1]
        rfl
      · intro r
        simp only [strLoop, hpr', Bool.false_eq_true, if_false, if_true, List.cons_append, List.nil_append, List.append_assoc, strToks]
        rw [tokGo_in_eq, tokGo_ws (by decide), flush_nil, List.nil_append, tokGo_plain _ _ _ hc2, List.nil_append, ihU, flush_ne hc1]
        rfl

theorem tok_str (ind : Nat) (ty : Text) (pr : Nat → Bool) (dec : Nat → Nat) (code : Nat → Text) (bs : List Nat)
    (hty : ty ≠ [] ∧ AllPlain ty)
    (hq : ∀ b ∈ bs, pr (dec b) = true → dec b ≠ 34)
    (hc : ∀ b ∈ bs, code b ≠ [] ∧ AllPlain (code b)) (rest : Text) :
    tokGo (strSml ind ty pr dec code bs ++ rest) [] none
      = [60] :: ty :: (strToks pr dec code bs none ++ [62] :: tokGo rest [] none) := by
  unfold strSml
  simp only [List.append_assoc]
  rw [tokGo_spaces]
  simp only [List.cons_append, List.nil_append]
  rw [tokGo_op (by decide) (by decide), flush_nil, tokGo_ws (by decide), flush_nil, tokGo_plain _ _ _ hty.2]
  simp only [List.nil_append]
  rw [(tok_strLoop pr dec code bs hq hc rest).1 ty, flush_ne hty.1]
  rfl

end SecsModel.Proofs.Sml
