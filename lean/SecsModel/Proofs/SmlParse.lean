import SecsModel.Proofs.SmlItem
/-!
# Proofs.SmlParse — the parser reads `toksOf d fmtF v` back to `v`
-/
namespace SecsModel.Proofs.Sml
open SecsModel.Model.Sml

theorem plain_ne_gt {t : Text} (h : AllPlain t) : t ≠ [62] := by
  intro e; subst e
  have := h 62 (by simp)
  simp [isPlain, isOp] at this

/-! ### leaf readers -/

theorem readNums_ok {α : Type} (base0 : Bool) (lo hi : Int) (fmt : α → Text) (val : α → Int) (rest : List Text) :
    ∀ (xs : List α), (∀ x ∈ xs, fmt x ≠ [62] ∧ pyInt base0 (fmt x) = some (val x) ∧ lo ≤ val x ∧ val x ≤ hi) →
      readNums base0 lo hi (xs.map fmt ++ [62] :: rest) = .ok (xs.map val, rest)
  | [], _ => by simp [readNums]
  | x :: xs, h => by
    have ⟨h1, h2, h3, h4⟩ := h x (by simp)
    have ih := readNums_ok base0 lo hi fmt val rest xs (fun y hy => h y (by simp [hy]))
    simp only [List.map_cons, List.cons_append, readNums, h1, if_false, h2, h3, h4, and_self, if_true, ih]

theorem readFlts_ok (parseF : Text → Option Nat) (fmtF : Nat → Text) (t : FltTy) (rest : List Text) :
    ∀ (xs : List Nat), (∀ x ∈ xs, fmtF x ≠ [62] ∧ parseF (fmtF x) = some x ∧ fltInBounds t x = true) →
      readFlts parseF t (xs.map fmtF ++ [62] :: rest) = .ok (xs, rest)
  | [], _ => by simp [readFlts]
  | x :: xs, h => by
    have ⟨h1, h2, h3⟩ := h x (by simp)
    have ih := readFlts_ok parseF fmtF t rest xs (fun y hy => h y (by simp [hy]))
    simp only [List.map_cons, List.cons_append, readFlts, h1, if_false, h2, h3, if_true, ih]

theorem dropWhile_quote_of_head {c : Nat} {r : Text} (h : c ≠ 34) : (c :: r).dropWhile (· == 34) = c :: r := by
  have : (c == 34) = false := by simpa using h
  simp [List.dropWhile, this]

theorem stripQ_quoted (r : Text) (h : ∀ c ∈ r, c ≠ 34) : stripQ (34 :: (r ++ [34])) = r := by
  unfold stripQ
  cases r with
  | nil => rfl
  | cons c r =>
    have h1 : ((34 :: ((c :: r) ++ [34])).dropWhile (· == 34)) = c :: r ++ [34] := by
      simp only [List.cons_append, List.dropWhile, beq_self_eq_true]
      have : (c == 34) = false := by simpa using h c (by simp)
      simp [this]
    rw [h1]
    have h2 : (c :: r ++ [34]).reverse = 34 :: (c :: r).reverse := by simp
    rw [h2]
    have h3 : (34 :: (c :: r).reverse).dropWhile (· == 34) = (c :: r).reverse := by
      simp only [List.dropWhile, beq_self_eq_true]
      cases hr : (c :: r).reverse with
      | nil => rfl
      | cons z zs =>
        have : z ≠ 34 := h z (by rw [← List.mem_reverse, hr]; simp)
        exact dropWhile_quote_of_head this
    rw [h3, List.reverse_reverse]

theorem encodeAll_append (enc : Nat → Option Nat) (a : Text) (c b : Nat) (as : List Nat)
    (h1 : encodeAll enc a = some as) (h2 : enc c = some b) : encodeAll enc (a ++ [c]) = some (as ++ [b]) := by
  induction a generalizing as with
  | nil =>
    simp only [encodeAll] at h1
    injection h1 with h1; subst h1
    simp [encodeAll, h2]
  | cons x a ih =>
    simp only [encodeAll] at h1
    cases hx : enc x with
    | none => simp [hx] at h1
    | some bx =>
      cases ha : encodeAll enc a with
      | none => simp [hx, ha] at h1
      | some ba =>
        simp only [hx, ha] at h1
        injection h1 with h1; subst h1
        simp only [List.cons_append, encodeAll, hx, ih ba ha]

/-- the reader over the tokens of a string body, from either tokenizer state -/
theorem readStr_ok (enc : Nat → Option Nat) (pr : Nat → Bool) (dec : Nat → Nat) (code : Nat → Text) (rest : List Text) :
    ∀ (bs : List Nat),
      (∀ b ∈ bs, b < 256 ∧ code b = hexLit b ∧ (pr (dec b) = true → dec b ≠ 34 ∧ enc (dec b) = some b)) →
      readStr enc (strToks pr dec code bs none ++ [62] :: rest) = .ok (bs, rest)
      ∧ ∀ (r : Text) (rb : List Nat), (∀ c ∈ r, c ≠ 34) → encodeAll enc r = some rb →
          readStr enc (strToks pr dec code bs (some r) ++ [62] :: rest) = .ok (rb ++ bs, rest)
  | [], _ => by
    constructor
    · simp [strToks, readStr]
    · intro r rb hr he
      have hne : (34 :: (r ++ [34])) ≠ [62] := by simp
      simp only [strToks, List.cons_append, List.nil_append, readStr, hne, if_false, List.head?_cons, if_true, stripQ_quoted r hr, he]
  | b :: bs, h => by
    have ⟨hb, hcode, hp⟩ := h b (by simp)
    have ⟨ihU, ihP⟩ := readStr_ok enc pr dec code rest bs (fun y hy => h y (by simp [hy]))
    have hhex : readStr enc (hexLit b :: (strToks pr dec code bs none ++ [62] :: rest)) = .ok (b :: bs, rest) := by
      have h1 : hexLit b ≠ [62] := plain_ne_gt (hexLit_plain b)
      have h2 : (hexLit b).head? ≠ some 34 := by rw [hexLit_head]; decide
      have h3 : (0 : Int) ≤ (b : Int) ∧ (b : Int) ≤ 255 := by omega
      simp only [readStr, h1, if_false, h2, pyInt_hexLit, h3, and_self, if_true, ihU, Int.toNat_natCast]
    by_cases hpr : pr (dec b) = true
    · have ⟨hq, he⟩ := hp hpr
      constructor
      · simp only [strToks, hpr, if_true, Option.getD_none, List.nil_append]
        have := ihP [dec b] [b] (by intro c hc; simp at hc; subst hc; exact hq) (by simp [encodeAll, he])
        simpa using this
      · intro r rb hr hre
        simp only [strToks, hpr, if_true, Option.getD_some]
        have := ihP (r ++ [dec b]) (rb ++ [b])
          (by intro c hc; simp only [List.mem_append, List.mem_singleton] at hc; rcases hc with hc | rfl; exact hr c hc; exact hq)
          (encodeAll_append enc r (dec b) b rb hre he)
        simpa using this
    · have hpr' : pr (dec b) = false := by simpa using hpr
      constructor
      · simp only [strToks, hpr', Bool.false_eq_true, if_false, List.nil_append, hcode, List.cons_append]
        exact hhex
      · intro r rb hr hre
        have hne : (34 :: (r ++ [34])) ≠ [62] := by simp
        simp only [strToks, hpr', Bool.false_eq_true, if_false, hcode, List.cons_append, List.nil_append,
          readStr, hne, List.head?_cons, if_true, stripQ_quoted r hr, hre]
        have := hhex
        simp only [readStr] at this
        simp only [this]

/-! ### type names -/

theorem typeOf_int (t : IntTy) : typeOf t.name = some (.int t) := by cases t <;> rfl
theorem typeOf_flt (t : FltTy) : typeOf t.name = some (.flt t) := by cases t <;> rfl
theorem typeOf_L : typeOf [76] = some .l := rfl
theorem typeOf_B : typeOf tyB = some .b := rfl
theorem typeOf_BOOLEAN : typeOf tyBOOLEAN = some .boolean := rfl
theorem typeOf_A : typeOf tyA = some .a := rfl
theorem typeOf_J : typeOf tyJ = some .j := rfl

/-! ### JIS-8 -/

theorem jisCode_safe (d : Defects) (bs : List Nat) (hs : safeItem d (Item.strJ bs) = true) :
    ∀ b ∈ bs, jisCode d b = hexLit b := by
  intro b hb
  simp only [safeItem, Bool.and_eq_true, Bool.or_eq_true, Bool.not_eq_true', List.all_eq_true, beq_iff_eq] at hs
  unfold jisCode
  rcases hs.2 with hj | hall
  · simp [hj]
  · rw [hall b hb]; simp

/-- a byte whose `jis_8` character is printable ASCII is that character, and encodes back to itself -/
theorem jisEncode_printable (d : Defects) (b : Nat) (hb : b < 256) (hp : isPrintable d (jisDecode b) = true) :
    jisEncode (jisDecode b) = some b := by
  have hp' : jisDecode b ≤ 126 := by
    unfold isPrintable at hp
    simp only [Bool.and_eq_true, Bool.or_eq_true, decide_eq_true_eq, beq_iff_eq] at hp
    omega
  unfold jisDecode at hp' ⊢
  by_cases h1 : b = 0x5C
  · simp [h1] at hp'
  · by_cases h2 : b = 0x7E
    · simp [h2] at hp'
    · by_cases h3 : 0xA1 ≤ b ∧ b < 0xE0
      · simp only [h1, h2, h3, if_false, and_self, if_true] at hp'; omega
      · simp only [h1, h2, h3, if_false]
        unfold jisEncode
        have e1 : b ≠ 0xA5 := by omega
        have e2 : b ≠ 0x203E := by omega
        have e3 : ¬ (0xFF61 ≤ b ∧ b ≤ 0xFF9F) := by omega
        simp [e1, e2, e3, hb, h1, h2, h3]

/-! ### items -/

theorem toksOf_head (d : Defects) (fmtF : Nat → Text) (v : Item) : ∃ tl, toksOf d fmtF v = [60] :: tl := by
  cases v with
  | list xs => unfold toksOf; split <;> exact ⟨_, rfl⟩
  | _ => exact ⟨_, by unfold toksOf; rfl⟩

theorem toksOf_length (d : Defects) (fmtF : Nat → Text) (v : Item) : 3 ≤ (toksOf d fmtF v).length := by
  cases v with
  | list xs => unfold toksOf; split <;> simp <;> omega
  | _ => unfold toksOf; simp

theorem readLoop_close (parseF : Text → Option Nat) (f : Nat) (r : List Text) :
    readLoop parseF (f + 1) ([62] :: r) = .ok ([], r) := by
  simp [readLoop, isCloser]

theorem readLoop_step (parseF : Text → Option Nat) (f : Nat) (tl r' r'' : List Text) (x : Item) (xs : List Item)
    (h1 : readItem parseF f ([60] :: tl) = .ok (x, r')) (h2 : readLoop parseF f r' = .ok (xs, r'')) :
    readLoop parseF (f + 1) ([60] :: tl) = .ok (x :: xs, r'') := by
  have : isCloser [60] = false := by decide
  simp [readLoop, this, h1, h2]

theorem lengthCheck_ok (n : Nat) : lengthCheck (some (decNat n)) n = .ok () := by
  simp [lengthCheck, pyInt_decNat]

mutual
theorem parse_item (d : Defects) (fmtF : Nat → Text) (parseF : Text → Option Nat) (hF : FloatLaws fmtF parseF) :
    ∀ (v : Item), v.valid = true → safeItem d v = true → ∀ (f : Nat) (rest : List Text), (toksOf d fmtF v).length ≤ f →
      readItem parseF f (toksOf d fmtF v ++ rest) = .ok (v, rest)
  | .list xs, hv, hs, f, rest, hf => by
    simp only [Item.valid] at hv
    simp only [safeItem] at hs
    obtain ⟨f', rfl⟩ : ∃ f', f = f' + 1 := ⟨f - 1, by have := toksOf_length d fmtF (.list xs); omega⟩
    cases hxs : xs with
    | nil =>
      obtain ⟨f'', rfl⟩ : ∃ f'', f' = f'' + 1 := ⟨f' - 1, by rw [hxs] at hf; simp [toksOf] at hf; omega⟩
      have h91 : ([62] : Text) ≠ [91] := by decide
      simp only [toksOf, List.isEmpty_nil, if_true, List.cons_append, List.nil_append, readItem, ne_eq, not_true, if_false,
        typeOf_L, readItems, h91, readLoop_close, mapOk]
    | cons y ys =>
      rw [← hxs]
      have hne : xs.isEmpty = false := by rw [hxs]; rfl
      have hlen : (toksOfList d fmtF xs).length + 1 ≤ f' := by
        simp only [toksOf, hne, Bool.false_eq_true, if_false, List.length_cons, List.length_append, List.length_nil] at hf
        omega
      have h93 : ¬ (([93] : Text) ≠ [93]) := by decide
      simp only [toksOf, hne, Bool.false_eq_true, if_false, List.cons_append, List.append_assoc, List.nil_append, readItem, ne_eq,
        not_true, if_true, typeOf_L, readItems]
      rw [parse_list d fmtF parseF hF xs hv hs f' rest hlen]
      simp only [lengthCheck_ok]
  | .bin bs, hv, _, f, rest, hf => by
    obtain ⟨f', rfl⟩ : ∃ f', f = f' + 1 := ⟨f - 1, by have := toksOf_length d fmtF (.bin bs); omega⟩
    simp only [Item.valid, List.all_eq_true, decide_eq_true_eq] at hv
    have := readNums_ok true 0 255 hexLit (fun b : Nat => (b : Int)) rest bs (by
      intro b hb
      exact ⟨plain_ne_gt (hexLit_plain b), pyInt_hexLit b, by omega, by have := hv b hb; omega⟩)
    simp only [toksOf, List.cons_append, List.append_assoc, List.nil_append, readItem, ne_eq, not_true, if_false, typeOf_B, readLeaf, this, mapOk]
    simp [Function.comp_def]
  | .bool vs, _, _, f, rest, hf => by
    obtain ⟨f', rfl⟩ : ∃ f', f = f' + 1 := ⟨f - 1, by have := toksOf_length d fmtF (.bool vs); omega⟩
    have := readNums_ok true 0 1 boolText (fun b : Bool => if b then (1 : Int) else 0) rest vs (by
      intro b _
      cases b
      · exact ⟨by decide, by decide, by decide, by decide⟩
      · exact ⟨by decide, by decide, by decide, by decide⟩)
    simp only [toksOf, List.cons_append, List.append_assoc, List.nil_append, readItem, ne_eq, not_true, if_false, typeOf_BOOLEAN, readLeaf, this, mapOk]
    have hmap : ∀ l : List Bool, (l.map (fun b : Bool => if b then (1 : Int) else 0)).map (· == 1) = l := by
      intro l
      induction l with
      | nil => rfl
      | cons b l ih => cases b <;> simp [ih]
    rw [hmap]
  | .strA bs, hv, hs, f, rest, hf => by
    obtain ⟨f', rfl⟩ : ∃ f', f = f' + 1 := ⟨f - 1, by have := toksOf_length d fmtF (.strA bs); omega⟩
    simp only [Item.valid, List.all_eq_true, decide_eq_true_eq] at hv
    have := (readStr_ok latin1Encode (isPrintable d) id hexLit rest bs (by
      intro b hb
      refine ⟨hv b hb, rfl, fun hp => ⟨strA_quote_ok d bs hs b hb hp, ?_⟩⟩
      simp [latin1Encode, hv b hb])).1
    simp only [toksOf, List.cons_append, List.append_assoc, List.nil_append, readItem, ne_eq, not_true, if_false, typeOf_A, readLeaf, this, mapOk]
  | .strJ bs, hv, hs, f, rest, hf => by
    obtain ⟨f', rfl⟩ : ∃ f', f = f' + 1 := ⟨f - 1, by have := toksOf_length d fmtF (.strJ bs); omega⟩
    simp only [Item.valid, List.all_eq_true, decide_eq_true_eq] at hv
    have := (readStr_ok jisEncode (isPrintable d) jisDecode (jisCode d) rest bs (by
      intro b hb
      refine ⟨hv b hb, jisCode_safe d bs hs b hb, fun hp => ⟨strJ_quote_ok d bs hs b hb hp, jisEncode_printable d b (hv b hb) hp⟩⟩)).1
    simp only [toksOf, List.cons_append, List.append_assoc, List.nil_append, readItem, ne_eq, not_true, if_false, typeOf_J, readLeaf, this, mapOk]
  | .int t vs, hv, _, f, rest, hf => by
    obtain ⟨f', rfl⟩ : ∃ f', f = f' + 1 := ⟨f - 1, by have := toksOf_length d fmtF (.int t vs); omega⟩
    simp only [Item.valid, List.all_eq_true, Bool.and_eq_true, decide_eq_true_eq] at hv
    have := readNums_ok false t.min t.max decInt id rest vs (by
      intro v hvv
      exact ⟨plain_ne_gt (decInt_plain v), pyInt_decInt v, (hv v hvv).1, (hv v hvv).2⟩)
    simp only [toksOf, List.cons_append, List.append_assoc, List.nil_append, readItem, ne_eq, not_true, if_false, typeOf_int, readLeaf, this, mapOk]
    simp
  | .flt t vs, hv, _, f, rest, hf => by
    obtain ⟨f', rfl⟩ : ∃ f', f = f' + 1 := ⟨f - 1, by have := toksOf_length d fmtF (.flt t vs); omega⟩
    simp only [Item.valid, List.all_eq_true, Bool.and_eq_true, decide_eq_true_eq] at hv
    have := readFlts_ok parseF fmtF t rest vs (by
      intro b hb
      have ⟨h1, h2⟩ := hv b hb
      have hfin : b % 2 ^ 63 ≤ 0x7FEFFFFFFFFFFFFF := by
        unfold fltInBounds at h2
        have : t.maxBits ≤ 0x7FEFFFFFFFFFFFFF := by cases t <;> decide
        simp only [decide_eq_true_eq] at h2
        omega
      exact ⟨plain_ne_gt (hF.plain b h1 hfin).2, hF.back b h1 hfin, h2⟩)
    simp only [toksOf, List.cons_append, List.append_assoc, List.nil_append, readItem, ne_eq, not_true, if_false, typeOf_flt, readLeaf, this, mapOk]
theorem parse_list (d : Defects) (fmtF : Nat → Text) (parseF : Text → Option Nat) (hF : FloatLaws fmtF parseF) :
    ∀ (xs : List Item), validList xs = true → safeList d xs = true → ∀ (f : Nat) (rest : List Text),
      (toksOfList d fmtF xs).length + 1 ≤ f →
      readLoop parseF f (toksOfList d fmtF xs ++ [62] :: rest) = .ok (xs, rest)
  | [], _, _, f, rest, hf => by
    obtain ⟨f', rfl⟩ : ∃ f', f = f' + 1 := ⟨f - 1, by omega⟩
    simp only [toksOfList, List.nil_append, readLoop_close]
  | x :: xs, hv, hs, f, rest, hf => by
    simp only [validList, Bool.and_eq_true] at hv
    simp only [safeList, Bool.and_eq_true] at hs
    obtain ⟨f', rfl⟩ : ∃ f', f = f' + 1 := ⟨f - 1, by omega⟩
    simp only [toksOfList, List.length_append] at hf
    have h3 := toksOf_length d fmtF x
    obtain ⟨tl, htl⟩ := toksOf_head d fmtF x
    have hitem := parse_item d fmtF parseF hF x hv.1 hs.1 f' (toksOfList d fmtF xs ++ [62] :: rest) (by omega)
    have hrest := parse_list d fmtF parseF hF xs hv.2 hs.2 f' rest (by omega)
    simp only [toksOfList, List.append_assoc]
    rw [htl] at hitem ⊢
    rw [List.cons_append] at hitem ⊢
    exact readLoop_step parseF f' _ _ _ x xs hitem hrest
end

end SecsModel.Proofs.Sml
