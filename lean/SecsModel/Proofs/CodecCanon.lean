import SecsModel.Proofs.CodecRound
/-! What the reference decoder yields is an accepted value in normal form with a canonical encoding
(so re-encoding erases the sender's choice of length bytes). -/
namespace SecsModel.Proofs.CodecCanon
open SecsModel SecsModel.Spec.E5 SecsModel.Model.Var SecsModel.Proofs.CodecElem SecsModel.Proofs.CodecSpec SecsModel.Proofs.CodecHeader
  SecsModel.Proofs.CodecVar SecsModel.Proofs.CodecVarDec SecsModel.Proofs.CodecRound

/-- a decoded (finite) element is one `set()` accepts and is its own normal form -/
theorem dec_elem_acc (t : Ty) (c : Bytes) (hl : c.length = t.width) (hab : AllBytes c) (hfin : finElem t (elemDec t c) = true) :
    accElem t (elemDec t c) = true ∧ normElem t (elemDec t c) = elemDec t c := by
  have hlt := ofBe_lt c hab
  rw [hl] at hlt
  generalize hk : t.kind = k
  cases k with
  | byte =>
    have ht : t = .b := by cases t <;> simp [Ty.kind] at hk <;> rfl
    subst ht
    refine ⟨?_, normElem_of_ne_f4 _ _ (by decide)⟩
    simp only [accElem, Ty.kind, elemDec]
    exact decide_eq_true (by simp only [Ty.width] at hlt; omega)
  | bool =>
    have ht : t = .bool := by cases t <;> simp [Ty.kind] at hk <;> rfl
    subst ht
    refine ⟨?_, normElem_of_ne_f4 _ _ (by decide)⟩
    simp only [accElem, Ty.kind, elemDec]
    split <;> decide
  | char =>
    have ht : t = .a := by cases t <;> simp [Ty.kind] at hk <;> rfl
    subst ht
    refine ⟨?_, normElem_of_ne_f4 _ _ (by decide)⟩
    have c1 : (0 : Int) ≤ ((ofBe c : Nat) : Int) ∧ ((ofBe c : Nat) : Int) < 256 := by simp only [Ty.width] at hlt; omega
    simp only [accElem, Ty.kind, elemDec, string_coding, encodeChar, c1, and_self, if_true]
  | jis =>
    have ht : t = .j := by cases t <;> simp [Ty.kind] at hk <;> rfl
    subst ht
    refine ⟨?_, normElem_of_ne_f4 _ _ (by decide)⟩
    have hb : ofBe c < 256 := by simp only [Ty.width] at hlt; omega
    simp only [accElem, Ty.kind, elemDec, jis8_coding, encodeChar, jisEncode_eq, jisByte_jisChar _ hb]
  | sint =>
    have hne : t ≠ .f4 := by intro e; subst e; simp [Ty.kind] at hk
    refine ⟨?_, normElem_of_ne_f4 _ _ hne⟩
    simp only [accElem, hk, dec_inrange t (by simp [hk]) c hl hab hfin, Bool.not_false]
  | uint =>
    have hne : t ≠ .f4 := by intro e; subst e; simp [Ty.kind] at hk
    refine ⟨?_, normElem_of_ne_f4 _ _ hne⟩
    simp only [accElem, hk, dec_inrange t (by simp [hk]) c hl hab hfin, Bool.not_false]
  | f64 =>
    have ht : t = .f8 := by cases t <;> simp [Ty.kind] at hk <;> rfl
    subst ht
    refine ⟨?_, normElem_of_ne_f4 _ _ (by decide)⟩
    have hr := dec_inrange .f8 (by simp [Ty.kind]) c hl hab hfin
    simp only [accElem, Ty.kind, hr, Bool.not_false, Bool.and_true]
    simp only [elemDec, Ty.kind]
    exact decide_eq_true (by simp only [Ty.width] at hlt; omega)
  | f32 =>
    have ht := f32_is_f4 t hk
    subst ht
    have hr := dec_inrange .f4 (by simp [Ty.kind]) c hl hab hfin
    have hfin' : IEEE.isFinite64 (IEEE.widen (ofBe c)) = true := by simpa [finElem, Ty.kind, elemDec] using hfin
    have hfin32 := widen_finite _ hfin'
    obtain ⟨hlt64, _⟩ := IEEE.widen_le_max (ofBe c) hfin32
    refine ⟨?_, ?_⟩
    · simp only [accElem, Ty.kind, hr, Bool.not_false, Bool.and_true]
      simp only [elemDec, Ty.kind]
      exact decide_eq_true (by omega)
    · simp only [normElem, elemDec, Ty.kind, Int.toNat_natCast]
      rw [IEEE.round32_widen (ofBe c) (by simp only [Ty.width] at hlt; omega) hfin32]

/-- statement for one item -/
def Q1 (f : Nat) : Prop := ∀ (bs : Bytes) (v : Val) (r : Bytes), decItem f bs = some (v, r) → AllBytes bs → v.Finite →
  Accepted v ∧ norm v = v ∧ ∃ cs, Spec.E5.encode v = .ok cs
def Q2 (f : Nat) : Prop := ∀ (n : Nat) (bs : Bytes) (xs : List Val) (r : Bytes), decList f n bs = some (xs, r) → AllBytes bs → FiniteList xs →
  AcceptedList xs ∧ normList xs = xs ∧ (∃ cs, Spec.E5.encodeList xs = .ok cs) ∧ xs.length = n

theorem len_bound {bs r0 : Bytes} {code len : Nat} (h : Spec.E5.decHeader bs = some (code, len, r0)) (hab : AllBytes bs) : len ≤ 0xFFFFFF := by
  obtain ⟨fb, lb, hbs, _, _, hl, _, hlen⟩ := specHeader_suffix h
  subst hbs
  have hlb : AllBytes lb := fun x hx => hab x (by simp [hx])
  have := ofBe_lt lb hlb
  have h3 : lb.length ≤ 3 := by omega
  have : 256 ^ lb.length ≤ 256 ^ 3 := Nat.pow_le_pow_right (by decide) h3
  omega

theorem header_succeeds (code len : Nat) (h : len ≤ 0xFFFFFF) : ∃ hd, header code len = .ok hd := by
  simp only [header]
  have : ¬ (0xFFFFFF < len) := by omega
  rw [if_neg this]; exact ⟨_, rfl⟩

theorem q1_step (f : Nat) (h2 : Q2 f) : Q1 (f + 1) := by
  intro bs v r h hab hfin
  simp only [decItem] at h
  split at h
  · simp at h
  · rename_i code len r0 hh
    have hlen := len_bound hh hab
    obtain ⟨fb, lb, hbs, _, _, _, _, _⟩ := specHeader_suffix hh
    have habr0 : AllBytes r0 := by
      subst hbs
      exact fun x hx => hab x (by simp [hx])
    split at h
    · split at h
      · simp at h
      · rename_i xs r' hd
        injection h with h; injection h with e1 e2; subst e1; subst e2
        simp only [Val.Finite] at hfin
        obtain ⟨a1, a2, ⟨cs, a3⟩, a4⟩ := h2 len r0 xs r' hd habr0 hfin
        obtain ⟨hd', hh'⟩ := header_succeeds 0 xs.length (by omega)
        exact ⟨by simpa [Accepted] using a1, by simp only [norm, a2], ⟨hd' ++ cs, by simp only [Spec.E5.encode, hh', a3]⟩⟩
    · split at h
      · simp at h
      · rename_i t hof
        split at h
        · simp at h
        · rename_i hm
          have hm : len % t.width = 0 := by simpa using hm
          split at h
          · simp at h
          · rename_i p r' ht
            injection h with h; injection h with e1 e2; subst e1; subst e2
            simp only [Val.Finite] at hfin
            obtain ⟨e1, e2⟩ := takeN_some ht
            have habp : AllBytes p := by rw [e1] at habr0; exact allBytes_of_append_left habr0
            have hnw : len / t.width * t.width = len := Nat.div_mul_cancel (Nat.dvd_of_mod_eq_zero hm)
            have hall : ∀ e ∈ (chunksN t.width (len / t.width) p).map (elemDec t), accElem t e = true ∧ normElem t e = e := by
              intro e he
              obtain ⟨ch, hch1, rfl⟩ := List.mem_map.mp he
              obtain ⟨l1, l2⟩ := chunksN_mem t.width _ p (by rw [hnw, e2]; exact Nat.le_refl _) habp ch hch1
              exact dec_elem_acc t ch l1 l2 (hfin _ he)
            have hacc : ∀ e ∈ (chunksN t.width (len / t.width) p).map (elemDec t), accElem t e = true := fun e he => (hall e he).1
            obtain ⟨q, hq⟩ := encElems_ok t _ hacc
            have hql := encElems_length t _ q hq
            rw [List.length_map, chunksN_length, hnw] at hql
            obtain ⟨hd', hh'⟩ := header_succeeds t.code q.length (by omega)
            refine ⟨by simpa [Accepted] using hacc, ?_, ⟨hd' ++ q, by simp only [Spec.E5.encode, hq, hh']⟩⟩
            simp only [norm]
            have : ((chunksN t.width (len / t.width) p).map (elemDec t)).map (normElem t) = ((chunksN t.width (len / t.width) p).map (elemDec t)).map id :=
              List.map_congr_left (fun e he => (hall e he).2)
            rw [this, List.map_id]

theorem q2_step (f : Nat) (h1 : Q1 f) (h2 : Q2 f) : Q2 (f + 1) := by
  intro n bs xs r h hab hfin
  match n with
  | 0 =>
    simp only [decList] at h; injection h with h; injection h with e1 e2; subst e1; subst e2
    exact ⟨by simp [AcceptedList], rfl, ⟨[], rfl⟩, rfl⟩
  | n+1 =>
    simp only [decList] at h
    split at h
    · simp at h
    · rename_i x r1 hx
      split at h
      · simp at h
      · rename_i ys r2 hys
        injection h with h; injection h with e1 e2; subst e1; subst e2
        simp only [FiniteList] at hfin
        obtain ⟨p1, hp1, _⟩ := decItem_suffix f bs x r1 hx
        have hab1 : AllBytes r1 := by rw [hp1] at hab; exact allBytes_of_append_right hab
        obtain ⟨a1, a2, ⟨c1, a3⟩⟩ := h1 bs x r1 hx hab hfin.1
        obtain ⟨b1, b2, ⟨c2, b3⟩, b4⟩ := h2 n r1 ys r2 hys hab1 hfin.2
        exact ⟨⟨a1, b1⟩, by simp only [normList, a2, b2], ⟨c1 ++ c2, by simp only [Spec.E5.encodeList, a3, b3]⟩, by simp [b4]⟩

theorem all_Q : ∀ f, Q1 f ∧ Q2 f
  | 0 => by
    refine ⟨?_, ?_⟩
    · intro bs v r h; simp [decItem] at h
    · intro n bs xs r h hab hfin
      match n with
      | 0 =>
        simp only [decList] at h; injection h with h; injection h with e1 e2; subst e1; subst e2
        exact ⟨by simp [AcceptedList], rfl, ⟨[], rfl⟩, rfl⟩
      | n+1 => simp [decList] at h
  | f+1 => by
    obtain ⟨h1, h2⟩ := all_Q f
    exact ⟨q1_step f h2, q2_step f h1 h2⟩

/-- everything the reference decoder yields (finite floats) is an accepted value, its own normal form, and encodable -/
theorem decoded_canonical (bs : Bytes) (v : Val) (rest : Bytes) (h : decodeAny bs = some (v, rest)) (hab : AllBytes bs) (hfin : v.Finite) :
    Accepted v ∧ norm v = v ∧ ∃ cs, Spec.E5.encode v = .ok cs :=
  (all_Q _).1 bs v rest h hab hfin

end SecsModel.Proofs.CodecCanon
