import SecsModel.Proofs.CodecElem
/-! The reference decoder inverts the canonical encoder (mutual structural induction over the value tree, any nesting). -/
namespace SecsModel.Proofs.CodecSpec
open SecsModel SecsModel.Spec.E5 SecsModel.Proofs.CodecElem

theorem takeN_append (a b : Bytes) : takeN a.length (a ++ b) = some (a, b) := by
  simp [takeN]

theorem takeN_some {n : Nat} {bs p r : Bytes} (h : takeN n bs = some (p, r)) : bs = p ++ r ∧ p.length = n := by
  simp only [takeN] at h
  split at h
  · simp at h
  · rename_i hl
    injection h with h
    injection h with h1 h2
    subst h1; subst h2
    refine ⟨(List.take_append_drop n bs).symm, ?_⟩
    rw [List.length_take]; omega

theorem chunksN_append (w : Nat) : ∀ (n : Nat) (p rest : Bytes), p.length = n * w → chunksN w n (p ++ rest) = chunksN w n p
  | 0, _, _, _ => rfl
  | n+1, p, rest, h => by
    have hw : w ≤ p.length := by rw [h, Nat.succ_mul]; omega
    simp only [chunksN]
    rw [List.take_append_of_le_length hw, List.drop_append_of_le_length hw]
    rw [chunksN_append w n (p.drop w) rest (by rw [List.length_drop, h, Nat.succ_mul]; omega)]

/-- encoding a list of elements: total length, bytes, and element-wise decoding of the chunks -/
theorem encElems_spec (t : Ty) : ∀ (es : List Int) (p : Bytes), encElems t es = .ok p →
    p.length = es.length * t.width ∧ AllBytes p ∧ (chunksN t.width es.length p).map (elemDec t) = es.map (normElem t)
  | [], p, h => by
    simp only [encElems] at h; injection h with h; subst h
    exact ⟨by simp, allBytes_nil, rfl⟩
  | e :: es, p, h => by
    simp only [encElems] at h
    split at h
    · simp at h
    · rename_i b hb
      split at h
      · simp at h
      · rename_i r hr
        injection h with h; subst h
        obtain ⟨hl, hab, hd⟩ := elem_roundtrip t e b hb
        obtain ⟨ihl, ihab, ihd⟩ := encElems_spec t es r hr
        refine ⟨?_, allBytes_append hab ihab, ?_⟩
        · rw [List.length_append, hl, ihl, List.length_cons, Nat.succ_mul]; omega
        · simp only [List.length_cons, chunksN, List.map_cons]
          have hle : t.width ≤ b.length := by omega
          rw [List.take_append_of_le_length hle, List.drop_append_of_le_length hle]
          have e1 : b.take t.width = b := by rw [← hl]; exact List.take_length
          have e2 : b.drop t.width = [] := by rw [← hl]; exact List.drop_length
          rw [e1, e2, List.nil_append, hd, ihd]

theorem header_ok {code len : Nat} {h : Bytes} (hh : header code len = .ok h) :
    len ≤ 0xFFFFFF ∧ h = (code * 4 + nlbOf len) :: be (nlbOf len) len := by
  simp only [header] at hh
  split at hh
  · simp at hh
  · injection hh with hh; exact ⟨by omega, hh.symm⟩

theorem nlbOf_range (len : Nat) : 1 ≤ nlbOf len ∧ nlbOf len ≤ 3 := by
  simp only [nlbOf]; split
  · omega
  · split <;> omega

theorem len_lt_pow (len : Nat) (h : len ≤ 0xFFFFFF) : len < 256 ^ nlbOf len := by
  simp only [nlbOf]; split
  · omega
  · split <;> omega

/-- the reference header parser reads back a canonical header -/
theorem decHeader_header (code len : Nat) (rest : Bytes) (hc : code < 64) (hl : len ≤ 0xFFFFFF) :
    decHeader ((code * 4 + nlbOf len) :: be (nlbOf len) len ++ rest) = some (code, len, rest) := by
  obtain ⟨n1, n3⟩ := nlbOf_range len
  have h3 : (code * 4 + nlbOf len) % 4 = nlbOf len := by omega
  have h4 : (code * 4 + nlbOf len) / 4 = code := by omega
  have c : ¬ (256 ≤ code * 4 + nlbOf len ∨ (code * 4 + nlbOf len) % 4 = 0) := by omega
  simp only [List.cons_append, decHeader]
  rw [if_neg c, h3]
  have := takeN_append (be (nlbOf len) len) rest
  rw [be_length] at this
  rw [this]
  simp only [h4, ofBe_be_of_lt _ _ (len_lt_pow len hl)]

theorem ofCode_code (t : Ty) : Ty.ofCode t.code = some t := by cases t <;> rfl
theorem code_lt (t : Ty) : t.code < 64 ∧ t.code ≠ 0 := by cases t <;> decide

theorem size_pos (v : Val) : 1 ≤ v.size := by cases v <;> simp [Val.size]

mutual
/-- **decodeAny ∘ encode** (fuel form): the reference decoder returns the normalised value and exactly the bytes after the item -/
theorem dec_enc (v : Val) (bs : Bytes) (he : encode v = .ok bs) (f : Nat) (hf : v.size ≤ f) (rest : Bytes) :
    decItem f (bs ++ rest) = some (norm v, rest) := by
  match v, f with
  | v, 0 => have := size_pos v; omega
  | .item t es, f+1 =>
    simp only [encode] at he
    split at he
    · simp at he
    · rename_i p hp
      split at he
      · simp at he
      · rename_i h hh
        injection he with he; subst he
        obtain ⟨hlen, hhd⟩ := header_ok hh
        subst hhd
        obtain ⟨pl, pab, pd⟩ := encElems_spec t es p hp
        obtain ⟨c1, c2⟩ := code_lt t
        simp only [decItem, List.append_assoc]
        rw [decHeader_header t.code p.length (p ++ rest) c1 hlen]
        simp only [c2, if_false, ofCode_code]
        have hw := width_pos t
        have hmod : p.length % t.width = 0 := by rw [pl]; exact Nat.mul_mod_left _ _
        have hdiv : p.length / t.width = es.length := by rw [pl]; exact Nat.mul_div_cancel _ hw
        simp only [hmod, ne_eq, not_true_eq_false, if_false, takeN_append, hdiv, pd, norm]
  | .list xs, f+1 =>
    simp only [encode] at he
    split at he
    · simp at he
    · rename_i h hh
      split at he
      · simp at he
      · rename_i p hp
        injection he with he; subst he
        obtain ⟨hlen, hhd⟩ := header_ok hh
        subst hhd
        simp only [Val.size] at hf
        simp only [decItem, List.append_assoc]
        rw [decHeader_header 0 xs.length (p ++ rest) (by omega) hlen]
        simp only [if_true, decList_enc xs p hp f (by omega) rest, norm]
theorem decList_enc (xs : List Val) (bs : Bytes) (he : encodeList xs = .ok bs) (f : Nat) (hf : sizeList xs ≤ f) (rest : Bytes) :
    decList f xs.length (bs ++ rest) = some (normList xs, rest) := by
  match xs, f with
  | [], f =>
    simp only [encodeList] at he; injection he with he; subst he
    cases f <;> simp [decList, normList]
  | x :: xs, 0 =>
    simp only [sizeList] at hf
    have := size_pos x; omega
  | x :: xs, f+1 =>
    simp only [encodeList] at he
    split at he
    · simp at he
    · rename_i a ha
      split at he
      · simp at he
      · rename_i b hb
        injection he with he; subst he
        simp only [sizeList] at hf
        simp only [List.length_cons, decList, List.append_assoc]
        rw [dec_enc x a ha f (by omega) (b ++ rest)]
        simp only [decList_enc xs b hb f (by omega) rest, normList]
end

mutual
/-- the encoding is longer than the size measure (so `decodeAny`'s fuel always suffices) -/
theorem size_le (v : Val) (bs : Bytes) (he : encode v = .ok bs) : v.size + 1 ≤ bs.length := by
  match v with
  | .item t es =>
    simp only [encode] at he
    split at he
    · simp at he
    · rename_i p hp
      split at he
      · simp at he
      · rename_i h hh
        injection he with he; subst he
        obtain ⟨_, hhd⟩ := header_ok hh
        subst hhd
        have := (nlbOf_range p.length).1
        simp only [Val.size, List.length_append, List.length_cons, be_length]
        omega
  | .list xs =>
    simp only [encode] at he
    split at he
    · simp at he
    · rename_i h hh
      split at he
      · simp at he
      · rename_i p hp
        injection he with he; subst he
        obtain ⟨_, hhd⟩ := header_ok hh
        subst hhd
        have := sizeList_le xs p hp
        have n := nlbOf_range xs.length
        simp only [Val.size, List.length_append, List.length_cons, be_length]
        omega
theorem sizeList_le (xs : List Val) (bs : Bytes) (he : encodeList xs = .ok bs) : sizeList xs ≤ bs.length := by
  match xs with
  | [] => simp [sizeList]
  | x :: xs =>
    simp only [encodeList] at he
    split at he
    · simp at he
    · rename_i a ha
      split at he
      · simp at he
      · rename_i b hb
        injection he with he; subst he
        have h1 := size_le x a ha
        have h2 := sizeList_le xs b hb
        simp only [sizeList, List.length_append]
        omega
end

/-- **C02_spec_sound**: the reference decoder accepts every canonical encoding, with the normalised value and nothing consumed beyond it -/
theorem spec_sound (v : Val) (bs rest : Bytes) (he : encode v = .ok bs) :
    decodeAny (bs ++ rest) = some (norm v, rest) := by
  have := size_le v bs he
  exact dec_enc v bs he _ (by rw [List.length_append]; omega) rest

end SecsModel.Proofs.CodecSpec
