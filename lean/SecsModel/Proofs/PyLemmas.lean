import SecsModel.Basic.Py
/-! Lemmas that normalise the translated bit manipulations to `/`, `%`, `*` on `Nat`. -/
namespace SecsModel.Py
open SecsModel

theorem band_ofNat (a : Nat) (b : Nat) : band (a : Int) (OfNat.ofNat b) = ((a &&& b : Nat) : Int) := by
  have : (OfNat.ofNat b : Int) = ((b : Nat) : Int) := rfl
  rw [this, band_nat]

theorem bor_ofNat (a : Nat) (b : Nat) : bor (a : Int) (OfNat.ofNat b) = ((a ||| b : Nat) : Int) := by
  have : (OfNat.ofNat b : Int) = ((b : Nat) : Int) := rfl
  rw [this, bor_nat]

theorem shr_ofNat (a : Nat) (b : Nat) : shr (a : Int) (OfNat.ofNat b) = ((a >>> b : Nat) : Int) := by
  have : (OfNat.ofNat b : Int) = ((b : Nat) : Int) := rfl
  rw [this, shr_nat]

theorem shl_ofNat (a : Nat) (b : Nat) : shl (a : Int) (OfNat.ofNat b) = ((a <<< b : Nat) : Int) := by
  have : (OfNat.ofNat b : Int) = ((b : Nat) : Int) := rfl
  rw [this, shl_nat]

/-- `x & (2^k - 1) = x % 2^k` -/
theorem and_mask (x k : Nat) : x &&& (2^k - 1) = x % 2^k := Nat.and_two_pow_sub_one_eq_mod x k

/-- `(x & (m <<< s)) >>> s = (x >>> s) & m` -/
theorem and_shl_shr (x m s : Nat) : (x &&& (m <<< s)) >>> s = (x >>> s) &&& m := by
  rw [Nat.shiftRight_and_distrib, Nat.shiftLeft_shiftRight]

theorem or_pow_of_lt (x k : Nat) (h : x < 2^k) : x ||| 2^k = x + 2^k := by
  have := Nat.shiftLeft_add_eq_or_of_lt h 1
  simp [Nat.shiftLeft_eq] at this
  rw [Nat.or_comm, ← this]; omega

end SecsModel.Py

namespace SecsModel.Py
open SecsModel

theorem packBE_length : ∀ (fs : List (Nat × Int)) (bs : Bytes), packBE fs = .ok bs → bs.length = (fs.map (·.1)).sum
  | [], bs, h => by simp [packBE] at h; subst h; rfl
  | (w, v) :: rest, bs, h => by
    simp only [packBE] at h
    split at h
    · split at h
      · rename_i r hr
        injection h with h; subst h
        simp [packBE_length rest r hr]
      · simp at h
    · simp at h

theorem packBE_allBytes : ∀ (fs : List (Nat × Int)) (bs : Bytes), packBE fs = .ok bs → AllBytes bs
  | [], bs, h => by simp [packBE] at h; subst h; intro b hb; simp at hb
  | (w, v) :: rest, bs, h => by
    simp only [packBE] at h
    split at h
    · split at h
      · rename_i r hr
        injection h with h; subst h
        intro b hb
        rcases List.mem_append.mp hb with hb | hb
        · exact be_allBytes _ _ b hb
        · exact packBE_allBytes rest r hr b hb
      · simp at h
    · simp at h

theorem unpackFields_packBE : ∀ (fs : List (Nat × Int)) (bs : Bytes), packBE fs = .ok bs →
    unpackFields (fs.map (·.1)) bs = fs.map (·.2)
  | [], bs, h => by simp [unpackFields]
  | (w, v) :: rest, bs, h => by
    simp only [packBE] at h
    split at h
    · rename_i hv
      split at h
      · rename_i r hr
        injection h with h; subst h
        have ih := unpackFields_packBE rest r hr
        simp only [List.map_cons, unpackFields]
        have hl : (be w v.toNat).length = w := be_length _ _
        rw [List.take_left' hl, List.drop_left' hl, ih]
        congr 1
        have h0 : 0 ≤ v := hv.1
        have hlt : v.toNat < 256 ^ w := by
          have h2 : v < ((256 ^ w : Nat) : Int) := by have := hv.2; simpa using this
          omega
        rw [ofBe_be_of_lt _ _ hlt]
        omega
      · simp at h
    · simp at h

theorem unpackBE_packBE (fs : List (Nat × Int)) (bs : Bytes) (h : packBE fs = .ok bs) :
    unpackBE (fs.map (·.1)) bs = .ok (fs.map (·.2)) := by
  simp [unpackBE, packBE_length fs bs h, unpackFields_packBE fs bs h]

end SecsModel.Py

namespace SecsModel.Py
open SecsModel

theorem packBE_cons_nat (w n : Nat) (rest : List (Nat × Int)) (r : Bytes) (h1 : n < 256 ^ w)
    (hr : packBE rest = .ok r) : packBE ((w, (n : Int)) :: rest) = .ok (be w n ++ r) := by
  have c : (0 : Int) ≤ (n : Int) ∧ (n : Int) < 256 ^ w := by
    refine ⟨Int.natCast_nonneg n, ?_⟩
    have : ((n : Nat) : Int) < ((256 ^ w : Nat) : Int) := Int.ofNat_lt.mpr h1
    simpa using this
  simp only [packBE, c, and_self, if_true, hr, Int.toNat_natCast]

theorem bor_lit (a b : Nat) : bor (a : Int) ((b : Nat) : Int) = ((a ||| b : Nat) : Int) := bor_nat a b
theorem band_lit (a b : Nat) : band (a : Int) ((b : Nat) : Int) = ((a &&& b : Nat) : Int) := band_nat a b

end SecsModel.Py
