import SecsModel.Proofs.SmlTotal
/-!
# Proofs.SmlReject — what the parser can accept: brackets of the consumed tokens are balanced, every `<` is followed by a known
type name
-/
namespace SecsModel.Proofs.Sml
open SecsModel.Model.Sml

/-- neither `<` nor a list terminator -/
def neutral (t : Text) : Bool := !(t == [60]) && !isCloser t

/-- the token after a `<` is a known type name (case-insensitively, as `typeOf` decides) -/
def knownHead : List Text → Bool
  | [] => false
  | ty :: _ => (typeOf ty).isSome

/-- Scan `ts` starting inside `d` open brackets (`<` opens and must be followed by a known type name, a closer — `>` or `.` —
closes, everything else is neutral): true iff the depth reaches 0 for the first time exactly at the last token. -/
def closesExactly : Nat → List Text → Bool
  | _, [] => false
  | d, t :: ts =>
    if t = [60] then knownHead ts && closesExactly (d + 1) ts
    else if isCloser t then (if d ≤ 1 then (d == 1 && ts.isEmpty) else closesExactly (d - 1) ts)
    else closesExactly d ts

/-- a token sequence that opens with `<` + known type name and whose brackets close exactly at its end, every inner `<` being
followed by a known type name too -/
def balancedItem : List Text → Bool
  | [] => false
  | t :: ts => t == [60] && knownHead ts && closesExactly 1 ts

theorem knownHead_append (a b : List Text) (h : knownHead a = true) : knownHead (a ++ b) = true := by
  cases a with
  | nil => simp [knownHead] at h
  | cons t a => simpa [knownHead] using h

theorem closesExactly_append (a b : List Text) : ∀ (j k : Nat), 1 ≤ j → 1 ≤ k → closesExactly j a = true →
    closesExactly (j + k) (a ++ b) = closesExactly k b := by
  induction a with
  | nil => intro j k _ _ h; simp [closesExactly] at h
  | cons t a ih =>
    intro j k hj hk h
    simp only [closesExactly] at h
    simp only [List.cons_append, closesExactly]
    by_cases h60 : t = [60]
    · simp only [h60, if_true, Bool.and_eq_true] at h ⊢
      rw [knownHead_append a b h.1, Bool.true_and]
      rw [show j + k + 1 = (j + 1) + k by omega]
      exact ih (j + 1) k (by omega) hk h.2
    · simp only [h60, if_false] at h ⊢
      by_cases hc : isCloser t = true
      · simp only [hc, if_true] at h ⊢
        by_cases hj1 : j ≤ 1
        · simp only [hj1, if_true, Bool.and_eq_true, beq_iff_eq, List.isEmpty_iff] at h
          obtain ⟨hj', ha⟩ := h
          subst ha; subst hj'
          have : ¬ (1 + k ≤ 1) := by omega
          simp only [this, if_false, List.nil_append]
          rw [show 1 + k - 1 = k by omega]
        · simp only [hj1, if_false] at h
          have : ¬ (j + k ≤ 1) := by omega
          simp only [this, if_false]
          rw [show j + k - 1 = (j - 1) + k by omega]
          exact ih (j - 1) k (by omega) hk h
      · simp only [hc, Bool.false_eq_true, if_false] at h ⊢
        exact ih j k hj hk h

theorem closesExactly_neutrals (body : List Text) (h : ∀ t ∈ body, neutral t = true) :
    closesExactly 1 (body ++ [[62]]) = true := by
  induction body with
  | nil => decide
  | cons t body ih =>
    have ht := h t (by simp)
    simp only [neutral, Bool.and_eq_true, Bool.not_eq_true', beq_eq_false_iff_ne, ne_eq] at ht
    simp only [List.cons_append, closesExactly, ht.1, if_false, ht.2, Bool.false_eq_true]
    exact ih (fun x hx => h x (by simp [hx]))

/-! ### tokens that a value reader accepted are neutral -/

theorem pyInt_neutral (base0 : Bool) (t : Text) (v : Int) (h : pyInt base0 t = some v) : neutral t = true := by
  unfold neutral isCloser
  by_cases h1 : t = [60]
  · subst h1; cases base0 <;> simp [pyInt, stripWs, isPyWs, pyNat, digitsGo, digitVal] at h
  · by_cases h2 : t = [62]
    · subst h2; cases base0 <;> simp [pyInt, stripWs, isPyWs, pyNat, digitsGo, digitVal] at h
    · by_cases h3 : t = [46]
      · subst h3; cases base0 <;> simp [pyInt, stripWs, isPyWs, pyNat, digitsGo, digitVal] at h
      · by_cases h4 : t = []
        · subst h4; cases base0 <;> simp [pyInt, stripWs, pyNat, digitsGo] at h
        · by_cases h5 : t = [62, 46]
          · subst h5; cases base0 <;> simp [pyInt, stripWs, isPyWs, pyNat, digitsGo, digitVal] at h
          · simp [h1, h2, h3, h4, h5]

theorem quoted_neutral (t : Text) (h : t.head? = some 34) : neutral t = true := by
  cases t with
  | nil => simp at h
  | cons c r =>
    simp only [List.head?_cons, Option.some.injEq] at h
    subst h
    simp [neutral, isCloser]

theorem typeOf_neutral (ty : Text) (k : Ty) (h : typeOf ty = some k) : neutral ty = true := by
  have n1 : typeOf [60] = none := by decide
  have n2 : typeOf [62] = none := by decide
  have n3 : typeOf [46] = none := by decide
  have n4 : typeOf [] = none := by decide
  have n5 : typeOf [62, 46] = none := by decide
  unfold neutral isCloser
  by_cases h1 : ty = [60]
  · subst h1; rw [n1] at h; cases h
  · by_cases h2 : ty = [62]
    · subst h2; rw [n2] at h; cases h
    · by_cases h3 : ty = [46]
      · subst h3; rw [n3] at h; cases h
      · by_cases h4 : ty = []
        · subst h4; rw [n4] at h; cases h
        · by_cases h5 : ty = [62, 46]
          · subst h5; rw [n5] at h; cases h
          · simp [h1, h2, h3, h4, h5]

/-- what `float()` is assumed never to accept: `<` and the list terminators -/
def FloatRejectsBrackets (parseF : Text → Option Nat) : Prop :=
  parseF [60] = none ∧ parseF [62] = none ∧ parseF [46] = none ∧ parseF [] = none ∧ parseF [62, 46] = none

theorem parseF_neutral (parseF : Text → Option Nat) (hP : FloatRejectsBrackets parseF) (t : Text) (b : Nat)
    (h : parseF t = some b) : neutral t = true := by
  obtain ⟨p1, p2, p3, p4, p5⟩ := hP
  unfold neutral isCloser
  by_cases h1 : t = [60]
  · subst h1; rw [p1] at h; cases h
  · by_cases h2 : t = [62]
    · subst h2; rw [p2] at h; cases h
    · by_cases h3 : t = [46]
      · subst h3; rw [p3] at h; cases h
      · by_cases h4 : t = []
        · subst h4; rw [p4] at h; cases h
        · by_cases h5 : t = [62, 46]
          · subst h5; rw [p5] at h; cases h
          · simp [h1, h2, h3, h4, h5]

/-- a value reader that succeeded consumed neutral tokens and then `>` -/
def LeafShape {α : Type} (ts : List Text) (res : Except PErr (α × List Text)) : Prop :=
  ∀ v r, res = .ok (v, r) → ∃ body, ts = body ++ [62] :: r ∧ ∀ t ∈ body, neutral t = true

theorem readNums_shape (base0 : Bool) (lo hi : Int) : ∀ ts, LeafShape ts (readNums base0 lo hi ts)
  | [] => by intro v r h; simp [readNums] at h
  | t :: ts => by
    intro v r h
    unfold readNums at h
    split at h
    · rename_i ht; injection h with h; injection h with _ h; subst h; subst ht
      exact ⟨[], rfl, by simp⟩
    · split at h
      · cases h
      · rename_i v' hv'
        split at h
        · split at h
          · rename_i vs r' heq
            injection h with h; injection h with _ h; subst h
            obtain ⟨body, hb, hn⟩ := readNums_shape base0 lo hi ts vs r' heq
            refine ⟨t :: body, by rw [hb]; rfl, ?_⟩
            intro x hx
            simp only [List.mem_cons] at hx
            rcases hx with rfl | hx
            · exact pyInt_neutral base0 _ v' hv'
            · exact hn x hx
          · cases h
        · cases h

theorem readFlts_shape (parseF : Text → Option Nat) (hP : FloatRejectsBrackets parseF) (ty : FltTy) :
    ∀ ts, LeafShape ts (readFlts parseF ty ts)
  | [] => by intro v r h; simp [readFlts] at h
  | t :: ts => by
    intro v r h
    unfold readFlts at h
    split at h
    · rename_i ht; injection h with h; injection h with _ h; subst h; subst ht
      exact ⟨[], rfl, by simp⟩
    · split at h
      · cases h
      · rename_i b hb'
        split at h
        · split at h
          · rename_i vs r' heq
            injection h with h; injection h with _ h; subst h
            obtain ⟨body, hb, hn⟩ := readFlts_shape parseF hP ty ts vs r' heq
            refine ⟨t :: body, by rw [hb]; rfl, ?_⟩
            intro x hx
            simp only [List.mem_cons] at hx
            rcases hx with rfl | hx
            · exact parseF_neutral parseF hP _ b hb'
            · exact hn x hx
          · cases h
        · cases h

theorem readStr_shape (enc : Nat → Option Nat) : ∀ ts, LeafShape ts (readStr enc ts)
  | [] => by intro v r h; simp [readStr] at h
  | t :: ts => by
    intro v r h
    unfold readStr at h
    split at h
    · rename_i ht; injection h with h; injection h with _ h; subst h; subst ht
      exact ⟨[], rfl, by simp⟩
    · split at h
      · rename_i hq
        split at h
        · cases h
        · split at h
          · rename_i vs r' heq
            injection h with h; injection h with _ h; subst h
            obtain ⟨body, hb, hn⟩ := readStr_shape enc ts vs r' heq
            refine ⟨t :: body, by rw [hb]; rfl, ?_⟩
            intro x hx
            simp only [List.mem_cons] at hx
            rcases hx with rfl | hx
            · exact quoted_neutral _ hq
            · exact hn x hx
          · cases h
      · split at h
        · cases h
        · rename_i v' hv'
          split at h
          · split at h
            · rename_i vs r' heq
              injection h with h; injection h with _ h; subst h
              obtain ⟨body, hb, hn⟩ := readStr_shape enc ts vs r' heq
              refine ⟨t :: body, by rw [hb]; rfl, ?_⟩
              intro x hx
              simp only [List.mem_cons] at hx
              rcases hx with rfl | hx
              · exact pyInt_neutral true _ v' hv'
              · exact hn x hx
            · cases h
          · cases h

theorem mapOk_shape {α β : Type} (g : α → β) (ts : List Text) (res : Except PErr (α × List Text)) (h : LeafShape ts res) :
    LeafShape ts (mapOk g res) := by
  intro v r hr
  cases res with
  | error e => simp [mapOk] at hr
  | ok p =>
    obtain ⟨a, r'⟩ := p
    simp only [mapOk] at hr
    injection hr with hr; injection hr with _ hr; subst hr
    exact h a r' rfl

theorem readLeaf_shape (parseF : Text → Option Nat) (hP : FloatRejectsBrackets parseF) (ty : Ty) (ts : List Text) :
    LeafShape ts (readLeaf parseF ty ts) := by
  cases ty with
  | l => intro v r h; simp [readLeaf] at h
  | b => exact mapOk_shape _ _ _ (readNums_shape _ _ _ ts)
  | boolean => exact mapOk_shape _ _ _ (readNums_shape _ _ _ ts)
  | a => exact mapOk_shape _ _ _ (readStr_shape _ ts)
  | j => exact mapOk_shape _ _ _ (readStr_shape _ ts)
  | int t => exact mapOk_shape _ _ _ (readNums_shape _ _ _ ts)
  | flt t => exact mapOk_shape _ _ _ (readFlts_shape _ hP _ ts)

/-- a successful read consumed `pre` with `closesExactly 1 pre` (for an item: after its `<`) -/
def ClosedShape {α : Type} (ts : List Text) (res : Except PErr (α × List Text)) : Prop :=
  ∀ v r, res = .ok (v, r) → ∃ pre, ts = pre ++ r ∧ closesExactly 1 pre = true

theorem lengthCheck_neutral (len : Text) (n : Nat) (h : lengthCheck (some len) n = .ok ()) : neutral len = true := by
  unfold lengthCheck at h
  simp only at h
  split at h
  · cases h
  · rename_i v hv; exact pyInt_neutral false len v hv

theorem closesExactly_neutral_cons (t : Text) (ts : List Text) (d : Nat) (h : neutral t = true) :
    closesExactly d (t :: ts) = closesExactly d ts := by
  simp only [neutral, Bool.and_eq_true, Bool.not_eq_true', beq_eq_false_iff_ne, ne_eq] at h
  simp [closesExactly, h.1, h.2]

theorem readItems_shape (loop : List Text → Except PErr (List Item × List Text)) (ts : List Text)
    (hloop : ∀ ts', ClosedShape ts' (loop ts')) : ClosedShape ts (readItems loop ts) := by
  intro v r h
  unfold readItems at h
  split at h
  · cases h
  · rename_i p ts3
    split at h
    · rename_i hp
      split at h
      · cases h
      · cases h
      · rename_i len cl ts4
        split at h
        · cases h
        · rename_i hcl
          have hcl' : cl = [93] := by simpa using hcl
          split at h
          · cases h
          · rename_i xs r' heq
            split at h
            · cases h
            · rename_i hlc
              injection h with h; injection h with _ h; subst h
              obtain ⟨pre, hpre, hc⟩ := hloop ts4 xs r' heq
              refine ⟨p :: len :: cl :: pre, by rw [hpre]; rfl, ?_⟩
              rw [closesExactly_neutral_cons _ _ _ (by rw [hp]; decide),
                closesExactly_neutral_cons _ _ _ (lengthCheck_neutral len _ (by simpa using hlc)),
                closesExactly_neutral_cons _ _ _ (by rw [hcl']; decide)]
              exact hc
    · cases hl : loop (p :: ts3) with
      | error e => rw [hl] at h; simp [mapOk] at h
      | ok q =>
        obtain ⟨xs, r'⟩ := q
        rw [hl] at h
        simp only [mapOk] at h
        injection h with h; injection h with _ h; subst h
        exact hloop _ xs r' hl

/-- **accepted input is bracket-balanced** (for every fuel): the item reader consumed `<` followed by tokens that close that
bracket exactly at their end; the item loop consumed tokens that close the enclosing bracket exactly at their end -/
theorem read_shape (parseF : Text → Option Nat) (hP : FloatRejectsBrackets parseF) : ∀ f : Nat,
    (∀ ts v r, readItem parseF f ts = .ok (v, r) → ∃ pre, ts = [60] :: pre ++ r ∧ knownHead pre = true ∧ closesExactly 1 pre = true)
    ∧ (∀ ts, ClosedShape ts (readLoop parseF f ts)) := by
  intro f
  induction f with
  | zero => exact ⟨fun ts v r h => by simp [readItem] at h, fun ts v r h => by simp [readLoop] at h⟩
  | succ f ih =>
    constructor
    · intro ts v r h
      unfold readItem at h
      split at h
      · cases h
      · rename_i t0 ts1
        split at h
        · cases h
        · rename_i ht0
          have ht0' : t0 = [60] := by simpa using ht0
          split at h
          · cases h
          · rename_i ty ts2
            split at h
            · cases h
            · rename_i hty
              obtain ⟨pre, hpre, hc⟩ := readItems_shape _ ts2 ih.2 v r h
              refine ⟨ty :: pre, by rw [ht0', hpre]; rfl, by simp [knownHead, hty], ?_⟩
              rw [closesExactly_neutral_cons _ _ _ (typeOf_neutral ty _ hty)]
              exact hc
            · rename_i ty' _ hty
              obtain ⟨body, hb, hn⟩ := readLeaf_shape parseF hP ty' ts2 v r h
              refine ⟨ty :: (body ++ [[62]]), by rw [ht0', hb]; simp, by simp [knownHead, hty], ?_⟩
              rw [closesExactly_neutral_cons _ _ _ (typeOf_neutral ty _ hty)]
              exact closesExactly_neutrals body hn
    · intro ts v r h
      unfold readLoop at h
      split at h
      · cases h
      · rename_i t rest
        split at h
        · rename_i hc
          injection h with h; injection h with _ h; subst h
          refine ⟨[t], rfl, ?_⟩
          have h60 : t ≠ [60] := by intro e; subst e; exact absurd hc (by decide)
          simp [closesExactly, h60, hc]
        · split at h
          · cases h
          · rename_i x r' heq
            split at h
            · cases h
            · rename_i xs r'' heq2
              injection h with h; injection h with _ h; subst h
              obtain ⟨a, ha, hka, hca⟩ := ih.1 _ x r' heq
              obtain ⟨b, hb, hcb⟩ := ih.2 r' xs r'' heq2
              refine ⟨[60] :: a ++ b, by rw [ha, hb]; simp, ?_⟩
              simp only [List.cons_append, closesExactly, if_true]
              rw [knownHead_append a b hka, Bool.true_and, closesExactly_append a b 1 1 (by omega) (by omega) hca]
              exact hcb

/-! ### deleting a closing bracket -/

/-- `closesExactly` without the type-name check: brackets only -/
def bal : Nat → List Text → Bool
  | _, [] => false
  | d, t :: ts =>
    if t = [60] then bal (d + 1) ts
    else if isCloser t then (if d ≤ 1 then (d == 1 && ts.isEmpty) else bal (d - 1) ts)
    else bal d ts

theorem bal_of_closesExactly : ∀ (ts : List Text) (d : Nat), closesExactly d ts = true → bal d ts = true := by
  intro ts
  induction ts with
  | nil => intro d h; simp [closesExactly] at h
  | cons t ts ih =>
    intro d h
    simp only [closesExactly] at h
    simp only [bal]
    by_cases h60 : t = [60]
    · simp only [h60, if_true, Bool.and_eq_true] at h ⊢
      exact ih _ h.2
    · simp only [h60, if_false] at h ⊢
      by_cases hc : isCloser t = true
      · simp only [hc, if_true] at h ⊢
        by_cases hd : d ≤ 1
        · simpa only [hd, if_true] using h
        · simp only [hd, if_false] at h ⊢
          exact ih _ h
      · simp only [hc, Bool.false_eq_true, if_false] at h ⊢
        exact ih _ h

/-- scanning one level deeper, no prefix of a closing sequence closes -/
theorem bal_deeper : ∀ (b : List Text) (j : Nat), 1 ≤ j → bal j b = true → ∀ p r, b = p ++ r → bal (j + 1) p = false := by
  intro b
  induction b with
  | nil => intro j _ h; simp [bal] at h
  | cons t b ih =>
    intro j hj h p r hpr
    cases p with
    | nil => rfl
    | cons t' p' =>
      simp only [List.cons_append, List.cons.injEq] at hpr
      obtain ⟨rfl, hpr⟩ := hpr
      simp only [bal] at h ⊢
      by_cases h60 : t = [60]
      · simp only [h60, if_true] at h ⊢
        exact ih (j + 1) (by omega) h p' r hpr
      · simp only [h60, if_false] at h ⊢
        by_cases hc : isCloser t = true
        · simp only [hc, if_true] at h ⊢
          have hj1 : ¬ (j + 1 ≤ 1) := by omega
          simp only [hj1, if_false, Nat.add_sub_cancel]
          by_cases hd : j ≤ 1
          · simp only [hd, if_true, Bool.and_eq_true, List.isEmpty_iff] at h
            have hb : b = [] := h.2
            subst hb
            have : p' = [] := by
              cases p' with
              | nil => rfl
              | cons _ _ => simp at hpr
            subst this
            rfl
          · simp only [hd, if_false] at h
            have := ih (j - 1) (by omega) h p' r hpr
            rwa [show j - 1 + 1 = j by omega] at this
        · simp only [hc, Bool.false_eq_true, if_false] at h ⊢
          exact ih j hj h p' r hpr

/-- remove one closer from a sequence that closes exactly at its end: no prefix of the result closes -/
theorem bal_delete_closer : ∀ (a b : List Text) (c : Text) (d : Nat), 1 ≤ d → isCloser c = true →
    bal d (a ++ c :: b) = true → ∀ p r, a ++ b = p ++ r → bal d p = false := by
  intro a
  induction a with
  | nil =>
    intro b c d hd hc h p r hpr
    have h60 : c ≠ [60] := by intro e; subst e; exact absurd hc (by decide)
    simp only [List.nil_append, bal, h60, if_false, hc, if_true] at h
    simp only [List.nil_append] at hpr
    by_cases hd1 : d ≤ 1
    · simp only [hd1, if_true, Bool.and_eq_true, List.isEmpty_iff] at h
      have hb : b = [] := h.2
      subst hb
      have : p = [] := by
        cases p with
        | nil => rfl
        | cons _ _ => simp at hpr
      subst this; rfl
    · simp only [hd1, if_false] at h
      have := bal_deeper b (d - 1) (by omega) h p r hpr
      rwa [show d - 1 + 1 = d by omega] at this
  | cons t a ih =>
    intro b c d hd hc h p r hpr
    cases p with
    | nil => rfl
    | cons t' p' =>
      simp only [List.cons_append, List.cons.injEq] at hpr
      obtain ⟨rfl, hpr⟩ := hpr
      simp only [List.cons_append, bal] at h ⊢
      by_cases h60 : t = [60]
      · simp only [h60, if_true] at h ⊢
        exact ih b c (d + 1) (by omega) hc h p' r hpr
      · simp only [h60, if_false] at h ⊢
        by_cases hct : isCloser t = true
        · simp only [hct, if_true] at h ⊢
          by_cases hd1 : d ≤ 1
          · simp only [hd1, if_true, Bool.and_eq_true, List.isEmpty_iff] at h
            exact absurd h.2 (by simp)
          · simp only [hd1, if_false] at h ⊢
            exact ih b c (d - 1) (by omega) hc h p' r hpr
        · simp only [hct, Bool.false_eq_true, if_false] at h ⊢
          exact ih b c d hd hc h p' r hpr

theorem balancedItem_bal (ts : List Text) (h : balancedItem ts = true) : ∃ tl, ts = [60] :: tl ∧ bal 1 tl = true := by
  cases ts with
  | nil => simp [balancedItem] at h
  | cons t tl =>
    simp only [balancedItem, Bool.and_eq_true, beq_iff_eq] at h
    exact ⟨tl, by rw [h.1.1], bal_of_closesExactly tl 1 h.2⟩

/-- a fully bracketed item with one closer removed has no prefix that is a balanced item -/
theorem balancedItem_delete_closer (a b : List Text) (c : Text) (hc : isCloser c = true)
    (h : balancedItem (a ++ c :: b) = true) : ∀ p r, a ++ b = p ++ r → balancedItem p = false := by
  obtain ⟨tl, htl, hb⟩ := balancedItem_bal _ h
  intro p r hpr
  cases a with
  | nil =>
    simp only [List.nil_append, List.cons.injEq] at htl
    have : c = [60] := htl.1
    subst this; exact absurd hc (by decide)
  | cons t a' =>
    simp only [List.cons_append, List.cons.injEq] at htl
    obtain ⟨rfl, rfl⟩ := htl
    cases p with
    | nil => rfl
    | cons t' p' =>
      simp only [List.cons_append, List.cons.injEq] at hpr
      obtain ⟨rfl, hpr⟩ := hpr
      cases hbp : balancedItem ([60] :: p') with
      | false => rfl
      | true =>
        obtain ⟨tl', htl', hb'⟩ := balancedItem_bal _ hbp
        simp only [List.cons.injEq, true_and] at htl'
        subst htl'
        rw [bal_delete_closer a' b c 1 (by omega) hc hb p' r hpr] at hb'
        cases hb'

end SecsModel.Proofs.Sml
