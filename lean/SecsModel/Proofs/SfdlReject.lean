import SecsModel.Proofs.SfdlParse
/-!
# Proofs.SfdlReject — what the validation (`_process_tokens`) never accepts

* a tree that uses an unknown item name (`procElem_dicho`, `validate_unknown`);
* any element list in which every non-empty prefix has more `<` than `>` (`walk`, `validate_open`): an accepted element is
  bracket-balanced, so it would bring the depth back to 0;
* hence every proper prefix of a definition's tokens (`validate_truncated`) and every variant with one closing bracket
  deleted (`dels`, `validate_missing_close`).
All statements hold for every fuel value, so "error" is never the out-of-fuel artefact alone: `validate` supplies more fuel
than a run can use (`need_le`).
-/
namespace SecsModel.Proofs.Sfdl
open SecsModel SecsModel.Spec.Sfdl SecsModel.Model.Sfdl

/-! ## unknown item names -/

/-- a name that is neither an attribute of the `data_items` module nor the list tag -/
def unknownItem (n : Name) : Bool := !attrKnown n && n != capL

/-- the tree uses an unknown item name -/
def hasUnknown (d : Def) : Bool := (itemNames d).any unknownItem

theorem hasUnknown_item (n : Name) : hasUnknown (.item n) = unknownItem n := by simp [hasUnknown, itemNames]
theorem hasUnknown_list (nm : Option Name) (ms : List Def) : hasUnknown (.list nm ms) = (itemNamesL ms).any unknownItem := by
  simp [hasUnknown, itemNames]
theorem anyUnknown_cons (m : Def) (ms : List Def) :
    (itemNamesL (m :: ms)).any unknownItem = (hasUnknown m || (itemNamesL ms).any unknownItem) := by
  simp [hasUnknown, itemNamesL, List.any_append]

mutual
/-- validation of the tokens of any tree of words either fails, or the tree has no unknown item and exactly its tokens are consumed -/
theorem procElem_dicho : ∀ (d : Def) (f : Nat) (rest : List Name), wordsOk d = true →
    (∃ e, procElem f (tokensOf d ++ rest) = .error e) ∨ (hasUnknown d = false ∧ ∃ ts, procElem f (tokensOf d ++ rest) = .ok (ts, rest))
  | d, 0, rest, _ => Or.inl ⟨.other, by simp [procElem]⟩
  | .item n, f + 1, rest, _ => by
    rw [tokensOf, hasUnknown_item]
    by_cases hL : n = capL
    · subst hL
      cases f with
      | zero => exact Or.inl ⟨.other, by simp [procElem, procLoop]⟩
      | succ f => exact Or.inr ⟨by decide, by simp [procElem, procLoop, procClose, inLtGt]⟩
    · have hL' : (n != capL) = true := by simpa using hL
      cases hk : attrKnown n with
      | true => exact Or.inr ⟨by simp [unknownItem, hk], by simp [procElem, hL', hk, procClose]⟩
      | false => exact Or.inl ⟨.parseError, by simp [procElem, hL', hk]⟩
  | .list none ms, f + 1, rest, hw => by
    rw [wordsOk] at hw
    simp only [Bool.true_and] at hw
    rw [tokensOf, hasUnknown_list]
    simp only [List.nil_append, List.cons_append, List.append_assoc]
    obtain ⟨k, tl, hk'⟩ : ∃ k tl, tokensOfList ms ++ gt :: rest = k :: tl ∧ inLtGt k = true := by
      cases ms with
      | nil => exact ⟨gt, rest, by simp [tokensOfList], by decide⟩
      | cons m ms =>
        obtain ⟨tl, h⟩ := tokensOf_head m
        exact ⟨lt, _, by rw [tokensOfList, h]; rfl, by decide⟩
    rcases procLoop_dicho ms f rest hw with ⟨e, he⟩ | ⟨hu, ts, hts⟩
    · rw [hk'.1] at he ⊢
      exact Or.inl ⟨e, by simp [procElem, hk'.2, he]⟩
    · rw [hk'.1] at hts ⊢
      exact Or.inr ⟨hu, by simp [procElem, hk'.2, hts, procClose]⟩
  | .list (some x) ms, f + 1, rest, hw => by
    rw [wordsOk] at hw
    simp only [Bool.and_eq_true] at hw
    have hx := word_not_ltgt hw.1
    rw [tokensOf, hasUnknown_list]
    simp only [List.nil_append, List.cons_append, List.append_assoc]
    rcases procLoop_dicho ms f rest hw.2 with ⟨e, he⟩ | ⟨hu, ts, hts⟩
    · exact Or.inl ⟨e, by simp [procElem, hx, he]⟩
    · exact Or.inr ⟨hu, by simp [procElem, hx, hts, procClose]⟩
theorem procLoop_dicho : ∀ (ms : List Def) (f : Nat) (rest : List Name), wordsOkL ms = true →
    (∃ e, procLoop f (tokensOfList ms ++ gt :: rest) = .error e)
    ∨ ((itemNamesL ms).any unknownItem = false ∧ ∃ ts, procLoop f (tokensOfList ms ++ gt :: rest) = .ok (ts, gt :: rest))
  | ms, 0, rest, _ => Or.inl ⟨.other, by simp [procLoop]⟩
  | [], f + 1, rest, _ => Or.inr ⟨by simp [itemNamesL], by simp [tokensOfList, procLoop, inLtGt]⟩
  | m :: ms, f + 1, rest, hw => by
    rw [wordsOkL] at hw
    simp only [Bool.and_eq_true] at hw
    obtain ⟨tl, htl⟩ := tokensOf_head m
    have h3 : inLtGt lt = true := by decide
    have hne : (lt == gt) = false := by decide
    rw [tokensOfList, List.append_assoc, anyUnknown_cons]
    rcases procElem_dicho m f (tokensOfList ms ++ gt :: rest) hw.1 with ⟨e, he⟩ | ⟨hu, ts, hts⟩
    · rw [htl] at he ⊢
      simp only [List.cons_append] at he ⊢
      exact Or.inl ⟨e, by simp only [procLoop, h3, Bool.not_true, Bool.false_eq_true, if_false, hne, he]⟩
    · rcases procLoop_dicho ms f rest hw.2 with ⟨e, he⟩ | ⟨hu2, ts2, hts2⟩
      · rw [htl] at hts ⊢
        simp only [List.cons_append] at hts ⊢
        exact Or.inl ⟨e, by simp only [procLoop, h3, Bool.not_true, Bool.false_eq_true, if_false, hne, hts, he]⟩
      · rw [htl] at hts ⊢
        simp only [List.cons_append] at hts ⊢
        exact Or.inr ⟨by simp [hu, hu2], ts ++ ts2, by simp only [procLoop, h3, Bool.not_true, Bool.false_eq_true, if_false, hne, hts, hts2]⟩
end

/-- **an unknown data item name is rejected** (whatever else the definition contains) -/
theorem validate_unknown (d : Def) (hw : wordsOk d = true) (hu : hasUnknown d = true) :
    ∃ e, validate (tokensOf d) = .error e := by
  rcases procElem_dicho d (2 * (tokensOf d).length + 2) [] hw with ⟨e, he⟩ | ⟨h, _⟩
  · rw [List.append_nil] at he
    exact ⟨e, by simp [validate, he]⟩
  · rw [hu] at h; exact absurd h (by decide)


/-! ## unbalanced brackets -/

/-- walk over the elements from bracket depth `n`; fails as soon as the depth is 0 after an element.  `walk 0 es = some _`
says: every non-empty prefix of `es` has more `<` than `>` -/
def walk : Nat → List Name → Option Nat
  | n, [] => some n
  | n, e :: es =>
    if e = lt then walk (n + 1) es
    else if e = gt then (if 2 ≤ n then walk (n - 1) es else none)
    else (if 1 ≤ n then walk n es else none)

theorem walk_lt (n : Nat) (es : List Name) : walk n (lt :: es) = walk (n + 1) es := by simp [walk]
theorem walk_gt (n : Nat) (es : List Name) : walk (n + 1) (gt :: es) = if n = 0 then none else walk n es := by
  cases n <;> simp [walk]
theorem walk_word (n : Nat) (w : Name) (es : List Name) (h1 : w ≠ lt) (h2 : w ≠ gt) : walk (n + 1) (w :: es) = walk (n + 1) es := by
  simp [walk, h1, h2]

theorem attr_not_bracket {n : Name} (h : attrKnown n = true) : n ≠ lt ∧ n ≠ gt := by
  constructor <;> (intro e; subst e; revert h; decide +kernel)

theorem notLtGt_ne {k : Name} (h : inLtGt k = false) : k ≠ lt ∧ k ≠ gt := by
  simp only [inLtGt, Bool.or_eq_false_iff, beq_eq_false_iff_ne] at h
  exact ⟨h.1.1.2, h.1.2⟩

mutual
/-- an element that validates is bracket-balanced: from depth 0 the walk fails at its closing bracket, from a positive depth it
continues behind it -/
theorem walk_procElem : ∀ (f : Nat) (es rest : List Name) (ts : List Tok), procElem f es = .ok (ts, rest) →
    ∀ n, walk n es = if n = 0 then none else walk n rest
  | 0, es, rest, ts, h => by simp [procElem] at h
  | f + 1, es, rest, ts, h => by
    intro n
    match es, h with
    | [], h => simp [procElem] at h
    | [o], h => by_cases ho : o = lt <;> simp [procElem, ho] at h
    | o :: nm :: es', h =>
      rcases Decidable.em (¬ o = lt) with ho | ho
      · simp [procElem, ho] at h
      have ho := Decidable.not_not.mp ho
      subst ho
      by_cases hL : nm = capL
      · subst hL
        -- a list
        match es', h with
        | [], h => simp [procElem] at h
        | k :: es'', h =>
          simp only [procElem, bne_self_eq_false, Bool.false_eq_true, if_false] at h
          cases hk : inLtGt k with
          | true =>
            simp only [hk, Bool.not_true, Bool.false_eq_true, if_false] at h
            split at h
            · exact absurd h (by simp)
            · rename_i ts1 es1 hl
              split at h
              · exact absurd h (by simp)
              · rename_i c es2 hc
                have hes1 : es1 = gt :: rest := by
                  unfold procClose at hc
                  split at hc
                  · exact absurd hc (by simp)
                  · rename_i c' es3
                    split at hc
                    · exact absurd hc (by simp)
                    · rename_i hcg
                      simp only [Except.ok.injEq, Prod.mk.injEq] at hc h
                      have : c' = gt := by simpa using hcg
                      rw [this, hc.2, h.2]
                have hw := walk_procLoop f (k :: es'') es1 ts1 hl (n + 1) (by omega)
                rw [walk_lt, walk_word n capL _ (by decide) (by decide), hw, hes1, walk_gt]
          | false =>
            simp only [hk, Bool.not_false, if_true] at h
            obtain ⟨hk1, hk2⟩ := notLtGt_ne hk
            split at h
            · exact absurd h (by simp)
            · rename_i ts1 es1 hl
              split at h
              · exact absurd h (by simp)
              · rename_i c es2 hc
                have hes1 : es1 = gt :: rest := by
                  unfold procClose at hc
                  split at hc
                  · exact absurd hc (by simp)
                  · rename_i c' es3
                    split at hc
                    · exact absurd hc (by simp)
                    · rename_i hcg
                      simp only [Except.ok.injEq, Prod.mk.injEq] at hc h
                      have : c' = gt := by simpa using hcg
                      rw [this, hc.2, h.2]
                have hw := walk_procLoop f es'' es1 ts1 hl (n + 1) (by omega)
                rw [walk_lt, walk_word n capL _ (by decide) (by decide), walk_word n k _ hk1 hk2, hw, hes1, walk_gt]
      · -- a data item
        have hL' : (nm != capL) = true := by simpa using hL
        simp only [procElem, bne_self_eq_false, Bool.false_eq_true, if_false, hL', if_true] at h
        cases hk : attrKnown nm with
        | false => simp [hk] at h
        | true =>
          simp only [hk, Bool.not_true, Bool.false_eq_true, if_false] at h
          obtain ⟨h1, h2⟩ := attr_not_bracket hk
          split at h
          · exact absurd h (by simp)
          · rename_i c es2 hc
            have hes : es' = gt :: rest := by
              unfold procClose at hc
              split at hc
              · exact absurd hc (by simp)
              · rename_i c' es3
                split at hc
                · exact absurd hc (by simp)
                · rename_i hcg
                  simp only [Except.ok.injEq, Prod.mk.injEq] at hc h
                  have : c' = gt := by simpa using hcg
                  rw [this, hc.2, h.2]
            rw [walk_lt, walk_word n nm _ h1 h2, hes, walk_gt]
/-- the members a list loop accepts leave the depth where it was -/
theorem walk_procLoop : ∀ (f : Nat) (es rest : List Name) (ts : List Tok), procLoop f es = .ok (ts, rest) →
    ∀ n, 1 ≤ n → walk n es = walk n rest
  | 0, es, rest, ts, h => by simp [procLoop] at h
  | f + 1, es, rest, ts, h => by
    intro n hn
    match es, h with
    | [], h => simp [procLoop] at h
    | e :: es', h =>
      simp only [procLoop] at h
      cases he : inLtGt e with
      | false => simp [he] at h
      | true =>
        simp only [he, Bool.not_true, Bool.false_eq_true, if_false] at h
        cases heg : (e == gt) with
        | true =>
          simp only [heg, if_true, Except.ok.injEq, Prod.mk.injEq] at h
          rw [h.2]
        | false =>
          simp only [heg, Bool.false_eq_true, if_false] at h
          split at h
          · exact absurd h (by simp)
          · rename_i ts1 es1 h1
            split at h
            · exact absurd h (by simp)
            · rename_i ts2 es2 h2
              simp only [Except.ok.injEq, Prod.mk.injEq] at h
              have w1 := walk_procElem f (e :: es') es1 ts1 h1 n
              have w2 := walk_procLoop f es1 es2 ts2 h2 n hn
              rw [w1, if_neg (by omega), w2, h.2]
end

/-- **bracket criterion**: a list of elements in which every non-empty prefix has more `<` than `>` is never accepted -/
theorem validate_open (es : List Name) (m : Nat) (h : walk 0 es = some m) : ∃ e, validate es = .error e := by
  unfold validate
  split
  · rename_i e _; exact ⟨e, rfl⟩
  · rename_i ts rest hp
    have := walk_procElem _ es rest ts hp 0
    rw [h] at this
    simp at this


theorem word_ne {x : Name} (h : isWord x = true) : x ≠ lt ∧ x ≠ gt := notLtGt_ne (word_not_ltgt h)

mutual
/-- inside an open bracket the tokens of a complete definition leave the depth unchanged -/
theorem walk_def : ∀ (d : Def) (n : Nat) (rest : List Name), wordsOk d = true →
    walk (n + 1) (tokensOf d ++ rest) = walk (n + 1) rest
  | .item nm, n, rest, hw => by
    rw [wordsOk] at hw
    obtain ⟨h1, h2⟩ := word_ne hw
    rw [tokensOf]
    simp only [List.cons_append, List.nil_append]
    rw [walk_lt, walk_word _ nm _ h1 h2, walk_gt]
    simp
  | .list none ms, n, rest, hw => by
    rw [wordsOk] at hw
    simp only [Bool.true_and] at hw
    rw [tokensOf]
    simp only [List.cons_append, List.nil_append, List.append_assoc]
    rw [walk_lt, walk_word _ capL _ (by decide) (by decide), walk_members ms (n + 1) _ hw]
    rw [walk_gt]
    simp
  | .list (some x) ms, n, rest, hw => by
    rw [wordsOk] at hw
    simp only [Bool.and_eq_true] at hw
    obtain ⟨h1, h2⟩ := word_ne hw.1
    rw [tokensOf]
    simp only [List.cons_append, List.nil_append, List.append_assoc]
    rw [walk_lt, walk_word _ capL _ (by decide) (by decide), walk_word _ x _ h1 h2, walk_members ms (n + 1) _ hw.2]
    rw [walk_gt]
    simp
theorem walk_members : ∀ (ms : List Def) (n : Nat) (rest : List Name), wordsOkL ms = true →
    walk (n + 1) (tokensOfList ms ++ rest) = walk (n + 1) rest
  | [], n, rest, _ => by simp [tokensOfList]
  | m :: ms, n, rest, hw => by
    rw [wordsOkL] at hw
    simp only [Bool.and_eq_true] at hw
    rw [tokensOfList, List.append_assoc, walk_def m n _ hw.1, walk_members ms n rest hw.2]
end

/-- a prefix of a walk that succeeds succeeds -/
theorem walk_prefix (a b : List Name) : ∀ n m, walk n (a ++ b) = some m → ∃ m', walk n a = some m' := by
  induction a with
  | nil => intro n m _; exact ⟨n, rfl⟩
  | cons e t ih =>
    intro n m h
    simp only [List.cons_append, walk] at h ⊢
    by_cases h1 : e = lt
    · simp only [h1, if_true] at h ⊢; exact ih _ _ h
    · by_cases h2 : e = gt
      · simp only [h1, h2, if_false, if_true] at h ⊢
        by_cases h3 : 2 ≤ n
        · simp only [h3, if_true] at h ⊢; exact ih _ _ h
        · simp [h3] at h
      · simp only [h1, h2, if_false] at h ⊢
        by_cases h3 : 1 ≤ n
        · simp only [h3, if_true] at h ⊢; exact ih _ _ h
        · simp [h3] at h

/-- what stands between the outer brackets of a definition -/
def bodyOf : Def → List Name
  | .item n => [n]
  | .list nm ms => capL :: ((match nm with | none => [] | some x => [x]) ++ tokensOfList ms)

theorem tokensOf_body (d : Def) : tokensOf d = lt :: (bodyOf d ++ [gt]) := by
  cases d with
  | item n => simp [tokensOf, bodyOf]
  | list nm ms => cases nm <;> simp [tokensOf, bodyOf]

theorem walk_body (d : Def) (hw : wordsOk d = true) (rest : List Name) : walk 1 (bodyOf d ++ rest) = walk 1 rest := by
  cases d with
  | item n =>
    rw [wordsOk] at hw
    obtain ⟨h1, h2⟩ := word_ne hw
    simp only [bodyOf, List.cons_append, List.nil_append]
    exact walk_word 0 n _ h1 h2
  | list nm ms =>
    cases nm with
    | none =>
      rw [wordsOk] at hw
      simp only [Bool.true_and] at hw
      simp only [bodyOf, List.nil_append, List.cons_append]
      rw [walk_word 0 capL _ (by decide) (by decide)]
      exact walk_members ms 0 _ hw
    | some x =>
      rw [wordsOk] at hw
      simp only [Bool.and_eq_true] at hw
      obtain ⟨h1, h2⟩ := word_ne hw.1
      simp only [bodyOf, List.cons_append, List.nil_append, List.append_assoc]
      rw [walk_word 0 capL _ (by decide) (by decide), walk_word 0 x _ h1 h2]
      exact walk_members ms 0 _ hw.2

theorem prefix_of_snoc {α} (p s a : List α) (g : α) (h : p ++ s = a ++ [g]) (hs : s ≠ []) : ∃ t, a = p ++ t := by
  induction p generalizing a with
  | nil => exact ⟨a, rfl⟩
  | cons x p ih =>
    cases a with
    | nil =>
      simp only [List.cons_append, List.nil_append, List.cons.injEq] at h
      have : p ++ s = [] := h.2
      simp at this
      exact absurd this.2 hs
    | cons y a =>
      simp only [List.cons_append, List.cons.injEq] at h
      obtain ⟨t, ht⟩ := ih a h.2
      exact ⟨t, by rw [h.1, ht]; rfl⟩

/-- **a truncated definition is rejected**: every proper prefix of the tokens of a definition -/
theorem validate_truncated (d : Def) (hw : wordsOk d = true) (p s : List Name) (h : tokensOf d = p ++ s) (hs : s ≠ []) :
    ∃ e, validate p = .error e := by
  rw [tokensOf_body] at h
  have h' : p ++ s = (lt :: bodyOf d) ++ [gt] := by rw [← h]; rfl
  obtain ⟨t, ht⟩ := prefix_of_snoc p s (lt :: bodyOf d) gt h' hs
  have hwalk : walk 0 (lt :: bodyOf d) = some 1 := by
    rw [walk_lt]
    have := walk_body d hw []
    simpa [walk] using this
  rw [ht] at hwalk
  obtain ⟨m, hm⟩ := walk_prefix p t 0 1 hwalk
  exact validate_open p m hm

/-! ## one closing bracket missing -/

mutual
/-- the token lists obtained from a definition by deleting one closing bracket (any one) -/
def dels : Def → List (List Name)
  | .item n => [[lt, n]]
  | .list nm ms =>
    (lt :: capL :: ((match nm with | none => [] | some x => [x]) ++ tokensOfList ms))
      :: (delsL ms).map (fun b => lt :: capL :: ((match nm with | none => [] | some x => [x]) ++ (b ++ [gt])))
def delsL : List Def → List (List Name)
  | [] => []
  | m :: ms => (dels m).map (fun t => t ++ tokensOfList ms) ++ (delsL ms).map (fun b => tokensOf m ++ b)
end

mutual
theorem walk_dels : ∀ (d : Def) (t : List Name) (n : Nat) (rest : List Name), wordsOk d = true → t ∈ dels d →
    walk n (t ++ rest) = walk (n + 1) rest
  | .item nm, t, n, rest, hw, ht => by
    rw [wordsOk] at hw
    obtain ⟨h1, h2⟩ := word_ne hw
    simp only [dels, List.mem_singleton] at ht
    subst ht
    simp only [List.cons_append, List.nil_append]
    rw [walk_lt, walk_word _ nm _ h1 h2]
  | .list none ms, t, n, rest, hw, ht => by
    rw [wordsOk] at hw
    simp only [Bool.true_and] at hw
    simp only [dels, List.nil_append, List.mem_cons, List.mem_map] at ht
    rcases ht with rfl | ⟨b, hb, rfl⟩
    · simp only [List.cons_append, List.append_assoc]
      rw [walk_lt, walk_word _ capL _ (by decide) (by decide), walk_members ms n _ hw]
    · simp only [List.cons_append, List.append_assoc, List.singleton_append]
      rw [walk_lt, walk_word _ capL _ (by decide) (by decide), walk_delsL ms b n _ hw hb, walk_gt]
      simp
  | .list (some x) ms, t, n, rest, hw, ht => by
    rw [wordsOk] at hw
    simp only [Bool.and_eq_true] at hw
    obtain ⟨h1, h2⟩ := word_ne hw.1
    simp only [dels, List.mem_cons, List.mem_map] at ht
    rcases ht with rfl | ⟨b, hb, rfl⟩
    · simp only [List.cons_append, List.append_assoc, List.nil_append]
      rw [walk_lt, walk_word _ capL _ (by decide) (by decide), walk_word _ x _ h1 h2, walk_members ms n _ hw.2]
    · simp only [List.cons_append, List.append_assoc, List.singleton_append, List.nil_append]
      rw [walk_lt, walk_word _ capL _ (by decide) (by decide), walk_word _ x _ h1 h2, walk_delsL ms b n _ hw.2 hb, walk_gt]
      simp
theorem walk_delsL : ∀ (ms : List Def) (b : List Name) (n : Nat) (rest : List Name), wordsOkL ms = true → b ∈ delsL ms →
    walk (n + 1) (b ++ rest) = walk (n + 2) rest
  | [], b, n, rest, _, hb => by simp [delsL] at hb
  | m :: ms, b, n, rest, hw, hb => by
    rw [wordsOkL] at hw
    simp only [Bool.and_eq_true] at hw
    simp only [delsL, List.mem_append, List.mem_map] at hb
    rcases hb with ⟨t, ht, rfl⟩ | ⟨b', hb', rfl⟩
    · rw [List.append_assoc, walk_dels m t (n + 1) _ hw.1 ht, walk_members ms (n + 1) rest hw.2]
    · rw [List.append_assoc, walk_def m n _ hw.1, walk_delsL ms b' n rest hw.2 hb']
end

/-- **a definition with one closing bracket missing is rejected**, whichever bracket it is -/
theorem validate_missing_close (d : Def) (hw : wordsOk d = true) (t : List Name) (ht : t ∈ dels d) :
    ∃ e, validate t = .error e := by
  have h := walk_dels d t 0 [] hw ht
  rw [List.append_nil] at h
  exact validate_open t 1 (by rw [h]; rfl)

end SecsModel.Proofs.Sfdl
