import SecsModel.Model.Ctrl
/-! Small shared definitions of the generated-machine obligations (kept apart so that `Proofs.SMGen` and `Proofs.Ctrl`, both
kernel-evaluation heavy, build in parallel). -/
namespace SecsModel.Proofs.SMGen
open SecsModel.Model.SM SecsModel.Model.Gem.Ctrl

/-- the state in which the machine rests in `c` with exact flags -/
def canon (m : MDef) (c : Nat) : St := { cur := c, active := canonFlags m c, log := [] }

/-- the documented values of `initial_control_state`, and the probe outcomes (`none` = still outstanding) -/
def probes : List (Option Probe) := [none, some .hostAnswers, some .hostSilent, some .hostAborts, some .notCommunicating]
def inits : List String := ["EQUIPMENT_OFFLINE", "ATTEMPT_ONLINE", "HOST_OFFLINE", "ONLINE"]

end SecsModel.Proofs.SMGen
