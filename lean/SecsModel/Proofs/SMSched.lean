import SecsModel.Model.SMSched
/-!
# Proofs.SMSched — with a critical section every interleaving is a serial order

Generic part: any deterministic thread program, any number of threads, one lock held from a thread's first atomic step to its
last.  Whatever the schedule, once every thread has finished the shared state is the one obtained by running the threads one
after the other in the order in which they took the lock.
Engine part: a thread running `_perform_transition` alone computes `Model.SM.perform`.
-/
namespace SecsModel.Proofs.SMSched
open SecsModel.Model.SM SecsModel.Model.SMSched

theorem runsTo_unique {σ τ : Type} {P : Prog σ τ} {sh l sh1 l1 sh2 l2} (h1 : RunsTo P sh l sh1 l1) (h2 : RunsTo P sh l sh2 l2) :
    sh1 = sh2 ∧ l1 = l2 := by
  induction h1 with
  | here hd =>
    cases h2 with
    | here _ => exact ⟨rfl, rfl⟩
    | more hn _ => rw [hd] at hn; cases hn
  | more hn _ ih =>
    cases h2 with
    | here hd => rw [hd] at hn; cases hn
    | more _ h2' => exact ih h2'

theorem serial_snoc {σ τ : Type} {P : Prog σ τ} {init : Nat → τ} {sh order mid j sh' l'}
    (hs : Serial P init sh order mid) (hr : RunsTo P mid (init j) sh' l') : Serial P init sh (order ++ [j]) sh' := by
  induction hs with
  | nil => exact Serial.cons hr Serial.nil
  | cons h1 _ ih => exact Serial.cons h1 (ih hr)

/-- the invariant of the locked system -/
def LInv {σ τ : Type} (P : Prog σ τ) (sh0 : σ) (init : Nat → τ) (s : Sys σ τ) : Prop :=
  ∃ order mid, order.Nodup ∧ Serial P init sh0 order mid ∧
    (∀ i, i ∈ order → P.done (s.loc i) = true ∧ P.done (init i) = false) ∧
    match s.lock with
    | none => s.sh = mid ∧ ∀ i, i ∉ order → s.loc i = init i
    | some j => j ∉ order ∧ P.done (s.loc j) = false ∧ P.done (init j) = false ∧
        (∀ sh' l', RunsTo P s.sh (s.loc j) sh' l' → RunsTo P mid (init j) sh' l') ∧
        ∀ i, i ∉ order → i ≠ j → s.loc i = init i

theorem linv_init {σ τ : Type} (P : Prog σ τ) (sh0 : σ) (init : Nat → τ) : LInv P sh0 init ⟨sh0, init, none⟩ :=
  ⟨[], sh0, List.nodup_nil, Serial.nil, by simp, rfl, fun _ _ => rfl⟩

theorem linv_step {σ τ : Type} (P : Prog σ τ) (sh0 : σ) (init : Nat → τ) (s : Sys σ τ) (i : Nat)
    (hinv : LInv P sh0 init s) : LInv P sh0 init (stepLocked P s i) := by
  obtain ⟨order, mid, hnd, hser, hdone, hlock⟩ := hinv
  unfold stepLocked
  cases hd : P.done (s.loc i) with
  | true => simp only [↓reduceIte]; exact ⟨order, mid, hnd, hser, hdone, hlock⟩
  | false =>
    simp only [Bool.false_eq_true, ↓reduceIte]
    have hi_not : i ∉ order := fun hm => by rw [(hdone i hm).1] at hd; cases hd
    -- the two ways a step is taken share this argument
    have take : ∀ (hinit : P.done (init i) = false)
        (hsuf : ∀ sh' l', RunsTo P s.sh (s.loc i) sh' l' → RunsTo P mid (init i) sh' l')
        (hoth : ∀ k, k ∉ order → k ≠ i → s.loc k = init k),
        LInv P sh0 init { sh := (P.step s.sh (s.loc i)).1, loc := upd s.loc i (P.step s.sh (s.loc i)).2,
                          lock := if P.done (P.step s.sh (s.loc i)).2 = true then none else some i } := by
      intro hinit hsuf hoth
      cases hd' : P.done (P.step s.sh (s.loc i)).2 with
      | true =>
        simp only [↓reduceIte]
        have hrun : RunsTo P mid (init i) (P.step s.sh (s.loc i)).1 (P.step s.sh (s.loc i)).2 :=
          hsuf _ _ (RunsTo.more hd (RunsTo.here hd'))
        refine ⟨order ++ [i], _, ?_, serial_snoc hser hrun, ?_, rfl, ?_⟩
        · exact List.nodup_append.mpr ⟨hnd, by simp, by intro a ha b hb; simp at hb; subst hb; exact fun e => hi_not (e ▸ ha)⟩
        · intro k hk
          rcases List.mem_append.mp hk with hk | hk
          · have : k ≠ i := fun e => hi_not (e ▸ hk)
            simp only [upd, this, ↓reduceIte]; exact hdone k hk
          · simp at hk; subst hk; simp only [upd, ↓reduceIte]; exact ⟨hd', hinit⟩
        · intro k hk
          have h1 : k ∉ order := fun hm => hk (List.mem_append_left _ hm)
          have h2 : k ≠ i := fun e => hk (by simp [e])
          simp only [upd, h2, ↓reduceIte]; exact hoth k h1 h2
      | false =>
        simp only [Bool.false_eq_true, ↓reduceIte]
        refine ⟨order, mid, hnd, hser, ?_, hi_not, ?_, hinit, ?_, ?_⟩
        · intro k hk
          have : k ≠ i := fun e => hi_not (e ▸ hk)
          simp only [upd, this, ↓reduceIte]; exact hdone k hk
        · simp only [upd, ↓reduceIte]; exact hd'
        · intro sh' l' hr
          simp only [upd, ↓reduceIte] at hr
          exact hsuf _ _ (RunsTo.more hd hr)
        · intro k hk hki
          simp only [upd, hki, ↓reduceIte]; exact hoth k hk hki
    cases hl : s.lock with
    | none =>
      rw [hl] at hlock
      simp only
      obtain ⟨hsh, hoth⟩ := hlock
      have hloc : s.loc i = init i := hoth i hi_not
      refine take (by rw [← hloc]; exact hd) ?_ (fun k hk _ => hoth k hk)
      intro sh' l' hr
      rw [hsh, hloc] at hr; exact hr
    | some j =>
      rw [hl] at hlock
      simp only
      obtain ⟨hj, hjd, hji, hsuf, hoth⟩ := hlock
      by_cases hji' : j = i
      · subst hji'
        simp only [↓reduceIte]
        exact take hji hsuf hoth
      · simp only [hji', ↓reduceIte]
        refine ⟨order, mid, hnd, hser, hdone, ?_⟩
        rw [hl]; exact ⟨hj, hjd, hji, hsuf, hoth⟩

theorem linv_run {σ τ : Type} (P : Prog σ τ) (sh0 : σ) (init : Nat → τ) (sched : List Nat) :
    ∀ s, LInv P sh0 init s → LInv P sh0 init (runLocked P s sched) := by
  induction sched with
  | nil => intro s h; exact h
  | cons i rest ih => intro s h; exact ih _ (linv_step P sh0 init s i h)

/-- **Serialisability under the lock**, any number of threads: when every thread has finished, the shared state is that of the
serial execution in some order `order`, which lists exactly the threads that had anything to do, each once. -/
theorem locked_serial {σ τ : Type} (P : Prog σ τ) (sh0 : σ) (init : Nat → τ) (sched : List Nat)
    (hfin : ∀ i, P.done ((runLocked P ⟨sh0, init, none⟩ sched).loc i) = true) :
    ∃ order, order.Nodup ∧ (∀ i, i ∈ order ↔ P.done (init i) = false) ∧
      Serial P init sh0 order (runLocked P ⟨sh0, init, none⟩ sched).sh := by
  obtain ⟨order, mid, hnd, hser, hdone, hlock⟩ := linv_run P sh0 init sched _ (linv_init P sh0 init)
  cases hl : (runLocked P ⟨sh0, init, none⟩ sched).lock with
  | some j =>
    rw [hl] at hlock
    have := hlock.2.1
    rw [hfin j] at this; cases this
  | none =>
    rw [hl] at hlock
    obtain ⟨hsh, hoth⟩ := hlock
    refine ⟨order, hnd, fun i => ⟨fun hm => (hdone i hm).2, fun hnd' => ?_⟩, hsh ▸ hser⟩
    apply Classical.byContradiction
    intro hm
    have := hfin i
    rw [hoth i hm, hnd'] at this
    cases this

/-! ## the engine: a thread alone computes `perform` -/

theorem alone_is_perform (m : MDef) (h : Handlers) (f : Nat) (st : St) (name : String) :
    RunsTo (prog m h f) st (start name) (perform m h (f+1) st name).st ⟨name, .done (perform m h (f+1) st name).err⟩ := by
  have hereD : ∀ (s : St) (e : Option Fail), RunsTo (prog m h f) s ⟨name, .done e⟩ s ⟨name, .done e⟩ :=
    fun s e => RunsTo.here rfl
  simp only [perform]
  apply RunsTo.more rfl
  simp only [prog, lineStep, start]
  cases hl : lookup m name with
  | none => exact hereD _ _
  | some sd =>
    obtain ⟨srcs, dst⟩ := sd
    simp only
    apply RunsTo.more rfl
    simp only [lineStep]
    cases hc : srcs.contains st.cur with
    | false => exact hereD _ _
    | true =>
      simp only [↓reduceIte]
      apply RunsTo.more rfl
      simp only [lineStep]
      apply RunsTo.more rfl
      simp only [lineStep]
      cases h1 : SecsModel.Model.SM.leave m h f st st.cur (some dst) with
      | fail e s1 => exact hereD _ _
      | ok s1 =>
        simp only
        apply RunsTo.more rfl
        simp only [lineStep]
        apply RunsTo.more rfl
        simp only [lineStep]
        apply RunsTo.more rfl
        simp only [lineStep]
        cases h2 : SecsModel.Model.SM.enter m h f { s1 with cur := dst } dst (some s1.cur) with
        | fail e s2 => exact hereD _ _
        | ok s2 =>
          simp only
          apply RunsTo.more rfl
          simp only [lineStep]
          cases h3 : SecsModel.Model.SM.fire m h f s2 (.called name) with
          | fail e s3 => exact hereD _ _
          | ok s3 => exact hereD _ _

/-- **Two callers under a lock**: whatever the schedule, once both have returned the machine is in the state of
`a` then `b`, or of `b` then `a`, performed sequentially. -/
theorem two_locked_serial (m : MDef) (h : Handlers) (f : Nat) (st : St) (a b : String) (sched : List Nat)
    (hfin : ∀ i, isDone ((runLocked (prog m h f) (two st a b) sched).loc i) = true) :
    (runLocked (prog m h f) (two st a b) sched).sh = (perform m h (f+1) (perform m h (f+1) st a).st b).st ∨
    (runLocked (prog m h f) (two st a b) sched).sh = (perform m h (f+1) (perform m h (f+1) st b).st a).st := by
  obtain ⟨order, hnd, hmem, hser⟩ := locked_serial (prog m h f) st (two st a b).loc sched hfin
  have h0 : (0 : Nat) ∈ order := (hmem 0).mpr rfl
  have h1 : (1 : Nat) ∈ order := (hmem 1).mpr rfl
  have hle : ∀ i, i ∈ order → i = 0 ∨ i = 1 := by
    intro i hi
    have := (hmem i).mp hi
    simp only [prog, two] at this
    by_cases e0 : i = 0
    · exact Or.inl e0
    · by_cases e1 : i = 1
      · exact Or.inr e1
      · simp [e0, e1, idle, isDone] at this
  have run0 : ∀ s sh1 l, RunsTo (prog m h f) s ((two st a b).loc 0) sh1 l → sh1 = (perform m h (f+1) s a).st :=
    fun s sh1 l hr => (runsTo_unique hr (alone_is_perform m h f s a)).1
  have run1 : ∀ s sh1 l, RunsTo (prog m h f) s ((two st a b).loc 1) sh1 l → sh1 = (perform m h (f+1) s b).st :=
    fun s sh1 l hr => (runsTo_unique hr (alone_is_perform m h f s b)).1
  -- `order` is [0,1] or [1,0]
  match order, hnd, h0, h1, hle, hser with
  | [], _, h0, _, _, _ => simp at h0
  | [x], _, h0, h1, _, _ => simp at h0 h1; omega
  | x :: y :: z :: rest, hnd, _, _, hle, _ =>
    have hx := hle x (by simp); have hy := hle y (by simp); have hz := hle z (by simp)
    simp only [List.nodup_cons, List.mem_cons, not_or] at hnd
    omega
  | [x, y], hnd, _, _, hle, hser =>
    have hx := hle x (by simp); have hy := hle y (by simp)
    simp only [List.nodup_cons, List.mem_cons, not_or] at hnd
    cases hser with
    | cons r1 hs2 =>
      cases hs2 with
      | cons r2 hs3 =>
        cases hs3
        rcases hx with rfl | rfl <;> rcases hy with rfl | rfl
        · omega
        · left; have := run1 _ _ _ r2; rw [run0 _ _ _ r1] at this; exact this
        · right; have := run0 _ _ _ r2; rw [run1 _ _ _ r1] at this; exact this
        · omega

end SecsModel.Proofs.SMSched
