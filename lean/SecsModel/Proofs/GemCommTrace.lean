import SecsModel.Proofs.GemCommInv
/-!
# Proofs.GemCommTrace — the trace invariant behind clause 1 of C07 (established only after a completed exchange)
-/
namespace SecsModel.Proofs.GemComm
open SecsModel SecsModel.Spec.E30Comm SecsModel.Model.GemComm

/-! ## traces -/

theorem linkState_snoc (tr : List Obs) (o : Obs) : linkState (tr ++ [o]) = obsStep (linkState tr) o := by
  simp [linkState, List.foldl_append]

theorem s1f13Ids_append (a b : List Output) : s1f13Ids (a ++ b) = s1f13Ids a ++ s1f13Ids b := by
  induction a with
  | nil => rfl
  | cons x xs ih => cases x <;> simp [s1f13Ids, ih]

theorem s1f13Ids_map (q : List Nat) : s1f13Ids (q.map Output.txS1F13) = q := by
  induction q with
  | nil => rfl
  | cons x xs ih => simp [s1f13Ids, ih]

theorem just_extend {strict : Bool} {tr : List Obs} (x : Obs) (h : Justified strict tr)
    (h1 : x.input ≠ .linkLost) (h2 : x.input ≠ .disable) : Justified strict (tr ++ [x]) := by
  obtain ⟨tr₁, e, tr₂, rfl, hu, hc, hr⟩ := h
  refine ⟨tr₁, e, tr₂ ++ [x], by simp, hu, hc, ?_⟩
  intro y hy
  rcases List.mem_append.mp hy with hy | hy
  · exact hr y hy
  · simp at hy; subst hy; exact ⟨h1, h2⟩

theorem just_new {strict : Bool} {tr : List Obs} (e : Obs) (hu : isUp tr = true) (hc : Completes strict tr e) :
    Justified strict (tr ++ [e]) :=
  ⟨tr, e, [], rfl, hu, hc, by simp⟩

/-! ## what `perform` does to the fields the trace invariant talks about -/

@[simp] theorem perform_selected (s : State) (t : Trans) : (perform s t).1.selected = s.selected := by
  rw [perform_eq]
  obtain ⟨c, cn, l, a, b, n, m, q⟩ := s
  cases c <;> cases t <;> simp [allowed, leaveEffects_eq, enterEffects_eq]

@[simp] theorem perform_connected (s : State) (t : Trans) : (perform s t).1.connected = s.connected := by
  rw [perform_eq]
  obtain ⟨c, cn, l, a, b, n, m, q⟩ := s
  cases c <;> cases t <;> simp [allowed, leaveEffects_eq, enterEffects_eq]

theorem perform_comm (s : State) (t : Trans) :
    (perform s t).1.comm = (match allowed t s.comm with | some d => d | none => s.comm) := by
  rw [perform_eq]
  obtain ⟨c, cn, l, a, b, n, m, q⟩ := s
  cases c <;> cases t <;> simp [allowed, leaveEffects_eq, enterEffects_eq]

/-- either nothing about system bytes changes and no S1F13 is written, or a new S1F13 `k` becomes the outstanding one and is
written (connected) or queued (no connection) -/
def SysOk (s s' : State) (o : List Output) : Prop :=
  (s'.mySys = s.mySys ∧ s'.queued = s.queued ∧ s1f13Ids o = []) ∨
  (∃ k, s'.mySys = some k ∧ ((s.connected = true ∧ s1f13Ids o = [k] ∧ s'.queued = s.queued) ∨
                              (s.connected = false ∧ s1f13Ids o = [] ∧ s'.queued = s.queued ++ [k])))

theorem perform_sys (s : State) (t : Trans) : SysOk s (perform s t).1 (perform s t).2 := by
  rw [perform_eq]
  obtain ⟨c, cn, l, a, b, n, m, q⟩ := s
  cases c <;> cases t <;> cases cn <;> simp [SysOk, allowed, leaveEffects_eq, enterEffects_eq, sendS1F13, s1f13Ids]

/-! ## the trace invariant -/

structure TInv (cfg : Cfg) (s : State) (tr : List Obs) : Prop where
  conn : s.connected = isConn tr
  link : s.selected = isUp tr
  /-- with the system-bytes check: the outstanding S1F13 was written on this connection … -/
  myUp : cfg.sysChecked = true → s.connected = true → ∀ k, s.mySys = some k → k ∈ onLink tr
  /-- … or sits in the send queue while there is no connection -/
  myDown : cfg.sysChecked = true → s.connected = false → ∀ k, s.mySys = some k → k ∈ s.queued
  just : s.comm = .communicating → Justified cfg.sysChecked tr

theorem tinv_init (cfg : Cfg) : TInv cfg init [] := by
  constructor <;> simp [init, isConn, isUp, onLink, linkState]

/-- a step that neither connects, selects nor loses the link, described by `SysOk` -/
theorem tinv_plain (cfg : Cfg) (s s' : State) (tr : List Obs) (i : Input) (o : List Output) (h : TInv cfg s tr)
    (hi0 : i ≠ .linkConnected) (hi1 : i ≠ .linkSelected) (hi2 : i ≠ .linkLost)
    (hc : s'.connected = s.connected) (hl : s'.selected = s.selected) (hs : SysOk s s' o)
    (hj : s'.comm = .communicating → Justified cfg.sysChecked (tr ++ [⟨i, o⟩])) : TInv cfg s' (tr ++ [⟨i, o⟩]) := by
  have hst : linkState (tr ++ [⟨i, o⟩]) = { linkState tr with ids := if (linkState tr).connected then (linkState tr).ids ++ s1f13Ids o else (linkState tr).ids } := by
    rw [linkState_snoc]; cases i <;> simp_all [obsStep]
  have hcn : isConn tr = s.connected := h.conn.symm
  refine ⟨?_, ?_, ?_, ?_, hj⟩
  · simp [isConn, hst, hc]; exact h.conn
  · simp [isUp, hst, hl]; exact h.link
  · intro hck hl' k hk
    rw [hc] at hl'
    have hu : (linkState tr).connected = true := by simpa [isConn] using hcn.trans hl'
    simp only [onLink, hst, hu, if_true]
    rcases hs with ⟨h1, _, _⟩ | ⟨k', h1, ⟨_, h3, _⟩ | ⟨h2, _, _⟩⟩
    · exact List.mem_append_left _ (h.myUp hck hl' k (h1 ▸ hk))
    · rw [h1] at hk; cases hk; simp [h3]
    · simp [hl'] at h2
  · intro hck hl' k hk
    rw [hc] at hl'
    rcases hs with ⟨h1, h2, _⟩ | ⟨k', h1, ⟨h2, _, _⟩ | ⟨_, _, h4⟩⟩
    · rw [h2]; exact h.myDown hck hl' k (h1 ▸ hk)
    · simp [hl'] at h2
    · rw [h1] at hk; cases hk; simp [h4]

theorem perform_comm_stays (s : State) (t : Trans) (h1 : t ≠ .s1f14received) (h2 : t ≠ .s1f13received)
    (h : (perform s t).1.comm = .communicating) : s.comm = .communicating ∧ t ≠ .disable ∧ t ≠ .communicationfail := by
  rw [perform_comm] at h
  obtain ⟨c, cn, l, a, b, n, m, q⟩ := s
  cases c <;> cases t <;> simp_all [allowed]

theorem sysOk_refl (s : State) : SysOk s s [] := Or.inl ⟨rfl, rfl, rfl⟩

theorem sysOk_prefix {s s' : State} {o : List Output} (p : List Output) (hp : s1f13Ids p = []) (h : SysOk s s' o) : SysOk s s' (p ++ o) := by
  unfold SysOk at *
  simp only [s1f13Ids_append, hp, List.nil_append]
  exact h

theorem tinv_onMessage (cfg : Cfg) (hck : cfg.commackGate = true ∨ cfg.commackReq = 0) (s : State) (tr : List Obs)
    (sf f : Nat) (w : Bool) (sys : Nat) (ck : Option Nat) (h : TInv cfg s tr) (hl : s.selected = true) (hcn : s.connected = true) :
    TInv cfg (onMessage cfg s sf f w sys ck).1 (tr ++ [⟨.rx sf f w sys ck, (onMessage cfg s sf f w sys ck).2⟩]) := by
  have hup : isUp tr = true := h.link ▸ hl
  have stay : ∀ o : List Output, s1f13Ids o = [] → TInv cfg s (tr ++ [⟨.rx sf f w sys ck, o⟩]) := by
    intro o ho
    refine tinv_plain cfg s s tr _ o h (by simp) (by simp) (by simp) rfl rfl (Or.inl ⟨rfl, rfl, ho⟩) ?_
    intro hcomm
    exact just_extend _ (h.just hcomm) (by simp) (by simp)
  unfold onMessage
  rw [dispatchRow_eq]
  split
  · exact stay [] rfl
  · rename_i d e13 e14 x heq
    split
    · -- inbound S1F13 in the establishing branch
      rename_i h13
      simp only [Bool.and_eq_true, beq_iff_eq] at h13
      obtain ⟨⟨_, rfl⟩, rfl⟩ := h13
      split
      · exact stay _ (by simp [s1f13Ids])
      · rename_i hg
        have hck0 : cfg.commackReq = 0 := by
          rcases hck with hg' | h0
          · simpa [hg'] using hg
          · exact h0
        refine tinv_plain cfg s _ tr _ _ h (by simp) (by simp) (by simp) (perform_connected _ _) (perform_selected _ _)
          (sysOk_prefix _ (by simp [s1f13Ids]) (perform_sys _ _)) ?_
        intro _
        refine just_new _ hup (Or.inl ⟨w, sys, ck, rfl, ?_⟩)
        simp [hck0]
    · split
      · -- inbound S1F14
        rename_i h14
        simp only [Bool.and_eq_true, beq_iff_eq] at h14
        obtain ⟨⟨_, rfl⟩, rfl⟩ := h14
        split
        · exact stay [] rfl
        · rename_i hsys
          split
          · exact stay [] rfl
          · -- COMMACK 0
            refine tinv_plain cfg s _ tr _ _ h (by simp) (by simp) (by simp) (perform_connected _ _) (perform_selected _ _) (perform_sys _ _) ?_
            intro _
            refine just_new _ hup (Or.inr ⟨w, sys, rfl, ?_⟩)
            intro hs
            have : s.mySys = some sys := by simpa [hs] using hsys
            exact h.myUp hs hcn sys this
          · -- COMMACK ≠ 0
            refine tinv_plain cfg s _ tr _ _ h (by simp) (by simp) (by simp) (perform_connected _ _) (perform_selected _ _) (perform_sys _ _) ?_
            intro hcomm
            have := perform_comm_stays s _ (by simp) (by simp) hcomm
            exact just_extend _ (h.just this.1) (by simp) (by simp)
      · split
        · split
          · exact stay _ (by split <;> simp [s1f13Ids])
          · exact stay _ (by simp [s1f13Ids])
        · exact stay [] rfl

theorem tinv_perform_plain (cfg : Cfg) (s s0 : State) (tr : List Obs) (i : Input) (t : Trans) (hc : s.comm = s0.comm)
    (hcn : s.connected = s0.connected) (hlk : s.selected = s0.selected) (hm : s.mySys = s0.mySys) (hq : s.queued = s0.queued)
    (h : TInv cfg s tr) (hi0 : i ≠ .linkConnected)
    (hi1 : i ≠ .linkSelected) (hi2 : i ≠ .linkLost) (hi3 : i ≠ .disable)
    (ht1 : t ≠ .s1f14received) (ht2 : t ≠ .s1f13received) :
    TInv cfg (perform s0 t).1 (tr ++ [⟨i, (perform s0 t).2⟩]) := by
  have hs : SysOk s (perform s0 t).1 (perform s0 t).2 := by
    have := perform_sys s0 t
    unfold SysOk at *
    rw [hm, hq, hcn]; exact this
  refine tinv_plain cfg s _ tr i _ h hi0 hi1 hi2 (by rw [perform_connected, hcn]) (by rw [perform_selected, hlk]) hs ?_
  intro hcomm
  have := perform_comm_stays s0 t ht1 ht2 hcomm
  exact just_extend _ (h.just (hc ▸ this.1)) hi2 hi3

theorem tinv_select (cfg : Cfg) (s s0 : State) (hs0 : s0 = { s with connected := true, selected := true, queued := [] }) (tr : List Obs)
    (hc : CInv s) (h : TInv cfg s tr) (hl : s.selected = false) :
    TInv cfg (perform s0 .select).1 (tr ++ [⟨.linkSelected, s.queued.map Output.txS1F13 ++ (perform s0 .select).2⟩]) := by
  have hcn : (linkState tr).connected = s.connected := h.conn.symm
  have hst : linkState (tr ++ [⟨.linkSelected, s.queued.map Output.txS1F13 ++ (perform s0 .select).2⟩])
      = ⟨true, true, (if s.connected then (linkState tr).ids else []) ++ (s.queued ++ s1f13Ids (perform s0 .select).2)⟩ := by
    rw [linkState_snoc]; simp [obsStep, hcn, s1f13Ids_append, s1f13Ids_map]
  have hc0 : s0.connected = true := by rw [hs0]
  have hl0 : s0.selected = true := by rw [hs0]
  refine ⟨?_, ?_, ?_, ?_, ?_⟩
  · simp [isConn, hst, hc0]
  · simp [isUp, hst, hl0]
  · intro hs _ k hk
    simp only [onLink, hst]
    rcases perform_sys s0 .select with ⟨h1, _, _⟩ | ⟨k', h1, ⟨_, h3, _⟩ | ⟨h2, _, _⟩⟩
    · rw [h1, hs0] at hk
      by_cases hsc : s.connected = true
      · simp only [hsc, if_true]
        exact List.mem_append_left _ (h.myUp hs hsc k hk)
      · have hsc' : s.connected = false := by simpa using hsc
        exact List.mem_append_right _ (List.mem_append_left _ (h.myDown hs hsc' k hk))
    · rw [h1] at hk; cases hk; simp [h3]
    · simp [hc0] at h2
  · intro _ hl'; simp [hc0] at hl'
  · intro hcomm
    have := perform_comm_stays s0 _ (by simp) (by simp) hcomm
    have h2 : s.comm = .communicating := by have := this.1; rw [hs0] at this; exact this
    have := hc.up h2
    simp [hl] at this

theorem tinv_step (cfg : Cfg) (hck : cfg.commackGate = true ∨ cfg.commackReq = 0) (s : State) (tr : List Obs) (i : Input)
    (hc : CInv s) (h : TInv cfg s tr) : TInv cfg (step cfg s i).1 (tr ++ [⟨i, (step cfg s i).2⟩]) := by
  have stay : ∀ i : Input, i ≠ .linkConnected → i ≠ .linkSelected → i ≠ .linkLost → i ≠ .disable → TInv cfg s (tr ++ [⟨i, []⟩]) := by
    intro i h0 h1 h2 h3
    refine tinv_plain cfg s s tr _ [] h h0 h1 h2 rfl rfl (sysOk_refl s) ?_
    intro hcomm
    exact just_extend _ (h.just hcomm) h2 h3
  cases i with
  | enable =>
    simp only [step]
    exact tinv_perform_plain cfg s s tr _ _ rfl rfl rfl rfl rfl h (by simp) (by simp) (by simp) (by simp) (by simp) (by simp)
  | disable =>
    simp only [step]
    refine tinv_plain cfg s _ tr _ _ h (by simp) (by simp) (by simp) (perform_connected _ _) (perform_selected _ _) (perform_sys _ _) ?_
    intro hcomm
    have := perform_comm_stays s _ (by simp) (by simp) hcomm
    simp at this
  | t3Expired =>
    simp only [step]
    split
    · exact stay _ (by simp) (by simp) (by simp) (by simp)
    · exact tinv_perform_plain cfg s _ tr _ _ rfl rfl rfl rfl rfl h (by simp) (by simp) (by simp) (by simp) (by simp) (by simp)
  | delayExpired =>
    simp only [step]
    split
    · exact stay _ (by simp) (by simp) (by simp) (by simp)
    · exact tinv_perform_plain cfg s _ tr _ _ rfl rfl rfl rfl rfl h (by simp) (by simp) (by simp) (by simp) (by simp) (by simp)
  | rx sf f w sys ck =>
    simp only [step]
    split
    · exact stay _ (by simp) (by simp) (by simp) (by simp)
    · rename_i hl
      have hl : s.selected = true := by simpa using hl
      exact tinv_onMessage cfg hck s tr sf f w sys ck h hl (hc.sc hl)
  | linkConnected =>
    simp only [step]
    split
    · -- a connection exists already: nothing happens
      rename_i hcn
      have hu : (linkState tr).connected = true := by have := h.conn; rw [hcn] at this; exact this.symm
      have hst : linkState (tr ++ [⟨.linkConnected, []⟩]) = linkState tr := by
        rw [linkState_snoc]
        have : linkState tr = ⟨(linkState tr).connected, (linkState tr).selected, (linkState tr).ids⟩ := rfl
        rw [this]; simp [obsStep, hu, s1f13Ids]
      refine ⟨?_, ?_, ?_, ?_, ?_⟩
      · simp [isConn, hst]; exact h.conn
      · simp [isUp, hst]; exact h.link
      · intro hs hl' k hk; simp only [onLink, hst]; exact h.myUp hs hl' k hk
      · intro hs hl' k hk; exact h.myDown hs hl' k hk
      · intro hcomm; exact just_extend _ (h.just hcomm) (by simp) (by simp)
    · -- the connection comes up: the send queue is written
      rename_i hcn
      have hcn : s.connected = false := by simpa using hcn
      have hd : (linkState tr).connected = false := by have := h.conn; rw [hcn] at this; exact this.symm
      have hsl : s.selected = false := by
        cases hsel : s.selected with
        | false => rfl
        | true => have := hc.sc hsel; simp [hcn] at this
      have hst : linkState (tr ++ [⟨.linkConnected, s.queued.map Output.txS1F13⟩]) = ⟨true, false, s.queued⟩ := by
        rw [linkState_snoc]; simp [obsStep, hd, s1f13Ids_map]
      refine ⟨?_, ?_, ?_, ?_, ?_⟩
      · simp [isConn, hst]
      · simp [isUp, hst, hsl]
      · intro hs _ k hk
        simp only [onLink, hst]
        exact h.myDown hs hcn k hk
      · intro _ hl'; simp at hl'
      · intro hcomm; exact just_extend _ (h.just hcomm) (by simp) (by simp)
  | linkSelected =>
    simp only [step]
    split
    · -- already selected: a further Select.req changes nothing
      rename_i hl
      have hcn : s.connected = true := hc.sc hl
      have hu : (linkState tr).connected = true := by have := h.conn; rw [hcn] at this; exact this.symm
      have hsl : (linkState tr).selected = true := by have := h.link; rw [hl] at this; exact this.symm
      have hst : linkState (tr ++ [⟨.linkSelected, []⟩]) = linkState tr := by
        rw [linkState_snoc]
        have : linkState tr = ⟨(linkState tr).connected, (linkState tr).selected, (linkState tr).ids⟩ := rfl
        rw [this]; simp [obsStep, hu, hsl, s1f13Ids]
      refine ⟨?_, ?_, ?_, ?_, ?_⟩
      · simp [isConn, hst]; exact h.conn
      · simp [isUp, hst]; exact h.link
      · intro hs hl' k hk; simp only [onLink, hst]; exact h.myUp hs hl' k hk
      · intro hs hl' k hk; exact h.myDown hs hl' k hk
      · intro hcomm; exact just_extend _ (h.just hcomm) (by simp) (by simp)
    · rename_i hl
      simp only [hooked_comm, selects, Bool.and_self, if_true]
      exact tinv_select cfg s _ rfl tr hc h (by simpa using hl)
  | linkLost =>
    simp only [step]
    split
    · -- there is no connection
      rename_i hl
      have hl : s.connected = false := by simpa using hl
      have hsl : s.selected = false := by
        cases hsel : s.selected with
        | false => rfl
        | true => have := hc.sc hsel; simp [hl] at this
      have hst : linkState (tr ++ [⟨.linkLost, []⟩]) = ⟨false, false, []⟩ := by
        rw [linkState_snoc]; simp [obsStep]
      refine ⟨?_, ?_, ?_, ?_, ?_⟩
      · simp [isConn, hst, hl]
      · simp [isUp, hst, hsl]
      · intro _ hl'; simp [hl] at hl'
      · intro hs hl' k hk; exact h.myDown hs hl' k hk
      · intro hcomm; have := hc.up hcomm; simp [hsl] at this
    · simp only [hooked_disc, forwards, lossStates, Bool.true_and]
      generalize hs0 : ({ s with connected := false, selected := false, mySys := if cfg.sysChecked = true then none else s.mySys } : State) = s0
      have hs0c : s0.comm = s.comm := by rw [← hs0]
      have hs0l : s0.connected = false := by rw [← hs0]
      have hs0s : s0.selected = false := by rw [← hs0]
      have key : ∀ (s' : State) (o : List Output), s'.connected = false → s'.selected = false → SysOk s0 s' o → s'.comm ≠ .communicating →
          TInv cfg s' (tr ++ [⟨.linkLost, o⟩]) := by
        intro s' o hl' hsl' hsys hn
        have hst : linkState (tr ++ [⟨.linkLost, o⟩]) = ⟨false, false, []⟩ := by
          rw [linkState_snoc]; simp [obsStep]
        refine ⟨?_, ?_, ?_, ?_, ?_⟩
        · simp [isConn, hst, hl']
        · simp [isUp, hst, hsl']
        · intro _ hl''; simp [hl'] at hl''
        · intro hs _ k hk
          have hm0 : s0.mySys = none := by rw [← hs0]; simp [hs]
          rcases hsys with ⟨h1, _, _⟩ | ⟨k', h1, ⟨h2, _, _⟩ | ⟨_, _, h4⟩⟩
          · rw [h1, hm0] at hk; cases hk
          · simp [hs0l] at h2
          · rw [h1] at hk; cases hk; simp [h4]
        · intro hcomm; exact absurd hcomm hn
      split
      · rename_i hcm
        have hcm : s.comm = .communicating := by simpa [← hs0] using hcm
        refine key _ _ (by rw [perform_connected, hs0l]) (by rw [perform_selected, hs0s]) (perform_sys _ _) ?_
        rw [perform_comm, hs0c, hcm]; simp [allowed]
      · rename_i hcm
        refine key _ _ hs0l hs0s (sysOk_refl _) ?_
        simpa [← hs0] using hcm

theorem tinv_runFrom (cfg : Cfg) (hck : cfg.commackGate = true ∨ cfg.commackReq = 0) (is : List Input) :
    ∀ (s : State) (tr : List Obs), CInv s → TInv cfg s tr → TInv cfg (runFrom cfg s tr is).1 (runFrom cfg s tr is).2 := by
  induction is with
  | nil => intro s tr _ h; exact h
  | cons i is ih => intro s tr hc h; exact ih _ _ (cinv_step cfg s i hc) (tinv_step cfg hck s tr i hc h)

theorem tinv_run (cfg : Cfg) (hck : cfg.commackGate = true ∨ cfg.commackReq = 0) (h : List Input) :
    TInv cfg (run cfg h).1 (run cfg h).2 :=
  tinv_runFrom cfg hck h _ _ cinv_init (tinv_init cfg)

/-! ## outputs of `perform` -/

theorem perform_outputs (s : State) (t : Trans) (o : Output) (h : o ∈ (perform s t).2) :
    o = .wrongSource t ∨ (∃ k, o = .txS1F13 k) ∨ o = .blocked ∨
    (o = .evtCommunicating ∧ (perform s t).1.comm = .communicating ∧ s.comm ≠ .communicating) := by
  rw [perform_eq] at h ⊢
  obtain ⟨c, cn, l, a, b, n, m, q⟩ := s
  cases c <;> cases t <;> cases cn <;>
    simp_all [allowed, leaveEffects_eq, enterEffects_eq, sendS1F13]

end SecsModel.Proofs.GemComm
