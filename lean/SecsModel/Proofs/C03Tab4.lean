import SecsModel.Model.Catalogue
import SecsModel.Gen.DataItems
/-! C03 table obligations that concern whole tables: key uniqueness of both catalogues and the data item table
(kernel evaluation; a module of its own so that it is checked in parallel with the four row quarters). -/
namespace SecsModel.Proofs.C03Tab
open SecsModel SecsModel.Gen.Catalogue SecsModel.Model.Catalogue

theorem pyKeysDistinct : distinctKeys (py.map key) = true := by decide +kernel
theorem yamlKeysDistinct : distinctKeys (yaml.map key) = true := by decide +kernel

theorem distinctKeys_nodup : ∀ l : List (Nat × Nat), distinctKeys l = true → l.Nodup
  | [], _ => List.nodup_nil
  | k :: ks, h => by
    simp only [distinctKeys, Bool.and_eq_true, Bool.not_eq_true', List.contains_eq_mem, decide_eq_false_iff_not] at h
    exact List.nodup_cons.mpr ⟨h.1, distinctKeys_nodup ks h.2⟩

/-- pairwise different names -/
def distinctNames : List (List Char) → Bool
  | [] => true
  | k :: ks => !ks.contains k && distinctNames ks

theorem distinctNames_nodup : ∀ l : List (List Char), distinctNames l = true → l.Nodup
  | [], _ => List.nodup_nil
  | k :: ks, h => by
    simp only [distinctNames, Bool.and_eq_true, Bool.not_eq_true', List.contains_eq_mem, decide_eq_false_iff_not] at h
    exact List.nodup_cons.mpr ⟨h.1, distinctNames_nodup ks h.2⟩

open SecsModel.Gen.DataItems in
/-- the data item table, as one Boolean check -/
def dataItemsOk : Bool :=
  items.all (fun i => i.cls == i.name && moduleClasses.contains i.cls)
  && distinctNames (items.map (·.cls))
  && moduleClasses.all (fun c => (items.map (·.cls)).contains c && moduleAttrs.contains c
        && Model.Sfdl.upper c == c && c != Model.Sfdl.capL)

theorem dataItems_ok : dataItemsOk = true := by decide +kernel

end SecsModel.Proofs.C03Tab
